import LP.Proofs.ZeroAllocV1B
import LP.Proofs.ZeroAllocNG
/-
  LP.Proofs.ZeroAllocNGFull — zero-size allocations in `Variant.nftGuar` WITHOUT any restriction on
  the allocation entries (`ng_ReachZA`), part 1: the phase BEFORE the first `filter` call.

  A zero-size entry `(a, 0, 0, true)` of `addTicketsV1` creates the empty range `[f, f-1]`, a
  zero-size batch, the record `{0,0,0,1}`, a whitelist entry, and moves one ticket of the reserve
  (`nrWinning - 1`, `totalGuaranteed + 1`): a GHOST GUARANTEE, which cannot be simulated by erasure
  (LP/Props/C14zeroG.lean).  As for the v1 family (LP/Proofs/ZeroAllocV1A.lean) the real state `s`
  is therefore compared, in this phase, with the SHADOW

      zv_sh s U BU N TG = zv_g (z_w s (z_eraseR s.range) (z_eraseB s.batch) (zv_K …) s.claimed) [] U BU N TG

  (empty ranges / zero-size batches erased; whitelist, records, reserve replaced by a
  guarantee-free bookkeeping), which satisfies the invariant `ng_WF` of the original development
  and takes REAL steps: `addTicketsV1 l` is matched by `addTicketsV1 (zv_lst l)`, `blacklist l` by
  `blacklist (l restricted to the holders of a non-empty range)` (the fee refunds of the NFT hook
  are the same: an address without tickets never paid the fee), every other call by itself.  The
  reserve side is `GuarInvX s` (C12) on the REAL state plus `nrWinning + totalGuaranteed = T0`.
-/
namespace LP
open LP.FY LP.Events

/-! ### the endpoints that neither read nor write the guarantee bookkeeping -/

def zk_gindep : Call → Bool
  | .deposit | .setTicketPrice _ _ | .setPerTicket _ | .setConfStart _ | .setSelStart _
  | .setClaimStart _ | .setSupport _ | .pause | .unpause | .confirmNft | .setNftCost _
  | .sftSetup => true
  | _ => false

section
variable {W : List Nat} {U BU : Nat → Option UTS} {N TG : Nat}

theorem zk_confirmNft_g (s : State) (e : Env) :
    confirmNft (zv_g s W U BU N TG) e = mapR (zv_g · W U BU N TG) (confirmNft s e) := by
  unfold confirmNft
  z_peel

theorem zk_exec_g (hash : List Nat → List Nat) (t : Tx) (e : Env) (c : Call)
    (hc : zk_gindep c = true) (hg : t.s.variant.hasGuaranteed = true)
    (hsum : N + TG = t.s.nrWinning + t.s.totalGuaranteed) :
    exec hash (zv_gt t W U BU N TG) e c = mapR (zv_gt · W U BU N TG) (exec hash t e c) := by
  cases c with
  | confirmNft =>
    simp only [exec]
    show (confirmNft (zv_g t.s W U BU N TG) e >>= _) = _
    rw [zk_confirmNft_g]
    cases confirmNft t.s e <;> rfl
  | setNftCost c => simp only [exec, validCost]; z_peel
  | sftSetup => rfl
  | deposit => exact zv_exec_g hash t e _ rfl hg hsum
  | setTicketPrice tok a => exact zv_exec_g hash t e _ rfl hg hsum
  | setPerTicket a => exact zv_exec_g hash t e _ rfl hg hsum
  | setConfStart x => exact zv_exec_g hash t e _ rfl hg hsum
  | setSelStart x => exact zv_exec_g hash t e _ rfl hg hsum
  | setClaimStart x => exact zv_exec_g hash t e _ rfl hg hsum
  | setSupport a => exact zv_exec_g hash t e _ rfl hg hsum
  | pause => exact zv_exec_g hash t e _ rfl hg hsum
  | unpause => exact zv_exec_g hash t e _ rfl hg hsum
  | _ => simp [zk_gindep] at hc

end

theorem zk_step_g_frame {hash : List Nat → List Nat} {s s' : State} {e : Env} {c : Call} {o : Out}
    (hc : zk_gindep c = true) (hg : s.variant.hasGuaranteed = true)
    (h : step hash s e c = .ok (s', o)) :
    s'.whitelist = s.whitelist ∧ s'.uts = s.uts ∧ s'.blUts = s.blUts ∧
    s'.nrWinning = s.nrWinning ∧ s'.totalGuaranteed = s.totalGuaranteed := by
  obtain ⟨m, t, _, _, _, hx, rfl, rfl⟩ := step_ok_inv h
  have h2 := zk_exec_g (W := s.whitelist) (U := s.uts) (BU := s.blUts) (N := s.nrWinning)
    (TG := s.totalGuaranteed) hash (tx0 s e) e c hc hg rfl
  have h3 : zv_gt (tx0 s e) s.whitelist s.uts s.blUts s.nrWinning s.totalGuaranteed = tx0 s e := rfl
  rw [h3, hx] at h2
  have h4 : t = zv_gt t s.whitelist s.uts s.blUts s.nrWinning s.totalGuaranteed := by
    injection h2
  refine ⟨?_, ?_, ?_, ?_, ?_⟩
  · exact (congrArg (fun x => x.s.whitelist) h4).trans rfl
  · exact (congrArg (fun x => x.s.uts) h4).trans rfl
  · exact (congrArg (fun x => x.s.blUts) h4).trans rfl
  · exact (congrArg (fun x => x.s.nrWinning) h4).trans rfl
  · exact (congrArg (fun x => x.s.totalGuaranteed) h4).trans rfl

theorem zk_gindep_zc {c : Call} (h : zk_gindep c = true) : zc_indep c = true := by
  cases c <;> first | rfl | (simp [zk_gindep] at h)

theorem zk_gindep_CallOK {c : Call} (h : zk_gindep c = true) : v1_CallOK c := by
  cases c <;> first | trivial | (simp [zk_gindep] at h)

/-! ### the invariant of the phase before the first `filter` call -/

/-- **invariant before the first `filter` call**: the shadow is a well-formed state of the
    original development (`ng_WF`), the reserve invariant of C12 holds on the REAL state, the
    reserve is conserved, only zero-size batches dangle above `lastTicketId` -/
structure zk_PA (T0 : Nat) (s : State) (r : Nat) : Prop where
  sh : ∃ U BU N TG, ng_WF T0 (zv_sh s U BU N TG) r ∧
    (∀ u, (z_eraseR s.range u).isSome = true → (U u).isSome = true)
  gx : GuarInvX s
  sum : s.nrWinning + s.totalGuaranteed = T0
  hd : z_Hd s
  ns : s.flags.started = false

theorem zk_sh_sum {T0 : Nat} {s : State} {U BU : Nat → Option UTS} {N TG r : Nat}
    (h : ng_WF T0 (zv_sh s U BU N TG) r) (hns : s.flags.started = false) : N + TG = T0 := by
  obtain ⟨_, htg, L0, hp, _, _⟩ := ng_phase_notStarted h.phase hns
  have h1 : N = T0 - TG := hp.nrw
  have h2 : TG ≤ T0 := htg
  omega

/-- the shadow of the transaction record: any `uts` may be put under the overwritten one -/
theorem zk_tx0_sh (s : State) (e : Env) (U BU : Nat → Option UTS) (N TG : Nat) (X : Nat → Option UTS) :
    tx0 (zv_sh s U BU N TG) e
      = zv_gt (zc_wt (tx0 s e) (z_eraseR s.range) (z_eraseB s.batch) (zv_K s.range s.blacklist)
          s.claimed X) [] U BU N TG := rfl

/-- **the endpoints that touch neither the allocation maps nor the guarantee bookkeeping** -/
theorem zk_PA_indep {T0 : Nat} {hash : List Nat → List Nat} {s s' : State} {e : Env} {c : Call}
    {o : Out} {r : Nat} (hc : zk_gindep c = true) (h : zk_PA T0 s r) (hr : r ≤ e.round)
    (hok : EnvOK e) (hs : step hash s e c = .ok (s', o)) : zk_PA T0 s' e.round := by
  obtain ⟨U, BU, N, TG, hwf, hU⟩ := h.sh
  have hvar : s.variant = .nftGuar := hwf.var
  obtain ⟨f1, _, _, _, _, f6, _⟩ := ng_flags hvar
  obtain ⟨g1, g2, g3, g4, _⟩ := zc_step_indep_frame (zk_gindep_zc hc) f1 hs
  obtain ⟨k1, k2, k3, k4, k5⟩ := zk_step_g_frame hc f6 hs
  have hvar' : s'.variant = s.variant := be_variant_step hs
  have hfl : s'.flags = s.flags :=
    zv_step_flags_eq hs (by cases c <;> first | rfl | (simp [zk_gindep] at hc))
  have htk : s'.tk = s.tk := by
    refine z_step_tk hs ?_ ?_ ?_ ?_ ?_ <;>
      (first | (intro h; subst h; simp [zk_gindep] at hc) | (intro l h; subst h; simp [zk_gindep] at hc))
  have hd' := z_Hd_keep hs htk (fun _ => h.hd) (by rw [hfl]; exact h.ns)
  obtain ⟨m, t, hm, hpay, hown, hx, rfl, rfl⟩ := step_ok_inv hs
  have hsum := zk_sh_sum hwf h.ns
  have hx2 : exec hash (tx0 (zv_sh s U BU N TG) e) e c
      = .ok (zv_gt (zc_wt t (z_eraseR s.range) (z_eraseB s.batch) (zv_K s.range s.blacklist) s.claimed
          s.uts) [] U BU N TG) := by
    rw [zk_tx0_sh s e U BU N TG s.uts, zk_exec_g hash _ e c hc (by exact f6) (by
      show N + TG = s.nrWinning + s.totalGuaranteed
      rw [hsum, h.sum]), zc_exec_indep hash _ e c (zk_gindep_zc hc) (by exact f1), hx]
    rfl
  have hstep := z_step_intro (s := zv_sh s U BU N TG) (by exact hm) hpay (by exact hown) hx2
  have hsh : (zv_gt (zc_wt t (z_eraseR s.range) (z_eraseB s.batch) (zv_K s.range s.blacklist) s.claimed
      s.uts) [] U BU N TG).s = zv_sh t.s U BU N TG := by
    show zv_g (z_w t.s _ _ _ _) [] U BU N TG = zv_g (z_w t.s _ _ _ _) [] U BU N TG
    rw [g1, g2, g3, g4]
  rw [hsh] at hstep
  have hwf' := ng_call_WF hwf hr hok (zk_gindep_CallOK hc) hstep
  refine ⟨⟨U, BU, N, TG, hwf', ?_⟩, ?_, ?_, hd', by rw [hfl]; exact h.ns⟩
  · intro u hu; rw [g1] at hu; exact hU u hu
  · exact GuarInvX_of_GEq ⟨k1, k2, k3, g1, k4, k5, hvar'⟩ g3 h.gx
  · rw [k4, k5]; exact h.sum

/-- **`confirm`** (the caller holds a non-empty range, or none and confirms zero tickets) -/
theorem zk_PA_confirm {T0 : Nat} {hash : List Nat → List Nat} {s s' : State} {e : Env} {n : Nat}
    {o : Out} {r : Nat} (h : zk_PA T0 s r) (hr : r ≤ e.round)
    (hok : EnvOK e) (hs : step hash s e (.confirm n) = .ok (s', o)) : zk_PA T0 s' e.round := by
  obtain ⟨U, BU, N, TG, hwf, hU⟩ := h.sh
  obtain ⟨m, t, hm, hpay, hown, hx, rfl, rfl⟩ := step_ok_inv hs
  simp only [exec] at hx
  rw [LP.Props.C07.confirmTickets_ok_iff] at hx
  obtain ⟨total, ⟨a1, a2, a3, a4, a5, a6, a7⟩, rfl⟩ := hx
  have a5' : s.blacklist e.caller = false := a5
  have hx2 : exec hash (tx0 (zv_sh s U BU N TG) e) e (.confirm n)
      = .ok (zv_gt (z_wt ((tx0 s e).setS { (tx0 s e).s with
                confirmed := upd (tx0 s e).s.confirmed e.caller ((tx0 s e).s.confirmed e.caller + n) }
              |>.emit (LP.Props.C07.confirmEvent (tx0 s e).s e n total))
            (z_eraseR s.range) (z_eraseB s.batch) (zv_K s.range s.blacklist) s.claimed) [] U BU N TG) := by
    simp only [exec]
    rw [LP.Props.C07.confirmTickets_ok_iff]
    refine ⟨total, ⟨a1, a2, a3, a4, ?_, ?_, a7⟩, rfl⟩
    · show zv_K s.range s.blacklist e.caller = false
      simp [zv_K, a5']
    · exact z_ticketsFor (z_eraseB s.batch) (zv_K s.range s.blacklist) s.claimed a6
  have hstep := z_step_intro (s := zv_sh s U BU N TG) (by exact hm) hpay (by exact hown) hx2
  have hwf' := ng_call_WF (c := .confirm n) hwf hr hok trivial hstep
  refine ⟨⟨U, BU, N, TG, hwf', hU⟩, ?_, h.sum, ?_, h.ns⟩
  · exact GuarInvX_of_GEq (s := s) ⟨rfl, rfl, rfl, rfl, rfl, rfl, rfl⟩ rfl h.gx
  · intro i b hi hb
    exact h.hd i b hi hb

/-- **`addTicketsV1 l`**, matched on the shadow by `addTicketsV1 (zv_lst l)` -/
theorem zk_PA_add {T0 : Nat} {hash : List Nat → List Nat} {s s' : State} {e : Env}
    {l : List (Nat × Nat × Nat × Bool)} {o : Out} {r : Nat} (h : zk_PA T0 s r) (hr : r ≤ e.round)
    (hok : EnvOK e) (hs : step hash s e (.addTicketsV1 l) = .ok (s', o)) : zk_PA T0 s' e.round := by
  obtain ⟨U, BU, N, TG, hwf, hU⟩ := h.sh
  obtain ⟨hsum', hgx'⟩ := v1_step_guar (c := .addTicketsV1 l) rfl h.gx hs
  have hfl : s'.flags = s.flags := zv_step_flags_eq hs rfl
  obtain ⟨m, t, hm, hpay, hown, hx, rfl, rfl⟩ := step_ok_inv hs
  simp only [exec, bind_ok_iff, pure_ok_iff] at hx
  obtain ⟨s1, hat, rfl⟩ := hx
  unfold addTicketsV1 at hat
  simp only [bind_ok_iff, pure_ok_iff, requireStage, req_ok_iff, exists_const, Prod.exists] at hat
  obtain ⟨hst, sA, tw, tg, hmany, rfl⟩ := hat
  have hmc : 0 < (tx0 s e).s.minConfirmed := hwf.static
  obtain ⟨U', k1, k2, k3⟩ := zv_addV1Many (zv_K s.range s.blacklist) s.claimed BU N TG l (tx0 s e).s _ _ _
    U N TG hmany h.hd hmc hU
  obtain ⟨s0', hcm, hrg, _, _, wl, u, hsA⟩ := v1_addV1Many_sim l (tx0 s e).s (tx0 s e).s _ _ _ _ _
    rfl rfl rfl hmany
  obtain ⟨_, hnone, _, _, _, hfr, _, _⟩ := createMany_ok (v1_proj l) _ s0' hcm
  have hbl : sA.blacklist = s.blacklist := by rw [hsA]; rfl
  have hcl : sA.claimed = s.claimed := by rw [hsA]; rfl
  have hK : zv_K sA.range sA.blacklist = zv_K s.range s.blacklist := by
    funext a
    unfold zv_K
    rw [hbl]
    cases hb : s.blacklist a with
    | false => rfl
    | true =>
      have hsome := h.gx.bl_range a hb
      have hnin : a ∉ (v1_proj l).map Prod.fst := by
        intro hin
        have : s.range a = none := hnone a hin
        rw [this] at hsome; cases hsome
      have : sA.range a = s.range a := by rw [hrg]; exact hfr a hnin
      rw [zv_eraseR_congr this]
  have hx2 : exec hash (tx0 (zv_sh s U BU N TG) e) e (.addTicketsV1 (zv_lst l))
      = .ok ((tx0 (zv_sh s U BU N TG) e).setS
          (zv_y sA (zv_K s.range s.blacklist) s.claimed U' BU N TG)) := by
    simp only [exec, bind_ok_iff, pure_ok_iff]
    refine ⟨_, ?_, rfl⟩
    unfold addTicketsV1
    simp only [bind_ok_iff, pure_ok_iff, requireStage, req_ok_iff, exists_const, Prod.exists]
    exact ⟨hst, _, _, _, k1, rfl⟩
  have hmz : endpointMeta (zv_sh s U BU N TG).variant (.addTicketsV1 (zv_lst l)) = some m := by
    rw [← hm]; rfl
  have hstep := z_step_intro (s := zv_sh s U BU N TG) hmz hpay (by exact hown) hx2
  have hwf' := ng_call_WF hwf hr hok (zv_lst_CallOK l) hstep
  have hsh : ((tx0 (zv_sh s U BU N TG) e).setS
      (zv_y sA (zv_K s.range s.blacklist) s.claimed U' BU N TG)).s
        = zv_sh ({ sA with totalGuaranteed := tg, nrWinning := tw }) U' BU N TG := by
    show zv_y sA (zv_K s.range s.blacklist) s.claimed U' BU N TG
      = zv_y sA (zv_K sA.range sA.blacklist) sA.claimed U' BU N TG
    rw [hK, hcl]
  rw [hsh] at hwf'
  exact ⟨⟨U', BU, N, TG, hwf', k3⟩, hgx', by rw [hsum']; exact h.sum, k2, by rw [hfl]; exact h.ns⟩

/-! ### blacklist -/

/-- the NFT-fee hook of `blacklist` reads `payers`, `bal`, `nftCost` and writes `payers`, `bal`
    only; the addresses that never paid the fee may be dropped from the list -/
theorem zk_refundNftMany (good : Nat → Bool) : ∀ (l : List Nat) {t t' Y : Tx},
    refundNftMany l t = .ok t' → (∀ a ∈ l, good a = false → a ∉ t.s.payers) →
    Y.s.payers = t.s.payers → Y.s.bal = t.s.bal → Y.s.nftCost = t.s.nftCost →
    ∃ Y', refundNftMany (l.filter good) Y = .ok Y' ∧
      Y'.s = { Y.s with payers := t'.s.payers, bal := t'.s.bal }
  | [], t, t', Y, h, _, hp, hb, _ => by
    simp only [refundNftMany, Except.ok.injEq] at h
    subst h
    refine ⟨Y, rfl, ?_⟩
    rw [← hp, ← hb]
  | u :: rest, t, t', Y, h, hg, hp, hb, hc => by
    unfold refundNftMany at h
    simp only at h
    cases hgu : good u with
    | false =>
      have hnm : u ∉ t.s.payers := hg u (List.mem_cons_self ..) hgu
      rw [swapRemove_of_not_mem hnm] at h
      simp only [Bool.false_eq_true, if_false] at h
      rw [List.filter_cons_of_neg (by simp [hgu])]
      exact zk_refundNftMany good rest h (fun a ha => hg a (List.mem_cons_of_mem _ ha)) hp hb hc
    | true =>
      rw [List.filter_cons_of_pos (by simp [hgu])]
      have key : refundNftMany (u :: rest.filter good) Y
          = (if (swapRemove t.s.payers u).2 = true then
              (match (Y.setS { Y.s with payers := (swapRemove t.s.payers u).1 }).send u Y.s.nftCost with
               | .error e => .error e
               | .ok t' => refundNftMany (rest.filter good) t')
             else refundNftMany (rest.filter good) Y) := by
        rw [← hp]; rfl
      rw [key]
      by_cases hd : (swapRemove t.s.payers u).2 = true
      · rw [if_pos hd] at h
        rw [if_pos hd]
        cases hx : (t.setS { t.s with payers := (swapRemove t.s.payers u).1 }).send u t.s.nftCost with
        | error err => rw [hx] at h; cases h
        | ok t1 =>
          rw [hx] at h
          simp only at h
          rw [LP.send_ok_iff] at hx
          obtain ⟨hle, rfl⟩ := hx
          have hx' : (Y.setS { Y.s with payers := (swapRemove t.s.payers u).1 }).send u Y.s.nftCost
              = .ok (sendResult (Y.setS { Y.s with payers := (swapRemove t.s.payers u).1 }) u
                  Y.s.nftCost) := by
            rw [LP.send_ok_iff]
            refine ⟨?_, rfl⟩
            show Y.s.nftCost.amount ≤ Y.s.bal Y.s.nftCost.tok Y.s.nftCost.nonce
            rw [hc, hb]; exact hle
          rw [hx']
          simp only
          obtain ⟨Y', i1, i2⟩ := zk_refundNftMany good rest
            (Y := sendResult (Y.setS { Y.s with payers := (swapRemove t.s.payers u).1 }) u Y.s.nftCost) h
            (fun a ha hga hm => hg a (List.mem_cons_of_mem _ ha) hga (zc_swapRemove_sub hm))
            rfl
            (by show Y.s.bal.sub _ _ _ = t.s.bal.sub _ _ _; rw [hb, hc])
            hc
          exact ⟨Y', i1, i2⟩
      · rw [if_neg hd] at h
        rw [if_neg hd]
        exact zk_refundNftMany good rest h (fun a ha => hg a (List.mem_cons_of_mem _ ha)) hp hb hc

/-- **`blacklist l`**, matched on the shadow by `blacklist (l without the holders of an empty range)` -/
theorem zk_PA_blacklist {T0 : Nat} {hash : List Nat → List Nat} {s s' : State} {e : Env}
    {l : List Nat} {o : Out} {r : Nat} (h : zk_PA T0 s r) (hr : r ≤ e.round)
    (hok : EnvOK e) (hs : step hash s e (.blacklist l) = .ok (s', o)) : zk_PA T0 s' e.round := by
  obtain ⟨U, BU, N, TG, hwf, hU⟩ := h.sh
  obtain ⟨hsum', hgx'⟩ := v1_step_guar (c := .blacklist l) rfl h.gx hs
  have hfl : s'.flags = s.flags := zv_step_flags_eq hs rfl
  have hvar : s.variant = .nftGuar := hwf.var
  obtain ⟨f1, f2, f3, f4, _⟩ := ng_flags hvar
  obtain ⟨m, t, hm, hpay, hown, hx, rfl, rfl⟩ := step_ok_inv hs
  obtain ⟨hadd1, _⟩ := exec_blacklist_out hx
  obtain ⟨hperm, hstage, hnd, hall, hle, _⟩ := (addUsersToBlacklist_ok_iff _ _ _ _).mp hadd1
  obtain ⟨_, _, _, _, wl, uu, bb, nw, tg, t2, t3, ht2, h23, ht3⟩ :=
    ng_blacklist_shape (s := (tx0 s e).s) (by exact hvar) hx
  obtain ⟨P, B, hshape⟩ := nf_refundNftMany_shape l h23
  have hP : t3.s.payers = P := by rw [hshape]
  have hB : t3.s.bal = B := by rw [hshape]
  obtain ⟨_, hfacts⟩ := zc_phaseA_facts hwf h.ns
  have hc : ∀ a, z_eraseR s.range a = none → s.confirmed a = 0 ∧ a ∉ s.payers := fun a ha => by
    obtain ⟨k1, _, _, k4⟩ := hfacts a ha
    exact ⟨k1, k4⟩
  have hmem : ∀ a, a ∈ l.filter (fun a => (z_eraseR s.range a).isSome) ↔
      a ∈ l ∧ (z_eraseR s.range a).isSome = true := fun a => List.mem_filter
  have hS : blConfSum (tx0 s e).s (l.filter (fun a => (z_eraseR s.range a).isSome))
      = blConfSum (tx0 s e).s l :=
    zv_sum_filter s.confirmed (fun a => (z_eraseR s.range a).isSome) l
      (fun a _ hp => (hc a (zv_isSome_false (by rw [hp]; simp))).1)
  have hC : (fun a => if a ∈ l.filter (fun a => (z_eraseR s.range a).isSome) then 0
        else (tx0 s e).s.confirmed a)
      = fun a => if a ∈ l then 0 else (tx0 s e).s.confirmed a := by
    funext a
    by_cases h1 : a ∈ l
    · by_cases h2 : (z_eraseR s.range a).isSome = true
      · rw [if_pos ((hmem a).mpr ⟨h1, h2⟩), if_pos h1]
      · rw [if_neg (fun hh => h2 ((hmem a).mp hh).2), if_pos h1]
        exact (hc a (zv_isSome_false h2)).1
    · rw [if_neg (fun hh => h1 ((hmem a).mp hh).1), if_neg h1]
  have hK : zv_K s.range (fun a => if a ∈ l then true else s.blacklist a)
      = fun a => if a ∈ l.filter (fun a => (z_eraseR s.range a).isSome) then true
          else zv_K s.range s.blacklist a := by
    funext a
    show ((if a ∈ l then true else s.blacklist a) && (z_eraseR s.range a).isSome)
      = (if a ∈ l.filter (fun a => (z_eraseR s.range a).isSome) then true
          else (s.blacklist a && (z_eraseR s.range a).isSome))
    by_cases h1 : a ∈ l
    · by_cases h2 : (z_eraseR s.range a).isSome = true
      · rw [if_pos ((hmem a).mpr ⟨h1, h2⟩), if_pos h1, h2]; rfl
      · rw [if_neg (fun hh => h2 ((hmem a).mp hh).2), if_pos h1]
        have : (z_eraseR s.range a).isSome = false := by simpa using h2
        rw [this]; simp
    · rw [if_neg (fun hh => h1 ((hmem a).mp hh).1), if_neg h1]
  have hstate := zv_blState (tx0 s e).s l (l.filter (fun a => (z_eraseR s.range a).isSome))
    (z_eraseR s.range) (z_eraseB s.batch) (zv_K s.range s.blacklist) _ s.claimed U BU N TG hK hC hS
  -- the shadow accepts the filtered call
  have hy1 : addUsersToBlacklist (tx0 (zv_sh s U BU N TG) e) e
      (l.filter (fun a => (z_eraseR s.range a).isSome))
      = .ok (blTx (tx0 (zv_sh s U BU N TG) e) e (l.filter (fun a => (z_eraseR s.range a).isSome))) := by
    rw [addUsersToBlacklist_ok_iff]
    refine ⟨hperm, hstage, hnd.filter _, ?_, ?_, rfl⟩
    · intro u hu
      obtain ⟨h1, h2⟩ := (hmem u).mp hu
      refine ⟨?_, h2⟩
      show zv_K s.range s.blacklist u = false
      have : s.blacklist u = false := (hall u h1).1
      simp [zv_K, this]
    · have : blConfSum (tx0 (zv_sh s U BU N TG) e).s (l.filter (fun a => (z_eraseR s.range a).isSome))
          = blConfSum (tx0 s e).s l := hS
      rw [this]
      exact hle
  have hg : blHookG (blTx (tx0 (zv_sh s U BU N TG) e) e (l.filter (fun a => (z_eraseR s.range a).isSome)))
      (l.filter (fun a => (z_eraseR s.range a).isSome))
      = .ok (blTx (tx0 (zv_sh s U BU N TG) e) e (l.filter (fun a => (z_eraseR s.range a).isSome))) := by
    unfold blHookG
    rw [if_neg (by show ¬ (s.variant.isV2 = true); rw [f3]; simp), if_pos (by exact f4),
      zv_clearGuaranteedV1_nil _ _ rfl]
    rfl
  -- the fee refunds
  obtain ⟨Y3, hy3, hY3⟩ := zk_refundNftMany (fun a => (z_eraseR s.range a).isSome) l
    (Y := blTx (tx0 (zv_sh s U BU N TG) e) e (l.filter (fun a => (z_eraseR s.range a).isSome))) h23
    (fun a _ hga => by
      rw [ht2]
      exact (hc a (zv_isSome_false (by rw [hga]; simp))).2)
    (by rw [ht2]; rfl)
    (by
      rw [ht2]
      show (tx0 s e).s.bal.sub _ 0 ((tx0 s e).s.price * blConfSum (tx0 (zv_sh s U BU N TG) e).s _)
        = (tx0 s e).s.bal.sub _ 0 ((tx0 s e).s.price * blConfSum (tx0 s e).s l)
      have : blConfSum (tx0 (zv_sh s U BU N TG) e).s (l.filter (fun a => (z_eraseR s.range a).isSome))
          = blConfSum (tx0 s e).s l := hS
      rw [this]
      rfl)
    (by rw [ht2]; rfl)
  have hn : blHookN (blTx (tx0 (zv_sh s U BU N TG) e) e (l.filter (fun a => (z_eraseR s.range a).isSome)))
      (l.filter (fun a => (z_eraseR s.range a).isSome)) = .ok Y3 := by
    unfold blHookN
    rw [if_pos (by show s.variant.hasNft = true; exact f2)]
    exact hy3
  have hvY3 : Y3.s.variant = s.variant := by rw [hY3]; rfl
  have he : blHookE Y3 e (l.filter (fun a => (z_eraseR s.range a).isSome)) = Y3 := by
    unfold blHookE
    rw [if_neg (by rw [hvY3, f3]; simp)]
  have hx2 : exec hash (tx0 (zv_sh s U BU N TG) e) e
      (.blacklist (l.filter (fun a => (z_eraseR s.range a).isSome))) = .ok Y3 := by
    rw [exec_blacklist_eq, hy1]
    show (blHookG _ _ >>= _) = _
    rw [hg]
    show (blHookN _ _ >>= _) = _
    rw [hn]
    show (pure (blHookE _ _ _) : Res Tx) = _
    rw [he]
    rfl
  have hmz : endpointMeta (zv_sh s U BU N TG).variant
      (.blacklist (l.filter (fun a => (z_eraseR s.range a).isSome))) = some m := by
    rw [← hm]; rfl
  have hstep := z_step_intro (s := zv_sh s U BU N TG) hmz hpay (by exact hown) hx2
  have hwf' := ng_call_WF (c := .blacklist _) hwf hr hok trivial hstep
  have hts : t.s = { ng_clState (tx0 s e).s l wl uu bb nw tg with payers := P, bal := B } := by
    rw [ht3, hshape, ht2]
  have hsh : Y3.s = zv_sh t.s U BU N TG := by
    rw [hY3, hP, hB, hts]
    have e1 : (blTx (tx0 (zv_sh s U BU N TG) e) e (l.filter (fun a => (z_eraseR s.range a).isSome))).s
        = zv_g (z_w (blState (tx0 s e).s l) (z_eraseR s.range) (z_eraseB s.batch)
            (zv_K s.range (fun a => if a ∈ l then true else s.blacklist a)) s.claimed) [] U BU N TG :=
      hstate
    rw [e1]
    rfl
  rw [hsh] at hwf'
  refine ⟨⟨U, BU, N, TG, hwf', ?_⟩, hgx', by rw [hsum']; exact h.sum, ?_, by rw [hfl]; exact h.ns⟩
  · intro u hu
    apply hU
    rw [hts] at hu
    exact hu
  · rw [hts]
    intro i b hi hb
    exact h.hd i b hi hb

end LP
