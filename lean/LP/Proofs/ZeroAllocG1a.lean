import LP.Proofs.ZeroAlloc3
import LP.Props.C01reachG1
/-
  LP.Proofs.ZeroAllocG1a — zero-size allocations for `Variant.guarV1`, part 1.

  `zg_w s w` overwrites the FIVE fields `range`, `batch`, `blacklist`, `claimed`, `uts` of a state
  (the four fields of `z_w` plus the guarantee records: a zero-size entry `(a, 0, 0, false)` stores
  the record `{a := 0, b := 0, c := 0, d := 0}` for `a`, which the erased state does not have).

  The endpoints `deposit`, the setters, `setSupport`, `pause`, `unpause`, `select`, `claimPayment`
  (own withdrawal of the vested variants) and `setSchedule1` neither read nor write these five
  fields: their bodies COMMUTE with the overwriting (`zg_exec_indep`), hence so does `step`.
-/
namespace LP

/-- the overwritten fields -/
structure zg_O where
  R : Nat → Option Range
  B : Nat → Option Batch
  K : Nat → Bool
  C : Nat → Bool
  U : Nat → Option UTS

/-- overwrite the allocation maps, the two address flags and the guarantee records -/
def zg_w (s : State) (w : zg_O) : State :=
  { s with range := w.R, batch := w.B, blacklist := w.K, claimed := w.C, uts := w.U }

def zg_wt (t : Tx) (w : zg_O) : Tx := { t with s := zg_w t.s w }

def zg_wx (x : SelSt) (w : zg_O) : SelSt := { x with tx := zg_wt x.tx w }

def zg_of (s : State) : zg_O := ⟨s.range, s.batch, s.blacklist, s.claimed, s.uts⟩

theorem zg_w_self (s : State) : zg_w s (zg_of s) = s := rfl

theorem zg_w_w (s : State) (w w' : zg_O) : zg_w (zg_w s w) w' = zg_w s w' := rfl

section
variable {w : zg_O}

theorem zg_freshRng (t : Tx) : (zg_wt t w).freshRng = (t.freshRng.1, zg_wt t.freshRng.2 w) := by
  unfold Tx.freshRng
  show (match t.c.seeds with | [] => _ | sd :: rest => _) = _
  cases t.c.seeds <;> rfl

theorem zg_draw (hash : List Nat → List Nat) (t : Tx) (rng : Rng) :
    (zg_wt t w).draw hash rng
      = ((t.draw hash rng).1, (t.draw hash rng).2.1, zg_wt (t.draw hash rng).2.2 w) := by
  unfold Tx.draw
  show (match t.c.script with | [] => _ | x :: xs => _) = _
  cases t.c.script <;> rfl

theorem zg_send (t : Tx) (a : Nat) (p : Pay) :
    (zg_wt t w).send a p = mapR (zg_wt · w) (t.send a p) := by
  unfold Tx.send
  by_cases h : t.s.bal p.tok p.nonce < p.amount
  · have h' : (zg_wt t w).s.bal p.tok p.nonce < p.amount := h
    rw [if_pos h, if_pos h']; rfl
  · have h' : ¬ (zg_wt t w).s.bal p.tok p.nonce < p.amount := h
    rw [if_neg h, if_neg h']; rfl

theorem zg_selectBody (hash : List Nat → List Nat) (nr last : Nat) (x : SelSt) :
    selectBody hash nr last (zg_wx x w) = mapR (fst1 (zg_wx · w)) (selectBody hash nr last x) := by
  unfold selectBody
  simp only [zg_wx, zg_draw]
  repeat' ite_both
  all_goals rfl

theorem zg_selectWinners (hash : List Nat → List Nat) (t : Tx) (e : Env) :
    selectWinners hash (zg_wt t w) e = mapR (zg_wt · w) (selectWinners hash t e) := by
  unfold selectWinners
  simp only [setp]
  show (req (!t.s.paused) _ >>= fun _ => _) = _
  refine bind_congr_fun ?_; intro _
  show (requireStage t.s e .winnerSelection _ >>= fun _ => _) = _
  refine bind_congr_fun ?_; intro _
  show (ownerOrUser t.s e >>= fun _ => _) = _
  refine bind_congr_fun ?_; intro _
  show (req t.s.flags.filtered _ >>= fun _ => _) = _
  refine bind_congr_fun ?_; intro _
  show (req (!t.s.flags.selected) _ >>= fun _ => _) = _
  refine bind_congr_fun ?_; intro _
  have hop' : (zg_wt t w).s.op = t.s.op := rfl
  cases hop : t.s.op with
  | none =>
    simp only [hop', hop, zg_freshRng, mapR_bind]
    refine bind_eq_bind_of_mapR (fst1 (zg_wx · w)) ?_ ?_
    · rhs_exact runWhile_commutes (zg_wx · w) _ (zg_selectBody hash _ _) _ _ _
    · intro ⟨y, b2, st2⟩
      cases st2 <;> rfl
  | select r p =>
    simp only [hop', hop, mapR_bind]
    refine bind_eq_bind_of_mapR (fst1 (zg_wx · w)) ?_ ?_
    · rhs_exact runWhile_commutes (zg_wx · w) _ (zg_selectBody hash _ _) _ _ _
    · intro ⟨y, b2, st2⟩
      cases st2 <;> rfl
  | _ => simp only [hop', hop] <;> rfl

/-- the owner's withdrawal of the vested variants -/
theorem zg_claimPaymentOwn (t : Tx) (e : Env) :
    claimPaymentOwn (zg_wt t w) e = mapR (zg_wt · w) (claimPaymentOwn t e) := by
  unfold claimPaymentOwn
  simp only [mapR_bind]
  show (requireStage t.s e .claim _ >>= fun _ => _) = _
  refine bind_congr_fun ?_; intro _
  have tail : ∀ t1 : Tx,
      (if (zg_wt t1 w).s.totalDeposited = 0 then
          (pure ((zg_wt t1 w).setS { (zg_wt t1 w).s with totalDeposited := 0 }) : Res Tx)
        else if t.s.claimablePayment / ((zg_wt t1 w).setS { (zg_wt t1 w).s with totalDeposited := 0 }).s.price
                  * ((zg_wt t1 w).setS { (zg_wt t1 w).s with totalDeposited := 0 }).s.perTicket
                ≥ (zg_wt t1 w).s.totalDeposited
          then pure ((zg_wt t1 w).setS { (zg_wt t1 w).s with totalDeposited := 0 })
          else ((zg_wt t1 w).setS { (zg_wt t1 w).s with totalDeposited := 0 }).send e.caller
                ⟨.esdt ((zg_wt t1 w).setS { (zg_wt t1 w).s with totalDeposited := 0 }).s.lpTok, 0,
                  (zg_wt t1 w).s.totalDeposited
                    - t.s.claimablePayment / ((zg_wt t1 w).setS { (zg_wt t1 w).s with totalDeposited := 0 }).s.price
                      * ((zg_wt t1 w).setS { (zg_wt t1 w).s with totalDeposited := 0 }).s.perTicket⟩) =
      mapR (zg_wt · w)
        (if t1.s.totalDeposited = 0 then (pure (t1.setS { t1.s with totalDeposited := 0 }) : Res Tx)
        else if t.s.claimablePayment / (t1.setS { t1.s with totalDeposited := 0 }).s.price
                  * (t1.setS { t1.s with totalDeposited := 0 }).s.perTicket ≥ t1.s.totalDeposited
          then pure (t1.setS { t1.s with totalDeposited := 0 })
          else (t1.setS { t1.s with totalDeposited := 0 }).send e.caller
                ⟨.esdt (t1.setS { t1.s with totalDeposited := 0 }).s.lpTok, 0,
                  t1.s.totalDeposited
                    - t.s.claimablePayment / (t1.setS { t1.s with totalDeposited := 0 }).s.price
                      * (t1.setS { t1.s with totalDeposited := 0 }).s.perTicket⟩) := by
    intro t1
    simp only [mapR_ite]
    ite_both
    · rfl
    ite_both
    · rfl
    rhs_exact zg_send _ _ _
  by_cases hc : t.s.claimablePayment > 0
  · have hc' : (zg_wt t w).s.claimablePayment > 0 := hc
    rw [if_pos hc, if_pos hc']
    simp only [mapR_bind]
    refine bind_eq_bind_of_mapR (zg_wt · w) ?_ ?_
    · rhs_exact zg_send _ _ _
    · intro t1; exact tail t1
  · have hc' : ¬ (zg_wt t w).s.claimablePayment > 0 := hc
    rw [if_neg hc, if_neg hc']
    simp only [mapR_bind, pure_bind]
    exact tail t

/-- the endpoints that neither read nor write `range`, `batch`, `blacklist`, `claimed`, `uts` -/
def zg_indep : Call → Bool
  | .deposit | .setTicketPrice _ _ | .setPerTicket _ | .setConfStart _ | .setSelStart _
  | .setClaimStart _ | .setSupport _ | .pause | .unpause | .select | .claimPayment
  | .setSchedule1 .. => true
  | _ => false

/-- **the bodies of the independent endpoints commute with overwriting the five fields**
    (vested variants) -/
theorem zg_exec_indep (hash : List Nat → List Nat) (t : Tx) (e : Env) (c : Call)
    (hc : zg_indep c = true) (hv : t.s.variant.vested = true) :
    exec hash (zg_wt t w) e c = mapR (zg_wt · w) (exec hash t e c) := by
  cases c with
  | deposit =>
    simp only [exec, depositLaunchpadTokens]
    z_peel
  | setTicketPrice tok a =>
    simp only [exec, trySetTicketPrice]
    z_peel
  | setPerTicket a => simp only [exec]; z_peel
  | setConfStart x => simp only [exec, validTimelineChange]; z_peel
  | setSelStart x => simp only [exec, validTimelineChange]; z_peel
  | setClaimStart x => simp only [exec, validTimelineChange]; z_peel
  | setSupport a => rfl
  | pause => rfl
  | unpause => rfl
  | select => exact zg_selectWinners hash t e
  | claimPayment =>
    have hv' : (zg_wt t w).s.variant.vested = true := hv
    simp only [exec, hv, hv', if_true]
    exact zg_claimPaymentOwn t e
  | setSchedule1 a b c d f =>
    simp only [exec, setSchedule1]
    z_peel
  | _ => simp [zg_indep] at hc

theorem zg_credit (s : State) (e : Env) :
    creditPayments (zg_w s w) e = zg_w (creditPayments s e) w := rfl

/-- **`step` of an independent endpoint commutes with overwriting the five fields** -/
theorem zg_step_indep_eq (hash : List Nat → List Nat) (s : State) (e : Env) (c : Call)
    (hc : zg_indep c = true) (hv : s.variant.vested = true) :
    step hash (zg_w s w) e c = mapR (fun p => (zg_w p.1 w, p.2)) (step hash s e c) := by
  unfold step
  show (match endpointMeta s.variant c with | none => _ | some m => _) = _
  cases endpointMeta s.variant c with
  | none => rfl
  | some m =>
    show (if _ then _ else if (m.ownerOnly && e.caller != s.owner) = true then _ else _) = _
    simp only
    ite_both
    · rfl
    ite_both
    · rfl
    have hx := zg_exec_indep (w := w) hash
      ⟨creditPayments s e, ⟨e.budget, e.seeds, e.script⟩, {}⟩ e c hc hv
    have hx' : exec hash ⟨creditPayments (zg_w s w) e, ⟨e.budget, e.seeds, e.script⟩, {}⟩ e c
        = mapR (zg_wt · w) (exec hash ⟨creditPayments s e, ⟨e.budget, e.seeds, e.script⟩, {}⟩ e c) := hx
    rw [hx']
    cases exec hash ⟨creditPayments s e, ⟨e.budget, e.seeds, e.script⟩, {}⟩ e c <;> rfl

theorem zg_step_indep {hash : List Nat → List Nat} {s s' : State} {e : Env} {c : Call} {o : Out}
    (hc : zg_indep c = true) (hv : s.variant.vested = true)
    (h : step hash s e c = .ok (s', o)) :
    step hash (zg_w s w) e c = .ok (zg_w s' w, o) := by
  rw [zg_step_indep_eq hash s e c hc hv, h]; rfl

end

/-- an independent endpoint leaves the five fields alone -/
theorem zg_step_indep_frame {hash : List Nat → List Nat} {s s' : State} {e : Env} {c : Call} {o : Out}
    (hc : zg_indep c = true) (hv : s.variant.vested = true)
    (h : step hash s e c = .ok (s', o)) :
    s'.range = s.range ∧ s'.batch = s.batch ∧ s'.blacklist = s.blacklist ∧ s'.claimed = s.claimed ∧
    s'.uts = s.uts := by
  have h2 := zg_step_indep (w := zg_of s) hc hv h
  rw [zg_w_self, h] at h2
  have h3 : s' = zg_w s' (zg_of s) := by
    injection h2 with h2; injection h2
  refine ⟨?_, ?_, ?_, ?_, ?_⟩
  · exact (congrArg State.range h3).trans rfl
  · exact (congrArg State.batch h3).trans rfl
  · exact (congrArg State.blacklist h3).trans rfl
  · exact (congrArg State.claimed h3).trans rfl
  · exact (congrArg State.uts h3).trans rfl

end LP
