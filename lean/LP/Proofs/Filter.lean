import LP.Step
import LP.Proofs.Loop
/-
  LP.Proofs.Filter — ticket allocation (`tryCreateTickets` / `createMany`) and ticket filtering
  (`filterBody` / `filterTickets`): the batches form a chain of consecutive ranges, filtering
  compacts the chain to the confirmed tickets.
-/
namespace LP

/-! ### allocation histories -/

/-- Σ nᵢ -/
def ticketTotal : List (Nat × Nat) → Nat
  | [] => 0
  | p :: r => p.2 + ticketTotal r

/-- Σ conf aᵢ -/
def confSum (conf : Nat → Nat) : List (Nat × Nat) → Nat
  | [] => 0
  | p :: r => conf p.1 + confSum conf r

/-- Σ (nᵢ − conf aᵢ) -/
def droppedSum (conf : Nat → Nat) : List (Nat × Nat) → Nat
  | [] => 0
  | p :: r => (p.2 - conf p.1) + droppedSum conf r

/-- the allocation list after filtering: entries with no confirmation disappear, the others
    keep `conf a` tickets -/
def survivors (conf : Nat → Nat) (L : List (Nat × Nat)) : List (Nat × Nat) :=
  L.filterMap (fun (a, _) => if conf a = 0 then none else some (a, conf a))

theorem ticketTotal_eq_sum (L : List (Nat × Nat)) : ticketTotal L = (L.map (·.2)).sum := by
  induction L with
  | nil => rfl
  | cons p r ih => simp only [ticketTotal, List.map_cons, List.sum_cons, ih]

theorem confSum_eq_sum (conf : Nat → Nat) (L : List (Nat × Nat)) :
    confSum conf L = (L.map (fun p => conf p.1)).sum := by
  induction L with
  | nil => rfl
  | cons p r ih => simp only [confSum, List.map_cons, List.sum_cons, ih]

theorem droppedSum_eq_sum (conf : Nat → Nat) (L : List (Nat × Nat)) :
    droppedSum conf L = (L.map (fun p => p.2 - conf p.1)).sum := by
  induction L with
  | nil => rfl
  | cons p r ih => simp only [droppedSum, List.map_cons, List.sum_cons, ih]

theorem survivors_nil (conf : Nat → Nat) : survivors conf [] = [] := rfl

theorem survivors_cons_zero (conf : Nat → Nat) (a n : Nat) (r : List (Nat × Nat))
    (h : conf a = 0) : survivors conf ((a, n) :: r) = survivors conf r := by
  simp [survivors, h]

theorem survivors_cons_pos (conf : Nat → Nat) (a n : Nat) (r : List (Nat × Nat))
    (h : conf a ≠ 0) : survivors conf ((a, n) :: r) = (a, conf a) :: survivors conf r := by
  simp [survivors, h]

theorem ticketTotal_survivors (conf : Nat → Nat) (L : List (Nat × Nat)) :
    ticketTotal (survivors conf L) = confSum conf L := by
  induction L with
  | nil => rfl
  | cons p r ih =>
    obtain ⟨a, n⟩ := p
    by_cases h : conf a = 0
    · rw [survivors_cons_zero conf a n r h, ih]; simp only [confSum, h]; omega
    · rw [survivors_cons_pos conf a n r h]; simp only [ticketTotal, confSum, ih]

theorem confSum_add_droppedSum (conf : Nat → Nat) (L : List (Nat × Nat))
    (h : ∀ p ∈ L, conf p.1 ≤ p.2) : confSum conf L + droppedSum conf L = ticketTotal L := by
  induction L with
  | nil => rfl
  | cons p r ih =>
    have h1 := h p (List.mem_cons_self ..)
    have h2 := ih (fun q hq => h q (List.mem_cons_of_mem _ hq))
    simp only [confSum, droppedSum, ticketTotal]
    omega

theorem length_le_ticketTotal (L : List (Nat × Nat)) (h : ∀ p ∈ L, 1 ≤ p.2) : L.length ≤ ticketTotal L := by
  induction L with
  | nil => simp [ticketTotal]
  | cons p r ih =>
    have h1 := h p (List.mem_cons_self ..)
    have h2 := ih (fun q hq => h q (List.mem_cons_of_mem _ hq))
    simp only [List.length_cons, ticketTotal]
    omega

theorem mem_survivors {conf : Nat → Nat} {L : List (Nat × Nat)} {q : Nat × Nat}
    (h : q ∈ survivors conf L) : q.1 ∈ L.map Prod.fst ∧ q.2 = conf q.1 ∧ conf q.1 ≠ 0 := by
  induction L with
  | nil => simp [survivors] at h
  | cons p r ih =>
    obtain ⟨a, n⟩ := p
    by_cases h0 : conf a = 0
    · rw [survivors_cons_zero conf a n r h0] at h
      obtain ⟨h1, h2⟩ := ih h
      exact ⟨List.mem_cons_of_mem _ h1, h2⟩
    · rw [survivors_cons_pos conf a n r h0] at h
      rcases List.mem_cons.mp h with rfl | h
      · exact ⟨List.mem_cons_self .., rfl, h0⟩
      · obtain ⟨h1, h2⟩ := ih h
        exact ⟨List.mem_cons_of_mem _ h1, h2⟩

/-! ### the chain predicate -/

/-- the batches of `L` sit at consecutive firsts starting from `first`, and every address of
    `L` owns exactly the corresponding range -/
def Chain : List (Nat × Nat) → Nat → (Nat → Option Range) → (Nat → Option Batch) → Prop
  | [], _, _, _ => True
  | p :: rest, first, range, batch =>
    batch first = some ⟨p.1, p.2⟩ ∧ range p.1 = some ⟨first, first + p.2 - 1⟩ ∧
    Chain rest (first + p.2) range batch

theorem Chain_congr {L : List (Nat × Nat)} {first : Nat} {range range' : Nat → Option Range}
    {batch batch' : Nat → Option Batch} (h : Chain L first range batch)
    (hr : ∀ a ∈ L.map Prod.fst, range' a = range a)
    (hb : ∀ x, first ≤ x → batch' x = batch x) : Chain L first range' batch' := by
  induction L generalizing first with
  | nil => trivial
  | cons p rest ih =>
    obtain ⟨h1, h2, h3⟩ := h
    refine ⟨?_, ?_, ?_⟩
    · rw [hb _ (Nat.le_refl _)]; exact h1
    · rw [hr _ (List.mem_cons_self ..)]; exact h2
    · exact ih h3 (fun a ha => hr a (List.mem_cons_of_mem _ ha))
        (fun x hx => hb x (by omega))

/-! ### one iteration of the filter -/

theorem filterBody_stop (conf : Nat → Nat) (last : Nat) (f : FilSt) (h : f.first = last + 1) :
    filterBody conf last f = .ok (f, false) := by
  unfold filterBody
  rw [if_pos h]

theorem filterBody_step (conf : Nat → Nat) (last : Nat) (f : FilSt) (a n : Nat)
    (hne : f.first ≠ last + 1) (hb : f.batch f.first = some ⟨a, n⟩)
    (hr : f.range a = some ⟨f.first, f.first + n - 1⟩)
    (hc : conf a ≤ n) (hrem : f.removed ≤ f.first) :
    ∃ f1, filterBody conf last f = .ok (f1, true) ∧
      f1.first = f.first + n ∧ f1.removed = f.removed + (n - conf a) ∧
      (∀ x, x ≠ a → f1.range x = f.range x) ∧
      f1.range a = (if conf a = 0 then none
                    else some ⟨f.first - f.removed, f.first - f.removed + conf a - 1⟩) ∧
      (∀ x, x ≠ f.first → x ≠ f.first - f.removed → f1.batch x = f.batch x) ∧
      (conf a ≠ 0 → f1.batch (f.first - f.removed) = some ⟨a, conf a⟩) := by
  unfold filterBody
  rw [if_neg hne]
  simp only [hb, csub, if_pos hc]
  by_cases h0 : conf a = 0
  · rw [if_pos h0]
    refine ⟨_, rfl, rfl, rfl, ?_, ?_, ?_, ?_⟩
    · intro x hx; exact upd_other _ _ _ _ hx
    · simp [h0]
    · intro x hx _; exact upd_other _ _ _ _ hx
    · intro h; exact absurd h0 h
  · rw [if_neg h0]
    by_cases h1 : f.removed > 0 ∨ conf a < n
    · rw [if_pos h1]
      simp only [if_pos hrem]
      refine ⟨_, rfl, rfl, rfl, ?_, ?_, ?_, ?_⟩
      · intro x hx; exact upd_other _ _ _ _ hx
      · simp [h0]
      · intro x hx hx2
        show upd (upd f.batch f.first none) (f.first - f.removed) _ x = _
        rw [upd_other _ _ _ _ hx2, upd_other _ _ _ _ hx]
      · intro _; exact upd_same _ _ _
    · rw [if_neg h1]
      have hr0 : f.removed = 0 := by omega
      have hcn : conf a = n := by omega
      refine ⟨_, rfl, rfl, rfl, ?_, ?_, ?_, ?_⟩
      · intro x _; rfl
      · show f.range a = _
        rw [hr, if_neg h0, hr0, hcn]; rfl
      · intro x _ _; rfl
      · intro _
        show f.batch (f.first - f.removed) = _
        rw [hr0, hcn]; exact hb

/-! ### B2 the filter loop -/

/-- generalised loop lemma: from a state whose unprocessed batches are the chain `S`, the
    unbudgeted run completes, compacts `S` to `survivors conf S` placed at
    `f.first - f.removed`, and touches nothing else below that frontier. -/
theorem filter_run (conf : Nat → Nat) (last : Nat) :
    ∀ (S : List (Nat × Nat)) (f : FilSt) (fuel : Nat),
      (S.map Prod.fst).Nodup → (∀ p ∈ S, 1 ≤ p.2) → (∀ p ∈ S, conf p.1 ≤ p.2) →
      Chain S f.first f.range f.batch → f.first + ticketTotal S = last + 1 →
      f.removed < f.first → S.length + 1 ≤ fuel →
      ∃ f', runWhile (filterBody conf last) fuel none f = .ok (f', none, .completed) ∧
        f'.first = last + 1 ∧ f'.removed = f.removed + droppedSum conf S ∧
        Chain (survivors conf S) (f.first - f.removed) f'.range f'.batch ∧
        (∀ a, a ∉ S.map Prod.fst → f'.range a = f.range a) ∧
        (∀ p ∈ S, conf p.1 = 0 → f'.range p.1 = none) ∧
        (∀ x, x < f.first - f.removed → f'.batch x = f.batch x) := by
  intro S
  induction S with
  | nil =>
    intro f fuel _ _ _ _ hlast _ hfuel
    obtain ⟨fuel', rfl⟩ : ∃ k, fuel = k + 1 := ⟨fuel - 1, by simp at hfuel; omega⟩
    simp only [ticketTotal, Nat.add_zero] at hlast
    refine ⟨f, runWhile_stop (filterBody_stop conf last f hlast) _ _, hlast, rfl, trivial,
      fun _ _ => rfl, ?_, fun _ _ => rfl⟩
    intro p hp; cases hp
  | cons p rest ih =>
    obtain ⟨a, n⟩ := p
    intro f fuel hnd hpos hconf hch hlast hrem hfuel
    obtain ⟨fuel', rfl⟩ : ∃ k, fuel = k + 1 := ⟨fuel - 1, by simp at hfuel; omega⟩
    obtain ⟨hb, hr, hch'⟩ := hch
    simp only [List.map_cons, List.nodup_cons] at hnd
    obtain ⟨hnotin, hnd'⟩ := hnd
    have hn1 : 1 ≤ n := hpos (a, n) (List.mem_cons_self ..)
    have hcn : conf a ≤ n := hconf (a, n) (List.mem_cons_self ..)
    simp only [ticketTotal] at hlast
    have hne : f.first ≠ last + 1 := by omega
    obtain ⟨f1, hbody, hf1, hr1, hrange_o, hrange_a, hbatch_o, hbatch_n⟩ :=
      filterBody_step conf last f a n hne hb hr hcn (by omega)
    -- the rest of the chain is untouched by this iteration
    have hch1 : Chain rest f1.first f1.range f1.batch := by
      rw [hf1]
      apply Chain_congr hch'
      · intro x hx
        apply hrange_o
        intro hxa; subst hxa; exact hnotin hx
      · intro x hx
        apply hbatch_o <;> omega
    have hfr : f1.first - f1.removed = (f.first - f.removed) + conf a := by
      rw [hf1, hr1]; omega
    obtain ⟨f', hrun, hfirst', hrem', hchain', hro', hz', hbo'⟩ :=
      ih f1 fuel' hnd' (fun q hq => hpos q (List.mem_cons_of_mem _ hq))
        (fun q hq => hconf q (List.mem_cons_of_mem _ hq)) hch1
        (by rw [hf1]; omega) (by rw [hf1, hr1]; omega)
        (by simp only [List.length_cons] at hfuel; omega)
    have hra' : f'.range a = f1.range a := hro' a hnotin
    refine ⟨f', ?_, hfirst', ?_, ?_, ?_, ?_, ?_⟩
    · rw [runWhile_cont_none hbody]; exact hrun
    · rw [hrem', hr1]; simp only [droppedSum]; omega
    · by_cases h0 : conf a = 0
      · rw [survivors_cons_zero conf a n rest h0]
        rw [hfr, h0, Nat.add_zero] at hchain'
        exact hchain'
      · rw [survivors_cons_pos conf a n rest h0]
        refine ⟨?_, ?_, ?_⟩
        · rw [hbo' _ (by rw [hfr]; omega)]
          exact hbatch_n h0
        · rw [hra', hrange_a, if_neg h0]
        · rw [hfr] at hchain'; exact hchain'
    · intro x hx
      simp only [List.map_cons, List.mem_cons, not_or] at hx
      rw [hro' x hx.2, hrange_o x hx.1]
    · intro q hq hq0
      rcases List.mem_cons.mp hq with rfl | hq
      · rw [hra', hrange_a, if_pos hq0]
      · exact hz' q hq hq0
    · intro x hx
      rw [hbo' x (by rw [hfr]; omega)]
      apply hbatch_o <;> omega


/-- B2 `filter_spec`. -/
theorem filter_spec (conf : Nat → Nat) (L : List (Nat × Nat)) (range : Nat → Option Range)
    (batch : Nat → Option Batch) (last fuel : Nat)
    (hnd : (L.map Prod.fst).Nodup) (hpos : ∀ p ∈ L, 1 ≤ p.2)
    (hconf : ∀ p ∈ L, conf p.1 ≤ p.2) (hch : Chain L 1 range batch)
    (hlast : last = ticketTotal L) (hfuel : L.length + 1 ≤ fuel) :
    ∃ f, runWhile (filterBody conf last) fuel none ⟨range, batch, 1, 0⟩
          = .ok (f, none, .completed) ∧
      f.first = last + 1 ∧ f.removed = droppedSum conf L ∧
      Chain (survivors conf L) 1 f.range f.batch ∧
      (∀ p ∈ L, conf p.1 = 0 → f.range p.1 = none) ∧
      (∀ a, a ∉ L.map Prod.fst → f.range a = range a) ∧
      (∀ x, x < 1 → f.batch x = batch x) := by
  obtain ⟨f, h1, h2, h3, h4, h5, h6, h7⟩ :=
    filter_run conf last L ⟨range, batch, 1, 0⟩ fuel hnd hpos hconf hch
      (by simp only [hlast]; omega) (by simp) hfuel
  refine ⟨f, h1, h2, ?_, h4, h6, h5, h7⟩
  simpa using h3

/-- the fuel the endpoint passes (`last + 2`) is sufficient -/
theorem filter_spec_endpoint_fuel (L : List (Nat × Nat)) (hpos : ∀ p ∈ L, 1 ≤ p.2) :
    L.length + 1 ≤ ticketTotal L + 2 := by
  have := length_le_ticketTotal L hpos; omega

/-! ### consequences of `Chain`: prefix sums, bounds, coverage, disjointness -/

/-- contiguity / prefix sums: the entry after the prefix `P` owns
    `[first + Σ P, first + Σ P + n - 1]` and its batch is stored at `first + Σ P` -/
theorem Chain_split {P S : List (Nat × Nat)} {a n first : Nat} {range : Nat → Option Range}
    {batch : Nat → Option Batch} (h : Chain (P ++ (a, n) :: S) first range batch) :
    range a = some ⟨first + ticketTotal P, first + ticketTotal P + n - 1⟩ ∧
    batch (first + ticketTotal P) = some ⟨a, n⟩ := by
  induction P generalizing first with
  | nil => exact ⟨h.2.1, h.1⟩
  | cons p P ih =>
    obtain ⟨_, _, h3⟩ := h
    have := ih h3
    simp only [ticketTotal]
    rw [show first + (p.2 + ticketTotal P) = first + p.2 + ticketTotal P by omega]
    exact this

/-- every entry owns a range of exactly `n` tickets inside `[first, first + Σ)` -/
theorem Chain_bounds {L : List (Nat × Nat)} {first : Nat} {range : Nat → Option Range}
    {batch : Nat → Option Batch} (h : Chain L first range batch) (hpos : ∀ p ∈ L, 1 ≤ p.2) :
    ∀ p ∈ L, ∃ r, range p.1 = some r ∧ first ≤ r.first ∧ r.first ≤ r.last ∧
      r.last < first + ticketTotal L ∧ r.last + 1 = r.first + p.2 := by
  induction L generalizing first with
  | nil => intro p hp; cases hp
  | cons q rest ih =>
    intro p hp
    obtain ⟨_, h2, h3⟩ := h
    have hq := hpos q (List.mem_cons_self ..)
    rcases List.mem_cons.mp hp with rfl | hp
    · exact ⟨_, h2, Nat.le_refl _, by simp only []; omega, by simp only [ticketTotal]; omega,
        by simp only []; omega⟩
    · obtain ⟨r, hr, h4, h5, h6, h7⟩ :=
        ih h3 (fun x hx => hpos x (List.mem_cons_of_mem _ hx)) p hp
      exact ⟨r, hr, by omega, h5, by simp only [ticketTotal]; omega, h7⟩

/-- coverage: every ticket id in `[first, first + Σ)` lies in the range of some entry -/
theorem Chain_cover {L : List (Nat × Nat)} {first : Nat} {range : Nat → Option Range}
    {batch : Nat → Option Batch} (h : Chain L first range batch) (t : Nat)
    (h1 : first ≤ t) (h2 : t < first + ticketTotal L) :
    ∃ p ∈ L, ∃ r, range p.1 = some r ∧ r.first ≤ t ∧ t ≤ r.last := by
  induction L generalizing first with
  | nil => simp only [ticketTotal] at h2; omega
  | cons q rest ih =>
    obtain ⟨_, hr, h3⟩ := h
    simp only [ticketTotal] at h2
    by_cases ht : t < first + q.2
    · exact ⟨q, List.mem_cons_self .., _, hr, h1, by simp only []; omega⟩
    · obtain ⟨p, hp, r, hr', h4, h5⟩ := ih h3 (by omega) (by omega)
      exact ⟨p, List.mem_cons_of_mem _ hp, r, hr', h4, h5⟩

/-- disjointness: the ranges of two different addresses do not overlap -/
theorem Chain_disjoint {L : List (Nat × Nat)} {first : Nat} {range : Nat → Option Range}
    {batch : Nat → Option Batch} (h : Chain L first range batch) (hpos : ∀ p ∈ L, 1 ≤ p.2) :
    ∀ p ∈ L, ∀ q ∈ L, p.1 ≠ q.1 → ∀ rp rq, range p.1 = some rp → range q.1 = some rq →
      rp.last < rq.first ∨ rq.last < rp.first := by
  induction L generalizing first with
  | nil => intro p hp; cases hp
  | cons x rest ih =>
    intro p hp q hq hne rp rq hrp hrq
    have hx := hpos x (List.mem_cons_self ..)
    have hpos' : ∀ y ∈ rest, 1 ≤ y.2 := fun y hy => hpos y (List.mem_cons_of_mem _ hy)
    have hb := Chain_bounds h.2.2 hpos'
    have hxr := h.2.1
    rcases List.mem_cons.mp hp with rfl | hp' <;> rcases List.mem_cons.mp hq with rfl | hq'
    · exact absurd rfl hne
    · obtain ⟨r, hr, h4, _⟩ := hb q hq'
      rw [hrq] at hr; rw [hrp] at hxr
      injection hr with hr; injection hxr with hxr
      subst hr; subst hxr
      left; simp only []; omega
    · obtain ⟨r, hr, h4, _⟩ := hb p hp'
      rw [hrp] at hr; rw [hrq] at hxr
      injection hr with hr; injection hxr with hxr
      subst hr; subst hxr
      right; simp only []; omega
    · exact ih h.2.2 hpos' p hp' q hq' hne rp rq hrp hrq

/-- the owner of a ticket id is unique -/
theorem Chain_owner_unique {L : List (Nat × Nat)} {first : Nat} {range : Nat → Option Range}
    {batch : Nat → Option Batch} (h : Chain L first range batch) (hpos : ∀ p ∈ L, 1 ≤ p.2)
    (t : Nat) (p q : Nat × Nat) (hp : p ∈ L) (hq : q ∈ L) (rp rq : Range)
    (hrp : range p.1 = some rp) (hrq : range q.1 = some rq)
    (h1 : rp.first ≤ t ∧ t ≤ rp.last) (h2 : rq.first ≤ t ∧ t ≤ rq.last) : p.1 = q.1 := by
  apply Classical.byContradiction
  intro hne
  rcases Chain_disjoint h hpos p hp q hq hne rp rq hrp hrq with h3 | h3 <;> omega

/-! ### B1 allocation -/

/-- the state after a successful `tryCreateTickets s a n` -/
def allocState (s : State) (a n : Nat) : State :=
  { s with range := upd s.range a (some ⟨s.lastTicketId + 1, s.lastTicketId + n⟩),
           batch := upd s.batch (s.lastTicketId + 1) (some ⟨a, n⟩),
           lastTicketId := s.lastTicketId + n }

theorem tryCreateTickets_eq (s : State) (a n : Nat) :
    tryCreateTickets s a n =
      if s.range a = none then
        if s.lastTicketId + 1 + n < usizeMax then .ok (allocState s a n)
        else .error (.user "Maximum number of tickets was reached")
      else .error (.user "Duplicate entry for user") := by
  unfold tryCreateTickets req allocState
  simp only [bind, Except.bind, pure, Except.pure]
  cases hr : s.range a with
  | some r => simp
  | none =>
    by_cases h : s.lastTicketId + 1 < usizeMax - n
    · have h' : s.lastTicketId + 1 + n < usizeMax := by omega
      simp [h, h']
    · have h' : ¬ s.lastTicketId + 1 + n < usizeMax := by omega
      simp [h, h']

theorem createMany_cons_ok (s : State) (a n : Nat) (rest : List (Nat × Nat))
    (hr : s.range a = none) (hb : s.lastTicketId + 1 + n < usizeMax) :
    createMany ((a, n) :: rest) s = createMany rest (allocState s a n) := by
  simp only [createMany, tryCreateTickets_eq, if_pos hr, if_pos hb]

theorem createMany_cons_inv (s s' : State) (a n : Nat) (rest : List (Nat × Nat))
    (h : createMany ((a, n) :: rest) s = .ok s') :
    s.range a = none ∧ s.lastTicketId + 1 + n < usizeMax ∧
    createMany rest (allocState s a n) = .ok s' := by
  simp only [createMany, tryCreateTickets_eq] at h
  by_cases hr : s.range a = none
  · by_cases hb : s.lastTicketId + 1 + n < usizeMax
    · simp only [if_pos hr, if_pos hb] at h
      exact ⟨hr, hb, h⟩
    · simp only [if_pos hr, if_neg hb] at h
      cases h
  · simp only [if_neg hr] at h
    cases h

/-- everything a successful `createMany` establishes -/
theorem createMany_ok :
    ∀ (L : List (Nat × Nat)) (s s' : State), createMany L s = .ok s' →
      (L.map Prod.fst).Nodup ∧ (∀ a ∈ L.map Prod.fst, s.range a = none) ∧
      (L ≠ [] → s.lastTicketId + ticketTotal L + 1 < usizeMax) ∧
      s'.lastTicketId = s.lastTicketId + ticketTotal L ∧
      ((∀ p ∈ L, 1 ≤ p.2) → Chain L (s.lastTicketId + 1) s'.range s'.batch) ∧
      (∀ a, a ∉ L.map Prod.fst → s'.range a = s.range a) ∧
      (∀ x, x ≤ s.lastTicketId → s'.batch x = s.batch x) ∧
      (∃ r b l, s' = { s with range := r, batch := b, lastTicketId := l }) := by
  intro L
  induction L with
  | nil =>
    intro s s' h
    simp only [createMany] at h
    injection h with h
    subst h
    refine ⟨List.nodup_nil, ?_, fun h => absurd rfl h, rfl, fun _ => trivial, fun _ _ => rfl,
      fun _ _ => rfl, ⟨_, _, _, rfl⟩⟩
    intro a ha; cases ha
  | cons p rest ih =>
    obtain ⟨a, n⟩ := p
    intro s s' h
    obtain ⟨hr, hb, h⟩ := createMany_cons_inv s s' a n rest h
    obtain ⟨hnd, hnone, hbound, hlast, hchain, hfr, hfb, r, b, l, heq⟩ := ih _ _ h
    have hl1 : (allocState s a n).lastTicketId = s.lastTicketId + n := rfl
    have hr1 : ∀ x, (allocState s a n).range x
        = if x = a then some ⟨s.lastTicketId + 1, s.lastTicketId + n⟩ else s.range x :=
      fun x => rfl
    have hb1 : ∀ x, (allocState s a n).batch x
        = if x = s.lastTicketId + 1 then some ⟨a, n⟩ else s.batch x := fun x => rfl
    have hnotin : a ∉ rest.map Prod.fst := by
      intro ha
      have := hnone a ha
      rw [hr1, if_pos rfl] at this
      cases this
    refine ⟨?_, ?_, ?_, ?_, ?_, ?_, ?_, ?_⟩
    · simp only [List.map_cons, List.nodup_cons]; exact ⟨hnotin, hnd⟩
    · intro x hx
      simp only [List.map_cons, List.mem_cons] at hx
      rcases hx with rfl | hx
      · exact hr
      · have := hnone x hx
        rw [hr1] at this
        by_cases hxa : x = a
        · subst hxa; exact hr
        · rw [if_neg hxa] at this; exact this
    · intro _
      simp only [ticketTotal]
      by_cases hrest : rest = []
      · subst hrest; simp only [ticketTotal]; omega
      · have := hbound hrest; rw [hl1] at this; omega
    · rw [hlast, hl1]; simp only [ticketTotal]; omega
    · intro hpos
      have hn : 1 ≤ n := hpos (a, n) (List.mem_cons_self ..)
      refine ⟨?_, ?_, ?_⟩
      · rw [hfb _ (by rw [hl1]; omega), hb1, if_pos rfl]
      · rw [hfr a hnotin, hr1, if_pos rfl]
        show some (Range.mk _ _) = some (Range.mk _ _)
        congr 2; omega
      · have := hchain (fun q hq => hpos q (List.mem_cons_of_mem _ hq))
        rw [hl1] at this
        rw [show s.lastTicketId + 1 + (a, n).2 = s.lastTicketId + n + 1 by simp only []; omega]
        exact this
    · intro x hx
      simp only [List.map_cons, List.mem_cons, not_or] at hx
      rw [hfr x hx.2, hr1, if_neg hx.1]
    · intro x hx
      rw [hfb x (by rw [hl1]; omega), hb1, if_neg (by omega)]
    · exact ⟨r, b, l, by rw [heq]; rfl⟩

/-- converse: the three conditions are sufficient for success -/
theorem createMany_succeeds :
    ∀ (L : List (Nat × Nat)) (s : State), (L.map Prod.fst).Nodup →
      (∀ a ∈ L.map Prod.fst, s.range a = none) →
      (L ≠ [] → s.lastTicketId + ticketTotal L + 1 < usizeMax) →
      ∃ s', createMany L s = .ok s' := by
  intro L
  induction L with
  | nil => intro s _ _ _; exact ⟨s, rfl⟩
  | cons p rest ih =>
    obtain ⟨a, n⟩ := p
    intro s hnd hnone hbound
    simp only [List.map_cons, List.nodup_cons] at hnd
    have hb := hbound (by simp)
    simp only [ticketTotal] at hb
    have hr : s.range a = none := hnone a (by simp)
    rw [createMany_cons_ok s a n rest hr (by omega)]
    apply ih _ hnd.2
    · intro x hx
      show upd s.range a _ x = none
      have hxa : x ≠ a := by intro h; subst h; exact hnd.1 hx
      rw [upd_other _ _ _ _ hxa]
      exact hnone x (by simp only [List.map_cons, List.mem_cons]; exact Or.inr hx)
    · intro _
      show s.lastTicketId + n + ticketTotal rest + 1 < usizeMax
      omega

theorem createMany_ok_iff (L : List (Nat × Nat)) (s : State) :
    (∃ s', createMany L s = .ok s') ↔
      (L.map Prod.fst).Nodup ∧ (∀ a ∈ L.map Prod.fst, s.range a = none) ∧
      (L ≠ [] → s.lastTicketId + ticketTotal L + 1 < usizeMax) := by
  constructor
  · rintro ⟨s', h⟩
    obtain ⟨h1, h2, h3, _⟩ := createMany_ok L s s' h
    exact ⟨h1, h2, h3⟩
  · rintro ⟨h1, h2, h3⟩
    exact createMany_succeeds L s h1 h2 h3


/-! ### B3 the endpoint `filterTickets` -/


/-- the filter-loop state the endpoint (re)starts from: fresh, or reloaded from the saved
    ongoing operation -/
def filStOf (s : State) : Option FilSt :=
  match s.op with
  | .none => some ⟨s.range, s.batch, 1, 0⟩
  | .filter f r => some ⟨s.range, s.batch, f, r⟩
  | _ => none

def filterFlags (s : State) (first : Nat) : Flags :=
  if first = 1 then { s.flags with started := true } else s.flags

/-- storage after an interrupted filter call that started from `x` and stopped at `f` -/
def filterSaved (s : State) (x f : FilSt) : State :=
  { s with range := f.range, batch := f.batch, flags := filterFlags s x.first,
           op := .filter f.first f.removed }

/-- storage after a completed filter call that started from `x` and ended at `f` -/
def filterDone (s : State) (x f : FilSt) : State :=
  { s with range := f.range, batch := f.batch, op := .none,
           nrWinning := if s.nrWinning > s.lastTicketId - f.removed
                        then s.lastTicketId - f.removed else s.nrWinning,
           lastTicketId := s.lastTicketId - f.removed,
           flags := { filterFlags s x.first with filtered := true } }

structure FilterPre (s : State) (e : Env) : Prop where
  notPaused : s.paused = false
  stage : s.stage e = .winnerSelection
  notFiltered : s.flags.filtered = false

theorem filterTickets_interrupted (t : Tx) (e : Env) (x f : FilSt) (b : Option Nat)
    (hp : FilterPre t.s e) (hx : filStOf t.s = some x)
    (hrun : runWhile (filterBody t.s.confirmed t.s.lastTicketId) (t.s.lastTicketId + 2)
              t.c.budget x = .ok (f, b, .interrupted)) :
    filterTickets t e = .ok { s := filterSaved t.s x f, c := { t.c with budget := b },
                              o := { t.o with ret := [1] } } := by
  obtain ⟨h1, h2, h3⟩ := hp
  have h1' : (!t.s.paused) = true := by simp [h1]
  have h2' : (t.s.stage e == Stage.winnerSelection) = true := by simp [h2]
  have h3' : (!t.s.flags.filtered) = true := by simp [h3]
  unfold filterTickets
  simp only [bind, Except.bind, pure, Except.pure, req, requireStage, h1', h2', h3', if_true]
  cases hop : t.s.op with
  | none =>
    simp only [filStOf, hop, Option.some.injEq] at hx
    subst hx
    simp [hrun, filterSaved, filterFlags]
  | filter f0 r0 =>
    simp only [filStOf, hop, Option.some.injEq] at hx
    subst hx
    simp [hrun, filterSaved, filterFlags]
  | select _ _ => simp [filStOf, hop] at hx
  | additional _ => simp [filStOf, hop] at hx


theorem filterTickets_error (t : Tx) (e : Env) (x : FilSt) (err : Err)
    (hp : FilterPre t.s e) (hx : filStOf t.s = some x)
    (hrun : runWhile (filterBody t.s.confirmed t.s.lastTicketId) (t.s.lastTicketId + 2)
              t.c.budget x = .error err) :
    filterTickets t e = .error err := by
  obtain ⟨h1, h2, h3⟩ := hp
  have h1' : (!t.s.paused) = true := by simp [h1]
  have h2' : (t.s.stage e == Stage.winnerSelection) = true := by simp [h2]
  have h3' : (!t.s.flags.filtered) = true := by simp [h3]
  unfold filterTickets
  simp only [bind, Except.bind, pure, Except.pure, req, requireStage, h1', h2', h3', if_true]
  cases hop : t.s.op with
  | none =>
    simp only [filStOf, hop, Option.some.injEq] at hx
    subst hx
    simp [hrun]
  | filter f0 r0 =>
    simp only [filStOf, hop, Option.some.injEq] at hx
    subst hx
    simp [hrun]
  | select _ _ => simp [filStOf, hop] at hx
  | additional _ => simp [filStOf, hop] at hx

theorem filterTickets_outOfFuel (t : Tx) (e : Env) (x f : FilSt) (b : Option Nat)
    (hp : FilterPre t.s e) (hx : filStOf t.s = some x)
    (hrun : runWhile (filterBody t.s.confirmed t.s.lastTicketId) (t.s.lastTicketId + 2)
              t.c.budget x = .ok (f, b, .outOfFuel)) :
    filterTickets t e = .error outOfGas := by
  obtain ⟨h1, h2, h3⟩ := hp
  have h1' : (!t.s.paused) = true := by simp [h1]
  have h2' : (t.s.stage e == Stage.winnerSelection) = true := by simp [h2]
  have h3' : (!t.s.flags.filtered) = true := by simp [h3]
  unfold filterTickets
  simp only [bind, Except.bind, pure, Except.pure, req, requireStage, h1', h2', h3', if_true]
  cases hop : t.s.op with
  | none =>
    simp only [filStOf, hop, Option.some.injEq] at hx
    subst hx
    simp [hrun, outOfGas]
  | filter f0 r0 =>
    simp only [filStOf, hop, Option.some.injEq] at hx
    subst hx
    simp [hrun, outOfGas]
  | select _ _ => simp [filStOf, hop] at hx
  | additional _ => simp [filStOf, hop] at hx

theorem filterTickets_completed (t : Tx) (e : Env) (x f : FilSt) (b : Option Nat)
    (hp : FilterPre t.s e) (hx : filStOf t.s = some x)
    (hrun : runWhile (filterBody t.s.confirmed t.s.lastTicketId) (t.s.lastTicketId + 2)
              t.c.budget x = .ok (f, b, .completed))
    (hle : f.removed ≤ t.s.lastTicketId) :
    filterTickets t e = .ok
      (Tx.emit { s := filterDone t.s x f, c := { t.c with budget := b },
                 o := { t.o with ret := [0] } }
        ⟨"filterTicketsCompleted", topics e,
          [e.caller, e.round, e.epoch, t.s.lastTicketId - f.removed]⟩) := by
  obtain ⟨h1, h2, h3⟩ := hp
  have h1' : (!t.s.paused) = true := by simp [h1]
  have h2' : (t.s.stage e == Stage.winnerSelection) = true := by simp [h2]
  have h3' : (!t.s.flags.filtered) = true := by simp [h3]
  unfold filterTickets
  simp only [bind, Except.bind, pure, Except.pure, req, requireStage, h1', h2', h3', if_true]
  cases hop : t.s.op with
  | none =>
    simp only [filStOf, hop, Option.some.injEq] at hx
    subst hx
    simp [hrun, csub, hle, filterDone, filterFlags]
  | filter f0 r0 =>
    simp only [filStOf, hop, Option.some.injEq] at hx
    subst hx
    simp [hrun, csub, hle, filterDone, filterFlags]
  | select _ _ => simp [filStOf, hop] at hx
  | additional _ => simp [filStOf, hop] at hx

theorem filterTickets_underflow (t : Tx) (e : Env) (x f : FilSt) (b : Option Nat)
    (hp : FilterPre t.s e) (hx : filStOf t.s = some x)
    (hrun : runWhile (filterBody t.s.confirmed t.s.lastTicketId) (t.s.lastTicketId + 2)
              t.c.budget x = .ok (f, b, .completed))
    (hle : ¬ f.removed ≤ t.s.lastTicketId) :
    ∃ err, filterTickets t e = .error err := by
  obtain ⟨h1, h2, h3⟩ := hp
  have h1' : (!t.s.paused) = true := by simp [h1]
  have h2' : (t.s.stage e == Stage.winnerSelection) = true := by simp [h2]
  have h3' : (!t.s.flags.filtered) = true := by simp [h3]
  unfold filterTickets
  simp only [bind, Except.bind, pure, Except.pure, req, requireStage, h1', h2', h3', if_true]
  cases hop : t.s.op with
  | none =>
    simp only [filStOf, hop, Option.some.injEq] at hx
    subst hx
    simp [hrun, csub, hle]
  | filter f0 r0 =>
    simp only [filStOf, hop, Option.some.injEq] at hx
    subst hx
    simp [hrun, csub, hle]
  | select _ _ => simp [filStOf, hop] at hx
  | additional _ => simp [filStOf, hop] at hx

/-- an accepted call passed the three gates and found no foreign ongoing operation -/
theorem filterTickets_inv (t t' : Tx) (e : Env) (h : filterTickets t e = .ok t') :
    FilterPre t.s e ∧ ∃ x, filStOf t.s = some x := by
  by_cases h1 : t.s.paused = false
  · by_cases h2 : t.s.stage e = Stage.winnerSelection
    · by_cases h3 : t.s.flags.filtered = false
      · refine ⟨⟨h1, h2, h3⟩, ?_⟩
        cases hop : t.s.op with
        | none => exact ⟨⟨t.s.range, t.s.batch, 1, 0⟩, by simp only [filStOf, hop]⟩
        | filter f0 r0 => exact ⟨⟨t.s.range, t.s.batch, f0, r0⟩, by simp only [filStOf, hop]⟩
        | select _ _ =>
          have h1' : (!t.s.paused) = true := by simp [h1]
          have h2' : (t.s.stage e == Stage.winnerSelection) = true := by simp [h2]
          have h3' : (!t.s.flags.filtered) = true := by simp [h3]
          unfold filterTickets at h
          simp [bind, Except.bind, req, requireStage, h1', h2', h3', hop] at h
        | additional _ =>
          have h1' : (!t.s.paused) = true := by simp [h1]
          have h2' : (t.s.stage e == Stage.winnerSelection) = true := by simp [h2]
          have h3' : (!t.s.flags.filtered) = true := by simp [h3]
          unfold filterTickets at h
          simp [bind, Except.bind, req, requireStage, h1', h2', h3', hop] at h
      · have h1' : (!t.s.paused) = true := by simp [h1]
        have h2' : (t.s.stage e == Stage.winnerSelection) = true := by simp [h2]
        unfold filterTickets at h
        simp [bind, Except.bind, req, requireStage, h1', h2', h3] at h
    · have h1' : (!t.s.paused) = true := by simp [h1]
      unfold filterTickets at h
      simp [bind, Except.bind, req, requireStage, h1', h2] at h
  · unfold filterTickets at h
    simp [bind, Except.bind, req, h1] at h


/-! ### chunked endpoint calls -/

def Tx.withBudget (t : Tx) (k : Option Nat) : Tx := { t with c := { t.c with budget := k } }

/-- successive `filterTickets` transactions, call `i` made in environment `eᵢ` (any caller,
    round, epoch) with iteration budget `kᵢ`; every call must be accepted -/
def filterCalls : List (Env × Nat) → Tx → Res Tx
  | [], t => .ok t
  | (e, k) :: rest, t =>
    match filterTickets (t.withBudget (some k)) e with
    | .error err => .error err
    | .ok t' => filterCalls rest t'

/-- storage after the filter step completed with loop state `f` (`st` = the `started` flag) -/
def filterFinal (s : State) (f : FilSt) (st : Bool) : State :=
  { s with range := f.range, batch := f.batch, op := .none,
           nrWinning := if s.nrWinning > s.lastTicketId - f.removed
                        then s.lastTicketId - f.removed else s.nrWinning,
           lastTicketId := s.lastTicketId - f.removed,
           flags := { s.flags with started := st, filtered := true } }

theorem filterDone_eq_final (s : State) (x f : FilSt) :
    filterDone s x f = filterFinal s f (filterFlags s x.first).started := by
  by_cases h : x.first = 1 <;> simp [filterDone, filterFinal, filterFlags, h]

theorem filterFinal_saved (s : State) (x f1 f : FilSt) (st : Bool) :
    filterFinal (filterSaved s x f1) f st = filterFinal s f st := by
  by_cases h : x.first = 1 <;> simp [filterFinal, filterSaved, filterFlags, h]

theorem filStOf_saved (s : State) (x f : FilSt) : filStOf (filterSaved s x f) = some f := rfl

theorem filterFlags_filtered (s : State) (n : Nat) :
    (filterFlags s n).filtered = s.flags.filtered := by
  by_cases h : n = 1 <;> simp [filterFlags, h]

theorem filterFlags_started (s : State) (n : Nat) (h : n = 1 ∨ s.flags.started = true) :
    (filterFlags s n).started = true := by
  by_cases h1 : n = 1
  · simp [filterFlags, h1]
  · rcases h with h | h
    · exact absurd h h1
    · simp [filterFlags, h1, h]

/-- B3 (link with A): an accepted sequence of endpoint calls that ends with the step completed
    is a completing `runCalls` schedule of the filter loop, and the final storage is determined
    by the final loop state. -/
theorem filterCalls_runCalls :
    ∀ (cs : List (Env × Nat)) (t t' : Tx) (x : FilSt),
      filStOf t.s = some x → t.s.flags.filtered = false →
      filterCalls cs t = .ok t' → t'.s.flags.filtered = true →
      ∃ f st, runCalls (filterBody t.s.confirmed t.s.lastTicketId) (t.s.lastTicketId + 2)
                (cs.map Prod.snd) x = .ok (f, true) ∧
        f.removed ≤ t.s.lastTicketId ∧ t'.s = filterFinal t.s f st ∧
        ((x.first = 1 ∨ t.s.flags.started = true) → st = true) := by
  intro cs
  induction cs with
  | nil =>
    intro t t' x _ hnf h hf
    simp only [filterCalls] at h
    injection h with h
    subst h
    rw [hnf] at hf; cases hf
  | cons c rest ih =>
    obtain ⟨e, k⟩ := c
    intro t t' x hx hnf h hf
    simp only [filterCalls] at h
    cases hcall : filterTickets (t.withBudget (some k)) e with
    | error err => rw [hcall] at h; cases h
    | ok t1 =>
      rw [hcall] at h
      simp only at h
      obtain ⟨hp, _⟩ := filterTickets_inv _ _ _ hcall
      have hp' : FilterPre t.s e := hp
      simp only [List.map_cons]
      cases hrun : runWhile (filterBody t.s.confirmed t.s.lastTicketId) (t.s.lastTicketId + 2)
          (some k) x with
      | error err =>
        have := filterTickets_error (t.withBudget (some k)) e x err hp hx hrun
        rw [this] at hcall; cases hcall
      | ok q =>
        obtain ⟨f1, b1, st1⟩ := q
        cases st1 with
        | outOfFuel =>
          have := filterTickets_outOfFuel (t.withBudget (some k)) e x f1 b1 hp hx hrun
          rw [this] at hcall; cases hcall
        | completed =>
          by_cases hle : f1.removed ≤ t.s.lastTicketId
          · have := filterTickets_completed (t.withBudget (some k)) e x f1 b1 hp hx hrun hle
            rw [this] at hcall
            injection hcall with hcall
            have hs1 : t1.s = filterDone t.s x f1 := by rw [← hcall]; rfl
            have hfil1 : t1.s.flags.filtered = true := by rw [hs1]; rfl
            cases rest with
            | nil =>
              simp only [filterCalls] at h
              injection h with h
              subst h
              refine ⟨f1, (filterFlags t.s x.first).started, runCalls_cons_completed (b := b1) hrun _, hle, ?_, ?_⟩
              · rw [hs1]; exact filterDone_eq_final t.s x f1
              · intro hh; exact filterFlags_started t.s x.first hh
            | cons c2 rest2 =>
              obtain ⟨e2, k2⟩ := c2
              simp only [filterCalls] at h
              cases hcall2 : filterTickets (t1.withBudget (some k2)) e2 with
              | error err => rw [hcall2] at h; cases h
              | ok t2 =>
                obtain ⟨hp2, _⟩ := filterTickets_inv _ _ _ hcall2
                have : t1.s.flags.filtered = false := hp2.notFiltered
                rw [hfil1] at this; cases this
          · obtain ⟨err, this⟩ :=
              filterTickets_underflow (t.withBudget (some k)) e x f1 b1 hp hx hrun hle
            rw [this] at hcall; cases hcall
        | interrupted =>
          have := filterTickets_interrupted (t.withBudget (some k)) e x f1 b1 hp hx hrun
          rw [this] at hcall
          injection hcall with hcall
          have hs1 : t1.s = filterSaved t.s x f1 := by rw [← hcall]; rfl
          have hx1 : filStOf t1.s = some f1 := by rw [hs1]; rfl
          have hnf1 : t1.s.flags.filtered = false := by
            rw [hs1]
            show (filterFlags t.s x.first).filtered = false
            rw [filterFlags_filtered]; exact hnf
          obtain ⟨f, st, hrc, hle, hfin, hst⟩ := ih t1 t' f1 hx1 hnf1 h hf
          have hc1 : t1.s.confirmed = t.s.confirmed := by rw [hs1]; rfl
          have hl1 : t1.s.lastTicketId = t.s.lastTicketId := by rw [hs1]; rfl
          rw [hc1, hl1] at hrc
          refine ⟨f, st, ?_, by rw [← hl1]; exact hle, ?_, ?_⟩
          · rw [runCalls_cons_interrupted (b := b1) hrun]; exact hrc
          · rw [hfin, hs1]; exact filterFinal_saved t.s x f1 f st
          · intro hh
            apply hst
            right
            rw [hs1]
            exact filterFlags_started t.s x.first hh


/-- the storage the filter step starts from: batches = allocation list `L`, nothing filtered,
    no ongoing operation, confirmations within the allocations -/
structure FilterReady (L : List (Nat × Nat)) (s : State) : Prop where
  nodup : (L.map Prod.fst).Nodup
  pos : ∀ p ∈ L, 1 ≤ p.2
  conf : ∀ p ∈ L, s.confirmed p.1 ≤ p.2
  chain : Chain L 1 s.range s.batch
  last : s.lastTicketId = ticketTotal L
  op : s.op = .none
  notFiltered : s.flags.filtered = false

/-- the loop state in which the filter of a `FilterReady` storage ends -/
theorem filter_ready_run {L : List (Nat × Nat)} {s : State} (h : FilterReady L s) :
    ∃ f, runWhile (filterBody s.confirmed s.lastTicketId) (s.lastTicketId + 2) none
            ⟨s.range, s.batch, 1, 0⟩ = .ok (f, none, .completed) ∧
      f.first = s.lastTicketId + 1 ∧ f.removed = droppedSum s.confirmed L ∧
      f.removed ≤ s.lastTicketId ∧ s.lastTicketId - f.removed = confSum s.confirmed L ∧
      Chain (survivors s.confirmed L) 1 f.range f.batch ∧
      (∀ p ∈ L, s.confirmed p.1 = 0 → f.range p.1 = none) ∧
      (∀ a, a ∉ L.map Prod.fst → f.range a = s.range a) := by
  obtain ⟨f, h1, h2, h3, h4, h5, h6, _⟩ :=
    filter_spec s.confirmed L s.range s.batch s.lastTicketId (s.lastTicketId + 2)
      h.nodup h.pos h.conf h.chain h.last
      (by rw [h.last]; exact filter_spec_endpoint_fuel L h.pos)
  have hsum := confSum_add_droppedSum s.confirmed L h.conf
  have hl := h.last
  exact ⟨f, h1, h2, h3, by omega, by omega, h4, h5, h6⟩

theorem filStOf_ready {L : List (Nat × Nat)} {s : State} (h : FilterReady L s) :
    filStOf s = some ⟨s.range, s.batch, 1, 0⟩ := by
  simp only [filStOf, h.op]

theorem filterFinal_nrWinning (s : State) (f : FilSt) (st : Bool) :
    (filterFinal s f st).nrWinning = min s.nrWinning (s.lastTicketId - f.removed) := by
  show (if s.nrWinning > s.lastTicketId - f.removed then s.lastTicketId - f.removed
        else s.nrWinning) = _
  split <;> omega

/-- B3: one unbudgeted call on a `FilterReady` storage -/
theorem filterTickets_single {L : List (Nat × Nat)} (t : Tx) (e : Env)
    (h : FilterReady L t.s) (hp : FilterPre t.s e) (hb : t.c.budget = none) :
    ∃ t' f, filterTickets t e = .ok t' ∧
      runWhile (filterBody t.s.confirmed t.s.lastTicketId) (t.s.lastTicketId + 2) none
        ⟨t.s.range, t.s.batch, 1, 0⟩ = .ok (f, none, .completed) ∧
      t'.s = filterFinal t.s f true ∧
      t'.s.lastTicketId = confSum t.s.confirmed L ∧
      t'.s.nrWinning = min t.s.nrWinning (confSum t.s.confirmed L) ∧
      Chain (survivors t.s.confirmed L) 1 t'.s.range t'.s.batch ∧
      (∀ p ∈ L, t.s.confirmed p.1 = 0 → t'.s.range p.1 = none) ∧
      (∀ a, a ∉ L.map Prod.fst → t'.s.range a = t.s.range a) ∧
      t'.s.flags.filtered = true ∧ t'.s.op = .none ∧ t'.o.ret = [0] := by
  obtain ⟨f, h1, h2, h3, h4, h5, h6, h7, h8⟩ := filter_ready_run h
  have hrun : runWhile (filterBody t.s.confirmed t.s.lastTicketId) (t.s.lastTicketId + 2)
      t.c.budget ⟨t.s.range, t.s.batch, 1, 0⟩ = .ok (f, none, .completed) := by
    rw [hb]; exact h1
  have hcall := filterTickets_completed t e _ f none hp (filStOf_ready h) hrun h4
  refine ⟨_, f, hcall, h1, ?_, ?_, ?_, h6, h7, h8, rfl, rfl, rfl⟩
  · show filterDone t.s _ f = _
    rw [filterDone_eq_final]; rfl
  · exact h5
  · show (filterDone t.s _ f).nrWinning = _
    rw [filterDone_eq_final, filterFinal_nrWinning, h5]

/-- B3: every accepted budget schedule (any callers, rounds, budgets) that completes the step
    leaves exactly the storage `filterFinal s f true`, `f` the final loop state of the single
    unbudgeted run; in particular the facts of `filter_spec` hold for it. -/
theorem filterCalls_spec {L : List (Nat × Nat)} (cs : List (Env × Nat)) (t t' : Tx)
    (h : FilterReady L t.s) (hc : filterCalls cs t = .ok t')
    (hf : t'.s.flags.filtered = true) :
    ∃ f, runWhile (filterBody t.s.confirmed t.s.lastTicketId) (t.s.lastTicketId + 2) none
            ⟨t.s.range, t.s.batch, 1, 0⟩ = .ok (f, none, .completed) ∧
      t'.s = filterFinal t.s f true ∧
      t'.s.lastTicketId = confSum t.s.confirmed L ∧
      t'.s.nrWinning = min t.s.nrWinning (confSum t.s.confirmed L) ∧
      Chain (survivors t.s.confirmed L) 1 t'.s.range t'.s.batch ∧
      (∀ p ∈ L, t.s.confirmed p.1 = 0 → t'.s.range p.1 = none) ∧
      (∀ a, a ∉ L.map Prod.fst → t'.s.range a = t.s.range a) := by
  obtain ⟨f, h1, h2, h3, h4, h5, h6, h7, h8⟩ := filter_ready_run h
  obtain ⟨f', st, hrc, _, hfin, hst⟩ :=
    filterCalls_runCalls cs t t' _ (filStOf_ready h) h.notFiltered hc hf
  have hst' : st = true := hst (Or.inl rfl)
  subst hst'
  have hsingle := runCalls_eq_single_fuel _ _ _ _ _ hrc
  have hff : f' = f := runWhile_completed_unique _ _ _ _ _ _ hsingle h1
  subst hff
  refine ⟨f', h1, hfin, ?_, ?_, ?_, ?_, ?_⟩
  · rw [hfin]; exact h5
  · rw [hfin, filterFinal_nrWinning, h5]
  · rw [hfin]; exact h6
  · intro p hp h0; rw [hfin]; exact h7 p hp h0
  · intro a ha; rw [hfin]; exact h8 a ha

/-- B3 schedule independence, no assumption on the storage beyond "fresh filter step": two
    accepted, completing call sequences end in the same storage (all fields). -/
theorem filterCalls_deterministic (cs cs' : List (Env × Nat)) (t t1 t2 : Tx)
    (hop : t.s.op = .none) (hnf : t.s.flags.filtered = false)
    (h1 : filterCalls cs t = .ok t1) (h2 : filterCalls cs' t = .ok t2)
    (hf1 : t1.s.flags.filtered = true) (hf2 : t2.s.flags.filtered = true) :
    t1.s = t2.s := by
  have hx : filStOf t.s = some ⟨t.s.range, t.s.batch, 1, 0⟩ := by simp only [filStOf, hop]
  obtain ⟨f1, st1, hrc1, _, hfin1, hst1⟩ := filterCalls_runCalls cs t t1 _ hx hnf h1 hf1
  obtain ⟨f2, st2, hrc2, _, hfin2, hst2⟩ := filterCalls_runCalls cs' t t2 _ hx hnf h2 hf2
  have e1 : st1 = true := hst1 (Or.inl rfl)
  have e2 : st2 = true := hst2 (Or.inl rfl)
  have e3 : f1 = f2 := runCalls_deterministic _ _ _ _ _ _ _ _ hrc1 hrc2
  rw [hfin1, hfin2, e1, e2, e3]


/-! ### liveness of the chunked endpoint -/

theorem filterSaved_stage (s : State) (x f : FilSt) (e : Env) :
    (filterSaved s x f).stage e = s.stage e := by
  by_cases h : x.first = 1 <;> simp [State.stage, stageOf, filterSaved, filterFlags, h]

theorem filterCalls_completes_gen :
    ∀ (cs : List (Env × Nat)) (t : Tx) (x f : FilSt) (N : Nat),
      filStOf t.s = some x → t.s.paused = false → t.s.flags.filtered = false →
      (∀ c ∈ cs, t.s.stage c.1 = .winnerSelection) →
      runWhile (filterBody t.s.confirmed t.s.lastTicketId) N none x
        = .ok (f, none, .completed) →
      N ≤ t.s.lastTicketId + 2 → f.removed ≤ t.s.lastTicketId → N ≤ cs.length →
      ∃ cs1 cs2 t', cs = cs1 ++ cs2 ∧ filterCalls cs1 t = .ok t' ∧
        t'.s.flags.filtered = true := by
  intro cs
  induction cs with
  | nil =>
    intro t x f N _ _ _ _ hrun _ _ hN
    have : N = 0 := by simpa using hN
    subst this
    rw [runWhile_zero] at hrun
    injection hrun with hrun
    simp only [Prod.mk.injEq] at hrun
    exact absurd hrun.2.2 (by decide)
  | cons c rest ih =>
    obtain ⟨e, k⟩ := c
    intro t x f N hx hpa hnf hst hrun hN hle hlen
    have hp : FilterPre (t.withBudget (some k)).s e :=
      ⟨hpa, hst (e, k) (List.mem_cons_self ..), hnf⟩
    rcases runWhile_call_progress _ N x f hrun k (t.s.lastTicketId + 2) hN with
      ⟨b', hc⟩ | ⟨s1, hint, _, hk, hrest⟩
    · have hcall := filterTickets_completed (t.withBudget (some k)) e x f b' hp hx hc hle
      obtain ⟨t1, ht1, hf1⟩ : ∃ t1, filterTickets (t.withBudget (some k)) e = .ok t1 ∧
          t1.s.flags.filtered = true := ⟨_, hcall, rfl⟩
      exact ⟨[(e, k)], rest, t1, rfl, by simp only [filterCalls, ht1], hf1⟩
    · have hcall := filterTickets_interrupted (t.withBudget (some k)) e x s1 (some 0) hp hx hint
      obtain ⟨cs1, cs2, t', hsplit, hcalls, hfil⟩ :=
        ih { s := filterSaved t.s x s1, c := { (t.withBudget (some k)).c with budget := some 0 },
             o := { (t.withBudget (some k)).o with ret := [1] } } s1 f (N - (k + 1))
          rfl hpa (by show (filterFlags t.s x.first).filtered = false
                      rw [filterFlags_filtered]; exact hnf)
          (fun c hc => by
            show (filterSaved t.s x s1).stage c.1 = _
            rw [filterSaved_stage]; exact hst c (List.mem_cons_of_mem _ hc))
          hrest (by show N - (k + 1) ≤ t.s.lastTicketId + 2; omega) hle
          (by simp only [List.length_cons] at hlen; omega)
      refine ⟨(e, k) :: cs1, cs2, t', by rw [hsplit]; rfl, ?_, hfil⟩
      simp only [filterCalls, hcall]
      exact hcalls

/-- B3 liveness: on a `FilterReady` storage the step cannot be left stuck — whatever the
    budgets (even all `0`), callers and rounds (inside the winner-selection stage), the first
    `|L| + 1` calls at the latest complete it. -/
theorem filterCalls_completes {L : List (Nat × Nat)} (cs : List (Env × Nat)) (t : Tx)
    (h : FilterReady L t.s) (hpa : t.s.paused = false)
    (hst : ∀ c ∈ cs, t.s.stage c.1 = .winnerSelection) (hlen : L.length + 1 ≤ cs.length) :
    ∃ cs1 cs2 t', cs = cs1 ++ cs2 ∧ filterCalls cs1 t = .ok t' ∧
      t'.s.flags.filtered = true := by
  obtain ⟨f, h1, _, h3, _⟩ :=
    filter_spec t.s.confirmed L t.s.range t.s.batch t.s.lastTicketId (L.length + 1)
      h.nodup h.pos h.conf h.chain h.last (Nat.le_refl _)
  have hsum := confSum_add_droppedSum t.s.confirmed L h.conf
  have hl := h.last
  have hfuel := filter_spec_endpoint_fuel L h.pos
  exact filterCalls_completes_gen cs t _ f (L.length + 1) (filStOf_ready h) hpa h.notFiltered
    hst h1 (by omega) (by omega) hlen

/-! ### link with `step` -/

theorem creditPayments_none (s : State) (e : Env) (h1 : e.egld = 0) (h2 : e.esdts = []) :
    creditPayments s e = s := by
  have : (s.bal.add .egld 0 0) = s.bal := by
    funext t n
    simp [Bal.add]
  simp only [creditPayments, h1, h2, List.foldl_nil, this]


/-- the `filterTickets` transaction as dispatched by `step` (non-payable, callable by anyone, in
    every variant): it is `filterTickets` on the storage, with the call's budget -/
theorem step_filter (hash : List Nat → List Nat) (s : State) (e : Env)
    (h1 : e.egld = 0) (h2 : e.esdts = []) :
    step hash s e .filter =
      match filterTickets ⟨s, ⟨e.budget, e.seeds, e.script⟩, {}⟩ e with
      | .error err => .error err
      | .ok t => .ok (t.s, t.o) := by
  simp only [step, endpointMeta, exec, creditPayments_none s e h1 h2, h1, h2]
  simp
  cases filterTickets ⟨s, ⟨e.budget, e.seeds, e.script⟩, {}⟩ e <;> rfl


/-! ### allocation then filtering -/

/-- the storage produced by `add_tickets` on a fresh contract is `FilterReady` once the
    confirmations are in (confirmations only touch `confirmed`, never above the allocation) -/
theorem filterReady_of_createMany (L : List (Nat × Nat)) (s s' s2 : State)
    (h : createMany L s = .ok s') (h0 : s.lastTicketId = 0) (hpos : ∀ p ∈ L, 1 ≤ p.2)
    (hr : s2.range = s'.range) (hb : s2.batch = s'.batch)
    (hl : s2.lastTicketId = s'.lastTicketId) (hop : s2.op = .none)
    (hnf : s2.flags.filtered = false) (hc : ∀ p ∈ L, s2.confirmed p.1 ≤ p.2) :
    FilterReady L s2 := by
  obtain ⟨h1, _, _, h4, h5, _⟩ := createMany_ok L s s' h
  have hch := h5 hpos
  rw [h0] at hch h4
  exact ⟨h1, hpos, hc, by rw [hr, hb]; simpa using hch, by rw [hl, h4]; omega, hop, hnf⟩

/-- disjoint / contiguous / covering, in one statement -/
theorem Chain_partition {L : List (Nat × Nat)} {first : Nat} {range : Nat → Option Range}
    {batch : Nat → Option Batch} (h : Chain L first range batch) (hpos : ∀ p ∈ L, 1 ≤ p.2) :
    (∀ p ∈ L, ∃ r, range p.1 = some r ∧ first ≤ r.first ∧ r.first ≤ r.last ∧
        r.last < first + ticketTotal L ∧ r.last + 1 = r.first + p.2) ∧
    (∀ t, first ≤ t → t < first + ticketTotal L →
        ∃ p ∈ L, ∃ r, range p.1 = some r ∧ r.first ≤ t ∧ t ≤ r.last) ∧
    (∀ p ∈ L, ∀ q ∈ L, p.1 ≠ q.1 → ∀ rp rq, range p.1 = some rp → range q.1 = some rq →
        rp.last < rq.first ∨ rq.last < rp.first) :=
  ⟨Chain_bounds h hpos, fun t h1 h2 => Chain_cover h t h1 h2, Chain_disjoint h hpos⟩

theorem survivors_pos (conf : Nat → Nat) (L : List (Nat × Nat)) :
    ∀ q ∈ survivors conf L, 1 ≤ q.2 := by
  intro q hq
  obtain ⟨_, h2, h3⟩ := mem_survivors hq
  omega

theorem survivors_nodup (conf : Nat → Nat) (L : List (Nat × Nat))
    (h : (L.map Prod.fst).Nodup) : ((survivors conf L).map Prod.fst).Nodup := by
  induction L with
  | nil => exact List.nodup_nil
  | cons p r ih =>
    obtain ⟨a, n⟩ := p
    simp only [List.map_cons, List.nodup_cons] at h
    by_cases h0 : conf a = 0
    · rw [survivors_cons_zero conf a n r h0]; exact ih h.2
    · rw [survivors_cons_pos conf a n r h0]
      simp only [List.map_cons, List.nodup_cons]
      refine ⟨?_, ih h.2⟩
      intro hmem
      obtain ⟨q, hq, hqa⟩ := List.mem_map.mp hmem
      have := (mem_survivors hq).1
      rw [hqa] at this
      exact h.1 this

end LP
