import LP.Proofs.ReachPL3
import LP.Proofs.ReachV1Base
/-
  LP.Proofs.LockedGuarClaim — helpers for `LP/Props/C16reach.lean` (C16 at the level of reachable
  states, for BOTH locked variants `Variant.locked` and `Variant.lockedGuar`).

  * `lk_claim_locked_out`    the split of a settlement, exactly — `pl_claim_locked_out`
                             (LP/Proofs/ReachPL3.lean) generalised from `variant = .locked` to any
                             variant with a lock (`vested = false`, `hasLock = true`, `lockPct ≤ 10000`)
  * `lk_step_owner`, `lk_run_*`   the lock terms, the variant, the owner along a `run` history
  * `lk_v1_reach_*`          static facts of `v1_Reach hash .lockedGuar`
-/
namespace LP
open LP.FY LP.Props.C09

/-! ### the split of a settlement, any variant with a lock -/

theorem lk_hasLock_flags {v : Variant} (h : v.hasLock = true) :
    v.vested = false ∧ v.hasNft = false ∧ (v = .locked ∨ v = .lockedGuar) := by
  cases v <;> simp_all [Variant.hasLock, Variant.hasNft, Variant.vested]

/-- **the split of a settlement of a launchpad with a lock, exactly** (both locked variants): with
    `amount = winning × perTicket` and `L = pl_lockedAmt s e amount` (`= lockSplit amount lockPct`
    before the unlock epoch, `0` from the unlock epoch on), the outputs are the refund, then — if
    `L > 0` — one transfer of `L` to the lock contract with the lock call `(unlockEpoch, caller, L)`,
    then — if `amount − L > 0` — one direct transfer of `amount − L` to the caller -/
theorem lk_claim_locked_out {hash : List Nat → List Nat} {s s' : State} {e : Env} {o : Out}
    (hl : s.variant.hasLock = true) (hp : s.lockPct ≤ 10000)
    (hs : step hash s e .claim = .ok (s', o)) :
    o.locks = (if pl_lockedAmt s e (winCountOf s e.caller * s.perTicket) > 0
      then [(s.unlockEpoch, e.caller, pl_lockedAmt s e (winCountOf s e.caller * s.perTicket))] else []) ∧
    o.xfers = refundXfers s e.caller
      ++ (if pl_lockedAmt s e (winCountOf s e.caller * s.perTicket) > 0
          then [(s.lockAddr, (⟨.esdt s.lpTok, 0,
            pl_lockedAmt s e (winCountOf s e.caller * s.perTicket)⟩ : Pay))] else [])
      ++ (if winCountOf s e.caller * s.perTicket
            - pl_lockedAmt s e (winCountOf s e.caller * s.perTicket) > 0
          then [(e.caller, (⟨.esdt s.lpTok, 0, winCountOf s e.caller * s.perTicket
            - pl_lockedAmt s e (winCountOf s e.caller * s.perTicket)⟩ : Pay))] else []) ∧
    pl_lockedAmt s e (winCountOf s e.caller * s.perTicket)
      + (winCountOf s e.caller * s.perTicket - pl_lockedAmt s e (winCountOf s e.caller * s.perTicket))
      = winCountOf s e.caller * s.perTicket := by
  obtain ⟨hvest, hnft, _⟩ := lk_hasLock_flags hl
  have hle := pl_lockedAmt_le hp e (winCountOf s e.caller * s.perTicket)
  refine ⟨?_, ?_, by omega⟩ <;>
  · have h := hs
    rw [step_claim_ok_iff, exec_claim_nonvested hash _ e hvest] at h
    obtain ⟨_, _, t, hx, -, rfl⟩ := h
    obtain ⟨r, ⟨_, _, hr, _, _, _⟩, t2, h3, h4⟩ := (claimBase_ok_iff _ e t).mp hx
    rw [txc_s] at hr h3
    have hw : winCountOf s e.caller = countWinning s.status r.first (rangeLen r) := winCount_of_range hr
    have hvar : (claimMid (txc s e) e r).s.variant = s.variant := by rw [claimMid_state]; rfl
    have hpct : (claimMid (txc s e) e r).s.lockPct ≤ 10000 := by rw [claimMid_state]; exact hp
    rw [sendLaunchpadTokens_lock_ok_iff _ e _ _ _ (by rw [hvar]; exact hl) hpct] at h3
    obtain ⟨_, ht2⟩ := h3
    have hn' : t2.s.variant.hasNft = false := by
      rw [ht2, sendTokensLockedResult_state]
      show (claimMid (txc s e) e r).s.variant.hasNft = false
      rw [hvar]; exact hnft
    simp only [hn', Bool.false_eq_true, if_false, pure_ok_iff] at h4
    subst h4
    have hmx : (claimMid (txc s e) e r).o.xfers = refundXfers s e.caller := by
      rw [claimMid_xfers]
      simp only [refundXfers, winCount_of_range hr, txc, List.nil_append]
      rfl
    have hml : (claimMid (txc s e) e r).o.locks = [] := by
      unfold claimMid refundResult; split <;> rfl
    have hue : (claimMid (txc s e) e r).s.unlockEpoch = s.unlockEpoch := by rw [claimMid_state]; rfl
    have hpc : (claimMid (txc s e) e r).s.lockPct = s.lockPct := by rw [claimMid_state]; rfl
    have hla : (claimMid (txc s e) e r).s.lockAddr = s.lockAddr := by rw [claimMid_state]; rfl
    have hlp : (claimMid (txc s e) e r).s.lpTok = s.lpTok := by rw [claimMid_state]; rfl
    have hpt : (claimMid (txc s e) e r).s.perTicket = s.perTicket := by rw [claimMid_state]; rfl
    rw [ht2, hw]
    unfold sendTokensLockedResult
    by_cases hz : countWinning s.status r.first (rangeLen r) = 0
    · rw [if_pos hz, hz]
      simp [pl_lockedAmt, lockSplit, hmx, hml]
    · rw [if_neg hz]
      unfold sendLockedResult
      simp only [hmx, hml, List.nil_append]
      unfold lockedPart pl_lockedAmt
      simp only [hue, hpc, hla, hlp, hpt]

/-- **a settlement of a launchpad with a lock, the state side**: claim stage, first claim of the
    caller, who holds a range; the winning tickets are among the outstanding winners and their tokens
    are in the contract; the launchpad-token balance drops by exactly the entitlement, `nrWinning` by
    the caller's winning tickets; the range is gone and `claimed` is set -/
theorem lk_claim_state {hash : List Nat → List Nat} {s s' : State} {e : Env} {o : Out}
    (hl : s.variant.hasLock = true) (hp : s.lockPct ≤ 10000) (hne : s.payTok ≠ .esdt s.lpTok)
    (hs : step hash s e .claim = .ok (s', o)) :
    s.stage e = .claim ∧ s.claimed e.caller = false ∧ (∃ rg, s.range e.caller = some rg) ∧
    winCountOf s e.caller ≤ s.nrWinning ∧
    s.perTicket * winCountOf s e.caller ≤ s.bal (.esdt s.lpTok) 0 ∧
    s'.nrWinning = s.nrWinning - winCountOf s e.caller ∧
    s'.bal (.esdt s'.lpTok) 0 = s.bal (.esdt s.lpTok) 0 - s.perTicket * winCountOf s e.caller ∧
    s'.perTicket = s.perTicket ∧ s'.range e.caller = none ∧ s'.claimed e.caller = true := by
  obtain ⟨hvest, _, _⟩ := lk_hasLock_flags hl
  have hwc : winCountOf s e.caller = winCount s e.caller := rfl
  obtain ⟨r, nl, nd, hacc, hs', _⟩ := claim_lock_effect hash s e s' o hvest hl hp hs
  obtain ⟨k1, k2, k3, k4⟩ := pl_claimAccepts_lp hne hacc
  have hw := winCount_of_range k2
  rw [hwc, Nat.mul_comm]
  refine ⟨k1, hacc.2.2.2.1, ⟨r, k2⟩, k3, k4, ?_, ?_, ?_, ?_, ?_⟩
  · rw [hs', hw]; rfl
  · rw [hs']
    show balAfterClaim s e.caller (.esdt s.lpTok) 0 = _
    rw [pl_balAfterClaim_lp hne]
  · rw [hs']; rfl
  · rw [hs']; show upd s.range e.caller none e.caller = none; simp
  · rw [hs']; show upd s.claimed e.caller true e.caller = true; simp

/-! ### the lock terms, the variant and the owner along a history -/

theorem lk_step_owner {hash : List Nat → List Nat} {s s' : State} {e : Env} {c : Call} {o : Out}
    (h : step hash s e c = .ok (s', o)) : s'.owner = s.owner := by
  rcases step_static_cases h with ⟨_, h1⟩ | ⟨_, h1⟩
  · exact terms_owner (static_terms h1)
  · rw [h1]
    cases c <;> rfl

/-- a property of states kept by every accepted call is kept by every history -/
theorem lk_run_keeps (hash : List Nat → List Nat) (P : State → Prop)
    (hstep : ∀ s e c s' o, step hash s e c = .ok (s', o) → P s → P s') :
    ∀ (h : List (Env × Call)) (s : State), P s → P (run hash s h)
  | [], _, hp => hp
  | (e, c) :: rest, s, hp => by
    unfold run
    cases hx : step hash s e c with
    | error err => exact lk_run_keeps hash P hstep rest s hp
    | ok q =>
      obtain ⟨s', o⟩ := q
      exact lk_run_keeps hash P hstep rest s' (hstep s e c s' o hx hp)

/-- **the lock terms, the variant, the launchpad token and the owner never change along a history**
    (any calls, any arguments; rejected transactions leave no trace) -/
theorem lk_run_terms (hash : List Nat → List Nat) (s : State) (h : List (Env × Call)) :
    (run hash s h).lockPct = s.lockPct ∧ (run hash s h).unlockEpoch = s.unlockEpoch ∧
    (run hash s h).lockAddr = s.lockAddr ∧ (run hash s h).variant = s.variant ∧
    (run hash s h).lpTok = s.lpTok ∧ (run hash s h).owner = s.owner :=
  lk_run_keeps hash
    (fun x => x.lockPct = s.lockPct ∧ x.unlockEpoch = s.unlockEpoch ∧ x.lockAddr = s.lockAddr ∧
      x.variant = s.variant ∧ x.lpTok = s.lpTok ∧ x.owner = s.owner)
    (fun s1 e c s2 o hx hp => by
      obtain ⟨h1, h2, h3, h4, h5, h6⟩ := hp
      obtain ⟨k1, k2⟩ := pl_step_lockAddr hx
      exact ⟨(pl_step_lockPct hx).trans h1, k2.trans h2, k1.trans h3, (pl_step_variant hx).trans h4,
        (pl_step_lpTok hx).trans h5, (lk_step_owner hx).trans h6⟩)
    h s ⟨rfl, rfl, rfl, rfl, rfl, rfl⟩

/-- "payment token ≠ launchpad token" is kept along a history -/
theorem lk_run_tokNe (hash : List Nat → List Nat) (s : State) (h : List (Env × Call))
    (hne : s.payTok ≠ .esdt s.lpTok) : (run hash s h).payTok ≠ .esdt (run hash s h).lpTok :=
  lk_run_keeps hash (fun x => x.payTok ≠ .esdt x.lpTok)
    (fun _ _ _ _ _ hx hp => pl_step_tokNe hx hp) h s hne

/-! ### static facts of `v1_Reach hash .lockedGuar` -/

theorem lk_v1_reach_variant {hash : List Nat → List Nat} {v : Variant} (hv : v1_Fam v) {s : State}
    {r : Nat} (h : v1_Reach hash v s r) : s.variant = v := by
  induction h with
  | init a e s hh => exact (v1_init_inv hv hh).1
  | call s r e c s' o _ _ _ _ h4 ih => rw [pl_step_variant h4]; exact ih
  | wait s r r' _ _ ih => exact ih

/-- the lock percentage of the locked guaranteed-ticket launchpad is positive (checked at
    deployment, never changed) -/
theorem lk_v1_reach_lockPct_pos {hash : List Nat → List Nat} {s : State} {r : Nat}
    (h : v1_Reach hash .lockedGuar s r) : 0 < s.lockPct := by
  induction h with
  | init a e0 s hh =>
    unfold init at hh
    simp only [Variant.hasNft, Variant.v1Alloc, Variant.hasLock, Variant.noAdditionalStep, bind_ok_iff,
      req_ok_iff, pure_ok_iff, pure_bind,
      exists_const, if_true, if_false, Bool.false_eq_true, reduceCtorEq, decide_eq_true_eq,
      bne_iff_ne, ne_eq, not_false_eq_true, beq_iff_eq, Bool.and_eq_true] at hh
    obtain ⟨_, _, _, _, _, _, _, ⟨h7, _⟩, _, _, hh⟩ := hh
    subst hh
    exact h7
  | call s r e c s' o _ _ _ _ h4 ih => rw [pl_step_lockPct h4]; exact ih
  | wait s r r' _ _ ih => exact ih

/-! ## lock calls: `Out.locks` is written only by `Tx.sendLocked`

  One lemma `lk_X_locks : t'.o.locks = t.o.locks` per helper that carries a `Tx` (mirrors
  LP/Proofs/EventsFrame.lean), then `lk_exec_locks` for all endpoints: only the `claim` endpoint of
  a variant with a lock (`hasLock = true`; these variants have no vesting) can record a lock call. -/

theorem lk_send_locks {t t' : Tx} {to : Nat} {p : Pay} (h : t.send to p = .ok t') :
    t'.o.locks = t.o.locks := by
  rw [send_ok_iff] at h
  rw [h.2]; rfl

theorem lk_refund_locks {t t' : Tx} {e : Env} {addr n : Nat} (h : t.refund e addr n = .ok t') :
    t'.o.locks = t.o.locks := by
  rw [refund_ok_iff] at h
  rw [h.2]; unfold refundResult; split <;> rfl

/-! ### owner withdrawals -/

theorem lk_claimPaymentOwn_locks {t t' : Tx} {e : Env} (h : claimPaymentOwn t e = .ok t') :
    t'.o.locks = t.o.locks := by
  unfold claimPaymentOwn at h
  simp only [bind_ok_iff, req_ok_iff, requireStage, exists_const] at h
  obtain ⟨_, h⟩ := h
  split at h
  · simp only [bind_ok_iff] at h
    obtain ⟨t1, h1, h⟩ := h
    have e1 : t1.o.locks = t.o.locks := (lk_send_locks h1).trans rfl
    split at h
    · simp only [pure_ok_iff] at h; subst h; exact e1
    · split at h
      · simp only [pure_ok_iff] at h; subst h; exact e1
      · rw [lk_send_locks h]; exact e1
  · simp only [bind_ok_iff, pure_ok_iff] at h
    obtain ⟨a, rfl, h⟩ := h
    split at h
    · simp only [pure_ok_iff] at h; subst h; rfl
    · split at h
      · simp only [pure_ok_iff] at h; subst h; rfl
      · rw [lk_send_locks h]; rfl

theorem lk_claimPaymentCommon_locks {t t' : Tx} {e : Env} (h : claimPaymentCommon t e = .ok t') :
    t'.o.locks = t.o.locks := by
  unfold claimPaymentCommon at h
  simp only [bind_ok_iff, req_ok_iff, requireStage, exists_const] at h
  obtain ⟨_, h⟩ := h
  split at h
  · simp only [bind_ok_iff] at h
    obtain ⟨t1, h1, x, _, h⟩ := h
    have e1 : t1.o.locks = t.o.locks := (lk_send_locks h1).trans rfl
    split at h
    · rw [lk_send_locks h]; exact e1
    · simp only [pure_ok_iff] at h; subst h; exact e1
  · simp only [bind_ok_iff, pure_ok_iff] at h
    obtain ⟨a, rfl, x, _, h⟩ := h
    split at h
    · exact lk_send_locks h
    · simp only [pure_ok_iff] at h; subst h; rfl

theorem lk_claimNftPayment_locks {t t' : Tx} {e : Env} (h : claimNftPayment t e = .ok t') :
    t'.o.locks = t.o.locks := by
  unfold claimNftPayment at h
  simp only [bind_ok_iff, req_ok_iff, requireStage, exists_const] at h
  obtain ⟨_, h⟩ := h
  split at h
  · simp only [bind_ok_iff, pure_ok_iff] at h
    obtain ⟨t1, h1, rfl⟩ := h
    exact (lk_send_locks h1 : t1.o.locks = t.o.locks)
  · simp only [pure_ok_iff] at h; subst h; rfl

/-! ### NFT draw and the combined secondary step -/

theorem lk_nftBody_locks (hash : List Nat → List Nat) (total : Nat) (lk0 : List (Nat × Nat × Nat))
    (x x' : NSt) (c : Bool) (hx : x.tx.o.locks = lk0) (h : nftBody hash total x = .ok (x', c)) :
    x'.tx.o.locks = lk0 := by
  unfold nftBody at h
  have hd := (Events.DrawFrame.draw hash x.tx x.rng).2.2.2.2.2.1
  split at h
  · cases h; exact hx
  · simp only at h
    split at h
    · cases h
    · cases h
      rw [← hx]; exact hd

theorem lk_nftSubstep_locks {hash : List Nat → List Nat} {t t' : Tx} {rng rng' : Rng} {st : LoopStatus}
    (h : nftSubstep hash t rng = .ok (t', rng', st)) : t'.o.locks = t.o.locks := by
  unfold nftSubstep at h
  simp only [bind_ok_iff, Prod.exists] at h
  obtain ⟨x, b, st0, hrun, hrest⟩ := h
  have hx : x.tx.o.locks = t.o.locks :=
    Events.runWhile_invariant _ (fun y : NSt => y.tx.o.locks = t.o.locks)
      (fun y y' c hy hb => lk_nftBody_locks hash _ _ y y' c hy hb) _ _ _ _ rfl hrun
  cases st0 with
  | outOfFuel => cases hrest
  | interrupted =>
    simp only [pure_ok_iff, Prod.mk.injEq] at hrest
    obtain ⟨rfl, _, _⟩ := hrest
    exact hx
  | completed =>
    simp only [pure_ok_iff, Prod.mk.injEq] at hrest
    obtain ⟨rfl, _, _⟩ := hrest
    exact hx

theorem lk_freshRng_locks (t : Tx) : t.freshRng.2.o.locks = t.o.locks :=
  (Events.DrawFrame.freshRng t).2.2.2.2.2.1

theorem lk_guaranteedSubstep_locks {hash : List Nat → List Nat} {t t' : Tx} {g g' : GuarOp}
    {st : LoopStatus} (h : guaranteedSubstep hash t g = .ok (t', g', st)) :
    t'.o.locks = t.o.locks :=
  (Events.guaranteedSubstep_frame h).1.2.2.2.2.1

theorem lk_selectNft_locks {hash : List Nat → List Nat} {t t' : Tx} {e : Env}
    (h : selectNft hash t e = .ok t') : t'.o.locks = t.o.locks := by
  unfold selectNft at h
  simp only [bind_ok_iff, req_ok_iff, requireStage, exists_const] at h
  obtain ⟨_, _, _, h⟩ := h
  split at h
  case h_3 => simp [bind, Except.bind] at h
  case h_4 => simp [bind, Except.bind] at h
  all_goals
    simp only [bind_ok_iff, pure_ok_iff, Prod.exists, Prod.mk.injEq] at h
    obtain ⟨rng, t0, ⟨_, ht0⟩, t1, rng', st, hsub, hfin⟩ := h
    have e0 : t0.o.locks = t.o.locks := by
      first
        | (rw [← ht0]; exact lk_freshRng_locks t)
        | rw [← ht0]
    have e1 := lk_nftSubstep_locks hsub
    cases st <;>
      (simp only [pure_ok_iff] at hfin; subst hfin; show t1.o.locks = _; rw [e1, e0])

theorem lk_secondary_locks {hash : List Nat → List Nat} {t t' : Tx} {e : Env}
    (h : secondary hash t e = .ok t') : t'.o.locks = t.o.locks := by
  unfold secondary at h
  simp only [bind_ok_iff, req_ok_iff, requireStage, exists_const] at h
  obtain ⟨_, _, _, h⟩ := h
  split at h
  case h_3 => simp [bind, Except.bind] at h
  all_goals
    simp only [bind_ok_iff, pure_ok_iff, Prod.exists, Prod.mk.injEq] at h
    obtain ⟨cur, t0, ⟨_, ht0⟩, hh⟩ := h
    have h0 : t0.o.locks = t.o.locks := by
      first
        | (rw [← ht0]; exact lk_freshRng_locks t)
        | rw [← ht0]
    clear ht0
    cases cur with
    | nft r =>
      simp only [bind_ok_iff, pure_ok_iff] at hh
      obtain ⟨_, rfl, hh⟩ := hh
      simp only [bind_ok_iff, Prod.exists] at hh
      obtain ⟨t2, rng', st, hsub, hfin⟩ := hh
      have h2 := lk_nftSubstep_locks hsub
      cases st <;>
        (simp only [pure_ok_iff] at hfin; subst hfin; show t2.o.locks = _; rw [h2]; exact h0)
    | guar g =>
      simp only [bind_ok_iff, Prod.exists] at hh
      obtain ⟨t1, g', st, hsub, hfin⟩ := hh
      have hg := lk_guaranteedSubstep_locks hsub
      cases st with
      | completed =>
        simp only [bind_ok_iff, pure_ok_iff] at hfin
        obtain ⟨_, rfl, hfin⟩ := hfin
        simp only [bind_ok_iff, Prod.exists] at hfin
        obtain ⟨t2, rng', st2, hsub2, hfin⟩ := hfin
        have h2 := lk_nftSubstep_locks hsub2
        have hfr : (t1.setS (creditAdditional t1.s g'.additional)).freshRng.2.o.locks
            = t1.o.locks :=
          lk_freshRng_locks (t1.setS (creditAdditional t1.s g'.additional))
        cases st2 <;>
          (simp only [pure_ok_iff] at hfin; subst hfin; show t2.o.locks = _
           rw [h2, hfr, hg]; exact h0)
      | interrupted =>
        simp only [bind_ok_iff, pure_ok_iff] at hfin
        obtain ⟨_, rfl, hfin⟩ := hfin
        simp only [pure_ok_iff] at hfin
        subst hfin
        show t1.o.locks = _
        rw [hg]; exact h0
      | outOfFuel =>
        simp only [bind_ok_iff, pure_ok_iff] at hfin
        obtain ⟨_, rfl, hfin⟩ := hfin
        simp only [pure_ok_iff] at hfin
        subst hfin
        show t1.o.locks = _
        rw [hg]; exact h0

/-! ### claims -/

theorem lk_claimSettle_locks {t t1 : Tx} {e : Env} (h : claimSettle t e = .ok t1) :
    t1.o.locks = t.o.locks := by
  unfold claimSettle at h
  split at h
  · simp only [pure_ok_iff] at h; subst h; rfl
  · simp only [bind_ok_iff, Prod.exists, pure_ok_iff] at h
    obtain ⟨s1, rd, rf, _, t0, h0, rfl⟩ := h
    have := lk_refund_locks h0
    split <;> exact this

theorem lk_claimPay_locks {v2 : Bool} {t t' : Tx} {e : Env} {c : Nat}
    (h : claimPay v2 t e c = .ok t') : t'.o.locks = t.o.locks := by
  unfold claimPay at h
  split at h
  · simp only [bind_ok_iff, send_ok_iff, pure_ok_iff] at h
    obtain ⟨t1, ⟨_, rfl⟩, rfl⟩ := h
    cases v2 <;> rfl
  · simp only [pure_ok_iff] at h
    subst h; rfl

theorem lk_claimBody_locks {v2 : Bool} {t t' : Tx} {e : Env} (h : claimBody v2 t e = .ok t') :
    t'.o.locks = t.o.locks := by
  unfold claimBody at h
  simp only [bind_ok_iff] at h
  obtain ⟨t1, h1, c, _, h2⟩ := h
  rw [lk_claimPay_locks h2, lk_claimSettle_locks h1]

/-- the vesting claim records no lock call -/
theorem lk_claimVested_locks {t t' : Tx} {e : Env} (h : claimVested t e = .ok t') :
    t'.o.locks = t.o.locks := by
  rw [claimVested_eq] at h
  split at h
  · simp only [bind_ok_iff, req_ok_iff, exists_const] at h
    exact lk_claimBody_locks h.2
  · exact lk_claimBody_locks h

/-- the common claim of a variant without a lock records no lock call -/
theorem lk_claimBase_locks {t t' : Tx} {e : Env} (hl : t.s.variant.hasLock = false)
    (h : claimBase t e = .ok t') : t'.o.locks = t.o.locks := by
  rw [claimBase_ok_iff] at h
  obtain ⟨r, _, t2, h2, h3⟩ := h
  have hl' : (claimMid t e r).s.variant.hasLock = false := by rw [claimMid_state]; exact hl
  rw [sendLaunchpadTokens_nolock_ok_iff _ e _ _ _ hl'] at h2
  have ht2 : t2.o.locks = t.o.locks := by
    rw [h2.2]
    unfold sendTokensResult sendResult claimMid refundResult
    split <;> split <;> rfl
  split at h3
  · rw [claimNft_ok_iff] at h3
    obtain ⟨_, _, rfl⟩ := h3
    rw [(claimNftResult_effect t2 e).2.2.1, ht2]
  · simp only [pure_ok_iff] at h3
    subst h3; exact ht2

/-! ### all endpoints -/

/-- **only the `claim` endpoint of a variant with a lock can record a lock call**: every other
    endpoint body, and `claim` of the six variants without a lock, leaves `Out.locks` unchanged
    (all 31 endpoints of all 8 variants) -/
theorem lk_exec_locks {hash : List Nat → List Nat} {t t' : Tx} {e : Env} {c : Call}
    (hc : c = .claim → t.s.variant.hasLock = false) (h : exec hash t e c = .ok t') :
    t'.o.locks = t.o.locks := by
  cases c with
  | claim =>
    have hl := hc rfl
    cases hv : t.s.variant.vested
    · rw [exec_claim_nonvested hash t e hv] at h
      exact lk_claimBase_locks hl h
    · rw [exec_claim_vested hash t e hv] at h
      exact lk_claimVested_locks h
  | addTickets l =>
    simp only [exec, bind_ok_iff, pure_ok_iff] at h
    obtain ⟨_, _, s1, _, rfl⟩ := h; rfl
  | addTicketsV1 l =>
    simp only [exec, bind_ok_iff, pure_ok_iff] at h
    obtain ⟨s1, _, rfl⟩ := h; rfl
  | addTicketsV2 l =>
    simp only [exec] at h
    unfold addTicketsV2 at h
    simp only [bind_ok_iff, pure_ok_iff, Prod.exists] at h
    obtain ⟨_, _, s1, tw, tg, uc, ta, ga, h1, rfl⟩ := h
    rfl
  | deposit =>
    simp only [exec, bind_ok_iff, pure_ok_iff] at h
    obtain ⟨s1, _, rfl⟩ := h; rfl
  | setTicketPrice tok amount =>
    simp only [exec, bind_ok_iff, pure_ok_iff] at h
    obtain ⟨_, _, s1, _, rfl⟩ := h; rfl
  | setPerTicket amount =>
    simp only [exec, bind_ok_iff, pure_ok_iff] at h
    obtain ⟨_, _, _, _, _, _, rfl⟩ := h; rfl
  | setConfStart r =>
    simp only [exec, bind_ok_iff, pure_ok_iff] at h
    obtain ⟨_, _, _, _, rfl⟩ := h; rfl
  | setSelStart r =>
    simp only [exec, bind_ok_iff, pure_ok_iff] at h
    obtain ⟨_, _, _, _, rfl⟩ := h; rfl
  | setClaimStart r =>
    simp only [exec, bind_ok_iff, pure_ok_iff] at h
    obtain ⟨_, _, _, _, rfl⟩ := h; rfl
  | setSupport a => simp only [exec, pure_ok_iff] at h; subst h; rfl
  | pause => simp only [exec, pure_ok_iff] at h; subst h; rfl
  | unpause => simp only [exec, pure_ok_iff] at h; subst h; rfl
  | confirm n =>
    simp only [exec] at h
    unfold confirmTickets at h
    simp only [bind_ok_iff, pure_ok_iff, req_ok_iff, exists_const, Prod.exists] at h
    obtain ⟨_, _, _, _, _, _, _, _, _, _, _, _, _, rfl⟩ := h
    rfl
  | filter => exact (Events.filterTickets_out h).2.1
  | select => exact (Events.selectWinners_out h).2.1
  | claimPayment =>
    simp only [exec] at h
    split at h
    · exact lk_claimPaymentOwn_locks h
    · simp only [bind_ok_iff] at h
      obtain ⟨t1, h1, h2⟩ := h
      have e1 := lk_claimPaymentCommon_locks h1
      split at h2
      · rw [lk_claimNftPayment_locks h2, e1]
      · simp only [pure_ok_iff] at h2; subst h2; exact e1
  | blacklist l => exact (Events.exec_blacklist_out h).2.2.2.2.1
  | refundUsers l =>
    rw [(Events.exec_refundUsers_out h).2.1]; rfl
  | unblacklist l =>
    rw [(Events.exec_unblacklist_out h).2.2.2.1]
  | distribute => exact (Events.distribute_out h).2.1
  | setSchedule1 a b c d f =>
    simp only [exec, bind_ok_iff, pure_ok_iff] at h
    obtain ⟨s1, _, rfl⟩ := h; rfl
  | setSchedule2 l =>
    simp only [exec] at h
    unfold setSchedule2 at h
    simp only [bind_ok_iff, pure_ok_iff, req_ok_iff, requireStage, exists_const] at h
    obtain ⟨_, _, _, rfl⟩ := h
    rfl
  | confirmNft =>
    simp only [exec, bind_ok_iff, pure_ok_iff] at h
    obtain ⟨s1, _, rfl⟩ := h; rfl
  | selectNft => exact lk_selectNft_locks h
  | secondary => exact lk_secondary_locks h
  | setNftCost c =>
    simp only [exec, bind_ok_iff, pure_ok_iff] at h
    obtain ⟨_, _, _, _, rfl⟩ := h; rfl
  | issueSft =>
    simp only [exec, bind_ok_iff] at h
    obtain ⟨_, _, h⟩ := h
    cases h
  | createSfts =>
    simp only [exec, bind_ok_iff] at h
    obtain ⟨_, _, _, _, h⟩ := h
    cases h
  | setTransferRole o =>
    simp only [exec, bind_ok_iff] at h
    obtain ⟨_, _, h⟩ := h
    cases h
  | sftSetup => simp only [exec, pure_ok_iff] at h; subst h; rfl

/-- the same for a whole transaction: an accepted call records a lock call only if it is `claim`
    of a variant with a lock -/
theorem lk_step_locks {hash : List Nat → List Nat} {s s' : State} {e : Env} {c : Call} {o : Out}
    (hc : c = .claim → s.variant.hasLock = false) (h : step hash s e c = .ok (s', o)) :
    o.locks = [] := by
  obtain ⟨m, t, _, _, _, hx, _, rfl⟩ := step_ok_inv h
  exact lk_exec_locks (t := tx0 s e) hc hx

/-! ## launchpad-token receipts along a history -/

/-- static facts of a launchpad with a lock that every accepted call keeps -/
structure LkStatic (s : State) : Prop where
  lock : s.variant.hasLock = true
  pct : s.lockPct ≤ 10000
  tokNe : s.payTok ≠ .esdt s.lpTok

theorem lk_step_static {hash : List Nat → List Nat} {s s' : State} {e : Env} {c : Call} {o : Out}
    (h : LkStatic s) (hs : step hash s e c = .ok (s', o)) : LkStatic s' :=
  ⟨by rw [pl_step_variant hs]; exact h.lock, by rw [pl_step_lockPct hs]; exact h.pct,
    pl_step_tokNe hs h.tokNe⟩

/-- the endpoints neither locked variant exposes are rejected by the dispatcher -/
theorem lk_exposed {hash : List Nat → List Nat} {s s' : State} {e : Env} {c : Call} {o : Out}
    (hl : s.variant.hasLock = true) (hs : step hash s e c = .ok (s', o)) :
    match c with
    | .addTicketsV2 _ | .refundUsers _ | .unblacklist _
    | .setSchedule1 .. | .setSchedule2 _ | .confirmNft | .selectNft | .secondary | .setNftCost _
    | .issueSft | .createSfts | .setTransferRole _ | .sftSetup => False
    | _ => True := by
  obtain ⟨m, t, hm, _⟩ := step_ok_inv hs
  rcases (lk_hasLock_flags hl).2.2 with hv | hv <;> rw [hv] at hm <;> cases c <;>
    first | trivial | (simp [endpointMeta, Variant.v1Alloc, Variant.isV2, Variant.hasUnblacklist,
      Variant.hasGuaranteed, Variant.hasNft] at hm)

/-- endpoints whose body sends nothing -/
def lk_quiet : Call → Bool
  | .addTickets _ | .addTicketsV1 _ | .deposit | .setTicketPrice _ _ | .setPerTicket _
  | .setConfStart _ | .setSelStart _ | .setClaimStart _ | .setSupport _ | .pause | .unpause
  | .confirm _ | .filter | .select | .distribute => true
  | _ => false

theorem lk_exec_xfers_quiet {hash : List Nat → List Nat} {t t' : Tx} {e : Env} {c : Call}
    (hc : lk_quiet c = true) (h : exec hash t e c = .ok t') : t'.o.xfers = t.o.xfers := by
  cases c <;> simp only [lk_quiet, Bool.false_eq_true] at hc
  case addTickets l =>
    simp only [exec, bind_ok_iff, pure_ok_iff] at h
    obtain ⟨_, _, s1, _, rfl⟩ := h; rfl
  case addTicketsV1 l =>
    simp only [exec, bind_ok_iff, pure_ok_iff] at h
    obtain ⟨s1, _, rfl⟩ := h; rfl
  case deposit =>
    simp only [exec, bind_ok_iff, pure_ok_iff] at h
    obtain ⟨s1, _, rfl⟩ := h; rfl
  case setTicketPrice tok amount =>
    simp only [exec, bind_ok_iff, pure_ok_iff] at h
    obtain ⟨_, _, s1, _, rfl⟩ := h; rfl
  case setPerTicket amount =>
    simp only [exec, bind_ok_iff, pure_ok_iff] at h
    obtain ⟨_, _, _, _, _, _, rfl⟩ := h; rfl
  case setConfStart r =>
    simp only [exec, bind_ok_iff, pure_ok_iff] at h
    obtain ⟨_, _, _, _, rfl⟩ := h; rfl
  case setSelStart r =>
    simp only [exec, bind_ok_iff, pure_ok_iff] at h
    obtain ⟨_, _, _, _, rfl⟩ := h; rfl
  case setClaimStart r =>
    simp only [exec, bind_ok_iff, pure_ok_iff] at h
    obtain ⟨_, _, _, _, rfl⟩ := h; rfl
  case setSupport a => simp only [exec, pure_ok_iff] at h; subst h; rfl
  case pause => simp only [exec, pure_ok_iff] at h; subst h; rfl
  case unpause => simp only [exec, pure_ok_iff] at h; subst h; rfl
  case confirm n =>
    simp only [exec] at h
    unfold confirmTickets at h
    simp only [bind_ok_iff, pure_ok_iff, req_ok_iff, exists_const, Prod.exists] at h
    obtain ⟨_, _, _, _, _, _, _, _, _, _, _, _, _, rfl⟩ := h
    rfl
  case filter => exact (Events.filterTickets_out h).1
  case select => exact (Events.selectWinners_out h).1
  case distribute => exact (Events.distribute_out h).1

/-- **what a call other than `claim` sends, locked variants**: every transfer is in the
    ticket-payment token (blacklist refunds) or goes to the owner (`claimPayment`) -/
theorem lk_step_xfers_other {hash : List Nat → List Nat} {s s' : State} {e : Env} {c : Call} {o : Out}
    (hS : LkStatic s) (hc : c ≠ .claim) (hs : step hash s e c = .ok (s', o)) :
    ∀ x ∈ o.xfers, x.2.tok = s.payTok ∨ x.1 = s.owner := by
  have hex := lk_exposed hS.lock hs
  obtain ⟨hvest, hnft, _⟩ := lk_hasLock_flags hS.lock
  obtain ⟨m, t, hm, _, hown, hx, _, rfl⟩ := step_ok_inv hs
  have quiet : lk_quiet c = true → ∀ x ∈ t.o.xfers, x.2.tok = s.payTok ∨ x.1 = s.owner := by
    intro hq x hxm
    rw [lk_exec_xfers_quiet hq hx] at hxm
    cases hxm
  cases c with
  | claim => exact absurd rfl hc
  | claimPayment =>
    have how : e.caller = s.owner := by
      simp only [endpointMeta, Option.some.injEq] at hm
      subst hm
      exact hown rfl
    have hts : (tx0 s e).s.variant = s.variant := rfl
    simp only [exec, hts, hvest, Bool.false_eq_true, if_false, bind_ok_iff] at hx
    obtain ⟨t1, h1, hfin⟩ := hx
    obtain ⟨_, _, _, k4, k5, _⟩ := pl_cpc_exact h1 (show (tx0 s e).s.payTok ≠ .esdt (tx0 s e).s.lpTok from hS.tokNe)
    have hvar : t1.s.variant = s.variant := by rw [k4]; rfl
    rw [hvar, hnft] at hfin
    simp only [Bool.false_eq_true, if_false, pure_ok_iff] at hfin
    subst hfin
    rw [k5]
    intro x hxm
    simp only [List.mem_append] at hxm
    rcases hxm with (hxm | hxm) | hxm
    · cases hxm
    · split at hxm
      · simp only [List.mem_singleton] at hxm
        subst hxm; right; exact how
      · cases hxm
    · split at hxm
      · simp only [List.mem_singleton] at hxm
        subst hxm; right; exact how
      · cases hxm
  | blacklist l =>
    obtain ⟨_, _, ⟨xf, hxf, hxf0⟩, _⟩ := Events.exec_blacklist_out hx
    have hz := hxf0 (show (tx0 s e).s.variant.hasNft = false from hnft)
    subst hz
    rw [hxf]
    intro x hxm
    simp only [List.append_nil, List.mem_append, List.mem_filterMap] at hxm
    rcases hxm with hxm | ⟨u, _, hu⟩
    · cases hxm
    · unfold Events.blXfer at hu
      split at hu
      · cases hu; left; rfl
      · cases hu
  | addTickets l => exact quiet rfl
  | addTicketsV1 l => exact quiet rfl
  | deposit => exact quiet rfl
  | setTicketPrice tok amount => exact quiet rfl
  | setPerTicket amount => exact quiet rfl
  | setConfStart r => exact quiet rfl
  | setSelStart r => exact quiet rfl
  | setClaimStart r => exact quiet rfl
  | setSupport a => exact quiet rfl
  | pause => exact quiet rfl
  | unpause => exact quiet rfl
  | confirm n => exact quiet rfl
  | filter => exact quiet rfl
  | select => exact quiet rfl
  | distribute => exact quiet rfl
  | _ => exact absurd hex id

/-! ### the sums -/

/-- the accepted transactions of a history, each with the state it ran in and its outputs
    (mirrors `run`: rejected transactions leave no trace) -/
def lk_runLog (hash : List Nat → List Nat) : State → List (Env × Call) → List (State × Env × Call × Out)
  | _, [] => []
  | s, (e, c) :: rest =>
    match step hash s e c with
    | .ok (s', o) => (s, e, c, o) :: lk_runLog hash s' rest
    | .error _ => lk_runLog hash s rest

/-- amount locked for destination `a` by a list of lock calls -/
def lockedFor (a : Nat) : List (Nat × Nat × Nat) → Nat
  | [] => 0
  | l :: rest => (if l.2.1 = a then l.2.2 else 0) + lockedFor a rest

/-- amount of the fungible token `lp` sent directly to `a` by a list of transfers -/
def directTo (lp a : Nat) : List (Nat × Pay) → Nat
  | [] => 0
  | x :: rest =>
    (if x.1 = a ∧ x.2.tok = .esdt lp ∧ x.2.nonce = 0 then x.2.amount else 0) + directTo lp a rest

/-- what `a` receives from one transaction: locked for him plus sent to him -/
def received (lp a : Nat) (o : Out) : Nat := lockedFor a o.locks + directTo lp a o.xfers

/-- what `a` receives over a log -/
def totalReceived (lp a : Nat) : List (State × Env × Call × Out) → Nat
  | [] => 0
  | x :: rest => received lp a x.2.2.2 + totalReceived lp a rest

/-- the log entry is an accepted `claim` by `a` -/
def isClaimBy (a : Nat) (x : State × Env × Call × Out) : Bool :=
  match x.2.2.1 with
  | .claim => x.2.1.caller == a
  | _ => false

theorem directTo_append (lp a : Nat) (l1 l2 : List (Nat × Pay)) :
    directTo lp a (l1 ++ l2) = directTo lp a l1 + directTo lp a l2 := by
  induction l1 with
  | nil => simp [directTo]
  | cons x rest ih => simp only [List.cons_append, directTo, ih]; omega

theorem directTo_zero (lp a : Nat) (l : List (Nat × Pay))
    (h : ∀ x ∈ l, ¬ (x.1 = a ∧ x.2.tok = .esdt lp ∧ x.2.nonce = 0)) : directTo lp a l = 0 := by
  induction l with
  | nil => rfl
  | cons x rest ih =>
    simp only [directTo]
    rw [if_neg (h x (List.mem_cons_self ..)), ih (fun y hy => h y (List.mem_cons_of_mem _ hy))]

/-- **one accepted transaction of a locked variant, what `a` receives** (`a` is neither the owner
    nor the lock contract): his entitlement `perTicket × winning tickets` if the transaction is his
    `claim`, nothing otherwise -/
theorem lk_step_received {hash : List Nat → List Nat} {s s' : State} {e : Env} {c : Call} {o : Out}
    (hS : LkStatic s) {a : Nat} (ha1 : a ≠ s.owner) (ha2 : a ≠ s.lockAddr)
    (hs : step hash s e c = .ok (s', o)) :
    received s.lpTok a o =
      if isClaimBy a (s, e, c, o) = true then s.perTicket * winCountOf s a else 0 := by
  have hne' : ¬ (s.payTok = Token.esdt s.lpTok) := hS.tokNe
  by_cases hc : c = .claim
  · subst hc
    obtain ⟨k1, k2, k3⟩ := lk_claim_locked_out hS.lock hS.pct hs
    generalize pl_lockedAmt s e (winCountOf s e.caller * s.perTicket) = L at k1 k2 k3
    have hrf : directTo s.lpTok a (refundXfers s e.caller) = 0 := by
      apply directTo_zero
      intro x hx
      unfold refundXfers at hx
      split at hx
      · cases hx
      · simp only [List.mem_singleton] at hx
        subst hx
        intro hh
        exact hne' hh.2.1
    unfold received
    rw [k1, k2, directTo_append, directTo_append, hrf]
    by_cases hca : e.caller = a
    · have hcl : isClaimBy a (s, e, Call.claim, o) = true := by simp [isClaimBy, hca]
      rw [hcl, if_pos rfl, ← hca]
      have hla : ¬ (s.lockAddr = e.caller) := fun hh => ha2 (hca ▸ hh.symm)
      have e1 : lockedFor e.caller (if L > 0 then [(s.unlockEpoch, e.caller, L)] else []) = L := by
        split
        · simp [lockedFor]
        · simp [lockedFor]; omega
      have e2 : directTo s.lpTok e.caller
          (if L > 0 then [(s.lockAddr, (⟨.esdt s.lpTok, 0, L⟩ : Pay))] else []) = 0 := by
        split <;> simp [directTo, hla]
      have e3 : directTo s.lpTok e.caller
          (if winCountOf s e.caller * s.perTicket - L > 0
            then [(e.caller, (⟨.esdt s.lpTok, 0, winCountOf s e.caller * s.perTicket - L⟩ : Pay))]
            else []) = winCountOf s e.caller * s.perTicket - L := by
        split
        · simp [directTo]
        · simp [directTo]; omega
      rw [e1, e2, e3, Nat.mul_comm s.perTicket]
      omega
    · have hcl : isClaimBy a (s, e, Call.claim, o) = false := by simp [isClaimBy, hca]
      rw [hcl]
      have hca' : ¬ (a = e.caller) := fun hh => hca hh.symm
      have e1 : lockedFor a (if L > 0 then [(s.unlockEpoch, e.caller, L)] else []) = 0 := by
        split <;> simp [lockedFor, hca]
      have e2 : directTo s.lpTok a
          (if L > 0 then [(s.lockAddr, (⟨.esdt s.lpTok, 0, L⟩ : Pay))] else []) = 0 := by
        split <;> simp [directTo, Ne.symm ha2]
      have e3 : directTo s.lpTok a
          (if winCountOf s e.caller * s.perTicket - L > 0
            then [(e.caller, (⟨.esdt s.lpTok, 0, winCountOf s e.caller * s.perTicket - L⟩ : Pay))]
            else []) = 0 := by
        split <;> simp [directTo, hca]
      rw [e1, e2, e3]
      simp
  · have hcl : isClaimBy a (s, e, c, o) = false := by
      cases c <;> first | rfl | exact absurd rfl hc
    rw [hcl]
    have hlk : o.locks = [] := lk_step_locks (fun h => absurd h hc) hs
    have hxf := lk_step_xfers_other hS hc hs
    unfold received
    rw [hlk, directTo_zero _ _ _ (fun x hx hh => by
      rcases hxf x hx with h1 | h1
      · rw [h1] at hh; exact hne' hh.2.1
      · exact ha1 (hh.1.symm.trans h1))]
    simp [lockedFor]

/-- if `a` has already claimed, he receives nothing any more, whatever happens (locked variants) -/
theorem lk_total_after_claim (hash : List Nat → List Nat) (a : Nat) :
    ∀ (hist : List (Env × Call)) (s : State), LkStatic s → a ≠ s.owner → a ≠ s.lockAddr →
      s.claimed a = true →
      totalReceived s.lpTok a (lk_runLog hash s hist) = 0 ∧
      ∀ x ∈ lk_runLog hash s hist, isClaimBy a x = false
  | [], _, _, _, _, _ => ⟨rfl, fun _ hx => by cases hx⟩
  | (e, c) :: rest, s, hS, ha1, ha2, hcl => by
    unfold lk_runLog
    cases hx : step hash s e c with
    | error err => exact lk_total_after_claim hash a rest s hS ha1 ha2 hcl
    | ok q =>
      obtain ⟨s', o⟩ := q
      have hS' := lk_step_static hS hx
      have hlp : s'.lpTok = s.lpTok := pl_step_lpTok hx
      have ih := lk_total_after_claim hash a rest s' hS' (by rw [lk_step_owner hx]; exact ha1)
        (by rw [(pl_step_lockAddr hx).1]; exact ha2) (step_claimed_mono hash s e c s' o hx a hcl)
      have hnot : isClaimBy a (s, e, c, o) = false := by
        cases hb : isClaimBy a (s, e, c, o)
        · rfl
        · exfalso
          cases c <;> simp only [isClaimBy, Bool.false_eq_true] at hb
          have hca : e.caller = a := by simpa using hb
          obtain ⟨err, herr⟩ := (second_claim_rejected hash s e (lk_hasLock_flags hS.lock).1
            (by rw [hca]; exact hcl)).1
          rw [herr] at hx; cases hx
      have hrec := lk_step_received hS ha1 ha2 hx
      rw [hnot] at hrec
      rw [hlp] at ih
      refine ⟨?_, ?_⟩
      · show received s.lpTok a o + totalReceived s.lpTok a (lk_runLog hash s' rest) = 0
        rw [hrec, ih.1]; simp
      · intro x hxm
        rcases List.mem_cons.mp hxm with rfl | hxm
        · exact hnot
        · exact ih.2 x hxm

/-- **a winner's cumulative receipts** (locked variants, `a` neither the owner nor the lock
    contract): over the accepted transactions of ANY history the lock calls with destination `a`
    and the direct launchpad-token transfers to `a` add up to `perTicket × winning tickets of a` in
    the state of his (only) accepted claim — nothing if he makes no accepted claim; at most one
    accepted claim per address -/
theorem lk_total_received (hash : List Nat → List Nat) (a : Nat) :
    ∀ (hist : List (Env × Call)) (s : State), LkStatic s → a ≠ s.owner → a ≠ s.lockAddr →
      totalReceived s.lpTok a (lk_runLog hash s hist) =
        (match (lk_runLog hash s hist).find? (isClaimBy a) with
         | some x => x.1.perTicket * winCountOf x.1 a
         | none => 0) ∧
      ((lk_runLog hash s hist).filter (isClaimBy a)).length ≤ 1
  | [], _, _, _, _ => ⟨rfl, Nat.zero_le _⟩
  | (e, c) :: rest, s, hS, ha1, ha2 => by
    unfold lk_runLog
    cases hx : step hash s e c with
    | error err => exact lk_total_received hash a rest s hS ha1 ha2
    | ok q =>
      obtain ⟨s', o⟩ := q
      have hS' := lk_step_static hS hx
      have hlp : s'.lpTok = s.lpTok := pl_step_lpTok hx
      have ha1' : a ≠ s'.owner := by rw [lk_step_owner hx]; exact ha1
      have ha2' : a ≠ s'.lockAddr := by rw [(pl_step_lockAddr hx).1]; exact ha2
      have hrec := lk_step_received hS ha1 ha2 hx
      show received s.lpTok a o + totalReceived s.lpTok a (lk_runLog hash s' rest) = _ ∧ _
      cases hb : isClaimBy a (s, e, c, o)
      · obtain ⟨ih1, ih2⟩ := lk_total_received hash a rest s' hS' ha1' ha2'
        rw [hlp] at ih1
        rw [hb] at hrec
        rw [hrec, ih1, List.find?_cons_of_neg (by simp [hb]), List.filter_cons_of_neg (by simp [hb])]
        exact ⟨by simp, ih2⟩
      · have hcl : s'.claimed a = true := by
          cases c <;> simp only [isClaimBy, Bool.false_eq_true] at hb
          have hca : e.caller = a := by simpa using hb
          rw [← hca]
          exact claim_sets_claimed hash s e s' o hx
        obtain ⟨k1, k2⟩ := lk_total_after_claim hash a rest s' hS' ha1' ha2' hcl
        rw [hlp] at k1
        rw [hb] at hrec
        rw [hrec, k1, List.find?_cons_of_pos (by simp [hb]), List.filter_cons_of_pos (by simp [hb])]
        refine ⟨by simp, ?_⟩
        have : (lk_runLog hash s' rest).filter (isClaimBy a) = [] := by
          rw [List.filter_eq_nil_iff]
          intro x hxm
          rw [k2 x hxm]; simp
        rw [this]; simp

/-! ### the log and the history -/

theorem lk_run_cons_ok {hash : List Nat → List Nat} {s s' : State} {e : Env} {c : Call} {o : Out}
    (h : step hash s e c = .ok (s', o)) (l : List (Env × Call)) :
    run hash s ((e, c) :: l) = run hash s' l := by
  conv => lhs; unfold run
  rw [h]

theorem lk_run_cons_err {hash : List Nat → List Nat} {s : State} {e : Env} {c : Call} {err : Err}
    (h : step hash s e c = .error err) (l : List (Env × Call)) :
    run hash s ((e, c) :: l) = run hash s l := by
  conv => lhs; unfold run
  rw [h]

theorem lk_runLog_cons_ok {hash : List Nat → List Nat} {s s' : State} {e : Env} {c : Call} {o : Out}
    (h : step hash s e c = .ok (s', o)) (l : List (Env × Call)) :
    lk_runLog hash s ((e, c) :: l) = (s, e, c, o) :: lk_runLog hash s' l := by
  conv => lhs; unfold lk_runLog
  rw [h]

theorem lk_runLog_cons_err {hash : List Nat → List Nat} {s : State} {e : Env} {c : Call} {err : Err}
    (h : step hash s e c = .error err) (l : List (Env × Call)) :
    lk_runLog hash s ((e, c) :: l) = lk_runLog hash s l := by
  conv => lhs; unfold lk_runLog
  rw [h]

theorem lk_run_append (hash : List Nat → List Nat) :
    ∀ (h1 h2 : List (Env × Call)) (s : State),
      run hash s (h1 ++ h2) = run hash (run hash s h1) h2
  | [], _, _ => rfl
  | (e, c) :: rest, h2, s => by
    simp only [List.cons_append]
    cases hx : step hash s e c with
    | error err => rw [lk_run_cons_err hx, lk_run_cons_err hx]; exact lk_run_append hash rest h2 s
    | ok q =>
      obtain ⟨s', o⟩ := q
      rw [lk_run_cons_ok hx, lk_run_cons_ok hx]; exact lk_run_append hash rest h2 s'

theorem lk_runLog_append (hash : List Nat → List Nat) :
    ∀ (h1 h2 : List (Env × Call)) (s : State),
      lk_runLog hash s (h1 ++ h2) = lk_runLog hash s h1 ++ lk_runLog hash (run hash s h1) h2
  | [], _, _ => rfl
  | (e, c) :: rest, h2, s => by
    simp only [List.cons_append]
    cases hx : step hash s e c with
    | error err =>
      rw [lk_runLog_cons_err hx, lk_runLog_cons_err hx, lk_run_cons_err hx]
      exact lk_runLog_append hash rest h2 s
    | ok q =>
      obtain ⟨s', o⟩ := q
      rw [lk_runLog_cons_ok hx, lk_runLog_cons_ok hx, lk_run_cons_ok hx, List.cons_append,
        lk_runLog_append hash rest h2 s']

/-- every entry of the log is an accepted transaction of the history, run in the state the
    preceding part of the history leads to -/
theorem lk_runLog_mem (hash : List Nat → List Nat) :
    ∀ (hist : List (Env × Call)) (s : State) (x : State × Env × Call × Out), x ∈ lk_runLog hash s hist →
      ∃ h1 h2 s', hist = h1 ++ (x.2.1, x.2.2.1) :: h2 ∧ x.1 = run hash s h1 ∧
        step hash x.1 x.2.1 x.2.2.1 = .ok (s', x.2.2.2)
  | [], _, _, hx => by cases hx
  | (e, c) :: rest, s, x, hx => by
    unfold lk_runLog at hx
    cases hs : step hash s e c with
    | error err =>
      rw [hs] at hx
      obtain ⟨h1, h2, s', k1, k2, k3⟩ := lk_runLog_mem hash rest s x hx
      refine ⟨(e, c) :: h1, h2, s', by rw [k1]; rfl, ?_, k3⟩
      rw [k2]
      conv => rhs; unfold run
      rw [hs]
    | ok q =>
      obtain ⟨s1, o⟩ := q
      rw [hs] at hx
      rcases List.mem_cons.mp hx with rfl | hx
      · exact ⟨[], rest, s1, rfl, rfl, hs⟩
      · obtain ⟨h1, h2, s', k1, k2, k3⟩ := lk_runLog_mem hash rest s1 x hx
        refine ⟨(e, c) :: h1, h2, s', by rw [k1]; rfl, ?_, k3⟩
        rw [k2]
        conv => rhs; unfold run
        rw [hs]

theorem totalReceived_append (lp a : Nat) (l1 l2 : List (State × Env × Call × Out)) :
    totalReceived lp a (l1 ++ l2) = totalReceived lp a l1 + totalReceived lp a l2 := by
  induction l1 with
  | nil => simp [totalReceived]
  | cons x rest ih => simp only [List.cons_append, totalReceived, ih]; omega

/-- no accepted claim by `a` in the log: he receives nothing -/
theorem lk_total_no_claim (hash : List Nat → List Nat) (a : Nat) (hist : List (Env × Call)) (s : State)
    (hS : LkStatic s) (ha1 : a ≠ s.owner) (ha2 : a ≠ s.lockAddr)
    (hno : ∀ x ∈ lk_runLog hash s hist, isClaimBy a x = false) :
    totalReceived s.lpTok a (lk_runLog hash s hist) = 0 := by
  rw [(lk_total_received hash a hist s hS ha1 ha2).1]
  have : (lk_runLog hash s hist).find? (isClaimBy a) = none := by
    rw [List.find?_eq_none]
    intro x hx
    rw [hno x hx]; simp
  rw [this]

/-- an accepted claim by `a` somewhere in the history marks him as claimed at its end -/
theorem lk_claimed_of_log (hash : List Nat → List Nat) (a : Nat) (hist : List (Env × Call)) (s : State)
    (x : State × Env × Call × Out) (hx : x ∈ lk_runLog hash s hist) (hb : isClaimBy a x = true) :
    (run hash s hist).claimed a = true := by
  obtain ⟨h1, h2, s', k1, k2, k3⟩ := lk_runLog_mem hash hist s x hx
  obtain ⟨xs, xe, xc, xo⟩ := x
  simp only at k1 k2 k3
  cases xc <;> simp only [isClaimBy, Bool.false_eq_true] at hb
  have hca : xe.caller = a := by simpa using hb
  have hcl : s'.claimed a = true := by rw [← hca]; exact claim_sets_claimed hash xs xe s' xo k3
  rw [k1, lk_run_append]
  conv => lhs; unfold run
  rw [← k2, k3]
  exact run_claimed_mono hash h2 s' a hcl

/-- **the history-level corollary with the claim exhibited**: `a`'s accepted claim splits the
    history into `h1`, the claim, `h2`; over the whole history he receives exactly
    `perTicket × winning tickets` as they stand when he claims -/
theorem lk_total_of_claim (hash : List Nat → List Nat) (a : Nat) (s : State) (hS : LkStatic s)
    (ha1 : a ≠ s.owner) (ha2 : a ≠ s.lockAddr) (h1 h2 : List (Env × Call)) (e : Env) (s2 : State)
    (o : Out) (hca : e.caller = a) (hs : step hash (run hash s h1) e .claim = .ok (s2, o)) :
    totalReceived s.lpTok a (lk_runLog hash s (h1 ++ (e, .claim) :: h2))
      = (run hash s h1).perTicket * winCountOf (run hash s h1) a ∧
    (∀ x ∈ lk_runLog hash s h1, isClaimBy a x = false) ∧
    (∀ x ∈ lk_runLog hash s2 h2, isClaimBy a x = false) := by
  obtain ⟨t1, t2, t3, t4, t5, t6⟩ := lk_run_terms hash s h1
  have hS1 : LkStatic (run hash s h1) :=
    lk_run_keeps hash LkStatic (fun _ _ _ _ _ hx hp => lk_step_static hp hx) h1 s hS
  have hno1 : ∀ x ∈ lk_runLog hash s h1, isClaimBy a x = false := by
    intro x hx
    cases hb : isClaimBy a x
    · rfl
    · exfalso
      have hcl := lk_claimed_of_log hash a h1 s x hx hb
      have := (lk_claim_state hS1.lock hS1.pct hS1.tokNe hs).2.1
      rw [hca, hcl] at this
      cases this
  have ha1' : a ≠ (run hash s h1).owner := by rw [t6]; exact ha1
  have ha2' : a ≠ (run hash s h1).lockAddr := by rw [t3]; exact ha2
  have hS2 := lk_step_static hS1 hs
  have hcl2 : s2.claimed a = true := by
    rw [← hca]; exact claim_sets_claimed hash _ e s2 o hs
  obtain ⟨k1, k2⟩ := lk_total_after_claim hash a h2 s2 hS2
    (by rw [lk_step_owner hs]; exact ha1') (by rw [(pl_step_lockAddr hs).1]; exact ha2') hcl2
  rw [pl_step_lpTok hs, t5] at k1
  have hrec := lk_step_received hS1 ha1' ha2' hs
  have hb : isClaimBy a (run hash s h1, e, Call.claim, o) = true := by simp [isClaimBy, hca]
  rw [hb, if_pos rfl, t5] at hrec
  refine ⟨?_, hno1, k2⟩
  rw [lk_runLog_append, totalReceived_append, lk_total_no_claim hash a h1 s hS ha1 ha2 hno1]
  conv => lhs; unfold lk_runLog
  rw [hs]
  show 0 + (received s.lpTok a o + totalReceived s.lpTok a (lk_runLog hash s2 h2)) = _
  rw [hrec, k1]
  omega

/-! ### nothing is confirmed before the deposit (every variant) -/

/-- before the deposit nobody has confirmed (`confirm` requires the deposit) -/
def lk_NoConf (s : State) : Prop := s.deposited = false → ∀ a, s.confirmed a = 0

theorem lk_step_noConf {hash : List Nat → List Nat} {s s' : State} {e : Env} {c : Call} {o : Out}
    (h : lk_NoConf s) (hs : step hash s e c = .ok (s', o)) : lk_NoConf s' := by
  intro hd a
  have hd0 : s.deposited = false := by
    cases hq : s.deposited with
    | false => rfl
    | true => rw [deposited_mono hs hq] at hd; cases hd
  have h0 := h hd0
  have hconf : s'.confirmed = (cbAfter s e c).confirmed := congrArg CB.confirmed (step_cb hs)
  rw [hconf]
  cases c with
  | confirm n =>
    obtain ⟨total, hacc, _⟩ := LP.Props.C07.confirm_effect hash s e n s' o hs
    rw [hacc.2.2.2.1] at hd0; cases hd0
  | blacklist l =>
    show (if a ∈ l then 0 else s.confirmed a) = 0
    split
    · rfl
    · exact h0 a
  | refundUsers l =>
    show (if a ∈ l then 0 else s.confirmed a) = 0
    split
    · rfl
    · exact h0 a
  | claim =>
    show (if (s.variant.vested && s.claimed e.caller) = true then s.confirmed
      else upd s.confirmed e.caller 0) a = 0
    split
    · exact h0 a
    · rw [upd_apply]
      split
      · rfl
      · exact h0 a
  | _ => exact h0 a

theorem lk_init_noConf {v : Variant} {a : InitArgs} {e : Env} {s : State} (h : init v a e = .ok s) :
    lk_NoConf s := by
  intro _ u
  have : s.confirmed = fun _ => 0 := congrArg CB.confirmed (init_cb h)
  rw [this]

theorem lk_v1_reach_noConf {hash : List Nat → List Nat} {v : Variant} {s : State} {r : Nat}
    (h : v1_Reach hash v s r) : lk_NoConf s := by
  induction h with
  | init a e s hh => exact lk_init_noConf hh
  | call s r e c s' o _ _ _ _ h4 ih => exact lk_step_noConf ih h4
  | wait s r r' _ _ ih => exact ih

end LP

#print axioms LP.lk_claim_locked_out
#print axioms LP.lk_claim_state
#print axioms LP.lk_run_terms
#print axioms LP.lk_exec_locks
#print axioms LP.lk_step_locks
#print axioms LP.lk_step_xfers_other
#print axioms LP.lk_step_received
#print axioms LP.lk_total_received
#print axioms LP.lk_total_of_claim
#print axioms LP.lk_runLog_mem
#print axioms LP.lk_total_after_claim
#print axioms LP.lk_v1_reach_noConf
