import LP.Proofs.ReachNftBase
import LP.Proofs.ReachFLBase
import LP.Props.C02
/-
  LP.Proofs.ReachFLLp — the launchpad-token side of `Variant.nft` (launchpad-with-nft), which the
  reachable-state development `LP/Proofs/ReachNft*.lean` does not cover.

  `fl_NftLp s`: variant, "payment token ≠ launchpad token", "fee token ≠ launchpad token" and the
  coverage `deposited → perTicket × nrWinning ≤ bal lpTok` (`LP.Props.C02.LpCover`).

      fl_init_NftLp   deployment establishes it
      fl_step_NftLp   EVERY accepted call keeps it (no restriction on the call or its call value)
      fl_run_NftLp    hence it holds after any history
      fl_owner_surplus_step   after an accepted `claimPayment` exactly perTicket × nrWinning stay

  Why it needs "fee token ≠ launchpad token": `claim` (category 2), `blacklist` and `claimPayment`
  send NFT fees out of the slot `(nftCost.tok, nftCost.nonce)`; with the repair 4830c00 that slot is
  never the launchpad-token slot, so these transfers do not touch the winners' tokens.
-/
namespace LP
open LP.FY LP.Events LP.Props.C09 LP.Props.C14

/-- launchpad-token invariant of the launchpad with NFT draw -/
structure fl_NftLp (s : State) : Prop where
  var : s.variant = .nft
  tokNe : s.payTok ≠ .esdt s.lpTok
  feeNe : s.nftCost.tok ≠ .esdt s.lpTok
  cover : s.deposited = true → s.perTicket * s.nrWinning ≤ s.bal (.esdt s.lpTok) 0

/-! ### helpers -/

theorem fl_foldl_add_le (l : List Pay) : ∀ (b : Bal) (t : Token) (n : Nat),
    b t n ≤ (l.foldl (fun b p => b.add p.tok p.nonce p.amount) b) t n := by
  induction l with
  | nil => intro b t n; exact Nat.le_refl _
  | cons p rest ih =>
    intro b t n
    simp only [List.foldl_cons]
    refine Nat.le_trans ?_ (ih _ t n)
    unfold Bal.add; split <;> omega

/-- crediting the call value never lowers a balance -/
theorem fl_credit_le (s : State) (e : Env) (t : Token) (n : Nat) :
    s.bal t n ≤ (creditPayments s e).bal t n := by
  unfold creditPayments
  refine Nat.le_trans ?_ (fl_foldl_add_le e.esdts _ t n)
  unfold Bal.add; split <;> omega

/-- a single fungible transfer is credited to its slot -/
theorem fl_credit_single_ge {s : State} {e : Env} {tok : Token} {amt : Nat}
    (h : singleFungible e = .ok (tok, amt)) : s.bal tok 0 + amt ≤ (creditPayments s e).bal tok 0 := by
  unfold singleFungible at h
  split at h
  · rename_i p hp
    split at h
    · rename_i hn
      simp only [Except.ok.injEq, Prod.mk.injEq] at h
      obtain ⟨rfl, rfl⟩ := h
      unfold creditPayments
      simp only [hp, List.foldl_cons, List.foldl_nil, hn]
      unfold Bal.add
      simp only [and_self, if_true]
      split <;> omega
    · cases h
  · cases h

/-- the coverage is kept when nothing it reads gets worse -/
theorem fl_cover_keep {s s' : State}
    (h : s.deposited = true → s.perTicket * s.nrWinning ≤ s.bal (.esdt s.lpTok) 0)
    (hd : s'.deposited = s.deposited) (hp : s'.perTicket = s.perTicket) (hl : s'.lpTok = s.lpTok)
    (hn : s'.nrWinning ≤ s.nrWinning)
    (hb : s.bal (.esdt s.lpTok) 0 ≤ s'.bal (.esdt s.lpTok) 0) :
    s'.deposited = true → s'.perTicket * s'.nrWinning ≤ s'.bal (.esdt s'.lpTok) 0 := by
  intro hd'
  rw [hd] at hd'
  rw [hp, hl]
  exact Nat.le_trans (Nat.le_trans (Nat.mul_le_mul_left _ hn) (h hd')) hb

/-- `nftSubstep` changes only `payers`, `nftWinners`, `op`, `claimableNft` — in particular neither
    the outstanding winners nor a balance -/
theorem fl_nftSubstep_view {hash : List Nat → List Nat} {t t' : Tx} {r r' : Rng} {st : LoopStatus}
    (h : nftSubstep hash t r = .ok (t', r', st)) :
    t'.s.nrWinning = t.s.nrWinning ∧ t'.s.bal = t.s.bal := by
  unfold nftSubstep at h
  simp only [bind_ok_iff, Prod.exists] at h
  obtain ⟨x, b, st1, h1, h⟩ := h
  have hx := runWhile_nftBody_tx_s h1
  simp only at hx
  cases st1 with
  | outOfFuel => cases h
  | interrupted =>
    simp only [pure_ok_iff, Prod.mk.injEq] at h
    obtain ⟨rfl, _, _⟩ := h
    refine ⟨?_, ?_⟩ <;> simp only [hx]
  | completed =>
    simp only [pure_ok_iff, Prod.mk.injEq] at h
    obtain ⟨rfl, _, _⟩ := h
    refine ⟨?_, ?_⟩ <;> simp only [Tx.setS_s, hx]

/-- a call of `Variant.nft` without call value runs on the stored state -/
theorem fl_np {hash : List Nat → List Nat} {s s' : State} {e : Env} {c : Call} {o : Out}
    (hv : s.variant = .nft)
    (hnp : ∀ m, endpointMeta .nft c = some m → m.payable = false)
    (h : step hash s e c = .ok (s', o)) :
    ∃ t, exec hash (rbTx s e) e c = .ok t ∧ s' = t.s :=
  rb_step_np (by rw [hv]; exact hnp) h

/-! ### variant and payment token -/

theorem fl_step_variant {hash : List Nat → List Nat} {s s' : State} {e : Env} {c : Call} {o : Out}
    (h : step hash s e c = .ok (s', o)) : s'.variant = s.variant := by
  rcases step_static_cases h with ⟨_, h1⟩ | ⟨_, h1⟩
  · exact terms_variant (static_terms h1)
  · rw [h1]
    cases c <;> rfl

/-- every accepted call keeps "payment token ≠ launchpad token" (`setTicketPrice` checks it) -/
theorem fl_step_tokNe {hash : List Nat → List Nat} {s s' : State} {e : Env} {c : Call} {o : Out}
    (h : step hash s e c = .ok (s', o)) (hne : s.payTok ≠ .esdt s.lpTok) :
    s'.payTok ≠ .esdt s'.lpTok := by
  have hl := fl_step_lpTok h
  by_cases hc : ∃ tok a, c = .setTicketPrice tok a
  · obtain ⟨tok, a, rfl⟩ := hc
    obtain ⟨_, h2, _, _, _, h6⟩ := setTicketPrice_terms h
    rw [hl]
    rw [h2]
    exact h6
  · rw [(price_frame h (fun tok a hp => hc ⟨tok, a, hp⟩)).2, hl]
    exact hne

/-! ### the coverage, call by call -/

section calls
variable {hash : List Nat → List Nat} {s s' : State} {e : Env} {o : Out}

theorem fl_cover_setSupport {a : Nat} (hI : fl_NftLp s)
    (hs : step hash s e (.setSupport a) = .ok (s', o)) :
    s'.deposited = true → s'.perTicket * s'.nrWinning ≤ s'.bal (.esdt s'.lpTok) 0 := by
  obtain ⟨t, hx, rfl⟩ := fl_np hI.var (by intro m hm; simp [endpointMeta] at hm; rw [← hm]) hs
  simp only [exec, pure_ok_iff] at hx
  subst hx
  exact fl_cover_keep hI.cover rfl rfl rfl (Nat.le_refl _) (Nat.le_refl _)

theorem fl_cover_pause (hI : fl_NftLp s) (hs : step hash s e .pause = .ok (s', o)) :
    s'.deposited = true → s'.perTicket * s'.nrWinning ≤ s'.bal (.esdt s'.lpTok) 0 := by
  obtain ⟨t, hx, rfl⟩ := fl_np hI.var (by intro m hm; simp [endpointMeta] at hm; rw [← hm]) hs
  simp only [exec, pure_ok_iff] at hx
  subst hx
  exact fl_cover_keep hI.cover rfl rfl rfl (Nat.le_refl _) (Nat.le_refl _)

theorem fl_cover_unpause (hI : fl_NftLp s) (hs : step hash s e .unpause = .ok (s', o)) :
    s'.deposited = true → s'.perTicket * s'.nrWinning ≤ s'.bal (.esdt s'.lpTok) 0 := by
  obtain ⟨t, hx, rfl⟩ := fl_np hI.var (by intro m hm; simp [endpointMeta] at hm; rw [← hm]) hs
  simp only [exec, pure_ok_iff] at hx
  subst hx
  exact fl_cover_keep hI.cover rfl rfl rfl (Nat.le_refl _) (Nat.le_refl _)

theorem fl_cover_sftSetup (hI : fl_NftLp s) (hs : step hash s e .sftSetup = .ok (s', o)) :
    s'.deposited = true → s'.perTicket * s'.nrWinning ≤ s'.bal (.esdt s'.lpTok) 0 := by
  obtain ⟨t, hx, rfl⟩ := fl_np hI.var (by
    intro m hm; simp [endpointMeta, Variant.hasNft] at hm; rw [← hm]) hs
  simp only [exec, pure_ok_iff] at hx
  subst hx
  exact fl_cover_keep hI.cover rfl rfl rfl (Nat.le_refl _) (Nat.le_refl _)

theorem fl_cover_setPerTicket {a : Nat}
    (hs : step hash s e (.setPerTicket a) = .ok (s', o)) :
    s'.deposited = true → s'.perTicket * s'.nrWinning ≤ s'.bal (.esdt s'.lpTok) 0 := by
  obtain ⟨_, h2, _, h4, _⟩ := setPerTicket_terms hs
  intro hd
  rw [h2] at hd
  have hd' : s.deposited = true := hd
  rw [h4] at hd'; cases hd'

theorem fl_cover_setConfStart {x : Nat} (hI : fl_NftLp s)
    (hs : step hash s e (.setConfStart x) = .ok (s', o)) :
    s'.deposited = true → s'.perTicket * s'.nrWinning ≤ s'.bal (.esdt s'.lpTok) 0 := by
  obtain ⟨t, hx, rfl⟩ := fl_np hI.var (by intro m hm; simp [endpointMeta] at hm; rw [← hm]) hs
  rw [(exec_setConfStart_s hx).1]
  exact fl_cover_keep hI.cover rfl rfl rfl (Nat.le_refl _) (Nat.le_refl _)

theorem fl_cover_setSelStart {x : Nat} (hI : fl_NftLp s)
    (hs : step hash s e (.setSelStart x) = .ok (s', o)) :
    s'.deposited = true → s'.perTicket * s'.nrWinning ≤ s'.bal (.esdt s'.lpTok) 0 := by
  obtain ⟨t, hx, rfl⟩ := fl_np hI.var (by intro m hm; simp [endpointMeta] at hm; rw [← hm]) hs
  rw [(exec_setSelStart_s hx).1]
  exact fl_cover_keep hI.cover rfl rfl rfl (Nat.le_refl _) (Nat.le_refl _)

theorem fl_cover_setClaimStart {x : Nat} (hI : fl_NftLp s)
    (hs : step hash s e (.setClaimStart x) = .ok (s', o)) :
    s'.deposited = true → s'.perTicket * s'.nrWinning ≤ s'.bal (.esdt s'.lpTok) 0 := by
  obtain ⟨t, hx, rfl⟩ := fl_np hI.var (by intro m hm; simp [endpointMeta] at hm; rw [← hm]) hs
  rw [(exec_setClaimStart_s hx).1]
  exact fl_cover_keep hI.cover rfl rfl rfl (Nat.le_refl _) (Nat.le_refl _)

theorem fl_cover_setTicketPrice {tok : Token} {a : Nat} (hI : fl_NftLp s)
    (hs : step hash s e (.setTicketPrice tok a) = .ok (s', o)) :
    s'.deposited = true → s'.perTicket * s'.nrWinning ≤ s'.bal (.esdt s'.lpTok) 0 := by
  obtain ⟨t, hx, rfl⟩ := fl_np hI.var (by intro m hm; simp [endpointMeta] at hm; rw [← hm]) hs
  rw [(exec_setTicketPrice_s hx).1]
  exact fl_cover_keep hI.cover rfl rfl rfl (Nat.le_refl _) (Nat.le_refl _)

theorem fl_cover_setNftCost {p : Pay} (hI : fl_NftLp s)
    (hs : step hash s e (.setNftCost p) = .ok (s', o)) :
    s'.deposited = true → s'.perTicket * s'.nrWinning ≤ s'.bal (.esdt s'.lpTok) 0 := by
  obtain ⟨t, hx, rfl⟩ := fl_np hI.var (by
    intro m hm; simp [endpointMeta, Variant.hasNft] at hm; rw [← hm]) hs
  rw [(exec_setNftCost_s hx).1]
  exact fl_cover_keep hI.cover rfl rfl rfl (Nat.le_refl _) (Nat.le_refl _)

theorem fl_cover_addTickets {l : List (Nat × Nat)} (hI : fl_NftLp s)
    (hs : step hash s e (.addTickets l) = .ok (s', o)) :
    s'.deposited = true → s'.perTicket * s'.nrWinning ≤ s'.bal (.esdt s'.lpTok) 0 := by
  obtain ⟨t, hx, rfl⟩ := fl_np hI.var (by
    intro m hm; simp [endpointMeta, Variant.hasGuaranteed, Variant.v1Alloc, Variant.isV2] at hm
    rw [← hm]) hs
  simp only [exec, bind_ok_iff, pure_ok_iff, requireStage, req_ok_iff, exists_const] at hx
  obtain ⟨_, s1, hcm, rfl⟩ := hx
  have hcm' : createMany l s = .ok s1 := hcm
  obtain ⟨_, _, _, _, _, _, _, rg, bt, lt, heq⟩ := createMany_ok l s s1 hcm'
  show s1.deposited = true → s1.perTicket * s1.nrWinning ≤ s1.bal (.esdt s1.lpTok) 0
  rw [heq]
  exact fl_cover_keep hI.cover rfl rfl rfl (Nat.le_refl _) (Nat.le_refl _)

theorem fl_cover_deposit (hs : step hash s e .deposit = .ok (s', o)) :
    s'.deposited = true → s'.perTicket * s'.nrWinning ≤ s'.bal (.esdt s'.lpTok) 0 := by
  obtain ⟨_, _, hsf⟩ := (LP.Props.C02.deposit_accepted_iff hash s e).mp ⟨_, hs⟩
  obtain ⟨rfl, _⟩ := LP.Props.C02.deposit_effect hash s s' e o hs
  have hge := fl_credit_single_ge (s := s) hsf
  intro _
  show s.perTicket * s.nrWinning ≤ (creditPayments s e).bal (.esdt s.lpTok) 0
  have : s.perTicket * s.nrWinning ≤ s.perTicket * LP.Props.C02.maxWinners s :=
    Nat.mul_le_mul_left _ (by unfold LP.Props.C02.maxWinners; omega)
  omega

theorem fl_cover_confirm {n : Nat} (hI : fl_NftLp s)
    (hs : step hash s e (.confirm n) = .ok (s', o)) :
    s'.deposited = true → s'.perTicket * s'.nrWinning ≤ s'.bal (.esdt s'.lpTok) 0 := by
  obtain ⟨total, _, rfl, _⟩ := LP.Props.C07.confirm_effect hash s e n s' o hs
  exact fl_cover_keep hI.cover rfl rfl rfl (Nat.le_refl _) (fl_credit_le s e _ _)

theorem fl_cover_confirmNft (hI : fl_NftLp s)
    (hs : step hash s e .confirmNft = .ok (s', o)) :
    s'.deposited = true → s'.perTicket * s'.nrWinning ≤ s'.bal (.esdt s'.lpTok) 0 := by
  obtain ⟨_, rfl, _⟩ := confirmNft_effect hash s e s' o hs
  exact fl_cover_keep hI.cover rfl rfl rfl (Nat.le_refl _) (fl_credit_le s e _ _)

theorem fl_cover_filter (hI : fl_NftLp s) (hs : step hash s e .filter = .ok (s', o)) :
    s'.deposited = true → s'.perTicket * s'.nrWinning ≤ s'.bal (.esdt s'.lpTok) 0 := by
  obtain ⟨t, hx, rfl⟩ := fl_np hI.var (by intro m hm; simp [endpointMeta] at hm; rw [← hm]) hs
  simp only [exec] at hx
  obtain ⟨_, x, f, b, _, hcase⟩ := rb_filterTickets_cases hx
  simp only [rbTx_s] at hcase
  rcases hcase with ⟨_, h1⟩ | ⟨_, _, h1⟩
  · rw [h1]
    exact fl_cover_keep hI.cover rfl rfl rfl (Nat.le_refl _) (Nat.le_refl _)
  · rw [h1]
    refine fl_cover_keep hI.cover rfl rfl rfl ?_ (Nat.le_refl _)
    show (if s.nrWinning > s.lastTicketId - f.removed then s.lastTicketId - f.removed
      else s.nrWinning) ≤ s.nrWinning
    split <;> omega

theorem fl_cover_select (hI : fl_NftLp s) (hs : step hash s e .select = .ok (s', o)) :
    s'.deposited = true → s'.perTicket * s'.nrWinning ≤ s'.bal (.esdt s'.lpTok) 0 := by
  obtain ⟨t, hx, rfl⟩ := fl_np hI.var (by intro m hm; simp [endpointMeta] at hm; rw [← hm]) hs
  simp only [exec] at hx
  obtain ⟨_, _, _, rng, pos, t0, _, x, b, st, _, hcase⟩ := rb_selectWinners_cases hx
  simp only [rbTx_s] at hcase
  rcases hcase with ⟨_, h1⟩ | ⟨_, h1⟩ <;>
  · rw [h1]
    exact fl_cover_keep hI.cover rfl rfl rfl (Nat.le_refl _) (Nat.le_refl _)

theorem fl_cover_selectNft (hI : fl_NftLp s) (hs : step hash s e .selectNft = .ok (s', o)) :
    s'.deposited = true → s'.perTicket * s'.nrWinning ≤ s'.bal (.esdt s'.lpTok) 0 := by
  obtain ⟨t, hx, rfl⟩ := fl_np hI.var (by
    intro m hm; simp [endpointMeta] at hm; rw [← hm]) hs
  have hst := selectNft_static (by simpa only [exec] using hx)
  simp only [exec] at hx
  obtain ⟨_, _, _, t0, t1, rng, rng', st, h0, hsub, hfin⟩ := g_selectNft_inv hx
  obtain ⟨v1, v2⟩ := fl_nftSubstep_view hsub
  rw [h0] at v1 v2
  simp only [rbTx_s] at v1 v2 hst
  have hn : t.s.nrWinning = s.nrWinning := by
    rcases hfin with ⟨_, h1, _⟩ | ⟨_, h1, _⟩ <;> (rw [h1]; exact v1)
  have hb : t.s.bal = s.bal := by
    rcases hfin with ⟨_, h1, _⟩ | ⟨_, h1, _⟩ <;> (rw [h1]; exact v2)
  exact fl_cover_keep hI.cover (static_deposited hst) (terms_perTicket (static_terms hst))
    (terms_lpTok (static_terms hst)) (by rw [hn]; exact Nat.le_refl _) (by rw [hb]; exact Nat.le_refl _)

theorem fl_cover_blacklist {l : List Nat} (hI : fl_NftLp s)
    (hs : step hash s e (.blacklist l) = .ok (s', o)) :
    s'.deposited = true → s'.perTicket * s'.nrWinning ≤ s'.bal (.esdt s'.lpTok) 0 := by
  obtain ⟨t, hx, rfl⟩ := fl_np hI.var (by intro m hm; simp [endpointMeta] at hm; rw [← hm]) hs
  obtain ⟨_, hv3, hv1, hv2, _⟩ := nf_flags hI.var
  simp only [exec, bind_ok_iff] at hx
  obtain ⟨t1, h1, hx⟩ := hx
  obtain ⟨_, _, _, _, _, rfl⟩ := (addUsersToBlacklist_ok_iff _ _ _ _).mp h1
  have hvar : (blTx (rbTx s e) e l).s.variant = s.variant := rfl
  simp only [hvar, hv1, hv2, hv3, Bool.false_eq_true, if_false, if_true, pure_bind, bind_ok_iff] at hx
  obtain ⟨t2, h2, hx⟩ := hx
  obtain ⟨P, B, hshape⟩ := nf_refundNftMany_shape l h2
  have hvar2 : t2.s.variant = s.variant := by rw [hshape]; rfl
  simp only [hvar2, hv1, Bool.false_eq_true, if_false, pure_ok_iff] at hx
  subst hx
  obtain ⟨_, _, _, _, _, _, a7⟩ := refundNftMany_recon l h2
  have hbs : (blTx (rbTx s e) e l).s = blState s l := rfl
  rw [hbs] at a7 hshape
  have hlp : t2.s.bal (.esdt s.lpTok) 0 = s.bal (.esdt s.lpTok) 0 := by
    rw [a7 _ _ (by intro hh; exact hI.feeNe hh.1.symm)]
    show (s.bal.sub s.payTok 0 _) (.esdt s.lpTok) 0 = _
    have hne2 : Token.esdt s.lpTok ≠ s.payTok := fun hh => hI.tokNe hh.symm
    simp only [Bal.sub, hne2, false_and, if_false]
  have e1 : t2.s.deposited = s.deposited := by rw [hshape]; rfl
  have e2 : t2.s.perTicket = s.perTicket := by rw [hshape]; rfl
  have e3 : t2.s.lpTok = s.lpTok := by rw [hshape]; rfl
  have e4 : t2.s.nrWinning = s.nrWinning := by rw [hshape]; rfl
  exact fl_cover_keep hI.cover e1 e2 e3 (by rw [e4]; exact Nat.le_refl _) (by rw [hlp]; exact Nat.le_refl _)

theorem fl_cover_claim (hI : fl_NftLp s) (hs : step hash s e .claim = .ok (s', o)) :
    s'.deposited = true → s'.perTicket * s'.nrWinning ≤ s'.bal (.esdt s'.lpTok) 0 := by
  obtain ⟨rg, hacc, _, rfl⟩ := nf_claim_shape hash s e s' o (by rw [hI.var]; rfl) hs
  obtain ⟨_, _, _, _, hrg, hnw, _, _, _⟩ := hacc
  have hw : winCount s e.caller = countWinning s.status rg.first (rangeLen rg) :=
    winCount_of_range hrg
  intro hd
  have h0 := hI.cover hd
  have hne : Token.esdt s.lpTok ≠ s.payTok := fun hh => hI.tokNe hh.symm
  have hnl' : ¬ (Token.esdt s.lpTok = s.nftCost.tok ∧ 0 = s.nftCost.nonce) :=
    fun hh => hI.feeNe hh.1.symm
  show s.perTicket * (s.nrWinning - countWinning s.status rg.first (rangeLen rg)) ≤
    ((balAfterClaim s e.caller).sub s.nftCost.tok s.nftCost.nonce (nf_delta s e.caller))
      (.esdt s.lpTok) 0
  have hB : ((balAfterClaim s e.caller).sub s.nftCost.tok s.nftCost.nonce (nf_delta s e.caller))
      (.esdt s.lpTok) 0 = s.bal (.esdt s.lpTok) 0 - winCount s e.caller * s.perTicket := by
    simp only [Bal.sub, hnl', if_false]
    unfold balAfterClaim
    simp only [Bal.sub, and_self, if_true, hne, false_and, if_false]
  rw [hB, ← hw]
  exact (LP.Props.C02.cover_after_payout s.perTicket s.nrWinning _ _ hnw h0).2

/-- the owner's withdrawal of `Variant.nft`, exactly (as `nf_claimPayment_shape`, plus the
    launchpad-token slot after the common part) -/
theorem fl_claimPayment_shape {t : Tx}
    (hv : s.variant = .nft) (hne : s.payTok ≠ .esdt s.lpTok)
    (hx : exec hash (rbTx s e) e .claimPayment = .ok t) :
    s.stage e = .claim ∧ s.perTicket * s.nrWinning ≤ s.bal (.esdt s.lpTok) 0 ∧
    ∃ (b B : Bal) (cp cn : Nat), t.s = nf_cpState s B cp cn ∧ cp = 0 ∧ cn = 0 ∧
      B = b.sub s.nftCost.tok s.nftCost.nonce s.claimableNft ∧
      b (.esdt s.lpTok) 0 = s.perTicket * s.nrWinning := by
  obtain ⟨hv1, hv2, _⟩ := nf_flags hv
  simp only [exec, rbTx_s, hv1, Bool.false_eq_true, if_false, bind_ok_iff] at hx
  obtain ⟨t1, h1, hfin⟩ := hx
  obtain ⟨hst, _, b, cp, hs1, hcp, _, _⟩ := nf_cpc_exact h1 hne
  simp only [rbTx_s] at hst hs1
  have hvar : t1.s.variant = s.variant := by rw [hs1]
  rw [hvar, hv2] at hfin
  simp only [if_true] at hfin
  rw [claimNftPayment_ok_iff] at hfin
  obtain ⟨_, _, rfl⟩ := hfin
  have hcn1 : t1.s.claimableNft = s.claimableNft := by rw [hs1]
  have hco1 : t1.s.nftCost = s.nftCost := by rw [hs1]
  have hb1 : t1.s.bal = b := by rw [hs1]
  obtain ⟨hcov, hsur, _⟩ := LP.Props.C02.owner_gets_only_surplus (rbTx s e) t1 e hne h1
  simp only [rbTx_s] at hsur
  rw [hb1] at hsur
  refine ⟨hst, hcov, b, b.sub s.nftCost.tok s.nftCost.nonce s.claimableNft, cp, 0, ?_, hcp, rfl,
    rfl, hsur⟩
  by_cases hc0 : t1.s.claimableNft > 0
  · rw [if_pos hc0]
    show ({ t1.s with claimableNft := 0, bal := t1.s.bal.sub t1.s.nftCost.tok t1.s.nftCost.nonce t1.s.claimableNft } : State) = _
    rw [hcn1, hco1, hb1, hs1]
    rfl
  · rw [if_neg hc0]
    have hz : s.claimableNft = 0 := by rw [hcn1] at hc0; omega
    rw [hs1, hz, Bal.sub_zero]
    rfl

/-- **the owner can withdraw only the surplus** (`Variant.nft`): an accepted `claimPayment` needs
    the coverage and leaves exactly the outstanding winners' launchpad tokens; both recorded
    proceeds are zero afterwards -/
theorem fl_owner_surplus_step (hI : fl_NftLp s) (hs : step hash s e .claimPayment = .ok (s', o)) :
    s.perTicket * s.nrWinning ≤ s.bal (.esdt s.lpTok) 0 ∧
    s'.bal (.esdt s'.lpTok) 0 = s'.perTicket * s'.nrWinning ∧ s'.nrWinning = s.nrWinning ∧
    s'.perTicket = s.perTicket ∧ s'.lpTok = s.lpTok ∧ s'.deposited = s.deposited ∧
    s'.claimablePayment = 0 ∧ s'.claimableNft = 0 ∧ ∃ B, s' = nf_cpState s B 0 0 := by
  obtain ⟨t, hx, rfl⟩ := fl_np hI.var (by intro m hm; simp [endpointMeta] at hm; rw [← hm]) hs
  obtain ⟨_, hcov, b, B, cp, cn, hs', hcp, hcn, hB, hsur⟩ := fl_claimPayment_shape hI.var hI.tokNe hx
  subst hcp hcn
  have hnl' : ¬ (Token.esdt s.lpTok = s.nftCost.tok ∧ 0 = s.nftCost.nonce) :=
    fun hh => hI.feeNe hh.1.symm
  rw [hs']
  refine ⟨hcov, ?_, rfl, rfl, rfl, rfl, rfl, rfl, B, rfl⟩
  show B (.esdt s.lpTok) 0 = s.perTicket * s.nrWinning
  rw [hB]
  simp only [Bal.sub, hnl', if_false]
  exact hsur

theorem fl_cover_claimPayment (hI : fl_NftLp s) (hs : step hash s e .claimPayment = .ok (s', o)) :
    s'.deposited = true → s'.perTicket * s'.nrWinning ≤ s'.bal (.esdt s'.lpTok) 0 := by
  obtain ⟨_, h1, _⟩ := fl_owner_surplus_step hI hs
  intro _
  rw [h1]; exact Nat.le_refl _

end calls

/-! ### the invariant -/

/-- **preservation**: every accepted call of the launchpad with NFT draw keeps `fl_NftLp` — no
    restriction on the call, its arguments or its call value -/
theorem fl_step_NftLp {hash : List Nat → List Nat} {s s' : State} {e : Env} {c : Call} {o : Out}
    (hI : fl_NftLp s) (hs : step hash s e c = .ok (s', o)) : fl_NftLp s' := by
  refine ⟨(fl_step_variant hs).trans hI.var, fl_step_tokNe hs hI.tokNe,
    fl_step_fee_ne_lp hs hI.feeNe, ?_⟩
  have hex := nf_exposed hI.var hs
  cases c with
  | addTickets l => exact fl_cover_addTickets hI hs
  | deposit => exact fl_cover_deposit hs
  | setTicketPrice tok a => exact fl_cover_setTicketPrice hI hs
  | setPerTicket a => exact fl_cover_setPerTicket hs
  | setConfStart x => exact fl_cover_setConfStart hI hs
  | setSelStart x => exact fl_cover_setSelStart hI hs
  | setClaimStart x => exact fl_cover_setClaimStart hI hs
  | setSupport a => exact fl_cover_setSupport hI hs
  | pause => exact fl_cover_pause hI hs
  | unpause => exact fl_cover_unpause hI hs
  | confirm n => exact fl_cover_confirm hI hs
  | filter => exact fl_cover_filter hI hs
  | select => exact fl_cover_select hI hs
  | claim => exact fl_cover_claim hI hs
  | claimPayment => exact fl_cover_claimPayment hI hs
  | blacklist l => exact fl_cover_blacklist hI hs
  | confirmNft => exact fl_cover_confirmNft hI hs
  | selectNft => exact fl_cover_selectNft hI hs
  | setNftCost c => exact fl_cover_setNftCost hI hs
  | sftSetup => exact fl_cover_sftSetup hI hs
  | _ => exact absurd hex id

/-- **deployment** establishes `fl_NftLp` (nothing is deposited yet) -/
theorem fl_init_NftLp {a : InitArgs} {e : Env} {s : State} (h : init .nft a e = .ok s) :
    fl_NftLp s := by
  have hfee := fl_init_fee_ne_lp h rfl
  obtain ⟨_, _, h3, _, rfl⟩ := nf_init_inv h
  exact ⟨rfl, h3, hfee, fun hd => by cases hd⟩

/-- along any history (rejected transactions leave the state unchanged) -/
theorem fl_run_NftLp_preserves (hash : List Nat → List Nat) :
    ∀ (h : List (Env × Call)) (s : State), fl_NftLp s → fl_NftLp (run hash s h)
  | [], s, hs => hs
  | (e, c) :: rest, s, hs => by
    unfold run
    cases hx : step hash s e c with
    | error err => exact fl_run_NftLp_preserves hash rest s hs
    | ok q =>
      obtain ⟨s', o⟩ := q
      exact fl_run_NftLp_preserves hash rest s' (fl_step_NftLp hs hx)

/-- **every history** of the launchpad with NFT draw satisfies `fl_NftLp` -/
theorem fl_run_NftLp (hash : List Nat → List Nat) {a : InitArgs} {e : Env} {s0 : State}
    (hi : init .nft a e = .ok s0) (h : List (Env × Call)) : fl_NftLp (run hash s0 h) :=
  fl_run_NftLp_preserves hash h s0 (fl_init_NftLp hi)

/-- every state of `Reach hash .nft` satisfies `fl_NftLp` -/
theorem fl_reach_NftLp {hash : List Nat → List Nat} {s : State} {r : Nat}
    (h : Reach hash .nft s r) : fl_NftLp s := by
  induction h with
  | init a e s h => exact fl_init_NftLp h
  | call s r e c s' o _ _ _ _ h4 ih => exact fl_step_NftLp ih h4
  | wait s r r' _ _ ih => exact ih

end LP

#print axioms LP.fl_step_NftLp
#print axioms LP.fl_init_NftLp
#print axioms LP.fl_run_NftLp
#print axioms LP.fl_reach_NftLp
#print axioms LP.fl_owner_surplus_step
