import LP.Proofs.Receipts
import LP.Proofs.Gaps
import LP.Proofs.ReachV2Claim
import LP.Proofs.ReachPL1
/-
  LP.Proofs.OwnerReceipts — helpers (prefix `ow_`) for `LP/Props/C01owner.lean`: what the OWNER
  receives from `claimPayment`, exactly, per call and over whole histories, all eight contracts.
-/
namespace LP
open LP.FY LP.Props.C09 LP.Props.C14

/-! ## 1. one accepted `claimPayment`, any state with the static facts -/

/-- the NFT-fee proceeds a withdrawal in state `s` pays in the fungible token `tok` (nonce 0) -/
def ow_nftPart (s : State) (tok : Token) : Nat :=
  if s.variant.hasNft = true ∧ s.nftCost.tok = tok ∧ s.nftCost.nonce = 0 then s.claimableNft else 0

/-- the launchpad tokens a withdrawal in state `s` returns to the owner: the vested variants
    (guarV1, guarV2) compute `totalDeposited − (claimablePayment / price) × perTicket`, the six
    others `balance − perTicket × nrWinning` (both truncated at 0) -/
def ow_surplus (s : State) : Nat :=
  if s.variant.vested = true then s.totalDeposited - s.claimablePayment / s.price * s.perTicket
  else s.bal (.esdt s.lpTok) 0 - s.perTicket * s.nrWinning

/-- the rest of `claimPaymentOwn` after the proceeds have been sent -/
def ow_cpoTail (t : Tx) (e : Env) (cl : Nat) : Res Tx :=
  if t.s.totalDeposited = 0 then pure (t.setS { t.s with totalDeposited := 0 }) else
  if cl / t.s.price * t.s.perTicket ≥ t.s.totalDeposited then
    pure (t.setS { t.s with totalDeposited := 0 }) else
  (t.setS { t.s with totalDeposited := 0 }).send e.caller
    ⟨.esdt t.s.lpTok, 0, t.s.totalDeposited - cl / t.s.price * t.s.perTicket⟩

theorem ow_cpo_eq (t : Tx) (e : Env) :
    claimPaymentOwn t e =
      requireStage t.s e .claim "Not in claim period" >>= fun _ =>
      (if t.s.claimablePayment > 0 then
        (t.setS { t.s with claimablePayment := 0 }).send e.caller ⟨t.s.payTok, 0, t.s.claimablePayment⟩
       else pure t) >>= fun t1 => ow_cpoTail t1 e t.s.claimablePayment := by
  unfold claimPaymentOwn ow_cpoTail
  by_cases h : t.s.claimablePayment > 0
  · simp only [h, if_true]; rfl
  · simp only [h, if_false]; rfl

theorem ow_cpoTail_exact {t t' : Tx} {e : Env} {cl : Nat} (h : ow_cpoTail t e cl = .ok t') :
    t.s.totalDeposited - cl / t.s.price * t.s.perTicket ≤ t.s.bal (.esdt t.s.lpTok) 0 ∧
    t'.s = { t.s with totalDeposited := 0,
                      bal := t.s.bal.sub (.esdt t.s.lpTok) 0
                        (t.s.totalDeposited - cl / t.s.price * t.s.perTicket) } ∧
    t'.o.xfers = t.o.xfers ++
      (if t.s.totalDeposited - cl / t.s.price * t.s.perTicket > 0
       then [(e.caller, (⟨.esdt t.s.lpTok, 0,
          t.s.totalDeposited - cl / t.s.price * t.s.perTicket⟩ : Pay))] else []) := by
  unfold ow_cpoTail at h
  split at h
  · rename_i hd
    simp only [pure_ok_iff] at h
    subst h
    have h0 : t.s.totalDeposited - cl / t.s.price * t.s.perTicket = 0 := by omega
    rw [h0, Bal.sub_zero]
    exact ⟨Nat.zero_le _, rfl, by simp⟩
  · rename_i hd
    split at h
    · rename_i hw
      simp only [pure_ok_iff] at h
      subst h
      have h0 : t.s.totalDeposited - cl / t.s.price * t.s.perTicket = 0 := by omega
      rw [h0, Bal.sub_zero]
      exact ⟨Nat.zero_le _, rfl, by simp⟩
    · rename_i hw
      obtain ⟨hle, rfl⟩ := (send_ok_iff _ _ _ _).mp h
      have hpos : t.s.totalDeposited - cl / t.s.price * t.s.perTicket > 0 := by omega
      rw [if_pos hpos]
      exact ⟨hle, rfl, rfl⟩

/-- **the owner's withdrawal of the vested variants, exactly** -/
theorem ow_cpo_exact {t t' : Tx} {e : Env} (h : claimPaymentOwn t e = .ok t')
    (hne : t.s.payTok ≠ .esdt t.s.lpTok) :
    t.s.stage e = .claim ∧ t.s.claimablePayment ≤ t.s.bal t.s.payTok 0 ∧
    t.s.totalDeposited - t.s.claimablePayment / t.s.price * t.s.perTicket
      ≤ t.s.bal (.esdt t.s.lpTok) 0 ∧
    t'.s = { t.s with claimablePayment := 0, totalDeposited := 0,
                      bal := (t.s.bal.sub t.s.payTok 0 t.s.claimablePayment).sub (.esdt t.s.lpTok) 0
                        (t.s.totalDeposited - t.s.claimablePayment / t.s.price * t.s.perTicket) } ∧
    t'.o.xfers = t.o.xfers
      ++ (if t.s.claimablePayment > 0 then [(e.caller, (⟨t.s.payTok, 0, t.s.claimablePayment⟩ : Pay))] else [])
      ++ (if t.s.totalDeposited - t.s.claimablePayment / t.s.price * t.s.perTicket > 0
          then [(e.caller, (⟨.esdt t.s.lpTok, 0,
            t.s.totalDeposited - t.s.claimablePayment / t.s.price * t.s.perTicket⟩ : Pay))] else []) := by
  have hne' : ¬ (Token.esdt t.s.lpTok = t.s.payTok) := fun hh => hne hh.symm
  rw [ow_cpo_eq] at h
  simp only [bind_ok_iff, req_ok_iff, requireStage, exists_const, beq_iff_eq] at h
  obtain ⟨hst, t1, h1, h2⟩ := h
  obtain ⟨k1, k2, k3⟩ := ow_cpoTail_exact h2
  by_cases hpos : t.s.claimablePayment > 0
  · rw [if_pos hpos] at h1
    obtain ⟨hle, rfl⟩ := (send_ok_iff _ _ _ _).mp h1
    have hb : (sendResult (t.setS { t.s with claimablePayment := 0 }) e.caller
        ⟨t.s.payTok, 0, t.s.claimablePayment⟩).s.bal (.esdt t.s.lpTok) 0 = t.s.bal (.esdt t.s.lpTok) 0 := by
      simp [sendResult, Tx.setS, Bal.sub, hne']
    simp only [sendResult, Tx.setS] at k1 k2 k3 hb
    simp only [hb] at k1
    refine ⟨hst, hle, k1, ?_, ?_⟩
    · rw [k2]
    · rw [k3, if_pos hpos]; rfl
  · rw [if_neg hpos] at h1
    simp only [pure_ok_iff] at h1
    subst h1
    have hz : t.s.claimablePayment = 0 := by omega
    refine ⟨hst, by omega, k1, ?_, ?_⟩
    · rw [k2, hz, Bal.sub_zero]
      have : t.s = { t.s with claimablePayment := 0 } := by
        cases hts : t.s; simp only [hts] at hz; simp [hz]
      rw [this]
    · rw [k3, if_neg hpos]; simp

theorem ow_paid_opt (tok : Token) (a b : Nat) (c : Prop) [Decidable c] (p : Pay) :
    cr_paid tok a (if c then [(b, p)] else []) =
      if c ∧ b = a ∧ p.tok = tok ∧ p.nonce = 0 then p.amount else 0 := by
  by_cases hc : c
  · simp only [hc, if_true, true_and]; exact cr_paid_single tok a b p
  · simp [hc, cr_paid]

theorem ow_np_claimPayment (v : Variant) :
    ∀ m, endpointMeta v .claimPayment = some m → m.payable = false := by
  intro m hm; simp [endpointMeta] at hm; rw [← hm]

/-- **one accepted `claimPayment`, exactly** — ANY state of ANY of the eight variants in which
    neither the payment token nor the NFT-fee token is the launchpad token (no reachability): the
    caller is the owner, the stage is Claim; in every fungible token `tok` the owner receives
    `claimablePayment` (if `tok` is the payment token) + the surplus `ow_surplus s` (if `tok` is the
    launchpad token) + `claimableNft` (NFT variants, if `tok` is the fee token); afterwards the
    recorded proceeds, the recorded NFT proceeds and the surplus are all 0 -/
theorem ow_claimPayment_exact {hash : List Nat → List Nat} {s s' : State} {e : Env} {o : Out}
    (hne : s.payTok ≠ .esdt s.lpTok) (hfee : s.nftCost.tok ≠ .esdt s.lpTok)
    (hs : step hash s e .claimPayment = .ok (s', o)) :
    e.caller = s.owner ∧ s.stage e = .claim ∧
    (∀ tok, cr_paid tok s.owner o.xfers =
      (if tok = s.payTok then s.claimablePayment else 0) +
      (if tok = .esdt s.lpTok then ow_surplus s else 0) + ow_nftPart s tok) ∧
    s'.claimablePayment = 0 ∧ (s.variant.hasNft = true → s'.claimableNft = 0) ∧
    (s.variant.hasNft = false → s'.claimableNft = s.claimableNft) ∧
    ow_surplus s' = 0 ∧ s'.nrWinning = s.nrWinning ∧
    (s.variant.vested = true → s'.totalDeposited = 0) ∧
    (s.variant.vested = false → s'.totalDeposited = s.totalDeposited ∧
      s.perTicket * s.nrWinning ≤ s.bal (.esdt s.lpTok) 0 ∧
      s'.bal (.esdt s.lpTok) 0 = s.perTicket * s.nrWinning) := by
  have how := step_claimPayment_owner hs
  have hne' : ¬ (Token.esdt s.lpTok = s.payTok) := fun hh => hne hh.symm
  obtain ⟨t, hx, rfl, rfl⟩ := LP.Props.C20.step_nopay_inv (ow_np_claimPayment _) hs
  simp only [exec] at hx
  cases hv : s.variant.vested
  · -- the common withdrawal
    have hv' : (LP.Props.C20.txOf s e).s.variant.vested = false := hv
    simp only [hv', Bool.false_eq_true, if_false, bind_ok_iff] at hx
    obtain ⟨t1, h1, h2⟩ := hx
    obtain ⟨hst, _, hcov, k4, k5, _⟩ := pl_cpc_exact h1 hne
    have hst' : s.stage e = .claim := hst
    have hcov' : s.perTicket * s.nrWinning ≤ s.bal (.esdt s.lpTok) 0 := hcov
    have k4' : t1.s =
        { s with
          claimablePayment := 0
          bal := ((s.bal.sub s.payTok 0 s.claimablePayment).sub (.esdt s.lpTok) 0
            (s.bal (.esdt s.lpTok) 0 - s.perTicket * s.nrWinning)) } := k4
    have k5' : t1.o.xfers = [] ++
        (if s.claimablePayment > 0 then [(e.caller, (⟨s.payTok, 0, s.claimablePayment⟩ : Pay))] else [])
        ++ (if s.bal (.esdt s.lpTok) 0 - s.perTicket * s.nrWinning > 0
            then [(e.caller, (⟨.esdt s.lpTok, 0, s.bal (.esdt s.lpTok) 0 - s.perTicket * s.nrWinning⟩ : Pay))]
            else []) := k5
    have hsur : ow_surplus s = s.bal (.esdt s.lpTok) 0 - s.perTicket * s.nrWinning := by
      simp [ow_surplus, hv]
    have hx1 : ∀ tok, cr_paid tok s.owner t1.o.xfers =
        (if tok = s.payTok then s.claimablePayment else 0) +
        (if tok = .esdt s.lpTok then ow_surplus s else 0) := by
      intro tok
      rw [k5', cr_paid_append, cr_paid_append, ow_paid_opt, ow_paid_opt, hsur, how]
      simp only [cr_paid, Nat.zero_add, true_and, and_true]
      congr 1
      · by_cases htk : s.payTok = tok
        · subst htk; by_cases hp : s.claimablePayment > 0
          · simp [hp]
          · have : s.claimablePayment = 0 := by omega
            simp [this]
        · have : ¬ tok = s.payTok := fun hh => htk hh.symm
          simp [htk, this]
      · by_cases htk : Token.esdt s.lpTok = tok
        · subst htk
          by_cases hp : s.bal (.esdt s.lpTok) 0 - s.perTicket * s.nrWinning > 0
          · simp [hp]
          · have : s.bal (.esdt s.lpTok) 0 - s.perTicket * s.nrWinning = 0 := by omega
            simp [this]
        · have : ¬ tok = Token.esdt s.lpTok := fun hh => htk hh.symm
          simp [htk, this]
    have hb1 : t1.s.bal (.esdt s.lpTok) 0 = s.perTicket * s.nrWinning := by
      rw [k4']
      show ((s.bal.sub s.payTok 0 s.claimablePayment).sub (.esdt s.lpTok) 0
        (s.bal (.esdt s.lpTok) 0 - s.perTicket * s.nrWinning)) (.esdt s.lpTok) 0 = _
      simp only [Bal.sub, and_self, if_true, hne', false_and, if_false]
      omega
    have hvar1 : t1.s.variant = s.variant := by rw [k4']
    rw [hvar1] at h2
    cases hn : s.variant.hasNft
    · rw [hn] at h2
      simp only [Bool.false_eq_true, if_false, pure_ok_iff] at h2
      subst h2
      have hnp : ∀ tok, ow_nftPart s tok = 0 := fun tok => by simp [ow_nftPart, hn]
      refine ⟨how, hst', fun tok => by rw [hx1, hnp, Nat.add_zero], by rw [k4'], nofun,
        fun _ => by rw [k4'], ?_, by rw [k4'], nofun, fun _ => ⟨by rw [k4'], hcov', hb1⟩⟩
      have : t1.s.variant.vested = false := by rw [hvar1]; exact hv
      unfold ow_surplus
      rw [this]
      simp only [Bool.false_eq_true, if_false]
      have e1 : t1.s.lpTok = s.lpTok := by rw [k4']
      have e2 : t1.s.perTicket = s.perTicket := by rw [k4']
      have e3 : t1.s.nrWinning = s.nrWinning := by rw [k4']
      rw [e1, e2, e3, hb1]; omega
    · rw [hn] at h2
      simp only [if_true] at h2
      rw [claimNftPayment_ok_iff] at h2
      obtain ⟨_, _, rfl⟩ := h2
      have hcn1 : t1.s.claimableNft = s.claimableNft := by rw [k4']
      have hco1 : t1.s.nftCost = s.nftCost := by rw [k4']
      have hfee' : ¬ (Token.esdt s.lpTok = s.nftCost.tok) := fun hh => hfee hh.symm
      by_cases hc0 : t1.s.claimableNft > 0
      · rw [if_pos hc0]
        refine ⟨how, hst', fun tok => ?_, by rw [k4'], fun _ => rfl, nofun, ?_, by rw [k4'], nofun,
          fun _ => ⟨by rw [k4'], hcov', ?_⟩⟩
        · show cr_paid tok s.owner (t1.o.xfers ++ [(e.caller, { t1.s.nftCost with amount := t1.s.claimableNft })]) = _
          rw [cr_paid_append, hx1, cr_paid_single, hcn1, hco1, how]
          congr 1
          simp [ow_nftPart, hn]
        · show ow_surplus
            { t1.s with
              claimableNft := 0
              bal := t1.s.bal.sub t1.s.nftCost.tok t1.s.nftCost.nonce t1.s.claimableNft } = 0
          unfold ow_surplus
          have : t1.s.variant.vested = false := by rw [hvar1]; exact hv
          simp only [this, Bool.false_eq_true, if_false]
          have e1 : t1.s.lpTok = s.lpTok := by rw [k4']
          have e2 : t1.s.perTicket = s.perTicket := by rw [k4']
          have e3 : t1.s.nrWinning = s.nrWinning := by rw [k4']
          rw [e1, e2, e3, hco1]
          simp only [Bal.sub, hfee', false_and, if_false]
          rw [hb1]; omega
        · show (t1.s.bal.sub t1.s.nftCost.tok t1.s.nftCost.nonce t1.s.claimableNft) (.esdt s.lpTok) 0 = _
          rw [hco1]
          simp only [Bal.sub, hfee', false_and, if_false]
          exact hb1
      · rw [if_neg hc0]
        have hz : s.claimableNft = 0 := by rw [hcn1] at hc0; omega
        have hnp : ∀ tok, ow_nftPart s tok = 0 := fun tok => by simp [ow_nftPart, hz]
        refine ⟨how, hst', fun tok => by rw [hx1, hnp, Nat.add_zero], by rw [k4'],
          fun _ => by rw [hcn1, hz], nofun, ?_, by rw [k4'], nofun, fun _ => ⟨by rw [k4'], hcov', hb1⟩⟩
        have : t1.s.variant.vested = false := by rw [hvar1]; exact hv
        unfold ow_surplus
        rw [this]
        simp only [Bool.false_eq_true, if_false]
        have e1 : t1.s.lpTok = s.lpTok := by rw [k4']
        have e2 : t1.s.perTicket = s.perTicket := by rw [k4']
        have e3 : t1.s.nrWinning = s.nrWinning := by rw [k4']
        rw [e1, e2, e3, hb1]; omega
  · -- the withdrawal of the vested variants
    have hv' : (LP.Props.C20.txOf s e).s.variant.vested = true := hv
    simp only [hv', if_true] at hx
    obtain ⟨hst, _, _, k4, k5⟩ := ow_cpo_exact hx hne
    have hst' : s.stage e = .claim := hst
    have k4' : t.s =
        { s with
          claimablePayment := 0
          totalDeposited := 0
          bal := (s.bal.sub s.payTok 0 s.claimablePayment).sub (.esdt s.lpTok) 0
            (s.totalDeposited - s.claimablePayment / s.price * s.perTicket) } := k4
    have k5' : t.o.xfers = [] ++
        (if s.claimablePayment > 0 then [(e.caller, (⟨s.payTok, 0, s.claimablePayment⟩ : Pay))] else [])
        ++ (if s.totalDeposited - s.claimablePayment / s.price * s.perTicket > 0
            then [(e.caller, (⟨.esdt s.lpTok, 0,
              s.totalDeposited - s.claimablePayment / s.price * s.perTicket⟩ : Pay))] else []) := k5
    have hn : s.variant.hasNft = false := (rc_vested_flags hv).1
    have hsur : ow_surplus s = s.totalDeposited - s.claimablePayment / s.price * s.perTicket := by
      simp [ow_surplus, hv]
    have hnp : ∀ tok, ow_nftPart s tok = 0 := fun tok => by simp [ow_nftPart, hn]
    refine ⟨how, hst', fun tok => ?_, by rw [k4'], (fun h => by rw [hn] at h; cases h),
      fun _ => by rw [k4'], ?_, by rw [k4'], fun _ => by rw [k4'], nofun⟩
    · rw [k5', cr_paid_append, cr_paid_append, ow_paid_opt, ow_paid_opt, hsur, hnp, how]
      simp only [cr_paid, Nat.zero_add, true_and, and_true, Nat.add_zero]
      congr 1
      · by_cases htk : s.payTok = tok
        · subst htk; by_cases hp : s.claimablePayment > 0
          · simp [hp]
          · have : s.claimablePayment = 0 := by omega
            simp [this]
        · have : ¬ tok = s.payTok := fun hh => htk hh.symm
          simp [htk, this]
      · by_cases htk : Token.esdt s.lpTok = tok
        · subst htk
          by_cases hp : s.totalDeposited - s.claimablePayment / s.price * s.perTicket > 0
          · simp [hp]
          · have : s.totalDeposited - s.claimablePayment / s.price * s.perTicket = 0 := by omega
            simp [this]
        · have : ¬ tok = Token.esdt s.lpTok := fun hh => htk hh.symm
          simp [htk, this]
    · have : t.s.variant.vested = true := by rw [k4']; exact hv
      unfold ow_surplus
      rw [this]
      simp only [if_true]
      have : t.s.totalDeposited = 0 := by rw [k4']
      rw [this]; exact Nat.zero_sub _

/-! ## 2. what the other calls do to the owner's records -/

/-- the owner-side records: recorded proceeds, recorded NFT proceeds, recorded deposit -/
structure ow_V where
  cp : Nat
  cn : Nat
  td : Nat

def State.ow_v (s : State) : ow_V := ⟨s.claimablePayment, s.claimableNft, s.totalDeposited⟩

theorem ow_send_v {t t' : Tx} {to : Nat} {p : Pay} (h : t.send to p = .ok t') : t'.s.ow_v = t.s.ow_v := by
  rw [(Tx.send_s h).1]; rfl

theorem ow_claimNftResult_v (t : Tx) (e : Env) :
    (claimNftResult t e).s.ow_v = t.s.ow_v ∧ (claimNftResult t e).s.nrWinning = t.s.nrWinning ∧
    (claimNftResult t e).s.lpTok = t.s.lpTok ∧ (claimNftResult t e).s.perTicket = t.s.perTicket ∧
    (claimNftResult t e).s.variant = t.s.variant := by
  unfold claimNftResult; dsimp only; split <;> exact ⟨rfl, rfl, rfl, rfl, rfl⟩

theorem ow_claimSettle_v {t t1 : Tx} {e : Env} (h : claimSettle t e = .ok t1) :
    t1.s.ow_v = t.s.ow_v := by
  unfold claimSettle at h
  cases hcl : t.s.claimed e.caller
  · simp only [hcl, Bool.false_eq_true, if_false, bind_ok_iff, Prod.exists, pure_ok_iff] at h
    obtain ⟨s1, rd, rf, hset, t2, href, rfl⟩ := h
    rw [settle_ok_iff] at hset
    obtain ⟨_, _, r, _, _, _, _, _, hs1⟩ := hset
    rw [refund_ok_iff] at href
    obtain ⟨_, rfl⟩ := href
    have hv : (refundResult (t.setS s1) e e.caller rf).s.ow_v = t.s.ow_v := by
      rw [refundResult_state, hs1]; rfl
    split <;> exact hv
  · simp only [hcl, if_true, pure_ok_iff] at h
    subst h; rfl

theorem ow_claimPay_v {v2 : Bool} {t t' : Tx} {e : Env} {c : Nat} (h : claimPay v2 t e c = .ok t') :
    t'.s.ow_v = t.s.ow_v := by
  unfold claimPay at h
  split at h
  · simp only [bind_ok_iff, pure_ok_iff] at h
    obtain ⟨t1, h1, rfl⟩ := h
    have hs := (Tx.send_s h1).1
    cases v2 <;> (simp only [Tx.setS, Tx.emit]; rw [hs]; rfl)
  · simp only [pure_ok_iff] at h
    subst h; rfl

/-- **`claim` never touches the owner's records** (any variant, any state) -/
theorem ow_exec_claim_v {hash : List Nat → List Nat} {t t' : Tx} {e : Env}
    (h : exec hash t e .claim = .ok t') : t'.s.ow_v = t.s.ow_v := by
  cases hv : t.s.variant.vested
  · rw [exec_claim_nonvested hash t e hv, claimBase_ok_iff] at h
    obtain ⟨r, _, t2, h2, h3⟩ := h
    obtain ⟨b, hb, _, _⟩ := rb_sendLp h2
    have h2v : t2.s.ow_v = t.s.ow_v := by rw [hb, claimMid_state]; rfl
    split at h3
    · rw [claimNft_ok_iff] at h3
      obtain ⟨_, _, rfl⟩ := h3
      rw [(ow_claimNftResult_v t2 e).1, h2v]
    · simp only [pure_ok_iff] at h3
      subst h3; exact h2v
  · rw [exec_claim_vested hash t e hv, claimVested_eq] at h
    have key : ∀ v2, claimBody v2 t e = .ok t' → t'.s.ow_v = t.s.ow_v := by
      intro v2 hb
      unfold claimBody at hb
      simp only [bind_ok_iff] at hb
      obtain ⟨t1, h1, c, _, h2⟩ := hb
      rw [ow_claimPay_v h2, ow_claimSettle_v h1]
    split at h
    · simp only [bind_ok_iff, req_ok_iff, exists_const] at h
      exact key _ h.2
    · exact key _ h

/-- **non-vested `claim`, launchpad tokens**: the balance drops by `k × perTicket` and `nrWinning`
    by `k` for the same `k` (the caller's winning tickets) -/
theorem ow_claimBase_lp {t t' : Tx} {e : Env} (h : claimBase t e = .ok t')
    (hne : t.s.payTok ≠ .esdt t.s.lpTok) (hfee : t.s.nftCost.tok ≠ .esdt t.s.lpTok)
    (hpct : t.s.lockPct ≤ 10000) :
    ∃ k, k ≤ t.s.nrWinning ∧ k * t.s.perTicket ≤ t.s.bal (.esdt t.s.lpTok) 0 ∧
      t'.s.nrWinning = t.s.nrWinning - k ∧
      t'.s.bal (.esdt t.s.lpTok) 0 = t.s.bal (.esdt t.s.lpTok) 0 - k * t.s.perTicket := by
  have hne' : ¬ (Token.esdt t.s.lpTok = t.s.payTok) := fun hh => hne hh.symm
  have hfee' : ¬ (Token.esdt t.s.lpTok = t.s.nftCost.tok) := fun hh => hfee hh.symm
  rw [claimBase_ok_iff] at h
  obtain ⟨r, ⟨_, _, _, hnw, _, _⟩, t2, h2, h3⟩ := h
  have hm := claimMid_state t e r
  have hmlp : (claimMid t e r).s.lpTok = t.s.lpTok := by rw [hm]; rfl
  have hmpt : (claimMid t e r).s.perTicket = t.s.perTicket := by rw [hm]; rfl
  have hmpc : (claimMid t e r).s.lockPct = t.s.lockPct := by rw [hm]; rfl
  have hmnw : (claimMid t e r).s.nrWinning
      = t.s.nrWinning - countWinning t.s.status r.first (rangeLen r) := by rw [hm]; rfl
  have hmb : (claimMid t e r).s.bal (.esdt t.s.lpTok) 0 = t.s.bal (.esdt t.s.lpTok) 0 := by
    rw [hm]
    show (t.s.bal.sub t.s.payTok 0 _) (.esdt t.s.lpTok) 0 = _
    simp only [Bal.sub, hne', false_and, if_false]
  obtain ⟨B, e2, l2, p2, _⟩ := v1_sendLp (by rw [hmpc]; exact hpct) h2
  rw [hmlp, hmpt, hmb] at l2 p2
  have h2nw : t2.s.nrWinning = t.s.nrWinning - countWinning t.s.status r.first (rangeLen r) := by
    rw [e2]; exact hmnw
  have h2b : t2.s.bal (.esdt t.s.lpTok) 0 = t.s.bal (.esdt t.s.lpTok) 0
      - countWinning t.s.status r.first (rangeLen r) * t.s.perTicket := by
    rw [e2]; exact p2
  have h2c : t2.s.nftCost = t.s.nftCost := by rw [e2, hm]; rfl
  refine ⟨countWinning t.s.status r.first (rangeLen r), hnw, l2, ?_, ?_⟩
  · split at h3
    · rw [claimNft_ok_iff] at h3
      obtain ⟨_, _, rfl⟩ := h3
      rw [(ow_claimNftResult_v t2 e).2.1, h2nw]
    · simp only [pure_ok_iff] at h3
      subst h3; exact h2nw
  · split at h3
    · rw [claimNft_ok_iff] at h3
      obtain ⟨_, _, rfl⟩ := h3
      rw [(claimNftResult_effect t2 e).2.2.2.2.2.1]
      split
      · rw [h2c]
        simp only [Bal.sub, hfee', false_and, if_false]
        exact h2b
      · exact h2b
    · simp only [pure_ok_iff] at h3
      subst h3; exact h2b

/-! ## 3. after all selection steps -/

/-- the calls that can still be accepted once all selection steps are complete -/
def ow_lateCall : Call → Bool
  | .deposit | .setSchedule1 .. | .setConfStart _ | .setSelStart _ | .setClaimStart _
  | .setSupport _ | .pause | .unpause | .sftSetup | .claim | .claimPayment => true
  | _ => false

/-- **after all selection steps** (valid timeline, round ≥ selection start) only the calls of
    `ow_lateCall` can be accepted -/
theorem ow_late_calls {hash : List Nat → List Nat} {s s' : State} {e : Env} {c : Call} {o : Out}
    (hd : AllDone s) (hf : s.flags.filtered = true) (hv : validPeriods s.cfg = true)
    (hsel : s.cfg.sel ≤ e.round) (hs : step hash s e c = .ok (s', o)) : ow_lateCall c = true := by
  have hst := be_stage_late hv hsel
  cases c with
  | addTickets l =>
    exact absurd (Props.C06.alloc_only_in_addTickets hash s e _ _ (Or.inl ⟨l, rfl⟩) hs) hst.1
  | addTicketsV1 l =>
    exact absurd (Props.C06.alloc_only_in_addTickets hash s e _ _ (Or.inr (Or.inl ⟨l, rfl⟩)) hs) hst.1
  | addTicketsV2 l =>
    exact absurd (Props.C06.alloc_only_in_addTickets hash s e _ _ (Or.inr (Or.inr ⟨l, rfl⟩)) hs) hst.1
  | setTicketPrice tok a =>
    exact absurd (Props.C06.terms_only_in_addTickets hash s e _ _ (Or.inl ⟨tok, a, rfl⟩) hs) hst.1
  | setPerTicket a =>
    exact absurd (Props.C06.terms_only_in_addTickets hash s e _ _ (Or.inr (Or.inl ⟨a, rfl⟩)) hs) hst.1
  | setNftCost p =>
    exact absurd (Props.C06.terms_only_in_addTickets hash s e _ _
      (Or.inr (Or.inr (Or.inl ⟨p, rfl⟩))) hs) hst.1
  | setSchedule2 l =>
    exact absurd (Props.C06.terms_only_in_addTickets hash s e _ _
      (Or.inr (Or.inr (Or.inr ⟨l, rfl⟩))) hs) hst.1
  | confirm n =>
    exact absurd (Props.C06.confirm_only_in_confirm hash s e _ _ (Or.inl ⟨n, rfl⟩) hs) hst.2
  | confirmNft =>
    exact absurd (Props.C06.confirm_only_in_confirm hash s e _ _ (Or.inr rfl) hs) hst.2
  | blacklist l =>
    rcases Props.C06.blacklist_only_before_selection hash s e _ _ (Or.inl ⟨l, rfl⟩) hs with h1 | h1
    · exact absurd h1 hst.1
    · exact absurd h1 hst.2
  | refundUsers l =>
    rcases Props.C06.blacklist_only_before_selection hash s e _ _ (Or.inr (Or.inl ⟨l, rfl⟩)) hs
      with h1 | h1
    · exact absurd h1 hst.1
    · exact absurd h1 hst.2
  | unblacklist l =>
    rcases Props.C06.blacklist_only_before_selection hash s e _ _ (Or.inr (Or.inr ⟨l, rfl⟩)) hs
      with h1 | h1
    · exact absurd h1 hst.1
    · exact absurd h1 hst.2
  | filter =>
    have := (Props.C06.filter_gate hash s e _ hs).2
    rw [hf] at this; cases this
  | select =>
    have := (Props.C06.select_gate hash s e _ hs).2.2
    rw [hd.1] at this; cases this
  | distribute =>
    have := (Props.C06.additional_gate hash s e _ _ (Or.inl rfl) hs).2.2
    rw [hd.2] at this; cases this
  | selectNft =>
    have := (Props.C06.additional_gate hash s e _ _ (Or.inr (Or.inl rfl)) hs).2.2
    rw [hd.2] at this; cases this
  | secondary =>
    have := (Props.C06.additional_gate hash s e _ _ (Or.inr (Or.inr rfl)) hs).2.2
    rw [hd.2] at this; cases this
  | issueSft | createSfts | setTransferRole _ =>
    obtain ⟨m, t, _, _, _, hx, hs', _⟩ := step_ok_inv hs
    simp only [exec, bind_ok_iff, reduceCtorEq, and_false, exists_false] at hx
  | _ => rfl

/-- the launchpad-token side of the books: balance and outstanding winning tickets -/
structure ow_B where
  v : ow_V
  lp : Nat
  nw : Nat

def State.ow_b (s : State) : ow_B := ⟨s.ow_v, s.bal (.esdt s.lpTok) 0, s.nrWinning⟩

theorem ow_ownerEdit_b (s : State) (c : Call) (hc : c ≠ .deposit) : (ownerEdit s c).ow_b = s.ow_b := by
  cases c <;> first | rfl | exact absurd rfl hc

/-- **after all selection steps, deposit made**: an accepted call other than `claim` and
    `claimPayment` changes neither the owner's records nor the launchpad-token balance nor the number
    of outstanding winning tickets -/
theorem ow_post_b {hash : List Nat → List Nat} {s s' : State} {e : Env} {c : Call} {o : Out}
    (hd : AllDone s) (hf : s.flags.filtered = true) (hv : validPeriods s.cfg = true)
    (hsel : s.cfg.sel ≤ e.round) (hdep : s.deposited = true)
    (hs : step hash s e c = .ok (s', o)) (hc1 : c ≠ .claim) (hc2 : c ≠ .claimPayment) :
    s'.ow_b = s.ow_b := by
  have hlate := ow_late_calls hd hf hv hsel hs
  have hnd : c ≠ .deposit := by
    rintro rfl
    have := ((deposited_frame hs).2 rfl).1
    rw [hdep] at this; cases this
  have stat : c.setsStatic = true →
      (∀ m, endpointMeta s.variant c = some m → m.payable = false) → s'.ow_b = s.ow_b := by
    intro h1 hnp
    obtain ⟨t, hx, rfl, _⟩ := LP.Props.C20.step_nopay_inv hnp hs
    rcases exec_static_cases hx with ⟨h2, _⟩ | ⟨_, h2⟩
    · rw [h1] at h2; cases h2
    · rw [h2]; exact ow_ownerEdit_b _ c hnd
  have pure1 : (∀ m, endpointMeta s.variant c = some m → m.payable = false) →
      (∀ t t' : Tx, exec hash t e c = .ok t' → t'.s.ow_b = t.s.ow_b) → s'.ow_b = s.ow_b := by
    intro hnp hx
    obtain ⟨t, hx', rfl, _⟩ := LP.Props.C20.step_nopay_inv hnp hs
    exact hx _ _ hx'
  cases c with
  | claim => exact absurd rfl hc1
  | claimPayment => exact absurd rfl hc2
  | deposit => exact absurd rfl hnd
  | setSchedule1 a b c d f =>
    refine stat rfl ?_
    intro m hm; simp only [endpointMeta] at hm
    split at hm
    · simp at hm; rw [← hm]
    · cases hm
  | setConfStart r => exact stat rfl (by intro m hm; simp [endpointMeta] at hm; rw [← hm])
  | setSelStart r => exact stat rfl (by intro m hm; simp [endpointMeta] at hm; rw [← hm])
  | setClaimStart r => exact stat rfl (by intro m hm; simp [endpointMeta] at hm; rw [← hm])
  | setSupport a =>
    exact pure1 (by intro m hm; simp [endpointMeta] at hm; rw [← hm])
      (fun t t' h => by simp only [exec, pure_ok_iff] at h; subst h; rfl)
  | pause =>
    exact pure1 (by intro m hm; simp [endpointMeta] at hm; rw [← hm])
      (fun t t' h => by simp only [exec, pure_ok_iff] at h; subst h; rfl)
  | unpause =>
    exact pure1 (by intro m hm; simp [endpointMeta] at hm; rw [← hm])
      (fun t t' h => by simp only [exec, pure_ok_iff] at h; subst h; rfl)
  | sftSetup =>
    refine pure1 ?_ (fun t t' h => by simp only [exec, pure_ok_iff] at h; subst h; rfl)
    intro m hm; simp only [endpointMeta] at hm
    split at hm
    · simp at hm; rw [← hm]
    · cases hm
  | _ => simp [ow_lateCall] at hlate

/-- what an accepted call other than `claimPayment` keeps once all selection steps are complete -/
structure ow_Kept (s s' : State) : Prop where
  v : s'.ow_v = s.ow_v
  sur : ow_surplus s' = ow_surplus s
  price : s'.price = s.price
  payTok : s'.payTok = s.payTok
  perTicket : s'.perTicket = s.perTicket
  nftCost : s'.nftCost = s.nftCost

theorem ow_np_claim (v : Variant) :
    ∀ m, endpointMeta v .claim = some m → m.payable = false := by
  intro m hm; simp [endpointMeta] at hm; rw [← hm]

/-- **the owner's entitlements are frozen after completion** (valid timeline, round ≥ selection
    start, deposit made, static facts): an accepted call other than `claimPayment` — claims of
    participants included — keeps the recorded proceeds, the recorded NFT proceeds, the recorded
    deposit, the launchpad-token surplus `ow_surplus`, the price, the tokens and the NFT fee -/
theorem ow_post_frame {hash : List Nat → List Nat} {s s' : State} {e : Env} {c : Call} {o : Out}
    (hd : AllDone s) (hf : s.flags.filtered = true) (hv : validPeriods s.cfg = true)
    (hsel : s.cfg.sel ≤ e.round) (hS : cr_Static s) (hdep : s.deposited = true)
    (hs : step hash s e c = .ok (s', o)) (hc : c ≠ .claimPayment) : ow_Kept s s' := by
  have hvar := pl_step_variant hs
  have hlp := pl_step_lpTok hs
  by_cases hcl : c = .claim
  · subst hcl
    have hp := price_frame hs nofun
    have hpt := perTicket_frame hs nofun
    obtain ⟨t, hx, rfl, _⟩ := LP.Props.C20.step_nopay_inv (ow_np_claim _) hs
    have hvv : t.s.ow_v = s.ow_v := ow_exec_claim_v hx
    refine ⟨hvv, ?_, hp.1, hp.2, hpt, nftCost_frame hs nofun⟩
    cases hvs : s.variant.vested
    · rw [exec_claim_nonvested hash _ e hvs] at hx
      obtain ⟨k, k1, k2, k3, k4⟩ := ow_claimBase_lp hx hS.tokNe hS.feeNe hS.pct
      have k1' : k ≤ s.nrWinning := k1
      have k2' : k * s.perTicket ≤ s.bal (.esdt s.lpTok) 0 := k2
      have k3' : t.s.nrWinning = s.nrWinning - k := k3
      have k4' : t.s.bal (.esdt s.lpTok) 0 = s.bal (.esdt s.lpTok) 0 - k * s.perTicket := k4
      unfold ow_surplus
      rw [hvar, hvs, hlp, hpt, k3', k4']
      simp only [Bool.false_eq_true, if_false]
      have e1 : s.perTicket * (s.nrWinning - k) = s.perTicket * s.nrWinning - s.perTicket * k :=
        Nat.mul_sub ..
      have e2 : k * s.perTicket = s.perTicket * k := Nat.mul_comm ..
      have e3 : s.perTicket * k ≤ s.perTicket * s.nrWinning := Nat.mul_le_mul_left _ k1'
      rw [e1, e2]
      rw [e2] at k2'
      omega
    · unfold ow_surplus
      have htd : t.s.totalDeposited = s.totalDeposited := congrArg ow_V.td hvv
      have hcp : t.s.claimablePayment = s.claimablePayment := congrArg ow_V.cp hvv
      rw [hvar, hvs, htd, hcp, hp.1, hpt]
      simp only [if_true]
  · obtain ⟨_, _, _, _, k5, k6, k7, k8⟩ := cr_post_x hd hf hv hsel hs hcl
    have hb := ow_post_b hd hf hv hsel hdep hs hcl hc
    have hvv : s'.ow_v = s.ow_v := congrArg ow_B.v hb
    have hbl : s'.bal (.esdt s'.lpTok) 0 = s.bal (.esdt s.lpTok) 0 := congrArg ow_B.lp hb
    have hnw : s'.nrWinning = s.nrWinning := congrArg ow_B.nw hb
    refine ⟨hvv, ?_, k5, k6, k7, k8⟩
    unfold ow_surplus
    have htd : s'.totalDeposited = s.totalDeposited := congrArg ow_V.td hvv
    have hcp : s'.claimablePayment = s.claimablePayment := congrArg ow_V.cp hvv
    rw [hvar, htd, hcp, k5, k7, hbl, hnw]

theorem ow_nftPart_kept {s s' : State} (h : ow_Kept s s') (hvar : s'.variant = s.variant) (tok : Token) :
    ow_nftPart s' tok = ow_nftPart s tok := by
  unfold ow_nftPart
  have hcn : s'.claimableNft = s.claimableNft := congrArg ow_V.cn h.v
  rw [hvar, h.nftCost, hcn]

/-- the payment-side records kept by an accepted call other than `claimPayment` (no deposit
    condition) -/
structure ow_KeptPay (s s' : State) : Prop where
  cp : s'.claimablePayment = s.claimablePayment
  cn : s'.claimableNft = s.claimableNft
  price : s'.price = s.price
  payTok : s'.payTok = s.payTok
  nftCost : s'.nftCost = s.nftCost

/-- **the recorded proceeds are frozen after completion**, deposit made or not -/
theorem ow_post_pay {hash : List Nat → List Nat} {s s' : State} {e : Env} {c : Call} {o : Out}
    (hd : AllDone s) (hf : s.flags.filtered = true) (hv : validPeriods s.cfg = true)
    (hsel : s.cfg.sel ≤ e.round) (hs : step hash s e c = .ok (s', o)) (hc : c ≠ .claimPayment) :
    ow_KeptPay s s' := by
  have hlate := ow_late_calls hd hf hv hsel hs
  have stat : c.setsStatic = true → (∀ tok a, c ≠ .setTicketPrice tok a) →
      (∀ p, c ≠ .setNftCost p) →
      (ownerEdit (creditPayments s e) c).claimablePayment = s.claimablePayment →
      (ownerEdit (creditPayments s e) c).claimableNft = s.claimableNft → ow_KeptPay s s' := by
    intro h1 h2 h3 h4 h5
    have hp := price_frame hs h2
    rcases step_static_cases hs with ⟨h6, _⟩ | ⟨_, h6⟩
    · rw [h1] at h6; cases h6
    · exact ⟨by rw [h6]; exact h4, by rw [h6]; exact h5, hp.1, hp.2, nftCost_frame hs h3⟩
  have pure1 : (∀ tok a, c ≠ .setTicketPrice tok a) → (∀ p, c ≠ .setNftCost p) →
      (∀ t t' : Tx, exec hash t e c = .ok t' → t'.s.claimablePayment = t.s.claimablePayment ∧
        t'.s.claimableNft = t.s.claimableNft) → ow_KeptPay s s' := by
    intro h2 h3 hx
    have hp := price_frame hs h2
    obtain ⟨m, t, _, _, _, hx', rfl, _⟩ := step_ok_inv hs
    obtain ⟨k1, k2⟩ := hx _ _ hx'
    exact ⟨k1, k2, hp.1, hp.2, nftCost_frame hs h3⟩
  cases c with
  | claimPayment => exact absurd rfl hc
  | claim =>
    refine pure1 nofun nofun ?_
    intro t t' h
    have := ow_exec_claim_v h
    exact ⟨congrArg ow_V.cp this, congrArg ow_V.cn this⟩
  | deposit => exact stat rfl nofun nofun rfl rfl
  | setSchedule1 a b c d f => exact stat rfl nofun nofun rfl rfl
  | setConfStart r => exact stat rfl nofun nofun rfl rfl
  | setSelStart r => exact stat rfl nofun nofun rfl rfl
  | setClaimStart r => exact stat rfl nofun nofun rfl rfl
  | setSupport a =>
    exact pure1 nofun nofun (fun t t' h => by simp only [exec, pure_ok_iff] at h; subst h; exact ⟨rfl, rfl⟩)
  | pause =>
    exact pure1 nofun nofun (fun t t' h => by simp only [exec, pure_ok_iff] at h; subst h; exact ⟨rfl, rfl⟩)
  | unpause =>
    exact pure1 nofun nofun (fun t t' h => by simp only [exec, pure_ok_iff] at h; subst h; exact ⟨rfl, rfl⟩)
  | sftSetup =>
    exact pure1 nofun nofun (fun t t' h => by simp only [exec, pure_ok_iff] at h; subst h; exact ⟨rfl, rfl⟩)
  | _ => simp [ow_lateCall] at hlate

/-- everything a withdrawal in state `s` pays the owner in the fungible token `tok` -/
def ow_due (s : State) (tok : Token) : Nat :=
  (if tok = s.payTok then s.claimablePayment else 0) +
  (if tok = .esdt s.lpTok then ow_surplus s else 0) + ow_nftPart s tok

theorem ow_due_lp {s : State} (hS : cr_Static s) : ow_due s (.esdt s.lpTok) = ow_surplus s := by
  unfold ow_due ow_nftPart
  have h1 : ¬ (Token.esdt s.lpTok = s.payTok) := fun hh => hS.tokNe hh.symm
  have h2 : ¬ (s.variant.hasNft = true ∧ s.nftCost.tok = Token.esdt s.lpTok ∧ s.nftCost.nonce = 0) :=
    fun hh => hS.feeNe hh.2.1
  simp [h1, h2]

theorem ow_due_other {s : State} {tok : Token} (h : tok ≠ .esdt s.lpTok) :
    ow_due s tok = (if tok = s.payTok then s.claimablePayment else 0) + ow_nftPart s tok := by
  unfold ow_due
  simp [h]

/-- **after completion the owner's entitlement in every token is frozen** until he withdraws
    (for the launchpad token: once the deposit has been made) -/
theorem ow_due_kept {hash : List Nat → List Nat} {s s' : State} {e : Env} {c : Call} {o : Out}
    (hd : AllDone s) (hf : s.flags.filtered = true) (hv : validPeriods s.cfg = true)
    (hsel : s.cfg.sel ≤ e.round) (hS : cr_Static s) (tok : Token)
    (hdep : tok = .esdt s.lpTok → s.deposited = true)
    (hs : step hash s e c = .ok (s', o)) (hc : c ≠ .claimPayment) :
    ow_due s' tok = ow_due s tok := by
  have hvar := pl_step_variant hs
  have hlp := pl_step_lpTok hs
  by_cases htk : tok = .esdt s.lpTok
  · subst htk
    have hk := ow_post_frame hd hf hv hsel hS (hdep rfl) hs hc
    have e1 : ow_due s' (.esdt s.lpTok) = ow_due s' (.esdt s'.lpTok) := by rw [hlp]
    rw [e1, ow_due_lp (cr_step_static hS hs), ow_due_lp hS, hk.sur]
  · have hk := ow_post_pay hd hf hv hsel hs hc
    have htk' : tok ≠ .esdt s'.lpTok := by rw [hlp]; exact htk
    rw [ow_due_other htk, ow_due_other htk', hk.cp, hk.payTok]
    unfold ow_nftPart
    rw [hvar, hk.nftCost, hk.cn]

/-- after an accepted withdrawal nothing is left to withdraw, in any token -/
theorem ow_due_zero_after {hash : List Nat → List Nat} {s s' : State} {e : Env} {o : Out}
    (hS : cr_Static s) (hs : step hash s e .claimPayment = .ok (s', o)) (tok : Token) :
    ow_due s' tok = 0 := by
  obtain ⟨_, _, _, k4, k5, k6, k7, _⟩ := ow_claimPayment_exact hS.tokNe hS.feeNe hs
  have hvar := pl_step_variant hs
  unfold ow_due ow_nftPart
  rw [k4, k7, hvar]
  cases hn : s.variant.hasNft
  · simp
  · rw [k5 hn]; simp

/-! ## 4. sums over the log of accepted transactions -/

/-- the log entry is an accepted `claimPayment` -/
def ow_isWithdrawal (x : State × Env × Call × Out) : Bool :=
  match x.2.2.1 with
  | .claimPayment => true
  | _ => false

/-- what the `claimPayment` calls of a log send to `a` in the fungible token `tok` -/
def ow_withdrawn (tok : Token) (a : Nat) : List (State × Env × Call × Out) → Nat
  | [] => 0
  | x :: rest =>
    (if ow_isWithdrawal x = true then cr_paid tok a x.2.2.2.xfers else 0) + ow_withdrawn tok a rest

theorem ow_isWithdrawal_iff (s : State) (e : Env) (c : Call) (o : Out) :
    ow_isWithdrawal (s, e, c, o) = true ↔ c = .claimPayment := by
  cases c <;> simp [ow_isWithdrawal]

theorem ow_withdrawn_zero (tok : Token) (a : Nat) (l : List (State × Env × Call × Out))
    (h : ∀ x ∈ l, ow_isWithdrawal x = true → cr_paid tok a x.2.2.2.xfers = 0) :
    ow_withdrawn tok a l = 0 := by
  induction l with
  | nil => rfl
  | cons x rest ih =>
    simp only [ow_withdrawn]
    rw [ih (fun y hy => h y (List.mem_cons_of_mem _ hy))]
    by_cases hw : ow_isWithdrawal x = true
    · rw [if_pos hw, h x (List.mem_cons_self ..) hw]
    · rw [if_neg hw]

/-- facts of a covered state whose ticket selection is complete -/
theorem ow_covered_sel {hash : List Nat → List Nat} {s : State} {r : Nat}
    (h : be_Covered hash s r) (hsel : s.flags.selected = true) :
    s.flags.filtered = true ∧ validPeriods s.cfg = true ∧ s.cfg.sel ≤ r := by
  have hg := (be_family_all hash).good h
  have hf : s.flags.filtered = true := hg.tix.selFil hsel
  have hgood := ar_good_covered h
  exact ⟨hf, hg.valid, (hgood.tl (hgood.filStarted hf)).2⟩

/-- **once nothing is left to withdraw, every later `claimPayment` pays nothing** (token `tok`;
    for the launchpad token: deposit made) -/
theorem ow_after_empty (hash : List Nat → List Nat) (tok : Token) :
    ∀ (hist : List (Env × Call)) (s : State) (r : Nat), be_Covered hash s r → AllDone s →
      ow_due s tok = 0 → (tok = .esdt s.lpTok → s.deposited = true) →
      LP.Props.C17.RoundsFrom r hist → (∀ x ∈ hist, be_HistOK x.1 x.2) →
      ∀ x ∈ lk_runLog hash s hist, ow_isWithdrawal x = true → cr_paid tok s.owner x.2.2.2.xfers = 0
  | [], _, _, _, _, _, _, _, _, x, hx, _ => by cases hx
  | (e, c) :: rest, s, r, hcov, hd, hz, hdep, ⟨hr1, hr2⟩, hok, x, hx, hw => by
    have hok' : ∀ x ∈ rest, be_HistOK x.1 x.2 := fun x hx => hok x (List.mem_cons_of_mem _ hx)
    cases hs : step hash s e c with
    | error err =>
      rw [lk_runLog_cons_err hs] at hx
      exact ow_after_empty hash tok rest s e.round ((be_family_all hash).wait hcov hr1) hd hz hdep
        hr2 hok' x hx hw
    | ok q =>
      obtain ⟨s', o⟩ := q
      rw [lk_runLog_cons_ok hs] at hx
      obtain ⟨hf, hv, hsel⟩ := ow_covered_sel hcov hd.1
      have hsel' : s.cfg.sel ≤ e.round := Nat.le_trans hsel hr1
      have hS := cr_static_covered hcov
      have hcov' := (be_family_all hash).call hcov hr1 (hok (e, c) (List.mem_cons_self ..)) hs
      have hg := step_flags_gain4 hs
      have hd' : AllDone s' := ⟨hg.2.2.1 hd.1, hg.2.2.2 hd.2⟩
      have hlp := pl_step_lpTok hs
      have hown := lk_step_owner hs
      have hdep' : tok = .esdt s'.lpTok → s'.deposited = true := by
        rw [hlp]; exact fun h => deposited_mono hs (hdep h)
      by_cases hc : c = .claimPayment
      · subst hc
        have hz' : ow_due s' tok = 0 := ow_due_zero_after hS hs tok
        rcases List.mem_cons.mp hx with rfl | hx
        · have hp : cr_paid tok s.owner o.xfers = ow_due s tok :=
            (ow_claimPayment_exact hS.tokNe hS.feeNe hs).2.2.1 tok
          rw [← hz]; exact hp
        · have := ow_after_empty hash tok rest s' e.round hcov' hd' hz' hdep' hr2 hok' x hx hw
          rw [hown] at this; exact this
      · have hz' : ow_due s' tok = 0 := by
          rw [ow_due_kept hd hf hv hsel' hS tok hdep hs hc]; exact hz
        rcases List.mem_cons.mp hx with rfl | hx
        · exact absurd ((ow_isWithdrawal_iff s e c o).mp hw) hc
        · have := ow_after_empty hash tok rest s' e.round hcov' hd' hz' hdep' hr2 hok' x hx hw
          rw [hown] at this; exact this

/-- **the first accepted `claimPayment` pays everything, the later ones nothing** — generic form:
    `I` is any invariant of covered states that is kept by waiting and by every accepted call other
    than `claimPayment` (for the launchpad token it must include "deposit made"). -/
theorem ow_first_withdrawal (hash : List Nat → List Nat) (tok : Token) (I : State → Nat → Prop)
    (hIwait : ∀ s r r', I s r → r ≤ r' → I s r')
    (hIstep : ∀ s r e c s' o, I s r → r ≤ e.round → be_HistOK e c → c ≠ .claimPayment →
      step hash s e c = .ok (s', o) → I s' e.round)
    (hIcov : ∀ s r, I s r → be_Covered hash s r ∧ (tok = .esdt s.lpTok → s.deposited = true)) :
    ∀ (hist : List (Env × Call)) (s : State) (r : Nat), I s r →
      LP.Props.C17.RoundsFrom r hist → (∀ x ∈ hist, be_HistOK x.1 x.2) →
      ow_withdrawn tok s.owner (lk_runLog hash s hist) =
        (match (lk_runLog hash s hist).find? ow_isWithdrawal with
         | some x => ow_due x.1 tok
         | none => 0) ∧
      (∀ x, (lk_runLog hash s hist).find? ow_isWithdrawal = some x → ∃ r', I x.1 r') ∧
      (∀ x ∈ ((lk_runLog hash s hist).filter ow_isWithdrawal).tail,
        cr_paid tok s.owner x.2.2.2.xfers = 0)
  | [], _, _, _, _, _ => ⟨rfl, (fun _ h => by cases h), (fun _ h => by cases h)⟩
  | (e, c) :: rest, s, r, hI, ⟨hr1, hr2⟩, hok => by
    have hok' : ∀ x ∈ rest, be_HistOK x.1 x.2 := fun x hx => hok x (List.mem_cons_of_mem _ hx)
    cases hs : step hash s e c with
    | error err =>
      rw [lk_runLog_cons_err hs]
      exact ow_first_withdrawal hash tok I hIwait hIstep hIcov rest s e.round (hIwait s r _ hI hr1)
        hr2 hok'
    | ok q =>
      obtain ⟨s', o⟩ := q
      rw [lk_runLog_cons_ok hs]
      obtain ⟨hcov, hdep⟩ := hIcov s r hI
      have hown := lk_step_owner hs
      have hlp := pl_step_lpTok hs
      by_cases hc : c = .claimPayment
      · subst hc
        have hw : ow_isWithdrawal (s, e, Call.claimPayment, o) = true := rfl
        have hS := cr_static_covered hcov
        have hst := LP.Props.C06.claimPayment_gate hash s e _ hs
        have hd : AllDone s := ⟨(claim_stage_selected hst).1, (claim_stage_selected hst).2.1⟩
        have hcov' := (be_family_all hash).call hcov hr1 (hok _ (List.mem_cons_self ..)) hs
        have hg := step_flags_gain4 hs
        have hd' : AllDone s' := ⟨hg.2.2.1 hd.1, hg.2.2.2 hd.2⟩
        have hdep' : tok = .esdt s'.lpTok → s'.deposited = true := by
          rw [hlp]; exact fun h => deposited_mono hs (hdep h)
        have hafter := ow_after_empty hash tok rest s' e.round hcov' hd'
          (ow_due_zero_after hS hs tok) hdep' hr2 hok'
        rw [hown] at hafter
        have hp : cr_paid tok s.owner o.xfers = ow_due s tok :=
          (ow_claimPayment_exact hS.tokNe hS.feeNe hs).2.2.1 tok
        rw [List.find?_cons_of_pos (by simp [hw]), List.filter_cons_of_pos (by simp [hw])]
        refine ⟨?_, ?_, ?_⟩
        · show (if ow_isWithdrawal (s, e, Call.claimPayment, o) = true then
              cr_paid tok s.owner o.xfers else 0) + ow_withdrawn tok s.owner (lk_runLog hash s' rest) = _
          rw [if_pos hw, hp, ow_withdrawn_zero tok s.owner _ hafter]
          rfl
        · intro x hx
          cases hx
          exact ⟨r, hI⟩
        · intro x hx
          have hx' : x ∈ (lk_runLog hash s' rest).filter ow_isWithdrawal := hx
          rw [List.mem_filter] at hx'
          exact hafter x hx'.1 hx'.2
      · have hw : ¬ (ow_isWithdrawal (s, e, c, o) = true) := fun h =>
          hc ((ow_isWithdrawal_iff s e c o).mp h)
        obtain ⟨k1, k2, k3⟩ := ow_first_withdrawal hash tok I hIwait hIstep hIcov rest s' e.round
          (hIstep s r e c s' o hI hr1 (hok _ (List.mem_cons_self ..)) hc hs) hr2 hok'
        rw [hown] at k1 k3
        rw [List.find?_cons_of_neg (by simpa using hw), List.filter_cons_of_neg (by simpa using hw)]
        refine ⟨?_, k2, k3⟩
        show (if ow_isWithdrawal (s, e, c, o) = true then cr_paid tok s.owner o.xfers else 0)
          + ow_withdrawn tok s.owner (lk_runLog hash s' rest) = _
        rw [if_neg hw, Nat.zero_add, k1]

/-! ## 5. the owner as a participant -/

/-- **one accepted transaction other than `claimPayment`, payment token, ANY address** (the owner
    included; generalises `cr_step_pay`): `a` receives exactly `cr_owedPay s e c a` -/
theorem ow_step_pay_any {hash : List Nat → List Nat} {s s' : State} {e : Env} {c : Call} {o : Out}
    (hne : s.payTok ≠ .esdt s.lpTok) (a : Nat) (hc : c ≠ .claimPayment)
    (hs : step hash s e c = .ok (s', o)) :
    cr_paid s.payTok a o.xfers = cr_owedPay s e c a := by
  cases c with
  | claim =>
    rw [step_claim_ok_iff] at hs
    obtain ⟨_, _, t, hx, rfl, rfl⟩ := hs
    cases hv : s.variant.vested
    · rw [exec_claim_nonvested hash _ e hv] at hx
      have h1 := cr_claimBase_pay hx hne a
      obtain ⟨r, ⟨_, hcl, _⟩, _⟩ := (claimBase_ok_iff _ e t).mp hx
      have h1' : cr_paid s.payTok a t.o.xfers = 0 +
          (if e.caller = a then s.price * (s.confirmed a - winCount s a) +
             (if s.variant.hasNft = true ∧ nftCategory s a = 2 then cr_fee s s.payTok else 0)
           else 0) := h1
      rw [h1', Nat.zero_add]
      unfold cr_owedPay
      have hcl' : s.claimed e.caller = false := hcl
      by_cases hca : e.caller = a
      · subst hca; simp only [hcl', and_self, if_true]; rfl
      · simp [hca]
    · rw [exec_claim_vested hash _ e hv] at hx
      have h1 := cr_claimVested_pay hx hne a
      have h1' : cr_paid s.payTok a t.o.xfers = 0 +
          (if e.caller = a ∧ s.claimed a = false
           then s.price * (s.confirmed a - winCount s a) else 0) := h1
      rw [h1', Nat.zero_add]
      unfold cr_owedPay
      have hn : s.variant.hasNft = false := (rc_vested_flags hv).1
      simp only [hn, Bool.false_eq_true, false_and, if_false, Nat.add_zero]
      rfl
  | claimPayment => exact absurd rfl hc
  | blacklist l =>
    obtain ⟨m, t, _, _, _, hx, rfl, rfl⟩ := step_ok_inv hs
    have h1 := cr_exec_blacklist_paid hx s.payTok a
    have h1' : cr_paid s.payTok a t.o.xfers = 0 +
        (if a ∈ l then (if s.payTok = s.payTok then s.price * s.confirmed a else 0) +
          (if s.variant.hasNft = true ∧ a ∈ s.payers then cr_fee s s.payTok else 0) else 0) := h1
    rw [h1', Nat.zero_add]
    simp [cr_owedPay]
  | refundUsers l =>
    obtain ⟨m, t, _, _, _, hx, rfl, rfl⟩ := step_ok_inv hs
    have h1 := cr_exec_refundUsers_paid hx s.payTok a
    have h1' : cr_paid s.payTok a t.o.xfers = 0 +
        (if a ∈ l ∧ s.payTok = s.payTok then s.price * s.confirmed a else 0) := h1
    rw [h1', Nat.zero_add]
    simp [cr_owedPay]
  | _ => rw [(step_quiet hs rfl).1]; rfl

/-- what the `claimPayment` calls of a log send to `a` in the payment token of their pre-state -/
def ow_withdrawnPay (a : Nat) : List (State × Env × Call × Out) → Nat
  | [] => 0
  | x :: rest =>
    (if ow_isWithdrawal x = true then cr_paid x.1.payTok a x.2.2.2.xfers else 0)
      + ow_withdrawnPay a rest

/-- **payment-token receipts of ANY address over ANY history** (any start state with
    `payTok ≠ lpTok`): the total is what the `claimPayment` calls sent plus the sum of `cr_owedPay`
    (refunds of claims and blacklistings) — for the owner both terms can be non-zero -/
theorem ow_totalPay_split (hash : List Nat → List Nat) (a : Nat) :
    ∀ (hist : List (Env × Call)) (s : State), s.payTok ≠ .esdt s.lpTok →
      cr_totalPay a (lk_runLog hash s hist)
        = ow_withdrawnPay a (lk_runLog hash s hist) + cr_totalOwed a (lk_runLog hash s hist)
  | [], _, _ => rfl
  | (e, c) :: rest, s, hne => by
    cases hx : step hash s e c with
    | error err =>
      rw [lk_runLog_cons_err hx]
      exact ow_totalPay_split hash a rest s hne
    | ok q =>
      obtain ⟨s', o⟩ := q
      rw [lk_runLog_cons_ok hx]
      have ih := ow_totalPay_split hash a rest s' (pl_step_tokNe hx hne)
      show cr_paid s.payTok a o.xfers + cr_totalPay a (lk_runLog hash s' rest)
        = ((if ow_isWithdrawal (s, e, c, o) = true then cr_paid s.payTok a o.xfers else 0)
            + ow_withdrawnPay a (lk_runLog hash s' rest))
          + (cr_owedPay s e c a + cr_totalOwed a (lk_runLog hash s' rest))
      rw [ih]
      by_cases hc : c = .claimPayment
      · subst hc
        have hw : ow_isWithdrawal (s, e, Call.claimPayment, o) = true := rfl
        rw [if_pos hw]
        show _ = _ + (0 + _)
        omega
      · have hw : ¬ (ow_isWithdrawal (s, e, c, o) = true) := fun h =>
          hc ((ow_isWithdrawal_iff s e c o).mp h)
        rw [if_neg hw, ow_step_pay_any hne a hc hx]
        omega

/-- from a covered state whose ticket selection is complete the payment token never changes, so
    `ow_withdrawnPay` is `ow_withdrawn` at the payment token of the starting state -/
theorem ow_withdrawnPay_eq (hash : List Nat → List Nat) (a : Nat) :
    ∀ (hist : List (Env × Call)) (s : State) (r : Nat), be_Covered hash s r →
      s.flags.selected = true → LP.Props.C17.RoundsFrom r hist → (∀ x ∈ hist, be_HistOK x.1 x.2) →
      ow_withdrawnPay a (lk_runLog hash s hist) = ow_withdrawn s.payTok a (lk_runLog hash s hist) ∧
      cr_totalPay a (lk_runLog hash s hist) = cr_total s.payTok a (lk_runLog hash s hist)
  | [], _, _, _, _, _, _ => ⟨rfl, rfl⟩
  | (e, c) :: rest, s, r, hcov, hsl, ⟨hr1, hr2⟩, hok => by
    have hok' : ∀ x ∈ rest, be_HistOK x.1 x.2 := fun x hx => hok x (List.mem_cons_of_mem _ hx)
    cases hs : step hash s e c with
    | error err =>
      rw [lk_runLog_cons_err hs]
      exact ow_withdrawnPay_eq hash a rest s e.round ((be_family_all hash).wait hcov hr1) hsl hr2 hok'
    | ok q =>
      obtain ⟨s', o⟩ := q
      rw [lk_runLog_cons_ok hs]
      obtain ⟨hf, hv, hsel⟩ := ow_covered_sel hcov hsl
      have hsel' : s.cfg.sel ≤ e.round := Nat.le_trans hsel hr1
      have hcov' := (be_family_all hash).call hcov hr1 (hok (e, c) (List.mem_cons_self ..)) hs
      have hg := step_flags_gain4 hs
      have hpay : s'.payTok = s.payTok := by
        by_cases hc : ∃ tok p, c = .setTicketPrice tok p
        · obtain ⟨tok, p, rfl⟩ := hc
          exact absurd (Props.C06.terms_only_in_addTickets hash s e _ _ (Or.inl ⟨tok, p, rfl⟩) hs)
            (be_stage_late hv hsel').1
        · exact (price_frame hs (fun tok p hh => hc ⟨tok, p, hh⟩)).2
      obtain ⟨ih1, ih2⟩ := ow_withdrawnPay_eq hash a rest s' e.round hcov' (hg.2.2.1 hsl) hr2 hok'
      rw [hpay] at ih1 ih2
      constructor
      · show (if ow_isWithdrawal (s, e, c, o) = true then cr_paid s.payTok a o.xfers else 0)
          + ow_withdrawnPay a (lk_runLog hash s' rest) = _
        rw [ih1]; rfl
      · show cr_paid s.payTok a o.xfers + cr_totalPay a (lk_runLog hash s' rest) = _
        rw [ih2]; rfl

/-! ## 6. guarV1: `g1_Later` along `run` -/

/-- a history run from a state that is `g1_Later` than `(s0, r0)` leads to such a state
    (the guarV1 counterpart of `vv_Later_run`) -/
theorem ow_g1_later_run (hash : List Nat → List Nat) (s0 : State) (r0 : Nat) :
    ∀ (hist : LP.Props.C17.Hist) (s : State) (r : Nat) (e : Env) (c : Call),
      g1_Later hash s0 r0 s r → LP.Props.C17.RoundsFrom r (hist ++ [(e, c)]) →
      (∀ p ∈ hist, EnvOK p.1 ∧ v1_CallOK p.2) →
      ∃ r2, r2 ≤ e.round ∧ g1_Later hash s0 r0 (run hash s hist) r2
  | [], s, r, e, c, hl, hr, _ => ⟨r, hr.1, hl⟩
  | (e1, c1) :: rest, s, r, e, c, hl, hr, hok => by
    obtain ⟨hr1, hr2⟩ := hr
    have hok1 := hok (e1, c1) (List.mem_cons_self ..)
    have hokr : ∀ p ∈ rest, EnvOK p.1 ∧ v1_CallOK p.2 := fun p hp => hok p (List.mem_cons_of_mem _ hp)
    cases hst : step hash s e1 c1 with
    | error err =>
      rw [lk_run_cons_err hst]
      exact ow_g1_later_run hash s0 r0 rest s e1.round e c (.wait s r e1.round hl hr1) hr2 hokr
    | ok q =>
      obtain ⟨s', o⟩ := q
      rw [lk_run_cons_ok hst]
      exact ow_g1_later_run hash s0 r0 rest s' e1.round e c
        (.call s r e1 c1 s' o hl hr1 hok1.1 hok1.2 hst) hr2 hokr

end LP

#print axioms LP.ow_claimPayment_exact
#print axioms LP.ow_post_frame
#print axioms LP.ow_post_pay
#print axioms LP.ow_due_kept
#print axioms LP.ow_after_empty
#print axioms LP.ow_first_withdrawal
#print axioms LP.ow_totalPay_split
#print axioms LP.ow_withdrawnPay_eq
