import LP.Proofs.ZeroAlloc3
import LP.Props.C01reachV1
/-
  LP.Proofs.ZeroAllocV1 — zero-size allocations in the v1 guaranteed family (`migration`,
  `lockedGuar`), part 1: the endpoints of the phases AFTER the first `filter` call on the state
  with the empty ranges / zero-size batches erased (`z_w s (z_eraseR s.range) …`, all guarantee
  fields kept):

    * `distribute` commutes with the erasure (`zv_distribute`): the top-up of a holder whose range
      is EMPTY marks nothing and hands the whole guarantee to the leftover, exactly as for a
      holder WITHOUT range (`zv_processGuaranteed`);
    * a `claim` by an address with an empty range only sets its flag and drops the stale range
      (`zv_claim_stutter`).
-/
namespace LP
open LP.FY

/-! ### distribute -/

/-- the top-up of an empty range = the top-up of no range: everything becomes leftover -/
theorem zv_processGuaranteed (st : Nat → Bool) (f : Nat → Option Range) (u g : Nat) :
    processGuaranteed st (z_eraseR f u) g = processGuaranteed st (f u) g := by
  cases hf : f u with
  | none => rw [z_eraseR_of_none hf]
  | some r =>
    by_cases hne : r.first ≤ r.last
    · rw [z_eraseR_of_ne hf hne]
    · rw [z_eraseR_of_empty hf hne]
      have hl : rangeLen r = 0 := by unfold rangeLen; omega
      unfold processGuaranteed
      simp only [hl, countWinning]
      by_cases hg : g > 0
      · simp [hg, topUp]
      · simp [hg]

theorem zv_guarBody (s : State) (B : Nat → Option Batch) (K C : Nat → Bool) :
    guarBody (z_w s (z_eraseR s.range) B K C) = guarBody s := by
  funext x
  unfold guarBody
  have key : ∀ (u g : Nat) (st : Nat → Bool),
      processGuaranteed st ((z_w s (z_eraseR s.range) B K C).range u) g
        = processGuaranteed st (s.range u) g := fun u g st => zv_processGuaranteed st s.range u g
  simp only [key]
  rfl

def zv_wl (x : LSt) (R : Nat → Option Range) (B : Nat → Option Batch) (K C : Nat → Bool) : LSt :=
  { x with tx := z_wt x.tx R B K C }

section
variable {R : Nat → Option Range} {B : Nat → Option Batch} {K C : Nat → Bool}

theorem zv_leftoverBody (hash : List Nat → List Nat) (v2 : Bool) (nrOrig last : Nat) (x : LSt) :
    leftoverBody hash v2 nrOrig last (zv_wl x R B K C)
      = mapR (fst1 (zv_wl · R B K C)) (leftoverBody hash v2 nrOrig last x) := by
  unfold leftoverBody
  simp only [zv_wl]
  by_cases h : nrOrig + x.additional ≥ last
  · simp only [h, if_true, setp, z_draw]
    repeat' ite_both
    all_goals rfl
  · simp only [h, if_false, setp, z_draw]
    repeat' ite_both
    all_goals rfl

end

theorem zv_guaranteedSubstep (hash : List Nat → List Nat) (t : Tx) (g : GuarOp)
    (B : Nat → Option Batch) (K C : Nat → Bool) :
    guaranteedSubstep hash (z_wt t (z_eraseR t.s.range) B K C) g
      = mapR (fst1 (z_wt · (z_eraseR t.s.range) B K C)) (guaranteedSubstep hash t g) := by
  unfold guaranteedSubstep
  simp only [mapR_bind]
  show (runWhile (guarBody (z_w t.s (z_eraseR t.s.range) B K C)) _ _ _ >>= _) = _
  rw [zv_guarBody]
  refine bind_congr_fun ?_
  intro ⟨x, b1, st⟩
  cases st with
  | outOfFuel => rfl
  | interrupted => rfl
  | completed =>
    simp only [mapR_bind]
    refine bind_eq_bind_of_mapR (fst1 (zv_wl · (z_eraseR t.s.range) B K C)) ?_ ?_
    · rhs_exact runWhile_commutes (zv_wl · (z_eraseR t.s.range) B K C) _
        (zv_leftoverBody hash _ _ _) _ _ _
    · intro ⟨y, b2, st2⟩
      cases st2 <;> rfl

theorem zv_freshRng_s (t : Tx) : t.freshRng.2.s = t.s := by
  unfold Tx.freshRng
  show ((match t.c.seeds with | [] => _ | sd :: rest => _) : Rng × Tx).2.s = _
  cases t.c.seeds <;> rfl

/-- **`distribute` commutes with the erasure of the empty ranges** (v1 family) -/
theorem zv_distribute (hash : List Nat → List Nat) (t : Tx) (e : Env)
    (B : Nat → Option Batch) (K C : Nat → Bool) (hv2 : t.s.variant.isV2 = false) :
    distribute hash (z_wt t (z_eraseR t.s.range) B K C) e
      = mapR (z_wt · (z_eraseR t.s.range) B K C) (distribute hash t e) := by
  unfold distribute
  have hv2' : (z_wt t (z_eraseR t.s.range) B K C).s.variant.isV2 = false := hv2
  simp only [hv2, hv2', Bool.false_eq_true, if_false, pure_bind, mapR_bind]
  show (requireStage t.s e .winnerSelection _ >>= fun _ => _) = _
  refine bind_congr_fun ?_; intro _
  show (req t.s.flags.selected _ >>= fun _ => _) = _
  refine bind_congr_fun ?_; intro _
  show (req (!t.s.flags.additional) _ >>= fun _ => _) = _
  refine bind_congr_fun ?_; intro _
  have hop' : (z_wt t (z_eraseR t.s.range) B K C).s.op = t.s.op := rfl
  cases hop : t.s.op with
  | none =>
    simp only [hop', hop, z_freshRng, mapR_bind]
    refine bind_eq_bind_of_mapR (fst1 (z_wt · (z_eraseR t.s.range) B K C)) ?_ ?_
    · have := zv_guaranteedSubstep hash t.freshRng.2 { rng := t.freshRng.1 } B K C
      rw [zv_freshRng_s] at this
      exact this
    · intro ⟨t2, g2, st⟩
      cases st with
      | completed =>
        simp only [fst1_mk]
        ite_both <;> rfl
      | _ => rfl
  | additional d =>
    cases d with
    | guar g =>
      simp only [hop', hop, mapR_bind]
      refine bind_eq_bind_of_mapR (fst1 (z_wt · (z_eraseR t.s.range) B K C)) ?_ ?_
      · exact zv_guaranteedSubstep hash t g B K C
      · intro ⟨t2, g2, st⟩
        cases st with
        | completed =>
          simp only [fst1_mk]
          ite_both <;> rfl
        | _ => rfl
    | nft r => simp only [hop', hop] <;> rfl
  | _ => simp only [hop', hop] <;> rfl

end LP
