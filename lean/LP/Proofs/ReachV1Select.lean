import LP.Proofs.ReachV1Filter
/-
  LP.Proofs.ReachV1Select — preservation of `v1_WF` by `selectWinners` (interrupted or completed,
  fresh or saved loop state, scripted draws or not).  The lottery is the common one
  (`flags.additional = false` plays no role in it); at its completion the state enters phase E
  (`v1_PhE`): the position/flag invariant of the leftover loop holds at offset 1 with no
  additional winner, the whole reserve is still to be handed out.
-/
namespace LP
open LP.FY

/-- gates of an accepted `selectWinners` call -/
theorem v1_select_gate {hash : List Nat → List Nat} {s s' : State} {e : Env} {o : Out}
    (hs : step hash s e .select = .ok (s', o)) :
    s.stage e = .winnerSelection ∧ s.flags.filtered = true ∧ s.flags.selected = false := by
  obtain ⟨t, hx, rfl⟩ := rb_step_np (by intro m hm; simp [endpointMeta] at hm; rw [← hm]) hs
  simp only [exec] at hx
  obtain ⟨hstage, hfil, hnsel, _⟩ := rb_selectWinners_cases hx
  exact ⟨hstage, hfil, hnsel⟩

/-- an accepted `selectWinners` call from phase C (`rb_select_cases` with the phase as a
    hypothesis): the two possible outcomes with the lottery invariant of the final loop state -/
theorem v1_select_cases {T : Nat} {hash : List Nat → List Nat} {s s' : State} {e : Env} {o : Out}
    (hC : PhC T s.core) (hs : step hash s e .select = .ok (s', o)) :
    ∃ x : SelSt,
      (s' = selInt s x ∧ 1 ≤ x.pos ∧ x.pos ≤ s.nrWinning ∧
        ∃ arr, R s.lastTicketId x.pos x.status x.posToId arr) ∨
      (s' = selDone s x ∧ ∃ arr, R s.lastTicketId (s.nrWinning + 1) x.status x.posToId arr) := by
  obtain ⟨t, hx, rfl⟩ := rb_step_np (by intro m hm; simp [endpointMeta] at hm; rw [← hm]) hs
  simp only [exec] at hx
  obtain ⟨hstage, hfil, hnsel, rng, pos, t0, hop, x, b, st, hrun, hfin⟩ := rb_selectWinners_cases hx
  simp only [rbTx_s] at hstage hfil hnsel hop hrun hfin
  refine ⟨x, ?_⟩
  have hnl : s.nrWinning ≤ s.lastTicketId := by
    have : s.nrWinning = min T s.lastTicketId := hC.nrw
    omega
  have hstart : 1 ≤ pos ∧ (s.nrWinning ≠ 0 → pos ≤ s.nrWinning) ∧
      (s.nrWinning = 0 → pos = 1) ∧ ∃ arr, R s.lastTicketId pos s.status s.posToId arr := by
    rcases hC.sel with ⟨hop0, hs0, hp0⟩ | ⟨rng1, pos1, arr, hop1, h1, h2, hR⟩
    · have hop0' : s.op = .none := hop0
      rcases hop with ⟨_, rfl⟩ | hop
      · refine ⟨Nat.le_refl 1, fun hne => by omega, fun _ => rfl, List.range' 1 s.lastTicketId, ?_⟩
        have hs0' : s.status = fun _ => false := hs0
        have hp0' : s.posToId = fun _ => 0 := hp0
        rw [hs0', hp0']
        exact R_init _
      · rw [hop0'] at hop; cases hop
    · have hop1' : s.op = .select rng1 pos1 := hop1
      rcases hop with ⟨hop, _⟩ | hop
      · rw [hop1'] at hop; cases hop
      · rw [hop1'] at hop
        injection hop with e1 e2
        subst e1 e2
        have h2' : pos1 ≤ s.nrWinning := h2
        exact ⟨h1, fun _ => h2', fun h0 => by omega, arr, hR⟩
  obtain ⟨hs1, hs2, hs3, arr0, hR0⟩ := hstart
  by_cases hnr : s.nrWinning = 0
  · have hbody : selectBody hash s.nrWinning s.lastTicketId ⟨s.status, s.posToId, rng, pos, t0⟩
        = .ok (⟨s.status, s.posToId, rng, pos, t0⟩, false) := by
      rw [selectBody_eq, if_pos hnr]
    rw [runWhile_stop hbody] at hrun
    simp only [Except.ok.injEq, Prod.mk.injEq] at hrun
    obtain ⟨rfl, _, rfl⟩ := hrun
    rcases hfin with ⟨hh, _⟩ | ⟨_, hs'⟩
    · cases hh
    · have hpos1 := hs3 hnr
      subst hpos1
      exact Or.inr ⟨hs', arr0, by rw [hnr]; exact hR0⟩
  · have hP0 : SelP s.nrWinning s.lastTicketId ⟨s.status, s.posToId, rng, pos, t0⟩ :=
      ⟨hs1, hs2 hnr, arr0, hR0⟩
    obtain ⟨hint, hcomp⟩ := rb_runWhile_inv (SelP s.nrWinning s.lastTicketId)
      (selectBody hash s.nrWinning s.lastTicketId)
      (fun y y' hb hp => rb_selectBody_SelP hnr hnl hb hp) _ _ _ _ _ _ hrun hP0
    rcases hfin with ⟨hst, hs'⟩ | ⟨hst, hs'⟩
    · obtain ⟨p1, p2, arr, hR⟩ := hint hst
      exact Or.inl ⟨hs', p1, p2, arr, hR⟩
    · obtain ⟨y, hPy, hby⟩ := hcomp hst
      exact Or.inr ⟨hs', rb_selectBody_final hnr hnl hby hPy⟩

theorem v1_select {T0 : Nat} {hash : List Nat → List Nat} {s s' : State} {e : Env} {o : Out}
    {r : Nat} (h : v1_WF T0 s r) (_hr : r ≤ e.round)
    (hs : step hash s e .select = .ok (s', o)) : v1_WF T0 s' e.round := by
  obtain ⟨hstage, hfil, hnsel⟩ := v1_select_gate hs
  obtain ⟨hadd, htg, hC, hgw⟩ := v1_phase_C h.phase hfil hnsel
  have hadd' : s.flags.additional = false := hadd
  obtain ⟨x, hcase⟩ := v1_select_cases hC hs
  obtain ⟨hc1, hc2⟩ := rb_stage_winnerSelection hstage
  rcases hcase with ⟨rfl, p1, p2, arr, hR⟩ | ⟨rfl, arr, hR⟩
  · refine ⟨h.var, h.pricePos, h.tokNe, h.static, h.balOther, ?_, ?_, h.lp, ?_⟩
    · intro hlt; exfalso; have : e.round < s.cfg.conf := hlt; omega
    · intro _; exact ⟨hc1, hc2⟩
    · left
      exact ⟨hadd, htg, Or.inr (Or.inl ⟨⟨hC.started, hC.filtered, hC.notSelected, hC.nrw, hC.alloc,
        Or.inr ⟨x.rng, x.pos, arr, rfl, p1, p2, hR⟩⟩, hgw⟩)⟩
  · have hnl : s.nrWinning ≤ s.lastTicketId := by
      have : s.nrWinning = min (T0 - s.totalGuaranteed) s.lastTicketId := hC.nrw
      omega
    have hcount : countTrue x.status s.lastTicketId = s.nrWinning := hR.count hnl
    have hinv := LInv_init (additional := 0) hR (fun _ ht => ht) hR.flagsIn (by rw [hcount]; rfl)
      default 0 default
    refine ⟨h.var, h.pricePos, h.tokNe, h.static, h.balOther, ?_, ?_, ?_, ?_⟩
    · intro hlt; exfalso; have : e.round < s.cfg.conf := hlt; omega
    · intro _; exact ⟨hc1, hc2⟩
    · intro hd
      have e1 : v1_owed (selDone s x) = v1_owed s := rfl
      rw [e1]; exact h.lp hd
    · left
      refine ⟨hadd, htg, Or.inr (Or.inr ⟨hC.started, hC.filtered, rfl, hC.nrw, rfl, hC.alloc,
        fun _ => hgw, 0, 1, 0, Or.inl ⟨rfl, rfl, rfl, rfl⟩, hinv.pinv, hcount, ?_, ?_⟩)⟩
      · have := hgw.total
        show 0 + 0 + gSum false s.uts s.whitelist = s.totalGuaranteed
        have h2 : s.totalGuaranteed = gSum false s.uts s.whitelist := this
        omega
      · intro u st hu hpos
        exact Or.inl (hgw.mem_of_pos u st hu hpos)

end LP
