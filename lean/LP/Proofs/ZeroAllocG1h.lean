import LP.Proofs.ZeroAllocG1g
/-
  LP.Proofs.ZeroAllocG1h — zero-size allocations for `Variant.guarV1`, part 8: simulation of
  `blacklist`, `unblacklist`, `filter`, `distribute`, `claim`; the simulation theorem `zg_sim`.
-/
namespace LP
open LP.FY

/-- before the winner selection stage the filter has not started (on the erased state) -/
theorem zg_notStarted_of_stageLt {T0 : Nat} {s z : State} {r : Nat} {e : Env} (hwf : g1_WF T0 z r)
    (hr : r ≤ e.round) (hcfg : z.cfg = s.cfg) (hstage : stageLt s e .winnerSelection = true) :
    z.flags.started = false := by
  cases hst : s.stage e with
  | addTickets =>
    exact g1_notStarted_of_lt hwf hr (Or.inl (by rw [hcfg]; exact rb_stage_addTickets hst))
  | confirm =>
    exact g1_notStarted_of_lt hwf hr (Or.inr (by rw [hcfg]; exact (rb_stage_confirm hst).2))
  | winnerSelection => simp [stageLt, hst, Stage.toNat] at hstage
  | claim => simp [stageLt, hst, Stage.toNat] at hstage

/-- `blacklist l`, matched by `blacklist (l without the addresses whose range is empty)` -/
theorem zg_sim_blacklist {hash : List Nat → List Nat} {a0 : InitArgs} {s z : State} {r : Nat}
    {e : Env} {l : List Nat} {s' : State} {o : Out}
    (hz : g1_ReachA hash a0 z r) (hsim : ZGSim s z) (hA : s.flags.started = false → zg_A s z)
    (hr : r ≤ e.round) (hok : EnvOK e) (hs : step hash s e (.blacklist l) = .ok (s', o)) :
    ∃ z', g1_ReachA hash a0 z' e.round ∧ ZGSim s' z' ∧ (s'.flags.started = false → zg_A s' z') ∧
      step hash z e (.blacklist (l.filter (fun a => (z_eraseR s.range a).isSome))) = .ok (z', o) := by
  have hwf := g1_reach_WF hz
  have htk := z_step_tk hs (by simp) (by simp) (by simp) (by simp) (by simp)
  have hfb := z_filtered_back hs
  have hcl := (LP.Props.C09.step_claimed_exact hash s e _ s' o hs).1 (by simp)
  obtain ⟨_, _, _, heff1, _, _, heff2, heff3, _⟩ := LP.Props.C10.blacklist_effect hash s e l s' o hs
  obtain ⟨m, t, hm, hpay, hown, hx, rfl, rfl⟩ := step_ok_inv hs
  obtain ⟨hcfg, hfl, hvz, hoz, hcf, _, _, _, hwl, _⟩ := hsim.fields
  have hx0 := hx
  simp only [exec, bind_ok_iff] at hx0
  obtain ⟨t1, h1, _⟩ := hx0
  unfold addUsersToBlacklist at h1
  simp only [bind_ok_iff, req_ok_iff, exists_const] at h1
  obtain ⟨_, _, hstage, _⟩ := h1
  have hns : z.flags.started = false := zg_notStarted_of_stageLt hwf hr hcfg hstage
  have hA0 := hA (by rw [← hfl]; exact hns)
  obtain ⟨q1, q2, q3, q4, _⟩ := zg_phaseA_facts hwf hns
  have hvar : (tx0 s e).s.variant = .guarV1 := by
    show s.variant = .guarV1
    rw [← hvz]; exact hwf.var
  obtain ⟨K', U', k1, k2, k3, k4, k5, k6⟩ :=
    zg_exec_blacklist z.batch z.blacklist z.claimed z.uts hvar hx (fun a ha => hsim.bl a ha)
      (by
        intro a ha
        show z.blacklist a = s.blacklist a
        exact hA0.blx a (by rw [hsim.range]; exact ha))
      (by
        intro a _ hnone
        show s.confirmed a = 0
        rw [← hcf]; exact q4 a (by rw [hsim.range]; exact hnone))
      hA0.urel
      (by
        intro u _ hnone hm
        have hm' : u ∈ z.whitelist := by rw [hwl]; exact hm
        have := q3 u hm'
        rw [hsim.range] at this
        have hnone' : z_eraseR s.range u = none := hnone
        rw [hnone'] at this; cases this)
  have htx : tx0 z e = zg_wt (tx0 s e) ⟨z_eraseR (tx0 s e).s.range, z.batch, z.blacklist, z.claimed, z.uts⟩ := by
    conv => lhs; rw [hsim.eq]
    rfl
  have hmz : endpointMeta z.variant
      (.blacklist (l.filter (fun a => (z_eraseR s.range a).isSome))) = some m := by
    rw [← hm, hvz]; rfl
  have hstep := z_step_intro hmz hpay (by rw [hoz]; exact hown) (by rw [htx]; exact k1)
  have hrg : t.s.range = s.range := tk_range htk
  refine ⟨_, .call z r e (.blacklist _) _ _ hz hr hok trivial hstep,
    ⟨rfl, ?_, ?_, k2, ?_, ?_, zg_done_keep hs (by simp) hsim.done⟩, ?_, hstep⟩
  · show z_eraseR (tx0 s e).s.range = z_eraseR t.s.range
    rw [hrg]; rfl
  · intro hf
    show z.batch = z_eraseB t.s.batch
    rw [tk_batch htk]; exact hsim.batch (hfb hf)
  · intro a ha
    show t.s.claimed a = true
    rw [hcl]; exact hsim.cl a ha
  · exact k4.weak
  · intro _
    refine ⟨?_, ?_, ?_, ?_, ?_⟩
    · intro i b hi hb'
      rw [tk_last htk] at hi
      rw [tk_batch htk] at hb'
      exact hA0.hd i b hi hb'
    · intro a rg hra hlt
      rw [hrg] at hra
      rcases k6 a with h0 | h0
      · have h0' : t.s.uts a = s.uts a := h0
        rw [h0']; exact hA0.emp a rg hra hlt
      · have h0' : (z_eraseR s.range a).isSome = true := h0
        rw [z_eraseR_of_empty hra (by omega)] at h0'; cases h0'
    · rw [hrg]; exact k4
    · intro a ha
      rw [hrg]
      by_cases hal : a ∈ l
      · exact (heff1 a hal).1
      · rw [(heff2 a hal).2] at ha; exact hA0.blr a ha
    · intro a ha
      exact k3 a ha

/-- `unblacklist l`, matched by `unblacklist (l without the addresses whose range is empty)` -/
theorem zg_sim_unblacklist {hash : List Nat → List Nat} {a0 : InitArgs} {s z : State} {r : Nat}
    {e : Env} {l : List Nat} {s' : State} {o : Out}
    (hz : g1_ReachA hash a0 z r) (hsim : ZGSim s z) (hA : s.flags.started = false → zg_A s z)
    (hr : r ≤ e.round) (hok : EnvOK e) (hs : step hash s e (.unblacklist l) = .ok (s', o)) :
    ∃ z', g1_ReachA hash a0 z' e.round ∧ ZGSim s' z' ∧ (s'.flags.started = false → zg_A s' z') ∧
      step hash z e (.unblacklist (l.filter (fun a => (z_eraseR s.range a).isSome))) = .ok (z', o) := by
  have hwf := g1_reach_WF hz
  have htk := z_step_tk hs (by simp) (by simp) (by simp) (by simp) (by simp)
  have hfb := z_filtered_back hs
  have hblk := LP.Props.C10frame.blacklist_after_unblacklist hash s s' e l o hs
  obtain ⟨m, t, hm, hpay, hown, hx, rfl, rfl⟩ := step_ok_inv hs
  obtain ⟨hcfg, hfl, hvz, hoz, hcf, _, _, _, hwl, _⟩ := hsim.fields
  have hx0 := hx
  simp only [exec, bind_ok_iff] at hx0
  obtain ⟨s1, h1, _⟩ := hx0
  unfold removeUsersFromBlacklist at h1
  simp only [bind_ok_iff, req_ok_iff, exists_const] at h1
  obtain ⟨_, _, hstage, _⟩ := h1
  have hns : z.flags.started = false := zg_notStarted_of_stageLt hwf hr hcfg hstage
  have hA0 := hA (by rw [← hfl]; exact hns)
  obtain ⟨q1, q2, q3, q4, _⟩ := zg_phaseA_facts hwf hns
  have hvar : (tx0 s e).s.variant = .guarV1 := by
    show s.variant = .guarV1
    rw [← hvz]; exact hwf.var
  obtain ⟨K', U', k1, k2, k3, k4, k5, k6, k7, k8, k9, k10⟩ :=
    zg_exec_unblacklist z.batch z.blacklist z.claimed z.uts hvar hx (fun a ha => hsim.bl a ha)
      (by
        intro a ha
        show z.blacklist a = s.blacklist a
        exact hA0.blx a (by rw [hsim.range]; exact ha))
      (by
        intro a ha
        show (z_eraseR s.range a).isSome = true
        rw [← hsim.range]; exact q2 a ha)
      hA0.urel hA0.emp
  have htx : tx0 z e = zg_wt (tx0 s e) ⟨z_eraseR (tx0 s e).s.range, z.batch, z.blacklist, z.claimed, z.uts⟩ := by
    conv => lhs; rw [hsim.eq]
    rfl
  have hmz : endpointMeta z.variant
      (.unblacklist (l.filter (fun a => (z_eraseR s.range a).isSome))) = some m := by
    rw [← hm, hvz]; rfl
  have hstep := z_step_intro hmz hpay (by rw [hoz]; exact hown) (by rw [htx]; exact k1)
  have hrg : t.s.range = s.range := k7
  refine ⟨_, .call z r e (.unblacklist _) _ _ hz hr hok trivial hstep,
    ⟨rfl, ?_, ?_, k2, ?_, ?_, zg_done_keep hs (by simp) hsim.done⟩, ?_, hstep⟩
  · show z_eraseR (tx0 s e).s.range = z_eraseR t.s.range
    rw [hrg]; rfl
  · intro hf
    show z.batch = z_eraseB t.s.batch
    rw [tk_batch htk]; exact hsim.batch (hfb hf)
  · intro a ha
    show t.s.claimed a = true
    rw [k9]; exact hsim.cl a ha
  · exact k4.weak
  · intro _
    refine ⟨?_, k5, ?_, ?_, ?_⟩
    · intro i b hi hb'
      rw [tk_last htk] at hi
      rw [tk_batch htk] at hb'
      exact hA0.hd i b hi hb'
    · rw [hrg]; exact k4
    · intro a ha
      rw [hrg]
      rw [hblk] at ha
      by_cases hal : a ∈ l
      · simp [hal] at ha
      · simp only [hal, if_false] at ha; exact hA0.blr a ha
    · intro a ha
      exact k3 a ha

/-- `filter` (interrupted or completed, fresh or resumed): the same call on the erased state -/
theorem zg_sim_filter {hash : List Nat → List Nat} {a0 : InitArgs} {s z : State} {r : Nat}
    {e : Env} {s' : State} {o : Out}
    (hz : g1_ReachA hash a0 z r) (hsim : ZGSim s z)
    (hr : r ≤ e.round) (hok : EnvOK e) (hs : step hash s e .filter = .ok (s', o)) :
    ∃ z', g1_ReachA hash a0 z' e.round ∧ ZGSim s' z' ∧ (s'.flags.started = false → zg_A s' z') ∧
      step hash z e .filter = .ok (z', o) := by
  have hwf := g1_reach_WF hz
  obtain ⟨m, t, hm, hpay, hown, hx, rfl, rfl⟩ := step_ok_inv hs
  obtain ⟨hcfg, hfl, hvz, hoz, hcf, hop, hlast, _⟩ := hsim.fields
  simp only [exec] at hx
  obtain ⟨hpre, _⟩ := filterTickets_inv _ _ _ hx
  have hnf : s.flags.filtered = false := hpre.notFiltered
  obtain ⟨_, _, L0, hp, hab⟩ := v1_phase_notFiltered hwf.phase
    (by show z.flags.filtered = false; rw [hfl]; exact hnf)
  have hzb : z.batch = z_eraseB s.batch := hsim.batch hnf
  have hokA : AllocOK (tx0 s e).s.confirmed L0 := by
    have : AllocOK z.confirmed L0 := hp.ok
    rw [hcf] at this; exact this
  have hmid : ∀ x, filStOf (tx0 s e).s = some x →
      Mid (tx0 s e).s.confirmed (tx0 s e).s.lastTicketId L0 (z_ef x) := by
    intro x hxs
    have hxs' : filStOf s = some x := hxs
    show Mid s.confirmed s.lastTicketId L0 (z_ef x)
    rw [← hcf, ← hlast]
    rcases hab with ⟨ha, _⟩ | ⟨hb, _⟩
    · have hop' : s.op = .none := by rw [← hop]; exact ha.op
      simp only [filStOf, hop', Option.some.injEq] at hxs'
      subst hxs'
      have hl : z.lastTicketId = ticketTotal L0 := ha.last
      rw [hl]
      have := rb_Mid_start (conf := z.confirmed) ha.chain hp.outR
      have e1 : z.core.range = z_eraseR s.range := hsim.range
      have e2 : z.core.batch = z_eraseB s.batch := hzb
      rw [e1, e2] at this
      exact this
    · obtain ⟨f0, rm, hop0, hm0⟩ := hb.mid
      have hop' : s.op = .filter f0 rm := by rw [← hop]; exact hop0
      simp only [filStOf, hop', Option.some.injEq] at hxs'
      subst hxs'
      have e1 : z.core.range = z_eraseR s.range := hsim.range
      have e2 : z.core.batch = z_eraseB s.batch := hzb
      rw [e1, e2] at hm0
      exact hm0
  obtain ⟨k1, k2, k3, k4⟩ := zg_filterTickets z.blacklist z.claimed z.uts hx hokA hmid
  have htx : tx0 z e = zg_wt (tx0 s e) ⟨z_eraseR (tx0 s e).s.range, z_eraseB (tx0 s e).s.batch,
      z.blacklist, z.claimed, z.uts⟩ := by
    have := hsim.eq
    rw [hzb] at this
    conv => lhs; rw [this]
    rfl
  have hmz : endpointMeta z.variant .filter = some m := by rw [← hm, hvz]
  have hstep := z_step_intro (hash := hash) hmz hpay (by rw [hoz]; exact hown)
    (by rw [htx]; simp only [exec]; exact k1)
  have hreach : g1_ReachA hash a0 _ e.round := .call z r e .filter _ _ hz hr hok trivial hstep
  refine ⟨_, hreach, ⟨rfl, rfl, fun _ => rfl, ?_, ?_, ?_, zg_done_keep hs (by simp) hsim.done⟩, ?_, hstep⟩
  · intro a ha
    show t.s.blacklist a = true
    rw [k3]; exact hsim.bl a ha
  · intro a ha
    show t.s.claimed a = true
    rw [k4]; exact hsim.cl a ha
  · show zg_Uweak t.s.uts z.uts
    rw [k2]; exact hsim.uts
  · intro hst
    exfalso
    have hwf' := g1_reach_WF hreach
    obtain ⟨_, _, L1, hp1, hA1, _⟩ := v1_phase_notStarted hwf'.phase hst
    obtain ⟨_, _, _, _, hcase⟩ := LP.Events.filterTickets_out hx
    rcases hcase with ⟨_, _, hf, _⟩ | ⟨_, _, _, _, f1, r1, hop1⟩
    · have : t.s.flags.filtered = false := hp1.notFiltered
      rw [hf] at this; cases this
    · have : t.s.op = .none := hA1.op
      rw [hop1] at this; cases this

/-- `distribute` (interrupted or completed): the same call on the erased state -/
theorem zg_sim_distribute {hash : List Nat → List Nat} {a0 : InitArgs} {s z : State} {r : Nat}
    {e : Env} {s' : State} {o : Out}
    (hz : g1_ReachA hash a0 z r) (hsim : ZGSim s z)
    (hr : r ≤ e.round) (hok : EnvOK e) (hs : step hash s e .distribute = .ok (s', o)) :
    ∃ z', g1_ReachA hash a0 z' e.round ∧ ZGSim s' z' ∧ (s'.flags.started = false → zg_A s' z') ∧
      step hash z e .distribute = .ok (z', o) := by
  have hwf := g1_reach_WF hz
  have hs0 := hs
  have hfb := z_filtered_back hs
  obtain ⟨m, t, hm, hpay, hown, hx, rfl, rfl⟩ := step_ok_inv hs
  obtain ⟨hcfg, hfl, hvz, hoz, hcf, hop, hlast, _⟩ := hsim.fields
  have hvar : s.variant = .guarV1 := by rw [← hvz]; exact hwf.var
  obtain ⟨_, _, hv2, _⟩ := g1_flags hvar
  simp only [exec] at hx
  -- the five fields are not touched
  have hself := zg_distribute hash (tx0 s e) e (zg_of (tx0 s e).s) hv2 (fun _ => rfl)
  have hself' : distribute hash (tx0 s e) e = mapR (zg_wt · (zg_of (tx0 s e).s)) (distribute hash (tx0 s e) e) :=
    hself
  rw [hx] at hself'
  have hfr : t = zg_wt t (zg_of (tx0 s e).s) := by
    injection hself'
  have g1 : t.s.range = s.range := (congrArg (fun x => x.s.range) hfr).trans rfl
  have g2 : t.s.batch = s.batch := (congrArg (fun x => x.s.batch) hfr).trans rfl
  have g3 : t.s.blacklist = s.blacklist := (congrArg (fun x => x.s.blacklist) hfr).trans rfl
  have g4 : t.s.claimed = s.claimed := (congrArg (fun x => x.s.claimed) hfr).trans rfl
  have g5 : t.s.uts = s.uts := (congrArg (fun x => x.s.uts) hfr).trans rfl
  have hgb : ∀ x, guarBody (zg_w (tx0 s e).s (zg_of z)) x = guarBody (tx0 s e).s x :=
    zg_guarBody (tx0 s e).s (zg_of z) hv2 hsim.range hsim.uts
  have k1 := zg_distribute hash (tx0 s e) e (zg_of z) hv2 hgb
  rw [hx] at k1
  have htx : tx0 z e = zg_wt (tx0 s e) (zg_of z) := by
    conv => lhs; rw [hsim.rest]
    rfl
  have hmz : endpointMeta z.variant .distribute = some m := by rw [← hm, hvz]
  have hstep := z_step_intro (hash := hash) hmz hpay (by rw [hoz]; exact hown)
    (by rw [htx]; simp only [exec]; exact k1)
  have hreach : g1_ReachA hash a0 _ e.round := .call z r e .distribute _ _ hz hr hok trivial hstep
  refine ⟨_, hreach, ⟨rfl, ?_, ?_, ?_, ?_, ?_, zg_done_keep hs0 (by simp) hsim.done⟩, ?_, hstep⟩
  · show z.range = z_eraseR t.s.range
    rw [g1]; exact hsim.range
  · intro hf
    show z.batch = z_eraseB t.s.batch
    rw [g2]; exact hsim.batch (hfb hf)
  · intro a ha
    show t.s.blacklist a = true
    rw [g3]; exact hsim.bl a ha
  · intro a ha
    show t.s.claimed a = true
    rw [g4]; exact hsim.cl a ha
  · show zg_Uweak t.s.uts z.uts
    rw [g5]; exact hsim.uts
  · intro hst
    exfalso
    have hns : z.flags.started = false := by rw [hfl]; exact z_started_back hs0 hst
    obtain ⟨_, _, L1, hp1, _, _⟩ := v1_phase_notStarted hwf.phase hns
    have hsel : s.flags.selected = true :=
      (LP.Props.C06.additional_gate hash s e .distribute _ (Or.inl rfl) hs0).2.1
    have : z.flags.selected = false := hp1.notSelected
    rw [hfl, hsel] at this; cases this

end LP
