import LP.Proofs.ZeroAllocNG6
import LP.Proofs.ZeroAllocNG7
/-
  LP.Proofs.ZeroAllocNG — zero-size allocations in `Variant.nftGuar`: the reachable states without
  the restriction `v1_CallOK` (`ng_ReachZA`/`ng_ReachZ`: no premise on the calls at all;
  `ng_ReachGA`/`ng_ReachG`: zero-size entries allowed when they carry no migration guarantee,
  `zc_CallOK`) and the simulation theorem `zc_sim`: every `ng_ReachGA` state is `ZSimG`-related to
  an `ng_ReachA` state of the original development.
-/
namespace LP
open LP.FY

/-! ### reachable states -/

/-- states of `nftGuar` reachable from a deployment with arguments `a0` by ANY accepted calls (no
    restriction on the allocation entries at all) -/
inductive ng_ReachZA (hash : List Nat → List Nat) (a0 : InitArgs) : State → Nat → Prop
  | init (e : Env) (s : State) : init .nftGuar a0 e = .ok s → ng_ReachZA hash a0 s e.round
  | call (s : State) (r : Nat) (e : Env) (c : Call) (s' : State) (o : Out) :
      ng_ReachZA hash a0 s r → r ≤ e.round → EnvOK e →
      step hash s e c = .ok (s', o) → ng_ReachZA hash a0 s' e.round
  | wait (s : State) (r r' : Nat) : ng_ReachZA hash a0 s r → r ≤ r' → ng_ReachZA hash a0 s r'

/-- `ng_Reach` without the `v1_CallOK` premise -/
inductive ng_ReachZ (hash : List Nat → List Nat) : State → Nat → Prop
  | init (a : InitArgs) (e : Env) (s : State) : init .nftGuar a e = .ok s → ng_ReachZ hash s e.round
  | call (s : State) (r : Nat) (e : Env) (c : Call) (s' : State) (o : Out) :
      ng_ReachZ hash s r → r ≤ e.round → EnvOK e →
      step hash s e c = .ok (s', o) → ng_ReachZ hash s' e.round
  | wait (s : State) (r r' : Nat) : ng_ReachZ hash s r → r ≤ r' → ng_ReachZ hash s r'

/-- states reachable by calls whose zero-size allocation entries carry no migration guarantee
    (`zc_CallOK`: every entry has at least one ticket OR `migrated = false`) -/
inductive ng_ReachGA (hash : List Nat → List Nat) (a0 : InitArgs) : State → Nat → Prop
  | init (e : Env) (s : State) : init .nftGuar a0 e = .ok s → ng_ReachGA hash a0 s e.round
  | call (s : State) (r : Nat) (e : Env) (c : Call) (s' : State) (o : Out) :
      ng_ReachGA hash a0 s r → r ≤ e.round → EnvOK e → zc_CallOK c →
      step hash s e c = .ok (s', o) → ng_ReachGA hash a0 s' e.round
  | wait (s : State) (r r' : Nat) : ng_ReachGA hash a0 s r → r ≤ r' → ng_ReachGA hash a0 s r'

inductive ng_ReachG (hash : List Nat → List Nat) : State → Nat → Prop
  | init (a : InitArgs) (e : Env) (s : State) : init .nftGuar a e = .ok s → ng_ReachG hash s e.round
  | call (s : State) (r : Nat) (e : Env) (c : Call) (s' : State) (o : Out) :
      ng_ReachG hash s r → r ≤ e.round → EnvOK e → zc_CallOK c →
      step hash s e c = .ok (s', o) → ng_ReachG hash s' e.round
  | wait (s : State) (r r' : Nat) : ng_ReachG hash s r → r ≤ r' → ng_ReachG hash s r'

theorem ng_ReachZ_iff {hash : List Nat → List Nat} {s : State} {r : Nat} :
    ng_ReachZ hash s r ↔ ∃ a0, ng_ReachZA hash a0 s r := by
  constructor
  · intro h
    induction h with
    | init a e s h => exact ⟨a, .init e s h⟩
    | call s r e c s' o _ h1 h2 h3 ih =>
      obtain ⟨a0, ih⟩ := ih
      exact ⟨a0, .call s r e c s' o ih h1 h2 h3⟩
    | wait s r r' _ h1 ih =>
      obtain ⟨a0, ih⟩ := ih
      exact ⟨a0, .wait s r r' ih h1⟩
  · rintro ⟨a0, h⟩
    induction h with
    | init e s h => exact .init a0 e s h
    | call s r e c s' o _ h1 h2 h3 ih => exact .call s r e c s' o ih h1 h2 h3
    | wait s r r' _ h1 ih => exact .wait s r r' ih h1

theorem ng_ReachG_iff {hash : List Nat → List Nat} {s : State} {r : Nat} :
    ng_ReachG hash s r ↔ ∃ a0, ng_ReachGA hash a0 s r := by
  constructor
  · intro h
    induction h with
    | init a e s h => exact ⟨a, .init e s h⟩
    | call s r e c s' o _ h1 h2 h3 h4 ih =>
      obtain ⟨a0, ih⟩ := ih
      exact ⟨a0, .call s r e c s' o ih h1 h2 h3 h4⟩
    | wait s r r' _ h1 ih =>
      obtain ⟨a0, ih⟩ := ih
      exact ⟨a0, .wait s r r' ih h1⟩
  · rintro ⟨a0, h⟩
    induction h with
    | init e s h => exact .init a0 e s h
    | call s r e c s' o _ h1 h2 h3 h4 ih => exact .call s r e c s' o ih h1 h2 h3 h4
    | wait s r r' _ h1 ih => exact .wait s r r' ih h1

theorem zc_CallOK_of_v1 {c : Call} (h : v1_CallOK c) : zc_CallOK c := by
  cases c <;> first | trivial | exact fun q hq => Or.inl (h q hq)

/-- every state of the original development is an `ng_ReachGA` state -/
theorem ng_ReachA.toG {hash : List Nat → List Nat} {a0 : InitArgs} {s : State} {r : Nat}
    (h : ng_ReachA hash a0 s r) : ng_ReachGA hash a0 s r := by
  induction h with
  | init e s h => exact .init e s h
  | call s r e c s' o _ h1 h2 h3 h4 ih => exact .call s r e c s' o ih h1 h2 (zc_CallOK_of_v1 h3) h4
  | wait s r r' _ h1 ih => exact .wait s r r' ih h1

/-- every `ng_ReachGA` state is an `ng_ReachZA` state -/
theorem ng_ReachGA.toZ {hash : List Nat → List Nat} {a0 : InitArgs} {s : State} {r : Nat}
    (h : ng_ReachGA hash a0 s r) : ng_ReachZA hash a0 s r := by
  induction h with
  | init e s h => exact .init e s h
  | call s r e c s' o _ h1 h2 _ h4 ih => exact .call s r e c s' o ih h1 h2 h4
  | wait s r r' _ h1 ih => exact .wait s r r' ih h1

theorem ng_Reach.toG {hash : List Nat → List Nat} {s : State} {r : Nat}
    (h : ng_Reach hash s r) : ng_ReachG hash s r := by
  obtain ⟨a0, h⟩ := ng_Reach_iff.mp h
  exact ng_ReachG_iff.mpr ⟨a0, h.toG⟩

theorem ng_ReachG.toZ {hash : List Nat → List Nat} {s : State} {r : Nat}
    (h : ng_ReachG hash s r) : ng_ReachZ hash s r := by
  obtain ⟨a0, h⟩ := ng_ReachG_iff.mp h
  exact ng_ReachZ_iff.mpr ⟨a0, h.toZ⟩

/-! ### facts about the erased state read off its invariant -/

/-- before the filter starts an address without a range has nothing confirmed, no guarantee
    record, is not whitelisted and has not paid the NFT fee -/
theorem zc_phaseA_facts {T0 : Nat} {z : State} {r : Nat} (hwf : ng_WF T0 z r)
    (hns : z.flags.started = false) :
    z.flags.filtered = false ∧
    ∀ a, z.range a = none → z.confirmed a = 0 ∧ z.uts a = none ∧ a ∉ z.whitelist ∧ a ∉ z.payers := by
  obtain ⟨_, _, L0, hp, hA, hg⟩ := ng_phase_notStarted hwf.phase hns
  refine ⟨hp.notFiltered, fun a ha => ?_⟩
  have hc : z.confirmed a = 0 := by
    by_cases hin : a ∈ L0.map Prod.fst
    · obtain ⟨rr, hrr⟩ := rb_Chain_range_some hA.chain hin
      have hrr' : z.range a = some rr := hrr
      rw [ha] at hrr'; cases hrr'
    · exact hp.outC a hin
  have hu : z.uts a = none := by
    cases hq : z.uts a with
    | none => rfl
    | some st =>
      have := hg.gi.has_range a (by show (z.uts a).isSome = true; rw [hq]; rfl)
      have h2 : (z.range a).isSome = true := this
      rw [ha] at h2; cases h2
  refine ⟨hc, hu, ?_, ?_⟩
  · intro hm
    obtain ⟨st, h1, _⟩ := hg.gi.pos_of_mem a hm
    have h1' : z.uts a = some st := h1
    rw [hu] at h1'; cases h1'
  · intro hm
    have := hwf.side.conf a (Or.inl hm)
    have h2 : 0 < z.confirmed a := this
    omega

theorem zc_indep_CallOK {c : Call} (h : zc_indep c = true) : v1_CallOK c := by
  cases c <;> first | trivial | (simp [zc_indep] at h)

theorem zd_indep_eq (c : Call) : zd_indep c = zc_indep c := by
  cases c <;> rfl

theorem zc_UOK_congr {U : Nat → Option UTS} {s s' : State} (h : zc_UOK U s) (h1 : s'.uts = s.uts)
    (h2 : ∀ a, a ∈ s'.whitelist → a ∈ s.whitelist) : zc_UOK U s' := by
  intro a
  rw [h1]
  rcases h a with hl | ⟨u1, u2, u3⟩
  · exact Or.inl hl
  · exact Or.inr ⟨u1, fun hm => u2 (h2 a hm), u3⟩


/-! ### the simulation, endpoint by endpoint -/

/-- the endpoints that do not touch the five fields -/
theorem zc_sim_indep {hash : List Nat → List Nat} {a0 : InitArgs} {s z : State} {r : Nat}
    {e : Env} {c : Call} {s' : State} {o : Out} (hc : zc_indep c = true)
    (hz : ng_ReachA hash a0 z r) (hsim : ZSimG s z) (hd : s.flags.started = false → z_Hd s)
    (hr : r ≤ e.round) (hok : EnvOK e) (hs : step hash s e c = .ok (s', o)) :
    ∃ z', ng_ReachA hash a0 z' e.round ∧ ZSimG s' z' ∧ (s'.flags.started = false → z_Hd s') ∧
      step hash z e c = .ok (z', o) := by
  have hwf := ng_reach_WF hz
  have hvar : s.variant = z.variant := (congrArg State.variant hsim.rest).symm
  obtain ⟨f1, _⟩ := ng_flags (hvar ▸ hwf.var)
  obtain ⟨g1, g2, g3, g4, g5⟩ := zc_step_indep_frame hc f1 hs
  have g6 : s'.whitelist = s.whitelist :=
    zd_step_indep_whitelist (by rw [zd_indep_eq]; exact hc) f1 hs
  have hstep : step hash z e c = .ok (zc_w s' z.range z.batch z.blacklist z.claimed z.uts, o) := by
    have := zc_step_indep (R := z.range) (B := z.batch) (K := z.blacklist) (C := z.claimed)
      (U := z.uts) hc f1 hs
    rw [← hsim.rest] at this
    exact this
  refine ⟨_, .call z r e c _ o hz hr hok (zc_indep_CallOK hc) hstep, ⟨rfl, ?_, ?_, ?_, ?_, ?_⟩, ?_, hstep⟩
  · show z.range = z_eraseR s'.range
    rw [g1]; exact hsim.range
  · intro hf
    show z.batch = z_eraseB s'.batch
    rw [g2]; exact hsim.batch (z_filtered_back hs hf)
  · intro a ha; rw [g3]; exact hsim.bl a ha
  · intro a ha; rw [g4]; exact hsim.cl a ha
  · exact zc_UOK_congr hsim.uts g5 (fun a ha => by rw [← g6]; exact ha)
  · refine z_Hd_keep hs (z_step_tk hs ?_ ?_ ?_ ?_ ?_) hd <;>
      (first | (intro h; subst h; simp [zc_indep] at hc) | (intro l h; subst h; simp [zc_indep] at hc))

/-- `addTicketsV1 l`, matched by `addTicketsV1 (l without the zero-size entries)` -/
theorem zc_sim_add {hash : List Nat → List Nat} {a0 : InitArgs} {s z : State} {r : Nat}
    {e : Env} {l : List (Nat × Nat × Nat × Bool)} {s' : State} {o : Out}
    (hz : ng_ReachA hash a0 z r) (hsim : ZSimG s z) (hd : s.flags.started = false → z_Hd s)
    (hr : r ≤ e.round) (hok : EnvOK e) (hq : ∀ q ∈ l, 1 ≤ q.2.1 + q.2.2.1 ∨ q.2.2.2 = false)
    (hs : step hash s e (.addTicketsV1 l) = .ok (s', o)) :
    ∃ z', ng_ReachA hash a0 z' e.round ∧ ZSimG s' z' ∧ (s'.flags.started = false → z_Hd s') ∧
      step hash z e (.addTicketsV1 (l.filter (fun q => decide (1 ≤ q.2.1 + q.2.2.1)))) = .ok (z', o) := by
  have hwf := ng_reach_WF hz
  obtain ⟨m, t, hm, hpay, hown, hx, rfl, rfl⟩ := step_ok_inv hs
  have hx0 := hx
  simp only [exec, addTicketsV1, bind_ok_iff, requireStage, req_ok_iff, exists_const] at hx0
  obtain ⟨_, ⟨hst0, _⟩, _⟩ := hx0
  have hst : s.stage e = .addTickets := by simpa [tx0] using hst0
  have hlt : e.round < s.cfg.conf := rb_stage_addTickets hst
  obtain ⟨hcfg, hfl, hvz, hoz, _, _, _, hwl, _, _, hmc⟩ := hsim.fields
  have hns : z.flags.started = false := ng_notStarted_of_lt hwf hr (Or.inl (by rw [hcfg]; exact hlt))
  obtain ⟨hnfz, hfacts⟩ := zc_phaseA_facts hwf hns
  have hnf : s.flags.filtered = false := by rw [← hfl]; exact hnfz
  have hds : z_Hd (tx0 s e).s := hd (by rw [← hfl]; exact hns)
  have hmcs : 0 < (tx0 s e).s.minConfirmed := by
    show 0 < s.minConfirmed
    rw [← hmc]; exact hwf.static
  have hI : ∀ a, z_eraseR (tx0 s e).s.range a = none → z.uts a = none ∧ a ∉ (tx0 s e).s.whitelist := by
    intro a ha
    have h1 : z.range a = none := by rw [hsim.range]; exact ha
    obtain ⟨_, k2, k3, _⟩ := hfacts a h1
    exact ⟨k2, by show a ∉ s.whitelist; rw [← hwl]; exact k3⟩
  obtain ⟨U', k1, k2, k3, k4, k5, k6, k7⟩ :=
    zc_exec_addTicketsV1 z.blacklist z.claimed z.uts hx hds hmcs hq hI hsim.uts
  have hzeq : z = zc_w s (z_eraseR s.range) (z_eraseB s.batch) z.blacklist z.claimed z.uts := by
    have := hsim.eq
    rw [hsim.batch hnf] at this
    exact this
  have htx : tx0 z e = zc_wt (tx0 s e) (z_eraseR (tx0 s e).s.range) (z_eraseB (tx0 s e).s.batch)
      z.blacklist z.claimed z.uts := by
    conv => lhs; rw [hzeq]
    rfl
  have hmz : endpointMeta z.variant
      (.addTicketsV1 (l.filter (fun q => decide (1 ≤ q.2.1 + q.2.2.1)))) = some m := by
    rw [← hm, hvz]; rfl
  have hstep := z_step_intro hmz hpay (by rw [hoz]; exact hown) (by rw [htx]; exact k1)
  refine ⟨_, .call z r e _ _ _ hz hr hok ?_ hstep, ⟨rfl, rfl, fun _ => rfl, ?_, ?_, k7⟩, ?_, ?_⟩
  · intro q hq'
    exact of_decide_eq_true (List.mem_filter.mp hq').2
  · intro a ha
    show t.s.blacklist a = true
    rw [k3]; exact hsim.bl a ha
  · intro a ha
    show t.s.claimed a = true
    rw [k4]; exact hsim.cl a ha
  · intro _; exact k2
  · exact hstep

/-- `confirm n` (the caller's range is not empty, or it has none and `n = 0`) -/
theorem zc_sim_confirm {hash : List Nat → List Nat} {a0 : InitArgs} {s z : State} {r : Nat}
    {e : Env} {n : Nat} {s' : State} {o : Out}
    (hz : ng_ReachA hash a0 z r) (hsim : ZSimG s z) (hd : s.flags.started = false → z_Hd s)
    (hr : r ≤ e.round) (hok : EnvOK e) (hs : step hash s e (.confirm n) = .ok (s', o)) :
    ∃ z', ng_ReachA hash a0 z' e.round ∧ ZSimG s' z' ∧ (s'.flags.started = false → z_Hd s') ∧
      step hash z e (.confirm n) = .ok (z', o) := by
  have htk := z_step_tk hs (by simp) (by simp) (by simp) (by simp) (by simp)
  have hd' := z_Hd_keep hs htk hd
  have hfb := z_filtered_back hs
  obtain ⟨m, t, hm, hpay, hown, hx, rfl, rfl⟩ := step_ok_inv hs
  obtain ⟨_, _, hvz, hoz, _⟩ := hsim.fields
  obtain ⟨k1, k2, k3, k4, k5, k6, k7, k8, k9⟩ := zc_exec_confirm z.batch z.blacklist z.claimed z.uts hx
    (fun hk => hsim.bl _ hk)
  have htx : tx0 z e = zc_wt (tx0 s e) (z_eraseR (tx0 s e).s.range) z.batch z.blacklist z.claimed
      z.uts := by
    conv => lhs; rw [hsim.eq]
    rfl
  have hmz : endpointMeta z.variant (.confirm n) = some m := by rw [← hm, hvz]
  have hstep := z_step_intro hmz hpay (by rw [hoz]; exact hown) (by rw [htx]; exact k1)
  refine ⟨_, .call z r e (.confirm n) _ _ hz hr hok trivial hstep, ⟨rfl, ?_, ?_, ?_, ?_, ?_⟩, hd', hstep⟩
  · show z_eraseR (tx0 s e).s.range = z_eraseR t.s.range
    rw [k2]
  · intro hf
    show z.batch = z_eraseB t.s.batch
    rw [k3]; exact hsim.batch (hfb hf)
  · intro a ha
    show t.s.blacklist a = true
    rw [k4]; exact hsim.bl a ha
  · intro a ha
    show t.s.claimed a = true
    rw [k5]; exact hsim.cl a ha
  · exact zc_UOK_congr (s := s) hsim.uts k8 (fun a ha => by rw [k9] at ha; exact ha)


/-- `blacklist l`, matched by `blacklist (l without the addresses whose range is empty)` -/
theorem zc_sim_blacklist {hash : List Nat → List Nat} {a0 : InitArgs} {s z : State} {r : Nat}
    {e : Env} {l : List Nat} {s' : State} {o : Out}
    (hz : ng_ReachA hash a0 z r) (hsim : ZSimG s z) (hd : s.flags.started = false → z_Hd s)
    (hr : r ≤ e.round) (hok : EnvOK e) (hs : step hash s e (.blacklist l) = .ok (s', o)) :
    ∃ z', ng_ReachA hash a0 z' e.round ∧ ZSimG s' z' ∧ (s'.flags.started = false → z_Hd s') ∧
      step hash z e (.blacklist (l.filter (fun a => (z_eraseR s.range a).isSome))) = .ok (z', o) := by
  have hwf := ng_reach_WF hz
  have htk := z_step_tk hs (by simp) (by simp) (by simp) (by simp) (by simp)
  have hd' := z_Hd_keep hs htk hd
  have hfb := z_filtered_back hs
  obtain ⟨m, t, hm, hpay, hown, hx, rfl, rfl⟩ := step_ok_inv hs
  obtain ⟨hcfg, hfl, hvz, hoz, hcf, _, _, hwl, hpy, _, _⟩ := hsim.fields
  have hx0 := hx
  simp only [exec, bind_ok_iff] at hx0
  obtain ⟨t1, h1, _⟩ := hx0
  unfold addUsersToBlacklist at h1
  simp only [bind_ok_iff, req_ok_iff, exists_const] at h1
  obtain ⟨_, _, hstage, _⟩ := h1
  have hstage' : stageLt s e .winnerSelection = true := hstage
  have hns : z.flags.started = false := by
    cases hst : s.stage e with
    | addTickets =>
      exact ng_notStarted_of_lt hwf hr (Or.inl (by rw [hcfg]; exact rb_stage_addTickets hst))
    | confirm =>
      exact ng_notStarted_of_lt hwf hr (Or.inr (by rw [hcfg]; exact (rb_stage_confirm hst).2))
    | winnerSelection => simp [stageLt, hst, Stage.toNat] at hstage'
    | claim => simp [stageLt, hst, Stage.toNat] at hstage'
  obtain ⟨_, hfacts⟩ := zc_phaseA_facts hwf hns
  have hc : ∀ a ∈ l, z_eraseR (tx0 s e).s.range a = none →
      (tx0 s e).s.confirmed a = 0 ∧ a ∉ (tx0 s e).s.whitelist ∧ a ∉ (tx0 s e).s.payers := by
    intro a _ hnone
    have h1 : z.range a = none := by rw [hsim.range]; exact hnone
    obtain ⟨k1, _, k3, k4⟩ := hfacts a h1
    refine ⟨?_, ?_, ?_⟩
    · show s.confirmed a = 0; rw [← hcf]; exact k1
    · show a ∉ s.whitelist; rw [← hwl]; exact k3
    · show a ∉ s.payers; rw [← hpy]; exact k4
  have hvs : (tx0 s e).s.variant = .nftGuar := by
    show s.variant = _
    rw [← hvz]; exact hwf.var
  obtain ⟨K', U', k1, k2, k3, k4, k5, k6⟩ :=
    zc_exec_blacklist z.batch z.blacklist z.claimed z.uts hvs hx (fun a ha => hsim.bl a ha) hc hsim.uts
  have htx : tx0 z e = zc_wt (tx0 s e) (z_eraseR (tx0 s e).s.range) z.batch z.blacklist z.claimed
      z.uts := by
    conv => lhs; rw [hsim.eq]
    rfl
  have hmz : endpointMeta z.variant
      (.blacklist (l.filter (fun a => (z_eraseR s.range a).isSome))) = some m := by
    rw [← hm, hvz]; rfl
  have hstep := z_step_intro hmz hpay (by rw [hoz]; exact hown) (by rw [htx]; exact k1)
  refine ⟨_, .call z r e (.blacklist _) _ _ hz hr hok trivial hstep, ⟨rfl, ?_, ?_, k2, ?_, k3⟩, hd', hstep⟩
  · show z_eraseR (tx0 s e).s.range = z_eraseR t.s.range
    rw [k4]
  · intro hf
    show z.batch = z_eraseB t.s.batch
    rw [k5]; exact hsim.batch (hfb hf)
  · intro a ha
    show t.s.claimed a = true
    rw [k6]; exact hsim.cl a ha

/-- `filter` (interrupted or completed, fresh or resumed): the same call on the erased state -/
theorem zc_sim_filter {hash : List Nat → List Nat} {a0 : InitArgs} {s z : State} {r : Nat}
    {e : Env} {s' : State} {o : Out}
    (hz : ng_ReachA hash a0 z r) (hsim : ZSimG s z)
    (hr : r ≤ e.round) (hok : EnvOK e) (hs : step hash s e .filter = .ok (s', o)) :
    ∃ z', ng_ReachA hash a0 z' e.round ∧ ZSimG s' z' ∧ (s'.flags.started = false → z_Hd s') ∧
      step hash z e .filter = .ok (z', o) := by
  have hwf := ng_reach_WF hz
  have hcl := (LP.Props.C09.step_claimed_exact hash s e _ s' o hs).1 (by simp)
  have hbl := LP.Props.C10frame.blacklist_frame hash s s' e _ o hs (by simp) (by simp) (by simp)
  obtain ⟨m, t, hm, hpay, hown, hx, rfl, rfl⟩ := step_ok_inv hs
  obtain ⟨hcfg, hfl, hvz, hoz, hcf, hop, hlast, _⟩ := hsim.fields
  simp only [exec] at hx
  obtain ⟨hpre, _⟩ := filterTickets_inv _ _ _ hx
  obtain ⟨hfu, hfw⟩ := zc_filterTickets_fr hx
  have hnf : s.flags.filtered = false := hpre.notFiltered
  obtain ⟨_, _, L0, hp, hab⟩ := ng_phase_notFiltered hwf.phase
    (by show z.flags.filtered = false; rw [hfl]; exact hnf)
  have hzb : z.batch = z_eraseB s.batch := hsim.batch hnf
  have hokA : AllocOK (tx0 s e).s.confirmed L0 := by
    have : AllocOK z.confirmed L0 := hp.ok
    rw [hcf] at this; exact this
  have hmid : ∀ x, filStOf (tx0 s e).s = some x →
      Mid (tx0 s e).s.confirmed (tx0 s e).s.lastTicketId L0 (z_ef x) := by
    intro x hxs
    have hxs' : filStOf s = some x := hxs
    show Mid s.confirmed s.lastTicketId L0 (z_ef x)
    rw [← hcf, ← hlast]
    rcases hab with ⟨ha, _⟩ | ⟨hb, _⟩
    · have hop' : s.op = .none := by rw [← hop]; exact ha.op
      simp only [filStOf, hop', Option.some.injEq] at hxs'
      subst hxs'
      have hl : z.lastTicketId = ticketTotal L0 := ha.last
      rw [hl]
      have := rb_Mid_start (conf := z.confirmed) ha.chain hp.outR
      have e1 : (nf_core z).range = z_eraseR s.range := hsim.range
      have e2 : (nf_core z).batch = z_eraseB s.batch := hzb
      rw [e1, e2] at this
      exact this
    · obtain ⟨f0, rm, hop0, hm0⟩ := hb.mid
      have hop' : s.op = .filter f0 rm := by rw [← hop]; exact hop0
      simp only [filStOf, hop', Option.some.injEq] at hxs'
      subst hxs'
      have e1 : (nf_core z).range = z_eraseR s.range := hsim.range
      have e2 : (nf_core z).batch = z_eraseB s.batch := hzb
      rw [e1, e2] at hm0
      exact hm0
  have k1 := zc_filterTickets z.blacklist z.claimed z.uts hx hokA hmid
  have htx : tx0 z e = zc_wt (tx0 s e) (z_eraseR (tx0 s e).s.range) (z_eraseB (tx0 s e).s.batch)
      z.blacklist z.claimed z.uts := by
    have := hsim.eq
    rw [hzb] at this
    conv => lhs; rw [this]
    rfl
  have hmz : endpointMeta z.variant .filter = some m := by rw [← hm, hvz]
  have hstep := z_step_intro (hash := hash) hmz hpay (by rw [hoz]; exact hown)
    (by rw [htx]; simp only [exec]; exact k1)
  have hreach : ng_ReachA hash a0 _ e.round := .call z r e .filter _ _ hz hr hok trivial hstep
  refine ⟨_, hreach, ⟨rfl, rfl, fun _ => rfl, ?_, ?_, ?_⟩, ?_, hstep⟩
  · intro a ha
    show t.s.blacklist a = true
    rw [hbl]; exact hsim.bl a ha
  · intro a ha
    show t.s.claimed a = true
    rw [hcl]; exact hsim.cl a ha
  · exact zc_UOK_congr (s := s) hsim.uts hfu (fun a ha => by rw [hfw] at ha; exact ha)
  · intro hst
    exfalso
    have hwf' := ng_reach_WF hreach
    obtain ⟨_, _, L1, hp1, hA1, _⟩ := ng_phase_notStarted hwf'.phase hst
    obtain ⟨_, _, _, _, hcase⟩ := LP.Events.filterTickets_out hx
    rcases hcase with ⟨_, _, hf, _⟩ | ⟨_, _, _, _, f1, r1, hop1⟩
    · have : t.s.flags.filtered = false := hp1.notFiltered
      rw [hf] at this; cases this
    · have : t.s.op = .none := hA1.op
      rw [hop1] at this; cases this


open LP.Props.C09 in
/-- `claim`: by an address with a non-empty range it is matched by the same claim; by an address
    with an empty range it is matched by NO step (the erased state does not move): nothing is paid,
    the "not confirmed" SFT is handed out -/
theorem zc_sim_claim {hash : List Nat → List Nat} {a0 : InitArgs} {s z : State} {r : Nat}
    {e : Env} {s' : State} {o : Out}
    (hz : ng_ReachA hash a0 z r) (hsim : ZSimG s z)
    (hr : r ≤ e.round) (hok : EnvOK e) (hs : step hash s e .claim = .ok (s', o)) :
    ∃ z', ng_ReachA hash a0 z' e.round ∧ ZSimG s' z' ∧ (s'.flags.started = false → z_Hd s') ∧
      (step hash z e .claim = .ok (z', o) ∨
        (z' = z ∧ ∃ rg, s.range e.caller = some rg ∧ rg.last < rg.first ∧
          s' = zc_w s (upd s.range e.caller none) (upd s.batch rg.first none) s.blacklist
                (upd s.claimed e.caller true) s.uts ∧
          o.xfers = [] ∧ o.sfts = [(e.caller, 3)] ∧ o.locks = [])) := by
  have hwf := ng_reach_WF hz
  obtain ⟨hcfg, hfl, hvz, hoz, hcf, hop, hlast, hwl, hpy, hnw, _⟩ := hsim.fields
  have hvs : s.variant = .nftGuar := by rw [← hvz]; exact hwf.var
  obtain ⟨f1, f2, _, _, f5, _⟩ := ng_flags hvs
  have hs2 := hs
  rw [step_claim_ok_iff, exec_claim_nonvested hash _ e (by exact f1)] at hs2
  obtain ⟨he1, he2, t, hx, rfl, rfl⟩ := hs2
  obtain ⟨rg, ⟨hst, hncl, hrg, _⟩, _⟩ := (claimBase_ok_iff _ e t).mp hx
  have hst' : s.stage e = .claim := hst
  have hncl' : s.claimed e.caller = false := hncl
  have hrg' : s.range e.caller = some rg := hrg
  obtain ⟨hsel, hadd, _⟩ := v1_stage_claim hst'
  have hD : PhD (nf_core z) := ng_phase_D hwf.phase (by show z.flags.additional = true; rw [hfl]; exact hadd)
  have hfil : s.flags.filtered = true := by rw [← hfl]; exact hD.filtered
  have hsta : s.flags.started = true := by rw [← hfl]; exact hD.started
  by_cases hne : rg.first ≤ rg.last
  · -- a real participant
    have hR : z.range e.caller = some rg := by rw [hsim.range]; exact z_eraseR_of_ne hrg' hne
    have hC : z.claimed e.caller = (txc s e).s.claimed e.caller := by
      show z.claimed e.caller = s.claimed e.caller
      rw [hncl']
      cases hk : z.claimed e.caller with
      | false => rfl
      | true => rw [hsim.cl _ hk] at hncl'; cases hncl'
    have k1 := zc_claimBase (R := z.range) (B := z.batch) (K := z.blacklist) (C := z.claimed)
      (U := z.uts) (by exact f5) hx (by exact hrg') hR hC
    obtain ⟨e1, e2, e3, e4, e5, e6, _⟩ := zc_claimBase_fr (by exact f5) (by exact f2) hx (by exact hrg')
    have htx : txc z e = zc_wt (txc s e) z.range z.batch z.blacklist z.claimed z.uts := by
      conv => lhs; rw [hsim.rest]
      rfl
    have hstep : step hash z e .claim
        = .ok ((zc_wt t (upd z.range e.caller none) (upd z.batch rg.first none) z.blacklist
            (upd z.claimed e.caller true) z.uts).s, t.o) := by
      rw [step_claim_ok_iff]
      refine ⟨he1, he2, _, ?_, rfl, rfl⟩
      rw [exec_claim_nonvested hash _ e (by show z.variant.vested = false; rw [hvz]; exact f1), htx]
      exact k1
    refine ⟨_, .call z r e .claim _ _ hz hr hok trivial hstep, ⟨rfl, ?_, ?_, ?_, ?_, ?_⟩, ?_, Or.inl hstep⟩
    · show upd z.range e.caller none = z_eraseR t.s.range
      rw [e1]
      show _ = z_eraseR (upd s.range e.caller none)
      rw [z_eraseR_upd_none, hsim.range]
    · intro hf
      rw [e4] at hf
      have hf' : s.flags.filtered = false := hf
      rw [hfil] at hf'; cases hf'
    · intro a ha
      show t.s.blacklist a = true
      rw [e3]; exact hsim.bl a ha
    · intro a ha
      have ha' : upd z.claimed e.caller true a = true := ha
      show t.s.claimed a = true
      rw [e2]
      show upd s.claimed e.caller true a = true
      by_cases hxa : a = e.caller
      · subst hxa; simp
      · rw [upd_other _ _ _ _ hxa] at ha' ⊢; exact hsim.cl a ha'
    · exact zc_UOK_congr (s := s) hsim.uts e5 (fun a ha => by rw [e6] at ha; exact ha)
    · intro hf
      rw [e4] at hf
      have hf' : s.flags.started = false := hf
      rw [hsta] at hf'; cases hf'
  · -- an address with an empty range: the erased state does not move
    have hzn : z.range e.caller = none := by rw [hsim.range]; exact z_eraseR_of_empty hrg' hne
    have hc0z : z.confirmed e.caller = 0 := hD.rngNone e.caller hzn
    have hc0 : s.confirmed e.caller = 0 := by rw [← hcf]; exact hc0z
    have hnw' : e.caller ∉ s.nftWinners := by
      intro hm
      have := hwf.side.conf e.caller (Or.inr (by show e.caller ∈ z.nftWinners; rw [hnw]; exact hm))
      have h2 : 0 < z.confirmed e.caller := this
      omega
    have hnp' : e.caller ∉ s.payers := by
      intro hm
      have := hwf.side.conf e.caller (Or.inl (by show e.caller ∈ z.payers; rw [hpy]; exact hm))
      have h2 : 0 < z.confirmed e.caller := this
      omega
    obtain ⟨hst2, ho1, ho2, ho3⟩ := zc_claim_stutter hvs hs hrg' (by omega) hc0 hnw' hnp'
    refine ⟨z, .wait z r e.round hz hr, ⟨?_, ?_, ?_, ?_, ?_, ?_⟩, ?_,
      Or.inr ⟨rfl, rg, hrg', by omega, hst2, ho1, ho2, ho3⟩⟩
    · rw [hst2, zc_w_w]; exact hsim.rest
    · rw [hst2]
      show z.range = z_eraseR (upd s.range e.caller none)
      rw [z_eraseR_upd_none, ← hsim.range, z_upd_none_self _ _ hzn]
    · intro hf
      rw [hst2] at hf
      have hf' : s.flags.filtered = false := hf
      rw [hfil] at hf'; cases hf'
    · intro a ha
      rw [hst2]
      exact hsim.bl a ha
    · intro a ha
      rw [hst2]
      show upd s.claimed e.caller true a = true
      by_cases hxa : a = e.caller
      · subst hxa; simp
      · rw [upd_other _ _ _ _ hxa]; exact hsim.cl a ha
    · rw [hst2]
      exact zc_UOK_congr (s := s) hsim.uts rfl (fun a ha => ha)
    · intro hf
      rw [hst2] at hf
      have hf' : s.flags.started = false := hf
      rw [hsta] at hf'; cases hf'

/-- `secondary` (interrupted in any of its three loops, or completed): the same call on the
    erased state -/
theorem zc_sim_secondary {hash : List Nat → List Nat} {a0 : InitArgs} {s z : State} {r : Nat}
    {e : Env} {s' : State} {o : Out}
    (hz : ng_ReachA hash a0 z r) (hsim : ZSimG s z) (hd : s.flags.started = false → z_Hd s)
    (hr : r ≤ e.round) (hok : EnvOK e) (hs : step hash s e .secondary = .ok (s', o)) :
    ∃ z', ng_ReachA hash a0 z' e.round ∧ ZSimG s' z' ∧ (s'.flags.started = false → z_Hd s') ∧
      step hash z e .secondary = .ok (z', o) := by
  have htk := z_step_tk hs (by simp) (by simp) (by simp) (by simp) (by simp)
  have hd' := z_Hd_keep hs htk hd
  have hfb := z_filtered_back hs
  have hcl := (LP.Props.C09.step_claimed_exact hash s e _ s' o hs).1 (by simp)
  have hbl := LP.Props.C10frame.blacklist_frame hash s s' e _ o hs (by simp) (by simp) (by simp)
  obtain ⟨m, t, hm, hpay, hown, hx, rfl, rfl⟩ := step_ok_inv hs
  obtain ⟨_, _, hvz, hoz, _⟩ := hsim.fields
  simp only [exec] at hx
  obtain ⟨hfu, hfw⟩ := zc_secondary_fr hx
  have hUw : ∀ u ∈ (tx0 s e).s.whitelist, z.uts u = (tx0 s e).s.uts u := by
    intro u hu
    rcases hsim.uts u with hl | ⟨_, u2, _⟩
    · exact hl
    · exact absurd hu u2
  have k1 := zc_secondary hash (tx0 s e) e z.batch z.blacklist z.claimed z.uts hUw
  rw [hx] at k1
  have htx : tx0 z e = zc_wt (tx0 s e) (z_eraseR (tx0 s e).s.range) z.batch z.blacklist z.claimed
      z.uts := by
    conv => lhs; rw [hsim.eq]
    rfl
  have hmz : endpointMeta z.variant .secondary = some m := by rw [← hm, hvz]
  have hstep := z_step_intro (hash := hash) hmz hpay (by rw [hoz]; exact hown)
    (by rw [htx]; simp only [exec]; exact k1)
  refine ⟨_, .call z r e .secondary _ _ hz hr hok trivial hstep, ⟨rfl, ?_, ?_, ?_, ?_, ?_⟩, hd', hstep⟩
  · show z_eraseR (tx0 s e).s.range = z_eraseR t.s.range
    rw [tk_range htk]; rfl
  · intro hf
    show z.batch = z_eraseB t.s.batch
    rw [tk_batch htk]; exact hsim.batch (hfb hf)
  · intro a ha
    show t.s.blacklist a = true
    rw [hbl]; exact hsim.bl a ha
  · intro a ha
    show t.s.claimed a = true
    rw [hcl]; exact hsim.cl a ha
  · exact zc_UOK_congr (s := s) hsim.uts hfu hfw

/-! ### the simulation theorem -/

/-- one accepted call from a state related to an `ng_ReachA` state leads to a state related to an
    `ng_ReachA` state -/
theorem zc_sim_step {hash : List Nat → List Nat} {a0 : InitArgs} {s z : State} {r : Nat}
    {e : Env} {c : Call} {s' : State} {o : Out}
    (hz : ng_ReachA hash a0 z r) (hsim : ZSimG s z) (hd : s.flags.started = false → z_Hd s)
    (hr : r ≤ e.round) (hok : EnvOK e) (hc : zc_CallOK c) (hs : step hash s e c = .ok (s', o)) :
    ∃ z', ng_ReachA hash a0 z' e.round ∧ ZSimG s' z' ∧ (s'.flags.started = false → z_Hd s') := by
  have hwf := ng_reach_WF hz
  have hvs : s.variant = .nftGuar := by rw [← hsim.fields.2.2.1]; exact hwf.var
  have hex := ng_exposed hvs hs
  cases c with
  | addTicketsV1 l =>
    obtain ⟨z', h1, h2, h3, _⟩ := zc_sim_add hz hsim hd hr hok hc hs; exact ⟨z', h1, h2, h3⟩
  | confirm n =>
    obtain ⟨z', h1, h2, h3, _⟩ := zc_sim_confirm hz hsim hd hr hok hs; exact ⟨z', h1, h2, h3⟩
  | filter =>
    obtain ⟨z', h1, h2, h3, _⟩ := zc_sim_filter hz hsim hr hok hs; exact ⟨z', h1, h2, h3⟩
  | claim =>
    obtain ⟨z', h1, h2, h3, _⟩ := zc_sim_claim hz hsim hr hok hs; exact ⟨z', h1, h2, h3⟩
  | blacklist l =>
    obtain ⟨z', h1, h2, h3, _⟩ := zc_sim_blacklist hz hsim hd hr hok hs; exact ⟨z', h1, h2, h3⟩
  | secondary =>
    obtain ⟨z', h1, h2, h3, _⟩ := zc_sim_secondary hz hsim hd hr hok hs; exact ⟨z', h1, h2, h3⟩
  | deposit | setTicketPrice _ _ | setPerTicket _ | setConfStart _ | setSelStart _ | setClaimStart _
  | setSupport _ | pause | unpause | select | claimPayment | confirmNft | setNftCost _ | sftSetup =>
    obtain ⟨z', h1, h2, h3, _⟩ := zc_sim_indep rfl hz hsim hd hr hok hs; exact ⟨z', h1, h2, h3⟩
  | _ => exact absurd hex id

/-- **SIMULATION**: every state of `nftGuar` reachable with zero-size allocation entries that
    carry no migration guarantee (`zc_CallOK`) is `ZSimG`-related to a state reachable in the
    original development (same deployment arguments, same round): erase the empty ranges, the
    zero-size batches and the empty guarantee records. -/
theorem zc_sim {hash : List Nat → List Nat} {a0 : InitArgs} {s : State} {r : Nat}
    (h : ng_ReachGA hash a0 s r) :
    ∃ z, ng_ReachA hash a0 z r ∧ ZSimG s z ∧ (s.flags.started = false → z_Hd s) := by
  induction h with
  | init e s h =>
    obtain ⟨_, _, _, _, _, rfl⟩ := ng_init_inv h
    refine ⟨_, .init e _ h, ⟨rfl, rfl, fun _ => rfl, fun _ h => h, fun _ h => h, fun _ => Or.inl rfl⟩, ?_⟩
    intro _ i b _ hb
    cases hb
  | call s r e c s' o _ h1 h2 h3 h4 ih =>
    obtain ⟨z, hz, hsim, hd⟩ := ih
    exact zc_sim_step hz hsim hd h1 h2 h3 h4
  | wait s r r' _ h1 ih =>
    obtain ⟨z, hz, hsim, hd⟩ := ih
    exact ⟨z, .wait z r r' hz h1, hsim, hd⟩

theorem zc_sim_reach {hash : List Nat → List Nat} {s : State} {r : Nat} (h : ng_ReachG hash s r) :
    ∃ z, ng_Reach hash z r ∧ ZSimG s z := by
  obtain ⟨a0, h⟩ := ng_ReachG_iff.mp h
  obtain ⟨z, hz, hsim, _⟩ := zc_sim h
  exact ⟨z, ng_Reach_iff.mpr ⟨a0, hz⟩, hsim⟩

end LP

#print axioms LP.zc_sim
#print axioms LP.zc_sim_reach
