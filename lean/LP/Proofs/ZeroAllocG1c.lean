import LP.Proofs.ZeroAllocG1b
/-
  LP.Proofs.ZeroAllocG1c — zero-size allocations for `Variant.guarV1`, part 3: `blacklist` and
  `unblacklist` (with the v1 guaranteed-ticket hooks) on the erased state.
-/
namespace LP

section
variable {w : zg_O}

theorem zg_refund (t : Tx) (e : Env) (a n : Nat) :
    (zg_wt t w).refund e a n = mapR (zg_wt · w) (t.refund e a n) := by
  unfold Tx.refund
  by_cases hn : n = 0
  · rw [if_pos hn, if_pos hn]; rfl
  · rw [if_neg hn, if_neg hn]
    simp only [mapR_bind]
    refine bind_eq_bind_of_mapR (zg_wt · w) ?_ ?_
    · rhs_exact zg_send _ _ _
    · intro t1; rfl

end

/-! ### blacklist -/

/-- **the blacklisting loop**: on the erased state the addresses with an empty range are skipped -/
theorem zg_blacklistMany (e : Env) (R0 : Nat → Option Range) (B : Nat → Option Batch) (C : Nat → Bool)
    (U : Nat → Option UTS) :
    ∀ (l : List Nat) {t t' : Tx} (K : Nat → Bool), blacklistMany e l t = .ok t' → t.s.range = R0 →
      (∀ a, K a = true → t.s.blacklist a = true) →
      (∀ a, (z_eraseR R0 a).isSome = true → K a = t.s.blacklist a) →
      (∀ a ∈ l, z_eraseR R0 a = none → t.s.confirmed a = 0) →
      ∃ K', blacklistMany e (l.filter (fun a => (z_eraseR R0 a).isSome)) (zg_wt t ⟨z_eraseR R0, B, K, C, U⟩)
          = .ok (zg_wt t' ⟨z_eraseR R0, B, K', C, U⟩) ∧
        (∀ a, K' a = true → t'.s.blacklist a = true) ∧
        (∀ a, (z_eraseR R0 a).isSome = true → K' a = t'.s.blacklist a)
  | [], t, t', K, h, _, hK, hX, _ => by
    simp only [blacklistMany, Except.ok.injEq] at h
    subst h
    exact ⟨K, rfl, hK, hX⟩
  | a :: rest, t, t', K, h, hR, hK, hX, hc => by
    unfold blacklistMany at h
    by_cases hb : t.s.blacklist a = true
    · rw [if_pos hb] at h; cases h
    rw [if_neg hb] at h
    by_cases hn : (t.s.range a).isNone = true
    · rw [if_pos hn] at h; cases h
    rw [if_neg hn] at h
    simp only at h
    cases hz : z_eraseR R0 a with
    | none =>
      have hc0 : t.s.confirmed a = 0 := hc a (List.mem_cons_self ..) hz
      have hnot : ¬ (t.s.confirmed a > 0) := by omega
      simp only [hnot, if_false] at h
      obtain ⟨K', k1, k2, k3⟩ := zg_blacklistMany e R0 B C U rest K h hR
        (fun b hb' => by
          show upd t.s.blacklist a true b = true
          by_cases hba : b = a
          · subst hba; simp
          · rw [upd_other _ _ _ _ hba]; exact hK b hb')
        (fun b hb' => by
          show K b = upd t.s.blacklist a true b
          have hba : b ≠ a := by
            intro hba; subst hba; rw [hz] at hb'; cases hb'
          rw [upd_other _ _ _ _ hba]; exact hX b hb')
        (fun b hb' hz' => hc b (List.mem_cons_of_mem _ hb') hz')
      refine ⟨K', ?_, k2, k3⟩
      rw [List.filter_cons_of_neg (by simp [hz])]
      exact k1
    | some r =>
      rw [List.filter_cons_of_pos (by simp [hz])]
      have hKa : K a = false := by
        cases hk : K a with
        | false => rfl
        | true => exact absurd (hK a hk) hb
      cases hx : (if t.s.confirmed a > 0 then t.refund e a (t.s.confirmed a) else .ok t) with
      | error err => rw [hx] at h; cases h
      | ok t1 =>
        rw [hx] at h
        simp only at h
        have hfr : t1.s.range = t.s.range ∧ t1.s.confirmed = t.s.confirmed ∧
            t1.s.blacklist = t.s.blacklist := by
          split at hx
          · exact z_refund_frame hx
          · cases hx; exact ⟨rfl, rfl, rfl⟩
        have hxz : (if (zg_wt t ⟨z_eraseR R0, B, K, C, U⟩).s.confirmed a > 0
              then (zg_wt t ⟨z_eraseR R0, B, K, C, U⟩).refund e a ((zg_wt t ⟨z_eraseR R0, B, K, C, U⟩).s.confirmed a)
              else .ok (zg_wt t ⟨z_eraseR R0, B, K, C, U⟩)) = .ok (zg_wt t1 ⟨z_eraseR R0, B, K, C, U⟩) := by
          show (if t.s.confirmed a > 0 then (zg_wt t ⟨z_eraseR R0, B, K, C, U⟩).refund e a (t.s.confirmed a)
                else .ok (zg_wt t ⟨z_eraseR R0, B, K, C, U⟩)) = _
          split at hx
          · rename_i hpos
            rw [if_pos hpos, zg_refund, hx]; rfl
          · rename_i hpos
            rw [if_neg hpos]; cases hx; rfl
        have hblk : (if t.s.confirmed a > 0 then
              ({ t1.s with confirmed := upd t1.s.confirmed a 0 } : State) else t1.s).blacklist
              = t.s.blacklist := by split <;> exact hfr.2.2
        obtain ⟨K', k1, k2, k3⟩ := zg_blacklistMany e R0 B C U rest (upd K a true) h
          (by
            show (if t.s.confirmed a > 0 then _ else t1.s).range = R0
            split
            · exact hfr.1.trans hR
            · exact hfr.1.trans hR)
          (fun b hb' => by
            show upd (if t.s.confirmed a > 0 then _ else t1.s).blacklist a true b = true
            by_cases hba : b = a
            · subst hba; simp
            · rw [upd_other _ _ _ _ hba] at hb' ⊢
              rw [hblk]; exact hK b hb')
          (fun b hb' => by
            show upd K a true b = upd (if t.s.confirmed a > 0 then _ else t1.s).blacklist a true b
            by_cases hba : b = a
            · subst hba; simp
            · rw [upd_other _ _ _ _ hba, upd_other _ _ _ _ hba, hblk]; exact hX b hb')
          (fun b hb' hz' => by
            have h0 := hc b (List.mem_cons_of_mem _ hb') hz'
            show (if t.s.confirmed a > 0 then
                  ({ t1.s with confirmed := upd t1.s.confirmed a 0 } : State) else t1.s).confirmed b = 0
            split
            · show upd t1.s.confirmed a 0 b = 0
              by_cases hba : b = a
              · subst hba; simp
              · rw [upd_other _ _ _ _ hba, hfr.2.1]; exact h0
            · rw [hfr.2.1]; exact h0)
        refine ⟨K', ?_, k2, k3⟩
        unfold blacklistMany
        have g1 : ¬ ((zg_wt t ⟨z_eraseR R0, B, K, C, U⟩).s.blacklist a = true) := by
          show ¬ (K a = true); rw [hKa]; simp
        have g2 : ¬ (((zg_wt t ⟨z_eraseR R0, B, K, C, U⟩).s.range a).isNone = true) := by
          show ¬ ((z_eraseR R0 a).isNone = true); rw [hz]; simp
        rw [if_neg g1, if_neg g2]
        simp only
        rw [hxz]
        simp only
        refine Eq.trans ?_ k1
        congr 1
        by_cases hpos : t.s.confirmed a > 0
        · have hpos' : (zg_wt t ⟨z_eraseR R0, B, K, C, U⟩).s.confirmed a > 0 := hpos
          simp only [hpos, hpos', if_true]; rfl
        · have hpos' : ¬ (zg_wt t ⟨z_eraseR R0, B, K, C, U⟩).s.confirmed a > 0 := hpos
          simp only [hpos, hpos', if_false]; rfl

theorem zg_mem_swapRemove {l : List Nat} {a x : Nat} (h : x ∈ (swapRemove l a).1) : x ∈ l :=
  List.mem_of_mem_erase ((swapRemove_perm l a).mem_iff.mp h)

/-- **the v1 blacklist hook**: the addresses with an empty range are not whitelisted, so the hook
    does nothing for them -/
theorem zg_clearV1Many (R0 R : Nat → Option Range) (B : Nat → Option Batch) (K C : Nat → Bool) :
    ∀ (l : List Nat) {s s' : State} {rm tg rm' tg' : Nat} (U : Nat → Option UTS),
      clearV1Many l (s, rm, tg) = .ok (s', rm', tg') → s.range = R0 →
      zg_Urel R0 s.uts U → (∀ u ∈ l, z_eraseR R0 u = none → u ∉ s.whitelist) →
      ∃ U', clearV1Many (l.filter (fun a => (z_eraseR R0 a).isSome)) (zg_w s ⟨R, B, K, C, U⟩, rm, tg)
          = .ok (zg_w s' ⟨R, B, K, C, U'⟩, rm', tg') ∧
        zg_Urel R0 s'.uts U' ∧ s'.range = s.range ∧ s'.batch = s.batch ∧
        s'.blacklist = s.blacklist ∧ s'.claimed = s.claimed ∧ s'.flags = s.flags ∧
        (∀ a, U' a = U a ∨ U' a = none) ∧
        (∀ a, s'.uts a = s.uts a ∨ (z_eraseR R0 a).isSome = true)
  | [], s, s', rm, tg, rm', tg', U, h, _, hU, _ => by
    simp only [clearV1Many, Except.ok.injEq, Prod.mk.injEq] at h
    obtain ⟨rfl, rfl, rfl⟩ := h
    exact ⟨U, rfl, hU, rfl, rfl, rfl, rfl, rfl, fun _ => Or.inl rfl, fun _ => Or.inl rfl⟩
  | u :: rest, s, s', rm, tg, rm', tg', U, h, hR, hU, hw => by
    rw [clearV1Many] at h
    simp only at h
    cases hz : z_eraseR R0 u with
    | none =>
      have hnm : u ∉ s.whitelist := hw u (List.mem_cons_self ..) hz
      rw [swapRemove_of_not_mem hnm] at h
      simp only [Bool.not_false, if_true] at h
      obtain ⟨U', k1, k2, k3, k4, k5, k6, k7, k8, k9⟩ :=
        zg_clearV1Many R0 R B K C rest (s := { s with whitelist := s.whitelist }) U h hR hU
          (fun x hx hzx => hw x (List.mem_cons_of_mem _ hx) hzx)
      refine ⟨U', ?_, k2, k3, k4, k5, k6, k7, k8, k9⟩
      rw [List.filter_cons_of_neg (by simp [hz])]
      exact k1
    | some r =>
      rw [List.filter_cons_of_pos (by simp [hz])]
      have hUu : U u = s.uts u := by
        rcases hU u with h0 | ⟨_, h0, _⟩
        · exact h0
        · rw [hz] at h0; cases h0
      have hsub : ∀ x ∈ rest, z_eraseR R0 x = none → x ∉ (swapRemove s.whitelist u).1 :=
        fun x hx hzx hm => hw x (List.mem_cons_of_mem _ hx) hzx (zg_mem_swapRemove hm)
      by_cases hwas : (swapRemove s.whitelist u).2 = true
      · -- whitelisted: the record is parked
        simp only [hwas, Bool.not_true, Bool.false_eq_true, if_false] at h
        cases hc1 : csub tg ((s.uts u).getD {}).c "guaranteed_tickets_init.rs:95 total_guaranteed -= staking" with
        | error err => rw [hc1] at h; cases h
        | ok tg1 =>
          rw [hc1] at h
          simp only at h
          cases hc2 : csub tg1 ((s.uts u).getD {}).d "guaranteed_tickets_init.rs:96 total_guaranteed -= migration" with
          | error err => rw [hc2] at h; cases h
          | ok tg2 =>
            rw [hc2] at h
            simp only at h
            obtain ⟨U', k1, k2, k3, k4, k5, k6, k7, k8, k9⟩ :=
              zg_clearV1Many R0 R B K C rest
                (s := { s with whitelist := (swapRemove s.whitelist u).1, uts := upd s.uts u none,
                               blUts := upd s.blUts u (some ((s.uts u).getD {})) })
                (upd U u none) h hR
                (by
                  intro a
                  by_cases hau : a = u
                  · subst hau; left; simp
                  · show upd U u none a = upd s.uts u none a ∨ _
                    rw [upd_other _ _ _ _ hau, upd_other _ _ _ _ hau]
                    rcases hU a with h0 | ⟨h0, h0', st0, e1, e2, e3⟩
                    · exact Or.inl h0
                    · right
                      refine ⟨h0, h0', st0, ?_, e2, e3⟩
                      show upd s.uts u none a = some st0
                      rw [upd_other _ _ _ _ hau]; exact e1)
                hsub
            refine ⟨U', ?_, k2, k3, k4, k5, k6, k7, ?_, ?_⟩
            · rw [clearV1Many]
              simp only
              have e1 : (swapRemove (zg_w s ⟨R, B, K, C, U⟩).whitelist u).2 = true := hwas
              simp only [e1, Bool.not_true, Bool.false_eq_true, if_false]
              have e2 : (zg_w s ⟨R, B, K, C, U⟩).uts u = s.uts u := hUu
              rw [e2, hc1]
              simp only
              rw [hc2]
              simp only
              exact k1
            · intro a
              rcases k8 a with h0 | h0
              · by_cases hau : a = u
                · subst hau; right; rw [h0]; simp
                · left; rw [h0]; exact upd_other _ _ _ _ hau
              · exact Or.inr h0
            · intro a
              rcases k9 a with h0 | h0
              · by_cases hau : a = u
                · subst hau; right; rw [hz]; rfl
                · left; rw [h0]; exact upd_other _ _ _ _ hau
              · exact Or.inr h0
      · -- not whitelisted: only the (unchanged) whitelist is written back
        simp only [hwas, Bool.not_false, if_true] at h
        have hwas' : (swapRemove s.whitelist u).2 = false := by
          cases hq : (swapRemove s.whitelist u).2 with
          | false => rfl
          | true => exact absurd hq hwas
        obtain ⟨U', k1, k2, k3, k4, k5, k6, k7, k8, k9⟩ :=
          zg_clearV1Many R0 R B K C rest (s := { s with whitelist := (swapRemove s.whitelist u).1 }) U h hR hU hsub
        refine ⟨U', ?_, k2, k3, k4, k5, k6, k7, k8, k9⟩
        rw [clearV1Many]
        simp only
        have e1 : (swapRemove (zg_w s ⟨R, B, K, C, U⟩).whitelist u).2 = false := hwas'
        simp only [e1, Bool.not_false, if_true]
        exact k1


/-- the blacklisting loop does not touch the whitelist and the guarantee records -/
theorem zg_blacklistMany_wu (e : Env) : ∀ (l : List Nat) {t t' : Tx},
    blacklistMany e l t = .ok t' → t'.s.whitelist = t.s.whitelist ∧ t'.s.uts = t.s.uts
  | [], t, t', h => by simp only [blacklistMany, Except.ok.injEq] at h; rw [h]; exact ⟨rfl, rfl⟩
  | a :: rest, t, t', h => by
    unfold blacklistMany at h
    split at h
    · cases h
    · split at h
      · cases h
      · simp only at h
        split at h
        · cases h
        · rename_i t1 h1
          obtain ⟨k1, k2⟩ := zg_blacklistMany_wu e rest h
          have ht1 : t1.s.whitelist = t.s.whitelist ∧ t1.s.uts = t.s.uts := by
            split at h1
            · rw [refund_ok_iff] at h1
              rw [h1.2, refundResult_state]; exact ⟨rfl, rfl⟩
            · cases h1; exact ⟨rfl, rfl⟩
          rw [k1, k2]
          simp only [Tx.setS]
          split <;> exact ht1

/-- the body of `blacklist` (guarV1) -/
theorem zg_exec_blacklist {hash : List Nat → List Nat} {t t' : Tx} {e : Env} {l : List Nat}
    (B : Nat → Option Batch) (K C : Nat → Bool) (U : Nat → Option UTS) (hv : t.s.variant = .guarV1)
    (h : exec hash t e (.blacklist l) = .ok t')
    (hK : ∀ a, K a = true → t.s.blacklist a = true)
    (hX : ∀ a, (z_eraseR t.s.range a).isSome = true → K a = t.s.blacklist a)
    (hc : ∀ a ∈ l, z_eraseR t.s.range a = none → t.s.confirmed a = 0)
    (hU : zg_Urel t.s.range t.s.uts U)
    (hw : ∀ u ∈ l, z_eraseR t.s.range u = none → u ∉ t.s.whitelist) :
    ∃ K' U', exec hash (zg_wt t ⟨z_eraseR t.s.range, B, K, C, U⟩) e
          (.blacklist (l.filter (fun a => (z_eraseR t.s.range a).isSome)))
        = .ok (zg_wt t' ⟨z_eraseR t.s.range, B, K', C, U'⟩) ∧
      (∀ a, K' a = true → t'.s.blacklist a = true) ∧
      (∀ a, (z_eraseR t.s.range a).isSome = true → K' a = t'.s.blacklist a) ∧
      zg_Urel t.s.range t'.s.uts U' ∧ (∀ a, U' a = U a ∨ U' a = none) ∧
      (∀ a, t'.s.uts a = t.s.uts a ∨ (z_eraseR t.s.range a).isSome = true) := by
  obtain ⟨_, f2, f3, f4, _⟩ := g1_flags hv
  simp only [exec, bind_ok_iff] at h
  obtain ⟨t1, h1, h⟩ := h
  have hvar : t1.s.variant = t.s.variant := congrArg Terms.variant (addUsersToBlacklist_terms h1)
  simp only [hvar, f2, f3, f4, Bool.false_eq_true, if_false, if_true, pure_bind, pure_ok_iff,
    bind_ok_iff] at h
  obtain ⟨s2, hcl, h⟩ := h
  have hvar2 : s2.variant = t.s.variant :=
    (congrArg Terms.variant (clearGuaranteedV1_terms hcl)).trans hvar
  have hvar2' : (t1.setS s2).s.variant = t.s.variant := hvar2
  simp only [hvar2', f2, f3, Bool.false_eq_true, if_false, pure_bind, pure_ok_iff] at h
  subst h
  have h1' := h1
  unfold addUsersToBlacklist at h1
  simp only [bind_ok_iff, req_ok_iff, exists_const] at h1
  obtain ⟨p1, p2, p3, p4⟩ := h1
  obtain ⟨K', k1, k2, k3⟩ := zg_blacklistMany e t.s.range B C U l K p4 rfl hK hX hc
  have htk := blacklistMany_tk e l p4
  obtain ⟨hwl, huts⟩ := zg_blacklistMany_wu e l p4
  have hrg : t1.s.range = t.s.range := tk_range htk
  unfold clearGuaranteedV1 at hcl
  simp only [bind_ok_iff, pure_ok_iff, Prod.exists] at hcl
  obtain ⟨s3, rm, tg, hcm, rfl⟩ := hcl
  obtain ⟨U', c1, c2, c3, c4, c5, c6, c7, c8, c9⟩ :=
    zg_clearV1Many t.s.range (z_eraseR t.s.range) B K' C l U hcm hrg (by rw [huts]; exact hU)
      (by rw [hwl]; exact hw)
  refine ⟨K', U', ?_, ?_, ?_, c2, c8, ?_⟩
  · have hz : addUsersToBlacklist (zg_wt t ⟨z_eraseR t.s.range, B, K, C, U⟩) e
        (l.filter (fun a => (z_eraseR t.s.range a).isSome))
        = .ok (zg_wt t1 ⟨z_eraseR t.s.range, B, K', C, U⟩) := by
      unfold addUsersToBlacklist
      simp only [bind_ok_iff, req_ok_iff, exists_const]
      exact ⟨p1, p2, p3, k1⟩
    have hcz : clearGuaranteedV1 (zg_wt t1 ⟨z_eraseR t.s.range, B, K', C, U⟩).s
        (l.filter (fun a => (z_eraseR t.s.range a).isSome))
        = .ok (zg_w { s3 with nrWinning := s3.nrWinning + rm, totalGuaranteed := tg }
                ⟨z_eraseR t.s.range, B, K', C, U'⟩) := by
      unfold clearGuaranteedV1
      simp only [bind_ok_iff, pure_ok_iff, Prod.exists]
      exact ⟨_, _, _, c1, rfl⟩
    have hvz : (zg_wt t1 ⟨z_eraseR t.s.range, B, K', C, U⟩).s.variant = t.s.variant := hvar
    simp only [exec, hz, bind, Except.bind, hvz, f2, f3, f4, Bool.false_eq_true, if_false, if_true,
      pure, Except.pure, hcz]
    have hvz2 : (Tx.setS (zg_wt t1 ⟨z_eraseR t.s.range, B, K', C, U⟩)
        (zg_w { s3 with nrWinning := s3.nrWinning + rm, totalGuaranteed := tg }
          ⟨z_eraseR t.s.range, B, K', C, U'⟩)).s.variant = t.s.variant := hvar2
    simp only [hvz2, f2, f3, Bool.false_eq_true, if_false]
    rfl
  · intro a ha
    show s3.blacklist a = true
    rw [c5]; exact k2 a ha
  · intro a ha
    show K' a = s3.blacklist a
    rw [c5]; exact k3 a ha
  · intro a
    show s3.uts a = t.s.uts a ∨ _
    rw [← huts]; exact c9 a

/-! ### unblacklist -/

theorem zg_unblacklistMany (R : Nat → Option Range) (B : Nat → Option Batch) (C : Nat → Bool)
    (U : Nat → Option UTS) :
    ∀ (l : List Nat) {s s' : State} (K : Nat → Bool), unblacklistMany l s = .ok s' →
      (∀ a, K a = true → s.blacklist a = true) →
      (∀ a, (R a).isSome = true → K a = s.blacklist a) →
      (∀ a, K a = true → (R a).isSome = true) →
      ∃ K', unblacklistMany (l.filter (fun a => (R a).isSome)) (zg_w s ⟨R, B, K, C, U⟩)
          = .ok (zg_w s' ⟨R, B, K', C, U⟩) ∧
        (∀ a, K' a = true → s'.blacklist a = true) ∧
        (∀ a, (R a).isSome = true → K' a = s'.blacklist a) ∧
        s'.range = s.range ∧ s'.uts = s.uts ∧ s'.whitelist = s.whitelist ∧ s'.batch = s.batch ∧
        s'.claimed = s.claimed ∧ s'.flags = s.flags
  | [], s, s', K, h, hK, hX, _ => by
    simp only [unblacklistMany, Except.ok.injEq] at h
    subst h
    exact ⟨K, rfl, hK, hX, rfl, rfl, rfl, rfl, rfl, rfl⟩
  | a :: rest, s, s', K, h, hK, hX, hKR => by
    unfold unblacklistMany at h
    by_cases hb : s.blacklist a = true
    · rw [if_pos hb] at h
      cases hz : (R a).isSome with
      | false =>
        obtain ⟨K', k1, k2, k3, k4⟩ := zg_unblacklistMany R B C U rest
          (s := { s with blacklist := upd s.blacklist a false }) K h
          (fun b hb' => by
            show upd s.blacklist a false b = true
            by_cases hba : b = a
            · subst hba
              have := hKR b hb'
              rw [hz] at this; cases this
            · rw [upd_other _ _ _ _ hba]; exact hK b hb')
          (fun b hb' => by
            show K b = upd s.blacklist a false b
            have hba : b ≠ a := by intro hba; subst hba; rw [hz] at hb'; cases hb'
            rw [upd_other _ _ _ _ hba]; exact hX b hb')
          hKR
        refine ⟨K', ?_, k2, k3, k4⟩
        rw [List.filter_cons_of_neg (by simp [hz])]
        exact k1
      | true =>
        have hKa : K a = true := by rw [hX a hz]; exact hb
        obtain ⟨K', k1, k2, k3, k4⟩ := zg_unblacklistMany R B C U rest
          (s := { s with blacklist := upd s.blacklist a false }) (upd K a false) h
          (fun b hb' => by
            show upd s.blacklist a false b = true
            by_cases hba : b = a
            · subst hba; simp at hb'
            · rw [upd_other _ _ _ _ hba] at hb' ⊢; exact hK b hb')
          (fun b hb' => by
            show upd K a false b = upd s.blacklist a false b
            by_cases hba : b = a
            · subst hba; simp
            · rw [upd_other _ _ _ _ hba, upd_other _ _ _ _ hba]; exact hX b hb')
          (fun b hb' => by
            by_cases hba : b = a
            · subst hba; exact hz
            · rw [upd_other _ _ _ _ hba] at hb'; exact hKR b hb')
        refine ⟨K', ?_, k2, k3, k4⟩
        rw [List.filter_cons_of_pos (by simp [hz])]
        unfold unblacklistMany
        have g1 : (zg_w s ⟨R, B, K, C, U⟩).blacklist a = true := hKa
        rw [if_pos g1]
        exact k1
    · rw [if_neg hb] at h; cases h

end LP
