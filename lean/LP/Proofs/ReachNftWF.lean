import LP.Proofs.ReachFrame
import LP.Props.C14
import LP.Props.C10
/-
  LP.Proofs.ReachNftWF — the inductive invariant `nf_WF T0 s r` of `Variant.nft`
  (launchpad-with-nft), its establishment by `init` and its preservation by the passing of time.

  The invariant extends the plain one (`LP/Proofs/ReachWF.lean`):

  * the ticket-space / ticket-payment part is the plain `Phase` over the projection `nf_core s`,
    whose `payBal` is the TICKET part of the payment-token holdings: `bal payTok 0` minus the NFT
    fees held in the same slot (`nf_Side.feeIn`, zero when the fee token is a different slot).
    So ONE invariant covers every token configuration (fee token = payment token, fee token
    separate, even fee token = launchpad token, about which nothing is claimed);
  * between the completion of the base lottery and the completion of the NFT draw
    (`selected ∧ ¬ additional`) both ledger equations hold (nothing moves tokens);
  * `nf_SideInv` is the fee ledger (`feeLe`, `feeEq`), "no other slot holds anything" and the facts
    on the two NFT lists (`NftOk`, every payer / winner has confirmed tickets, claimed addresses are
    in neither list, no winner before the base lottery is complete).
-/
namespace LP
open LP.FY LP.Props.C14

/-! ### the projection read by the fee ledger and the NFT lists -/

structure nf_Side where
  payTok : Token
  lpTok : Nat
  bal : Bal
  cost : Pay
  payers : List Nat
  winners : List Nat
  cnft : Nat
  avail : Nat
  claimed : Nat → Bool
  confirmed : Nat → Nat
  additional : Bool
  selected : Bool

def nf_side (s : State) : nf_Side :=
  { payTok := s.payTok, lpTok := s.lpTok, bal := s.bal, cost := s.nftCost, payers := s.payers,
    winners := s.nftWinners, cnft := s.claimableNft, avail := s.availNfts, claimed := s.claimed,
    confirmed := s.confirmed, additional := s.flags.additional, selected := s.flags.selected }

/-- the fee liability (`LP.Props.C14.feeHeld`) on the projection -/
def nf_Side.held (p : nf_Side) : Nat :=
  if p.additional then p.cnft + p.cost.amount * p.payers.length
  else p.cost.amount * (p.payers.length + p.winners.length)

/-- the fee is paid in the ticket-payment slot -/
def nf_Side.same (p : nf_Side) : Prop := p.cost.tok = p.payTok ∧ p.cost.nonce = 0

/-- the fee is paid in the launchpad-token slot (nothing is claimed about fees then) -/
def nf_Side.isLp (p : nf_Side) : Prop := p.cost.tok = .esdt p.lpTok ∧ p.cost.nonce = 0

instance nf_decSame (p : nf_Side) : Decidable p.same := by unfold nf_Side.same; infer_instance
instance nf_decIsLp (p : nf_Side) : Decidable p.isLp := by unfold nf_Side.isLp; infer_instance

/-- fees held inside the payment-token slot -/
def nf_Side.feeIn (p : nf_Side) : Nat := if p.same then p.held else 0

/-- the ticket part of the payment-token holdings -/
def nf_Side.tix (p : nf_Side) : Nat := p.bal p.payTok 0 - p.feeIn

theorem nf_held_eq (s : State) : (nf_side s).held = feeHeld s := rfl

/-- the plain projection with the ticket part of the holdings -/
def nf_core (s : State) : Core := { s.core with payBal := (nf_side s).tix }

structure nf_SideInv (p : nf_Side) : Prop where
  balOther : ∀ t n, ¬ (t = p.payTok ∧ n = 0) → ¬ (t = .esdt p.lpTok ∧ n = 0) →
    ¬ (t = p.cost.tok ∧ n = p.cost.nonce) → p.bal t n = 0
  feeLe : p.same → p.held ≤ p.bal p.payTok 0
  feeEq : ¬ p.same → ¬ p.isLp → p.bal p.cost.tok p.cost.nonce = p.held
  nodupP : p.payers.Nodup
  nodupW : p.winners.Nodup
  disj : ∀ a, a ∈ p.payers → a ∉ p.winners
  winLe : p.winners.length ≤ p.avail
  conf : ∀ a, a ∈ p.payers ∨ a ∈ p.winners → 0 < p.confirmed a
  fresh : p.additional = false → ∀ a, p.claimed a = false
  claimedOut : ∀ a, p.claimed a = true → a ∉ p.payers ∧ a ∉ p.winners
  noWin : p.selected = false → p.winners = []

/-! ### the phases -/

/-- the three groups of phases of the launchpad with NFT draw: the plain phases before the base
    lottery completes; base lottery complete and NFT draw not complete (both ledger equations
    hold; the saved operation is none or the draw's generator); everything complete -/
def nf_Phase (T0 : Nat) (c : Core) : Prop :=
  (c.flags.additional = false ∧ c.flags.selected = false ∧ Phase T0 c) ∨
  (c.flags.additional = false ∧ PhD { c with op := .none } ∧
    (c.op = .none ∨ ∃ r, c.op = .additional (.nft r)) ∧
    ∃ L : List Nat, L.Nodup ∧ (∀ a, c.confirmed a ≠ 0 → a ∈ L) ∧ PayPre c L) ∨
  (c.flags.additional = true ∧ PhD c)

/-- the inductive invariant of `Variant.nft`; `T0` = winners configured at deployment, `r` = round
    of the latest transaction -/
structure nf_WF (T0 : Nat) (s : State) (r : Nat) : Prop where
  var : s.variant = .nft
  pricePos : 0 < s.price
  tokNe : s.payTok ≠ .esdt s.lpTok
  tlConf : r < s.cfg.conf → ∀ a, s.confirmed a = 0
  tlStarted : s.flags.started = true → s.cfg.conf ≤ r ∧ s.cfg.sel ≤ r
  phase : nf_Phase T0 (nf_core s)
  side : nf_SideInv (nf_side s)

/-! ### extraction of the phase from the flags -/

theorem nf_phase_early {T0 : Nat} {c : Core} (h : nf_Phase T0 c) (hs : c.flags.selected = false) :
    c.flags.additional = false ∧ Phase T0 c := by
  rcases h with ⟨h1, _, h3⟩ | ⟨_, hD, _⟩ | ⟨_, hD⟩
  · exact ⟨h1, h3⟩
  · have : c.flags.selected = true := hD.selected
    rw [hs] at this; cases this
  · rw [hD.selected] at hs; cases hs

theorem nf_phase_notStarted {T0 : Nat} {c : Core} (h : nf_Phase T0 c) (hs : c.flags.started = false) :
    c.flags.additional = false ∧ c.flags.selected = false ∧ ∃ L0, Pre T0 c L0 ∧ PhA c L0 := by
  rcases h with ⟨h1, h2, h3⟩ | ⟨_, hD, _⟩ | ⟨_, hD⟩
  · exact ⟨h1, h2, rb_phase_notStarted h3 hs⟩
  · have : c.flags.started = true := hD.started
    rw [hs] at this; cases this
  · rw [hD.started] at hs; cases hs

theorem nf_phase_mid {T0 : Nat} {c : Core} (h : nf_Phase T0 c) (hs : c.flags.selected = true)
    (ha : c.flags.additional = false) :
    PhD { c with op := .none } ∧ (c.op = .none ∨ ∃ r, c.op = .additional (.nft r)) ∧
    ∃ L : List Nat, L.Nodup ∧ (∀ a, c.confirmed a ≠ 0 → a ∈ L) ∧ PayPre c L := by
  rcases h with ⟨_, h2, _⟩ | ⟨_, h2⟩ | ⟨h1, _⟩
  · rw [h2] at hs; cases hs
  · exact h2
  · rw [h1] at ha; cases ha

theorem nf_phase_done {T0 : Nat} {c : Core} (h : nf_Phase T0 c) (ha : c.flags.additional = true) :
    PhD c := by
  rcases h with ⟨h1, _⟩ | ⟨h1, _⟩ | ⟨_, hD⟩
  · rw [h1] at ha; cases ha
  · rw [h1] at ha; cases ha
  · exact hD

theorem nf_notStarted_of_lt {T0 : Nat} {s : State} {r : Nat} (h : nf_WF T0 s r) {n : Nat}
    (hr : r ≤ n) (hlt : n < s.cfg.conf ∨ n < s.cfg.sel) : s.flags.started = false := by
  cases hs : s.flags.started with
  | false => rfl
  | true => have := h.tlStarted hs; omega

theorem nf_flags {v : Variant} (hv : v = .nft) :
    v.vested = false ∧ v.hasNft = true ∧ v.isV2 = false ∧ v.v1Alloc = false ∧ v.hasLock = false ∧
    v.hasGuaranteed = false ∧ v.hasUnblacklist = false ∧ v.noAdditionalStep = false := by
  subst hv; exact ⟨rfl, rfl, rfl, rfl, rfl, rfl, rfl, rfl⟩

/-- before the filter starts the draw has not: no winners, flags clear -/
theorem nf_early_side {T0 : Nat} {s : State} {r : Nat} (h : nf_WF T0 s r)
    (hns : s.flags.started = false) :
    s.flags.additional = false ∧ s.flags.selected = false ∧ s.nftWinners = [] := by
  obtain ⟨h1, h2, _⟩ := nf_phase_notStarted h.phase hns
  exact ⟨h1, h2, h.side.noWin h2⟩

/-- in the AddTickets stage nobody has paid a fee -/
theorem nf_no_payers {T0 : Nat} {s : State} {r : Nat} (h : nf_WF T0 s r) {n : Nat} (hr : r ≤ n)
    (hlt : n < s.cfg.conf) : s.payers = [] ∧ s.nftWinners = [] := by
  have hz := h.tlConf (by omega)
  constructor
  · cases hp : s.payers with
    | nil => rfl
    | cons a rest =>
      have := h.side.conf a (Or.inl (by show a ∈ s.payers; rw [hp]; simp))
      have h0 : s.confirmed a = 0 := hz a
      have : 0 < s.confirmed a := this
      omega
  · cases hp : s.nftWinners with
    | nil => rfl
    | cons a rest =>
      have := h.side.conf a (Or.inr (by show a ∈ s.nftWinners; rw [hp]; simp))
      have h0 : s.confirmed a = 0 := hz a
      have : 0 < s.confirmed a := this
      omega

/-! ### transfer along unchanged projections -/

theorem nf_WF_of_proj {T0 : Nat} {s s' : State} {r r' : Nat} (h : nf_WF T0 s r)
    (hcore : s'.core = s.core) (hside : nf_side s' = nf_side s) (hv : s'.variant = s.variant)
    (htl1 : r' < s'.cfg.conf → ∀ a, s.confirmed a = 0)
    (htl2 : s.flags.started = true → s'.cfg.conf ≤ r' ∧ s'.cfg.sel ≤ r') : nf_WF T0 s' r' := by
  have hprice : s'.price = s.price := congrArg Core.price hcore
  have hflags : s'.flags = s.flags := congrArg Core.flags hcore
  have hconf : s'.confirmed = s.confirmed := congrArg Core.confirmed hcore
  have hp : s'.payTok = s.payTok := congrArg nf_Side.payTok hside
  have hl : s'.lpTok = s.lpTok := congrArg nf_Side.lpTok hside
  have hnc : nf_core s' = nf_core s := by unfold nf_core; rw [hcore, hside]
  refine ⟨by rw [hv]; exact h.var, by rw [hprice]; exact h.pricePos, by rw [hp, hl]; exact h.tokNe,
    ?_, ?_, by rw [hnc]; exact h.phase, by rw [hside]; exact h.side⟩
  · intro h1; rw [hconf]; exact htl1 h1
  · intro h1; rw [hflags] at h1; exact htl2 h1

theorem nf_WF_same_cfg {T0 : Nat} {s s' : State} {r r' : Nat} (h : nf_WF T0 s r)
    (hcore : s'.core = s.core) (hside : nf_side s' = nf_side s) (hv : s'.variant = s.variant)
    (hcfg : s'.cfg = s.cfg) (hr : r ≤ r') : nf_WF T0 s' r' := by
  apply nf_WF_of_proj h hcore hside hv
  · intro h1; rw [hcfg] at h1; exact h.tlConf (by omega)
  · intro h1; rw [hcfg]; have := h.tlStarted h1; omega

/-! ### deployment -/

/-- the freshly deployed launchpad with NFT draw -/
def nf_initState (a : InitArgs) (e : Env) : State :=
  { variant := .nft, owner := e.caller, lpTok := a.lpTok, perTicket := a.perTicket,
    payTok := a.payTok, price := a.price, nrWinning := a.nrWinning,
    cfg := ⟨a.conf, a.sel, a.claim⟩, flags := { additional := false }, support := e.caller,
    nftCost := a.nftCost, availNfts := a.availNfts }

theorem nf_init_inv {a : InitArgs} {e : Env} {s : State} (h : init .nft a e = .ok s) :
    0 < a.price ∧ 0 < a.nrWinning ∧ a.payTok ≠ .esdt a.lpTok ∧ 0 < a.availNfts ∧
    s = nf_initState a e := by
  unfold init at h
  simp only [Variant.hasNft, Variant.v1Alloc, Variant.hasLock, Variant.noAdditionalStep, bind_ok_iff,
    req_ok_iff, pure_ok_iff, pure_bind,
    exists_const, if_true, if_false, Bool.false_eq_true, reduceCtorEq, decide_eq_true_eq,
    bne_iff_ne, ne_eq, not_false_eq_true, beq_iff_eq] at h
  lp_peel h
  subst h
  refine ⟨by omega, by omega, by assumption, by omega, rfl⟩

theorem nf_init_WF {a : InitArgs} {e : Env} {s : State} (h : init .nft a e = .ok s) :
    nf_WF a.nrWinning s e.round := by
  obtain ⟨h1, h2, h3, h4, rfl⟩ := nf_init_inv h
  have hheld : (nf_side (nf_initState a e)).held = 0 := by
    simp [nf_Side.held, nf_side, nf_initState]
  have hfee : (nf_side (nf_initState a e)).feeIn = 0 := by
    unfold nf_Side.feeIn; split
    · exact hheld
    · rfl
  refine ⟨rfl, h1, h3, fun _ _ => rfl, nofun, ?_, ?_⟩
  · left
    refine ⟨rfl, rfl, Or.inl ⟨[], ⟨rfl, rfl, rfl, rfl, rfl, ⟨List.nodup_nil, nofun, nofun⟩,
      fun _ _ => rfl, fun _ _ => rfl, ?_⟩, Or.inl ⟨rfl, rfl, trivial, rfl⟩⟩⟩
    show (nf_side (nf_initState a e)).tix = a.price * sumOver (fun _ => 0) []
    unfold nf_Side.tix
    rw [hfee]
    simp [sumOver, nf_side, nf_initState]
  · refine ⟨fun _ _ _ _ _ => rfl, fun _ => by rw [hheld]; exact Nat.zero_le _,
      fun _ _ => by rw [hheld]; rfl, List.nodup_nil, List.nodup_nil, nofun, Nat.zero_le _, ?_,
      fun _ _ => rfl, nofun, fun _ => rfl⟩
    intro a ha
    rcases ha with ha | ha <;> cases ha

/-! ### passing of time -/

theorem nf_wait_WF {T0 : Nat} {s : State} {r r' : Nat} (h : nf_WF T0 s r) (hr : r ≤ r') :
    nf_WF T0 s r' :=
  ⟨h.var, h.pricePos, h.tokNe, fun h1 => h.tlConf (by omega),
    fun h1 => by have := h.tlStarted h1; omega, h.phase, h.side⟩

end LP
