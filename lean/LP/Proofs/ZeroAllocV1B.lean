import LP.Proofs.ZeroAllocV1A
/-
  LP.Proofs.ZeroAllocV1B — zero-size allocations in the v1 guaranteed family, part 3: the first
  `filter` call (hand-over from the shadow to the erased state), the phases after it, the
  reachable states without the restriction `v1_CallOK` (`v1_ReachZ`) and the simulation theorem
  `zv_sim`.
-/
namespace LP
open LP.FY LP.Events

/-! ### the first `filter` call -/

/-- `v1_WF` before the first filter call with the reserve invariant cut down to its range-free
    clauses (which is all `filter` needs) -/
structure zv_WFA (T0 : Nat) (s : State) (r : Nat) : Prop where
  var : v1_Fam s.variant
  pricePos : 0 < s.price
  tokNe : s.payTok ≠ .esdt s.lpTok
  static : 0 < s.minConfirmed ∧ s.lockPct ≤ 10000
  balOther : ∀ t, t ≠ s.payTok → t ≠ .esdt s.lpTok → s.bal t 0 = 0
  tlConf : r < s.cfg.conf → ∀ a, s.confirmed a = 0
  tlStarted : s.flags.started = true → s.cfg.conf ≤ r ∧ s.cfg.sel ≤ r
  lp : s.deposited = true → s.perTicket * v1_owed s ≤ s.bal (.esdt s.lpTok) 0
  add : s.flags.additional = false
  tg : s.totalGuaranteed ≤ T0
  pre : ∃ L0, Pre (T0 - s.totalGuaranteed) s.core L0 ∧ PhA s.core L0
  gw : v1_GW (v1_gv s)

/-- copy of `v1_filter` (LP/Proofs/ReachV1Filter.lean) for a first call under `zv_WFA` -/
theorem zv_filter_weak {T0 : Nat} {hash : List Nat → List Nat} {s s' : State} {e : Env} {o : Out}
    {r : Nat} (h : zv_WFA T0 s r) (_hr : r ≤ e.round)
    (hs : step hash s e .filter = .ok (s', o)) : v1_WF T0 s' e.round ∧ s'.flags.started = true := by
  obtain ⟨t, hx, rfl⟩ := rb_step_np (by intro m hm; simp [endpointMeta] at hm; rw [← hm]) hs
  simp only [exec] at hx
  obtain ⟨hpre, x, f, b, hxs, hcase⟩ := rb_filterTickets_cases hx
  simp only [rbTx_s] at hpre hxs hcase
  obtain ⟨hc1, hc2⟩ := rb_stage_winnerSelection hpre.stage
  have hadd := h.add
  have htg : (v1_gv s).tg ≤ T0 := h.tg
  obtain ⟨L0, hp, ha⟩ := h.pre
  have hadd' : s.flags.additional = false := hadd
  have hgw : v1_GW (v1_gv s) := h.gw
  have hmid : Mid s.confirmed s.lastTicketId L0 x ∧ (x.first = 1 ∨ s.flags.started = true) := by
    have hop : s.op = .none := ha.op
    simp only [filStOf, hop, Option.some.injEq] at hxs
    subst hxs
    have hl : s.lastTicketId = ticketTotal L0 := ha.last
    rw [hl]
    exact ⟨rb_Mid_start ha.chain hp.outR, Or.inl rfl⟩
  obtain ⟨hmid, hfirst⟩ := hmid
  have hok : AllocOK s.confirmed L0 := hp.ok
  have hloop := fun b' st (hrun : runWhile (filterBody s.confirmed s.lastTicketId)
      (s.lastTicketId + 2) (rbTx s e).c.budget x = .ok (f, b', st)) =>
    rb_runWhile_inv (Mid s.confirmed s.lastTicketId L0) (filterBody s.confirmed s.lastTicketId)
      (fun y y' hb hm => rb_filterBody_Mid hok hb hm) _ _ _ _ _ _ hrun hmid
  obtain ⟨hff, hfs, hfa⟩ := rb_filterFlags s x.first
  rcases hcase with ⟨hrun, hs'⟩ | ⟨hrun, hle, hs'⟩
  · -- interrupted
    have hmf : Mid s.confirmed s.lastTicketId L0 f := (hloop _ _ hrun).1 rfl
    have houtR := hmf.choose_spec.choose_spec.2.2.2.2.2.2.2
    rw [hs']
    refine ⟨⟨h.var, h.pricePos, h.tokNe, h.static, h.balOther, ?_, ?_, ?_, ?_⟩,
      filterFlags_started s x.first hfirst⟩
    · intro hlt; exfalso; have : e.round < s.cfg.conf := hlt; omega
    · intro _; exact ⟨hc1, hc2⟩
    · intro hd
      have e1 : v1_owed (filterSaved s x f) = v1_owed s := by
        unfold v1_owed
        show (s.nrWinning + if (filterFlags s x.first).additional = true then 0 else s.totalGuaranteed) = _
        rw [hfa]
      rw [e1]; exact h.lp hd
    · left
      refine ⟨?_, htg, Or.inl ⟨L0, ⟨?_, ?_, hp.nrw, hp.status0, hp.pos0, hp.ok, hp.outC, houtR, hp.pay⟩,
        Or.inr ⟨⟨?_, ?_⟩, hgw⟩⟩⟩
      · show (filterFlags s x.first).additional = false
        rw [hfa]; exact hadd'
      · show (filterFlags s x.first).filtered = false
        rw [hff]; exact hpre.notFiltered
      · show (filterFlags s x.first).selected = false
        rw [hfs]; exact hp.notSelected
      · exact filterFlags_started s x.first hfirst
      · exact ⟨f.first, f.removed, rfl, hmf⟩
  · -- completed
    obtain ⟨y, hmy, hby⟩ := (hloop _ _ hrun).2 rfl
    obtain ⟨hy1, hyf⟩ := rb_filterBody_false hby
    subst hyf
    obtain ⟨hch, hrem, hlast, hzero, hout⟩ := rb_Mid_final hok hmy hy1
    have hcd := confSum_add_droppedSum s.confirmed L0 hok.le
    have hnew : s.lastTicketId - f.removed = ticketTotal (survivors s.confirmed L0) := by
      rw [ticketTotal_survivors, hrem]; omega
    have hnrw : s.nrWinning = T0 - s.totalGuaranteed := hp.nrw
    rw [hs']
    refine ⟨⟨h.var, h.pricePos, h.tokNe, h.static, h.balOther, ?_, ?_, ?_, ?_⟩,
      filterFlags_started s x.first hfirst⟩
    · intro hlt; exfalso; have : e.round < s.cfg.conf := hlt; omega
    · intro _; exact ⟨hc1, hc2⟩
    · intro hd
      have h0 := h.lp hd
      have e1 : v1_owed (filterDone s x f) ≤ v1_owed s := by
        unfold v1_owed
        show ((if s.nrWinning > s.lastTicketId - f.removed then s.lastTicketId - f.removed
              else s.nrWinning) +
            if (filterFlags s x.first).additional = true then 0 else s.totalGuaranteed) ≤ _
        rw [hfa]
        split <;> omega
      have := Nat.mul_le_mul_left s.perTicket e1
      exact Nat.le_trans this h0
    · left
      refine ⟨?_, htg, Or.inr (Or.inl ⟨⟨filterFlags_started s x.first hfirst, rfl, ?_, ?_, ?_,
        Or.inl ⟨rfl, hp.status0, hp.pos0⟩⟩, hgw⟩)⟩
      · show (filterFlags s x.first).additional = false
        rw [hfa]; exact hadd'
      · show (filterFlags s x.first).selected = false
        rw [hfs]; exact hp.notSelected
      · show (if s.nrWinning > s.lastTicketId - f.removed then s.lastTicketId - f.removed
              else s.nrWinning) = min (T0 - s.totalGuaranteed) (s.lastTicketId - f.removed)
        rw [hnrw]; split <;> omega
      · refine ⟨survivors s.confirmed L0, survivors_nodup _ _ hok.nodup, ?_, hch, hnew, ?_, ?_⟩
        · intro p hp1
          obtain ⟨_, h2, h3⟩ := mem_survivors hp1
          exact ⟨by omega, h2⟩
        · intro a ha
          by_cases hin : a ∈ L0.map Prod.fst
          · obtain ⟨p, hp1, hpa⟩ := List.mem_map.mp hin
            have hc0 : s.confirmed p.1 = 0 := by
              apply Classical.byContradiction
              intro hne
              exact ha (hpa ▸ rb_mem_survivors_of_pos hp1 hne)
            subst hpa
            exact ⟨hzero p hp1 hc0, hc0⟩
          · exact ⟨hout a hin, hp.outC a hin⟩
        · show s.bal s.payTok 0 = s.price * sumOver s.confirmed ((survivors s.confirmed L0).map Prod.fst)
          rw [rb_sumOver_survivors]
          exact hp.pay


/-- the erased state (guarantee bookkeeping of the REAL state kept) -/
def zv_z (s : State) : State :=
  z_w s (z_eraseR s.range) (z_eraseB s.batch) (zv_K s.range s.blacklist) s.claimed

/-- before the first filter call the erased state satisfies the cut-down invariant -/
theorem zv_WFA_of_PA {T0 : Nat} {s : State} {r : Nat} (h : zv_PA T0 s r) : zv_WFA T0 (zv_z s) r := by
  obtain ⟨U, BU, N, TG, hwf, _⟩ := h.sh
  obtain ⟨hadd, htg, L0, hp, ha, _⟩ := v1_phase_notStarted hwf.phase h.ns
  have hsum := zv_sh_sum hwf h.ns
  have hs := h.sum
  have hiv2 : s.variant.isV2 = false := (v1_fam_flags hwf.var).2.2.1
  have hadd' : s.flags.additional = false := hadd
  refine ⟨hwf.var, hwf.pricePos, hwf.tokNe, hwf.static, hwf.balOther, hwf.tlConf, hwf.tlStarted, ?_,
    hadd, by show s.totalGuaranteed ≤ T0; omega, ⟨L0, ?_, ⟨ha.notStarted, ha.op, ha.chain, ha.last⟩⟩, ?_⟩
  · intro hd
    have h0 := hwf.lp hd
    have e1 : v1_owed (zv_sh s U BU N TG) = T0 := by
      show N + (if s.flags.additional = true then 0 else TG) = T0
      rw [hadd']; simpa using hsum
    have e2 : v1_owed (zv_z s) = T0 := by
      show s.nrWinning + (if s.flags.additional = true then 0 else s.totalGuaranteed) = T0
      rw [hadd']; simpa using hs
    rw [e1] at h0
    rw [e2]
    exact h0
  · exact ⟨hp.notFiltered, hp.notSelected, by show s.nrWinning = T0 - s.totalGuaranteed; omega,
      hp.status0, hp.pos0, hp.ok, hp.outC, hp.outR, hp.pay⟩
  · have hb := h.gx.base
    rw [hiv2] at hb
    exact ⟨hb.total, hb.mem_of_pos, hb.pos_of_mem⟩

/-- **the first `filter` call**: the erased state takes the same step and lands in the original
    invariant; from now on the real state is `ZSim`-related to a well-formed state -/
theorem zv_PA_filter {T0 : Nat} {hash : List Nat → List Nat} {s s' : State} {e : Env}
    {o : Out} {r : Nat} (h : zv_PA T0 s r) (hr : r ≤ e.round)
    (hs : step hash s e .filter = .ok (s', o)) :
    ∃ z', v1_WF T0 z' e.round ∧ ZSim s' z' ∧ s'.flags.started = true ∧
      step hash (zv_z s) e .filter = .ok (z', o) := by
  have hwfa := zv_WFA_of_PA h
  obtain ⟨L0, hp, ha⟩ := hwfa.pre
  have hcl := (LP.Props.C09.step_claimed_exact hash s e _ s' o hs).1 (by simp)
  have hbl := LP.Props.C10frame.blacklist_frame hash s s' e _ o hs (by simp) (by simp) (by simp)
  obtain ⟨m, t, hm, hpay, hown, hx, rfl, rfl⟩ := step_ok_inv hs
  simp only [exec] at hx
  have hokA : AllocOK (tx0 s e).s.confirmed L0 := hp.ok
  have hmid : ∀ x, filStOf (tx0 s e).s = some x →
      Mid (tx0 s e).s.confirmed (tx0 s e).s.lastTicketId L0 (z_ef x) := by
    intro x hxs
    have hxs' : filStOf s = some x := hxs
    have hop' : s.op = .none := ha.op
    simp only [filStOf, hop', Option.some.injEq] at hxs'
    subst hxs'
    show Mid s.confirmed s.lastTicketId L0 _
    have hl : s.lastTicketId = ticketTotal L0 := ha.last
    rw [hl]
    exact rb_Mid_start (conf := s.confirmed) ha.chain hp.outR
  have k1 := z_filterTickets (zv_K s.range s.blacklist) s.claimed hx hokA hmid
  have hstep := z_step_intro (hash := hash) (s := zv_z s) (c := .filter) (by exact hm) hpay
    (by exact hown) (by simp only [exec]; exact k1)
  obtain ⟨hwf', hst'⟩ := zv_filter_weak hwfa hr hstep
  refine ⟨_, hwf', ⟨rfl, rfl, fun _ => rfl, ?_, ?_⟩, hst', hstep⟩
  · intro a ha'
    have ha2 : zv_K s.range s.blacklist a = true := ha'
    show t.s.blacklist a = true
    rw [hbl]
    unfold zv_K at ha2
    simp only [Bool.and_eq_true] at ha2
    exact ha2.1
  · intro a ha'
    show t.s.claimed a = true
    rw [hcl]; exact ha'

/-! ### after the first `filter` call: the erased state takes real steps -/

theorem zv_indep_CallOK {c : Call} (h : z_indep c = true) : v1_CallOK c := by
  cases c <;> first | trivial | (simp [z_indep] at h)

theorem zv_fam_of_sim {T0 : Nat} {s z : State} {r : Nat} (hz : v1_WF T0 z r) (hsim : ZSim s z) :
    v1_Fam s.variant := by
  rw [← hsim.fields.2.2.1]; exact hz.var

/-- the endpoints that do not touch the four fields -/
theorem zv_PB_indep {T0 : Nat} {hash : List Nat → List Nat} {s z s' : State} {r : Nat} {e : Env}
    {c : Call} {o : Out} (hc : z_indep c = true) (hz : v1_WF T0 z r) (hsim : ZSim s z)
    (hr : r ≤ e.round) (hok : EnvOK e) (hs : step hash s e c = .ok (s', o)) :
    ∃ z', v1_WF T0 z' e.round ∧ ZSim s' z' ∧ step hash z e c = .ok (z', o) := by
  obtain ⟨f1, f2, _⟩ := v1_fam_flags (zv_fam_of_sim hz hsim)
  obtain ⟨g1, g2, g3, g4⟩ := z_step_indep_frame hc f1 f2 hs
  have hstep : step hash z e c = .ok (z_w s' z.range z.batch z.blacklist z.claimed, o) := by
    have := z_step_indep (R := z.range) (B := z.batch) (K := z.blacklist) (C := z.claimed) hc f1 f2 hs
    rw [← hsim.rest] at this
    exact this
  refine ⟨_, v1_call_WF hz hr hok (zv_indep_CallOK hc) hstep, ⟨rfl, ?_, ?_, ?_, ?_⟩, hstep⟩
  · show z.range = z_eraseR s'.range
    rw [g1]; exact hsim.range
  · intro hf
    show z.batch = z_eraseB s'.batch
    rw [g2]; exact hsim.batch (z_filtered_back hs hf)
  · intro a ha; rw [g3]; exact hsim.bl a ha
  · intro a ha; rw [g4]; exact hsim.cl a ha

/-- `confirm n` -/
theorem zv_PB_confirm {T0 : Nat} {hash : List Nat → List Nat} {s z s' : State} {r : Nat} {e : Env}
    {n : Nat} {o : Out} (hz : v1_WF T0 z r) (hsim : ZSim s z)
    (hr : r ≤ e.round) (hok : EnvOK e) (hs : step hash s e (.confirm n) = .ok (s', o)) :
    ∃ z', v1_WF T0 z' e.round ∧ ZSim s' z' ∧ step hash z e (.confirm n) = .ok (z', o) := by
  have hfb := z_filtered_back hs
  obtain ⟨m, t, hm, hpay, hown, hx, rfl, rfl⟩ := step_ok_inv hs
  obtain ⟨_, _, hvz, hoz, _, _, _⟩ := hsim.fields
  obtain ⟨k1, k2, k3, k4, k5, k6, k7⟩ := z_exec_confirm z.batch z.blacklist z.claimed hx
    (fun hk => hsim.bl _ hk)
  have htx : tx0 z e = z_wt (tx0 s e) (z_eraseR (tx0 s e).s.range) z.batch z.blacklist z.claimed := by
    conv => lhs; rw [hsim.eq]
    rfl
  have hmz : endpointMeta z.variant (.confirm n) = some m := by rw [← hm, hvz]
  have hstep := z_step_intro hmz hpay (by rw [hoz]; exact hown) (by rw [htx]; exact k1)
  refine ⟨_, v1_call_WF (c := .confirm n) hz hr hok trivial hstep, ⟨rfl, ?_, ?_, ?_, ?_⟩, hstep⟩
  · show z_eraseR (tx0 s e).s.range = z_eraseR t.s.range
    rw [k2]
  · intro hf
    show z.batch = z_eraseB t.s.batch
    rw [k3]; exact hsim.batch (hfb hf)
  · intro a ha
    show t.s.blacklist a = true
    rw [k4]; exact hsim.bl a ha
  · intro a ha
    show t.s.claimed a = true
    rw [k5]; exact hsim.cl a ha

/-- `filter` (a resumed call, or a first call on a state that has no zero-size entry left) -/
theorem zv_PB_filter {T0 : Nat} {hash : List Nat → List Nat} {s z s' : State} {r : Nat} {e : Env}
    {o : Out} (hz : v1_WF T0 z r) (hsim : ZSim s z)
    (hr : r ≤ e.round) (hok : EnvOK e) (hs : step hash s e .filter = .ok (s', o)) :
    ∃ z', v1_WF T0 z' e.round ∧ ZSim s' z' ∧ step hash z e .filter = .ok (z', o) := by
  have hcl := (LP.Props.C09.step_claimed_exact hash s e _ s' o hs).1 (by simp)
  have hbl := LP.Props.C10frame.blacklist_frame hash s s' e _ o hs (by simp) (by simp) (by simp)
  obtain ⟨m, t, hm, hpay, hown, hx, rfl, rfl⟩ := step_ok_inv hs
  obtain ⟨hcfg, hfl, hvz, hoz, hcf, hop, hlast⟩ := hsim.fields
  simp only [exec] at hx
  obtain ⟨hpre, _⟩ := filterTickets_inv _ _ _ hx
  have hnf : s.flags.filtered = false := hpre.notFiltered
  obtain ⟨_, _, L0, hp, hab⟩ := v1_phase_notFiltered hz.phase
    (by show z.flags.filtered = false; rw [hfl]; exact hnf)
  have hzb : z.batch = z_eraseB s.batch := hsim.batch hnf
  have hokA : AllocOK (tx0 s e).s.confirmed L0 := by
    have : AllocOK z.confirmed L0 := hp.ok
    rw [hcf] at this; exact this
  have hmid : ∀ x, filStOf (tx0 s e).s = some x →
      Mid (tx0 s e).s.confirmed (tx0 s e).s.lastTicketId L0 (z_ef x) := by
    intro x hxs
    have hxs' : filStOf s = some x := hxs
    show Mid s.confirmed s.lastTicketId L0 (z_ef x)
    rw [← hcf, ← hlast]
    rcases hab with ⟨ha, _⟩ | ⟨hb, _⟩
    · have hop' : s.op = .none := by rw [← hop]; exact ha.op
      simp only [filStOf, hop', Option.some.injEq] at hxs'
      subst hxs'
      have hl : z.lastTicketId = ticketTotal L0 := ha.last
      rw [hl]
      have := rb_Mid_start (conf := z.confirmed) ha.chain hp.outR
      have e1 : z.core.range = z_eraseR s.range := hsim.range
      have e2 : z.core.batch = z_eraseB s.batch := hzb
      rw [e1, e2] at this
      exact this
    · obtain ⟨f0, rm, hop0, hm0⟩ := hb.mid
      have hop' : s.op = .filter f0 rm := by rw [← hop]; exact hop0
      simp only [filStOf, hop', Option.some.injEq] at hxs'
      subst hxs'
      have e1 : z.core.range = z_eraseR s.range := hsim.range
      have e2 : z.core.batch = z_eraseB s.batch := hzb
      rw [e1, e2] at hm0
      exact hm0
  have k1 := z_filterTickets z.blacklist z.claimed hx hokA hmid
  have htx : tx0 z e = z_wt (tx0 s e) (z_eraseR (tx0 s e).s.range) (z_eraseB (tx0 s e).s.batch)
      z.blacklist z.claimed := by
    have := hsim.eq
    rw [hzb] at this
    conv => lhs; rw [this]
    rfl
  have hmz : endpointMeta z.variant .filter = some m := by rw [← hm, hvz]
  have hstep := z_step_intro (hash := hash) hmz hpay (by rw [hoz]; exact hown)
    (by rw [htx]; simp only [exec]; exact k1)
  refine ⟨_, v1_call_WF (c := .filter) hz hr hok trivial hstep, ⟨rfl, rfl, fun _ => rfl, ?_, ?_⟩, hstep⟩
  · intro a ha
    show t.s.blacklist a = true
    rw [hbl]; exact hsim.bl a ha
  · intro a ha
    show t.s.claimed a = true
    rw [hcl]; exact hsim.cl a ha

/-- `distribute`: the same call on the erased state (a holder with an empty range is treated as a
    holder without range: the whole guarantee goes to the leftover) -/
theorem zv_PB_distribute {T0 : Nat} {hash : List Nat → List Nat} {s z s' : State} {r : Nat} {e : Env}
    {o : Out} (hz : v1_WF T0 z r) (hsim : ZSim s z)
    (hr : r ≤ e.round) (hok : EnvOK e) (hs : step hash s e .distribute = .ok (s', o)) :
    ∃ z', v1_WF T0 z' e.round ∧ ZSim s' z' ∧ step hash z e .distribute = .ok (z', o) := by
  have hcl := (LP.Props.C09.step_claimed_exact hash s e _ s' o hs).1 (by simp)
  have hbl := LP.Props.C10frame.blacklist_frame hash s s' e _ o hs (by simp) (by simp) (by simp)
  have htk := z_step_tk hs (by simp) (by simp) (by simp) (by simp) (by simp)
  have hfb := z_filtered_back hs
  obtain ⟨_, _, hv2, _⟩ := v1_fam_flags (zv_fam_of_sim hz hsim)
  obtain ⟨m, t, hm, hpay, hown, hx, rfl, rfl⟩ := step_ok_inv hs
  obtain ⟨_, _, hvz, hoz, _, _, _⟩ := hsim.fields
  simp only [exec] at hx
  have k1 := zv_distribute hash (tx0 s e) e z.batch z.blacklist z.claimed (by exact hv2)
  rw [hx] at k1
  have htx : tx0 z e = z_wt (tx0 s e) (z_eraseR (tx0 s e).s.range) z.batch z.blacklist z.claimed := by
    conv => lhs; rw [hsim.eq]
    rfl
  have hmz : endpointMeta z.variant .distribute = some m := by rw [← hm, hvz]
  have hstep := z_step_intro (hash := hash) hmz hpay (by rw [hoz]; exact hown)
    (by rw [htx]; simp only [exec]; exact k1)
  refine ⟨_, v1_call_WF (c := .distribute) hz hr hok trivial hstep, ⟨rfl, ?_, ?_, ?_, ?_⟩, hstep⟩
  · show z_eraseR (tx0 s e).s.range = z_eraseR t.s.range
    rw [tk_range htk]; rfl
  · intro hf
    show z.batch = z_eraseB t.s.batch
    rw [tk_batch htk]; exact hsim.batch (hfb hf)
  · intro a ha
    show t.s.blacklist a = true
    rw [hbl]; exact hsim.bl a ha
  · intro a ha
    show t.s.claimed a = true
    rw [hcl]; exact hsim.cl a ha

/-! ### claim -/

theorem zv_settle_inv {s : State} {e : Env} {x : State × Nat × Nat} (h : settle s e = .ok x) :
    s.stage e = .claim ∧ s.claimed e.caller = false ∧ ∃ rg, s.range e.caller = some rg := by
  unfold settle at h
  simp only [bind_ok_iff, req_ok_iff, exists_const, requireStage] at h
  obtain ⟨hst, hcl, h⟩ := h
  refine ⟨by simpa using hst, by simpa using hcl, ?_⟩
  cases hr : s.range e.caller with
  | none => rw [hr] at h; cases h
  | some rg => exact ⟨rg, rfl⟩

/-- **a claim by an address whose range is empty** (it never confirmed anything) changes nothing
    but the caller's `claimed` flag, its stale range and the batch slot at the range's first id -/
theorem zv_claim_stutter {hash : List Nat → List Nat} {s s' : State} {e : Env} {o : Out} {r : Range}
    (hv : s.variant.vested = false) (hn : s.variant.hasNft = false)
    (hs : step hash s e .claim = .ok (s', o))
    (hr : s.range e.caller = some r) (he : r.last < r.first) (hc : s.confirmed e.caller = 0) :
    s' = z_w s (upd s.range e.caller none) (upd s.batch r.first none) s.blacklist
          (upd s.claimed e.caller true) := by
  rw [LP.Props.C09.step_claim_ok_iff] at hs
  obtain ⟨_, _, t, hx, rfl, rfl⟩ := hs
  rw [exec_claim_nonvested hash _ e (by exact hv)] at hx
  unfold claimBase at hx
  simp only [bind_ok_iff] at hx
  obtain ⟨⟨s1, redeem, refund⟩, hset, t1, href, t2, hlp, hfin⟩ := hx
  obtain ⟨_, r', hr', hred, _, hrf, hs1⟩ := rb_settle_inv hset
  have hs0 : (LP.Props.C09.txc s e).s = s := rfl
  rw [hs0] at hr' hred hrf hs1
  rw [hr] at hr'
  obtain rfl : r = r' := Option.some.inj hr'
  have hlen : rangeLen r = 0 := by unfold rangeLen; omega
  have hred0 : redeem = 0 := by rw [hred, hlen]; rfl
  have hrf0 : refund = 0 := by rw [hrf, hc]; exact Nat.zero_sub _
  subst hred0 hrf0
  have ht1 := Tx.refund_zero href
  subst ht1
  have ht2 : t2 = (LP.Props.C09.txc s e).setS s1 := by
    unfold Tx.sendLaunchpadTokens at hlp
    simp only [if_true, Except.ok.injEq] at hlp
    exact hlp.symm
  subst ht2
  have hn2 : ((LP.Props.C09.txc s e).setS s1).s.variant.hasNft = false := by
    show s1.variant.hasNft = false
    rw [hs1]; exact hn
  simp only [hn2, Bool.false_eq_true, if_false, pure_ok_iff] at hfin
  subst hfin
  show s1 = _
  rw [hs1]
  have hconf : upd s.confirmed e.caller 0 = s.confirmed := by
    funext x
    by_cases hx : x = e.caller
    · subst hx; simp [hc]
    · simp [upd, hx]
  unfold settled
  rw [hlen, hconf]
  rfl

/-- `claim`: by an address with a non-empty range it is matched by the same claim; by an address
    with an empty range it is matched by NO step (the erased state does not move) -/
theorem zv_PB_claim {T0 : Nat} {hash : List Nat → List Nat} {s z s' : State} {r : Nat} {e : Env}
    {o : Out} (hz : v1_WF T0 z r) (hsim : ZSim s z)
    (hr : r ≤ e.round) (hok : EnvOK e) (hs : step hash s e .claim = .ok (s', o)) :
    ∃ z', v1_WF T0 z' e.round ∧ ZSim s' z' ∧
      (step hash z e .claim = .ok (z', o) ∨
        (z' = z ∧ ∃ rg, s.range e.caller = some rg ∧ rg.last < rg.first ∧
          s' = z_w s (upd s.range e.caller none) (upd s.batch rg.first none) s.blacklist
                (upd s.claimed e.caller true))) := by
  have hfam := zv_fam_of_sim hz hsim
  obtain ⟨f1, f2, _⟩ := v1_fam_flags hfam
  obtain ⟨hcfg, hfl, hvz, hoz, hcf, hop, hlast⟩ := hsim.fields
  have hs2 := hs
  rw [LP.Props.C09.step_claim_ok_iff] at hs2
  obtain ⟨he1, he2, t, hx, rfl, rfl⟩ := hs2
  have hx0 := hx
  rw [exec_claim_nonvested hash _ e (by exact f1)] at hx
  have hx1 := hx
  unfold claimBase at hx1
  simp only [bind_ok_iff] at hx1
  obtain ⟨x, hset, _⟩ := hx1
  obtain ⟨hst, hncl, rg, hrg⟩ := zv_settle_inv hset
  have hst' : s.stage e = .claim := hst
  have hncl' : s.claimed e.caller = false := hncl
  have hrg' : s.range e.caller = some rg := hrg
  obtain ⟨hsel, hadd, _, _⟩ := v1_stage_claim hst'
  have hD : PhD z.core := v1_phase_D hz.phase (by show z.flags.additional = true; rw [hfl]; exact hadd)
  have hfil : s.flags.filtered = true := by rw [← hfl]; exact hD.filtered
  by_cases hne : rg.first ≤ rg.last
  · -- a real participant
    have hR : z.range e.caller = some rg := by rw [hsim.range]; exact z_eraseR_of_ne hrg' hne
    have hC : z.claimed e.caller = (LP.Props.C09.txc s e).s.claimed e.caller := by
      show z.claimed e.caller = s.claimed e.caller
      rw [hncl']
      cases hk : z.claimed e.caller with
      | false => rfl
      | true => rw [hsim.cl _ hk] at hncl'; cases hncl'
    have k1 := z_claimBase (R := z.range) (B := z.batch) (K := z.blacklist) (C := z.claimed)
      (by exact f2) hx (by exact hrg') hR hC
    have htx : LP.Props.C09.txc z e
        = z_wt (LP.Props.C09.txc s e) z.range z.batch z.blacklist z.claimed := by
      conv => lhs; rw [hsim.rest]
      rfl
    have hstep : step hash z e .claim
        = .ok ((z_wt t (upd z.range e.caller none) (upd z.batch rg.first none) z.blacklist
            (upd z.claimed e.caller true)).s, t.o) := by
      rw [LP.Props.C09.step_claim_ok_iff]
      refine ⟨he1, he2, _, ?_, rfl, rfl⟩
      rw [exec_claim_nonvested hash _ e (by show z.variant.vested = false; rw [hvz]; exact f1), htx]
      exact k1
    obtain ⟨_, rg2, B, hrg2, _, hts, _⟩ := v1_claim_state (s := s) hfam
      (by have := hz.tokNe; rw [hsim.rest] at this; exact this)
      (by have := hz.static.2; rw [hsim.rest] at this; exact this) hx0
    have e1 : t.s.range = upd s.range e.caller none := by rw [hts]; rfl
    have e2 : t.s.claimed = upd s.claimed e.caller true := by rw [hts]; rfl
    have e3 : t.s.blacklist = s.blacklist := by rw [hts]; rfl
    have e4 : t.s.flags = s.flags := by rw [hts]; rfl
    refine ⟨_, v1_call_WF (c := .claim) hz hr hok trivial hstep, ⟨rfl, ?_, ?_, ?_, ?_⟩, Or.inl hstep⟩
    · show upd z.range e.caller none = z_eraseR t.s.range
      rw [e1, z_eraseR_upd_none, hsim.range]
    · intro hf
      rw [e4, hfil] at hf; cases hf
    · intro a ha
      show t.s.blacklist a = true
      rw [e3]; exact hsim.bl a ha
    · intro a ha
      have ha' : upd z.claimed e.caller true a = true := ha
      show t.s.claimed a = true
      rw [e2]
      by_cases hx : a = e.caller
      · subst hx; simp
      · rw [upd_other _ _ _ _ hx] at ha' ⊢; exact hsim.cl a ha'
  · -- an address with an empty range: the erased state does not move
    have hzn : z.range e.caller = none := by rw [hsim.range]; exact z_eraseR_of_empty hrg' hne
    have hc0 : s.confirmed e.caller = 0 := by
      rw [← hcf]; exact hD.rngNone e.caller hzn
    have hst2 := zv_claim_stutter f1 f2 hs hrg' (by omega) hc0
    refine ⟨z, v1_wait_WF hz hr, ⟨?_, ?_, ?_, ?_, ?_⟩, Or.inr ⟨rfl, rg, hrg', by omega, hst2⟩⟩
    · rw [hst2, z_w_w]; exact hsim.rest
    · rw [hst2]
      show z.range = z_eraseR (upd s.range e.caller none)
      rw [z_eraseR_upd_none, ← hsim.range, z_upd_none_self _ _ hzn]
    · intro hf
      rw [hst2] at hf
      have hf' : s.flags.filtered = false := hf
      rw [hfil] at hf'; cases hf'
    · intro a ha
      rw [hst2]
      exact hsim.bl a ha
    · intro a ha
      rw [hst2]
      show upd s.claimed e.caller true a = true
      by_cases hx : a = e.caller
      · subst hx; simp
      · rw [upd_other _ _ _ _ hx]; exact hsim.cl a ha

/-! ### reachable states without the restriction `v1_CallOK` -/

/-- states reachable from a deployment with arguments `a0` by ANY accepted calls (no `v1_CallOK`:
    `addTicketsV1` entries may have zero tickets) -/
inductive v1_ReachZA (hash : List Nat → List Nat) (v : Variant) (a0 : InitArgs) : State → Nat → Prop
  | init (e : Env) (s : State) : init v a0 e = .ok s → v1_ReachZA hash v a0 s e.round
  | call (s : State) (r : Nat) (e : Env) (c : Call) (s' : State) (o : Out) :
      v1_ReachZA hash v a0 s r → r ≤ e.round → EnvOK e →
      step hash s e c = .ok (s', o) → v1_ReachZA hash v a0 s' e.round
  | wait (s : State) (r r' : Nat) : v1_ReachZA hash v a0 s r → r ≤ r' → v1_ReachZA hash v a0 s r'

/-- `v1_Reach` without the `v1_CallOK` premise -/
inductive v1_ReachZ (hash : List Nat → List Nat) (v : Variant) : State → Nat → Prop
  | init (a : InitArgs) (e : Env) (s : State) : init v a e = .ok s → v1_ReachZ hash v s e.round
  | call (s : State) (r : Nat) (e : Env) (c : Call) (s' : State) (o : Out) :
      v1_ReachZ hash v s r → r ≤ e.round → EnvOK e →
      step hash s e c = .ok (s', o) → v1_ReachZ hash v s' e.round
  | wait (s : State) (r r' : Nat) : v1_ReachZ hash v s r → r ≤ r' → v1_ReachZ hash v s r'

theorem v1_ReachZ_iff {hash : List Nat → List Nat} {v : Variant} {s : State} {r : Nat} :
    v1_ReachZ hash v s r ↔ ∃ a0, v1_ReachZA hash v a0 s r := by
  constructor
  · intro h
    induction h with
    | init a e s h => exact ⟨a, .init e s h⟩
    | call s r e c s' o _ h1 h2 h3 ih =>
      obtain ⟨a0, ih⟩ := ih
      exact ⟨a0, .call s r e c s' o ih h1 h2 h3⟩
    | wait s r r' _ h1 ih =>
      obtain ⟨a0, ih⟩ := ih
      exact ⟨a0, .wait s r r' ih h1⟩
  · rintro ⟨a0, h⟩
    induction h with
    | init e s h => exact .init a0 e s h
    | call s r e c s' o _ h1 h2 h3 ih => exact .call s r e c s' o ih h1 h2 h3
    | wait s r r' _ h1 ih => exact .wait s r r' ih h1

/-- every state of the original development is a `v1_ReachZ` state -/
theorem v1_ReachA.toZ {hash : List Nat → List Nat} {v : Variant} {a0 : InitArgs} {s : State} {r : Nat}
    (h : v1_ReachA hash v a0 s r) : v1_ReachZA hash v a0 s r := by
  induction h with
  | init e s h => exact .init e s h
  | call s r e c s' o _ h1 h2 _ h4 ih => exact .call s r e c s' o ih h1 h2 h4
  | wait s r r' _ h1 ih => exact .wait s r r' ih h1

theorem v1_Reach.toZ {hash : List Nat → List Nat} {v : Variant} {s : State} {r : Nat}
    (h : v1_Reach hash v s r) : v1_ReachZ hash v s r := by
  obtain ⟨a0, h⟩ := v1_Reach_iff.mp h
  exact v1_ReachZ_iff.mpr ⟨a0, h.toZ⟩

/-! ### the simulation invariant -/

/-- before the first `filter` call: the shadow invariant `zv_PA`; afterwards: `ZSim`-related to a
    well-formed state of the original development -/
def zv_Inv (T0 : Nat) (s : State) (r : Nat) : Prop :=
  zv_PA T0 s r ∨ (s.flags.started = true ∧ ∃ z, v1_WF T0 z r ∧ ZSim s z)

theorem zv_PA_flags {T0 : Nat} {s : State} {r : Nat} (h : zv_PA T0 s r) :
    s.flags.filtered = false ∧ s.flags.selected = false ∧ s.flags.additional = false ∧
    v1_Fam s.variant := by
  obtain ⟨U, BU, N, TG, hwf, _⟩ := h.sh
  obtain ⟨hadd, _, L0, hp, _, _⟩ := v1_phase_notStarted hwf.phase h.ns
  exact ⟨hp.notFiltered, hp.notSelected, hadd, hwf.var⟩

/-- one accepted call before the first `filter` call -/
theorem zv_PA_step {T0 : Nat} {hash : List Nat → List Nat} {s s' : State} {e : Env} {c : Call}
    {o : Out} {r : Nat} (h : zv_PA T0 s r) (hr : r ≤ e.round) (hok : EnvOK e)
    (hs : step hash s e c = .ok (s', o)) : zv_Inv T0 s' e.round := by
  obtain ⟨hnf, hnsel, hnadd, hfam⟩ := zv_PA_flags h
  have hex := v1_exposed hfam hs
  have hclaim : s.stage e ≠ .claim := by
    intro hst
    have := (v1_stage_claim hst).1
    rw [hnsel] at this; cases this
  cases c with
  | addTicketsV1 l => exact Or.inl (zv_PA_add h hr hok hs)
  | confirm n => exact Or.inl (zv_PA_confirm h hr hok hs)
  | blacklist l => exact Or.inl (zv_PA_blacklist h hr hok hs)
  | unblacklist l => exact Or.inl (zv_PA_unblacklist h hr hok hs)
  | filter =>
    obtain ⟨z', h1, h2, h3, _⟩ := zv_PA_filter h hr hs
    exact Or.inr ⟨h3, z', h1, h2⟩
  | select =>
    have := (LP.Props.C06.select_gate hash s e _ hs).2.1
    rw [hnf] at this; cases this
  | distribute =>
    have := (LP.Props.C06.additional_gate hash s e .distribute _ (Or.inl rfl) hs).2.1
    rw [hnsel] at this; cases this
  | claim =>
    rcases LP.Props.C06.claim_gate hash s e _ hs with h1 | ⟨h1, _⟩
    · exact absurd h1 hclaim
    · rw [(v1_fam_flags hfam).1] at h1; cases h1
  | claimPayment => exact absurd (LP.Props.C06.claimPayment_gate hash s e _ hs) hclaim
  | deposit | setTicketPrice _ _ | setPerTicket _ | setConfStart _ | setSelStart _ | setClaimStart _
  | setSupport _ | pause | unpause => exact Or.inl (zv_PA_indep rfl h hr hok hs)
  | _ => exact absurd hex id

/-- one accepted call after the first `filter` call -/
theorem zv_PB_step {T0 : Nat} {hash : List Nat → List Nat} {s z s' : State} {e : Env} {c : Call}
    {o : Out} {r : Nat} (hst : s.flags.started = true) (hz : v1_WF T0 z r) (hsim : ZSim s z)
    (hr : r ≤ e.round) (hok : EnvOK e)
    (hs : step hash s e c = .ok (s', o)) : zv_Inv T0 s' e.round := by
  have hfam := zv_fam_of_sim hz hsim
  have hex := v1_exposed hfam hs
  have hst' : s'.flags.started = true := (step_flags_gain4 hs).1 hst
  obtain ⟨hcfg, hfl, _⟩ := hsim.fields
  have htl := hz.tlStarted (by rw [hfl]; exact hst)
  rw [hcfg] at htl
  have hearly : ¬ (s.stage e = .addTickets ∨ s.stage e = .confirm) := by
    rintro (h1 | h1)
    · have := rb_stage_addTickets h1; omega
    · have := (rb_stage_confirm h1).2; omega
  cases c with
  | addTicketsV1 l =>
    exact absurd (Or.inl (LP.Props.C06.alloc_only_in_addTickets hash s e _ _
      (Or.inr (Or.inl ⟨l, rfl⟩)) hs)) hearly
  | blacklist l =>
    exact absurd (LP.Props.C06.blacklist_only_before_selection hash s e _ _ (Or.inl ⟨l, rfl⟩) hs) hearly
  | unblacklist l =>
    exact absurd (LP.Props.C06.blacklist_only_before_selection hash s e _ _
      (Or.inr (Or.inr ⟨l, rfl⟩)) hs) hearly
  | confirm n =>
    obtain ⟨z', h1, h2, _⟩ := zv_PB_confirm hz hsim hr hok hs; exact Or.inr ⟨hst', z', h1, h2⟩
  | filter =>
    obtain ⟨z', h1, h2, _⟩ := zv_PB_filter hz hsim hr hok hs; exact Or.inr ⟨hst', z', h1, h2⟩
  | distribute =>
    obtain ⟨z', h1, h2, _⟩ := zv_PB_distribute hz hsim hr hok hs; exact Or.inr ⟨hst', z', h1, h2⟩
  | claim =>
    obtain ⟨z', h1, h2, _⟩ := zv_PB_claim hz hsim hr hok hs; exact Or.inr ⟨hst', z', h1, h2⟩
  | deposit | setTicketPrice _ _ | setPerTicket _ | setConfStart _ | setSelStart _ | setClaimStart _
  | setSupport _ | pause | unpause | select | claimPayment =>
    obtain ⟨z', h1, h2, _⟩ := zv_PB_indep rfl hz hsim hr hok hs; exact Or.inr ⟨hst', z', h1, h2⟩
  | _ => exact absurd hex id

theorem zv_Inv_step {T0 : Nat} {hash : List Nat → List Nat} {s s' : State} {e : Env} {c : Call}
    {o : Out} {r : Nat} (h : zv_Inv T0 s r) (hr : r ≤ e.round) (hok : EnvOK e)
    (hs : step hash s e c = .ok (s', o)) : zv_Inv T0 s' e.round := by
  rcases h with h | ⟨hst, z, hz, hsim⟩
  · exact zv_PA_step h hr hok hs
  · exact zv_PB_step hst hz hsim hr hok hs

theorem zv_Inv_wait {T0 : Nat} {s : State} {r r' : Nat} (h : zv_Inv T0 s r) (hr : r ≤ r') :
    zv_Inv T0 s r' := by
  rcases h with h | ⟨hst, z, hz, hsim⟩
  · obtain ⟨U, BU, N, TG, hwf, hU⟩ := h.sh
    exact Or.inl ⟨⟨U, BU, N, TG, v1_wait_WF hwf hr, hU⟩, h.gx, h.sum, h.hd, h.ns⟩
  · exact Or.inr ⟨hst, z, v1_wait_WF hz hr, hsim⟩

theorem zv_Inv_init {v : Variant} (hv : v1_Fam v) {a : InitArgs} {e : Env} {s : State}
    (h : init v a e = .ok s) : zv_Inv a.nrWinning s e.round := by
  have hwf := v1_init_WF hv h
  obtain ⟨h1, h2, h3, h4, h5, h6, h7, h8, h9, h10, h11, h12, h13, h14, h15, h16, h17, h18,
    h19, h20, h21, h22, h23, h24, h25⟩ := v1_init_inv hv h
  have hsh : zv_sh s s.uts s.blUts s.nrWinning s.totalGuaranteed = s := by
    have e1 : z_eraseR s.range = s.range := by rw [h14]; rfl
    have e2 : z_eraseB s.batch = s.batch := by rw [h15]; rfl
    have e3 : zv_K s.range s.blacklist = s.blacklist := by
      funext a
      unfold zv_K
      rw [h23]; rfl
    unfold zv_sh
    rw [e1, e2, e3, ← h20]
    rfl
  refine Or.inl ⟨⟨s.uts, s.blUts, s.nrWinning, s.totalGuaranteed, by rw [hsh]; exact hwf, ?_⟩,
    GuarInvX_initial s h20 h21 h22 h14 h23, by rw [h8, h21]; rfl, ?_, by rw [h9]⟩
  · intro u hu
    rw [h14] at hu
    cases hu
  · intro i b _ hb
    rw [h15] at hb; cases hb

/-- **SIMULATION INVARIANT**: it holds in every state reachable WITHOUT the restriction
    `v1_CallOK` -/
theorem zv_sim {hash : List Nat → List Nat} {v : Variant} (hv : v1_Fam v) {a0 : InitArgs}
    {s : State} {r : Nat} (h : v1_ReachZA hash v a0 s r) : zv_Inv a0.nrWinning s r := by
  induction h with
  | init e s h => exact zv_Inv_init hv h
  | call s r e c s' o _ h1 h2 h3 ih => exact zv_Inv_step ih h1 h2 h3
  | wait s r r' _ h1 ih => exact zv_Inv_wait ih h1

/-! ### what the invariant gives on the REAL state -/

theorem zv_ZSim_z (s : State) : ZSim s (zv_z s) := by
  refine ⟨rfl, rfl, fun _ => rfl, fun a ha => ?_, fun _ h => h⟩
  have h2 : zv_K s.range s.blacklist a = true := ha
  unfold zv_K at h2
  simp only [Bool.and_eq_true] at h2
  exact h2.1

/-- the ledger (C01), the three counts and the ranges -/
theorem zv_Inv_ledger {T0 : Nat} {s : State} {r : Nat} (h : zv_Inv T0 s r) :
    ∃ L : List Nat, Covers s L ∧ (¬ AllDone s → PayEqPre s L) ∧
      (AllDone s → PayEqPost s L ∧ sumOver (winCountOf s) L = s.nrWinning ∧
        (∀ a, winCountOf s a ≤ s.confirmed a) ∧
        (∀ a rg, s.range a = some rg → rangeLen rg = s.confirmed a ∧ (rg.first ≤ rg.last → a ∈ L))) := by
  rcases h with h | ⟨_, z, hz, hsim⟩
  · obtain ⟨U, BU, N, TG, hwf, _⟩ := h.sh
    obtain ⟨_, _, hadd, _⟩ := zv_PA_flags h
    obtain ⟨L, h1, h2, _⟩ := v1_WF_ledger hwf
    have hnd : ¬ AllDone s := by intro hd; have := hd.2; rw [hadd] at this; cases this
    exact ⟨L, ⟨h1.nodup, h1.supp⟩, fun _ => h2 hnd, fun hd => absurd hd hnd⟩
  · obtain ⟨L, h1, h2, h3⟩ := v1_WF_ledger hz
    have hfl : z.flags = s.flags := hsim.fields.2.1
    have hcf : z.confirmed = s.confirmed := hsim.fields.2.2.2.2.1
    have hdz : AllDone s → AllDone z := fun hd => by unfold AllDone; rw [hfl]; exact hd
    have hnone : AllDone s → ∀ a, z.range a = none → z.confirmed a = 0 := fun hd =>
      (v1_phase_D hz.phase (hdz hd).2).rngNone
    have hrange := hsim.range
    have hwc : ∀ a, winCountOf s a = winCountOf z a := fun a => hsim.winCountOf_eq a
    have hrd : AllDone s → ∀ a, refundDue s a = refundDue z a := fun hd a =>
      hsim.refundDue_eq (hnone hd) a
    obtain ⟨R, B, K, C, rfl⟩ := hsim.shape'
    refine ⟨L, ⟨h1.nodup, h1.supp⟩, h2, fun hd => ?_⟩
    obtain ⟨k1, k2, k3, k4⟩ := h3 (hdz hd)
    refine ⟨?_, ?_, ?_, ?_⟩
    · unfold PayEqPost at k1 ⊢
      rw [sumOver_congr (fun a _ => hrd hd a)]
      exact k1
    · rw [sumOver_congr (fun a _ => hwc a)]; exact k2
    · intro a; rw [hwc a]; exact k3 a
    · intro a rg hr
      by_cases hne : rg.first ≤ rg.last
      · have hzr : (z_w s R B K C).range a = some rg := by rw [hrange]; exact z_eraseR_of_ne hr hne
        obtain ⟨j1, _, j3⟩ := k4 a rg hzr
        have j3' : rg.last + 1 = rg.first + s.confirmed a := j3
        exact ⟨by unfold rangeLen; omega, fun _ => j1⟩
      · have hzr : (z_w s R B K C).range a = none := by rw [hrange]; exact z_eraseR_of_empty hr hne
        have hc : s.confirmed a = 0 := hnone hd a hzr
        refine ⟨?_, fun hh => absurd hh hne⟩
        rw [hc]; unfold rangeLen; omega

/-- launchpad-token coverage -/
theorem zv_Inv_lp {T0 : Nat} {s : State} {r : Nat} (h : zv_Inv T0 s r) (hd : s.deposited = true) :
    s.perTicket * v1_owed s ≤ s.bal (.esdt s.lpTok) 0 := by
  rcases h with h | ⟨_, z, hz, hsim⟩
  · exact (zv_WFA_of_PA h).lp hd
  · have hdz : z.deposited = true := by
      have := congrArg State.deposited hsim.rest
      rw [this]; exact hd
    have := hz.lp hdz
    obtain ⟨R, B, K, C, rfl⟩ := hsim.shape'
    exact this

/-- reserve conservation -/
theorem zv_Inv_reserve {T0 : Nat} {s : State} {r : Nat} (h : zv_Inv T0 s r) :
    (s.flags.filtered = false → s.nrWinning + s.totalGuaranteed = T0) ∧
    (s.flags.additional = false → s.nrWinning + s.totalGuaranteed ≤ T0) := by
  rcases h with h | ⟨_, z, hz, hsim⟩
  · exact ⟨fun _ => h.sum, fun _ => Nat.le_of_eq h.sum⟩
  · have h1 := v1_reserve_before_filter hz
    have h2 := v1_owed_le hz
    obtain ⟨R, B, K, C, rfl⟩ := hsim.shape'
    exact ⟨h1, h2⟩

/-- an accepted `distribute` call is matched by the same call on a well-formed erased state -/
theorem zv_Inv_distribute {T0 : Nat} {hash : List Nat → List Nat} {s s' : State} {e : Env}
    {o : Out} {r : Nat} (h : zv_Inv T0 s r) (hr : r ≤ e.round) (hok : EnvOK e)
    (hs : step hash s e .distribute = .ok (s', o)) :
    ∃ z z', v1_WF T0 z r ∧ ZSim s z ∧ ZSim s' z' ∧ step hash z e .distribute = .ok (z', o) := by
  rcases h with h | ⟨_, z, hz, hsim⟩
  · exfalso
    have := (LP.Props.C06.additional_gate hash s e .distribute _ (Or.inl rfl) hs).2.1
    rw [(zv_PA_flags h).2.1] at this; cases this
  · obtain ⟨z', _, h2, h3⟩ := zv_PB_distribute hz hsim hr hok hs
    exact ⟨z, z', hz, hsim, h2, h3⟩

/-- once the lottery is complete the real state is `ZSim`-related to a well-formed state -/
theorem zv_Inv_selected {T0 : Nat} {s : State} {r : Nat} (h : zv_Inv T0 s r)
    (hsel : s.flags.selected = true) : ∃ z, v1_WF T0 z r ∧ ZSim s z := by
  rcases h with h | ⟨_, z, hz, hsim⟩
  · have := (zv_PA_flags h).2.1
    rw [hsel] at this; cases this
  · exact ⟨z, hz, hsim⟩

end LP

#print axioms LP.zv_sim
