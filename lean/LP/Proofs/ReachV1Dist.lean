import LP.Proofs.ReachV1Loops
/-
  LP.Proofs.ReachV1Dist — preservation of `v1_WF` by `distribute` (v1 top-up + v1 leftover
  re-draw), for ANY budget and from a fresh or a saved operation: interrupted in the first loop,
  interrupted in the second loop, or completed (`distribute_ok_cases`, LP/Proofs/Resume.lean).
  At completion the hand-over to the post-selection ledger equation is made with
  `claimablePayment += price × additional`, `nrWinning += additional`.
-/
namespace LP
open LP.FY

/-! ### the ticket space in phase E -/

theorem v1_RI_of_alloc {s : State}
    (halloc : ∃ Ls : List (Nat × Nat), (Ls.map Prod.fst).Nodup ∧
      (∀ p ∈ Ls, 1 ≤ p.2 ∧ p.2 = s.confirmed p.1) ∧ Chain Ls 1 s.range s.batch ∧
      s.lastTicketId = ticketTotal Ls ∧
      (∀ a, a ∉ Ls.map Prod.fst → s.range a = none ∧ s.confirmed a = 0) ∧
      PayPre s.core (Ls.map Prod.fst)) : v1_RI s := by
  obtain ⟨Ls, _, hLs, hch, hlast, hout, _⟩ := halloc
  have hpos : ∀ p ∈ Ls, 1 ≤ p.2 := fun p hp => (hLs p hp).1
  refine ⟨?_, ?_⟩
  · intro u r hr
    have hin : u ∈ Ls.map Prod.fst := by
      apply Classical.byContradiction
      intro hn
      rw [(hout u hn).1] at hr; cases hr
    obtain ⟨p, hp, rfl⟩ := List.mem_map.mp hin
    obtain ⟨r', hr', h1, h2, h3, h4⟩ := Chain_bounds hch hpos p hp
    rw [hr] at hr'
    injection hr' with hr'
    subst hr'
    have hc := (hLs p hp).2
    unfold RangeIn rangeLen
    rw [hlast]
    exact ⟨⟨h1, by omega⟩, by omega⟩
  · intro u hr
    by_cases hin : u ∈ Ls.map Prod.fst
    · obtain ⟨rr, hrr⟩ := rb_Chain_range_some hch hin
      rw [hr] at hrr; cases hrr
    · exact (hout u hin).2

/-! ### the hand-over at the completion of the distribution -/

theorem v1_handover {c : Core} (hst : c.flags.started = true) (hfil : c.flags.filtered = true)
    (hsel : c.flags.selected = true)
    (halloc : ∃ Ls : List (Nat × Nat), (Ls.map Prod.fst).Nodup ∧
      (∀ p ∈ Ls, 1 ≤ p.2 ∧ p.2 = c.confirmed p.1) ∧ Chain Ls 1 c.range c.batch ∧
      c.lastTicketId = ticketTotal Ls ∧
      (∀ a, a ∉ Ls.map Prod.fst → c.range a = none ∧ c.confirmed a = 0) ∧
      PayPre c (Ls.map Prod.fst))
    {st' : Nat → Bool} {pi' : Nat → Nat} {n' cl : Nat}
    (hcount : countTrue st' c.lastTicketId = n') (hcl : cl = c.price * n') :
    PhD { c with status := st', posToId := pi', op := .none,
                 flags := { c.flags with additional := true },
                 claimable := cl, nrWinning := n' } := by
  obtain ⟨Ls, hnd, hLs, hch, hlast, hout, hpay⟩ := halloc
  have hpos : ∀ p ∈ Ls, 1 ≤ p.2 := fun p hp => (hLs p hp).1
  have hcc := rb_chain_count st' hch (Nat.le_refl 1)
  simp only [Nat.sub_self, Nat.zero_add, countTrue] at hcc
  rw [← hlast, hcount] at hcc
  have hmem : ∀ a r, c.range a = some r → ∃ p ∈ Ls, p.1 = a := by
    intro a r hr
    apply Classical.byContradiction
    intro hn
    have : a ∉ Ls.map Prod.fst := by
      intro hin
      obtain ⟨p, hp, hpa⟩ := List.mem_map.mp hin
      exact hn ⟨p, hp, hpa⟩
    rw [(hout a this).1] at hr; cases hr
  have hrngOk : ∀ a r, c.range a = some r → r.first ≤ r.last ∧ r.last + 1 = r.first + c.confirmed a := by
    intro a r hr
    obtain ⟨p, hp, rfl⟩ := hmem a r hr
    obtain ⟨r', hr', _, h2, _, h4⟩ := Chain_bounds hch hpos p hp
    rw [hr] at hr'
    injection hr' with hr'
    subst hr'
    exact ⟨h2, by rw [h4, (hLs p hp).2]⟩
  have hrngNone : ∀ a, c.range a = none → c.confirmed a = 0 := by
    intro a hr
    by_cases hin : a ∈ Ls.map Prod.fst
    · obtain ⟨rr, hrr⟩ := rb_Chain_range_some hch hin
      rw [hr] at hrr; cases hrr
    · exact (hout a hin).2
  refine ⟨hst, hfil, hsel, rfl, hrngOk, hrngNone, ?_, ?_⟩
  · intro a b ra rb hab hra hrb
    obtain ⟨p, hp, rfl⟩ := hmem a ra hra
    obtain ⟨q, hq, rfl⟩ := hmem b rb hrb
    exact Chain_disjoint hch hpos p hp q hq hab ra rb hra hrb
  · refine ⟨Ls.map Prod.fst, hnd, ?_, ?_, hcc⟩
    · intro a ha
      apply Classical.byContradiction
      intro hin
      exact ha (hout a hin).2
    · apply rb_pre_to_post
      · exact hpay
      · show cl = c.price * sumOver (winOf c.range st') (Ls.map Prod.fst)
        rw [hcc]; exact hcl
      · intro a _
        show winOf c.range st' a ≤ c.confirmed a
        cases hr : c.range a with
        | none => simp [winOf, hr]
        | some r => exact rb_winOf_le hr (hrngOk a r hr).2
      · intro a _ hr
        exact hrngNone a hr

/-! ### the three outcomes of an accepted call -/

theorem v1_guarOpOf {s : State} {e : Env} {g : GuarOp} {lo off add : Nat}
    (hg : guarOpOf (rbTx s e) = some g)
    (hop : (s.op = .none ∧ lo = 0 ∧ off = 1 ∧ add = 0) ∨
      ∃ rng, s.op = .additional (.guar ⟨rng, lo, off, add⟩)) :
    g.leftover = lo ∧ g.offset = off ∧ g.additional = add := by
  unfold guarOpOf at hg
  simp only [rbTx_s] at hg
  rcases hop with ⟨hop, rfl, rfl, rfl⟩ | ⟨rng, hop⟩
  · rw [hop] at hg
    simp only [Option.some.injEq] at hg
    subst hg
    exact ⟨rfl, rfl, rfl⟩
  · rw [hop] at hg
    simp only [Option.some.injEq] at hg
    subst hg
    exact ⟨rfl, rfl, rfl⟩

theorem v1_distribute_cases {T0 : Nat} {hash : List Nat → List Nat} {s s' : State} {e : Env}
    {o : Out} {r : Nat} (h : v1_WF T0 s r) (hs : step hash s e .distribute = .ok (s', o)) :
    s.stage e = .winnerSelection ∧ s.totalGuaranteed ≤ T0 ∧ v1_PhE T0 s.core (v1_gv s) ∧
    ∃ (g : GuarOp) (x : GSt), v1_G1 s s.nrWinning s.totalGuaranteed x ∧
      PosInv s.lastTicketId s.status s.posToId (s.nrWinning + g.offset) ∧
      ((s' = distSaved1 s g x ∧ o.ret = [1]) ∨
       (x.whitelist = [] ∧ ∃ z : LCore,
          ((s' = distSaved2 s x z ∧ o.ret = [1] ∧
              v1_L2 s.lastTicketId s.nrWinning s.totalGuaranteed x.status z) ∨
           (s' = distDone s x z ∧ o.ret = [0] ∧
             LInv s.lastTicketId s.nrWinning (z.lift default) ∧
             z.additional ≤ s.totalGuaranteed ∧ (∀ t, x.status t = true → z.status t = true) ∧
             (s.nrWinning + z.additional ≥ s.lastTicketId ∨
               z.additional = s.totalGuaranteed))))) := by
  have hiv2 : s.variant.isV2 = false := (v1_fam_flags h.var).2.2.1
  obtain ⟨t, hx, rfl, rfl⟩ := LP.Props.C20.step_nopay_inv (by
    intro m hm; simp only [endpointMeta] at hm; split at hm
    · simp at hm; rw [← hm]
    · cases hm) hs
  simp only [exec] at hx
  have hx' : distribute hash (rbTx s e) e = .ok t := hx
  obtain ⟨hpre, g, x, b1, hg, _, hcase⟩ := distribute_ok_cases hash (rbTx s e) t e hx'
  simp only [rbTx_s] at hpre hcase
  obtain ⟨htg, hE⟩ := v1_phase_E h.phase hpre.selected hpre.notDone
  refine ⟨hpre.stage, htg, hE, g, x, ?_⟩
  obtain ⟨lo, off, add, hop, hpos, hcount, hsplit, hhon⟩ := hE.dist
  obtain ⟨hg1, hg2, hg3⟩ := v1_guarOpOf hg hop
  have hRI : v1_RI s := v1_RI_of_alloc hE.alloc
  have hG0 : v1_G1 s s.nrWinning s.totalGuaranteed (guarX s g) := by
    refine ⟨rfl, hpos.inside, fun _ ht => ht, ?_, ?_, hhon⟩
    · show countTrue s.status s.lastTicketId = s.nrWinning + g.additional
      rw [hg3]; exact hcount
    · show g.leftover + g.additional + gSum false s.uts s.whitelist = s.totalGuaranteed
      rw [hg1, hg3]; exact hsplit
  have hpos' : PosInv s.lastTicketId s.status s.posToId (s.nrWinning + g.offset) := by
    rw [hg2]; exact hpos
  rcases hcase with ⟨hrun, hs', hret, _⟩ | ⟨hrun, z, b2, hcase2⟩
  · have hG := (v1_loop1 hiv2 hRI hrun hG0).1 rfl
    exact ⟨hG, hpos', Or.inl ⟨hs', hret⟩⟩
  · obtain ⟨hG, hnil⟩ := (v1_loop1 hiv2 hRI hrun hG0).2 rfl
    refine ⟨hG, hpos', Or.inr ⟨hnil, z, ?_⟩⟩
    rw [hiv2] at hcase2
    have hL0 : v1_L2 s.lastTicketId s.nrWinning s.totalGuaranteed x.status
        (leftZ (guarS1 s x) (guarG1 g x) (rbTx s e).dctx) := by
      refine ⟨⟨?_, hG.count⟩, ?_, fun _ ht => ht⟩
      · exact v1_PosInv_mono hpos' hG.mono hG.flagsIn
      · have := hG.split
        rw [hnil] at this
        simp only [gSum_nil, Nat.add_zero] at this
        exact this
    rcases hcase2 with ⟨hrun2, hs', hret, _⟩ | ⟨hrun2, hs', hret, _⟩
    · exact Or.inl ⟨hs', hret, (v1_loop2 hrun2 hL0).1 rfl⟩
    · exact Or.inr ⟨hs', hret, (v1_loop2 hrun2 hL0).2 rfl⟩

/-! ### the endpoint -/

theorem v1_PhE_next {T0 : Nat} {s s' : State} (hE : v1_PhE T0 s.core (v1_gv s))
    (hcore : s'.core = { s.core with status := s'.status, posToId := s'.posToId, op := s'.op })
    (hgv : v1_gv s' = { v1_gv s with whitelist := s'.whitelist })
    {rng : Rng} {lo off add : Nat} (hop : s'.op = .additional (.guar ⟨rng, lo, off, add⟩))
    (hpos : PosInv s.lastTicketId s'.status s'.posToId (s.nrWinning + off))
    (hcount : countTrue s'.status s.lastTicketId = s.nrWinning + add)
    (hsplit : lo + add + gSum false s.uts s'.whitelist = s.totalGuaranteed)
    (hhon : ∀ u st, s.uts u = some st → gOf false st > 0 →
      u ∈ s'.whitelist ∨ v1_HonS s s'.status u st) :
    v1_PhE T0 s'.core (v1_gv s') := by
  rw [hcore, hgv]
  refine ⟨hE.started, hE.filtered, hE.selected, hE.nrw, hE.claimable, hE.alloc, ?_, lo, off, add,
    Or.inr ⟨rng, hop⟩, hpos, hcount, hsplit, hhon⟩
  intro h0
  have h0' : s'.op = .none := h0
  rw [hop] at h0'; cases h0'

theorem v1_distribute {T0 : Nat} {hash : List Nat → List Nat} {s s' : State} {e : Env} {o : Out}
    {r : Nat} (h : v1_WF T0 s r) (_hr : r ≤ e.round)
    (hs : step hash s e .distribute = .ok (s', o)) : v1_WF T0 s' e.round := by
  obtain ⟨hstage, htg, hE, g, x, hG, hpos, hcase⟩ := v1_distribute_cases h hs
  obtain ⟨hc1, hc2⟩ := rb_stage_winnerSelection hstage
  have hnadd : s.flags.additional = false := by
    rcases h.phase with ⟨ha, _⟩ | ⟨ha, hd⟩
    · exact ha
    · exfalso
      obtain ⟨_, _, _, hh⟩ : True ∧ True ∧ True ∧ s.flags.additional = false := by
        obtain ⟨t, hx, _, _⟩ := LP.Props.C20.step_nopay_inv (by
          intro m hm; simp only [endpointMeta] at hm; split at hm
          · simp at hm; rw [← hm]
          · cases hm) hs
        simp only [exec] at hx
        exact ⟨trivial, trivial, trivial, (distribute_ok_cases hash _ t e hx).1.notDone⟩
      have ha' : s.flags.additional = true := ha
      rw [hh] at ha'; cases ha'
  rcases hcase with ⟨rfl, _⟩ | ⟨hnil, z, ⟨rfl, _, hL⟩ | ⟨rfl, _, hinv, hle, hmono, _⟩⟩
  · -- interrupted in the first loop
    refine ⟨h.var, h.pricePos, h.tokNe, h.static, h.balOther, ?_, ?_, h.lp, ?_⟩
    · intro hlt; exfalso; have : e.round < s.cfg.conf := hlt; omega
    · intro _; exact ⟨hc1, hc2⟩
    · left
      refine ⟨hnadd, htg, Or.inr (Or.inr ?_)⟩
      exact v1_PhE_next (s := s) (s' := distSaved1 s g x) hE rfl rfl
        (rng := g.rng) (lo := x.leftover) (off := g.offset) (add := x.additional) rfl
        (v1_PosInv_mono hpos hG.mono hG.flagsIn) hG.count hG.split hG.hon
  · -- interrupted in the second loop
    refine ⟨h.var, h.pricePos, h.tokNe, h.static, h.balOther, ?_, ?_, h.lp, ?_⟩
    · intro hlt; exfalso; have : e.round < s.cfg.conf := hlt; omega
    · intro _; exact ⟨hc1, hc2⟩
    · left
      refine ⟨hnadd, htg, Or.inr (Or.inr ?_)⟩
      refine v1_PhE_next (s := s) (s' := distSaved2 s x z) hE rfl rfl
        (rng := z.rng) (lo := z.leftover) (off := z.offset) (add := z.additional) rfl
        hL.inv.pinv hL.inv.count ?_ ?_
      · show z.leftover + z.additional + gSum false s.uts x.whitelist = s.totalGuaranteed
        rw [hnil]; simp only [gSum_nil, Nat.add_zero]; exact hL.sum
      · intro u st hu hp
        rcases hG.hon u st hu hp with hm | hh
        · rw [hnil] at hm; cases hm
        · exact Or.inr (v1_HonS_mono hL.mono hh)
  · -- completed
    refine ⟨h.var, h.pricePos, h.tokNe, h.static, h.balOther, ?_, ?_, ?_, ?_⟩
    · intro hlt; exfalso; have : e.round < s.cfg.conf := hlt; omega
    · intro _; exact ⟨hc1, hc2⟩
    · intro hd
      have h0 := h.lp hd
      have e1 : v1_owed (distDone s x z) ≤ v1_owed s := by
        unfold v1_owed
        show (s.nrWinning + z.additional + 0) ≤ s.nrWinning + if s.flags.additional = true then 0 else s.totalGuaranteed
        rw [hnadd]
        simp only [Bool.false_eq_true, if_false]
        omega
      exact Nat.le_trans (Nat.mul_le_mul_left s.perTicket e1) h0
    · right
      refine ⟨rfl, ?_⟩
      have hcl : s.claimablePayment = s.price * s.nrWinning := hE.claimable
      exact v1_handover (c := s.core) hE.started hE.filtered hE.selected hE.alloc
        (st' := z.status) (pi' := z.posToId) (n' := s.nrWinning + z.additional)
        (cl := s.claimablePayment + s.price * z.additional) hinv.count
        (by rw [hcl, Nat.mul_add]; rfl)

end LP
