import LP.Proofs.StepLemmas
/-
  Helper lemmas for C20 (events) and C10 (blacklist): exact characterisation of `Tx.send`,
  `Tx.refund`, `blacklistMany`.
-/
namespace LP.Events

/-! ### send / refund -/

theorem send_ok_iff (t : Tx) (to : Nat) (p : Pay) (t' : Tx) :
    t.send to p = .ok t' ↔
      p.amount ≤ t.s.bal p.tok p.nonce ∧
      t' = { t with s := { t.s with bal := t.s.bal.sub p.tok p.nonce p.amount },
                    o := { t.o with xfers := t.o.xfers ++ [(to, p)] } } := by
  unfold Tx.send
  split
  · constructor
    · intro h; cases h
    · rintro ⟨h, _⟩; omega
  · constructor
    · intro h
      injection h with h
      exact ⟨by omega, h.symm⟩
    · rintro ⟨_, rfl⟩; rfl

/-- the event of `refund_ticket_payment` -/
def refundEv (s : State) (e : Env) (n : Nat) : Ev :=
  ⟨"refundTicketPayment", [e.caller, e.round, e.epoch],
    [e.caller, e.round, e.epoch, n, s.payTok.code, 0, s.price * n]⟩

/-- the payment of `refund_ticket_payment` -/
def refundPay (s : State) (n : Nat) : Pay := ⟨s.payTok, 0, s.price * n⟩

/-- the transaction record after a refund of `n > 0` tickets to `addr` -/
def refundTx (t : Tx) (e : Env) (addr n : Nat) : Tx :=
  { s := { t.s with bal := t.s.bal.sub t.s.payTok 0 (t.s.price * n) },
    c := t.c,
    o := { t.o with xfers := t.o.xfers ++ [(addr, refundPay t.s n)],
                    events := t.o.events ++ [refundEv t.s e n] } }

theorem refund_zero (t : Tx) (e : Env) (addr : Nat) : t.refund e addr 0 = .ok t := by
  simp [Tx.refund]

theorem refund_pos_ok_iff (t : Tx) (e : Env) (addr n : Nat) (hn : 0 < n) (t' : Tx) :
    t.refund e addr n = .ok t' ↔
      t.s.price * n ≤ t.s.bal t.s.payTok 0 ∧ t' = refundTx t e addr n := by
  unfold Tx.refund
  have : n ≠ 0 := by omega
  simp only [this, ↓reduceIte, bind_ok_iff, pure_ok_iff, send_ok_iff]
  constructor
  · rintro ⟨t1, ⟨hle, rfl⟩, rfl⟩
    exact ⟨hle, rfl⟩
  · rintro ⟨hle, rfl⟩
    exact ⟨_, ⟨hle, rfl⟩, rfl⟩

/-! ### blacklistMany -/

theorem Bal.sub_zero (b : Bal) (t : Token) (n : Nat) : b.sub t n 0 = b := by
  funext t' n'; unfold Bal.sub; split <;> simp

theorem Bal.sub_sub (b : Bal) (t : Token) (n x y : Nat) :
    (b.sub t n x).sub t n y = b.sub t n (x + y) := by
  funext t' n'; unfold Bal.sub; split <;> simp [Nat.sub_sub]

theorem upd_self_val {α : Type} (f : Nat → α) (k : Nat) : upd f k (f k) = f := by
  funext x; unfold upd; split <;> simp_all

/-- refund event of a blacklisted user, against the confirmations of `s` -/
def blEvent (s : State) (e : Env) (u : Nat) : Option Ev :=
  if s.confirmed u > 0 then some (refundEv s e (s.confirmed u)) else none

/-- refund transfer of a blacklisted user, against the confirmations of `s` -/
def blXfer (s : State) (u : Nat) : Option (Nat × Pay) :=
  if s.confirmed u > 0 then some (u, refundPay s (s.confirmed u)) else none

/-- total number of confirmed tickets of the listed users -/
def blConfSum (s : State) (l : List Nat) : Nat := (l.map s.confirmed).sum

/-- storage after blacklisting the users of `l` -/
def blState (s : State) (l : List Nat) : State :=
  { s with blacklist := fun a => if a ∈ l then true else s.blacklist a,
           confirmed := fun a => if a ∈ l then 0 else s.confirmed a,
           bal := s.bal.sub s.payTok 0 (s.price * blConfSum s l) }

/-- transaction record after blacklisting the users of `l` -/
def blTx (t : Tx) (e : Env) (l : List Nat) : Tx :=
  { s := blState t.s l, c := t.c,
    o := { t.o with events := t.o.events ++ l.filterMap (blEvent t.s e),
                    xfers := t.o.xfers ++ l.filterMap (blXfer t.s) } }

theorem blTx_nil (t : Tx) (e : Env) : blTx t e [] = t := by
  unfold blTx blState blConfSum
  simp [Bal.sub_zero]

theorem blTx_single_pos (t : Tx) (e : Env) (a : Nat) (h : t.s.confirmed a > 0) :
    blTx t e [a] =
      (refundTx t e a (t.s.confirmed a)).setS
        { (refundTx t e a (t.s.confirmed a)).s with
            confirmed := upd t.s.confirmed a 0, blacklist := upd t.s.blacklist a true } := by
  unfold blTx blState blConfSum blEvent blXfer refundTx Tx.setS
  simp only [List.map_cons, List.map_nil, List.sum_cons, List.sum_nil, Nat.add_zero,
    List.filterMap_cons, List.filterMap_nil, h, ↓reduceIte, List.mem_singleton]
  congr 2

theorem blTx_single_zero (t : Tx) (e : Env) (a : Nat) (h0 : t.s.confirmed a = 0) :
    blTx t e [a] = t.setS { t.s with blacklist := upd t.s.blacklist a true } := by
  have hc : (fun x => if x ∈ [a] then 0 else t.s.confirmed x) = t.s.confirmed := by
    funext x; by_cases hx : x = a <;> simp [hx, h0]
  have hb : (fun x => if x ∈ [a] then true else t.s.blacklist x) = upd t.s.blacklist a true := by
    funext x; simp [upd]
  unfold blTx blState blConfSum blEvent blXfer Tx.setS
  rw [hc, hb]
  simp [h0, Bal.sub_zero]

/-- one iteration of the blacklisting loop -/
theorem blacklistMany_cons (e : Env) (a : Nat) (rest : List Nat) (t t' : Tx) :
    blacklistMany e (a :: rest) t = .ok t' ↔
      t.s.blacklist a = false ∧ (t.s.range a).isSome = true ∧
      t.s.price * t.s.confirmed a ≤ t.s.bal t.s.payTok 0 ∧
      blacklistMany e rest (blTx t e [a]) = .ok t' := by
  rw [blacklistMany]
  cases hb : t.s.blacklist a
  · cases hr : t.s.range a with
    | none => simp
    | some r =>
      simp only [Bool.false_eq_true, ↓reduceIte, Option.isNone_some, Option.isSome_some, true_and]
      by_cases hc : t.s.confirmed a > 0
      · simp only [hc, ↓reduceIte]
        cases hre : t.refund e a (t.s.confirmed a) with
        | error err =>
          constructor
          · intro h; cases h
          · rintro ⟨hle, _⟩
            have := (refund_pos_ok_iff t e a _ hc (refundTx t e a (t.s.confirmed a))).mpr ⟨hle, rfl⟩
            rw [hre] at this; cases this
        | ok t1 =>
          obtain ⟨hle, rfl⟩ := (refund_pos_ok_iff t e a _ hc t1).mp hre
          simp only [hle, true_and]
          rw [blTx_single_pos t e a hc]
          rfl
      · have h0 : t.s.confirmed a = 0 := by omega
        simp only [hc, ↓reduceIte]
        rw [blTx_single_zero t e a h0]
        simp only [h0, Nat.mul_zero, Nat.zero_le, true_and]
  · simp

theorem filterMap_congr_mem {α β : Type} {f g : α → Option β} {l : List α}
    (h : ∀ x ∈ l, f x = g x) : l.filterMap f = l.filterMap g := by
  induction l with
  | nil => rfl
  | cons a rest ih =>
    have h1 := h a (List.mem_cons_self ..)
    have h2 := ih (fun x hx => h x (List.mem_cons_of_mem _ hx))
    simp only [List.filterMap_cons, h1, h2]

theorem blTx_cons (t : Tx) (e : Env) (a : Nat) (rest : List Nat) (ha : a ∉ rest) :
    blTx (blTx t e [a]) e rest = blTx t e (a :: rest) := by
  have hconf : ∀ u ∈ rest, (if u ∈ [a] then 0 else t.s.confirmed u) = t.s.confirmed u := by
    intro u hu
    have : u ≠ a := fun h => ha (h ▸ hu)
    simp [this]
  have hsum : (rest.map (fun u => if u ∈ [a] then 0 else t.s.confirmed u)).sum
      = (rest.map t.s.confirmed).sum := by
    congr 1
    exact List.map_congr_left hconf
  have hev : rest.filterMap (blEvent (blState t.s [a]) e) = rest.filterMap (blEvent t.s e) := by
    apply filterMap_congr_mem
    intro u hu
    unfold blEvent blState refundEv
    simp only [hconf u hu]
  have hxf : rest.filterMap (blXfer (blState t.s [a])) = rest.filterMap (blXfer t.s) := by
    apply filterMap_congr_mem
    intro u hu
    unfold blXfer blState refundPay
    simp only [hconf u hu]
  unfold blTx
  simp only [hev, hxf]
  unfold blState blConfSum
  simp only [hsum, List.map_cons, List.sum_cons, List.map_nil, List.sum_nil, Nat.add_zero,
    Bal.sub_sub, ← Nat.mul_add, List.filterMap_cons, List.filterMap_nil, List.append_assoc]
  congr 2
  · funext x; by_cases hx : x = a <;> simp [hx]
  · funext x; by_cases hx : x = a <;> simp [hx]
  · cases blEvent t.s e a <;> rfl
  · cases blXfer t.s a <;> rfl

/-- **the blacklisting loop, characterised**: it succeeds exactly when the list has no
    duplicates, every listed user is not yet blacklisted and has an allocation record, and the
    contract holds the total refund; the result is `blTx`. -/
theorem blacklistMany_ok_iff (e : Env) (l : List Nat) (t t' : Tx) :
    blacklistMany e l t = .ok t' ↔
      l.Nodup ∧ (∀ u ∈ l, t.s.blacklist u = false ∧ (t.s.range u).isSome = true) ∧
      t.s.price * blConfSum t.s l ≤ t.s.bal t.s.payTok 0 ∧ t' = blTx t e l := by
  induction l generalizing t with
  | nil =>
    simp only [blacklistMany, List.nodup_nil, List.not_mem_nil, false_imp_iff, implies_true,
      true_and, blTx_nil, blConfSum, List.map_nil, List.sum_nil, Nat.mul_zero, Nat.zero_le]
    constructor
    · intro h; injection h with h; exact h.symm
    · rintro rfl; rfl
  | cons a rest ih =>
    rw [blacklistMany_cons, ih]
    have hbl : ∀ u, (blTx t e [a]).s.blacklist u = (if u = a then true else t.s.blacklist u) := by
      intro u; simp [blTx, blState]
    have hrg : (blTx t e [a]).s.range = t.s.range := rfl
    have hpr : (blTx t e [a]).s.price = t.s.price := rfl
    have hpt : (blTx t e [a]).s.payTok = t.s.payTok := rfl
    have hbal : (blTx t e [a]).s.bal t.s.payTok 0 = t.s.bal t.s.payTok 0 - t.s.price * t.s.confirmed a := by
      simp [blTx, blState, blConfSum, Bal.sub]
    have hcs : a ∉ rest → blConfSum (blTx t e [a]).s rest = blConfSum t.s rest := by
      intro ha
      unfold blConfSum
      congr 1
      apply List.map_congr_left
      intro u hu
      have : u ≠ a := fun h => ha (h ▸ hu)
      simp [blTx, blState, this]
    simp only [hrg, hpr, hpt, hbal, hbl, List.nodup_cons, List.mem_cons, forall_eq_or_imp]
    constructor
    · rintro ⟨hb, hr, hle, hnd, hall, hle2, rfl⟩
      have ha : a ∉ rest := by
        intro ha
        have := (hall a ha).1
        simp at this
      refine ⟨⟨ha, hnd⟩, ⟨⟨hb, hr⟩, ?_⟩, ?_, blTx_cons t e a rest ha⟩
      · intro u hu
        have hne : u ≠ a := fun h => ha (h ▸ hu)
        have := hall u hu
        simpa [hne] using this
      · rw [hcs ha] at hle2
        simp only [blConfSum, List.map_cons, List.sum_cons, Nat.mul_add] at hle2 ⊢
        omega
    · rintro ⟨⟨ha, hnd⟩, ⟨⟨hb, hr⟩, hall⟩, hle, rfl⟩
      simp only [blConfSum, List.map_cons, List.sum_cons, Nat.mul_add] at hle
      refine ⟨hb, hr, by omega, hnd, ?_, ?_, (blTx_cons t e a rest ha).symm⟩
      · intro u hu
        have hne : u ≠ a := fun h => ha (h ▸ hu)
        simpa [hne] using hall u hu
      · rw [hcs ha]
        unfold blConfSum
        omega



/-! ### setTicketPrice -/

def setPriceEv (e : Env) (tok : Token) (a : Nat) : Ev :=
  ⟨"setTicketPrice", [e.caller, e.round, e.epoch], [e.caller, e.round, e.epoch, tok.code, 0, a]⟩

theorem exec_setTicketPrice_ok_iff (hash : List Nat → List Nat) (t t' : Tx) (e : Env) (tok : Token) (a : Nat) :
    exec hash t e (.setTicketPrice tok a) = .ok t' ↔
      t.s.stage e = .addTickets ∧ tok.valid = true ∧ tok ≠ .esdt t.s.lpTok ∧ 0 < a ∧
      t' = (t.setS { t.s with payTok := tok, price := a }).emit (setPriceEv e tok a) := by
  simp only [exec, trySetTicketPrice, requireStage, bind_ok_iff, pure_ok_iff, req_ok_iff,
    exists_const, beq_iff_eq, bne_iff_ne, ne_eq, decide_eq_true_eq, setPriceEv, topics]
  constructor
  · rintro ⟨h1, s1, ⟨h2, h3, h4, rfl⟩, rfl⟩
    exact ⟨h1, h2, h3, h4, rfl⟩
  · rintro ⟨h1, h2, h3, h4, rfl⟩
    exact ⟨h1, _, ⟨h2, h3, h4, rfl⟩, rfl⟩

/-! ### loop invariants -/

theorem runWhile_invariant {σ : Type} (body : σ → Res (σ × Bool)) (P : σ → Prop)
    (hbody : ∀ s s' c, P s → body s = .ok (s', c) → P s') :
    ∀ (fuel : Nat) (b : Option Nat) (s : σ) (r : σ × Option Nat × LoopStatus),
      P s → runWhile body fuel b s = .ok r → P r.1 := by
  intro fuel
  induction fuel with
  | zero =>
    intro b s r hp h
    simp only [runWhile] at h
    injection h with h; subst h; exact hp
  | succ n ih =>
    intro b s r hp h
    rw [runWhile] at h
    cases hb : body s with
    | error err => simp [hb] at h
    | ok p =>
      obtain ⟨s', c⟩ := p
      have hp' := hbody s s' c hp hb
      cases c with
      | false =>
        simp only [hb] at h
        injection h with h; subst h; exact hp'
      | true =>
        simp only [hb] at h
        cases b with
        | none => exact ih _ _ _ hp' h
        | some k =>
          cases k with
          | zero => injection h with h; subst h; exact hp'
          | succ k => exact ih _ _ _ hp' h

/-- `t'` differs from `t` at most in the draw source / draw log -/
def DrawFrame (t t' : Tx) : Prop :=
  t'.s = t.s ∧ t'.c.budget = t.c.budget ∧ t'.o.ret = t.o.ret ∧ t'.o.events = t.o.events ∧
  t'.o.xfers = t.o.xfers ∧ t'.o.locks = t.o.locks ∧ t'.o.sfts = t.o.sfts

theorem DrawFrame.refl (t : Tx) : DrawFrame t t := ⟨rfl, rfl, rfl, rfl, rfl, rfl, rfl⟩

theorem DrawFrame.trans {a b c : Tx} (h1 : DrawFrame a b) (h2 : DrawFrame b c) : DrawFrame a c := by
  obtain ⟨a1, a2, a3, a4, a5, a6, a7⟩ := h1
  obtain ⟨b1, b2, b3, b4, b5, b6, b7⟩ := h2
  exact ⟨b1.trans a1, b2.trans a2, b3.trans a3, b4.trans a4, b5.trans a5, b6.trans a6, b7.trans a7⟩

theorem DrawFrame.draw (hash : List Nat → List Nat) (t : Tx) (rng : Rng) :
    DrawFrame t (t.draw hash rng).2.2 := by
  unfold Tx.draw
  cases h : t.c.script <;> simp [DrawFrame]

theorem DrawFrame.freshRng (t : Tx) : DrawFrame t t.freshRng.2 := by
  unfold Tx.freshRng
  cases h : t.c.seeds <;> simp [DrawFrame]




/-! ### filterTickets -/

def filterDoneEv (e : Env) (n : Nat) : Ev :=
  ⟨"filterTicketsCompleted", [e.caller, e.round, e.epoch], [e.caller, e.round, e.epoch, n]⟩

theorem filterTickets_out {t t' : Tx} {e : Env} (h : filterTickets t e = .ok t') :
    t'.o.xfers = t.o.xfers ∧ t'.o.locks = t.o.locks ∧ t'.o.sfts = t.o.sfts ∧ t'.o.draws = t.o.draws ∧
    ((t'.o.ret = [0] ∧ t'.o.events = t.o.events ++ [filterDoneEv e t'.s.lastTicketId] ∧
        t'.s.flags.filtered = true ∧ t'.s.op = .none) ∨
     (t'.o.ret = [1] ∧ t'.o.events = t.o.events ∧ t'.s.flags.filtered = false ∧
        t'.s.lastTicketId = t.s.lastTicketId ∧ ∃ f r, t'.s.op = .filter f r)) := by
  unfold filterTickets at h
  simp only [bind_ok_iff, req_ok_iff, requireStage, exists_const] at h
  obtain ⟨_, _, hnf, h⟩ := h
  cases hop : t.s.op <;>
    simp only [hop, bind_ok_iff, pure_ok_iff, Prod.exists, reduceCtorEq, false_and, exists_false] at h
  all_goals
    obtain ⟨first, removed, _, f, b, st, _, hrest⟩ := h
    cases st with
    | outOfFuel => cases hrest
    | interrupted =>
      simp only [pure_ok_iff] at hrest
      subst hrest
      refine ⟨rfl, rfl, rfl, rfl, Or.inr ⟨rfl, rfl, ?_, rfl, _, _, rfl⟩⟩
      by_cases h1 : first = 1 <;> simpa [h1] using hnf
    | completed =>
      simp only [bind_ok_iff, pure_ok_iff] at hrest
      obtain ⟨newLast, _, rfl⟩ := hrest
      exact ⟨rfl, rfl, rfl, rfl, Or.inl ⟨rfl, rfl, rfl, rfl⟩⟩

/-! ### selectWinners -/

def selectDoneEv (e : Env) (n : Nat) : Ev :=
  ⟨"selectWinnersCompleted", [e.caller, e.round, e.epoch], [e.caller, e.round, e.epoch, n]⟩

theorem selectBody_frame (hash : List Nat → List Nat) (nr last : Nat) (t0 : Tx) (x x' : SelSt) (c : Bool)
    (hp : DrawFrame t0 x.tx) (h : selectBody hash nr last x = .ok (x', c)) : DrawFrame t0 x'.tx := by
  unfold selectBody at h
  split at h
  · injection h with h; injection h with h1 h2; subst h1; exact hp
  · have hd := DrawFrame.draw hash x.tx x.rng
    simp only at h
    split at h <;> (injection h with h; injection h with h1 h2; subst h1; exact hp.trans hd)

theorem selectWinners_out {hash : List Nat → List Nat} {t t' : Tx} {e : Env}
    (h : selectWinners hash t e = .ok t') :
    t'.o.xfers = t.o.xfers ∧ t'.o.locks = t.o.locks ∧ t'.o.sfts = t.o.sfts ∧
    t'.s.price = t.s.price ∧ t'.s.nrWinning = t.s.nrWinning ∧
    ((t'.o.ret = [0] ∧ t'.o.events = t.o.events ++ [selectDoneEv e t.s.nrWinning] ∧
        t'.s.claimablePayment = t.s.price * t.s.nrWinning ∧
        t'.s.flags.selected = true ∧ t'.s.op = .none) ∨
     (t'.o.ret = [1] ∧ t'.o.events = t.o.events ∧ t'.s.flags = t.s.flags ∧
        t'.s.claimablePayment = t.s.claimablePayment ∧ ∃ r p, t'.s.op = .select r p)) := by
  unfold selectWinners at h
  simp only [bind_ok_iff, req_ok_iff, requireStage, ownerOrUser, exists_const] at h
  obtain ⟨_, _, _, _, _, h⟩ := h
  cases hop : t.s.op <;>
    simp only [hop, bind_ok_iff, pure_ok_iff, Prod.exists, reduceCtorEq, false_and, exists_false] at h
  all_goals
    obtain ⟨rng, pos, t1, hop1, x, b, st, hrun, hrest⟩ := h
    have ht1 : DrawFrame t t1 := by
      injection hop1 with h1 h2; injection h2 with h2 h3
      subst h3
      first | exact DrawFrame.freshRng t | exact DrawFrame.refl t
    have hx : DrawFrame t x.tx :=
      runWhile_invariant _ (fun y => DrawFrame t y.tx) (fun y y' c hp hb => selectBody_frame hash _ _ t y y' c hp hb)
        _ _ _ _ ht1 hrun
    obtain ⟨_, _, _, hev, hxf, hlk, hsf⟩ := hx
    cases st with
    | outOfFuel => simp at hrest
    | interrupted =>
      simp only [pure_ok_iff] at hrest
      subst hrest
      exact ⟨hxf, hlk, hsf, rfl, rfl, Or.inr ⟨rfl, hev, rfl, rfl, _, _, rfl⟩⟩
    | completed =>
      simp only [pure_ok_iff] at hrest
      subst hrest
      refine ⟨hxf, hlk, hsf, rfl, rfl, Or.inl ⟨rfl, ?_, rfl, rfl, rfl⟩⟩
      simp [Tx.emit, hev, selectDoneEv, topics]




/-! ### distribute -/

theorem leftoverBody_frame (hash : List Nat → List Nat) (v2 : Bool) (nrOrig last : Nat) (t0 : Tx)
    (x x' : LSt) (c : Bool)
    (hp : DrawFrame t0 x.tx) (h : leftoverBody hash v2 nrOrig last x = .ok (x', c)) :
    DrawFrame t0 x'.tx := by
  have hd := DrawFrame.draw hash x.tx x.rng
  unfold leftoverBody at h
  by_cases h0 : nrOrig + x.additional ≥ last
  all_goals
    simp only [h0, ↓reduceIte] at h
    repeat' split at h
    all_goals
      injection h with h; injection h with h1 h2; subst h1
      first | exact hp | exact hp.trans hd

/-- the storage fields written by the two loops of the distribution step -/
def GuarFrame (t t' : Tx) : Prop :=
  (∃ wl st p op, t'.s = { t.s with whitelist := wl, status := st, posToId := p, op := op }) ∧
  t'.o.ret = t.o.ret ∧ t'.o.events = t.o.events ∧
  t'.o.xfers = t.o.xfers ∧ t'.o.locks = t.o.locks ∧ t'.o.sfts = t.o.sfts

theorem guaranteedSubstep_frame {hash : List Nat → List Nat} {t t' : Tx} {g g' : GuarOp} {st : LoopStatus}
    (h : guaranteedSubstep hash t g = .ok (t', g', st)) :
    GuarFrame t t' ∧ ((st = .completed ∧ t'.s.op = .none) ∨ st = .interrupted) := by
  unfold guaranteedSubstep at h
  simp only [bind_ok_iff, Prod.exists] at h
  obtain ⟨x, b, st1, _, h⟩ := h
  cases st1 with
  | outOfFuel => cases h
  | interrupted =>
    simp only [pure_ok_iff] at h
    injection h with h1 h2; injection h2 with h2 h3
    subst h1 h3
    exact ⟨⟨⟨_, _, _, _, rfl⟩, rfl, rfl, rfl, rfl, rfl⟩, Or.inr rfl⟩
  | completed =>
    simp only [bind_ok_iff, Prod.exists] at h
    obtain ⟨y, b2, st2, hrun, h⟩ := h
    have hy : DrawFrame _ y.tx := runWhile_invariant _ (fun (z : LSt) => DrawFrame _ z.tx)
      (fun z z' c hp hb => leftoverBody_frame hash _ _ _ _ z z' c hp hb) _ _ _ _ (DrawFrame.refl _) hrun
    obtain ⟨hs, _, hret, hev, hxf, hlk, hsf⟩ := hy
    cases st2 with
    | outOfFuel => cases h
    | interrupted =>
      simp only [pure_ok_iff] at h
      injection h with h1 h2; injection h2 with h2 h3
      subst h1 h3
      refine ⟨⟨⟨x.whitelist, y.status, y.posToId, .none, ?_⟩, hret, hev, hxf, hlk, hsf⟩, Or.inr rfl⟩
      simp only [hs, Tx.setS]
    | completed =>
      simp only [pure_ok_iff] at h
      injection h with h1 h2; injection h2 with h2 h3
      subst h1 h3
      refine ⟨⟨⟨x.whitelist, y.status, y.posToId, .none, ?_⟩, hret, hev, hxf, hlk, hsf⟩, Or.inl ⟨rfl, rfl⟩⟩
      simp only [hs, Tx.setS]

def distributeDoneEv (e : Env) (n : Nat) : Ev :=
  ⟨"distributeGuaranteedTicketsCompleted", [e.caller, e.round, e.epoch], [e.caller, e.round, e.epoch, n]⟩

theorem creditAdditional_variant (s : State) (n : Nat) : (creditAdditional s n).variant = s.variant := rfl

set_option hygiene false in
/-- shared tail of the four live branches of `distribute_out` -/
local macro "distribute_tail" : tactic => `(tactic| (
  obtain ⟨a, g1, st, hsub, hrest⟩ := h
  obtain ⟨⟨⟨wl, st', p, op, hs⟩, hret, hev, hxf, hlk, hsf⟩, hst⟩ := guaranteedSubstep_frame hsub
  have hfr := DrawFrame.freshRng t
  obtain ⟨f1, _, f3, f4, f5, f6, f7⟩ := hfr
  rcases hst with ⟨rfl, hopn⟩ | rfl
  · have hvar : (creditAdditional a.s g1.additional).variant.isV2 = t.s.variant.isV2 := by
      simp only [creditAdditional_variant, hs, f1]
    simp only [hvar, hv, Bool.false_eq_true, ↓reduceIte, pure_ok_iff] at hrest
    subst hrest
    refine ⟨?_, ?_, ?_, ?_, Or.inl ⟨rfl, rfl, ?_, g1.additional, ?_, ?_, ?_⟩⟩
    all_goals
      first
        | exact hopn
        | simp [Tx.emit, creditAdditional, hs, hev, hxf, hlk, hsf, distributeDoneEv, topics, f1, f4, f5, f6, f7]
        | simp [Tx.emit, creditAdditional, hs, hev, hxf, hlk, hsf, distributeDoneEv, topics]
  · simp only [pure_ok_iff] at hrest
    subst hrest
    refine ⟨?_, ?_, ?_, ?_, Or.inr ⟨rfl, ?_, ?_, ?_, ?_, _, rfl⟩⟩
    all_goals
      first
        | simp [hs, hev, hxf, hlk, hsf, f1, f4, f5, f6, f7]
        | simp [hs, hev, hxf, hlk, hsf]))

theorem distribute_out {hash : List Nat → List Nat} {t t' : Tx} {e : Env}
    (h : distribute hash t e = .ok t') :
    t'.o.xfers = t.o.xfers ∧ t'.o.locks = t.o.locks ∧ t'.o.sfts = t.o.sfts ∧
    t'.s.price = t.s.price ∧
    ((t'.o.ret = [0] ∧ t'.s.flags.additional = true ∧ t'.s.op = .none ∧
        ∃ add, t'.s.nrWinning = t.s.nrWinning + add ∧
          t'.s.claimablePayment = t.s.claimablePayment + t.s.price * add ∧
          t'.o.events = t.o.events ++ (if t.s.variant.isV2 then [distributeDoneEv e add] else [])) ∨
     (t'.o.ret = [1] ∧ t'.o.events = t.o.events ∧ t'.s.flags = t.s.flags ∧
        t'.s.nrWinning = t.s.nrWinning ∧ t'.s.claimablePayment = t.s.claimablePayment ∧
        ∃ g, t'.s.op = .additional (.guar g))) := by
  unfold distribute at h
  cases hv : t.s.variant.isV2 with
  | false =>
    simp only [hv, Bool.false_eq_true, ↓reduceIte, pure_bind, bind_ok_iff, requireStage, ownerOrUser,
      req_ok_iff, exists_const] at h
    obtain ⟨_, _, _, h⟩ := h
    rcases hop : t.s.op with _ | _ | _ | (g0 | r0) <;>
      simp only [hop, bind_ok_iff, pure_ok_iff, Prod.exists, reduceCtorEq, false_and, and_false, exists_false] at h
    · distribute_tail
    · distribute_tail
  | true =>
    simp only [hv, Bool.false_eq_true, ↓reduceIte, pure_bind, bind_ok_iff, requireStage, ownerOrUser,
      req_ok_iff, exists_const] at h
    obtain ⟨_, _, _, _, _, h⟩ := h
    rcases hop : t.s.op with _ | _ | _ | (g0 | r0) <;>
      simp only [hop, bind_ok_iff, pure_ok_iff, Prod.exists, reduceCtorEq, false_and, and_false, exists_false] at h
    · distribute_tail
    · distribute_tail





/-! ### addTicketsV2 -/

theorem tryCreateTickets_last {s s' : State} {a n : Nat} (h : tryCreateTickets s a n = .ok s') :
    s'.lastTicketId = s.lastTicketId + n ∧ s'.totalGuaranteed = s.totalGuaranteed ∧
    s'.nrWinning = s.nrWinning := by
  unfold tryCreateTickets at h
  simp only [bind_ok_iff, pure_ok_iff, req_ok_iff, exists_const] at h
  obtain ⟨_, _, rfl⟩ := h
  refine ⟨?_, rfl, rfl⟩
  show s.lastTicketId + 1 + n - 1 = s.lastTicketId + n
  omega

/-- users with a non-zero allowance -/
def v2Users (l : List (Nat × Nat × List (Nat × Nat))) : Nat := (l.filter (fun p => p.2.1 ≠ 0)).length

/-- the accumulators of the v2 allocation loop: users, tickets and guaranteed tickets are counted
    exactly, and they are the growth of `lastTicketId` / the guaranteed total -/
theorem addV2Many_acc (e : Env) (l : List (Nat × Nat × List (Nat × Nat))) :
    ∀ (s : State) (tw tg uc ta ga : Nat) (s' : State) (tw' tg' uc' ta' ga' : Nat),
      addV2Many e l (s, tw, tg, uc, ta, ga) = .ok (s', tw', tg', uc', ta', ga') →
      s'.lastTicketId + ta = s.lastTicketId + ta' ∧ tg' + ga = tg + ga' ∧ tw' + ga' = tw + ga ∧
      uc' = uc + v2Users l ∧ ta ≤ ta' ∧ ga ≤ ga' := by
  induction l with
  | nil =>
    intro s tw tg uc ta ga s' tw' tg' uc' ta' ga' h
    simp only [addV2Many] at h
    injection h with h
    simp only [Prod.mk.injEq] at h
    obtain ⟨rfl, rfl, rfl, rfl, rfl, rfl⟩ := h
    simp [v2Users]
  | cons p rest ih =>
    obtain ⟨buyer, n, infos⟩ := p
    intro s tw tg uc ta ga s' tw' tg' uc' ta' ga' h
    rw [addV2Many] at h
    by_cases hn : n = 0
    · simp only [hn, ↓reduceIte] at h
      have := ih _ _ _ _ _ _ _ _ _ _ _ _ h
      simpa [v2Users, hn] using this
    · simp only [hn, ↓reduceIte] at h
      have hu : v2Users ((buyer, n, infos) :: rest) = v2Users rest + 1 := by
        simp [v2Users, hn]
      split at h; · cases h
      split at h; · cases h
      split at h; · cases h
      split at h; · cases h
      rename_i s1 hcr
      have ⟨hl, _, _⟩ := tryCreateTickets_last hcr
      split at h; · cases h
      split at h
      · split at h; · cases h
        have := ih _ _ _ _ _ _ _ _ _ _ _ _ h
        simp only at this
        rw [hu]
        omega
      · have := ih _ _ _ _ _ _ _ _ _ _ _ _ h
        simp only at this
        rw [hu]
        omega

def addTicketsEv (e : Env) (users tickets guaranteed : Nat) : Ev :=
  ⟨"addTickets", [e.caller, e.round, e.epoch], [e.caller, e.round, e.epoch, users, tickets, guaranteed]⟩

theorem addTicketsV2_out {t t' : Tx} {e : Env} {l : List (Nat × Nat × List (Nat × Nat))}
    (h : addTicketsV2 t e l = .ok t') :
    t'.o.events = t.o.events ++
      [addTicketsEv e (v2Users l) (t'.s.lastTicketId - t.s.lastTicketId)
        (t'.s.totalGuaranteed - t.s.totalGuaranteed)] ∧
    t.s.lastTicketId ≤ t'.s.lastTicketId ∧ t.s.totalGuaranteed ≤ t'.s.totalGuaranteed ∧
    t'.s.nrWinning + (t'.s.totalGuaranteed - t.s.totalGuaranteed) = t.s.nrWinning ∧
    t'.o.xfers = t.o.xfers ∧ t'.o.ret = t.o.ret := by
  unfold addTicketsV2 at h
  simp only [bind_ok_iff, pure_ok_iff, requireStage, req_ok_iff, exists_const, Prod.exists] at h
  obtain ⟨_, s1, tw, tg, uc, ta, ga, hm, rfl⟩ := h
  obtain ⟨h1, h2, h3, h4, _, _⟩ := addV2Many_acc e l _ _ _ _ _ _ _ _ _ _ _ _ hm
  have e1 : s1.lastTicketId - t.s.lastTicketId = ta := by omega
  have e2 : tg - t.s.totalGuaranteed = ga := by omega
  refine ⟨?_, ?_, ?_, ?_, rfl, rfl⟩
  · simp only [Tx.emit, Tx.setS, addTicketsEv, topics, e1, e2, h4, Nat.zero_add]
  · show t.s.lastTicketId ≤ s1.lastTicketId; omega
  · show t.s.totalGuaranteed ≤ tg; omega
  · show tw + (tg - t.s.totalGuaranteed) = t.s.nrWinning; omega




/-! ### the guaranteed-ticket hooks of blacklisting only touch their own records -/

/-- `s'` differs from `s` at most in `whitelist`, `uts`, `blUts`, and the two records agree with
    the old ones outside `l` -/
def WUB (l : List Nat) (s s' : State) : Prop :=
  (∃ wl u b, s' = { s with whitelist := wl, uts := u, blUts := b }) ∧
  ∀ a, a ∉ l → s'.uts a = s.uts a ∧ s'.blUts a = s.blUts a

theorem WUB.nil (s : State) : WUB [] s s := ⟨⟨_, _, _, rfl⟩, fun _ _ => ⟨rfl, rfl⟩⟩

/-- one more user `u` handled first: `s → s1` touches only `u`, then `s1 → s'` -/
theorem WUB.cons {u : Nat} {rest : List Nat} {s s1 s' : State}
    (h1 : WUB [u] s s1) (h2 : WUB rest s1 s') : WUB (u :: rest) s s' := by
  obtain ⟨⟨wl1, u1, b1, rfl⟩, f1⟩ := h1
  obtain ⟨⟨wl2, u2, b2, rfl⟩, f2⟩ := h2
  refine ⟨⟨wl2, u2, b2, rfl⟩, ?_⟩
  intro a ha
  simp only [List.mem_cons, not_or] at ha
  have a1 := f1 a (by simp [ha.1])
  have a2 := f2 a ha.2
  exact ⟨a2.1.trans a1.1, a2.2.trans a1.2⟩

theorem WUB.skip {u : Nat} {rest : List Nat} {s s' : State} (h : WUB rest s s') : WUB (u :: rest) s s' :=
  ⟨h.1, fun a ha => h.2 a (fun hm => ha (List.mem_cons_of_mem _ hm))⟩

theorem WUB.one (s : State) (u : Nat) (wl : List Nat) (x y : Option UTS) :
    WUB [u] s { s with whitelist := wl, uts := upd s.uts u x, blUts := upd s.blUts u y } := by
  refine ⟨⟨_, _, _, rfl⟩, ?_⟩
  intro a ha
  have : a ≠ u := by simpa using ha
  simp [upd, this]

theorem WUB.one_wl (s : State) (u : Nat) (wl : List Nat) :
    WUB [u] s { s with whitelist := wl } :=
  ⟨⟨_, _, _, rfl⟩, fun _ _ => ⟨rfl, rfl⟩⟩

theorem clearV1Many_frame (l : List Nat) : ∀ (s : State) (r tg : Nat) (s' : State) (r' tg' : Nat),
    clearV1Many l (s, r, tg) = .ok (s', r', tg') → WUB l s s' := by
  induction l with
  | nil =>
    intro s r tg s' r' tg' h
    simp only [clearV1Many] at h
    injection h with h; injection h with h1 h2; subst h1; exact WUB.nil s
  | cons u rest ih =>
    intro s r tg s' r' tg' h
    rw [clearV1Many] at h
    simp only at h
    split at h
    · exact WUB.cons (WUB.one_wl s u _) (ih _ _ _ _ _ _ h)
    · split at h; · cases h
      split at h; · cases h
      exact WUB.cons (WUB.one s u _ _ _) (ih _ _ _ _ _ _ h)

theorem clearV2Many_frame (l : List Nat) : ∀ (s : State) (nw tg : Nat) (s' : State) (nw' tg' : Nat),
    clearV2Many l (s, nw, tg) = .ok (s', nw', tg') → WUB l s s' := by
  induction l with
  | nil =>
    intro s r tg s' r' tg' h
    simp only [clearV2Many] at h
    injection h with h; injection h with h1 h2; subst h1; exact WUB.nil s
  | cons u rest ih =>
    intro s r tg s' r' tg' h
    rw [clearV2Many] at h
    simp only at h
    split at h; · cases h
    exact WUB.cons (WUB.one s u _ _ _) (ih _ _ _ _ _ _ h)

theorem restoreV1Many_frame (l : List Nat) : ∀ (s : State) (nw tg : Nat) (s' : State) (nw' tg' : Nat),
    restoreV1Many l (s, nw, tg) = .ok (s', nw', tg') → WUB l s s' := by
  induction l with
  | nil =>
    intro s r tg s' r' tg' h
    simp only [restoreV1Many] at h
    injection h with h; injection h with h1 h2; subst h1; exact WUB.nil s
  | cons u rest ih =>
    intro s r tg s' r' tg' h
    rw [restoreV1Many] at h
    simp only at h
    split at h
    · exact WUB.skip (ih _ _ _ _ _ _ h)
    · split at h
      · exact WUB.skip (ih _ _ _ _ _ _ h)
      · split at h; · cases h
        have := ih _ _ _ _ _ _ h
        refine WUB.cons ?_ this
        have := WUB.one s u (setInsert s.whitelist u).1 (some ((s.blUts u).getD {})) none
        exact this

theorem restoreV2Many_frame (l : List Nat) : ∀ (s : State) (nw tg : Nat) (s' : State) (nw' tg' : Nat),
    restoreV2Many l (s, nw, tg) = .ok (s', nw', tg') → WUB l s s' := by
  induction l with
  | nil =>
    intro s r tg s' r' tg' h
    simp only [restoreV2Many] at h
    injection h with h; injection h with h1 h2; subst h1; exact WUB.nil s
  | cons u rest ih =>
    intro s r tg s' r' tg' h
    rw [restoreV2Many] at h
    simp only at h
    split at h
    · exact WUB.skip (ih _ _ _ _ _ _ h)
    · split at h
      · split at h; · cases h
        refine WUB.cons ?_ (ih _ _ _ _ _ _ h)
        exact WUB.one s u (setInsert s.whitelist u).1 (some ((s.blUts u).getD {})) none
      · refine WUB.cons ?_ (ih _ _ _ _ _ _ h)
        exact WUB.one s u s.whitelist (some ((s.blUts u).getD {})) none

/-- the frame of the four guaranteed-ticket hooks: only `whitelist`, `uts`, `blUts`, `nrWinning`,
    `totalGuaranteed` change, and the two per-user records agree with the old ones outside `l` -/
def GHook (l : List Nat) (s s' : State) : Prop :=
  (∃ wl u b nw tg, s' = { s with whitelist := wl, uts := u, blUts := b, nrWinning := nw,
                                 totalGuaranteed := tg }) ∧
  ∀ a, a ∉ l → s'.uts a = s.uts a ∧ s'.blUts a = s.blUts a

theorem WUB.toGHook {l : List Nat} {s s1 : State} (h : WUB l s s1) (nw tg : Nat) :
    GHook l s { s1 with nrWinning := nw, totalGuaranteed := tg } := by
  obtain ⟨⟨wl, u, b, rfl⟩, f⟩ := h
  exact ⟨⟨wl, u, b, nw, tg, rfl⟩, f⟩

theorem clearGuaranteedV1_frame {s s' : State} {l : List Nat} (h : clearGuaranteedV1 s l = .ok s') :
    GHook l s s' := by
  unfold clearGuaranteedV1 at h
  simp only [bind_ok_iff, pure_ok_iff, Prod.exists] at h
  obtain ⟨s1, r, tg, hm, rfl⟩ := h
  exact (clearV1Many_frame l _ _ _ _ _ _ hm).toGHook _ _

theorem clearGuaranteedV2_frame {s s' : State} {l : List Nat} (h : clearGuaranteedV2 s l = .ok s') :
    GHook l s s' := by
  unfold clearGuaranteedV2 at h
  simp only [bind_ok_iff, pure_ok_iff, Prod.exists] at h
  obtain ⟨s1, r, tg, hm, rfl⟩ := h
  exact (clearV2Many_frame l _ _ _ _ _ _ hm).toGHook _ _

theorem restoreGuaranteedV1_frame {s s' : State} {l : List Nat} (h : restoreGuaranteedV1 s l = .ok s') :
    GHook l s s' := by
  unfold restoreGuaranteedV1 at h
  simp only [bind_ok_iff, pure_ok_iff, Prod.exists] at h
  obtain ⟨s1, r, tg, hm, rfl⟩ := h
  exact (restoreV1Many_frame l _ _ _ _ _ _ hm).toGHook _ _

theorem restoreGuaranteedV2_frame {s s' : State} {l : List Nat} (h : restoreGuaranteedV2 s l = .ok s') :
    GHook l s s' := by
  unfold restoreGuaranteedV2 at h
  simp only [bind_ok_iff, pure_ok_iff, Prod.exists] at h
  obtain ⟨s1, r, tg, hm, rfl⟩ := h
  exact (restoreV2Many_frame l _ _ _ _ _ _ hm).toGHook _ _

/-! ### refundNftMany: frame -/

/-- `refundNftMany` changes only `payers` and the balances, and appends transfers -/
def NftRefundFrame (t t' : Tx) : Prop :=
  (∃ py bal, t'.s = { t.s with payers := py, bal := bal }) ∧ t'.c = t.c ∧
  ∃ xf, t'.o = { t.o with xfers := t.o.xfers ++ xf }

theorem refundNftMany_frame (l : List Nat) : ∀ (t t' : Tx), refundNftMany l t = .ok t' → NftRefundFrame t t' := by
  induction l with
  | nil =>
    intro t t' h
    simp only [refundNftMany] at h
    injection h with h; subst h
    exact ⟨⟨_, _, rfl⟩, rfl, [], by simp⟩
  | cons u rest ih =>
    intro t t' h
    rw [refundNftMany] at h
    simp only at h
    split at h
    · split at h; · cases h
      rename_i t1 hsend
      obtain ⟨_, rfl⟩ := (send_ok_iff _ _ _ _).mp hsend
      obtain ⟨⟨py, bal, hs⟩, hc, xf, ho⟩ := ih _ _ h
      refine ⟨⟨py, bal, ?_⟩, ?_, (u, t.s.nftCost) :: xf, ?_⟩
      · rw [hs]; rfl
      · rw [hc]; rfl
      · rw [ho]; simp [Tx.setS]
    · exact ih _ _ h

/-! ### the blacklist endpoints -/

theorem addUsersToBlacklist_ok_iff (t t' : Tx) (e : Env) (l : List Nat) :
    addUsersToBlacklist t e l = .ok t' ↔
      (e.caller = t.s.owner ∨ e.caller = t.s.support) ∧
      (t.s.stage e = .addTickets ∨ t.s.stage e = .confirm) ∧
      l.Nodup ∧ (∀ u ∈ l, t.s.blacklist u = false ∧ (t.s.range u).isSome = true) ∧
      t.s.price * blConfSum t.s l ≤ t.s.bal t.s.payTok 0 ∧ t' = blTx t e l := by
  have hst : stageLt t.s e .winnerSelection = true ↔ (t.s.stage e = .addTickets ∨ t.s.stage e = .confirm) := by
    unfold stageLt
    cases h : t.s.stage e <;> simp [Stage.toNat]
  unfold addUsersToBlacklist extendedPermissions
  simp only [bind_ok_iff, req_ok_iff, exists_const, blacklistMany_ok_iff, hst, Bool.or_eq_true,
    beq_iff_eq]

def blacklistEv (e : Env) (l : List Nat) : Ev :=
  ⟨"addUsersToBlacklist", [e.caller, e.round, e.epoch], [e.caller, e.round, e.epoch, l.length] ++ l⟩

def unblacklistEv (e : Env) (l : List Nat) : Ev :=
  ⟨"removeGuaranteedUsersFromBlacklist", [e.caller, e.round, e.epoch],
    [e.caller, e.round, e.epoch, l.length] ++ l⟩



/-- guaranteed-ticket hook of the `blacklist` endpoint -/
def blHookG (t : Tx) (l : List Nat) : Res Tx :=
  if t.s.variant.isV2 then do let s ← clearGuaranteedV2 t.s l; pure (t.setS s)
  else if t.s.variant.v1Alloc then do let s ← clearGuaranteedV1 t.s l; pure (t.setS s)
  else pure t

/-- NFT hook of the `blacklist` endpoint -/
def blHookN (t : Tx) (l : List Nat) : Res Tx :=
  if t.s.variant.hasNft then refundNftMany l t else pure t

/-- v2 event of the `blacklist` endpoint -/
def blHookE (t : Tx) (e : Env) (l : List Nat) : Tx :=
  if t.s.variant.isV2 then
    t.emit ⟨"addUsersToBlacklist", topics e, [e.caller, e.round, e.epoch, l.length] ++ l⟩
  else t

theorem exec_blacklist_eq (hash : List Nat → List Nat) (t : Tx) (e : Env) (l : List Nat) :
    exec hash t e (.blacklist l) =
      (addUsersToBlacklist t e l >>= fun t1 => blHookG t1 l >>= fun t2 => blHookN t2 l >>= fun t3 =>
        pure (blHookE t3 e l)) := by
  simp only [exec]
  cases addUsersToBlacklist t e l with
  | error err => rfl
  | ok t1 =>
    simp only [bind, Except.bind, blHookG, blHookN, blHookE, pure, Except.pure]
    split
    · cases clearGuaranteedV2 t1.s l with
      | error err => rfl
      | ok s1 =>
        simp only
        split
        · cases refundNftMany l (t1.setS s1) with
          | error err => rfl
          | ok t3 => simp only; split <;> first | rfl | contradiction
        · simp only; split <;> first | rfl | contradiction
    · split
      · cases clearGuaranteedV1 t1.s l with
        | error err => rfl
        | ok s1 =>
          simp only
          split
          · cases refundNftMany l (t1.setS s1) with
            | error err => rfl
            | ok t3 => simp only; split <;> first | rfl | contradiction
          · simp only; split <;> first | rfl | contradiction
      · simp only
        split
        · cases refundNftMany l t1 with
          | error err => rfl
          | ok t3 => simp only; split <;> first | rfl | contradiction
        · simp only; split <;> first | rfl | contradiction


/-- the `blacklist` endpoint: after `addUsersToBlacklist` (result `blTx t e l`) the variant's hooks
    touch only the guaranteed-ticket records (`GHook`) and, for NFT variants, `payers`/balances
    with further transfers; v2 appends its `addUsersToBlacklist` event. -/
theorem exec_blacklist_out {hash : List Nat → List Nat} {t t' : Tx} {e : Env} {l : List Nat}
    (h : exec hash t e (.blacklist l) = .ok t') :
    addUsersToBlacklist t e l = .ok (blTx t e l) ∧
    t'.o.events = t.o.events ++ l.filterMap (blEvent t.s e) ++
      (if t.s.variant.isV2 then [blacklistEv e l] else []) ∧
    (∃ xf, t'.o.xfers = t.o.xfers ++ l.filterMap (blXfer t.s) ++ xf ∧
        (t.s.variant.hasNft = false → xf = [])) ∧
    t'.o.ret = t.o.ret ∧ t'.o.locks = t.o.locks ∧ t'.o.sfts = t.o.sfts ∧
    ∃ s1 py bal, GHook l (blState t.s l) s1 ∧ t'.s = { s1 with payers := py, bal := bal } ∧
      (t.s.variant.hasNft = false → py = s1.payers ∧ bal = s1.bal) := by
  rw [exec_blacklist_eq] at h
  simp only [bind_ok_iff, pure_ok_iff] at h
  obtain ⟨t1, h1, t2, h2, t3, h3, h4⟩ := h
  have h1' := h1
  obtain ⟨_, _, _, _, _, rfl⟩ := (addUsersToBlacklist_ok_iff _ _ _ _).mp h1
  refine ⟨h1', ?_⟩
  have hv1 : (blTx t e l).s.variant = t.s.variant := rfl
  -- guaranteed hook
  have hg : GHook l (blState t.s l) t2.s ∧ t2.c = t.c ∧ t2.o = (blTx t e l).o := by
    unfold blHookG at h2
    split at h2
    · simp only [bind_ok_iff, pure_ok_iff] at h2
      obtain ⟨s1, hs1, rfl⟩ := h2
      exact ⟨clearGuaranteedV2_frame hs1, rfl, rfl⟩
    · split at h2
      · simp only [bind_ok_iff, pure_ok_iff] at h2
        obtain ⟨s1, hs1, rfl⟩ := h2
        exact ⟨clearGuaranteedV1_frame hs1, rfl, rfl⟩
      · simp only [pure_ok_iff] at h2
        subst h2
        exact ⟨⟨⟨_, _, _, _, _, rfl⟩, fun _ _ => ⟨rfl, rfl⟩⟩, rfl, rfl⟩
  obtain ⟨hg1, hg2, hg3⟩ := hg
  have hv2 : t2.s.variant = t.s.variant := by
    obtain ⟨⟨_, _, _, _, _, hs⟩, _⟩ := hg1
    rw [hs]; rfl
  -- NFT hook
  have hn : (∃ py bal, t3.s = { t2.s with payers := py, bal := bal } ∧
        (t.s.variant.hasNft = false → py = t2.s.payers ∧ bal = t2.s.bal)) ∧
      ∃ xf, t3.o = { t2.o with xfers := t2.o.xfers ++ xf } ∧ (t.s.variant.hasNft = false → xf = []) := by
    unfold blHookN at h3
    rw [hv2] at h3
    split at h3
    · rename_i hnft
      obtain ⟨⟨py, bal, hs⟩, _, xf, ho⟩ := refundNftMany_frame l _ _ h3
      exact ⟨⟨py, bal, hs, fun hf => by simp [hf] at hnft⟩, xf, ho, fun hf => by simp [hf] at hnft⟩
    · simp only [pure_ok_iff] at h3
      subst h3
      exact ⟨⟨_, _, rfl, fun _ => ⟨rfl, rfl⟩⟩, [], by simp, fun _ => rfl⟩
  obtain ⟨⟨py, bal, hs3, hpy⟩, xf, ho3, hxf⟩ := hn
  have hv3 : t3.s.variant = t.s.variant := by rw [hs3]; exact hv2
  have hout : t'.o = { t3.o with events := t3.o.events ++ (if t.s.variant.isV2 then [blacklistEv e l] else []) }
      ∧ t'.s = t3.s := by
    subst h4
    unfold blHookE
    rw [hv3]
    split <;> simp [Tx.emit, blacklistEv, topics]
  obtain ⟨ho, hs⟩ := hout
  rw [ho, ho3, hg3, hs, hs3]
  refine ⟨?_, ⟨xf, ?_, hxf⟩, rfl, rfl, rfl, t2.s, py, bal, hg1, rfl, hpy⟩
  · simp [blTx]
  · simp [blTx]

/-! ### refundUsers (v2) -/

theorem exec_refundUsers_out {hash : List Nat → List Nat} {t t' : Tx} {e : Env} {l : List Nat}
    (h : exec hash t e (.refundUsers l) = .ok t') :
    addUsersToBlacklist t e l = .ok (blTx t e l) ∧
    t'.o = (blTx t e l).o ∧ t'.c = t.c ∧ GHook l (blState t.s l) t'.s := by
  simp only [exec, bind_ok_iff, pure_ok_iff] at h
  obtain ⟨t1, h1, s1, h2, rfl⟩ := h
  have h1' := h1
  obtain ⟨_, _, _, _, _, rfl⟩ := (addUsersToBlacklist_ok_iff _ _ _ _).mp h1
  exact ⟨h1', rfl, rfl, clearGuaranteedV2_frame h2⟩

/-! ### un-blacklisting -/

/-- storage after clearing the blacklist flag of the users of `l` -/
def unblState (s : State) (l : List Nat) : State :=
  { s with blacklist := fun a => if a ∈ l then false else s.blacklist a }

theorem unblacklistMany_ok_iff (l : List Nat) : ∀ (s s' : State),
    unblacklistMany l s = .ok s' ↔
      l.Nodup ∧ (∀ u ∈ l, s.blacklist u = true) ∧ s' = unblState s l := by
  induction l with
  | nil =>
    intro s s'
    simp only [unblacklistMany, List.nodup_nil, List.not_mem_nil, false_imp_iff, implies_true, true_and]
    have : unblState s [] = s := by simp [unblState]
    rw [this]
    constructor
    · intro h; injection h with h; exact h.symm
    · rintro rfl; rfl
  | cons a rest ih =>
    intro s s'
    rw [unblacklistMany]
    cases hb : s.blacklist a
    · simp [hb]
    · simp only [↓reduceIte, ih, List.nodup_cons, List.mem_cons, forall_eq_or_imp, hb, true_and]
      have key : a ∉ rest → unblState { s with blacklist := upd s.blacklist a false } rest
          = unblState s (a :: rest) := by
        intro ha
        unfold unblState
        simp only [List.mem_cons]
        congr 1
        funext x
        by_cases hx : x = a
        · subst hx; simp [ha]
        · simp [hx, upd]
      constructor
      · rintro ⟨hnd, hall, rfl⟩
        have ha : a ∉ rest := by
          intro ha
          have := hall a ha
          simp at this
        refine ⟨⟨ha, hnd⟩, ?_, key ha⟩
        intro u hu
        have hne : u ≠ a := fun h => ha (h ▸ hu)
        simpa [upd, hne] using hall u hu
      · rintro ⟨⟨ha, hnd⟩, hall, rfl⟩
        refine ⟨hnd, ?_, (key ha).symm⟩
        intro u hu
        have hne : u ≠ a := fun h => ha (h ▸ hu)
        simpa [upd, hne] using hall u hu

theorem removeUsersFromBlacklist_ok_iff (s s' : State) (e : Env) (l : List Nat) :
    removeUsersFromBlacklist s e l = .ok s' ↔
      (e.caller = s.owner ∨ e.caller = s.support) ∧
      (s.stage e = .addTickets ∨ s.stage e = .confirm) ∧
      l.Nodup ∧ (∀ u ∈ l, s.blacklist u = true) ∧ s' = unblState s l := by
  have hst : stageLt s e .winnerSelection = true ↔ (s.stage e = .addTickets ∨ s.stage e = .confirm) := by
    unfold stageLt
    cases h : s.stage e <;> simp [Stage.toNat]
  unfold removeUsersFromBlacklist extendedPermissions
  simp only [bind_ok_iff, req_ok_iff, exists_const, unblacklistMany_ok_iff, hst, Bool.or_eq_true,
    beq_iff_eq]

/-- the `unblacklist` endpoint: the flags of exactly the listed users are cleared, then the
    variant's hook touches only the guaranteed-ticket records; v2 emits its event -/
theorem exec_unblacklist_out {hash : List Nat → List Nat} {t t' : Tx} {e : Env} {l : List Nat}
    (h : exec hash t e (.unblacklist l) = .ok t') :
    removeUsersFromBlacklist t.s e l = .ok (unblState t.s l) ∧
    GHook l (unblState t.s l) t'.s ∧ t'.c = t.c ∧
    t'.o = { t.o with events := t.o.events ++ (if t.s.variant.isV2 then [unblacklistEv e l] else []) } ∧
    (if t.s.variant.isV2 then restoreGuaranteedV2 (unblState t.s l) l = .ok t'.s
     else restoreGuaranteedV1 (unblState t.s l) l = .ok t'.s) := by
  simp only [exec, bind_ok_iff] at h
  obtain ⟨s1, h1, h2⟩ := h
  have h1' := h1
  obtain ⟨_, _, _, _, rfl⟩ := (removeUsersFromBlacklist_ok_iff _ _ _ _).mp h1
  refine ⟨h1', ?_⟩
  have hv : (unblState t.s l).variant = t.s.variant := rfl
  rw [hv] at h2
  split at h2
  · rename_i hv2
    simp only [bind_ok_iff, pure_ok_iff] at h2
    obtain ⟨s2, hr, rfl⟩ := h2
    refine ⟨restoreGuaranteedV2_frame hr, rfl, ?_, ?_⟩
    · simp [Tx.emit, Tx.setS, unblacklistEv, topics, hv2]
    · simpa [hv2, Tx.emit, Tx.setS] using hr
  · rename_i hv2
    simp only [bind_ok_iff, pure_ok_iff] at h2
    obtain ⟨s2, hr, rfl⟩ := h2
    refine ⟨restoreGuaranteedV1_frame hr, rfl, ?_, ?_⟩
    · simp [Tx.setS, hv2]
    · simpa [hv2, Tx.setS] using hr

/-- v2 restore, per user: a listed user (with an allocation record) gets the parked record back -/
theorem restoreV2Many_moves (l : List Nat) : ∀ (s : State) (nw tg : Nat) (s' : State) (nw' tg' : Nat),
    restoreV2Many l (s, nw, tg) = .ok (s', nw', tg') → l.Nodup →
    ∀ u ∈ l, (s.range u).isSome = true →
      s'.uts u = some ((s.blUts u).getD {}) ∧ s'.blUts u = none := by
  induction l with
  | nil => intro s nw tg s' nw' tg' _ _ u hu; cases hu
  | cons a rest ih =>
    intro s nw tg s' nw' tg' h hnd u hu hr
    obtain ⟨ha, hnd'⟩ := List.nodup_cons.mp hnd
    rw [restoreV2Many] at h
    simp only at h
    rcases List.mem_cons.mp hu with rfl | hu'
    · -- the head
      have hrn : (s.range u).isNone = false := by
        cases hx : s.range u <;> simp [hx] at hr ⊢
      simp only [hrn, Bool.false_eq_true, ↓reduceIte] at h
      split at h
      · split at h; · cases h
        obtain ⟨_, hf⟩ := restoreV2Many_frame rest _ _ _ _ _ _ h
        have := hf u ha
        simpa [upd] using this
      · obtain ⟨_, hf⟩ := restoreV2Many_frame rest _ _ _ _ _ _ h
        have := hf u ha
        simpa [upd] using this
    · have hne : u ≠ a := fun h => ha (h ▸ hu')
      split at h
      · exact ih _ _ _ _ _ _ h hnd' u hu' hr
      · split at h
        · split at h; · cases h
          have := ih _ _ _ _ _ _ h hnd' u hu' hr
          simpa [upd, hne] using this
        · have := ih _ _ _ _ _ _ h hnd' u hu' hr
          simpa [upd, hne] using this

theorem restoreGuaranteedV2_moves {s s' : State} {l : List Nat}
    (h : restoreGuaranteedV2 s l = .ok s') (hnd : l.Nodup) (u : Nat) (hu : u ∈ l)
    (hr : (s.range u).isSome = true) :
    s'.uts u = some ((s.blUts u).getD {}) ∧ s'.blUts u = none := by
  unfold restoreGuaranteedV2 at h
  simp only [bind_ok_iff, pure_ok_iff, Prod.exists] at h
  obtain ⟨s1, r, tg, hm, rfl⟩ := h
  exact restoreV2Many_moves l _ _ _ _ _ _ hm hnd u hu hr

/-! ### settlement and the vesting claim -/

theorem settle_ok_frame {s s1 : State} {e : Env} {redeem refund : Nat}
    (h : settle s e = .ok (s1, redeem, refund)) :
    s.stage e = .claim ∧ s.claimed e.caller = false ∧
    ∃ r st p nw, s.range e.caller = some r ∧
      s1 = { s with status := st, posToId := p, confirmed := upd s.confirmed e.caller 0,
                    range := upd s.range e.caller none, batch := upd s.batch r.first none,
                    nrWinning := nw, claimed := upd s.claimed e.caller true } ∧
      refund + redeem = s.confirmed e.caller := by
  unfold settle at h
  simp only [bind_ok_iff, requireStage, req_ok_iff, exists_const] at h
  obtain ⟨h1, h2, h⟩ := h
  refine ⟨by simpa using h1, by simpa using h2, ?_⟩
  cases hr : s.range e.caller with
  | none => simp [hr] at h
  | some r =>
    simp only [hr] at h
    generalize clearRange s.status s.posToId r.first (rangeLen r) = cr at h
    obtain ⟨st, p, rd⟩ := cr
    simp only at h
    split at h
    all_goals
      simp only [bind_ok_iff, pure_ok_iff] at h
      obtain ⟨nw, _, rf, hrf, h⟩ := h
      injection h with h1 h2; injection h2 with h2 h3
      subst h1 h2 h3
      refine ⟨r, _, _, nw, rfl, rfl, ?_⟩
      unfold csub at hrf
      split at hrf
      · injection hrf with hrf; omega
      · cases hrf

def claimEv (s : State) (e : Env) (c : Nat) : Ev :=
  ⟨"claimLaunchpadTokens", [e.caller, e.round, e.epoch], [e.caller, e.round, e.epoch, s.lpTok + 1, 0, c]⟩

set_option hygiene false in
local macro "vest_tail" : tactic => `(tactic| (
  obtain ⟨c, hc, hrest⟩ := h
  refine ⟨c, hc, ?_⟩
  by_cases hc0 : c > 0
  · simp only [hc0, ↓reduceIte, bind_ok_iff, pure_ok_iff, send_ok_iff] at hrest
    obtain ⟨t2, ⟨_, rfl⟩, rfl⟩ := hrest
    simp [hc0, hv, Tx.emit, Tx.setS, claimEv, topics]
  · simp only [hc0, ↓reduceIte, pure_ok_iff] at hrest
    subst hrest
    simp [hc0]))

/-- tail of the vesting claim, from the post-settlement record `tm` -/
theorem claimVested_claimed {t t' : Tx} {e : Env} (hcl : t.s.claimed e.caller = true)
    (h : claimVested t e = .ok t') :
    ∃ c, (if t.s.variant.isV2 then claimable2 t.s e e.caller else claimable1 t.s e e.caller) = .ok c ∧
      t'.o.events = t.o.events ++ (if c > 0 ∧ t.s.variant.isV2 = true then [claimEv t.s e c] else []) ∧
      t'.o.xfers = t.o.xfers ++ (if c > 0 then [(e.caller, (⟨.esdt t.s.lpTok, 0, c⟩ : Pay))] else []) := by
  unfold claimVested at h
  cases hv : t.s.variant.isV2 <;>
    simp only [hv, hcl, Bool.false_eq_true, ↓reduceIte, pure_bind, bind_ok_iff, req_ok_iff, exists_const] at h
  · vest_tail
  · obtain ⟨_, h⟩ := h
    vest_tail

theorem refund_out {t t' : Tx} {e : Env} {addr n : Nat} (h : t.refund e addr n = .ok t') :
    t'.o.events = t.o.events ++ (if n > 0 then [refundEv t.s e n] else []) ∧
    t'.o.xfers = t.o.xfers ++ (if n > 0 then [(addr, refundPay t.s n)] else []) ∧
    t'.s = { t.s with bal := t.s.bal.sub t.s.payTok 0 (t.s.price * n) } ∧ t'.c = t.c ∧
    t'.o.ret = t.o.ret ∧ t'.o.locks = t.o.locks ∧ t'.o.sfts = t.o.sfts := by
  by_cases hn : n > 0
  · obtain ⟨_, rfl⟩ := (refund_pos_ok_iff t e addr n hn t').mp h
    simp [hn, refundTx]
  · have h0 : n = 0 := by omega
    subst h0
    rw [refund_zero] at h
    injection h with h; subst h
    simp [Bal.sub_zero]

set_option hygiene false in
local macro "vest_first_tail" : tactic => `(tactic| (
  obtain ⟨_, _, r, st, p, nw, _, hs1, _⟩ := settle_ok_frame hset
  obtain ⟨hev, hxf, hs, _⟩ := refund_out href
  have hlp : t1.s.lpTok = t.s.lpTok := by rw [hs, Tx.setS, hs1]
  have hre : refundEv (t.setS s1).s e rf = refundEv t.s e rf := by rw [Tx.setS, hs1]; rfl
  have hrp : refundPay (t.setS s1).s rf = refundPay t.s rf := by rw [Tx.setS, hs1]; rfl
  rw [hre] at hev
  rw [hrp] at hxf
  refine ⟨s1, redeem, rf, t1, c, hset, href, ?_, ?_⟩
  · by_cases hrd : redeem > 0 <;> simpa [hrd, Tx.setS] using hc
  · by_cases hc0 : c > 0
    · simp only [hc0, ↓reduceIte, bind_ok_iff, pure_ok_iff, send_ok_iff] at hrest
      obtain ⟨t2, ⟨_, rfl⟩, rfl⟩ := hrest
      by_cases hrd : redeem > 0 <;>
        simp [hc0, hv, hrd, Tx.emit, Tx.setS, claimEv, topics, hev, hxf, hlp]
    · simp only [hc0, ↓reduceIte, pure_ok_iff] at hrest
      subst hrest
      by_cases hrd : redeem > 0 <;> simp [hc0, hrd, Tx.setS, hev, hxf]))

/-- first call of a participant in a vesting variant: settlement, refund of the losing tickets,
    then release of what is claimable -/
theorem claimVested_first {t t' : Tx} {e : Env} (hcl : t.s.claimed e.caller = false)
    (h : claimVested t e = .ok t') :
    ∃ s1 redeem rf t1 c, settle t.s e = .ok (s1, redeem, rf) ∧
      (t.setS s1).refund e e.caller rf = .ok t1 ∧
      (if t.s.variant.isV2 then claimable2 else claimable1)
        (if redeem > 0 then
          { t1.s with userTotal := upd t1.s.userTotal e.caller (redeem * t1.s.perTicket) } else t1.s)
        e e.caller = .ok c ∧
      t'.o.events = t.o.events ++ (if rf > 0 then [refundEv t.s e rf] else []) ++
        (if c > 0 ∧ t.s.variant.isV2 = true then [claimEv t.s e c] else []) ∧
      t'.o.xfers = t.o.xfers ++ (if rf > 0 then [(e.caller, refundPay t.s rf)] else []) ++
        (if c > 0 then [(e.caller, (⟨.esdt t.s.lpTok, 0, c⟩ : Pay))] else []) := by
  unfold claimVested at h
  cases hv : t.s.variant.isV2 <;>
    simp only [hv, hcl, Bool.false_eq_true, ↓reduceIte, pure_bind, bind_ok_iff, req_ok_iff, exists_const,
      pure_ok_iff, Prod.exists] at h
  · obtain ⟨s1, redeem, rf, hset, t1, href, c, hc, hrest⟩ := h
    vest_first_tail
  · obtain ⟨_, s1, redeem, rf, hset, t1, href, c, hc, hrest⟩ := h
    vest_first_tail

/-! ### sends never emit -/

theorem send_events {t t' : Tx} {to : Nat} {p : Pay} (h : t.send to p = .ok t') :
    t'.o.events = t.o.events := by
  obtain ⟨_, rfl⟩ := (send_ok_iff t to p t').mp h; rfl

theorem sendLocked_events {t t' : Tx} {e : Env} {dest amount : Nat} (h : t.sendLocked e dest amount = .ok t') :
    t'.o.events = t.o.events := by
  unfold Tx.sendLocked at h
  generalize (if e.epoch < t.s.unlockEpoch then lockSplit amount t.s.lockPct else 0) = la at h
  by_cases hla : la > 0 <;> by_cases hu : amount - la > 0 <;>
    simp only [hla, hu, ↓reduceIte, bind_ok_iff, pure_ok_iff] at h
  · obtain ⟨t0, hs, t1, rfl, h2⟩ := h
    rw [send_events h2]; exact (send_events hs : t0.o.events = t.o.events)
  · obtain ⟨t0, hs, t1, rfl, rfl⟩ := h
    exact (send_events hs : t0.o.events = t.o.events)
  · obtain ⟨t1, rfl, h2⟩ := h
    exact send_events h2
  · obtain ⟨t1, rfl, rfl⟩ := h
    rfl

theorem sendLaunchpadTokens_events {t t' : Tx} {e : Env} {addr n : Nat}
    (h : t.sendLaunchpadTokens e addr n = .ok t') : t'.o.events = t.o.events := by
  unfold Tx.sendLaunchpadTokens at h
  split at h
  · injection h with h; subst h; rfl
  · simp only at h
    split at h
    · exact sendLocked_events h
    · exact send_events h

theorem claimNft_events {t t' : Tx} {e : Env} (h : claimNft t e = .ok t') : t'.o.events = t.o.events := by
  unfold claimNft at h
  generalize swapRemove t.s.nftWinners e.caller = sw at h
  obtain ⟨w, won⟩ := sw
  cases won
  · simp only [Bool.false_eq_true, ↓reduceIte] at h
    generalize hsp : swapRemove (t.setS { t.s with nftWinners := w }).s.payers e.caller = sp at h
    obtain ⟨p, paid⟩ := sp
    cases paid
    · simp only [Bool.false_eq_true, ↓reduceIte, bind_ok_iff, req_ok_iff, exists_const, pure_ok_iff,
        Nat.reduceEqDiff] at h
      obtain ⟨_, rfl⟩ := h
      rfl
    · simp only [↓reduceIte, bind_ok_iff, req_ok_iff, exists_const] at h
      obtain ⟨_, h⟩ := h
      rw [send_events h]; rfl
  · simp only [↓reduceIte, bind_ok_iff, req_ok_iff, exists_const, pure_ok_iff, Nat.reduceEqDiff] at h
    obtain ⟨_, rfl⟩ := h
    rfl

/-- the non-vesting claim: the only event is the refund of the losing confirmed tickets -/
theorem exec_claim_plain_events {hash : List Nat → List Nat} {t t' : Tx} {e : Env}
    (hv : t.s.variant.vested = false) (h : exec hash t e .claim = .ok t') :
    ∃ s1 redeem rf, settle t.s e = .ok (s1, redeem, rf) ∧
      t'.o.events = t.o.events ++ (if rf > 0 then [refundEv t.s e rf] else []) := by
  simp only [exec, hv, Bool.false_eq_true, ↓reduceIte, bind_ok_iff, Prod.exists] at h
  obtain ⟨s1, redeem, rf, hset, t1, href, t2, hsend, hrest⟩ := h
  refine ⟨s1, redeem, rf, hset, ?_⟩
  obtain ⟨_, _, r, st, p, nw, _, hs1, _⟩ := settle_ok_frame hset
  obtain ⟨hev, _⟩ := refund_out href
  have hre : refundEv (t.setS s1).s e rf = refundEv t.s e rf := by rw [Tx.setS, hs1]; rfl
  rw [hre] at hev
  have e2 := sendLaunchpadTokens_events hsend
  split at hrest
  · rw [claimNft_events hrest, e2, hev]; rfl
  · simp only [pure_ok_iff] at hrest; subst hrest; rw [e2, hev]; rfl

end LP.Events
