import LP.Proofs.ReachBEGen
import LP.Proofs.ClaimedFrame
/-
  LP.Proofs.ReachBECore — the ticket-level facts the blacklist theorems read off the phase
  invariants of the reachable-state developments (all of which are built from the plain phases
  `Pre`/`PhA`/`PhB`/`PhC`/`PhD` over the projection `State.core`):

  * `be_Tix c`   selected ⇒ filtered; after the filter every allocation record belongs to somebody
                 with at least one confirmed ticket; before the filter completes no ticket is flagged;
                 during an interrupted filter a record of somebody with nothing confirmed lies in the
                 part of the ticket space the loop has not reached yet;
  * `be_Tix_of_Phase`, `be_Tix_of_alloc`, `be_Tix_of_PhD`  it follows from each phase;
  * `be_Good s`  `be_Tix` + `BlZero` + valid timeline + (vesting variants) "blacklisted ⇒ never
                 claimed"; consequences `be_Good.no_range`, `.never_wins`, `.claim_rejected`, … .
-/
namespace LP
open LP.Props LP.Events LP.FY

structure be_Tix (c : Core) : Prop where
  selFil : c.flags.selected = true → c.flags.filtered = true
  rngConf : c.flags.filtered = true → ∀ a r, c.range a = some r → 1 ≤ c.confirmed a
  noWin : c.flags.filtered = false → c.status = fun _ => false
  midNF : ∀ f rm, c.op = .filter f rm → c.flags.filtered = false
  mid : ∀ f rm, c.op = .filter f rm → ∀ a r, c.range a = some r → c.confirmed a = 0 → f ≤ r.first

/-- `be_Tix` does not read the payment balance of the projection -/
theorem be_Tix.payBal {c : Core} (h : be_Tix c) (x : Nat) : be_Tix { c with payBal := x } :=
  ⟨h.selFil, h.rngConf, h.noWin, h.midNF, h.mid⟩

theorem be_Tix.of_payBal {c : Core} {x : Nat} (h : be_Tix { c with payBal := x }) : be_Tix c :=
  ⟨h.selFil, h.rngConf, h.noWin, h.midNF, h.mid⟩

/-! ### chains -/

theorem be_chain_mem {L : List (Nat × Nat)} {first : Nat} {range : Nat → Option Range}
    {batch : Nat → Option Batch} (h : Chain L first range batch) {a : Nat} (ha : a ∈ L.map Prod.fst) :
    ∃ r, range a = some r ∧ first ≤ r.first := by
  induction L generalizing first with
  | nil => cases ha
  | cons p rest ih =>
    obtain ⟨_, h2, h3⟩ := h
    simp only [List.map_cons, List.mem_cons] at ha
    rcases ha with rfl | ha
    · exact ⟨_, h2, Nat.le_refl _⟩
    · obtain ⟨r, hr, hle⟩ := ih h3 ha
      exact ⟨r, hr, by omega⟩

/-! ### from the phases -/

/-- the phases after the filter that still carry the compacted allocation list
    (`PhC`, and the distribution phases of the guaranteed-ticket variants) -/
theorem be_Tix_of_alloc {c : Core} (hf : c.flags.filtered = true)
    (hop : ∀ f rm, c.op ≠ .filter f rm)
    (alloc : ∃ Ls : List (Nat × Nat), (Ls.map Prod.fst).Nodup ∧
      (∀ p ∈ Ls, 1 ≤ p.2 ∧ p.2 = c.confirmed p.1) ∧ Chain Ls 1 c.range c.batch ∧
      c.lastTicketId = ticketTotal Ls ∧
      (∀ a, a ∉ Ls.map Prod.fst → c.range a = none ∧ c.confirmed a = 0) ∧
      PayPre c (Ls.map Prod.fst)) : be_Tix c := by
  obtain ⟨Ls, _, hpos, _, _, hout, _⟩ := alloc
  refine ⟨fun _ => hf, ?_, fun h => (by rw [hf] at h; cases h), fun f rm h => absurd h (hop f rm),
    fun f rm h => absurd h (hop f rm)⟩
  intro _ a r hr
  by_cases ha : a ∈ Ls.map Prod.fst
  · obtain ⟨p, hp, rfl⟩ := List.mem_map.mp ha
    obtain ⟨h1, h2⟩ := hpos p hp
    omega
  · rw [(hout a ha).1] at hr; cases hr

theorem be_Tix_of_PhC {T0 : Nat} {c : Core} (h : PhC T0 c) : be_Tix c := by
  apply be_Tix_of_alloc h.filtered _ h.alloc
  intro f rm hop
  rcases h.sel with ⟨h1, _⟩ | ⟨rng, pos, arr, h1, _⟩ <;> rw [h1] at hop <;> cases hop

theorem be_Tix_of_PhD {c : Core} (h : PhD c) : be_Tix c := by
  refine ⟨fun _ => h.filtered, ?_, fun hf => (by rw [h.filtered] at hf; cases hf),
    fun f rm hop => (by rw [h.op] at hop; cases hop), fun f rm hop => (by rw [h.op] at hop; cases hop)⟩
  intro _ a r hr
  have := h.rngOk a r hr
  omega

/-- `PhD` of the projection with the saved operation erased (NFT draw in progress) -/
theorem be_Tix_of_PhD_op {c : Core} (h : PhD { c with op := .none })
    (hop : ∀ f rm, c.op ≠ .filter f rm) : be_Tix c := by
  have h1 := be_Tix_of_PhD h
  exact ⟨h1.selFil, h1.rngConf, h1.noWin, fun f rm hh => absurd hh (hop f rm),
    fun f rm hh => absurd hh (hop f rm)⟩

theorem be_Tix_of_PhA {T0 : Nat} {c : Core} {L0 : List (Nat × Nat)} (hp : Pre T0 c L0) (ha : PhA c L0) :
    be_Tix c :=
  ⟨fun h => (by rw [hp.notSelected] at h; cases h), fun h => (by rw [hp.notFiltered] at h; cases h),
    fun _ => hp.status0, fun f rm hop => (by rw [ha.op] at hop; cases hop),
    fun f rm hop => (by rw [ha.op] at hop; cases hop)⟩

theorem be_Tix_of_PhB {T0 : Nat} {c : Core} {L0 : List (Nat × Nat)} (hp : Pre T0 c L0) (hb : PhB c L0) :
    be_Tix c := by
  refine ⟨fun h => (by rw [hp.notSelected] at h; cases h), fun h => (by rw [hp.notFiltered] at h; cases h),
    fun _ => hp.status0, fun _ _ _ => hp.notFiltered, ?_⟩
  intro f rm hop a r hr hc0
  obtain ⟨f', rm', hop', P, S, hL, _, hS, _, _, _, hzero, hout⟩ := hb.mid
  rw [hop] at hop'
  injection hop' with hf _
  subst hf
  by_cases ha : a ∈ L0.map Prod.fst
  · rw [hL, List.map_append, List.mem_append] at ha
    rcases ha with ha | ha
    · obtain ⟨p, hp', rfl⟩ := List.mem_map.mp ha
      have h0 : c.range p.1 = none := hzero p hp' hc0
      rw [h0] at hr; cases hr
    · obtain ⟨r', hr', hle⟩ := be_chain_mem hS ha
      have : c.range a = some r' := hr'
      rw [hr] at this
      injection this with this
      subst this
      exact hle
  · have h0 : c.range a = none := hout a ha
    rw [h0] at hr; cases hr

theorem be_Tix_of_Phase {T0 : Nat} {c : Core} (h : Phase T0 c) : be_Tix c := by
  rcases h with ⟨L0, hp, ha | hb⟩ | hc | hd
  · exact be_Tix_of_PhA hp ha
  · exact be_Tix_of_PhB hp hb
  · exact be_Tix_of_PhC hc
  · exact be_Tix_of_PhD hd

/-! ### claims of blacklisted participants -/

/-- every `claim` of a blacklisted participant is rejected (stated on the three facts it uses, so
    that it can be applied inside the induction that establishes `be_Good.vest`) -/
theorem be_claim_rejected_raw {s : State} (htix : be_Tix s.core) (hz : BlZero s)
    (hvest : s.variant.vested = true → ∀ a, s.blacklist a = true → s.claimed a = false)
    (hash : List Nat → List Nat) (e : Env)
    (hb : s.blacklist e.caller = true) : ∃ err, step hash s e .claim = .error err := by
  cases hst : step hash s e .claim with
  | error err => exact ⟨err, rfl⟩
  | ok x =>
    exfalso
    rcases C06.claim_gate hash s e x hst with h1 | ⟨hv, hc⟩
    · have hf : s.flags.filtered = true := htix.selFil (rb_stage_claim h1).1
      have hnr : s.range e.caller = none := by
        cases hr : s.range e.caller with
        | none => rfl
        | some r =>
          have h2 : 1 ≤ s.confirmed e.caller := htix.rngConf hf _ r hr
          have h0 : s.confirmed e.caller = 0 := hz _ hb
          omega
      obtain ⟨hv, hc⟩ := C10.no_range_cannot_claim hash s e x hnr hst
      rw [hvest hv _ hb] at hc; cases hc
    · rw [hvest hv _ hb] at hc; cases hc

/-- "a blacklisted participant has never settled" is preserved by every accepted call, provided
    nobody has settled yet whenever a blacklisting call is accepted -/
theorem be_NC_step {hash : List Nat → List Nat} {s s' : State} {e : Env} {c : Call} {o : Out}
    (htix : be_Tix s.core) (hz : BlZero s)
    (hnc : ∀ a, s.blacklist a = true → s.claimed a = false)
    (hfresh : ((∃ l, c = .blacklist l) ∨ (∃ l, c = .refundUsers l)) → ∀ a, s.claimed a = false)
    (h : step hash s e c = .ok (s', o)) :
    ∀ a, s'.blacklist a = true → s'.claimed a = false := by
  obtain ⟨m, t, _, _, _, hx, hs', _⟩ := step_ok_inv h
  have hcl : c ≠ .claim → s'.claimed = s.claimed := by
    intro hc; rw [hs', exec_claimed_eq hc hx]; rfl
  intro a hb
  cases c with
  | claim =>
    have hbl : s'.blacklist = s.blacklist :=
      C10frame.blacklist_frame hash s s' e _ o h (fun _ => nofun) (fun _ => nofun) (fun _ => nofun)
    rw [hbl] at hb
    have hc' : s'.claimed = upd s.claimed e.caller true := by rw [hs', exec_claim_claimed hx]; rfl
    rw [hc']
    by_cases hne : a = e.caller
    · exfalso
      subst hne
      obtain ⟨err, herr⟩ := be_claim_rejected_raw htix hz (fun _ => hnc) hash e hb
      rw [herr] at h; cases h
    · rw [upd_other _ _ _ _ hne]; exact hnc a hb
  | blacklist l => rw [hcl nofun]; exact hfresh (Or.inl ⟨l, rfl⟩) a
  | refundUsers l => rw [hcl nofun]; exact hfresh (Or.inr ⟨l, rfl⟩) a
  | unblacklist l =>
    rw [hcl nofun]
    rw [C10frame.blacklist_after_unblacklist hash s s' e l o h] at hb
    apply hnc
    by_cases hm : a ∈ l
    · simp [hm] at hb
    · simpa [hm] using hb
  | _ =>
    rw [hcl nofun]
    rw [C10frame.blacklist_frame hash s s' e _ o h (fun _ => nofun) (fun _ => nofun) (fun _ => nofun)] at hb
    exact hnc a hb

/-! ### the state-level package and its consequences -/

/-- everything the end-to-end blacklist theorems need to know about a reachable state -/
structure be_Good (s : State) : Prop where
  tix : be_Tix s.core
  blz : BlZero s
  valid : validPeriods s.cfg = true
  /-- vesting variants (`claim` is also the endpoint that releases vested tokens):
      a blacklisted participant has never settled -/
  vest : s.variant.vested = true → ∀ a, s.blacklist a = true → s.claimed a = false
  /-- vesting variants: nobody has settled before the filter completes -/
  fresh : s.variant.vested = true → s.flags.filtered = false → ∀ a, s.claimed a = false

namespace be_Good
variable {s : State}

/-- a blacklisted participant has nothing confirmed -/
theorem conf_zero (h : be_Good s) {a : Nat} (hb : s.blacklist a = true) : s.confirmed a = 0 :=
  h.blz a hb

/-- once the filter has completed a blacklisted participant has no allocation record -/
theorem no_range (h : be_Good s) (hf : s.flags.filtered = true) {a : Nat} (hb : s.blacklist a = true) :
    s.range a = none := by
  cases hr : s.range a with
  | none => rfl
  | some r =>
    have := h.tix.rngConf hf a r hr
    have h0 : s.confirmed a = 0 := h.blz a hb
    have : 1 ≤ s.confirmed a := this
    omega

/-- no winning flag inside a range owned by a blacklisted participant -/
theorem never_wins (h : be_Good s) {a : Nat} (hb : s.blacklist a = true) {r : Range}
    (hr : s.range a = some r) (id : Nat) : s.status id = false := by
  cases hf : s.flags.filtered with
  | true => rw [h.no_range hf hb] at hr; cases hr
  | false =>
    have : s.status = fun _ => false := h.tix.noWin hf
    rw [this]

theorem winCount_zero (h : be_Good s) {a : Nat} (hb : s.blacklist a = true) : winCountOf s a = 0 := by
  rw [rb_winCountOf_eq]
  unfold winOf
  cases hr : s.range a with
  | none => rfl
  | some r =>
    simp only
    have hst : ∀ id, s.status id = false := h.never_wins hb hr
    generalize rangeLen r = n
    induction n with
    | zero => rfl
    | succ k ih => simp [countWinning, ih, hst]

theorem view_nil (h : be_Good s) {a : Nat} (hb : s.blacklist a = true) : viewWinningIds s a = [] := by
  unfold viewWinningIds
  split
  · rfl
  · rename_i hsel
    have hsel' : s.flags.selected = true := by simpa using hsel
    rw [h.no_range (h.tix.selFil hsel') hb]

/-- interrupted filter: the record of a blacklisted participant, if still present, lies in the part
    of the ticket space the loop has not reached yet, and the filter flag is still unset -/
theorem mid_filter (h : be_Good s) {f rm : Nat} (hop : s.op = .filter f rm) :
    s.flags.filtered = false ∧ s.flags.selected = false ∧
    ∀ a r, s.blacklist a = true → s.range a = some r → f ≤ r.first := by
  have hnf : s.flags.filtered = false := h.tix.midNF f rm hop
  refine ⟨hnf, ?_, fun a r hb hr => h.tix.mid f rm hop a r hr (h.blz a hb)⟩
  cases hs : s.flags.selected with
  | false => rfl
  | true => have : s.flags.filtered = true := h.tix.selFil hs; rw [hnf] at this; cases this

/-- while the filter has not completed nobody can claim -/
theorem no_claim_before_filter (h : be_Good s) (hash : List Nat → List Nat) (e : Env)
    (hf : s.flags.filtered = false) : ∃ err, step hash s e .claim = .error err := by
  cases hst : step hash s e .claim with
  | error err => exact ⟨err, rfl⟩
  | ok x =>
    exfalso
    rcases C06.claim_gate hash s e x hst with h1 | ⟨hv, hc⟩
    · have : s.flags.filtered = true := h.tix.selFil (rb_stage_claim h1).1
      rw [hf] at this; cases this
    · rw [h.fresh hv hf] at hc; cases hc

/-- every `claim` of a blacklisted participant is rejected -/
theorem claim_rejected (h : be_Good s) (hash : List Nat → List Nat) (e : Env)
    (hb : s.blacklist e.caller = true) : ∃ err, step hash s e .claim = .error err :=
  be_claim_rejected_raw h.tix h.blz h.vest hash e hb

end be_Good

end LP
