import LP.Common
/-
  LP.Proofs.Locked — helper lemmas about `lockSplit` and `Tx.sendLocked`
  (locked_launchpad_token_send.rs).
-/
namespace LP

theorem lockSplit_le {amount pct : Nat} (h : pct ≤ 10000) : lockSplit amount pct ≤ amount := by
  unfold lockSplit
  apply Nat.div_le_of_le_mul
  rw [Nat.mul_comm 10000 amount]
  exact Nat.mul_le_mul_left amount h

theorem lockSplit_full (amount : Nat) : lockSplit amount 10000 = amount := by
  unfold lockSplit
  exact Nat.mul_div_cancel amount (by decide)

theorem lockSplit_zero_pct (amount : Nat) : lockSplit amount 0 = 0 := by
  simp [lockSplit]

theorem lockSplit_mono_amount {a b : Nat} (pct : Nat) (h : a ≤ b) :
    lockSplit a pct ≤ lockSplit b pct := by
  unfold lockSplit
  exact Nat.div_le_div_right (Nat.mul_le_mul_right pct h)

theorem lockSplit_mono_pct (a : Nat) {p q : Nat} (h : p ≤ q) :
    lockSplit a p ≤ lockSplit a q := by
  unfold lockSplit
  exact Nat.div_le_div_right (Nat.mul_le_mul_left a h)

/-- the locked part positive ↔ the product reaches one basis-point unit -/
theorem lockSplit_pos_iff (amount pct : Nat) : 0 < lockSplit amount pct ↔ 10000 ≤ amount * pct := by
  unfold lockSplit
  rw [Nat.div_pos_iff]
  omega

/-! ### balances -/

theorem Bal.sub_zero (b : Bal) (t : Token) (n : Nat) : b.sub t n 0 = b := by
  funext t' n'
  simp [Bal.sub]

theorem Bal.sub_sub (b : Bal) (t : Token) (n x y : Nat) :
    (b.sub t n x).sub t n y = b.sub t n (x + y) := by
  funext t' n'
  simp only [Bal.sub]
  split <;> omega

theorem Bal.sub_self_apply (b : Bal) (t : Token) (n x : Nat) : (b.sub t n x) t n = b t n - x := by
  simp [Bal.sub]

theorem Bal.sub_other_apply (b : Bal) (t t' : Token) (n n' x : Nat) (h : ¬ (t' = t ∧ n' = n)) :
    (b.sub t n x) t' n' = b t' n' := by
  simp [Bal.sub, h]

/-! ### `Tx.sendLocked` -/

/-- the amount that goes to the lock contract -/
def lockedPart (t : Tx) (e : Env) (amount : Nat) : Nat :=
  if e.epoch < t.s.unlockEpoch then lockSplit amount t.s.lockPct else 0

/-- the complete effect of a successful `sendLocked` -/
def sendLockedResult (t : Tx) (e : Env) (dest amount : Nat) : Tx :=
  let L := lockedPart t e amount
  { t with
    s := { t.s with bal := t.s.bal.sub (.esdt t.s.lpTok) 0 amount },
    o := { t.o with
      xfers := t.o.xfers
        ++ (if L > 0 then [(t.s.lockAddr, (⟨.esdt t.s.lpTok, 0, L⟩ : Pay))] else [])
        ++ (if amount - L > 0 then [(dest, (⟨.esdt t.s.lpTok, 0, amount - L⟩ : Pay))] else []),
      locks := t.o.locks ++ (if L > 0 then [(t.s.unlockEpoch, dest, L)] else []) } }

/-- `Tx.sendLocked` with the locked amount as a parameter -/
def sendLockedWith (t : Tx) (dest amount L : Nat) : Res Tx := do
  let t ← if L > 0 then do
      let t ← t.send t.s.lockAddr ⟨.esdt t.s.lpTok, 0, L⟩
      pure { t with o := { t.o with locks := t.o.locks ++ [(t.s.unlockEpoch, dest, L)] } }
    else pure t
  let unlocked := amount - L
  if unlocked > 0 then t.send dest ⟨.esdt t.s.lpTok, 0, unlocked⟩ else pure t

theorem sendLocked_eq_with (t : Tx) (e : Env) (dest amount : Nat) :
    t.sendLocked e dest amount = sendLockedWith t dest amount (lockedPart t e amount) := rfl

theorem lockedPart_le {t : Tx} {e : Env} {amount : Nat}
    (hp : e.epoch < t.s.unlockEpoch → t.s.lockPct ≤ 10000) : lockedPart t e amount ≤ amount := by
  unfold lockedPart
  split
  · exact lockSplit_le (hp ‹_›)
  · exact Nat.zero_le _

/-- success: the balance suffices -/
theorem sendLocked_ok (t : Tx) (e : Env) (dest amount : Nat)
    (hp : e.epoch < t.s.unlockEpoch → t.s.lockPct ≤ 10000)
    (hb : amount ≤ t.s.bal (.esdt t.s.lpTok) 0) :
    t.sendLocked e dest amount = .ok (sendLockedResult t e dest amount) := by
  have hL : lockedPart t e amount ≤ amount := lockedPart_le hp
  rw [sendLocked_eq_with]
  unfold sendLockedResult
  simp only []
  generalize lockedPart t e amount = L at hL ⊢
  unfold sendLockedWith
  simp only [bind, Except.bind, pure, Except.pure]
  by_cases h1 : L > 0
  · have hnot : ¬ t.s.bal (.esdt t.s.lpTok) 0 < L := by omega
    simp only [h1, if_true, Tx.send, hnot, if_false]
    by_cases h2 : amount - L > 0
    · have hnot2 : ¬ (t.s.bal.sub (.esdt t.s.lpTok) 0 L) (.esdt t.s.lpTok) 0 < amount - L := by
        rw [Bal.sub_self_apply]; omega
      simp only [h2, if_true, hnot2, if_false, Bal.sub_sub]
      have : L + (amount - L) = amount := by omega
      simp [this]
    · have : L = amount := by omega
      subst this
      simp
  · have hL0 : L = 0 := by omega
    subst hL0
    simp only [Nat.lt_irrefl, if_false, Nat.sub_zero]
    by_cases h2 : amount > 0
    · have hnot : ¬ t.s.bal (.esdt t.s.lpTok) 0 < amount := by omega
      simp [h2, Tx.send, hnot]
    · have : amount = 0 := by omega
      subst this
      simp [Bal.sub_zero]

/-- failure: the balance does not suffice -/
theorem sendLocked_err (t : Tx) (e : Env) (dest amount : Nat)
    (hp : e.epoch < t.s.unlockEpoch → t.s.lockPct ≤ 10000)
    (hb : t.s.bal (.esdt t.s.lpTok) 0 < amount) :
    t.sendLocked e dest amount = .error (.vm "insufficient funds") := by
  have hL : lockedPart t e amount ≤ amount := lockedPart_le hp
  rw [sendLocked_eq_with]
  generalize lockedPart t e amount = L at hL ⊢
  unfold sendLockedWith
  simp only [bind, Except.bind, pure, Except.pure]
  by_cases h1 : L > 0
  · by_cases hlt : t.s.bal (.esdt t.s.lpTok) 0 < L
    · simp [h1, Tx.send, hlt]
    · have h2 : amount - L > 0 := by omega
      have hlt2 : (t.s.bal.sub (.esdt t.s.lpTok) 0 L) (.esdt t.s.lpTok) 0 < amount - L := by
        rw [Bal.sub_self_apply]; omega
      simp [h1, Tx.send, hlt, h2, hlt2]
  · have hL0 : L = 0 := by omega
    subst hL0
    have h2 : amount > 0 := by omega
    simp [h2, Tx.send, hb]

end LP
