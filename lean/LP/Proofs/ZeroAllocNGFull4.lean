import LP.Proofs.ZeroAllocNGFull3
import LP.Props.C14zeroG
/-
  LP.Proofs.ZeroAllocNGFull4 — what the simulation invariant `zk_Inv` gives on the REAL state:
  the shape lemma (a well-formed state that differs from `s` only in the nine erased / overwritten
  fields), the ticket ledger with the three counts, the launchpad-token coverage, the reserve, the
  whitelist, and the matching steps of `secondary`, `claimPayment` and `claim`.
-/
namespace LP
open LP.FY LP.Events LP.Props.C14 LP.Props.C14reach LP.Props.C14reachG LP.Props.C14zeroG

/-- once the filter has started the real state is related to a well-formed state -/
theorem zk_Inv_started {T0 : Nat} {s : State} {r : Nat} (h : zk_Inv T0 s r)
    (hst : s.flags.started = true) : ∃ z, ng_WF T0 z r ∧ ZSimG s z ∧ z.uts = s.uts := by
  rcases h with h | ⟨_, z, hz, hsim, hu⟩
  · rw [h.ns] at hst; cases hst
  · exact ⟨z, hz, hsim, hu⟩

/-- once the lottery is complete the real state is related to a well-formed state -/
theorem zk_Inv_selected {T0 : Nat} {s : State} {r : Nat} (h : zk_Inv T0 s r)
    (hsel : s.flags.selected = true) : ∃ z, ng_WF T0 z r ∧ ZSimG s z ∧ z.uts = s.uts := by
  rcases h with h | ⟨_, z, hz, hsim, hu⟩
  · have := (zk_PA_flags h).2.1
    rw [hsel] at this; cases this
  · exact ⟨z, hz, hsim, hu⟩

/-- **shape**: in both phases some state that differs from `s` at most in `range`, `batch`,
    `blacklist`, `claimed`, `uts`, `whitelist`, `blUts`, `nrWinning`, `totalGuaranteed` satisfies the
    invariant of the original development -/
theorem zk_Inv_shape {T0 : Nat} {s : State} {r : Nat} (h : zk_Inv T0 s r) :
    ∃ R B K C X W U BU N TG, ng_WF T0 (zv_g (zc_w s R B K C X) W U BU N TG) r := by
  rcases h with h | ⟨_, z, hz, hsim, _⟩
  · obtain ⟨U, BU, N, TG, hwf, _⟩ := h.sh
    exact ⟨_, _, _, _, s.uts, [], U, BU, N, TG, hwf⟩
  · obtain ⟨R, B, K, C, U, rfl⟩ := hsim.shape'
    exact ⟨R, B, K, C, U, s.whitelist, U, s.blUts, s.nrWinning, s.totalGuaranteed, hz⟩

/-- the ledger of a well-formed state on the whole payment-token holdings -/
theorem zk_WF_ledger {T0 : Nat} {z : State} {r : Nat} (hwf : ng_WF T0 z r) :
    ∃ L : List Nat, Covers z L ∧
      (¬ AllDone z → z.bal z.payTok 0 = z.price * sumOver z.confirmed L + feeInPay z) ∧
      (AllDone z → z.bal z.payTok 0 = z.claimablePayment + sumOver (refundDue z) L + feeInPay z ∧
        sumOver (winCountOf z) L = z.nrWinning ∧
        (∀ a, winCountOf z a ≤ z.confirmed a) ∧
        (∀ a rg, z.range a = some rg → a ∈ L ∧ rg.first ≤ rg.last ∧
          rg.last + 1 = rg.first + z.confirmed a)) := by
  obtain ⟨L, h1, h2, h3⟩ := ng_WF_ledger hwf
  have hadd := nf_tix_add hwf.side
  have hadd' : (nf_side z).tix + feeInPay z = z.bal z.payTok 0 := hadd
  refine ⟨L, h1, fun hd => ?_, fun hd => ?_⟩
  · rw [← h2 hd]; omega
  · obtain ⟨k1, k2, k3, k4⟩ := h3 hd
    exact ⟨by rw [← k1]; omega, k2, k3, k4⟩

/-- **the ticket ledger, the three counts and the ranges** on the real state -/
theorem zk_Inv_ledger {T0 : Nat} {s : State} {r : Nat} (h : zk_Inv T0 s r) :
    ∃ L : List Nat, Covers s L ∧
      (¬ AllDone s → s.bal s.payTok 0 = s.price * sumOver s.confirmed L + feeInPay s) ∧
      (AllDone s → s.bal s.payTok 0 = s.claimablePayment + sumOver (refundDue s) L + feeInPay s ∧
        sumOver (winCountOf s) L = s.nrWinning ∧
        (∀ a, winCountOf s a ≤ s.confirmed a) ∧
        (∀ a rg, s.range a = some rg → rangeLen rg = s.confirmed a ∧ (rg.first ≤ rg.last → a ∈ L))) := by
  rcases h with h | ⟨_, z, hz, hsim, _⟩
  · obtain ⟨U, BU, N, TG, hwf, _⟩ := h.sh
    obtain ⟨_, _, hadd, _⟩ := zk_PA_flags h
    obtain ⟨L, h1, h2, _⟩ := zk_WF_ledger hwf
    have hnd : ¬ AllDone s := by intro hd; have := hd.2; rw [hadd] at this; cases this
    exact ⟨L, ⟨h1.nodup, h1.supp⟩, fun _ => h2 hnd, fun hd => absurd hd hnd⟩
  · obtain ⟨L, h1, h2, h3⟩ := zk_WF_ledger hz
    have hdz : AllDone s → AllDone z := fun hd => (allDone_iff hsim).mpr hd
    have hnone : AllDone s → ∀ a, z.range a = none → z.confirmed a = 0 := fun hd =>
      (ng_phase_D hz.phase (hdz hd).2).rngNone
    have hrange := hsim.range
    have hwc : ∀ a, winCountOf s a = winCountOf z a := fun a => winCountOf_eq hsim a
    have hrd : AllDone s → ∀ a, refundDue s a = refundDue z a := fun hd a =>
      refundDue_eq hsim (hnone hd) a
    obtain ⟨R, B, K, C, U, rfl⟩ := hsim.shape'
    refine ⟨L, ⟨h1.nodup, h1.supp⟩, h2, fun hd => ?_⟩
    obtain ⟨k1, k2, k3, k4⟩ := h3 (hdz hd)
    refine ⟨?_, ?_, ?_, ?_⟩
    · rw [sumOver_congr (fun a _ => hrd hd a)]
      exact k1
    · rw [sumOver_congr (fun a _ => hwc a)]; exact k2
    · intro a; rw [hwc a]; exact k3 a
    · intro a rg hr
      by_cases hne : rg.first ≤ rg.last
      · have hzr : (zc_w s R B K C U).range a = some rg := by rw [hrange]; exact z_eraseR_of_ne hr hne
        obtain ⟨j1, _, j3⟩ := k4 a rg hzr
        have j3' : rg.last + 1 = rg.first + s.confirmed a := j3
        exact ⟨by unfold rangeLen; omega, fun _ => j1⟩
      · have hzr : (zc_w s R B K C U).range a = none := by rw [hrange]; exact z_eraseR_of_empty hr hne
        have hc : s.confirmed a = 0 := hnone hd a hzr
        refine ⟨?_, fun hh => absurd hh hne⟩
        rw [hc]; unfold rangeLen; omega

/-- launchpad-token coverage (fee not kept in the launchpad-token slot) -/
theorem zk_Inv_lp {T0 : Nat} {s : State} {r : Nat} (h : zk_Inv T0 s r) (hd : s.deposited = true)
    (hnl : ¬ FeeInLpToken s) : s.perTicket * ng_owed s ≤ s.bal (.esdt s.lpTok) 0 := by
  rcases h with h | ⟨_, z, hz, hsim, _⟩
  · have h0 := (zk_WFA_of_PA h).lp (Or.inl hnl) hd
    have h1 : ng_owed s ≤ v1_owed (zv_z s) := ng_owed_le s
    exact Nat.le_trans (Nat.mul_le_mul_left _ h1) h0
  · obtain ⟨R, B, K, C, U, rfl⟩ := hsim.shape'
    exact hz.lp (Or.inl hnl) hd

/-- reserve conservation -/
theorem zk_Inv_reserve {T0 : Nat} {s : State} {r : Nat} (h : zk_Inv T0 s r) :
    (s.flags.filtered = false → s.nrWinning + s.totalGuaranteed = T0) ∧
    (s.flags.additional = false → ng_owed s ≤ T0) := by
  rcases h with h | ⟨_, z, hz, hsim, _⟩
  · refine ⟨fun _ => h.sum, fun hna => ?_⟩
    have h1 : ng_owed s ≤ v1_owed s := ng_owed_le s
    have h2 : v1_owed s = s.nrWinning + s.totalGuaranteed := by
      unfold v1_owed; rw [hna]; simp
    have := h.sum
    omega
  · have h1 := ng_reserve_before_filter hz
    have h2 := ng_owed_le_T0 hz
    obtain ⟨R, B, K, C, U, rfl⟩ := hsim.shape'
    exact ⟨h1, h2⟩

/-- until the first `secondary` call is accepted the whitelist is exactly the set of holders of a
    positive guarantee (ghosts included) -/
theorem zk_Inv_whitelist {T0 : Nat} {s : State} {r : Nat} (h : zk_Inv T0 s r)
    (hna : s.flags.additional = false) (hop : s.flags.selected = true → s.op = .none) (u : Nat) :
    u ∈ s.whitelist ↔ ∃ st, s.uts u = some st ∧ st.c + st.d > 0 := by
  rcases h with h | ⟨_, z, hz, hsim, hu⟩
  · have hiv2 : s.variant.isV2 = false := (ng_flags (zk_PA_flags h).2.2.2).2.2.1
    have hb := h.gx.base
    rw [hiv2] at hb
    constructor
    · intro hm
      obtain ⟨st, h1, h2⟩ := hb.pos_of_mem u hm
      exact ⟨st, h1, h2⟩
    · rintro ⟨st, h1, h2⟩
      exact hb.mem_of_pos u st h1 h2
  · have hfl : z.flags = s.flags := hsim.fields.2.1
    have hopz : z.op = s.op := hsim.fields.2.2.2.2.2.1
    have hwl : z.whitelist = s.whitelist := hsim.fields.2.2.2.2.2.2.2.1
    have := ng_whitelist_intact hz (by rw [hfl]; exact hna) (by rw [hfl, hopz]; exact hop) u
    rw [hwl, hu] at this
    exact this

/-- an accepted `secondary` call is matched by the same call on a well-formed erased state -/
theorem zk_Inv_secondary {T0 : Nat} {hash : List Nat → List Nat} {s s' : State} {e : Env}
    {o : Out} {r : Nat} (h : zk_Inv T0 s r) (hr : r ≤ e.round) (hok : EnvOK e)
    (hs : step hash s e .secondary = .ok (s', o)) :
    ∃ z z', ng_WF T0 z r ∧ ZSimG s z ∧ z.uts = s.uts ∧ ZSimG s' z' ∧ z'.uts = s'.uts ∧
      step hash z e .secondary = .ok (z', o) := by
  have hsel := (LP.Props.C06.additional_gate hash s e .secondary _ (Or.inr (Or.inr rfl)) hs).2.1
  obtain ⟨z, hz, hsim, hu⟩ := zk_Inv_selected h hsel
  obtain ⟨z', _, h2, h3, h4⟩ := zk_PB_secondary hz hsim hu hr hok hs
  exact ⟨z, z', hz, hsim, hu, h2, h3, h4⟩

/-- an accepted `claimPayment` call is matched by the same call on a well-formed erased state -/
theorem zk_Inv_claimPayment {T0 : Nat} {hash : List Nat → List Nat} {s s' : State} {e : Env}
    {o : Out} {r : Nat} (h : zk_Inv T0 s r) (hr : r ≤ e.round) (hok : EnvOK e)
    (hs : step hash s e .claimPayment = .ok (s', o)) :
    ∃ z z', ng_WF T0 z r ∧ ZSimG s z ∧ z.uts = s.uts ∧ ZSimG s' z' ∧ z'.uts = s'.uts ∧
      step hash z e .claimPayment = .ok (z', o) := by
  have hst := LP.Props.C06.claimPayment_gate hash s e _ hs
  obtain ⟨hsel, _⟩ := v1_stage_claim hst
  obtain ⟨z, hz, hsim, hu⟩ := zk_Inv_selected h hsel
  obtain ⟨z', _, h2, h3, h4⟩ := zk_PB_indep (c := .claimPayment) rfl hz hsim hu hr hok hs
  exact ⟨z, z', hz, hsim, hu, h2, h3, h4⟩

end LP
