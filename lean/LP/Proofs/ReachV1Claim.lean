import LP.Proofs.ReachV1Dist
/-
  LP.Proofs.ReachV1Claim — preservation of `v1_WF` by a participant's settlement (`claim`) and by
  the owner's withdrawal (`claimPayment`) on the COMMON claim path (both variants of the family;
  `lockedGuar` sends through `sendLocked`).  The effect on the post-selection phase is
  `rb_claim_phase` of the plain development; new here is the exact launchpad-token bookkeeping
  needed for the coverage `lp`.
-/
namespace LP
open LP.FY

/-! ### launchpad tokens sent by a settlement -/

theorem v1_lockSplit_le (amount pct : Nat) (h : pct ≤ 10000) : lockSplit amount pct ≤ amount := by
  unfold lockSplit
  apply Nat.div_le_of_le_mul
  rw [Nat.mul_comm 10000 amount]
  exact Nat.mul_le_mul_left amount h

/-- `t'` differs from `t` only in the balance of `tok` (nonce 0), which dropped by exactly `amt` -/
def v1_Paid (tok : Token) (amt : Nat) (t t' : Tx) : Prop :=
  ∃ B : Bal, t'.s = { t.s with bal := B } ∧ amt ≤ t.s.bal tok 0 ∧
    B tok 0 = t.s.bal tok 0 - amt ∧ ∀ k n, k ≠ tok → B k n = t.s.bal k n

theorem v1_Paid.refl (tok : Token) (t : Tx) : v1_Paid tok 0 t t :=
  ⟨t.s.bal, rfl, Nat.zero_le _, rfl, fun _ _ _ => rfl⟩

theorem v1_Paid.send {t t' : Tx} {a : Nat} {tok : Token} {amt : Nat}
    (h : t.send a ⟨tok, 0, amt⟩ = .ok t') : v1_Paid tok amt t t' := by
  obtain ⟨hle, hs, _⟩ := LP.Props.C01.send_bal _ _ _ _ h
  refine ⟨_, hs, hle, by simp [Bal.sub], ?_⟩
  intro k n hk
  simp [Bal.sub, hk]

theorem v1_Paid.trans {tok : Token} {a b : Nat} {t t' t'' : Tx} (h1 : v1_Paid tok a t t')
    (h2 : v1_Paid tok b t' t'') : v1_Paid tok (a + b) t t'' := by
  obtain ⟨B1, e1, l1, p1, o1⟩ := h1
  obtain ⟨B2, e2, l2, p2, o2⟩ := h2
  have hb : t'.s.bal = B1 := by rw [e1]
  rw [hb] at l2 p2 o2
  refine ⟨B2, by rw [e2, e1], by omega, by omega, ?_⟩
  intro k n hk
  rw [o2 k n hk, o1 k n hk]

theorem v1_sendLocked {t t' : Tx} {e : Env} {d a : Nat} (hlk : t.s.lockPct ≤ 10000)
    (h : t.sendLocked e d a = .ok t') : v1_Paid (.esdt t.s.lpTok) a t t' := by
  unfold Tx.sendLocked at h
  dsimp only at h
  have hla : (if e.epoch < t.s.unlockEpoch then lockSplit a t.s.lockPct else 0) ≤ a := by
    split
    · exact v1_lockSplit_le _ _ hlk
    · exact Nat.zero_le _
  generalize (if e.epoch < t.s.unlockEpoch then lockSplit a t.s.lockPct else 0) = la at h hla
  split at h
  · simp only [bind_ok_iff, pure_ok_iff] at h
    obtain ⟨t0, h0, t1, rfl, h2⟩ := h
    have e1 : v1_Paid (.esdt t.s.lpTok) la t t0 := v1_Paid.send h0
    have hl : t0.s.lpTok = t.s.lpTok := by obtain ⟨B, e, _⟩ := e1; rw [e]
    split at h2
    · have e2 := v1_Paid.send h2
      simp only [hl] at e2
      have := e1.trans e2
      rw [show la + (a - la) = a by omega] at this
      exact this
    · cases h2
      rename_i hz
      have : la = a := by omega
      subst this
      exact e1
  · simp only [bind_ok_iff, pure_ok_iff] at h
    obtain ⟨t1, rfl, h2⟩ := h
    rename_i hz
    have hz' : la = 0 := by omega
    subst hz'
    split at h2
    · exact v1_Paid.send h2
    · cases h2
      rename_i hz2
      have : a = 0 := by omega
      subst this
      exact v1_Paid.refl _ _

theorem v1_sendLp {t t' : Tx} {e : Env} {a n : Nat} (hlk : t.s.lockPct ≤ 10000)
    (h : t.sendLaunchpadTokens e a n = .ok t') :
    v1_Paid (.esdt t.s.lpTok) (n * t.s.perTicket) t t' := by
  unfold Tx.sendLaunchpadTokens at h
  split at h
  · rename_i hn
    cases h
    subst hn
    rw [Nat.zero_mul]
    exact v1_Paid.refl _ _
  · dsimp only at h
    split at h
    · exact v1_sendLocked hlk h
    · exact v1_Paid.send h

/-! ### the claim endpoint -/

theorem v1_claim_state {hash : List Nat → List Nat} {s : State} {e : Env} {t : Tx}
    (hv : v1_Fam s.variant) (hne : s.payTok ≠ .esdt s.lpTok) (hlk : s.lockPct ≤ 10000)
    (hx : exec hash (rbTx s e) e .claim = .ok t) :
    s.stage e = .claim ∧ ∃ r B, s.range e.caller = some r ∧
      (clearRange s.status s.posToId r.first (rangeLen r)).2.2 ≤ s.confirmed e.caller ∧
      t.s = { settled s e.caller r with bal := B } ∧ (∀ k n, B k n ≤ s.bal k n) ∧
      B s.payTok 0 = s.bal s.payTok 0 -
        s.price * (s.confirmed e.caller - (clearRange s.status s.posToId r.first (rangeLen r)).2.2) ∧
      (clearRange s.status s.posToId r.first (rangeLen r)).2.2 * s.perTicket
        ≤ s.bal (.esdt s.lpTok) 0 ∧
      B (.esdt s.lpTok) 0 = s.bal (.esdt s.lpTok) 0 -
        (clearRange s.status s.posToId r.first (rangeLen r)).2.2 * s.perTicket := by
  obtain ⟨hv1, hv2, _⟩ := v1_fam_flags hv
  simp only [exec, rbTx_s, hv1, Bool.false_eq_true, if_false, bind_ok_iff, Prod.exists] at hx
  obtain ⟨s1, redeem, refund, hset, t1, href, t2, hlp, hfin⟩ := hx
  obtain ⟨hst, r, hr, hred, hle, hrf, hs1⟩ := rb_settle_inv hset
  subst hred hrf
  refine ⟨hst, r, ?_⟩
  -- the refund
  have h1 : ∃ B1, t1.s = { s1 with bal := B1 } ∧ (∀ k n, B1 k n ≤ s1.bal k n) ∧
      B1 s1.payTok 0 = s1.bal s1.payTok 0 -
        s1.price * (s.confirmed e.caller - (clearRange s.status s.posToId r.first (rangeLen r)).2.2) ∧
      (∀ k n, k ≠ s1.payTok → B1 k n = s1.bal k n) := by
    rcases Nat.eq_zero_or_pos
      (s.confirmed e.caller - (clearRange s.status s.posToId r.first (rangeLen r)).2.2) with h0 | hpos
    · rw [h0] at href
      rw [Tx.refund_zero href, h0]
      exact ⟨s1.bal, rfl, fun _ _ => Nat.le_refl _, by simp, fun _ _ _ => rfl⟩
    · obtain ⟨hs, _, _, _⟩ := Tx.refund_pos href hpos
      simp only [Tx.setS_s] at hs
      refine ⟨_, hs, fun k n => rb_sub_le _ _ _ _ _ _, by simp [Bal.sub], ?_⟩
      intro k n hk; simp [Bal.sub, hk]
  obtain ⟨B1, e1, l1, p1, o1⟩ := h1
  -- the launchpad tokens
  have hlk1 : t1.s.lockPct ≤ 10000 := by rw [e1, hs1]; exact hlk
  obtain ⟨B2, e2, l2, p2, o2⟩ := v1_sendLp hlk1 hlp
  have hvar2 : t2.s.variant = s.variant := by rw [e2, e1, hs1]; rfl
  rw [hvar2, hv2] at hfin
  simp only [Bool.false_eq_true, if_false, pure_ok_iff] at hfin
  subst hfin
  have hb1 : t1.s.bal = B1 := by rw [e1]
  have hlp1 : t1.s.lpTok = s.lpTok := by rw [e1, hs1]; rfl
  have hpt1 : t1.s.perTicket = s.perTicket := by rw [e1, hs1]; rfl
  have hpay1 : s1.payTok = s.payTok := by rw [hs1]; rfl
  have hprice1 : s1.price = s.price := by rw [hs1]; rfl
  have hbal1 : s1.bal = s.bal := by rw [hs1]; rfl
  rw [hb1, hlp1, hpt1] at l2 p2
  rw [hb1, hlp1] at o2
  have hlpne : Token.esdt s.lpTok ≠ s1.payTok := by rw [hpay1]; exact fun hh => hne hh.symm
  have hB1lp : B1 (.esdt s.lpTok) 0 = s.bal (.esdt s.lpTok) 0 := by
    rw [o1 _ _ hlpne, hbal1]
  refine ⟨B2, hr, hle, ?_, ?_, ?_, ?_, ?_⟩
  · rw [e2, e1, hs1]
  · intro k n
    have a2 := l1 k n
    rw [hbal1] at a2
    by_cases hk : k = .esdt s.lpTok
    · by_cases hn : n = 0
      · subst hk hn
        rw [p2]; omega
      · have : B2 k n ≤ B1 k n := by
          have hs2 : t2.s.bal = B2 := by rw [e2]
          -- nonce ≠ 0: untouched by `Bal.sub` at nonce 0; use the frame of the send
          obtain ⟨B2', e2', l2', _⟩ := rb_sendLp hlp
          have : t2.s.bal = B2' := by rw [e2']
          rw [← hs2, this]
          have := l2' k n
          rw [hb1] at this
          exact this
        omega
    · rw [o2 k n hk]; exact a2
  · rw [o2 s.payTok 0 hne]
    rw [hpay1, hprice1, hbal1] at p1
    exact p1
  · rw [hB1lp] at l2; exact l2
  · rw [p2, hB1lp]

theorem v1_claim {T0 : Nat} {hash : List Nat → List Nat} {s s' : State} {e : Env} {o : Out}
    {r : Nat} (h : v1_WF T0 s r) (_hr : r ≤ e.round)
    (hs : step hash s e .claim = .ok (s', o)) : v1_WF T0 s' e.round := by
  obtain ⟨t, hx, rfl⟩ := rb_step_np (by intro m hm; simp [endpointMeta] at hm; rw [← hm]) hs
  obtain ⟨hst, rg, B, hrg, _, hs', hBle, hBpay, hlple, hBlp⟩ :=
    v1_claim_state h.var h.tokNe h.static.2 hx
  obtain ⟨hsel, hadd, hc1, hc2⟩ := v1_stage_claim hst
  have hD : PhD s.core := v1_phase_D h.phase hadd
  have hD' := rb_claim_phase (c := s.core) hD (a := e.caller) (r := rg) hrg
    (bt := upd s.batch rg.first none) (pb := B s.payTok 0) hBpay
  -- the redeemed tickets are among the outstanding winners
  have hred : (clearRange s.status s.posToId rg.first (rangeLen rg)).2.2 ≤ s.nrWinning := by
    obtain ⟨_, _, hsp3⟩ := rb_clearRange_spec s.status s.posToId rg.first (rangeLen rg)
    obtain ⟨L, hnd, hsupp, _, hwin⟩ := hD.led
    have hw : winOf s.range s.status e.caller = countWinning s.status rg.first (rangeLen rg) := by
      simp only [winOf, hrg]
    rw [hsp3, ← hw]
    by_cases hc : s.confirmed e.caller = 0
    · have := rb_winOf_le (status := s.status) hrg (hD.rngOk e.caller rg hrg).2
      have hc' : s.core.confirmed e.caller = 0 := hc
      omega
    · have hin := hsupp e.caller hc
      have := rb_le_sumOver (winOf s.range s.status) L e.caller hin
      have hwin' : sumOver (winOf s.range s.status) L = s.nrWinning := hwin
      omega
  rw [hs']
  refine ⟨h.var, h.pricePos, h.tokNe, h.static, ?_, ?_, ?_, ?_, Or.inr ⟨hadd, hD'⟩⟩
  · intro k h1 h2
    have := hBle k 0
    have h0 := h.balOther k h1 h2
    show B k 0 = 0
    omega
  · intro hlt; exfalso; have : e.round < s.cfg.conf := hlt; omega
  · intro _; exact ⟨hc1, hc2⟩
  · intro hd
    have h0 := h.lp hd
    have e0 : v1_owed s = s.nrWinning := by
      unfold v1_owed; rw [hadd]; simp
    rw [e0] at h0
    show s.perTicket * ((s.nrWinning - (clearRange s.status s.posToId rg.first (rangeLen rg)).2.2) +
        if s.flags.additional = true then 0 else s.totalGuaranteed) ≤ B (.esdt s.lpTok) 0
    rw [hadd, hBlp]
    simp only [if_true, Nat.add_zero]
    exact (LP.Props.C02.cover_after_payout s.perTicket s.nrWinning _ _ hred h0).2

/-! ### the owner's withdrawal -/

theorem v1_claimPayment {T0 : Nat} {hash : List Nat → List Nat} {s s' : State} {e : Env} {o : Out}
    {r : Nat} (h : v1_WF T0 s r) (_hr : r ≤ e.round)
    (hs : step hash s e .claimPayment = .ok (s', o)) : v1_WF T0 s' e.round := by
  obtain ⟨t, hx, rfl⟩ := rb_step_np (by intro m hm; simp [endpointMeta] at hm; rw [← hm]) hs
  obtain ⟨hv1, hv2, _⟩ := v1_fam_flags h.var
  simp only [exec, rbTx_s, hv1, Bool.false_eq_true, if_false, bind_ok_iff] at hx
  obtain ⟨t1, h1, hfin⟩ := hx
  obtain ⟨hst, B, cp, hs1, hBle⟩ := rb_claimPaymentCommon_frame h1
  simp only [rbTx_s] at hst hs1 hBle
  have hvar : t1.s.variant = s.variant := by rw [hs1]
  rw [hvar, hv2] at hfin
  simp only [Bool.false_eq_true, if_false, pure_ok_iff] at hfin
  subst hfin
  obtain ⟨hsel, hadd, hc1, hc2⟩ := v1_stage_claim hst
  have hD : PhD s.core := v1_phase_D h.phase hadd
  obtain ⟨L, hnd, hsupp, hpost, hwin⟩ := hD.led
  have hpost0 : PayEqPost (rbTx s e).s L := (rb_PayPost_iff s L).mpr hpost
  obtain ⟨hpost1, _, _, _⟩ :=
    LP.Props.C01.claimPaymentCommon_keeps_post (rbTx s e) t1 e L h.tokNe h1 hpost0
  obtain ⟨_, hsur, _⟩ := LP.Props.C02.owner_gets_only_surplus (rbTx s e) t1 e h.tokNe h1
  simp only [rbTx_s] at hsur
  rw [hs1] at hpost1 hsur
  rw [hs1]
  refine ⟨h.var, h.pricePos, h.tokNe, h.static, ?_, ?_, ?_, ?_, Or.inr ⟨hadd, ?_⟩⟩
  · intro k h1 h2
    have := hBle k 0
    have h0 := h.balOther k h1 h2
    show B k 0 = 0
    omega
  · intro hlt; exfalso; have : e.round < s.cfg.conf := hlt; omega
  · intro _; exact ⟨hc1, hc2⟩
  · intro _
    show s.perTicket * (s.nrWinning + if s.flags.additional = true then 0 else s.totalGuaranteed)
      ≤ B (.esdt s.lpTok) 0
    have hsur' : B (.esdt s.lpTok) 0 = s.perTicket * s.nrWinning := hsur
    rw [hadd, hsur']
    simp
  · exact ⟨hD.started, hD.filtered, hD.selected, hD.op, hD.rngOk, hD.rngNone, hD.disj,
      L, hnd, hsupp, (rb_PayPost_iff _ L).mp hpost1, hwin⟩

end LP
