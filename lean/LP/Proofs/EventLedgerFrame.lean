import LP.Proofs.CBFrame
/-
  LP.Proofs.EventLedgerFrame — the same pass as LP.Proofs.CBFrame for the pair (`bal`,
  `userClaimed`): every helper other than the ones that send (`refund`, `blacklistMany`,
  `refundNftMany`, the claims and the owner withdrawal) keeps the contract's balances and the
  vesting ledger.  (generated from the `_cb` lemmas of CBFrame.lean; the proofs are the same
  scripts; prefix `el_`)
-/
namespace LP

/-- the balances and the booked vesting claims -/
structure EL_LG where
  bal : Bal
  userClaimed : Nat → Nat

@[reducible] def State.lg (s : State) : EL_LG := ⟨s.bal, s.userClaimed⟩

theorem el_lg_bal {s s' : State} (h : s'.lg = s.lg) : s'.bal = s.bal := congrArg EL_LG.bal h
theorem el_lg_userClaimed {s s' : State} (h : s'.lg = s.lg) : s'.userClaimed = s.userClaimed :=
  congrArg EL_LG.userClaimed h


/-! ### launchpad-common helpers -/

theorem el_tryCreateTickets_lg {s s' : State} {a n : Nat} (h : tryCreateTickets s a n = .ok s') :
    s'.lg = s.lg := by
  unfold tryCreateTickets at h
  simp only [bind_ok_iff, pure_ok_iff, req_ok_iff, exists_const] at h
  obtain ⟨_, _, rfl⟩ := h
  rfl

theorem el_createMany_lg : ∀ (l : List (Nat × Nat)) {s s' : State}, createMany l s = .ok s' →
    s'.lg = s.lg
  | [], s, s', h => by simp only [createMany, Except.ok.injEq] at h; rw [h]
  | (a, n) :: rest, s, s', h => by
    unfold createMany at h
    cases h1 : tryCreateTickets s a n with
    | error e => simp [h1] at h
    | ok s1 =>
      simp only [h1] at h
      rw [el_createMany_lg rest h, el_tryCreateTickets_lg h1]

theorem el_addV1Many_lg : ∀ (l : List (Nat × Nat × Nat × Bool)) {acc acc' : State × Nat × Nat},
    addV1Many l acc = .ok acc' → acc'.1.lg = acc.1.lg
  | [], acc, acc', h => by simp only [addV1Many, Except.ok.injEq] at h; rw [h]
  | (buyer, staking, energy, migrated) :: rest, (s, tw, tg), acc', h => by
    unfold addV1Many at h
    cases h1 : tryCreateTickets s buyer (staking + energy) with
    | error e => simp [h1] at h
    | ok s1 =>
      simp only [h1] at h
      repeat' (split at h)
      all_goals first
        | (cases h; done)
        | (rw [el_addV1Many_lg rest h]; show s1.lg = s.lg
           exact el_tryCreateTickets_lg h1)

theorem el_addTicketsV1_lg {s s' : State} {e : Env} {l : List (Nat × Nat × Nat × Bool)}
    (h : addTicketsV1 s e l = .ok s') : s'.lg = s.lg := by
  unfold addTicketsV1 at h
  simp only [bind_ok_iff, pure_ok_iff, Prod.exists] at h
  obtain ⟨_, _, s1, tw, tg, h1, rfl⟩ := h
  exact el_addV1Many_lg l h1

theorem el_addV2Many_lg (e : Env) : ∀ (l : List (Nat × Nat × List (Nat × Nat)))
    {acc acc' : State × Nat × Nat × Nat × Nat × Nat},
    addV2Many e l acc = .ok acc' → acc'.1.lg = acc.1.lg
  | [], acc, acc', h => by simp only [addV2Many, Except.ok.injEq] at h; rw [h]
  | (buyer, n, infos) :: rest, (s, tw, tg, uc, ta, ga), acc', h => by
    unfold addV2Many at h
    split at h
    · exact el_addV2Many_lg e rest h
    · split at h
      · cases h
      · split at h
        · cases h
        · split at h
          · cases h
          · cases h1 : tryCreateTickets s buyer n with
            | error err => simp [h1] at h
            | ok s1 =>
              simp only [h1] at h
              split at h
              · cases h
              · split at h
                · split at h
                  · cases h
                  · rw [el_addV2Many_lg e rest h]
                    show s1.lg = s.lg
                    exact el_tryCreateTickets_lg h1
                · rw [el_addV2Many_lg e rest h]
                  show s1.lg = s.lg
                  exact el_tryCreateTickets_lg h1

theorem el_addTicketsV2_lg {t t' : Tx} {e : Env} {l : List (Nat × Nat × List (Nat × Nat))}
    (h : addTicketsV2 t e l = .ok t') : t'.s.lg = t.s.lg := by
  unfold addTicketsV2 at h
  simp only [bind_ok_iff, pure_ok_iff, Prod.exists] at h
  obtain ⟨_, _, s1, tw, tg, uc, ta, ga, h1, rfl⟩ := h
  exact el_addV2Many_lg e l h1

theorem el_depositLaunchpadTokens_lg {s s' : State} {e : Env} {tw : Nat}
    (h : depositLaunchpadTokens s e tw = .ok s') : s'.lg = s.lg := by
  unfold depositLaunchpadTokens at h
  simp only [bind_ok_iff, pure_ok_iff, req_ok_iff, exists_const, Prod.exists] at h
  obtain ⟨_, _, _, _, _, _, rfl⟩ := h
  rfl

theorem el_trySetTicketPrice_lg {s s' : State} {tok : Token} {amount : Nat}
    (h : trySetTicketPrice s tok amount = .ok s') : s'.lg = s.lg := by
  unfold trySetTicketPrice at h
  simp only [bind_ok_iff, pure_ok_iff, req_ok_iff, exists_const] at h
  obtain ⟨_, _, _, rfl⟩ := h
  rfl

theorem el_filterTickets_lg {t t' : Tx} {e : Env}
    (h : filterTickets t e = .ok t') : t'.s.lg = t.s.lg := by
  unfold filterTickets at h
  simp only [bind_ok_iff, req_ok_iff, requireStage, exists_const] at h
  obtain ⟨_, _, _, h⟩ := h
  split at h
  · simp only [bind_ok_iff, pure_ok_iff, Prod.exists, Prod.mk.injEq] at h
    obtain ⟨first, removed, _, f, b, st, _, h⟩ := h
    cases st with
    | completed =>
      simp only [bind_ok_iff, pure_ok_iff] at h
      obtain ⟨_, _, rfl⟩ := h; rfl
    | interrupted => simp only [pure_ok_iff] at h; subst h; rfl
    | outOfFuel => cases h
  · simp only [bind_ok_iff, pure_ok_iff, Prod.exists, Prod.mk.injEq] at h
    obtain ⟨first, removed, _, f, b, st, _, h⟩ := h
    cases st with
    | completed =>
      simp only [bind_ok_iff, pure_ok_iff] at h
      obtain ⟨_, _, rfl⟩ := h; rfl
    | interrupted => simp only [pure_ok_iff] at h; subst h; rfl
    | outOfFuel => cases h
  · simp [bind, Except.bind] at h

theorem el_selectWinners_lg {hash : List Nat → List Nat} {t t' : Tx} {e : Env}
    (h : selectWinners hash t e = .ok t') : t'.s.lg = t.s.lg := by
  unfold selectWinners at h
  simp only [bind_ok_iff, req_ok_iff, requireStage, ownerOrUser, exists_const] at h
  obtain ⟨_, _, _, _, _, h⟩ := h
  split at h
  · simp only [bind_ok_iff, pure_ok_iff, Prod.exists, Prod.mk.injEq] at h
    obtain ⟨rng, pos, t0, _, x, b, st, _, h⟩ := h
    cases st with
    | completed => simp only [pure_ok_iff] at h; subst h; rfl
    | interrupted => simp only [pure_ok_iff] at h; subst h; rfl
    | outOfFuel => cases h
  · simp only [bind_ok_iff, pure_ok_iff, Prod.exists, Prod.mk.injEq] at h
    obtain ⟨rng, pos, t0, _, x, b, st, _, h⟩ := h
    cases st with
    | completed => simp only [pure_ok_iff] at h; subst h; rfl
    | interrupted => simp only [pure_ok_iff] at h; subst h; rfl
    | outOfFuel => cases h
  · simp [bind, Except.bind] at h

/-! ### blacklist -/

theorem el_clearV1Many_lg : ∀ (l : List Nat) {acc acc' : State × Nat × Nat},
    clearV1Many l acc = .ok acc' → acc'.1.lg = acc.1.lg
  | [], acc, acc', h => by simp only [clearV1Many, Except.ok.injEq] at h; rw [h]
  | u :: rest, (s, removed, tg), acc', h => by
    unfold clearV1Many at h
    repeat' (first | split at h | simp only at h)
    all_goals first
      | (cases h; done)
      | (rw [el_clearV1Many_lg rest h])

theorem el_clearGuaranteedV1_lg {s s' : State} {l : List Nat}
    (h : clearGuaranteedV1 s l = .ok s') : s'.lg = s.lg := by
  unfold clearGuaranteedV1 at h
  simp only [bind_ok_iff, pure_ok_iff, Prod.exists] at h
  obtain ⟨s1, a, b, h1, rfl⟩ := h
  exact el_clearV1Many_lg l h1

theorem el_clearV2Many_lg : ∀ (l : List Nat) {acc acc' : State × Nat × Nat},
    clearV2Many l acc = .ok acc' → acc'.1.lg = acc.1.lg
  | [], acc, acc', h => by simp only [clearV2Many, Except.ok.injEq] at h; rw [h]
  | u :: rest, (s, nw, tg), acc', h => by
    unfold clearV2Many at h
    repeat' (first | split at h | simp only at h)
    all_goals first
      | (cases h; done)
      | (rw [el_clearV2Many_lg rest h])

theorem el_clearGuaranteedV2_lg {s s' : State} {l : List Nat}
    (h : clearGuaranteedV2 s l = .ok s') : s'.lg = s.lg := by
  unfold clearGuaranteedV2 at h
  simp only [bind_ok_iff, pure_ok_iff, Prod.exists] at h
  obtain ⟨s1, a, b, h1, rfl⟩ := h
  exact el_clearV2Many_lg l h1

theorem el_restoreV1Many_lg : ∀ (l : List Nat) {acc acc' : State × Nat × Nat},
    restoreV1Many l acc = .ok acc' → acc'.1.lg = acc.1.lg
  | [], acc, acc', h => by simp only [restoreV1Many, Except.ok.injEq] at h; rw [h]
  | u :: rest, (s, nw, tg), acc', h => by
    unfold restoreV1Many at h
    repeat' (first | split at h | simp only at h)
    all_goals first
      | (cases h; done)
      | (rw [el_restoreV1Many_lg rest h])

theorem el_restoreGuaranteedV1_lg {s s' : State} {l : List Nat}
    (h : restoreGuaranteedV1 s l = .ok s') : s'.lg = s.lg := by
  unfold restoreGuaranteedV1 at h
  simp only [bind_ok_iff, pure_ok_iff, Prod.exists] at h
  obtain ⟨s1, a, b, h1, rfl⟩ := h
  exact el_restoreV1Many_lg l h1

theorem el_restoreV2Many_lg : ∀ (l : List Nat) {acc acc' : State × Nat × Nat},
    restoreV2Many l acc = .ok acc' → acc'.1.lg = acc.1.lg
  | [], acc, acc', h => by simp only [restoreV2Many, Except.ok.injEq] at h; rw [h]
  | u :: rest, (s, nw, tg), acc', h => by
    unfold restoreV2Many at h
    repeat' (first | split at h | simp only at h)
    all_goals first
      | (cases h; done)
      | (rw [el_restoreV2Many_lg rest h])

theorem el_restoreGuaranteedV2_lg {s s' : State} {l : List Nat}
    (h : restoreGuaranteedV2 s l = .ok s') : s'.lg = s.lg := by
  unfold restoreGuaranteedV2 at h
  simp only [bind_ok_iff, pure_ok_iff, Prod.exists] at h
  obtain ⟨s1, a, b, h1, rfl⟩ := h
  exact el_restoreV2Many_lg l h1


theorem el_setSchedule1_lg {s s' : State} {e : Env} {a b c d f : Nat}
    (h : setSchedule1 s e a b c d f = .ok s') : s'.lg = s.lg := by
  unfold setSchedule1 at h
  simp only [bind_ok_iff, pure_ok_iff, req_ok_iff, exists_const] at h
  obtain ⟨_, _, _, _, rfl⟩ := h
  rfl

theorem el_setSchedule2_lg {t t' : Tx} {e : Env} {ms : List (Nat × Nat)}
    (h : setSchedule2 t e ms = .ok t') : t'.s.lg = t.s.lg := by
  unfold setSchedule2 at h
  simp only [bind_ok_iff, pure_ok_iff, req_ok_iff, requireStage, exists_const] at h
  obtain ⟨_, _, _, rfl⟩ := h
  rfl

/-! ### generic loop rule -/

/-! ### owner withdrawal -/

/-! ### claims -/

/-! ### distribution step and NFT draw -/

theorem el_nftSubstep_lg {hash : List Nat → List Nat} {t t' : Tx} {rng rng' : Rng} {st : LoopStatus}
    (h : nftSubstep hash t rng = .ok (t', rng', st)) : t'.s.lg = t.s.lg := by
  unfold nftSubstep at h
  simp only [bind_ok_iff, Prod.exists] at h
  obtain ⟨x, b, st0, hrun, hrest⟩ := h
  have hx : x.tx.s = t.s :=
    runWhile_keeps_cb (fun y : NSt => y.tx.s = t.s) _
      (fun y y' c hb hy => nftBody_tx_s_cb hash _ t.s y y' c hb hy) _ _ _ _ _ _ hrun rfl
  cases st0 with
  | outOfFuel => cases hrest
  | interrupted =>
    simp only [pure_ok_iff, Prod.mk.injEq] at hrest
    obtain ⟨rfl, _, _⟩ := hrest
    show x.tx.s.lg = _
    rw [hx]
  | completed =>
    simp only [pure_ok_iff, Prod.mk.injEq] at hrest
    obtain ⟨rfl, _, _⟩ := hrest
    show x.tx.s.lg = _
    rw [hx]

theorem el_selectNft_lg {hash : List Nat → List Nat} {t t' : Tx} {e : Env}
    (h : selectNft hash t e = .ok t') : t'.s.lg = t.s.lg := by
  unfold selectNft at h
  simp only [bind_ok_iff, req_ok_iff, requireStage, exists_const] at h
  obtain ⟨_, _, _, h⟩ := h
  split at h
  case h_3 => simp [bind, Except.bind] at h
  case h_4 => simp [bind, Except.bind] at h
  all_goals
    simp only [bind_ok_iff, pure_ok_iff, Prod.exists, Prod.mk.injEq] at h
    obtain ⟨rng, t0, ⟨_, ht0⟩, t1, rng', st, hsub, hfin⟩ := h
    have e0 : t0.s.lg = t.s.lg := by
      first
        | (rw [← ht0]; exact congrArg State.lg (Events.DrawFrame.freshRng t).1)
        | rw [← ht0]
    have e1 := el_nftSubstep_lg hsub
    cases st <;>
      (simp only [pure_ok_iff] at hfin; subst hfin; show t1.s.lg = _; rw [e1, e0])

theorem el_guaranteedSubstep_lg {hash : List Nat → List Nat} {t t' : Tx} {g g' : GuarOp}
    {st : LoopStatus} (h : guaranteedSubstep hash t g = .ok (t', g', st)) :
    t'.s.lg = t.s.lg := by
  unfold guaranteedSubstep at h
  simp only [bind_ok_iff, Prod.exists] at h
  obtain ⟨x, b, st0, _, hrest⟩ := h
  cases st0 with
  | outOfFuel => cases hrest
  | interrupted =>
    simp only [pure_ok_iff, Prod.mk.injEq] at hrest
    obtain ⟨rfl, _, _⟩ := hrest
    rfl
  | completed =>
    simp only [bind_ok_iff, Prod.exists] at hrest
    obtain ⟨y, b2, st1, hrun, hrest⟩ := hrest
    have hy := runWhile_keeps_cb (fun z : LSt => z.tx.s.lg = t.s.lg) _
      (fun z z' c hb hz => by
        have := leftoverBody_tx_s_cb hash _ _ _ z.tx.s z z' c hb rfl
        show z'.tx.s.lg = _
        rw [this]; exact hz) _ _ _ _ _ _ hrun rfl
    cases st1 with
    | outOfFuel => cases hrest
    | interrupted =>
      simp only [pure_ok_iff, Prod.mk.injEq] at hrest
      obtain ⟨rfl, _, _⟩ := hrest
      exact hy
    | completed =>
      simp only [pure_ok_iff, Prod.mk.injEq] at hrest
      obtain ⟨rfl, _, _⟩ := hrest
      exact hy

/-- `r`, if it succeeds, yields a transaction whose `claimed` map is `c0` -/
def el_KeepsLG (c0 : EL_LG) (r : Res Tx) : Prop := ∀ t', r = .ok t' → t'.s.lg = c0

theorem el_KeepsLG_error (c0 : EL_LG) (err : Err) : el_KeepsLG c0 (.error err) := by
  intro t' h; cases h

theorem el_KeepsLG_pure (c0 : EL_LG) (t : Tx) (h : t.s.lg = c0) : el_KeepsLG c0 (pure t) := by
  intro t' h'; cases h'; exact h

theorem el_KeepsLG_ok (c0 : EL_LG) (t : Tx) (h : t.s.lg = c0) : el_KeepsLG c0 (.ok t) := by
  intro t' h'; cases h'; exact h

theorem el_KeepsLG_bind {α : Type} (c0 : EL_LG) (x : Res α) (f : α → Res Tx)
    (h : ∀ a, x = .ok a → el_KeepsLG c0 (f a)) : el_KeepsLG c0 (x >>= f) := by
  intro t' h'
  rw [bind_ok_iff] at h'
  obtain ⟨a, ha, hf⟩ := h'
  exact h a ha t' hf

theorem el_KeepsLG_pure_bind {α : Type} (c0 : EL_LG) (x : α) (f : α → Res Tx)
    (h : el_KeepsLG c0 (f x)) : el_KeepsLG c0 (pure x >>= f) := h

theorem el_KeepsLG_error_bind {α : Type} (c0 : EL_LG) (err : Err) (f : α → Res Tx) :
    el_KeepsLG c0 ((Except.error err : Res α) >>= f) := by
  intro t' h; cases h

theorem el_KeepsLG_bind_guar (c0 : EL_LG) (hash : List Nat → List Nat) (t0 : Tx) (g : GuarOp)
    (f : Tx × GuarOp × LoopStatus → Res Tx)
    (h : ∀ a : Tx × GuarOp × LoopStatus, a.1.s.lg = t0.s.lg → el_KeepsLG c0 (f a)) :
    el_KeepsLG c0 (guaranteedSubstep hash t0 g >>= f) := by
  apply el_KeepsLG_bind
  intro a ha
  exact h a (el_guaranteedSubstep_lg (t' := a.1) (g' := a.2.1) (st := a.2.2) ha)

theorem el_KeepsLG_bind_nft (c0 : EL_LG) (hash : List Nat → List Nat) (t0 : Tx) (r : Rng)
    (f : Tx × Rng × LoopStatus → Res Tx)
    (h : ∀ a : Tx × Rng × LoopStatus, a.1.s.lg = t0.s.lg → el_KeepsLG c0 (f a)) :
    el_KeepsLG c0 (nftSubstep hash t0 r >>= f) := by
  apply el_KeepsLG_bind
  intro a ha
  exact h a (el_nftSubstep_lg (t' := a.1) (rng' := a.2.1) (st := a.2.2) ha)

theorem el_freshRng_lg (t : Tx) (r : Rng) (t' : Tx) (h : t.freshRng = (r, t')) :
    t'.s.lg = t.s.lg := by
  have : t.freshRng.2.s = t.s := (Events.DrawFrame.freshRng t).1
  rw [h] at this
  exact congrArg State.lg this

theorem el_distribute_keeps_lg (hash : List Nat → List Nat) (t : Tx) (e : Env) :
    el_KeepsLG t.s.lg (distribute hash t e) := by
  unfold distribute
  repeat' (first
    | with_reducible apply el_KeepsLG_error
    | with_reducible apply el_KeepsLG_pure_bind
    | with_reducible apply el_KeepsLG_error_bind
    | (with_reducible apply el_KeepsLG_bind_guar; intro a hg)
    | (with_reducible apply el_KeepsLG_bind; intro a ha)
    | split
    | (simp only []))
  all_goals
    with_reducible apply el_KeepsLG_pure
    first
      | exact hg
      | exact hg.trans (el_freshRng_lg t _ _ (by assumption))

theorem el_distribute_lg {hash : List Nat → List Nat} {t t' : Tx} {e : Env}
    (h : distribute hash t e = .ok t') : t'.s.lg = t.s.lg :=
  el_distribute_keeps_lg hash t e t' h

theorem el_secondary_lg {hash : List Nat → List Nat} {t t' : Tx} {e : Env}
    (h : secondary hash t e = .ok t') : t'.s.lg = t.s.lg := by
  unfold secondary at h
  simp only [bind_ok_iff, req_ok_iff, requireStage, exists_const] at h
  obtain ⟨_, _, _, h⟩ := h
  split at h
  case h_3 => simp [bind, Except.bind] at h
  all_goals
    simp only [bind_ok_iff, pure_ok_iff, Prod.exists, Prod.mk.injEq] at h
    obtain ⟨cur, t0, ⟨_, ht0⟩, hh⟩ := h
    have h0 : t0.s.lg = t.s.lg := by
      first
        | (rw [← ht0]; exact el_freshRng_lg t _ _ rfl)
        | rw [← ht0]
    clear ht0
    cases cur with
    | nft r =>
      simp only [bind_ok_iff, pure_ok_iff] at hh
      obtain ⟨_, rfl, hh⟩ := hh
      simp only [bind_ok_iff, Prod.exists] at hh
      obtain ⟨t2, rng', st, hsub, hfin⟩ := hh
      have h2 := el_nftSubstep_lg hsub
      cases st <;>
        (simp only [pure_ok_iff] at hfin; subst hfin; show t2.s.lg = _; rw [h2]; exact h0)
    | guar g =>
      simp only [bind_ok_iff, Prod.exists] at hh
      obtain ⟨t1, g', st, hsub, hfin⟩ := hh
      have hg := el_guaranteedSubstep_lg hsub
      cases st with
      | completed =>
        simp only [bind_ok_iff, pure_ok_iff] at hfin
        obtain ⟨_, rfl, hfin⟩ := hfin
        simp only [bind_ok_iff, Prod.exists] at hfin
        obtain ⟨t2, rng', st2, hsub2, hfin⟩ := hfin
        have h2 := el_nftSubstep_lg hsub2
        have hfr : (t1.setS (creditAdditional t1.s g'.additional)).freshRng.2.s.lg
            = t1.s.lg :=
          el_freshRng_lg (t1.setS (creditAdditional t1.s g'.additional)) _ _ rfl
        cases st2 <;>
          (simp only [pure_ok_iff] at hfin; subst hfin; show t2.s.lg = _
           rw [h2, hfr, hg]; exact h0)
      | interrupted =>
        simp only [bind_ok_iff, pure_ok_iff] at hfin
        obtain ⟨_, rfl, hfin⟩ := hfin
        simp only [pure_ok_iff] at hfin
        subst hfin
        show t1.s.lg = _
        rw [hg]; exact h0
      | outOfFuel =>
        simp only [bind_ok_iff, pure_ok_iff] at hfin
        obtain ⟨_, rfl, hfin⟩ := hfin
        simp only [pure_ok_iff] at hfin
        subst hfin
        show t1.s.lg = _
        rw [hg]; exact h0

theorem el_confirmNft_lg {s s' : State} {e : Env} (h : confirmNft s e = .ok s') :
    s'.lg = s.lg := by
  unfold confirmNft at h
  simp only [bind_ok_iff, pure_ok_iff, req_ok_iff, requireStage, exists_const] at h
  repeat (cases h with | intro _ h)
  subst h
  rfl


/-- `confirmTickets` keeps the balances (the call value is credited by the VM before the body) -/
theorem el_confirmTickets_lg {t t' : Tx} {e : Env} {n : Nat} (h : confirmTickets t e n = .ok t') :
    t'.s.lg = t.s.lg := by
  unfold confirmTickets at h
  simp only [bind_ok_iff, pure_ok_iff, req_ok_iff, exists_const, Prod.exists] at h
  obtain ⟨_, _, _, _, _, _, _, _, _, _, _, _, _, rfl⟩ := h
  rfl


/-! ### the helpers that send keep the vesting ledger -/

@[reducible] def State.uc (s : State) : Nat → Nat := s.userClaimed

theorem el_refundNftMany_uc : ∀ (l : List Nat) {t t' : Tx},
    refundNftMany l t = .ok t' → t'.s.uc = t.s.uc
  | [], t, t', h => by simp only [refundNftMany, Except.ok.injEq] at h; rw [h]
  | u :: rest, t, t', h => by
    unfold refundNftMany at h
    simp only at h
    split at h
    · split at h
      · cases h
      · rename_i t1 h1
        rw [el_refundNftMany_uc rest h]
        rw [send_ok_iff] at h1
        rw [h1.2]; rfl
    · exact el_refundNftMany_uc rest h

/-! ### vesting -/

theorem el_claimPaymentOwn_uc {t t' : Tx} {e : Env}
    (h : claimPaymentOwn t e = .ok t') : t'.s.uc = t.s.uc := by
  unfold claimPaymentOwn at h
  simp only [bind_ok_iff, req_ok_iff, requireStage, exists_const] at h
  obtain ⟨_, h⟩ := h
  split at h
  · simp only [bind_ok_iff, send_ok_iff] at h
    obtain ⟨t1, ⟨_, rfl⟩, h⟩ := h
    split at h
    · simp only [pure_ok_iff] at h; subst h; rfl
    · split at h
      · simp only [pure_ok_iff] at h; subst h; rfl
      · rw [send_ok_iff] at h; rw [h.2]; rfl
  · simp only [bind_ok_iff, pure_ok_iff] at h
    obtain ⟨a, rfl, h⟩ := h
    split at h
    · simp only [pure_ok_iff] at h; subst h; rfl
    · split at h
      · simp only [pure_ok_iff] at h; subst h; rfl
      · rw [send_ok_iff] at h; rw [h.2]; rfl

theorem el_claimPaymentCommon_uc {t t' : Tx} {e : Env}
    (h : claimPaymentCommon t e = .ok t') : t'.s.uc = t.s.uc := by
  unfold claimPaymentCommon at h
  simp only [bind_ok_iff, req_ok_iff, requireStage, exists_const] at h
  obtain ⟨_, h⟩ := h
  split at h
  · simp only [bind_ok_iff, send_ok_iff] at h
    obtain ⟨t1, ⟨_, rfl⟩, x, _, h⟩ := h
    split at h
    · rw [send_ok_iff] at h; rw [h.2]; rfl
    · simp only [pure_ok_iff] at h; subst h; rfl
  · simp only [bind_ok_iff, pure_ok_iff] at h
    obtain ⟨a, rfl, x, _, h⟩ := h
    split at h
    · rw [send_ok_iff] at h; rw [h.2]; rfl
    · simp only [pure_ok_iff] at h; subst h; rfl

theorem el_claimNftPayment_uc {t t' : Tx} {e : Env}
    (h : claimNftPayment t e = .ok t') : t'.s.uc = t.s.uc := by
  unfold claimNftPayment at h
  simp only [bind_ok_iff, req_ok_iff, requireStage, exists_const] at h
  obtain ⟨_, h⟩ := h
  split at h
  · simp only [bind_ok_iff, pure_ok_iff, send_ok_iff] at h
    obtain ⟨t1, ⟨_, rfl⟩, rfl⟩ := h
    rfl
  · simp only [pure_ok_iff] at h; subst h; rfl

/-! ### token delivery -/

end LP
