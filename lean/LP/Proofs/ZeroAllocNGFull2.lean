import LP.Proofs.ZeroAllocNGFull
/-
  LP.Proofs.ZeroAllocNGFull2 — zero-size allocations in `Variant.nftGuar` without any restriction
  on the allocation entries, part 2: the first `filter` call (hand-over from the shadow to the
  erased state `zv_z s`, which keeps the REAL guarantee bookkeeping — ghost guarantees included),
  the phases after it (the erased state satisfies `ng_WF` and takes the same steps; a claim by an
  empty-range address is matched by no step), and the simulation theorem `zk_sim` for every
  `ng_ReachZA` state.
-/
namespace LP
open LP.FY LP.Events LP.Props.C14

/-! ### the first `filter` call -/

/-- `ng_WF` before the first filter call with the reserve invariant cut down to its range-free
    clauses (`v1_GW`: all `filter` needs) -/
structure zk_WFA (T0 : Nat) (s : State) (r : Nat) : Prop where
  var : s.variant = .nftGuar
  pricePos : 0 < s.price
  tokNe : s.payTok ≠ .esdt s.lpTok
  static : 0 < s.minConfirmed
  lp : ng_LpSep s r → s.deposited = true → s.perTicket * v1_owed s ≤ s.bal (.esdt s.lpTok) 0
  side : nf_SideInv (nf_side s)
  add : s.flags.additional = false
  tg : s.totalGuaranteed ≤ T0
  pre : ∃ L0, Pre (T0 - s.totalGuaranteed) (nf_core s) L0 ∧ PhA (nf_core s) L0
  gw : v1_GW (v1_gv s)

/-- copy of `ng_lp_sel` for `zk_WFA` -/
theorem zk_lp_sel {T0 : Nat} {s s' : State} {r : Nat} {e : Env} (h : zk_WFA T0 s r)
    (_hr : r ≤ e.round) (hc1 : s.cfg.conf ≤ e.round)
    (hcfg : s'.cfg = s.cfg) (hcost : s'.nftCost = s.nftCost) (hl : s'.lpTok = s.lpTok)
    (hbal : s'.bal = s.bal) (hdep : s'.deposited = s.deposited) (hpt : s'.perTicket = s.perTicket)
    (howed : v1_owed s' ≤ v1_owed s) :
    ng_LpSep s' e.round → s'.deposited = true →
      s'.perTicket * v1_owed s' ≤ s'.bal (.esdt s'.lpTok) 0 := by
  intro hq hd
  have hnl : ¬ (nf_side s).isLp := by
    rcases hq with hq | hq
    · intro hh
      apply hq
      have hh' : s.nftCost.tok = .esdt s.lpTok ∧ s.nftCost.nonce = 0 := hh
      show s'.nftCost.tok = .esdt s'.lpTok ∧ s'.nftCost.nonce = 0
      rw [hcost, hl]; exact hh'
    · exfalso; rw [hcfg] at hq; omega
  rw [hdep] at hd
  have h0 := h.lp (Or.inl hnl) hd
  rw [hpt, hbal, hl]
  exact Nat.le_trans (Nat.mul_le_mul_left _ howed) h0

/-- copy of `ng_filter` (LP/Proofs/ReachNGSel.lean) for a first call under `zk_WFA` -/
theorem zk_filter_weak {T0 : Nat} {hash : List Nat → List Nat} {s s' : State} {e : Env} {o : Out}
    {r : Nat} (h : zk_WFA T0 s r) (hr : r ≤ e.round)
    (hs : step hash s e .filter = .ok (s', o)) : ng_WF T0 s' e.round ∧ s'.flags.started = true := by
  have hvar := h.var
  obtain ⟨t, hx, rfl⟩ := rb_step_np (by intro m hm; rw [hvar] at hm; simp [endpointMeta] at hm; rw [← hm]) hs
  simp only [exec] at hx
  obtain ⟨hpre, x, f, b, hxs, hcase⟩ := rb_filterTickets_cases hx
  simp only [rbTx_s] at hpre hxs hcase
  obtain ⟨hc1, hc2⟩ := rb_stage_winnerSelection hpre.stage
  have hadd := h.add
  have htg : (v1_gv s).tg ≤ T0 := h.tg
  obtain ⟨L0, hp, ha⟩ := h.pre
  have hadd' : s.flags.additional = false := hadd
  have hnsel0 : s.flags.selected = false := hp.notSelected
  have hw0 : s.nftWinners = [] := h.side.noWin hnsel0
  have hgw : v1_GW (v1_gv s) := h.gw
  have hmid : Mid s.confirmed s.lastTicketId L0 x ∧ (x.first = 1 ∨ s.flags.started = true) := by
    have hop : s.op = .none := ha.op
    simp only [filStOf, hop, Option.some.injEq] at hxs
    subst hxs
    have hl : s.lastTicketId = ticketTotal L0 := ha.last
    rw [hl]
    exact ⟨rb_Mid_start ha.chain hp.outR, Or.inl rfl⟩
  obtain ⟨hmid, hfirst⟩ := hmid
  have hok : AllocOK s.confirmed L0 := hp.ok
  have hloop := fun b' st (hrun : runWhile (filterBody s.confirmed s.lastTicketId)
      (s.lastTicketId + 2) (rbTx s e).c.budget x = .ok (f, b', st)) =>
    rb_runWhile_inv (Mid s.confirmed s.lastTicketId L0) (filterBody s.confirmed s.lastTicketId)
      (fun y y' hb hm => rb_filterBody_Mid hok hb hm) _ _ _ _ _ _ hrun hmid
  obtain ⟨hff, hfs, hfa⟩ := rb_filterFlags s x.first
  have hstarted := filterFlags_started s x.first hfirst
  have hpay : (nf_side s).tix = s.price * sumOver s.confirmed (L0.map Prod.fst) := hp.pay
  rcases hcase with ⟨hrun, hs'⟩ | ⟨hrun, hle, hs'⟩
  · -- interrupted
    have hmf : Mid s.confirmed s.lastTicketId L0 f := (hloop _ _ hrun).1 rfl
    have houtR := hmf.choose_spec.choose_spec.2.2.2.2.2.2.2
    rw [hs']
    have hside : nf_side (filterSaved s x f) = nf_side s := by
      show ({ nf_side s with additional := (filterFlags s x.first).additional, selected := (filterFlags s x.first).selected } : nf_Side) = nf_side s
      rw [hfa, hfs]
      rfl
    refine ⟨ng_WF_build (nf_side s) hside h.side h.var h.pricePos h.tokNe h.static ?_ ?_ ?_
      (fun _ _ => hw0) ?_, hstarted⟩
    · intro hlt; exfalso; have : e.round < s.cfg.conf := hlt; omega
    · intro _; exact ⟨hc1, hc2⟩
    · refine zk_lp_sel h hr hc1 rfl rfl rfl rfl rfl rfl ?_
      have e1 : v1_owed (filterSaved s x f) = v1_owed s := by
        unfold v1_owed
        show (s.nrWinning + if (filterFlags s x.first).additional = true then 0 else s.totalGuaranteed) = _
        rw [hfa]
      rw [e1]; exact Nat.le_refl _
    · left; left
      refine ⟨?_, htg, Or.inl ⟨L0, ⟨?_, ?_, hp.nrw, hp.status0, hp.pos0, hp.ok, hp.outC, houtR, hpay⟩,
        Or.inr ⟨⟨?_, ?_⟩, hgw⟩⟩⟩
      · show (filterFlags s x.first).additional = false
        rw [hfa]; exact hadd'
      · show (filterFlags s x.first).filtered = false
        rw [hff]; exact hpre.notFiltered
      · show (filterFlags s x.first).selected = false
        rw [hfs]; exact hp.notSelected
      · exact hstarted
      · exact ⟨f.first, f.removed, rfl, hmf⟩
  · -- completed
    obtain ⟨y, hmy, hby⟩ := (hloop _ _ hrun).2 rfl
    obtain ⟨hy1, hyf⟩ := rb_filterBody_false hby
    subst hyf
    obtain ⟨hch, hrem, hlast, hzero, hout⟩ := rb_Mid_final hok hmy hy1
    have hcd := confSum_add_droppedSum s.confirmed L0 hok.le
    have hnew : s.lastTicketId - f.removed = ticketTotal (survivors s.confirmed L0) := by
      rw [ticketTotal_survivors, hrem]; omega
    have hnrw : s.nrWinning = T0 - s.totalGuaranteed := hp.nrw
    rw [hs']
    have hside : nf_side (filterDone s x f) = nf_side s := by
      show ({ nf_side s with additional := (filterFlags s x.first).additional, selected := (filterFlags s x.first).selected } : nf_Side) = nf_side s
      rw [hfa, hfs]
      rfl
    refine ⟨ng_WF_build (nf_side s) hside h.side h.var h.pricePos h.tokNe h.static ?_ ?_ ?_
      (fun _ _ => hw0) ?_, hstarted⟩
    · intro hlt; exfalso; have : e.round < s.cfg.conf := hlt; omega
    · intro _; exact ⟨hc1, hc2⟩
    · refine zk_lp_sel h hr hc1 rfl rfl rfl rfl rfl rfl ?_
      unfold v1_owed
      show ((if s.nrWinning > s.lastTicketId - f.removed then s.lastTicketId - f.removed
            else s.nrWinning) +
          if (filterFlags s x.first).additional = true then 0 else s.totalGuaranteed) ≤ _
      rw [hfa]
      split <;> omega
    · left; left
      refine ⟨?_, htg, Or.inr (Or.inl ⟨⟨hstarted, rfl, ?_, ?_, ?_,
        Or.inl ⟨rfl, hp.status0, hp.pos0⟩⟩, hgw⟩)⟩
      · show (filterFlags s x.first).additional = false
        rw [hfa]; exact hadd'
      · show (filterFlags s x.first).selected = false
        rw [hfs]; exact hp.notSelected
      · show (if s.nrWinning > s.lastTicketId - f.removed then s.lastTicketId - f.removed
              else s.nrWinning) = min (T0 - s.totalGuaranteed) (s.lastTicketId - f.removed)
        rw [hnrw]; split <;> omega
      · refine ⟨survivors s.confirmed L0, survivors_nodup _ _ hok.nodup, ?_, hch, hnew, ?_, ?_⟩
        · intro p hp1
          obtain ⟨_, h2, h3⟩ := mem_survivors hp1
          exact ⟨by omega, h2⟩
        · intro a ha
          by_cases hin : a ∈ L0.map Prod.fst
          · obtain ⟨p, hp1, hpa⟩ := List.mem_map.mp hin
            have hc0 : s.confirmed p.1 = 0 := by
              apply Classical.byContradiction
              intro hne
              exact ha (hpa ▸ rb_mem_survivors_of_pos hp1 hne)
            subst hpa
            exact ⟨hzero p hp1 hc0, hc0⟩
          · exact ⟨hout a hin, hp.outC a hin⟩
        · show (nf_side s).tix = s.price * sumOver s.confirmed ((survivors s.confirmed L0).map Prod.fst)
          rw [rb_sumOver_survivors]
          exact hpay

/-- before the first filter call the erased state (REAL guarantee bookkeeping) satisfies the
    cut-down invariant -/
theorem zk_WFA_of_PA {T0 : Nat} {s : State} {r : Nat} (h : zk_PA T0 s r) : zk_WFA T0 (zv_z s) r := by
  obtain ⟨U, BU, N, TG, hwf, _⟩ := h.sh
  obtain ⟨hadd, htg, L0, hp, ha, _⟩ := ng_phase_notStarted hwf.phase h.ns
  have hsum := zk_sh_sum hwf h.ns
  have hs := h.sum
  have hiv2 : s.variant.isV2 = false := (ng_flags hwf.var).2.2.1
  have hadd' : s.flags.additional = false := hadd
  refine ⟨hwf.var, hwf.pricePos, hwf.tokNe, hwf.static, ?_, hwf.side,
    hadd, by show s.totalGuaranteed ≤ T0; omega, ⟨L0, ?_, ⟨ha.notStarted, ha.op, ha.chain, ha.last⟩⟩, ?_⟩
  · intro hq hd
    have h0 := ng_lp_of_notSel hwf hp.notSelected hq hd
    have e1 : v1_owed (zv_sh s U BU N TG) = T0 := by
      show N + (if s.flags.additional = true then 0 else TG) = T0
      rw [hadd']; simpa using hsum
    have e2 : v1_owed (zv_z s) = T0 := by
      show s.nrWinning + (if s.flags.additional = true then 0 else s.totalGuaranteed) = T0
      rw [hadd']; simpa using hs
    rw [e1] at h0
    rw [e2]
    exact h0
  · exact ⟨hp.notFiltered, hp.notSelected, by show s.nrWinning = T0 - s.totalGuaranteed; omega,
      hp.status0, hp.pos0, hp.ok, hp.outC, hp.outR, hp.pay⟩
  · have hb := h.gx.base
    rw [hiv2] at hb
    exact ⟨hb.total, hb.mem_of_pos, hb.pos_of_mem⟩

/-- **the first `filter` call**: the erased state takes the same step and lands in the original
    invariant; from now on the real state is `ZSimG`-related to a well-formed state -/
theorem zk_PA_filter {T0 : Nat} {hash : List Nat → List Nat} {s s' : State} {e : Env}
    {o : Out} {r : Nat} (h : zk_PA T0 s r) (hr : r ≤ e.round)
    (hs : step hash s e .filter = .ok (s', o)) :
    ∃ z', ng_WF T0 z' e.round ∧ ZSimG s' z' ∧ z'.uts = s'.uts ∧ s'.flags.started = true ∧
      step hash (zv_z s) e .filter = .ok (z', o) := by
  have hwfa := zk_WFA_of_PA h
  obtain ⟨L0, hp, ha⟩ := hwfa.pre
  have hcl := (LP.Props.C09.step_claimed_exact hash s e _ s' o hs).1 (by simp)
  have hbl := LP.Props.C10frame.blacklist_frame hash s s' e _ o hs (by simp) (by simp) (by simp)
  obtain ⟨m, t, hm, hpay, hown, hx, rfl, rfl⟩ := step_ok_inv hs
  simp only [exec] at hx
  have hokA : AllocOK (tx0 s e).s.confirmed L0 := hp.ok
  have hmid : ∀ x, filStOf (tx0 s e).s = some x →
      Mid (tx0 s e).s.confirmed (tx0 s e).s.lastTicketId L0 (z_ef x) := by
    intro x hxs
    have hxs' : filStOf s = some x := hxs
    have hop' : s.op = .none := ha.op
    simp only [filStOf, hop', Option.some.injEq] at hxs'
    subst hxs'
    show Mid s.confirmed s.lastTicketId L0 _
    have hl : s.lastTicketId = ticketTotal L0 := ha.last
    rw [hl]
    exact rb_Mid_start (conf := s.confirmed) ha.chain hp.outR
  have k1 := z_filterTickets (zv_K s.range s.blacklist) s.claimed hx hokA hmid
  have hstep := z_step_intro (hash := hash) (s := zv_z s) (c := .filter) (by exact hm) hpay
    (by exact hown) (by simp only [exec]; exact k1)
  obtain ⟨hwf', hst'⟩ := zk_filter_weak hwfa hr hstep
  refine ⟨_, hwf', ⟨rfl, rfl, fun _ => rfl, ?_, ?_, fun _ => Or.inl rfl⟩, rfl, hst', hstep⟩
  · intro a ha'
    have ha2 : zv_K s.range s.blacklist a = true := ha'
    show t.s.blacklist a = true
    rw [hbl]
    unfold zv_K at ha2
    simp only [Bool.and_eq_true] at ha2
    exact ha2.1
  · intro a ha'
    show t.s.claimed a = true
    rw [hcl]; exact ha'

end LP
