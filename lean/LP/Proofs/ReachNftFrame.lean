import LP.Proofs.ReachNftBase
import LP.Proofs.FrameFlags
/-
  LP.Proofs.ReachNftFrame — consequences of the invariant `nf_WF` used by `LP/Props/C14reach.lean`:

  * `nf_WF_ledger`     the two ticket-payment ledger equations on the TICKET part of the holdings,
                        with the three counts after completion
  * `nf_call_frozen`   once the filter has started and until the NFT draw completes, an accepted
                        call keeps the set of NFT participants (`payers ∪ nftWinners`), their
                        number, the fee and the number of NFTs; only `selectNft` moves participants
                        from `payers` to `nftWinners`
-/
namespace LP
open LP.FY LP.Props.C09 LP.Props.C14

theorem nf_dueC_eq (s : State) : dueC (nf_core s) = refundDue s := by
  funext a; rfl

/-- the ticket-payment ledger read off the invariant, on the ticket part of the holdings -/
theorem nf_WF_ledger {T0 : Nat} {s : State} {r : Nat} (h : nf_WF T0 s r) :
    ∃ L : List Nat, Covers s L ∧
      (¬ AllDone s → (nf_side s).tix = s.price * sumOver s.confirmed L) ∧
      (AllDone s → (nf_side s).tix = s.claimablePayment + sumOver (refundDue s) L ∧
        sumOver (winCountOf s) L = s.nrWinning ∧
        (∀ a, winCountOf s a ≤ s.confirmed a) ∧
        (∀ a rg, s.range a = some rg → a ∈ L ∧ rg.first ≤ rg.last ∧
          rg.last + 1 = rg.first + s.confirmed a)) := by
  rcases h.phase with ⟨hna, hns, hph⟩ | ⟨hna, hD, _, L, hnd, hsupp, hpay⟩ | ⟨hadd, hD⟩
  · have hnd : ¬ AllDone s := fun hd => by
      have h1 : s.flags.selected = true := hd.1
      have h2 : s.flags.selected = false := hns
      rw [h2] at h1; cases h1
    rcases hph with ⟨L0, hp, _⟩ | hC | hD
    · refine ⟨L0.map Prod.fst, ⟨hp.ok.nodup, ?_⟩, fun _ => hp.pay, fun hd => absurd hd hnd⟩
      intro a ha
      apply Classical.byContradiction
      intro hin
      exact ha (hp.outC a hin)
    · obtain ⟨Ls, hnd', _, _, _, hout, hpay⟩ := hC.alloc
      refine ⟨Ls.map Prod.fst, ⟨hnd', ?_⟩, fun _ => hpay, fun hd => absurd hd hnd⟩
      intro a ha
      apply Classical.byContradiction
      intro hin
      exact ha (hout a hin).2
    · have h1 : s.flags.selected = true := hD.selected
      have h2 : s.flags.selected = false := hns
      rw [h2] at h1; cases h1
  · refine ⟨L, ⟨hnd, hsupp⟩, fun _ => hpay, fun hd => ?_⟩
    have h1 : s.flags.additional = true := hd.2
    have h2 : s.flags.additional = false := hna
    rw [h2] at h1; cases h1
  · obtain ⟨L, hnd, hsupp, hpost, hwin⟩ := hD.led
    have hadd' : s.flags.additional = true := hadd
    refine ⟨L, ⟨hnd, hsupp⟩, fun hnd' => absurd ⟨hD.selected, hadd'⟩ hnd', fun _ => ⟨?_, hwin, ?_, ?_⟩⟩
    · have : (nf_side s).tix = s.claimablePayment + sumOver (dueC (nf_core s)) L := hpost
      rw [nf_dueC_eq] at this
      exact this
    · intro a
      show winOf s.range s.status a ≤ s.confirmed a
      cases hr : s.range a with
      | none => simp [winOf, hr]
      | some rg => exact rb_winOf_le hr (hD.rngOk a rg hr).2
    · intro a rg hr
      obtain ⟨h1, h2⟩ := hD.rngOk a rg hr
      have h2' : rg.last + 1 = rg.first + s.confirmed a := h2
      exact ⟨hsupp a (by show s.confirmed a ≠ 0; omega), h1, h2'⟩

/-! ### the NFT participants are frozen during the selection stage -/

/-- `s'` has the same NFT participants as `s` (possibly more of them drawn) -/
structure nf_Frozen (s s' : State) : Prop where
  mem : ∀ a, (a ∈ s'.payers ∨ a ∈ s'.nftWinners) ↔ (a ∈ s.payers ∨ a ∈ s.nftWinners)
  len : s'.payers.length + s'.nftWinners.length = s.payers.length + s.nftWinners.length
  pre : s.nftWinners <+: s'.nftWinners
  avail : s'.availNfts = s.availNfts
  cost : s'.nftCost = s.nftCost

theorem nf_Frozen.refl (s : State) : nf_Frozen s s :=
  ⟨fun _ => Iff.rfl, rfl, List.prefix_refl _, rfl, rfl⟩

theorem nf_Frozen.of_eq {s s' : State} (h1 : s'.payers = s.payers) (h2 : s'.nftWinners = s.nftWinners)
    (h3 : s'.availNfts = s.availNfts) (h4 : s'.nftCost = s.nftCost) : nf_Frozen s s' :=
  ⟨fun _ => by rw [h1, h2], by rw [h1, h2], by rw [h2]; exact List.prefix_refl _, h3, h4⟩

theorem nf_Frozen.trans {a b c : State} (h1 : nf_Frozen a b) (h2 : nf_Frozen b c) : nf_Frozen a c :=
  ⟨fun x => (h2.mem x).trans (h1.mem x), h2.len.trans h1.len, h1.pre.trans h2.pre,
    h2.avail.trans h1.avail, h2.cost.trans h1.cost⟩

/-- once the filter has started (so the confirmation period is over) and until the draw completes,
    an accepted call keeps the NFT participants -/
theorem nf_call_frozen {T0 : Nat} {hash : List Nat → List Nat} {s s' : State} {e : Env} {c : Call}
    {o : Out} {r : Nat} (h : nf_WF T0 s r) (hr : r ≤ e.round) (hstd : s.flags.started = true)
    (hadd : s.flags.additional = false) (hs : step hash s e c = .ok (s', o)) :
    nf_Frozen s s' ∧ s'.flags.started = true := by
  obtain ⟨hc1, hc2⟩ := h.tlStarted hstd
  have hex := nf_exposed h.var hs
  have hnotAdd : s.stage e ≠ .addTickets := fun hh => by have := rb_stage_addTickets hh; omega
  have hnotConf : s.stage e ≠ .confirm := fun hh => by have := (rb_stage_confirm hh).2; omega
  have hnotClaim : s.stage e ≠ .claim := fun hh => by
    have := (claim_stage_selected hh).2.1
    rw [hadd] at this; cases this
  cases c with
  | addTickets l =>
    exact absurd (LP.Props.C06.alloc_only_in_addTickets hash s e _ _ (Or.inl ⟨l, rfl⟩) hs) hnotAdd
  | setTicketPrice tok a =>
    exact absurd (LP.Props.C06.terms_only_in_addTickets hash s e _ _ (Or.inl ⟨tok, a, rfl⟩) hs) hnotAdd
  | setPerTicket a =>
    exact absurd (LP.Props.C06.terms_only_in_addTickets hash s e _ _ (Or.inr (Or.inl ⟨a, rfl⟩)) hs) hnotAdd
  | setNftCost a =>
    exact absurd (LP.Props.C06.terms_only_in_addTickets hash s e _ _
      (Or.inr (Or.inr (Or.inl ⟨a, rfl⟩))) hs) hnotAdd
  | confirm n =>
    exact absurd (LP.Props.C06.confirm_only_in_confirm hash s e _ _ (Or.inl ⟨n, rfl⟩) hs) hnotConf
  | confirmNft =>
    exact absurd (LP.Props.C06.confirm_only_in_confirm hash s e _ _ (Or.inr rfl) hs) hnotConf
  | blacklist l =>
    rcases LP.Props.C06.blacklist_only_before_selection hash s e _ _ (Or.inl ⟨l, rfl⟩) hs with hh | hh
    · exact absurd hh hnotAdd
    · exact absurd hh hnotConf
  | setConfStart x =>
    obtain ⟨t, hx, rfl⟩ := rb_step_np (by intro m hm; simp [endpointMeta] at hm; rw [← hm]) hs
    have := (exec_setConfStart_s hx).2.1
    have : e.round < s.cfg.conf := this
    omega
  | setSelStart x =>
    obtain ⟨t, hx, rfl⟩ := rb_step_np (by intro m hm; simp [endpointMeta] at hm; rw [← hm]) hs
    have := (exec_setSelStart_s hx).2.1
    have : e.round < s.cfg.sel := this
    omega
  | setClaimStart x =>
    obtain ⟨t, hx, rfl⟩ := rb_step_np (by intro m hm; simp [endpointMeta] at hm; rw [← hm]) hs
    rw [(exec_setClaimStart_s hx).1]
    exact ⟨nf_Frozen.of_eq rfl rfl rfl rfl, hstd⟩
  | setSupport a =>
    obtain ⟨t, hx, rfl⟩ := rb_step_np (by intro m hm; simp [endpointMeta] at hm; rw [← hm]) hs
    simp only [exec, pure_ok_iff] at hx
    subst hx
    exact ⟨nf_Frozen.of_eq rfl rfl rfl rfl, hstd⟩
  | pause =>
    obtain ⟨t, hx, rfl⟩ := rb_step_np (by intro m hm; simp [endpointMeta] at hm; rw [← hm]) hs
    simp only [exec, pure_ok_iff] at hx
    subst hx
    exact ⟨nf_Frozen.of_eq rfl rfl rfl rfl, hstd⟩
  | unpause =>
    obtain ⟨t, hx, rfl⟩ := rb_step_np (by intro m hm; simp [endpointMeta] at hm; rw [← hm]) hs
    simp only [exec, pure_ok_iff] at hx
    subst hx
    exact ⟨nf_Frozen.of_eq rfl rfl rfl rfl, hstd⟩
  | sftSetup =>
    obtain ⟨t, hx, rfl⟩ := rb_step_np (by
      intro m hm; simp only [endpointMeta] at hm; split at hm
      · simp at hm; rw [← hm]
      · cases hm) hs
    simp only [exec, pure_ok_iff] at hx
    subst hx
    exact ⟨nf_Frozen.of_eq rfl rfl rfl rfl, hstd⟩
  | deposit =>
    obtain ⟨m, t, _, _, _, hx, rfl, _⟩ := step_ok_inv hs
    rw [(exec_deposit_s hx).2]
    exact ⟨nf_Frozen.of_eq rfl rfl rfl rfl, hstd⟩
  | filter =>
    obtain ⟨t, hx, rfl⟩ := rb_step_np (by intro m hm; simp [endpointMeta] at hm; rw [← hm]) hs
    simp only [exec] at hx
    obtain ⟨_, x, f, b, _, hcase⟩ := rb_filterTickets_cases hx
    simp only [rbTx_s] at hcase
    have hfs := filterFlags_started s x.first (Or.inr hstd)
    rcases hcase with ⟨_, hs'⟩ | ⟨_, _, hs'⟩
    · rw [hs']; exact ⟨nf_Frozen.of_eq rfl rfl rfl rfl, hfs⟩
    · rw [hs']; exact ⟨nf_Frozen.of_eq rfl rfl rfl rfl, hfs⟩
  | select =>
    obtain ⟨t, hx, rfl⟩ := rb_step_np (by intro m hm; simp [endpointMeta] at hm; rw [← hm]) hs
    simp only [exec] at hx
    obtain ⟨_, _, _, rng, pos, t0, _, x, b, st, _, hfin⟩ := rb_selectWinners_cases hx
    simp only [rbTx_s] at hfin
    rcases hfin with ⟨_, hs'⟩ | ⟨_, hs'⟩
    · rw [hs']; exact ⟨nf_Frozen.of_eq rfl rfl rfl rfl, hstd⟩
    · rw [hs']; exact ⟨nf_Frozen.of_eq rfl rfl rfl rfl, hstd⟩
  | selectNft =>
    obtain ⟨t, hx, rfl⟩ := rb_step_np (by
      intro m hm; simp only [endpointMeta] at hm; split at hm
      · simp at hm; rw [← hm]
      · cases hm) hs
    have hs0 := h.side
    obtain ⟨_, _, _, P, W, _, _, hlen, hun, hpre, hcase⟩ :=
      nf_selectNft_cases hx ⟨hs0.nodupP, hs0.nodupW, hs0.disj⟩ hs0.winLe
    rcases hcase with ⟨rng, hs', _⟩ | ⟨hs', _, _⟩
    · rw [hs']; exact ⟨⟨hun, hlen, hpre, rfl, rfl⟩, hstd⟩
    · rw [hs']; exact ⟨⟨hun, hlen, hpre, rfl, rfl⟩, hstd⟩
  | claim =>
    obtain ⟨_, hv2, _⟩ := nf_flags h.var
    obtain ⟨rg, hacc, _⟩ := nf_claim_shape hash s e s' o hv2 hs
    exact absurd hacc.2.2.1 hnotClaim
  | claimPayment =>
    obtain ⟨t, hx, rfl⟩ := rb_step_np (by intro m hm; simp [endpointMeta] at hm; rw [← hm]) hs
    exact absurd (nf_claimPayment_shape h.var h.tokNe hx).1 hnotClaim
  | _ => exact absurd hex id

/-- `nf_Later hash s r s2 r2`: `s2` (at round `r2`) is reached from `s` (at round `r`) by accepted
    calls (any calls, any budgets) and by the passing of time -/
inductive nf_Later (hash : List Nat → List Nat) (s : State) (r : Nat) : State → Nat → Prop
  | refl : nf_Later hash s r s r
  | call (s1 : State) (r1 : Nat) (e : Env) (c : Call) (s2 : State) (o : Out) :
      nf_Later hash s r s1 r1 → r1 ≤ e.round → EnvOK e → CallOK c →
      step hash s1 e c = .ok (s2, o) → nf_Later hash s r s2 e.round
  | wait (s1 : State) (r1 r2 : Nat) : nf_Later hash s r s1 r1 → r1 ≤ r2 → nf_Later hash s r s1 r2

/-- from a reachable state in which the filter has started, as long as the draw is not complete:
    whatever calls are accepted in whatever order, the NFT participants stay the same -/
theorem nf_later_frozen {hash : List Nat → List Nat} {a0 : InitArgs} {s : State} {r : Nat}
    (h : ReachA hash .nft a0 s r) (hstd : s.flags.started = true) {s2 : State} {r2 : Nat}
    (hl : nf_Later hash s r s2 r2) :
    ReachA hash .nft a0 s2 r2 ∧
    (s2.flags.additional = false → nf_Frozen s s2 ∧ s2.flags.started = true) := by
  induction hl with
  | refl => exact ⟨h, fun _ => ⟨nf_Frozen.refl s, hstd⟩⟩
  | call s1 r1 e c s2 o _ h1 h2 h3 h4 ih =>
    obtain ⟨i1, i2⟩ := ih
    refine ⟨.call s1 r1 e c s2 o i1 h1 h2 h3 h4, fun hadd2 => ?_⟩
    have hadd1 : s1.flags.additional = false := by
      cases hq : s1.flags.additional with
      | false => rfl
      | true =>
        have := (step_flags_gain h4).2 hq
        rw [hadd2] at this; cases this
    obtain ⟨j1, j2⟩ := i2 hadd1
    obtain ⟨k1, k2⟩ := nf_call_frozen (nf_reach_WF i1) h1 j2 hadd1 h4
    exact ⟨j1.trans k1, k2⟩
  | wait s1 r1 r2 _ h1 ih =>
    obtain ⟨i1, i2⟩ := ih
    exact ⟨.wait s1 r1 r2 i1 h1, i2⟩

end LP
