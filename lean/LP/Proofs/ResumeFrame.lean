import LP.Proofs.Resume
import LP.Proofs.Filter
import LP.Props.C06gates
import LP.Proofs.FrameFlags
/-
  LP.Proofs.ResumeFrame — between the calls of an interrupted operation no other endpoint can
  disturb the cursor: while `op ≠ .none`, a transaction accepted in the winner-selection stage
  either is the matching resumable endpoint or leaves the cursor and every storage item the
  loops read or write unchanged.
-/
namespace LP

/-- the saved cursor and everything the resumable loops work on -/
structure Cursor where
  op : Op
  status : Nat → Bool
  posToId : Nat → Nat
  whitelist : List Nat
  payers : List Nat
  nftWinners : List Nat
  range : Nat → Option Range
  batch : Nat → Option Batch
  confirmed : Nat → Nat
  lastTicketId : Nat
  nrWinning : Nat

def State.cursor (s : State) : Cursor :=
  ⟨s.op, s.status, s.posToId, s.whitelist, s.payers, s.nftWinners, s.range, s.batch, s.confirmed,
   s.lastTicketId, s.nrWinning⟩

/-- the endpoint that continues a saved operation -/
def Call.resumes : Call → Op → Bool
  | .filter, .filter _ _ => true
  | .select, .select _ _ => true
  | .distribute, .additional (.guar _) => true
  | .selectNft, .additional (.nft _) => true
  | .secondary, .additional _ => true
  | _, _ => false

theorem creditPayments_cursor (s : State) (e : Env) : (creditPayments s e).cursor = s.cursor := rfl

/-! ### the resumable endpoints reject a foreign cursor -/

theorem filterTickets_op (t t' : Tx) (e : Env) (h : filterTickets t e = .ok t') :
    t.s.op = .none ∨ ∃ f r, t.s.op = .filter f r := by
  obtain ⟨_, x, hx⟩ := filterTickets_inv t t' e h
  cases hop : t.s.op with
  | none => exact Or.inl rfl
  | filter f r => exact Or.inr ⟨f, r, rfl⟩
  | select _ _ => simp [filStOf, hop] at hx
  | additional _ => simp [filStOf, hop] at hx

theorem selectWinners_op (hash : List Nat → List Nat) (t t' : Tx) (e : Env)
    (h : selectWinners hash t e = .ok t') : t.s.op = .none ∨ ∃ r p, t.s.op = .select r p := by
  obtain ⟨_, y, hy⟩ := selectWinners_inv hash t t' e h
  cases hop : t.s.op with
  | none => exact Or.inl rfl
  | select r p => exact Or.inr ⟨r, p, rfl⟩
  | filter _ _ => simp [selCoreOf, hop] at hy
  | additional _ => simp [selCoreOf, hop] at hy

theorem distribute_op (hash : List Nat → List Nat) (t t' : Tx) (e : Env)
    (h : distribute hash t e = .ok t') : t.s.op = .none ∨ ∃ g, t.s.op = .additional (.guar g) := by
  unfold distribute at h
  cases hv : t.s.variant.isV2 <;> rcases hop : t.s.op with _ | _ | _ | (g | r) <;>
    simp only [hv, hop, pure_bind, bind_ok_iff, req_ok_iff, exists_const, Prod.exists, reduceCtorEq,
      false_and, and_false, if_true, if_false, Bool.false_eq_true] at h
  all_goals first
    | exact Or.inl rfl
    | exact Or.inr ⟨_, rfl⟩

theorem selectNft_op (hash : List Nat → List Nat) (t t' : Tx) (e : Env)
    (h : selectNft hash t e = .ok t') : t.s.op = .none ∨ ∃ r, t.s.op = .additional (.nft r) := by
  unfold selectNft at h
  rcases hop : t.s.op with _ | _ | _ | (g | r) <;>
    simp only [hop, pure_bind, bind_ok_iff, req_ok_iff, exists_const, Prod.exists, reduceCtorEq,
      false_and, and_false] at h
  all_goals first
    | exact Or.inl rfl
    | exact Or.inr ⟨_, rfl⟩

theorem secondary_op (hash : List Nat → List Nat) (t t' : Tx) (e : Env)
    (h : secondary hash t e = .ok t') : t.s.op = .none ∨ ∃ d, t.s.op = .additional d := by
  unfold secondary at h
  rcases hop : t.s.op with _ | _ | _ | (g | r) <;>
    simp only [hop, pure_bind, bind_ok_iff, req_ok_iff, exists_const, Prod.exists, reduceCtorEq,
      false_and, and_false] at h
  all_goals first
    | exact Or.inl rfl
    | exact Or.inr ⟨_, rfl⟩

/-! ### the vesting release of an already settled participant -/

theorem claimVested_claimed_cursor {t t' : Tx} {e : Env} (h : claimVested t e = .ok t')
    (hcl : t.s.claimed e.caller = true) : t'.s.cursor = t.s.cursor := by
  unfold claimVested at h
  dsimp only at h
  cases hv : t.s.variant.isV2 <;>
    simp only [hv, hcl, if_true, if_false, Bool.false_eq_true, pure_bind, bind_ok_iff, req_ok_iff,
      exists_const] at h
  all_goals
    lp_peel h
    split at h
    · simp only [bind_ok_iff, pure_ok_iff] at h
      obtain ⟨t3, h3, rfl⟩ := h
      have e3 := (Tx.send_s h3).1
      simp only [State.cursor, Tx.setS_s, Tx.emit_s, e3]
    · cases h; rfl

/-! ### the frame -/

/-- **cursor frame**: while an operation is saved (`op ≠ .none`), a transaction accepted in the
    winner-selection stage either is the endpoint that resumes exactly that operation, or
    leaves `op`, `status`, `posToId`, `whitelist`, `payers`, `nftWinners`, `range`, `batch`,
    `confirmed`, `lastTicketId`, `nrWinning` unchanged.  (A mismatching resumable endpoint is
    rejected: "Another ongoing operation is in progress" / "Failed to deserialize custom
    ongoing operation".) -/
theorem cursor_frame {hash : List Nat → List Nat} {s s' : State} {e : Env} {c : Call} {o : Out}
    (h : step hash s e c = .ok (s', o)) (hop : s.op ≠ .none)
    (hst : s.stage e = .winnerSelection) :
    c.resumes s.op = true ∨ s'.cursor = s.cursor := by
  have hgate : ∀ st : Stage, s.stage e = st → st ≠ .winnerSelection → False := by
    intro st h1 h2; rw [hst] at h1; exact h2 h1.symm
  obtain ⟨m, t, _, _, _, hx, hs', _⟩ := step_ok_inv h
  have hop0 : (tx0 s e).s.op = s.op := rfl
  cases c with
  | setTicketPrice _ _ | setPerTicket _ | setNftCost _ | deposit | setSchedule1 _ _ _ _ _
  | setSchedule2 _ | setConfStart _ | setSelStart _ | setClaimStart _ =>
    right
    rcases step_static_cases h with ⟨hc, _⟩ | ⟨_, rfl⟩
    · simp [Call.setsStatic] at hc
    · rfl
  | addTickets l =>
    exact (hgate _ (Props.C06.alloc_only_in_addTickets hash s e _ _ (Or.inl ⟨l, rfl⟩) h)
      (by decide)).elim
  | addTicketsV1 l =>
    exact (hgate _ (Props.C06.alloc_only_in_addTickets hash s e _ _ (Or.inr (Or.inl ⟨l, rfl⟩)) h)
      (by decide)).elim
  | addTicketsV2 l =>
    exact (hgate _ (Props.C06.alloc_only_in_addTickets hash s e _ _ (Or.inr (Or.inr ⟨l, rfl⟩)) h)
      (by decide)).elim
  | setSupport a | pause | unpause | sftSetup =>
    right
    simp only [exec, pure_ok_iff] at hx
    subst hx; subst hs'
    rfl
  | confirm n =>
    exact (hgate _ (Props.C06.confirm_only_in_confirm hash s e _ _ (Or.inl ⟨n, rfl⟩) h)
      (by decide)).elim
  | confirmNft =>
    exact (hgate _ (Props.C06.confirm_only_in_confirm hash s e _ _ (Or.inr rfl) h)
      (by decide)).elim
  | blacklist l =>
    rcases Props.C06.blacklist_only_before_selection hash s e _ _ (Or.inl ⟨l, rfl⟩) h with h1 | h1
    · exact (hgate _ h1 (by decide)).elim
    · exact (hgate _ h1 (by decide)).elim
  | refundUsers l =>
    rcases Props.C06.blacklist_only_before_selection hash s e _ _ (Or.inr (Or.inl ⟨l, rfl⟩)) h
      with h1 | h1
    · exact (hgate _ h1 (by decide)).elim
    · exact (hgate _ h1 (by decide)).elim
  | unblacklist l =>
    rcases Props.C06.blacklist_only_before_selection hash s e _ _ (Or.inr (Or.inr ⟨l, rfl⟩)) h
      with h1 | h1
    · exact (hgate _ h1 (by decide)).elim
    · exact (hgate _ h1 (by decide)).elim
  | claimPayment =>
    exact (hgate _ (Props.C06.claimPayment_gate hash s e _ h) (by decide)).elim
  | claim =>
    rcases Props.C06.claim_gate hash s e _ h with h1 | ⟨hv, hcl⟩
    · exact (hgate _ h1 (by decide)).elim
    · right
      simp only [exec] at hx
      have hv' : (tx0 s e).s.variant.vested = true := hv
      rw [if_pos hv'] at hx
      subst hs'
      exact (claimVested_claimed_cursor hx hcl).trans (creditPayments_cursor s e)
  | issueSft | createSfts | setTransferRole _ =>
    simp only [exec, bind_ok_iff, reduceCtorEq, and_false, exists_false] at hx
  | filter =>
    left
    rcases filterTickets_op _ _ _ (by simpa only [exec] using hx) with h1 | ⟨f, r, h1⟩
    · exact absurd (hop0 ▸ h1) hop
    · rw [← hop0, h1]; rfl
  | select =>
    left
    rcases selectWinners_op hash _ _ _ (by simpa only [exec] using hx) with h1 | ⟨r, p, h1⟩
    · exact absurd (hop0 ▸ h1) hop
    · rw [← hop0, h1]; rfl
  | distribute =>
    left
    rcases distribute_op hash _ _ _ (by simpa only [exec] using hx) with h1 | ⟨g, h1⟩
    · exact absurd (hop0 ▸ h1) hop
    · rw [← hop0, h1]; rfl
  | selectNft =>
    left
    rcases selectNft_op hash _ _ _ (by simpa only [exec] using hx) with h1 | ⟨r, h1⟩
    · exact absurd (hop0 ▸ h1) hop
    · rw [← hop0, h1]; rfl
  | secondary =>
    left
    rcases secondary_op hash _ _ _ (by simpa only [exec] using hx) with h1 | ⟨d, h1⟩
    · exact absurd (hop0 ▸ h1) hop
    · rw [← hop0, h1]; rfl

/-! ### the frame along a history -/

/-- a selection endpoint accepted while an operation is saved is the one that resumes it -/
theorem selection_accepted_resumes {hash : List Nat → List Nat} {s s' : State} {e : Env}
    {c : Call} {o : Out} (h : step hash s e c = .ok (s', o)) (hop : s.op ≠ .none)
    (hc : c.isSelection = true) : c.resumes s.op = true := by
  obtain ⟨m, t, _, _, _, hx, _, _⟩ := step_ok_inv h
  have hop0 : (tx0 s e).s.op = s.op := rfl
  cases c with
  | filter =>
    rcases filterTickets_op _ _ _ (by simpa only [exec] using hx) with h1 | ⟨f, r, h1⟩
    · exact absurd (hop0 ▸ h1) hop
    · rw [← hop0, h1]; rfl
  | select =>
    rcases selectWinners_op hash _ _ _ (by simpa only [exec] using hx) with h1 | ⟨r, p, h1⟩
    · exact absurd (hop0 ▸ h1) hop
    · rw [← hop0, h1]; rfl
  | distribute =>
    rcases distribute_op hash _ _ _ (by simpa only [exec] using hx) with h1 | ⟨g, h1⟩
    · exact absurd (hop0 ▸ h1) hop
    · rw [← hop0, h1]; rfl
  | selectNft =>
    rcases selectNft_op hash _ _ _ (by simpa only [exec] using hx) with h1 | ⟨r, h1⟩
    · exact absurd (hop0 ▸ h1) hop
    · rw [← hop0, h1]; rfl
  | secondary =>
    rcases secondary_op hash _ _ _ (by simpa only [exec] using hx) with h1 | ⟨d, h1⟩
    · exact absurd (hop0 ▸ h1) hop
    · rw [← hop0, h1]; rfl
  | _ => simp [Call.isSelection] at hc

/-- a non-resuming accepted transaction leaves the completion flags alone as well -/
theorem flags_frame_saved {hash : List Nat → List Nat} {s s' : State} {e : Env} {c : Call}
    {o : Out} (h : step hash s e c = .ok (s', o)) (hop : s.op ≠ .none)
    (hres : c.resumes s.op = false) : s'.flags = s.flags := by
  cases hsel : c.isSelection with
  | true =>
    have := selection_accepted_resumes h hop hsel
    rw [hres] at this; cases this
  | false =>
    rcases step_static_cases h with ⟨hc, _⟩ | ⟨_, rfl⟩
    · obtain ⟨m, t, _, _, _, hx, rfl, _⟩ := step_ok_inv h
      exact exec_flags_eq hx hc hsel
    · cases c <;> rfl

/-- once the selection round is reached, `cfg.conf` and `cfg.sel` are frozen -/
theorem cfg_sel_frozen {hash : List Nat → List Nat} {s s' : State} {e : Env} {c : Call} {o : Out}
    (h : step hash s e c = .ok (s', o)) (hconf : s.cfg.conf ≤ s.cfg.sel)
    (hsel : s.cfg.sel ≤ e.round) : s'.cfg.conf = s.cfg.conf ∧ s'.cfg.sel = s.cfg.sel := by
  rcases step_static_cases h with ⟨_, h1⟩ | ⟨_, h1⟩
  · rw [static_cfg h1]; exact ⟨rfl, rfl⟩
  · obtain ⟨m, t, _, _, _, hx, _, _⟩ := step_ok_inv h
    have h2 : (tx0 s e).s.cfg = s.cfg := rfl
    cases c with
    | setConfStart r =>
      have := (exec_setConfStart_s hx).2.1
      rw [h2] at this; omega
    | setSelStart r =>
      have := (exec_setSelStart_s hx).2.1
      rw [h2] at this; omega
    | _ => rw [h1]; exact ⟨rfl, rfl⟩

theorem stage_of_incomplete' (s : State) (e : Env) (hconf : s.cfg.conf ≤ s.cfg.sel)
    (hsel : s.cfg.sel ≤ e.round) (hfl : (s.flags.selected && s.flags.additional) = false) :
    s.stage e = .winnerSelection := by
  unfold State.stage stageOf
  rw [if_neg (by omega), if_neg (by omega), hfl]
  rfl

/-- **cursor frame along a history**: while an operation is saved and the step it belongs to is
    not complete, any sequence of transactions (accepted or rejected, any callers, any rounds
    from the selection round on) none of which is the endpoint resuming that operation leaves
    the cursor, everything the loops work on, and the completion flags exactly as they were —
    so the next resuming call finds what the interrupted one saved. -/
theorem cursor_frame_run (hash : List Nat → List Nat) :
    ∀ (txs : List (Env × Call)) (s : State), s.op ≠ .none →
      (s.flags.selected && s.flags.additional) = false → s.cfg.conf ≤ s.cfg.sel →
      (∀ p ∈ txs, s.cfg.sel ≤ p.1.round) → (∀ p ∈ txs, p.2.resumes s.op = false) →
      (run hash s txs).cursor = s.cursor ∧ (run hash s txs).flags = s.flags := by
  intro txs
  induction txs with
  | nil => intro s _ _ _ _ _; exact ⟨rfl, rfl⟩
  | cons p rest ih =>
    obtain ⟨e, c⟩ := p
    intro s hop hfl hconf hround hres
    have hrest_round : ∀ q ∈ rest, s.cfg.sel ≤ q.1.round :=
      fun q hq => hround q (List.mem_cons_of_mem _ hq)
    have hrest_res : ∀ q ∈ rest, q.2.resumes s.op = false :=
      fun q hq => hres q (List.mem_cons_of_mem _ hq)
    simp only [run]
    cases hstep : step hash s e c with
    | error err => exact ih s hop hfl hconf hrest_round hrest_res
    | ok r =>
      obtain ⟨s', o⟩ := r
      have hr0 : s.cfg.sel ≤ e.round := hround (e, c) (List.mem_cons_self ..)
      have hres0 : c.resumes s.op = false := hres (e, c) (List.mem_cons_self ..)
      have hst := stage_of_incomplete' s e hconf hr0 hfl
      have hcur : s'.cursor = s.cursor := by
        rcases cursor_frame hstep hop hst with h1 | h1
        · rw [hres0] at h1; cases h1
        · exact h1
      have hflags : s'.flags = s.flags := flags_frame_saved hstep hop hres0
      obtain ⟨hc1, hc2⟩ := cfg_sel_frozen hstep hconf hr0
      have hop' : s'.op = s.op := congrArg Cursor.op hcur
      obtain ⟨h1, h2⟩ := ih s' (by rw [hop']; exact hop) (by rw [hflags]; exact hfl)
        (by rw [hc1, hc2]; exact hconf) (by rw [hc2]; exact hrest_round)
        (by rw [hop']; exact hrest_res)
      exact ⟨h1.trans hcur, h2.trans hflags⟩

end LP
