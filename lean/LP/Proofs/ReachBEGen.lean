import LP.Props.C10frame
import LP.Props.C17
import LP.Proofs.ReachBase
/-
  LP.Proofs.ReachBEGen — variant-independent part of the end-to-end blacklist development (C10):

  * `be_validPeriods_step` / `be_validPeriods_init`   `conf < sel ≤ claim` holds in every state
    reachable from a deployment (any variant);
  * `be_frozen_step`    an accepted call at a round `≥ cfg.sel` changes neither `cfg.sel` nor the
    blacklist (the three blacklist endpoints are stage-gated, `setSelStart` needs `round < sel`);
  * `be_Later P`        "a later state of some history" (accepted calls satisfying `P`, rounds
    non-decreasing, waiting allowed), `be_frozen_later`, `be_frozen_run`;
  * `be_BlZero_reach`   `BlZero` in every `Reach`-able state.
-/
namespace LP
open LP.Props LP.Events

/-! ### the timeline stays valid -/

theorem be_validPeriods_init {v : Variant} {a : InitArgs} {e : Env} {s : State}
    (h : init v a e = .ok s) : validPeriods s.cfg = true := by
  unfold init at h
  cases v <;>
    simp only [Variant.hasNft, Variant.v1Alloc, Variant.hasLock, bind_ok_iff, req_ok_iff, pure_ok_iff, pure_bind,
      exists_const, if_true, if_false, Bool.false_eq_true, beq_self_eq_true, reduceCtorEq, decide_eq_true_eq,
      bne_iff_ne, ne_eq, not_false_eq_true, beq_iff_eq, bne_self_eq_false] at h
  all_goals
    repeat (cases h with | intro _ h)
    subst h
    assumption

theorem be_validPeriods_step {hash : List Nat → List Nat} {s s' : State} {e : Env} {c : Call} {o : Out}
    (h : step hash s e c = .ok (s', o)) (hv : validPeriods s.cfg = true) :
    validPeriods s'.cfg = true := by
  rcases step_static_cases h with ⟨_, h1⟩ | ⟨_, h1⟩
  · rw [static_cfg h1]; exact hv
  · obtain ⟨m, t, _, _, _, hx, rfl, _⟩ := step_ok_inv h
    cases c with
    | setConfStart r => obtain ⟨_, h2, rfl⟩ := exec_setConfStart_ok hx; exact h2
    | setSelStart r => obtain ⟨_, h2, rfl⟩ := exec_setSelStart_ok hx; exact h2
    | setClaimStart r => obtain ⟨_, h2, rfl⟩ := exec_setClaimStart_ok hx; exact h2
    | _ => rw [h1]; exact hv

/-! ### one accepted call at or after the selection start -/

theorem be_sel_frozen_step {hash : List Nat → List Nat} {s s' : State} {e : Env} {c : Call} {o : Out}
    (h : step hash s e c = .ok (s', o)) (hr : s.cfg.sel ≤ e.round) : s'.cfg.sel = s.cfg.sel := by
  rcases step_static_cases h with ⟨_, h1⟩ | ⟨_, h1⟩
  · rw [static_cfg h1]
  · cases c with
    | setSelStart r =>
      obtain ⟨m, t, _, _, _, hx, rfl, _⟩ := step_ok_inv h
      have := (exec_setSelStart_s hx).2.1
      have h2 : (tx0 s e).s.cfg = s.cfg := rfl
      rw [h2] at this
      omega
    | _ => rw [h1]; rfl

/-- at a round `≥ sel` (with a valid timeline) the stage is WinnerSelection or Claim -/
theorem be_stage_late {s : State} {e : Env} (hv : validPeriods s.cfg = true) (hr : s.cfg.sel ≤ e.round) :
    s.stage e ≠ .addTickets ∧ s.stage e ≠ .confirm := by
  obtain ⟨h1, _⟩ := (validPeriods_iff _).mp hv
  constructor
  · intro h; have := rb_stage_addTickets h; omega
  · intro h; have := (rb_stage_confirm h).2; omega

theorem be_blacklist_frozen_step {hash : List Nat → List Nat} {s s' : State} {e : Env} {c : Call} {o : Out}
    (h : step hash s e c = .ok (s', o)) (hv : validPeriods s.cfg = true) (hr : s.cfg.sel ≤ e.round) :
    s'.blacklist = s.blacklist := by
  have hst := be_stage_late hv hr
  have gate : ((∃ l, c = .blacklist l) ∨ (∃ l, c = .refundUsers l) ∨ (∃ l, c = .unblacklist l)) → False := by
    intro hc
    rcases C06.blacklist_only_before_selection hash s e c _ hc h with h1 | h1
    · exact hst.1 h1
    · exact hst.2 h1
  exact C10frame.blacklist_frame hash s s' e c o h
    (fun l hc => gate (Or.inl ⟨l, hc⟩)) (fun l hc => gate (Or.inr (Or.inl ⟨l, hc⟩)))
    (fun l hc => gate (Or.inr (Or.inr ⟨l, hc⟩)))

/-- what is carried along a history once selection has started -/
structure be_Frozen (s0 s : State) (r : Nat) : Prop where
  valid : validPeriods s.cfg = true
  sel : s.cfg.sel = s0.cfg.sel
  reached : s0.cfg.sel ≤ r
  bl : s.blacklist = s0.blacklist

theorem be_Frozen.step {hash : List Nat → List Nat} {s0 s s' : State} {r : Nat} {e : Env} {c : Call} {o : Out}
    (hf : be_Frozen s0 s r) (hr : r ≤ e.round) (h : step hash s e c = .ok (s', o)) :
    be_Frozen s0 s' e.round := by
  have h1 : s.cfg.sel ≤ e.round := by rw [hf.sel]; exact Nat.le_trans hf.reached hr
  exact ⟨be_validPeriods_step h hf.valid, by rw [be_sel_frozen_step h h1, hf.sel],
    Nat.le_trans hf.reached hr, by rw [be_blacklist_frozen_step h hf.valid h1, hf.bl]⟩

theorem be_Frozen.wait {s0 s : State} {r r' : Nat} (hf : be_Frozen s0 s r) (hr : r ≤ r') :
    be_Frozen s0 s r' := ⟨hf.valid, hf.sel, Nat.le_trans hf.reached hr, hf.bl⟩

/-! ### later states -/

/-- `be_Later P hash s r s' r'`: `s'` (latest transaction at round `≤ r'`) is reached from `s`
    (at round `r`) by accepted calls `(e, c)` satisfying `P e c`, with non-decreasing rounds;
    rounds may pass without a transaction (`wait`) -/
inductive be_Later (P : Env → Call → Prop) (hash : List Nat → List Nat) (s : State) (r : Nat) :
    State → Nat → Prop
  | refl : be_Later P hash s r s r
  | call (s1 : State) (r1 : Nat) (e : Env) (c : Call) (s2 : State) (o : Out) :
      be_Later P hash s r s1 r1 → r1 ≤ e.round → P e c →
      step hash s1 e c = .ok (s2, o) → be_Later P hash s r s2 e.round
  | wait (s1 : State) (r1 r2 : Nat) : be_Later P hash s r s1 r1 → r1 ≤ r2 → be_Later P hash s r s1 r2

theorem be_Later.round_le {P : Env → Call → Prop} {hash : List Nat → List Nat} {s s' : State} {r r' : Nat}
    (h : be_Later P hash s r s' r') : r ≤ r' := by
  induction h with
  | refl => exact Nat.le_refl _
  | call s1 r1 e c s2 o _ h1 _ _ ih => exact Nat.le_trans ih h1
  | wait s1 r1 r2 _ h1 ih => exact Nat.le_trans ih h1

theorem be_Later.weaken {P Q : Env → Call → Prop} (hpq : ∀ e c, P e c → Q e c)
    {hash : List Nat → List Nat} {s s' : State} {r r' : Nat}
    (h : be_Later P hash s r s' r') : be_Later Q hash s r s' r' := by
  induction h with
  | refl => exact .refl
  | call s1 r1 e c s2 o _ h1 h2 h3 ih => exact .call s1 r1 e c s2 o ih h1 (hpq e c h2) h3
  | wait s1 r1 r2 _ h1 ih => exact .wait s1 r1 r2 ih h1

theorem be_frozen_later {P : Env → Call → Prop} {hash : List Nat → List Nat} {s s' : State} {r r' : Nat}
    (hv : validPeriods s.cfg = true) (hsel : s.cfg.sel ≤ r) (h : be_Later P hash s r s' r') :
    be_Frozen s s' r' := by
  induction h with
  | refl => exact ⟨hv, rfl, hsel, rfl⟩
  | call s1 r1 e c s2 o _ h1 _ h3 ih => exact ih.step h1 h3
  | wait s1 r1 r2 _ h1 ih => exact ih.wait h1

/-- the `run` form: a history all of whose transactions happen at rounds `≥ sel` -/
theorem be_frozen_run (hash : List Nat → List Nat) :
    ∀ (h : List (Env × Call)) (s0 s : State) (r : Nat), be_Frozen s0 s r →
      (∀ p ∈ h, s0.cfg.sel ≤ p.1.round) →
      (run hash s h).blacklist = s0.blacklist ∧ (run hash s h).cfg.sel = s0.cfg.sel ∧
      validPeriods (run hash s h).cfg = true
  | [], s0, s, r, hf, _ => ⟨hf.bl, hf.sel, hf.valid⟩
  | (e, c) :: rest, s0, s, r, hf, hall => by
    unfold run
    have hrest : ∀ p ∈ rest, s0.cfg.sel ≤ p.1.round := fun p hp => hall p (List.mem_cons_of_mem _ hp)
    cases hst : step hash s e c with
    | error err => exact be_frozen_run hash rest s0 s r hf hrest
    | ok x =>
      obtain ⟨s', o⟩ := x
      have he : s0.cfg.sel ≤ e.round := hall (e, c) (List.mem_cons_self ..)
      have hf0 : be_Frozen s0 s s0.cfg.sel := ⟨hf.valid, hf.sel, Nat.le_refl _, hf.bl⟩
      exact be_frozen_run hash rest s0 s' e.round (hf0.step he hst) hrest

/-! ### `validPeriods` and `BlZero` in reachable states -/

theorem be_validPeriods_run (hash : List Nat → List Nat) (s : State) (h : List (Env × Call))
    (hv : validPeriods s.cfg = true) : validPeriods (run hash s h).cfg = true :=
  run_induct hash (fun s => validPeriods s.cfg = true)
    (fun _ _ _ _ _ hp hst => be_validPeriods_step hst hp) h s hv

theorem be_validPeriods_reach {hash : List Nat → List Nat} {v : Variant} {s : State} {r : Nat}
    (h : Reach hash v s r) : validPeriods s.cfg = true := by
  induction h with
  | init a e s h => exact be_validPeriods_init h
  | call s r e c s' o _ _ _ _ h4 ih => exact be_validPeriods_step h4 ih
  | wait s r r' _ _ ih => exact ih

theorem be_BlZero_reach {hash : List Nat → List Nat} {v : Variant} {s : State} {r : Nat}
    (h : Reach hash v s r) : BlZero s := by
  induction h with
  | init a e s h => exact C10frame.init_blZero v a e s h
  | call s r e c s' o _ _ _ _ h4 ih => exact C10frame.blacklisted_confirmed_zero_all hash s e c s' o ih h4
  | wait s r r' _ _ ih => exact ih

/-- `Reach` is closed under `be_Later` (with the side conditions of `Reach.call`) -/
theorem be_Reach_later {hash : List Nat → List Nat} {v : Variant} {s s' : State} {r r' : Nat}
    (hs : Reach hash v s r) (h : be_Later (fun e c => EnvOK e ∧ CallOK c) hash s r s' r') :
    Reach hash v s' r' := by
  induction h with
  | refl => exact hs
  | call s1 r1 e c s2 o _ h1 h2 h3 ih => exact .call s1 r1 e c s2 o ih h1 h2.1 h2.2 h3
  | wait s1 r1 r2 _ h1 ih => exact .wait s1 r1 r2 ih h1

/-! ### variants without an un-blacklist endpoint: the flag is permanent -/

theorem be_variant_step {hash : List Nat → List Nat} {s s' : State} {e : Env} {c : Call} {o : Out}
    (h : step hash s e c = .ok (s', o)) : s'.variant = s.variant := by
  rcases step_static_cases h with ⟨_, h1⟩ | ⟨_, h1⟩
  · exact terms_variant (static_terms h1)
  · rw [h1]; cases c <;> rfl

theorem be_blacklist_mono_step {hash : List Nat → List Nat} {s s' : State} {e : Env} {c : Call} {o : Out}
    (h : step hash s e c = .ok (s', o)) (hv : s.variant.hasUnblacklist = false) {a : Nat}
    (hb : s.blacklist a = true) : s'.blacklist a = true := by
  by_cases h1 : ∃ l, c = .blacklist l
  · obtain ⟨l, rfl⟩ := h1
    rw [C10frame.blacklist_after_blacklist hash s s' e l o h]
    by_cases hm : a ∈ l <;> simp [hm, hb]
  by_cases h2 : ∃ l, c = .refundUsers l
  · obtain ⟨l, rfl⟩ := h2
    rw [C10frame.blacklist_after_refundUsers hash s s' e l o h]
    by_cases hm : a ∈ l <;> simp [hm, hb]
  by_cases h3 : ∃ l, c = .unblacklist l
  · obtain ⟨l, rfl⟩ := h3
    have := (C10.unblacklist_effect hash s e l s' o h).1
    rw [hv] at this; cases this
  · rw [C10frame.blacklist_frame hash s s' e c o h (fun l hc => h1 ⟨l, hc⟩) (fun l hc => h2 ⟨l, hc⟩)
      (fun l hc => h3 ⟨l, hc⟩)]
    exact hb

theorem be_blacklist_permanent {P : Env → Call → Prop} {hash : List Nat → List Nat} {s s' : State}
    {r r' : Nat} (hv : s.variant.hasUnblacklist = false) (h : be_Later P hash s r s' r') {a : Nat}
    (hb : s.blacklist a = true) : s'.variant = s.variant ∧ s'.blacklist a = true := by
  induction h with
  | refl => exact ⟨rfl, hb⟩
  | call s1 r1 e c s2 o _ _ _ h3 ih =>
    exact ⟨by rw [be_variant_step h3, ih.1], be_blacklist_mono_step h3 (by rw [ih.1]; exact hv) ih.2⟩
  | wait s1 r1 r2 _ _ ih => exact ih

end LP
