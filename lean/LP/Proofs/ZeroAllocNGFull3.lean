import LP.Proofs.ZeroAllocNGFull2
/-
  LP.Proofs.ZeroAllocNGFull3 — zero-size allocations in `Variant.nftGuar` without any restriction
  on the allocation entries, part 3: after the first `filter` call the real state `s` is
  `ZSimG`-related (with EQUAL guarantee records, i.e. `ZSim`) to a state `z` satisfying the
  invariant `ng_WF` of the original development; `z` takes the same step as `s` (`filter`,
  `select`, `secondary` interrupted anywhere, `claim`, `claimPayment`, …), except that a claim by an
  empty-range address is matched by NO step.  With ghost guarantees `z` is in general not an
  `ng_Reach` state, but `ng_WF` is inductive (`ng_call_WF`).  The simulation invariant `zk_Inv`
  holds in every `ng_ReachZA` state (`zk_sim`).
-/
namespace LP
open LP.FY LP.Events LP.Props.C14

/-! ### after the first `filter` call: the erased state takes real steps -/

theorem zk_var_of_sim {T0 : Nat} {s z : State} {r : Nat} (hz : ng_WF T0 z r) (hsim : ZSimG s z) :
    s.variant = .nftGuar := by
  rw [← hsim.fields.2.2.1]; exact hz.var

/-- the endpoints that do not touch the five fields -/
theorem zk_PB_indep {T0 : Nat} {hash : List Nat → List Nat} {s z s' : State} {r : Nat} {e : Env}
    {c : Call} {o : Out} (hc : zc_indep c = true) (hz : ng_WF T0 z r) (hsim : ZSimG s z)
    (hu : z.uts = s.uts) (hr : r ≤ e.round) (hok : EnvOK e) (hs : step hash s e c = .ok (s', o)) :
    ∃ z', ng_WF T0 z' e.round ∧ ZSimG s' z' ∧ z'.uts = s'.uts ∧ step hash z e c = .ok (z', o) := by
  obtain ⟨f1, _⟩ := ng_flags (zk_var_of_sim hz hsim)
  obtain ⟨g1, g2, g3, g4, g5⟩ := zc_step_indep_frame hc f1 hs
  have g6 : s'.whitelist = s.whitelist :=
    zd_step_indep_whitelist (by rw [zd_indep_eq]; exact hc) f1 hs
  have hstep : step hash z e c = .ok (zc_w s' z.range z.batch z.blacklist z.claimed z.uts, o) := by
    have := zc_step_indep (R := z.range) (B := z.batch) (K := z.blacklist) (C := z.claimed)
      (U := z.uts) hc f1 hs
    rw [← hsim.rest] at this
    exact this
  refine ⟨_, ng_call_WF hz hr hok (zc_indep_CallOK hc) hstep, ⟨rfl, ?_, ?_, ?_, ?_, ?_⟩, ?_, hstep⟩
  · show z.range = z_eraseR s'.range
    rw [g1]; exact hsim.range
  · intro hf
    show z.batch = z_eraseB s'.batch
    rw [g2]; exact hsim.batch (z_filtered_back hs hf)
  · intro a ha; rw [g3]; exact hsim.bl a ha
  · intro a ha; rw [g4]; exact hsim.cl a ha
  · exact zc_UOK_congr hsim.uts g5 (fun a ha => by rw [← g6]; exact ha)
  · show z.uts = s'.uts
    rw [g5]; exact hu

/-- `confirm n` -/
theorem zk_PB_confirm {T0 : Nat} {hash : List Nat → List Nat} {s z s' : State} {r : Nat} {e : Env}
    {n : Nat} {o : Out} (hz : ng_WF T0 z r) (hsim : ZSimG s z) (hu : z.uts = s.uts)
    (hr : r ≤ e.round) (hok : EnvOK e) (hs : step hash s e (.confirm n) = .ok (s', o)) :
    ∃ z', ng_WF T0 z' e.round ∧ ZSimG s' z' ∧ z'.uts = s'.uts ∧
      step hash z e (.confirm n) = .ok (z', o) := by
  have hfb := z_filtered_back hs
  obtain ⟨m, t, hm, hpay, hown, hx, rfl, rfl⟩ := step_ok_inv hs
  obtain ⟨_, _, hvz, hoz, _⟩ := hsim.fields
  obtain ⟨k1, k2, k3, k4, k5, k6, k7, k8, k9⟩ := zc_exec_confirm z.batch z.blacklist z.claimed z.uts hx
    (fun hk => hsim.bl _ hk)
  have htx : tx0 z e = zc_wt (tx0 s e) (z_eraseR (tx0 s e).s.range) z.batch z.blacklist z.claimed
      z.uts := by
    conv => lhs; rw [hsim.eq]
    rfl
  have hmz : endpointMeta z.variant (.confirm n) = some m := by rw [← hm, hvz]
  have hstep := z_step_intro hmz hpay (by rw [hoz]; exact hown) (by rw [htx]; exact k1)
  refine ⟨_, ng_call_WF (c := .confirm n) hz hr hok trivial hstep, ⟨rfl, ?_, ?_, ?_, ?_, ?_⟩, ?_, hstep⟩
  · show z_eraseR (tx0 s e).s.range = z_eraseR t.s.range
    rw [k2]
  · intro hf
    show z.batch = z_eraseB t.s.batch
    rw [k3]; exact hsim.batch (hfb hf)
  · intro a ha
    show t.s.blacklist a = true
    rw [k4]; exact hsim.bl a ha
  · intro a ha
    show t.s.claimed a = true
    rw [k5]; exact hsim.cl a ha
  · exact zc_UOK_congr (s := s) hsim.uts k8 (fun a ha => by rw [k9] at ha; exact ha)
  · show z.uts = t.s.uts
    rw [k8]; exact hu

/-- `filter` (a resumed call, or a first call on a state that has no zero-size entry left) -/
theorem zk_PB_filter {T0 : Nat} {hash : List Nat → List Nat} {s z s' : State} {r : Nat} {e : Env}
    {o : Out} (hz : ng_WF T0 z r) (hsim : ZSimG s z) (hu : z.uts = s.uts)
    (hr : r ≤ e.round) (hok : EnvOK e) (hs : step hash s e .filter = .ok (s', o)) :
    ∃ z', ng_WF T0 z' e.round ∧ ZSimG s' z' ∧ z'.uts = s'.uts ∧
      step hash z e .filter = .ok (z', o) := by
  have hcl := (LP.Props.C09.step_claimed_exact hash s e _ s' o hs).1 (by simp)
  have hbl := LP.Props.C10frame.blacklist_frame hash s s' e _ o hs (by simp) (by simp) (by simp)
  obtain ⟨m, t, hm, hpay, hown, hx, rfl, rfl⟩ := step_ok_inv hs
  obtain ⟨hcfg, hfl, hvz, hoz, hcf, hop, hlast, _⟩ := hsim.fields
  simp only [exec] at hx
  obtain ⟨hpre, _⟩ := filterTickets_inv _ _ _ hx
  obtain ⟨hfu, hfw⟩ := zc_filterTickets_fr hx
  have hnf : s.flags.filtered = false := hpre.notFiltered
  obtain ⟨_, _, L0, hp, hab⟩ := ng_phase_notFiltered hz.phase
    (by show z.flags.filtered = false; rw [hfl]; exact hnf)
  have hzb : z.batch = z_eraseB s.batch := hsim.batch hnf
  have hokA : AllocOK (tx0 s e).s.confirmed L0 := by
    have : AllocOK z.confirmed L0 := hp.ok
    rw [hcf] at this; exact this
  have hmid : ∀ x, filStOf (tx0 s e).s = some x →
      Mid (tx0 s e).s.confirmed (tx0 s e).s.lastTicketId L0 (z_ef x) := by
    intro x hxs
    have hxs' : filStOf s = some x := hxs
    show Mid s.confirmed s.lastTicketId L0 (z_ef x)
    rw [← hcf, ← hlast]
    rcases hab with ⟨ha, _⟩ | ⟨hb, _⟩
    · have hop' : s.op = .none := by rw [← hop]; exact ha.op
      simp only [filStOf, hop', Option.some.injEq] at hxs'
      subst hxs'
      have hl : z.lastTicketId = ticketTotal L0 := ha.last
      rw [hl]
      have := rb_Mid_start (conf := z.confirmed) ha.chain hp.outR
      have e1 : (nf_core z).range = z_eraseR s.range := hsim.range
      have e2 : (nf_core z).batch = z_eraseB s.batch := hzb
      rw [e1, e2] at this
      exact this
    · obtain ⟨f0, rm, hop0, hm0⟩ := hb.mid
      have hop' : s.op = .filter f0 rm := by rw [← hop]; exact hop0
      simp only [filStOf, hop', Option.some.injEq] at hxs'
      subst hxs'
      have e1 : (nf_core z).range = z_eraseR s.range := hsim.range
      have e2 : (nf_core z).batch = z_eraseB s.batch := hzb
      rw [e1, e2] at hm0
      exact hm0
  have k1 := zc_filterTickets z.blacklist z.claimed z.uts hx hokA hmid
  have htx : tx0 z e = zc_wt (tx0 s e) (z_eraseR (tx0 s e).s.range) (z_eraseB (tx0 s e).s.batch)
      z.blacklist z.claimed z.uts := by
    have := hsim.eq
    rw [hzb] at this
    conv => lhs; rw [this]
    rfl
  have hmz : endpointMeta z.variant .filter = some m := by rw [← hm, hvz]
  have hstep := z_step_intro (hash := hash) hmz hpay (by rw [hoz]; exact hown)
    (by rw [htx]; simp only [exec]; exact k1)
  refine ⟨_, ng_call_WF (c := .filter) hz hr hok trivial hstep, ⟨rfl, rfl, fun _ => rfl, ?_, ?_, ?_⟩,
    ?_, hstep⟩
  · intro a ha
    show t.s.blacklist a = true
    rw [hbl]; exact hsim.bl a ha
  · intro a ha
    show t.s.claimed a = true
    rw [hcl]; exact hsim.cl a ha
  · exact zc_UOK_congr (s := s) hsim.uts hfu (fun a ha => by rw [hfw] at ha; exact ha)
  · show z.uts = t.s.uts
    rw [hfu]; exact hu

open LP.Props.C09 in
/-- `claim`: by an address with a non-empty range it is matched by the same claim; by an address
    with an empty range (a zero-size entry, with or without ghost guarantee) it is matched by NO
    step: nothing is paid, the "not confirmed" SFT is handed out -/
theorem zk_PB_claim {T0 : Nat} {hash : List Nat → List Nat} {s z s' : State} {r : Nat} {e : Env}
    {o : Out} (hz : ng_WF T0 z r) (hsim : ZSimG s z) (hu : z.uts = s.uts)
    (hr : r ≤ e.round) (hok : EnvOK e) (hs : step hash s e .claim = .ok (s', o)) :
    ∃ z', ng_WF T0 z' e.round ∧ ZSimG s' z' ∧ z'.uts = s'.uts ∧
      (step hash z e .claim = .ok (z', o) ∨
        (z' = z ∧ ∃ rg, s.range e.caller = some rg ∧ rg.last < rg.first ∧
          s' = zc_w s (upd s.range e.caller none) (upd s.batch rg.first none) s.blacklist
                (upd s.claimed e.caller true) s.uts ∧
          o.xfers = [] ∧ o.sfts = [(e.caller, 3)] ∧ o.locks = [])) := by
  have hwf := hz
  obtain ⟨hcfg, hfl, hvz, hoz, hcf, hop, hlast, hwl, hpy, hnw, _⟩ := hsim.fields
  have hvs : s.variant = .nftGuar := zk_var_of_sim hz hsim
  obtain ⟨f1, f2, _, _, f5, _⟩ := ng_flags hvs
  have hs2 := hs
  rw [step_claim_ok_iff, exec_claim_nonvested hash _ e (by exact f1)] at hs2
  obtain ⟨he1, he2, t, hx, rfl, rfl⟩ := hs2
  obtain ⟨rg, ⟨hst, hncl, hrg, _⟩, _⟩ := (claimBase_ok_iff _ e t).mp hx
  have hst' : s.stage e = .claim := hst
  have hncl' : s.claimed e.caller = false := hncl
  have hrg' : s.range e.caller = some rg := hrg
  obtain ⟨hsel, hadd, _⟩ := v1_stage_claim hst'
  have hD : PhD (nf_core z) := ng_phase_D hwf.phase (by show z.flags.additional = true; rw [hfl]; exact hadd)
  have hfil : s.flags.filtered = true := by rw [← hfl]; exact hD.filtered
  by_cases hne : rg.first ≤ rg.last
  · -- a real participant
    have hR : z.range e.caller = some rg := by rw [hsim.range]; exact z_eraseR_of_ne hrg' hne
    have hC : z.claimed e.caller = (txc s e).s.claimed e.caller := by
      show z.claimed e.caller = s.claimed e.caller
      rw [hncl']
      cases hk : z.claimed e.caller with
      | false => rfl
      | true => rw [hsim.cl _ hk] at hncl'; cases hncl'
    have k1 := zc_claimBase (R := z.range) (B := z.batch) (K := z.blacklist) (C := z.claimed)
      (U := z.uts) (by exact f5) hx (by exact hrg') hR hC
    obtain ⟨e1, e2, e3, e4, e5, e6, _⟩ := zc_claimBase_fr (by exact f5) (by exact f2) hx (by exact hrg')
    have htx : txc z e = zc_wt (txc s e) z.range z.batch z.blacklist z.claimed z.uts := by
      conv => lhs; rw [hsim.rest]
      rfl
    have hstep : step hash z e .claim
        = .ok ((zc_wt t (upd z.range e.caller none) (upd z.batch rg.first none) z.blacklist
            (upd z.claimed e.caller true) z.uts).s, t.o) := by
      rw [step_claim_ok_iff]
      refine ⟨he1, he2, _, ?_, rfl, rfl⟩
      rw [exec_claim_nonvested hash _ e (by show z.variant.vested = false; rw [hvz]; exact f1), htx]
      exact k1
    refine ⟨_, ng_call_WF (c := .claim) hz hr hok trivial hstep, ⟨rfl, ?_, ?_, ?_, ?_, ?_⟩, ?_,
      Or.inl hstep⟩
    · show upd z.range e.caller none = z_eraseR t.s.range
      rw [e1]
      show _ = z_eraseR (upd s.range e.caller none)
      rw [z_eraseR_upd_none, hsim.range]
    · intro hf
      rw [e4] at hf
      have hf' : s.flags.filtered = false := hf
      rw [hfil] at hf'; cases hf'
    · intro a ha
      show t.s.blacklist a = true
      rw [e3]; exact hsim.bl a ha
    · intro a ha
      have ha' : upd z.claimed e.caller true a = true := ha
      show t.s.claimed a = true
      rw [e2]
      show upd s.claimed e.caller true a = true
      by_cases hxa : a = e.caller
      · subst hxa; simp
      · rw [upd_other _ _ _ _ hxa] at ha' ⊢; exact hsim.cl a ha'
    · exact zc_UOK_congr (s := s) hsim.uts e5 (fun a ha => by rw [e6] at ha; exact ha)
    · show z.uts = t.s.uts
      rw [e5]; exact hu
  · -- an address with an empty range: the erased state does not move
    have hzn : z.range e.caller = none := by rw [hsim.range]; exact z_eraseR_of_empty hrg' hne
    have hc0z : z.confirmed e.caller = 0 := hD.rngNone e.caller hzn
    have hc0 : s.confirmed e.caller = 0 := by rw [← hcf]; exact hc0z
    have hnw' : e.caller ∉ s.nftWinners := by
      intro hm
      have := hwf.side.conf e.caller (Or.inr (by show e.caller ∈ z.nftWinners; rw [hnw]; exact hm))
      have h2 : 0 < z.confirmed e.caller := this
      omega
    have hnp' : e.caller ∉ s.payers := by
      intro hm
      have := hwf.side.conf e.caller (Or.inl (by show e.caller ∈ z.payers; rw [hpy]; exact hm))
      have h2 : 0 < z.confirmed e.caller := this
      omega
    obtain ⟨hst2, ho1, ho2, ho3⟩ := zc_claim_stutter hvs hs hrg' (by omega) hc0 hnw' hnp'
    refine ⟨z, ng_wait_WF hz hr, ⟨?_, ?_, ?_, ?_, ?_, ?_⟩, ?_,
      Or.inr ⟨rfl, rg, hrg', by omega, hst2, ho1, ho2, ho3⟩⟩
    · rw [hst2, zc_w_w]; exact hsim.rest
    · rw [hst2]
      show z.range = z_eraseR (upd s.range e.caller none)
      rw [z_eraseR_upd_none, ← hsim.range, z_upd_none_self _ _ hzn]
    · intro hf
      rw [hst2] at hf
      have hf' : s.flags.filtered = false := hf
      rw [hfil] at hf'; cases hf'
    · intro a ha
      rw [hst2]
      exact hsim.bl a ha
    · intro a ha
      rw [hst2]
      show upd s.claimed e.caller true a = true
      by_cases hxa : a = e.caller
      · subst hxa; simp
      · rw [upd_other _ _ _ _ hxa]; exact hsim.cl a ha
    · rw [hst2]
      exact zc_UOK_congr (s := s) hsim.uts rfl (fun a ha => ha)
    · rw [hst2]; exact hu

/-- `secondary` (interrupted in any of its three loops, or completed): the same call on the
    erased state; a ghost guarantee is popped from the whitelist, qualifies, marks nothing (empty
    range = no range) and its ticket becomes a leftover ticket -/
theorem zk_PB_secondary {T0 : Nat} {hash : List Nat → List Nat} {s z s' : State} {r : Nat} {e : Env}
    {o : Out} (hz : ng_WF T0 z r) (hsim : ZSimG s z) (hu : z.uts = s.uts)
    (hr : r ≤ e.round) (hok : EnvOK e) (hs : step hash s e .secondary = .ok (s', o)) :
    ∃ z', ng_WF T0 z' e.round ∧ ZSimG s' z' ∧ z'.uts = s'.uts ∧
      step hash z e .secondary = .ok (z', o) := by
  have htk := z_step_tk hs (by simp) (by simp) (by simp) (by simp) (by simp)
  have hfb := z_filtered_back hs
  have hcl := (LP.Props.C09.step_claimed_exact hash s e _ s' o hs).1 (by simp)
  have hbl := LP.Props.C10frame.blacklist_frame hash s s' e _ o hs (by simp) (by simp) (by simp)
  obtain ⟨m, t, hm, hpay, hown, hx, rfl, rfl⟩ := step_ok_inv hs
  obtain ⟨_, _, hvz, hoz, _⟩ := hsim.fields
  simp only [exec] at hx
  obtain ⟨hfu, hfw⟩ := zc_secondary_fr hx
  have hUw : ∀ u ∈ (tx0 s e).s.whitelist, z.uts u = (tx0 s e).s.uts u := by
    intro u _
    rw [hu]; rfl
  have k1 := zc_secondary hash (tx0 s e) e z.batch z.blacklist z.claimed z.uts hUw
  rw [hx] at k1
  have htx : tx0 z e = zc_wt (tx0 s e) (z_eraseR (tx0 s e).s.range) z.batch z.blacklist z.claimed
      z.uts := by
    conv => lhs; rw [hsim.eq]
    rfl
  have hmz : endpointMeta z.variant .secondary = some m := by rw [← hm, hvz]
  have hstep := z_step_intro (hash := hash) hmz hpay (by rw [hoz]; exact hown)
    (by rw [htx]; simp only [exec]; exact k1)
  refine ⟨_, ng_call_WF (c := .secondary) hz hr hok trivial hstep, ⟨rfl, ?_, ?_, ?_, ?_, ?_⟩, ?_, hstep⟩
  · show z_eraseR (tx0 s e).s.range = z_eraseR t.s.range
    rw [tk_range htk]; rfl
  · intro hf
    show z.batch = z_eraseB t.s.batch
    rw [tk_batch htk]; exact hsim.batch (hfb hf)
  · intro a ha
    show t.s.blacklist a = true
    rw [hbl]; exact hsim.bl a ha
  · intro a ha
    show t.s.claimed a = true
    rw [hcl]; exact hsim.cl a ha
  · exact zc_UOK_congr (s := s) hsim.uts hfu hfw
  · show z.uts = t.s.uts
    rw [hfu]; exact hu

/-! ### the simulation invariant -/

/-- before the first `filter` call: the shadow invariant `zk_PA`; afterwards: `ZSimG`-related, with
    equal guarantee records, to a state satisfying the invariant `ng_WF` of the original
    development -/
def zk_Inv (T0 : Nat) (s : State) (r : Nat) : Prop :=
  zk_PA T0 s r ∨ (s.flags.started = true ∧ ∃ z, ng_WF T0 z r ∧ ZSimG s z ∧ z.uts = s.uts)

theorem zk_PA_flags {T0 : Nat} {s : State} {r : Nat} (h : zk_PA T0 s r) :
    s.flags.filtered = false ∧ s.flags.selected = false ∧ s.flags.additional = false ∧
    s.variant = .nftGuar := by
  obtain ⟨U, BU, N, TG, hwf, _⟩ := h.sh
  obtain ⟨hadd, _, L0, hp, _, _⟩ := ng_phase_notStarted hwf.phase h.ns
  exact ⟨hp.notFiltered, hp.notSelected, hadd, hwf.var⟩

/-- one accepted call before the first `filter` call -/
theorem zk_PA_step {T0 : Nat} {hash : List Nat → List Nat} {s s' : State} {e : Env} {c : Call}
    {o : Out} {r : Nat} (h : zk_PA T0 s r) (hr : r ≤ e.round) (hok : EnvOK e)
    (hs : step hash s e c = .ok (s', o)) : zk_Inv T0 s' e.round := by
  obtain ⟨hnf, hnsel, hnadd, hvar⟩ := zk_PA_flags h
  have hex := ng_exposed hvar hs
  have hclaim : s.stage e ≠ .claim := by
    intro hst
    have := (v1_stage_claim hst).1
    rw [hnsel] at this; cases this
  cases c with
  | addTicketsV1 l => exact Or.inl (zk_PA_add h hr hok hs)
  | confirm n => exact Or.inl (zk_PA_confirm h hr hok hs)
  | blacklist l => exact Or.inl (zk_PA_blacklist h hr hok hs)
  | filter =>
    obtain ⟨z', h1, h2, h3, h4, _⟩ := zk_PA_filter h hr hs
    exact Or.inr ⟨h4, z', h1, h2, h3⟩
  | select =>
    have := (LP.Props.C06.select_gate hash s e _ hs).2.1
    rw [hnf] at this; cases this
  | secondary =>
    have := (LP.Props.C06.additional_gate hash s e .secondary _ (Or.inr (Or.inr rfl)) hs).2.1
    rw [hnsel] at this; cases this
  | claim =>
    rcases LP.Props.C06.claim_gate hash s e _ hs with h1 | ⟨h1, _⟩
    · exact absurd h1 hclaim
    · rw [(ng_flags hvar).1] at h1; cases h1
  | claimPayment => exact absurd (LP.Props.C06.claimPayment_gate hash s e _ hs) hclaim
  | deposit | setTicketPrice _ _ | setPerTicket _ | setConfStart _ | setSelStart _ | setClaimStart _
  | setSupport _ | pause | unpause | confirmNft | setNftCost _ | sftSetup =>
    exact Or.inl (zk_PA_indep rfl h hr hok hs)
  | _ => exact absurd hex id

/-- one accepted call after the first `filter` call -/
theorem zk_PB_step {T0 : Nat} {hash : List Nat → List Nat} {s z s' : State} {e : Env} {c : Call}
    {o : Out} {r : Nat} (hst : s.flags.started = true) (hz : ng_WF T0 z r) (hsim : ZSimG s z)
    (hu : z.uts = s.uts) (hr : r ≤ e.round) (hok : EnvOK e)
    (hs : step hash s e c = .ok (s', o)) : zk_Inv T0 s' e.round := by
  have hvar := zk_var_of_sim hz hsim
  have hex := ng_exposed hvar hs
  have hst' : s'.flags.started = true := (step_flags_gain4 hs).1 hst
  obtain ⟨hcfg, hfl, _⟩ := hsim.fields
  have htl := hz.tlStarted (by rw [hfl]; exact hst)
  rw [hcfg] at htl
  have hearly : ¬ (s.stage e = .addTickets ∨ s.stage e = .confirm) := by
    rintro (h1 | h1)
    · have := rb_stage_addTickets h1; omega
    · have := (rb_stage_confirm h1).2; omega
  cases c with
  | addTicketsV1 l =>
    exact absurd (Or.inl (LP.Props.C06.alloc_only_in_addTickets hash s e _ _
      (Or.inr (Or.inl ⟨l, rfl⟩)) hs)) hearly
  | blacklist l =>
    exact absurd (LP.Props.C06.blacklist_only_before_selection hash s e _ _ (Or.inl ⟨l, rfl⟩) hs) hearly
  | confirm n =>
    obtain ⟨z', h1, h2, h3, _⟩ := zk_PB_confirm hz hsim hu hr hok hs; exact Or.inr ⟨hst', z', h1, h2, h3⟩
  | filter =>
    obtain ⟨z', h1, h2, h3, _⟩ := zk_PB_filter hz hsim hu hr hok hs; exact Or.inr ⟨hst', z', h1, h2, h3⟩
  | secondary =>
    obtain ⟨z', h1, h2, h3, _⟩ := zk_PB_secondary hz hsim hu hr hok hs; exact Or.inr ⟨hst', z', h1, h2, h3⟩
  | claim =>
    obtain ⟨z', h1, h2, h3, _⟩ := zk_PB_claim hz hsim hu hr hok hs; exact Or.inr ⟨hst', z', h1, h2, h3⟩
  | deposit | setTicketPrice _ _ | setPerTicket _ | setConfStart _ | setSelStart _ | setClaimStart _
  | setSupport _ | pause | unpause | select | claimPayment | confirmNft | setNftCost _ | sftSetup =>
    obtain ⟨z', h1, h2, h3, _⟩ := zk_PB_indep rfl hz hsim hu hr hok hs; exact Or.inr ⟨hst', z', h1, h2, h3⟩
  | _ => exact absurd hex id

theorem zk_Inv_step {T0 : Nat} {hash : List Nat → List Nat} {s s' : State} {e : Env} {c : Call}
    {o : Out} {r : Nat} (h : zk_Inv T0 s r) (hr : r ≤ e.round) (hok : EnvOK e)
    (hs : step hash s e c = .ok (s', o)) : zk_Inv T0 s' e.round := by
  rcases h with h | ⟨hst, z, hz, hsim, hu⟩
  · exact zk_PA_step h hr hok hs
  · exact zk_PB_step hst hz hsim hu hr hok hs

theorem zk_Inv_wait {T0 : Nat} {s : State} {r r' : Nat} (h : zk_Inv T0 s r) (hr : r ≤ r') :
    zk_Inv T0 s r' := by
  rcases h with h | ⟨hst, z, hz, hsim, hu⟩
  · obtain ⟨U, BU, N, TG, hwf, hU⟩ := h.sh
    exact Or.inl ⟨⟨U, BU, N, TG, ng_wait_WF hwf hr, hU⟩, h.gx, h.sum, h.hd, h.ns⟩
  · exact Or.inr ⟨hst, z, ng_wait_WF hz hr, hsim, hu⟩

theorem zk_Inv_init {a : InitArgs} {e : Env} {s : State}
    (h : init .nftGuar a e = .ok s) : zk_Inv a.nrWinning s e.round := by
  have hwf := ng_init_WF h
  obtain ⟨_, _, _, _, _, rfl⟩ := ng_init_inv h
  have hsh : zv_sh (ng_initState a e) (ng_initState a e).uts (ng_initState a e).blUts
      (ng_initState a e).nrWinning (ng_initState a e).totalGuaranteed = ng_initState a e := rfl
  refine Or.inl ⟨⟨_, _, _, _, by rw [hsh]; exact hwf, ?_⟩,
    GuarInvX_initial (ng_initState a e) rfl rfl rfl rfl rfl, rfl, ?_, rfl⟩
  · intro u hu
    cases hu
  · intro i b _ hb
    cases hb

/-- **SIMULATION INVARIANT**: it holds in every state of `nftGuar` reachable WITHOUT any
    restriction on the allocation entries -/
theorem zk_sim {hash : List Nat → List Nat} {a0 : InitArgs} {s : State} {r : Nat}
    (h : ng_ReachZA hash a0 s r) : zk_Inv a0.nrWinning s r := by
  induction h with
  | init e s h => exact zk_Inv_init h
  | call s r e c s' o _ h1 h2 h3 ih => exact zk_Inv_step ih h1 h2 h3
  | wait s r r' _ h1 ih => exact zk_Inv_wait ih h1

end LP

#print axioms LP.zk_sim
