import LP.Proofs.ZeroAllocNft2
import LP.Proofs.CBFrame
/-
  LP.Proofs.ZeroAllocNft3 — zero-size allocations for `Variant.nft`, part 3: the simulation
  theorem `zn_sim`: every state of `ReachZA hash .nft a0` (the reachable states WITHOUT the
  restriction `CallOK`, LP/Proofs/ZeroAlloc3.lean) is `ZnSim`-related to a state of
  `ReachA hash .nft a0`, the reachable states of the original development.

  `ZnSim s z` = `ZSim s z` (erase the empty ranges and, until the filter has completed, the
  zero-size batches; `blacklist`/`claimed` of `z` below those of `s`; every other field — in
  particular the two NFT lists, the fee, the balances — equal) plus: an address that has claimed in
  `s` but not in `z` (an empty-range address) has nothing confirmed.
-/
namespace LP
open LP.FY

/-- the simulation relation of the launchpad with NFT draw -/
structure ZnSim (s z : State) : Prop where
  sim : ZSim s z
  clc : ∀ a, s.claimed a = true → z.claimed a = true ∨ s.confirmed a = 0

/-- nobody has claimed before the NFT draw is complete -/
def zn_Fresh (s : State) : Prop := s.flags.additional = false → ∀ a, s.claimed a = false

theorem zn_fresh_step {hash : List Nat → List Nat} {s s' : State} {e : Env} {c : Call} {o : Out}
    (hv : s.variant.vested = false)
    (hs : step hash s e c = .ok (s', o)) (hf : zn_Fresh s) : zn_Fresh s' := by
  intro hadd a
  have hadd0 : s.flags.additional = false := by
    cases hq : s.flags.additional with
    | false => rfl
    | true => have := (step_flags_gain hs).2 hq; rw [hadd] at this; cases this
  by_cases hc : c = .claim
  · subst hc
    exfalso
    obtain ⟨_, _, t, hx, _, _⟩ := (LP.Props.C09.step_claim_ok_iff hash s e s' o).mp hs
    have hst : s.stage e = .claim := by
      rw [exec_claim_nonvested hash _ e (by exact hv)] at hx
      obtain ⟨r, hpre, _⟩ := (claimBase_ok_iff _ e t).mp hx
      exact hpre.1
    have := (LP.Props.C09.claim_stage_selected hst).2.1
    rw [hadd0] at this; cases this
  · rw [(LP.Props.C09.step_claimed_exact hash s e c s' o hs).1 hc]
    exact hf hadd0 a

/-- the second component of `ZnSim` along a call other than `claim` -/
theorem zn_clc_keep {hash : List Nat → List Nat} {s s' z z' : State} {e : Env} {c : Call} {o : Out}
    (hs : step hash s e c = .ok (s', o)) (hc : c ≠ .claim)
    (hconf : ∀ n, c = .confirm n → s.claimed e.caller = false)
    (hz : z'.claimed = z.claimed)
    (h : ∀ a, s.claimed a = true → z.claimed a = true ∨ s.confirmed a = 0) :
    ∀ a, s'.claimed a = true → z'.claimed a = true ∨ s'.confirmed a = 0 := by
  intro a ha
  rw [(LP.Props.C09.step_claimed_exact hash s e c s' o hs).1 hc] at ha
  rw [hz]
  rcases h a ha with h1 | h1
  · exact Or.inl h1
  · right
    have hcb := step_cb hs
    have hcf : s'.confirmed = (cbAfter s e c).confirmed := congrArg CB.confirmed hcb
    rw [hcf]
    cases c with
    | confirm n =>
      have hne : a ≠ e.caller := by
        intro hh; subst hh
        rw [hconf n rfl] at ha; cases ha
      show upd s.confirmed e.caller _ a = 0
      rw [upd_other _ _ _ _ hne]; exact h1
    | blacklist l =>
      show (if a ∈ l then 0 else s.confirmed a) = 0
      split
      · rfl
      · exact h1
    | refundUsers l =>
      show (if a ∈ l then 0 else s.confirmed a) = 0
      split
      · rfl
      · exact h1
    | claim => exact absurd rfl hc
    | _ => exact h1

/-! ### extraction of the plain phases -/

theorem zn_phase_notFiltered {T0 : Nat} {c : Core} (h : nf_Phase T0 c) (hf : c.flags.filtered = false) :
    Phase T0 c := by
  rcases h with ⟨_, _, h3⟩ | ⟨_, hD, _⟩ | ⟨_, hD⟩
  · exact h3
  · have : c.flags.filtered = true := hD.filtered
    rw [hf] at this; cases this
  · rw [hD.filtered] at hf; cases hf

theorem zn_indep_CallOK {c : Call} (h : zn_indep c = true) : CallOK c := by
  cases c <;> first | trivial | (simp [zn_indep] at h)

/-! ### the simulation, endpoint by endpoint -/

/-- the endpoints that do not touch the four fields -/
theorem zn_sim_indep {hash : List Nat → List Nat} {a0 : InitArgs} {s z : State} {r : Nat}
    {e : Env} {c : Call} {s' : State} {o : Out} (hc : zn_indep c = true)
    (hz : ReachA hash .nft a0 z r) (hsim : ZSim s z) (hd : s.flags.started = false → z_Hd s)
    (hr : r ≤ e.round) (hok : EnvOK e) (hs : step hash s e c = .ok (s', o)) :
    ∃ z', ReachA hash .nft a0 z' e.round ∧ ZSim s' z' ∧ (s'.flags.started = false → z_Hd s') ∧
      z'.claimed = z.claimed ∧ step hash z e c = .ok (z', o) := by
  have hwf := nf_reach_WF hz
  have hvar : s.variant = z.variant := (congrArg State.variant hsim.rest).symm
  obtain ⟨f1, _⟩ := nf_flags (hvar.trans hwf.var)
  obtain ⟨g1, g2, g3, g4⟩ := zn_step_indep_frame hc f1 hs
  have hstep : step hash z e c = .ok (z_w s' z.range z.batch z.blacklist z.claimed, o) := by
    have := zn_step_indep (R := z.range) (B := z.batch) (K := z.blacklist) (C := z.claimed) hc f1 hs
    rw [← hsim.rest] at this
    exact this
  refine ⟨_, .call z r e c _ o hz hr hok (zn_indep_CallOK hc) hstep, ⟨rfl, ?_, ?_, ?_, ?_⟩, ?_, rfl, hstep⟩
  · show z.range = z_eraseR s'.range
    rw [g1]; exact hsim.range
  · intro hf
    show z.batch = z_eraseB s'.batch
    rw [g2]; exact hsim.batch (z_filtered_back hs hf)
  · intro a ha; rw [g3]; exact hsim.bl a ha
  · intro a ha; rw [g4]; exact hsim.cl a ha
  · refine z_Hd_keep hs (z_step_tk hs ?_ ?_ ?_ ?_ ?_) hd <;>
      (first | (intro h; subst h; simp [zn_indep] at hc) | (intro l h; subst h; simp [zn_indep] at hc))

/-- `addTickets l`, matched by `addTickets (l without the zero-size entries)` -/
theorem zn_sim_add {hash : List Nat → List Nat} {a0 : InitArgs} {s z : State} {r : Nat}
    {e : Env} {l : List (Nat × Nat)} {s' : State} {o : Out}
    (hz : ReachA hash .nft a0 z r) (hsim : ZSim s z) (hd : s.flags.started = false → z_Hd s)
    (hr : r ≤ e.round) (hok : EnvOK e) (hs : step hash s e (.addTickets l) = .ok (s', o)) :
    ∃ z', ReachA hash .nft a0 z' e.round ∧ ZSim s' z' ∧ (s'.flags.started = false → z_Hd s') ∧
      z'.claimed = z.claimed ∧
      step hash z e (.addTickets (l.filter (fun p => decide (1 ≤ p.2)))) = .ok (z', o) := by
  have hwf := nf_reach_WF hz
  obtain ⟨m, t, hm, hpay, hown, hx, rfl, rfl⟩ := step_ok_inv hs
  have hx0 := hx
  simp only [exec, bind_ok_iff, requireStage, req_ok_iff, exists_const] at hx0
  have hst : s.stage e = .addTickets := by simpa [tx0] using hx0.1
  have hlt : e.round < s.cfg.conf := rb_stage_addTickets hst
  have hcfg : z.cfg = s.cfg := by have := congrArg State.cfg hsim.rest; exact this
  have hfl : z.flags = s.flags := by have := congrArg State.flags hsim.rest; exact this
  have hvz : z.variant = s.variant := by have := congrArg State.variant hsim.rest; exact this
  have hoz : z.owner = s.owner := by have := congrArg State.owner hsim.rest; exact this
  have hns : z.flags.started = false := nf_notStarted_of_lt hwf hr (Or.inl (by rw [hcfg]; exact hlt))
  obtain ⟨_, _, L0, hp, _⟩ := nf_phase_notStarted hwf.phase hns
  have hnf : s.flags.filtered = false := by rw [← hfl]; exact hp.notFiltered
  have hds : z_Hd (tx0 s e).s := hd (by rw [← hfl]; exact hns)
  obtain ⟨k1, k2, k3, k4, k5, k6⟩ := z_exec_addTickets z.blacklist z.claimed hx hds
  have hzeq : z = z_w s (z_eraseR s.range) (z_eraseB s.batch) z.blacklist z.claimed := by
    have := hsim.eq
    rw [hsim.batch hnf] at this
    exact this
  have htx : tx0 z e = z_wt (tx0 s e) (z_eraseR (tx0 s e).s.range) (z_eraseB (tx0 s e).s.batch)
      z.blacklist z.claimed := by
    conv => lhs; rw [hzeq]
    rfl
  have hmz : endpointMeta z.variant (.addTickets (l.filter (fun p => decide (1 ≤ p.2)))) = some m := by
    rw [← hm, hvz]; rfl
  have hstep := z_step_intro hmz hpay (by rw [hoz]; exact hown) (by rw [htx]; exact k1)
  refine ⟨_, .call z r e _ _ _ hz hr hok ?_ hstep, ⟨rfl, rfl, fun _ => rfl, ?_, ?_⟩, ?_, rfl, ?_⟩
  · intro p hp
    exact of_decide_eq_true (List.mem_filter.mp hp).2
  · intro a ha
    show t.s.blacklist a = true
    rw [k3]; exact hsim.bl a ha
  · intro a ha
    show t.s.claimed a = true
    rw [k4]; exact hsim.cl a ha
  · intro _; exact k2
  · exact hstep

/-- `confirm n` (the caller's range is not empty, or it has none and `n = 0`) -/
theorem zn_sim_confirm {hash : List Nat → List Nat} {a0 : InitArgs} {s z : State} {r : Nat}
    {e : Env} {n : Nat} {s' : State} {o : Out}
    (hz : ReachA hash .nft a0 z r) (hsim : ZSim s z) (hd : s.flags.started = false → z_Hd s)
    (hr : r ≤ e.round) (hok : EnvOK e) (hs : step hash s e (.confirm n) = .ok (s', o)) :
    ∃ z', ReachA hash .nft a0 z' e.round ∧ ZSim s' z' ∧ (s'.flags.started = false → z_Hd s') ∧
      z'.claimed = z.claimed ∧ step hash z e (.confirm n) = .ok (z', o) := by
  have htk := z_step_tk hs (by simp) (by simp) (by simp) (by simp) (by simp)
  have hd' := z_Hd_keep hs htk hd
  have hfb := z_filtered_back hs
  obtain ⟨m, t, hm, hpay, hown, hx, rfl, rfl⟩ := step_ok_inv hs
  obtain ⟨_, _, hvz, hoz, _, _, _⟩ := hsim.fields
  obtain ⟨k1, k2, k3, k4, k5, k6, k7⟩ := z_exec_confirm z.batch z.blacklist z.claimed hx
    (fun hk => hsim.bl _ hk)
  have htx : tx0 z e = z_wt (tx0 s e) (z_eraseR (tx0 s e).s.range) z.batch z.blacklist z.claimed := by
    conv => lhs; rw [hsim.eq]
    rfl
  have hmz : endpointMeta z.variant (.confirm n) = some m := by rw [← hm, hvz]
  have hstep := z_step_intro hmz hpay (by rw [hoz]; exact hown) (by rw [htx]; exact k1)
  refine ⟨_, .call z r e (.confirm n) _ _ hz hr hok trivial hstep, ⟨rfl, ?_, ?_, ?_, ?_⟩, hd', rfl, hstep⟩
  · show z_eraseR (tx0 s e).s.range = z_eraseR t.s.range
    rw [k2]
  · intro hf
    show z.batch = z_eraseB t.s.batch
    rw [k3]; exact hsim.batch (hfb hf)
  · intro a ha
    show t.s.blacklist a = true
    rw [k4]; exact hsim.bl a ha
  · intro a ha
    show t.s.claimed a = true
    rw [k5]; exact hsim.cl a ha

/-- before the filter starts, an address without a (non-empty) range has nothing confirmed -/
theorem zn_noRange_noConf {T0 : Nat} {z : State} {r : Nat} (hwf : nf_WF T0 z r)
    (hns : z.flags.started = false) {a : Nat} (ha : z.range a = none) : z.confirmed a = 0 := by
  obtain ⟨_, _, L0, hp, hA⟩ := nf_phase_notStarted hwf.phase hns
  by_cases hin : a ∈ L0.map Prod.fst
  · obtain ⟨rr, hrr⟩ := rb_Chain_range_some hA.chain hin
    have hrr' : z.range a = some rr := hrr
    rw [ha] at hrr'; cases hrr'
  · exact hp.outC a hin

/-- `blacklist l`, matched by `blacklist (l without the addresses whose range is empty)` -/
theorem zn_sim_blacklist {hash : List Nat → List Nat} {a0 : InitArgs} {s z : State} {r : Nat}
    {e : Env} {l : List Nat} {s' : State} {o : Out}
    (hz : ReachA hash .nft a0 z r) (hsim : ZSim s z) (hd : s.flags.started = false → z_Hd s)
    (hr : r ≤ e.round) (hok : EnvOK e) (hs : step hash s e (.blacklist l) = .ok (s', o)) :
    ∃ z', ReachA hash .nft a0 z' e.round ∧ ZSim s' z' ∧ (s'.flags.started = false → z_Hd s') ∧
      z'.claimed = z.claimed ∧
      step hash z e (.blacklist (l.filter (fun a => (z_eraseR s.range a).isSome))) = .ok (z', o) := by
  have hwf := nf_reach_WF hz
  have htk := z_step_tk hs (by simp) (by simp) (by simp) (by simp) (by simp)
  have hd' := z_Hd_keep hs htk hd
  have hfb := z_filtered_back hs
  have hcl := (LP.Props.C09.step_claimed_exact hash s e _ s' o hs).1 (by simp)
  obtain ⟨m, t, hm, hpay, hown, hx, rfl, rfl⟩ := step_ok_inv hs
  obtain ⟨hcfg, hfl, hvz, hoz, hcf, _, _⟩ := hsim.fields
  have hpz : z.payers = s.payers := by have := congrArg State.payers hsim.rest; exact this
  -- the stage
  have hx0 := hx
  simp only [exec, bind_ok_iff] at hx0
  obtain ⟨t1, h1, _⟩ := hx0
  unfold addUsersToBlacklist at h1
  simp only [bind_ok_iff, req_ok_iff, exists_const] at h1
  obtain ⟨_, _, hstage, _⟩ := h1
  have hstage' : stageLt s e .winnerSelection = true := hstage
  have hns : z.flags.started = false := by
    cases hst : s.stage e with
    | addTickets =>
      exact nf_notStarted_of_lt hwf hr (Or.inl (by rw [hcfg]; exact rb_stage_addTickets hst))
    | confirm =>
      exact nf_notStarted_of_lt hwf hr (Or.inr (by rw [hcfg]; exact (rb_stage_confirm hst).2))
    | winnerSelection => simp [stageLt, hst, Stage.toNat] at hstage'
    | claim => simp [stageLt, hst, Stage.toNat] at hstage'
  have hc : ∀ a ∈ l, z_eraseR (tx0 s e).s.range a = none → (tx0 s e).s.confirmed a = 0 := by
    intro a _ hnone
    have h1 : z.range a = none := by rw [hsim.range]; exact hnone
    have := zn_noRange_noConf hwf hns h1
    rw [hcf] at this
    exact this
  have hp : ∀ a ∈ l, z_eraseR (tx0 s e).s.range a = none → a ∉ (tx0 s e).s.payers := by
    intro a ha hnone hin
    have h0 := hc a ha hnone
    have hin' : a ∈ z.payers := by rw [hpz]; exact hin
    have := hwf.side.conf a (Or.inl hin')
    have h2 : 0 < z.confirmed a := this
    rw [hcf] at h2
    have h0' : s.confirmed a = 0 := h0
    omega
  have hpl : (tx0 s e).s.variant = .nft := by
    show s.variant = .nft
    rw [← hvz]; exact hwf.var
  obtain ⟨K', k1, k2⟩ := zn_exec_blacklist z.batch z.blacklist z.claimed hpl hx (fun a ha => hsim.bl a ha) hc hp
  have htx : tx0 z e = z_wt (tx0 s e) (z_eraseR (tx0 s e).s.range) z.batch z.blacklist z.claimed := by
    conv => lhs; rw [hsim.eq]
    rfl
  have hmz : endpointMeta z.variant
      (.blacklist (l.filter (fun a => (z_eraseR s.range a).isSome))) = some m := by
    rw [← hm, hvz]; rfl
  have hstep := z_step_intro hmz hpay (by rw [hoz]; exact hown) (by rw [htx]; exact k1)
  refine ⟨_, .call z r e (.blacklist _) _ _ hz hr hok trivial hstep, ⟨rfl, ?_, ?_, k2, ?_⟩, hd', rfl, hstep⟩
  · show z_eraseR (tx0 s e).s.range = z_eraseR t.s.range
    rw [tk_range htk]; rfl
  · intro hf
    show z.batch = z_eraseB t.s.batch
    rw [tk_batch htk]; exact hsim.batch (hfb hf)
  · intro a ha
    show t.s.claimed a = true
    rw [hcl]; exact hsim.cl a ha

/-- `filter` (interrupted or completed, fresh or resumed): the same call on the erased state -/
theorem zn_sim_filter {hash : List Nat → List Nat} {a0 : InitArgs} {s z : State} {r : Nat}
    {e : Env} {s' : State} {o : Out}
    (hz : ReachA hash .nft a0 z r) (hsim : ZSim s z)
    (hr : r ≤ e.round) (hok : EnvOK e) (hs : step hash s e .filter = .ok (s', o)) :
    ∃ z', ReachA hash .nft a0 z' e.round ∧ ZSim s' z' ∧ (s'.flags.started = false → z_Hd s') ∧
      z'.claimed = z.claimed ∧ step hash z e .filter = .ok (z', o) := by
  have hwf := nf_reach_WF hz
  have hcl := (LP.Props.C09.step_claimed_exact hash s e _ s' o hs).1 (by simp)
  have hbl := LP.Props.C10frame.blacklist_frame hash s s' e _ o hs (by simp) (by simp) (by simp)
  obtain ⟨m, t, hm, hpay, hown, hx, rfl, rfl⟩ := step_ok_inv hs
  obtain ⟨hcfg, hfl, hvz, hoz, hcf, hop, hlast⟩ := hsim.fields
  simp only [exec] at hx
  obtain ⟨hpre, _⟩ := filterTickets_inv _ _ _ hx
  have hnf : s.flags.filtered = false := hpre.notFiltered
  have hph : Phase a0.nrWinning (nf_core z) :=
    zn_phase_notFiltered hwf.phase (by show z.flags.filtered = false; rw [hfl]; exact hnf)
  obtain ⟨L0, hp, hab⟩ := rb_phase_notFiltered hph (by show z.flags.filtered = false; rw [hfl]; exact hnf)
  have hzb : z.batch = z_eraseB s.batch := hsim.batch hnf
  have hokA : AllocOK (tx0 s e).s.confirmed L0 := by
    have : AllocOK z.confirmed L0 := hp.ok
    rw [hcf] at this; exact this
  have hmid : ∀ x, filStOf (tx0 s e).s = some x →
      Mid (tx0 s e).s.confirmed (tx0 s e).s.lastTicketId L0 (z_ef x) := by
    intro x hxs
    have hxs' : filStOf s = some x := hxs
    show Mid s.confirmed s.lastTicketId L0 (z_ef x)
    rw [← hcf, ← hlast]
    rcases hab with ha | hb
    · have hop' : s.op = .none := by rw [← hop]; exact ha.op
      simp only [filStOf, hop', Option.some.injEq] at hxs'
      subst hxs'
      have hl : z.lastTicketId = ticketTotal L0 := ha.last
      rw [hl]
      have := rb_Mid_start (conf := z.confirmed) ha.chain hp.outR
      have e1 : (nf_core z).range = z_eraseR s.range := hsim.range
      have e2 : (nf_core z).batch = z_eraseB s.batch := hzb
      rw [e1, e2] at this
      exact this
    · obtain ⟨f0, rm, hop0, hm0⟩ := hb.mid
      have hop' : s.op = .filter f0 rm := by rw [← hop]; exact hop0
      simp only [filStOf, hop', Option.some.injEq] at hxs'
      subst hxs'
      have e1 : (nf_core z).range = z_eraseR s.range := hsim.range
      have e2 : (nf_core z).batch = z_eraseB s.batch := hzb
      rw [e1, e2] at hm0
      exact hm0
  have k1 := z_filterTickets z.blacklist z.claimed hx hokA hmid
  have htx : tx0 z e = z_wt (tx0 s e) (z_eraseR (tx0 s e).s.range) (z_eraseB (tx0 s e).s.batch)
      z.blacklist z.claimed := by
    have := hsim.eq
    rw [hzb] at this
    conv => lhs; rw [this]
    rfl
  have hmz : endpointMeta z.variant .filter = some m := by rw [← hm, hvz]
  have hstep := z_step_intro (hash := hash) hmz hpay (by rw [hoz]; exact hown)
    (by rw [htx]; simp only [exec]; exact k1)
  have hreach : ReachA hash .nft a0 _ e.round := .call z r e .filter _ _ hz hr hok trivial hstep
  refine ⟨_, hreach, ⟨rfl, rfl, fun _ => rfl, ?_, ?_⟩, ?_, rfl, hstep⟩
  · intro a ha
    show t.s.blacklist a = true
    rw [hbl]; exact hsim.bl a ha
  · intro a ha
    show t.s.claimed a = true
    rw [hcl]; exact hsim.cl a ha
  · intro hst
    exfalso
    -- after a filter call the operation is saved or the flag is set: not phase A
    have hwf' := nf_reach_WF hreach
    obtain ⟨_, _, L1, hp1, hA1⟩ := nf_phase_notStarted hwf'.phase hst
    obtain ⟨_, _, _, _, hcase⟩ := LP.Events.filterTickets_out hx
    rcases hcase with ⟨_, _, hf, _⟩ | ⟨_, _, _, _, f1, r1, hop1⟩
    · have : t.s.flags.filtered = false := hp1.notFiltered
      rw [hf] at this; cases this
    · have : t.s.op = .none := hA1.op
      rw [hop1] at this; cases this

/-! ### claim -/

/-- **a claim by an address whose range is empty** (hence without confirmed tickets, in neither
    NFT list) changes nothing but the caller's `claimed` flag, its (stale) range and the batch slot
    at the range's first id; nothing is paid, no balance moves — but ONE SFT of category 3 ("did
    not take part in the NFT draw") is handed out -/
theorem zn_claim_stutter {hash : List Nat → List Nat} {s s' : State} {e : Env} {o : Out} {r : Range}
    (hn : s.variant.hasNft = true) (hs : step hash s e .claim = .ok (s', o))
    (hr : s.range e.caller = some r) (he : r.last < r.first) (hc : s.confirmed e.caller = 0)
    (hp : e.caller ∉ s.payers) (hw : e.caller ∉ s.nftWinners) :
    s' = z_w s (upd s.range e.caller none) (upd s.batch r.first none) s.blacklist
          (upd s.claimed e.caller true) ∧
    o.sfts = [(e.caller, 3)] ∧ o.xfers = [] ∧ o.locks = [] := by
  obtain ⟨r', hacc, _, hs'⟩ := nf_claim_shape hash s e s' o hn hs
  obtain ⟨_, _, _, hxf, hsf, hlk, _⟩ := LP.Props.C14.claim_nft_effect hash s e s' o hn hs
  have hr' : r' = r := by
    have := hacc.2.2.2.2.1
    rw [hr] at this
    exact (Option.some.inj this).symm
  subst hr'
  have hcat : nftCategory s e.caller = 3 := by
    unfold nftCategory; rw [if_neg hw, if_neg hp]
  have hlen : rangeLen r' = 0 := by unfold rangeLen; omega
  have hwc : LP.winCount s e.caller = 0 := by
    rw [LP.Props.C09.winCount_of_range hr, hlen]; rfl
  have hbal : LP.Props.C09.balAfterClaim s e.caller = s.bal := by
    unfold LP.Props.C09.balAfterClaim
    rw [hwc, hc]
    simp [Bal.sub_zero]
  have hconf : upd s.confirmed e.caller 0 = s.confirmed := by
    funext x
    by_cases hx : x = e.caller
    · subst hx; simp [hc]
    · simp [upd, hx]
  have hdelta : nf_delta s e.caller = 0 := by unfold nf_delta; rw [hcat]; rfl
  refine ⟨?_, by rw [hsf, hcat], ?_, hlk⟩
  · rw [hs', hcat, hdelta, hbal, Bal.sub_zero, LP.swapRemove_not_mem hw]
    simp only [show ¬ ((3 : Nat) = 2) by decide, if_false]
    unfold nf_claimState settledState
    rw [hlen, hconf]
    rfl
  · rw [hxf, hcat]
    unfold LP.Props.C09.refundXfers LP.Props.C09.tokenXfers
    rw [hwc, hc]
    simp

/-- `claim`: by an address with a non-empty range it is matched by the same claim; by an address
    with an empty range it is matched by NO step (the erased state does not move; the original
    hands out one SFT of category 3 and pays nothing) -/
theorem zn_sim_claim {hash : List Nat → List Nat} {a0 : InitArgs} {s z : State} {r : Nat}
    {e : Env} {s' : State} {o : Out}
    (hz : ReachA hash .nft a0 z r) (hsim : ZnSim s z)
    (hr : r ≤ e.round) (hok : EnvOK e) (hs : step hash s e .claim = .ok (s', o)) :
    ∃ z', ReachA hash .nft a0 z' e.round ∧ ZnSim s' z' ∧ (s'.flags.started = false → z_Hd s') ∧
      (step hash z e .claim = .ok (z', o) ∨
        (z' = z ∧ ∃ rg, s.range e.caller = some rg ∧ rg.last < rg.first ∧
          s' = z_w s (upd s.range e.caller none) (upd s.batch rg.first none) s.blacklist
                (upd s.claimed e.caller true) ∧
          o.sfts = [(e.caller, 3)] ∧ o.xfers = [] ∧ o.locks = [])) := by
  have hclc := hsim.clc
  have hsim := hsim.sim
  have hwf := nf_reach_WF hz
  obtain ⟨hcfg, hfl, hvz, hoz, hcf, hop, hlast⟩ := hsim.fields
  have hpz : z.payers = s.payers := by have := congrArg State.payers hsim.rest; exact this
  have hwz : z.nftWinners = s.nftWinners := by have := congrArg State.nftWinners hsim.rest; exact this
  have hvs : s.variant = .nft := by rw [← hvz]; exact hwf.var
  obtain ⟨f1, f2, _⟩ := nf_flags hvs
  obtain ⟨rg, hacc, _, hs'eq⟩ := nf_claim_shape hash s e s' o f2 hs
  obtain ⟨he1, he2, hst, hncl, hrg, _⟩ := hacc
  have hadd : z.flags.additional = true := by rw [hfl]; exact (LP.Props.C09.claim_stage_selected hst).2.1
  have hD : PhD (nf_core z) := nf_phase_done hwf.phase hadd
  have hfil : s.flags.filtered = true := by rw [← hfl]; exact hD.filtered
  have hsta : s.flags.started = true := by rw [← hfl]; exact hD.started
  have e1 : s'.range = upd s.range e.caller none := by rw [hs'eq]; rfl
  have e2 : s'.claimed = upd s.claimed e.caller true := by rw [hs'eq]; rfl
  have e3 : s'.blacklist = s.blacklist := by rw [hs'eq]; rfl
  have e4 : s'.flags = s.flags := by rw [hs'eq]; rfl
  have e5 : s'.confirmed = upd s.confirmed e.caller 0 := by rw [hs'eq]; rfl
  by_cases hne : rg.first ≤ rg.last
  · -- a real participant
    have hs2 := hs
    rw [LP.Props.C09.step_claim_ok_iff] at hs2
    obtain ⟨_, _, t, hx, rfl, rfl⟩ := hs2
    rw [exec_claim_nonvested hash _ e (by exact f1)] at hx
    have hR : z.range e.caller = some rg := by rw [hsim.range]; exact z_eraseR_of_ne hrg hne
    have hC : z.claimed e.caller = (LP.Props.C09.txc s e).s.claimed e.caller := by
      show z.claimed e.caller = s.claimed e.caller
      rw [hncl]
      cases hk : z.claimed e.caller with
      | false => rfl
      | true => rw [hsim.cl _ hk] at hncl; cases hncl
    have k1 := zn_claimBase (R := z.range) (B := z.batch) (K := z.blacklist) (C := z.claimed)
      hx (by exact hrg) hR hC
    have htx : LP.Props.C09.txc z e
        = z_wt (LP.Props.C09.txc s e) z.range z.batch z.blacklist z.claimed := by
      conv => lhs; rw [hsim.rest]
      rfl
    have hstep : step hash z e .claim
        = .ok ((z_wt t (upd z.range e.caller none) (upd z.batch rg.first none) z.blacklist
            (upd z.claimed e.caller true)).s, t.o) := by
      rw [LP.Props.C09.step_claim_ok_iff]
      refine ⟨he1, he2, _, ?_, rfl, rfl⟩
      rw [exec_claim_nonvested hash _ e (by show z.variant.vested = false; rw [hvz]; exact f1), htx]
      exact k1
    refine ⟨_, .call z r e .claim _ _ hz hr hok trivial hstep, ⟨⟨rfl, ?_, ?_, ?_, ?_⟩, ?_⟩, ?_, Or.inl hstep⟩
    · show upd z.range e.caller none = z_eraseR t.s.range
      rw [e1, z_eraseR_upd_none, hsim.range]
    · intro hf
      rw [e4, hfil] at hf; cases hf
    · intro a ha
      show t.s.blacklist a = true
      rw [e3]; exact hsim.bl a ha
    · intro a ha
      have ha' : upd z.claimed e.caller true a = true := ha
      show t.s.claimed a = true
      rw [e2]
      by_cases hx : a = e.caller
      · subst hx; simp
      · rw [upd_other _ _ _ _ hx] at ha' ⊢; exact hsim.cl a ha'
    · intro a ha
      show upd z.claimed e.caller true a = true ∨ t.s.confirmed a = 0
      rw [e2] at ha
      by_cases hx : a = e.caller
      · subst hx; left; simp
      · rw [upd_other _ _ _ _ hx] at ha ⊢
        rw [e5, upd_other _ _ _ _ hx]
        exact hclc a ha
    · intro hf
      rw [e4, hsta] at hf; cases hf
  · -- an address with an empty range: the erased state does not move
    have hzn : z.range e.caller = none := by rw [hsim.range]; exact z_eraseR_of_empty hrg hne
    have hc0 : s.confirmed e.caller = 0 := by
      rw [← hcf]; exact hD.rngNone e.caller hzn
    have hnp : e.caller ∉ s.payers := by
      intro hin
      have := hwf.side.conf e.caller (Or.inl (by show e.caller ∈ z.payers; rw [hpz]; exact hin))
      have h2 : 0 < z.confirmed e.caller := this
      rw [hcf] at h2; omega
    have hnw : e.caller ∉ s.nftWinners := by
      intro hin
      have := hwf.side.conf e.caller (Or.inr (by show e.caller ∈ z.nftWinners; rw [hwz]; exact hin))
      have h2 : 0 < z.confirmed e.caller := this
      rw [hcf] at h2; omega
    obtain ⟨hst2, ho1, ho2, ho3⟩ := zn_claim_stutter f2 hs hrg (by omega) hc0 hnp hnw
    refine ⟨z, .wait z r e.round hz hr, ⟨⟨?_, ?_, ?_, ?_, ?_⟩, ?_⟩, ?_,
      Or.inr ⟨rfl, rg, hrg, by omega, hst2, ho1, ho2, ho3⟩⟩
    · rw [hst2, z_w_w]; exact hsim.rest
    · rw [hst2]
      show z.range = z_eraseR (upd s.range e.caller none)
      rw [z_eraseR_upd_none, ← hsim.range, z_upd_none_self _ _ hzn]
    · intro hf
      rw [hst2] at hf
      have hf' : s.flags.filtered = false := hf
      rw [hfil] at hf'; cases hf'
    · intro a ha
      rw [hst2]
      exact hsim.bl a ha
    · intro a ha
      rw [hst2]
      show upd s.claimed e.caller true a = true
      by_cases hx : a = e.caller
      · subst hx; simp
      · rw [upd_other _ _ _ _ hx]; exact hsim.cl a ha
    · intro a ha
      rw [e2] at ha
      rw [e5]
      by_cases hx : a = e.caller
      · subst hx; right; simp
      · rw [upd_other _ _ _ _ hx] at ha ⊢
        exact hclc a ha
    · intro hf
      rw [hst2] at hf
      have hf' : s.flags.started = false := hf
      rw [hsta] at hf'; cases hf'

/-! ### the simulation theorem -/

/-- one accepted call from a state related to a `ReachA` state leads to a state related to a
    `ReachA` state; the erased state makes one step (an admissible call `c'`) or — for a claim by
    an empty-range address — none -/
theorem zn_sim_step {hash : List Nat → List Nat} {a0 : InitArgs} {s z : State} {r : Nat}
    {e : Env} {c : Call} {s' : State} {o : Out}
    (hz : ReachA hash .nft a0 z r) (hsim : ZnSim s z) (hd : s.flags.started = false → z_Hd s)
    (hfr : zn_Fresh s)
    (hr : r ≤ e.round) (hok : EnvOK e) (hs : step hash s e c = .ok (s', o)) :
    ∃ z', ReachA hash .nft a0 z' e.round ∧ ZnSim s' z' ∧ (s'.flags.started = false → z_Hd s') ∧
      ((z' = z ∧ c = .claim) ∨ ∃ c', CallOK c' ∧ step hash z e c' = .ok (z', o)) := by
  have hwf := nf_reach_WF hz
  have hfl : z.flags = s.flags := hsim.sim.fields.2.1
  have hcfg : z.cfg = s.cfg := hsim.sim.fields.1
  have hvs : s.variant = .nft := by rw [← hsim.sim.fields.2.2.1]; exact hwf.var
  have hex := nf_exposed hvs hs
  -- a confirming address has not claimed
  have hconf : ∀ n, c = .confirm n → s.claimed e.caller = false := by
    intro n hc
    subst hc
    have hst := LP.Props.C06.confirm_only_in_confirm hash s e _ _ (Or.inl ⟨n, rfl⟩) hs
    have hns : z.flags.started = false :=
      nf_notStarted_of_lt hwf hr (Or.inr (by rw [hcfg]; exact (rb_stage_confirm hst).2))
    have hna : s.flags.additional = false := by rw [← hfl]; exact (nf_early_side hwf hns).1
    exact hfr hna e.caller
  have fin : ∀ (hc : c ≠ .claim),
      (∃ z', ReachA hash .nft a0 z' e.round ∧ ZSim s' z' ∧ (s'.flags.started = false → z_Hd s') ∧
        z'.claimed = z.claimed ∧ ∃ c', CallOK c' ∧ step hash z e c' = .ok (z', o)) →
      ∃ z', ReachA hash .nft a0 z' e.round ∧ ZnSim s' z' ∧ (s'.flags.started = false → z_Hd s') ∧
        ((z' = z ∧ c = .claim) ∨ ∃ c', CallOK c' ∧ step hash z e c' = .ok (z', o)) := by
    rintro hc ⟨z', h1, h2, h3, h4, h5⟩
    exact ⟨z', h1, ⟨h2, zn_clc_keep hs hc hconf h4 hsim.clc⟩, h3, Or.inr h5⟩
  cases c with
  | addTickets l =>
    obtain ⟨z', h1, h2, h3, h4, h5⟩ := zn_sim_add hz hsim.sim hd hr hok hs
    refine fin (by simp) ⟨z', h1, h2, h3, h4, _, ?_, h5⟩
    exact fun p hp => of_decide_eq_true (List.mem_filter.mp hp).2
  | confirm n =>
    obtain ⟨z', h1, h2, h3, h4, h5⟩ := zn_sim_confirm hz hsim.sim hd hr hok hs
    refine fin (by simp) ⟨z', h1, h2, h3, h4, _, ?_, h5⟩
    trivial
  | filter =>
    obtain ⟨z', h1, h2, h3, h4, h5⟩ := zn_sim_filter hz hsim.sim hr hok hs
    refine fin (by simp) ⟨z', h1, h2, h3, h4, _, ?_, h5⟩
    trivial
  | claim =>
    obtain ⟨z', h1, h2, h3, h4⟩ := zn_sim_claim hz hsim hr hok hs
    refine ⟨z', h1, h2, h3, ?_⟩
    rcases h4 with h4 | ⟨h4, _⟩
    · exact Or.inr ⟨.claim, trivial, h4⟩
    · exact Or.inl ⟨h4, rfl⟩
  | blacklist l =>
    obtain ⟨z', h1, h2, h3, h4, h5⟩ := zn_sim_blacklist hz hsim.sim hd hr hok hs
    refine fin (by simp) ⟨z', h1, h2, h3, h4, _, ?_, h5⟩
    trivial
  | deposit | setTicketPrice _ _ | setPerTicket _ | setConfStart _ | setSelStart _ | setClaimStart _
  | setSupport _ | pause | unpause | select | claimPayment | confirmNft | selectNft | setNftCost _
  | sftSetup =>
    obtain ⟨z', h1, h2, h3, h4, h5⟩ := zn_sim_indep rfl hz hsim.sim hd hr hok hs
    refine fin (by simp) ⟨z', h1, h2, h3, h4, _, ?_, h5⟩
    trivial
  | _ => exact absurd hex id

/-- **SIMULATION** (launchpad with NFT draw): every state reachable WITHOUT the restriction `CallOK`
    (zero-size allocation entries allowed) is `ZnSim`-related to a state reachable in the original
    development (same deployment arguments, same round): erase the empty ranges and the zero-size
    batches. -/
theorem zn_sim {hash : List Nat → List Nat} {a0 : InitArgs}
    {s : State} {r : Nat} (h : ReachZA hash .nft a0 s r) :
    ∃ z, ReachA hash .nft a0 z r ∧ ZnSim s z ∧ (s.flags.started = false → z_Hd s) ∧ zn_Fresh s := by
  induction h with
  | init e s h =>
    obtain ⟨_, _, _, _, hs⟩ := nf_init_inv h
    refine ⟨s, .init e s h, ⟨ZSim.refl_of_clean ?_ ?_, fun a ha => Or.inl ha⟩, ?_, ?_⟩
    · rw [hs]; rfl
    · rw [hs]; rfl
    · intro _ i b _ hb
      rw [hs] at hb; cases hb
    · intro _ a; rw [hs]; rfl
  | call s r e c s' o _ h1 h2 h3 ih =>
    obtain ⟨z, hz, hsim, hd, hfr⟩ := ih
    obtain ⟨z', k1, k2, k3, _⟩ := zn_sim_step hz hsim hd hfr h1 h2 h3
    have hvs : s.variant = .nft := by rw [← hsim.sim.fields.2.2.1]; exact (nf_reach_WF hz).var
    exact ⟨z', k1, k2, k3, zn_fresh_step (nf_flags hvs).1 h3 hfr⟩
  | wait s r r' _ h1 ih =>
    obtain ⟨z, hz, hsim, hd, hfr⟩ := ih
    exact ⟨z, .wait z r r' hz h1, hsim, hd, hfr⟩

theorem zn_sim_reach {hash : List Nat → List Nat} {s : State} {r : Nat} (h : ReachZ hash .nft s r) :
    ∃ z, Reach hash .nft z r ∧ ZnSim s z := by
  obtain ⟨a0, h⟩ := ReachZ_iff.mp h
  obtain ⟨z, hz, hsim, _⟩ := zn_sim h
  exact ⟨z, Reach_iff.mpr ⟨a0, hz⟩, hsim⟩

/-- after the NFT draw has completed an address without a (non-empty) range has nothing confirmed -/
theorem zn_done_rngNone {hash : List Nat → List Nat} {a0 : InitArgs}
    {z : State} {r : Nat} (hz : ReachA hash .nft a0 z r) (hadd : z.flags.additional = true) :
    ∀ a, z.range a = none → z.confirmed a = 0 :=
  (nf_phase_done (nf_reach_WF hz).phase hadd).rngNone

end LP

#print axioms LP.zn_sim
#print axioms LP.zn_sim_reach
