import LP.Proofs.ReachFrame
import LP.Props.C12reserve
import LP.Props.C11topup
import LP.Props.C03final
import LP.Props.C04select
import LP.Props.C02
/-
  LP.Proofs.ReachV1WF — the inductive invariant `v1_WF T0 s r` of the v1 guaranteed-ticket
  launchpads that use the COMMON claim path: `Variant.migration`
  (launchpad-migration-guaranteed-tickets) and `Variant.lockedGuar`
  (launchpad-locked-tokens-and-guaranteed-tickets, no un-blacklist, locked send at claim).

  Compared with the plain development (`LP/Proofs/ReachWF.lean`, reused through `State.core`,
  `Pre`, `PhA`, `PhB`, `PhC`, `PhD`) there is
    * a second projection `v1_gv` (whitelist, guarantee records, reserve, blacklist flags,
      `minConfirmed`);
    * the reserve: `nrWinning + totalGuaranteed = T0` until the filter completes
      (`Pre (T0 - totalGuaranteed)`), `GuarInv false` (C12) in phase A, its two range-free
      clauses (`v1_GW`) in phases B and C;
    * a new phase E between the lottery and the completion of `distribute` (`v1_PhE`): the
      position/flag invariant `PosInv` of the leftover loop (which is monotone in the flags, so
      it also covers the top-up loop), the flag count, the reserve split
      `leftover + additional + Σ_{whitelist} = totalGuaranteed`, and "every holder of a positive
      guarantee is still whitelisted or already honoured";
    * the launchpad-token coverage `lp` (from the deposit on).

  THE RESTRICTION ON HISTORIES (`v1_CallOK`): every entry of an `addTicketsV1` call allocates at
  least one ticket (`1 ≤ staking + energy`).  A zero-size entry `(a, 0, 0, false)` creates the
  empty range `[f, f-1]` and a batch slot that the next allocation overwrites; such histories
  are excluded here exactly as in the plain development.
-/
namespace LP
open LP.FY

/-- the v1 guaranteed-ticket variants on the common claim path -/
def v1_Fam (v : Variant) : Prop := v = .migration ∨ v = .lockedGuar

theorem v1_fam_flags {v : Variant} (hv : v1_Fam v) :
    v.vested = false ∧ v.hasNft = false ∧ v.isV2 = false ∧ v.v1Alloc = true ∧
    v.hasGuaranteed = true ∧ v.noAdditionalStep = false ∧ (v != .nftGuar) = true := by
  rcases hv with rfl | rfl <;> exact ⟨rfl, rfl, rfl, rfl, rfl, rfl, rfl⟩

/-- restriction on histories: every v1 allocation has at least one ticket -/
def v1_CallOK : Call → Prop
  | .addTicketsV1 l => ∀ q ∈ l, 1 ≤ q.2.1 + q.2.2.1
  | _ => True

/-! ### the second projection -/

structure v1_G where
  whitelist : List Nat
  uts : Nat → Option UTS
  blUts : Nat → Option UTS
  tg : Nat
  blacklist : Nat → Bool
  minConfirmed : Nat

def v1_gv (s : State) : v1_G :=
  { whitelist := s.whitelist, uts := s.uts, blUts := s.blUts, tg := s.totalGuaranteed,
    blacklist := s.blacklist, minConfirmed := s.minConfirmed }

/-- phase A: the reserve invariant of C12 (v1) and "blacklisted users hold a range" -/
structure v1_GX (c : Core) (g : v1_G) : Prop where
  gi : GI false g.whitelist g.uts g.blUts c.range g.tg
  bl_range : ∀ u, g.blacklist u = true → (c.range u).isSome = true

/-- the range-free clauses of the reserve invariant, which survive the filter -/
structure v1_GW (g : v1_G) : Prop where
  total : g.tg = gSum false g.uts g.whitelist
  mem_of_pos : ∀ u st, g.uts u = some st → gOf false st > 0 → u ∈ g.whitelist
  pos_of_mem : ∀ u, u ∈ g.whitelist → ∃ st, g.uts u = some st ∧ gOf false st > 0

theorem v1_GX.toGW {c : Core} {g : v1_G} (h : v1_GX c g) : v1_GW g :=
  ⟨h.gi.total, h.gi.mem_of_pos, h.gi.pos_of_mem⟩

theorem v1_GX_iff (s : State) (hv : s.variant.isV2 = false) :
    GuarInvX s ↔ v1_GX s.core (v1_gv s) := by
  constructor
  · intro h
    have hb := h.base
    rw [hv] at hb
    exact ⟨hb, h.bl_range⟩
  · intro h
    refine ⟨by rw [hv]; exact h.gi, ?_, h.bl_range⟩
    intro h2; rw [hv] at h2; cases h2

/-- the guarantee of holder `u` with record `st` is honoured -/
def v1_Hon (c : Core) (g : v1_G) (u : Nat) (st : UTS) : Prop :=
  min (calcV1 st (c.confirmed u) g.minConfirmed).1 (c.confirmed u) ≤ winOf c.range c.status u

/-- phase E: the lottery is complete, the distribution is not -/
structure v1_PhE (T0 : Nat) (c : Core) (g : v1_G) : Prop where
  started : c.flags.started = true
  filtered : c.flags.filtered = true
  selected : c.flags.selected = true
  nrw : c.nrWinning = min (T0 - g.tg) c.lastTicketId
  claimable : c.claimable = c.price * c.nrWinning
  alloc : ∃ Ls : List (Nat × Nat), (Ls.map Prod.fst).Nodup ∧
    (∀ p ∈ Ls, 1 ≤ p.2 ∧ p.2 = c.confirmed p.1) ∧ Chain Ls 1 c.range c.batch ∧
    c.lastTicketId = ticketTotal Ls ∧
    (∀ a, a ∉ Ls.map Prod.fst → c.range a = none ∧ c.confirmed a = 0) ∧
    PayPre c (Ls.map Prod.fst)
  /-- as long as no `distribute` call has been accepted the whitelist is intact -/
  wl0 : c.op = .none → v1_GW g
  dist : ∃ lo off add,
    ((c.op = .none ∧ lo = 0 ∧ off = 1 ∧ add = 0) ∨
      ∃ rng, c.op = .additional (.guar ⟨rng, lo, off, add⟩)) ∧
    PosInv c.lastTicketId c.status c.posToId (c.nrWinning + off) ∧
    countTrue c.status c.lastTicketId = c.nrWinning + add ∧
    lo + add + gSum false g.uts g.whitelist = g.tg ∧
    (∀ u st, g.uts u = some st → gOf false st > 0 → u ∈ g.whitelist ∨ v1_Hon c g u st)

def v1_PhaseC (T0 : Nat) (c : Core) (g : v1_G) : Prop :=
  (c.flags.additional = false ∧ g.tg ≤ T0 ∧
    ((∃ L0, Pre (T0 - g.tg) c L0 ∧ ((PhA c L0 ∧ v1_GX c g) ∨ (PhB c L0 ∧ v1_GW g))) ∨
     (PhC (T0 - g.tg) c ∧ v1_GW g) ∨ v1_PhE T0 c g)) ∨
  (c.flags.additional = true ∧ PhD c)

/-- launchpad tokens that may still have to be paid out: the outstanding winners plus, until the
    distribution is complete, the whole reserve -/
def v1_owed (s : State) : Nat :=
  s.nrWinning + (if s.flags.additional then 0 else s.totalGuaranteed)

/-- the inductive invariant; `r` is the round of the latest transaction, `T0` the number of
    winning tickets configured at deployment -/
structure v1_WF (T0 : Nat) (s : State) (r : Nat) : Prop where
  var : v1_Fam s.variant
  pricePos : 0 < s.price
  tokNe : s.payTok ≠ .esdt s.lpTok
  /-- never written after deployment: the qualification threshold is positive, the lock
      percentage (locked variant) is at most 100 % -/
  static : 0 < s.minConfirmed ∧ s.lockPct ≤ 10000
  balOther : ∀ t, t ≠ s.payTok → t ≠ .esdt s.lpTok → s.bal t 0 = 0
  tlConf : r < s.cfg.conf → ∀ a, s.confirmed a = 0
  tlStarted : s.flags.started = true → s.cfg.conf ≤ r ∧ s.cfg.sel ≤ r
  lp : s.deposited = true → s.perTicket * v1_owed s ≤ s.bal (.esdt s.lpTok) 0
  phase : v1_PhaseC T0 s.core (v1_gv s)

/-! ### extraction of the phase from the flags -/

theorem v1_phase_notStarted {T0 : Nat} {c : Core} {g : v1_G} (h : v1_PhaseC T0 c g)
    (hs : c.flags.started = false) :
    c.flags.additional = false ∧ g.tg ≤ T0 ∧ ∃ L0, Pre (T0 - g.tg) c L0 ∧ PhA c L0 ∧ v1_GX c g := by
  rcases h with ⟨ha, htg, ⟨L0, hp, ⟨h1, h2⟩ | ⟨hb, _⟩⟩ | ⟨hc, _⟩ | he⟩ | ⟨_, hd⟩
  · exact ⟨ha, htg, L0, hp, h1, h2⟩
  · rw [hb.started] at hs; cases hs
  · rw [hc.started] at hs; cases hs
  · rw [he.started] at hs; cases hs
  · rw [hd.started] at hs; cases hs

theorem v1_phase_notFiltered {T0 : Nat} {c : Core} {g : v1_G} (h : v1_PhaseC T0 c g)
    (hs : c.flags.filtered = false) :
    c.flags.additional = false ∧ g.tg ≤ T0 ∧
      ∃ L0, Pre (T0 - g.tg) c L0 ∧ ((PhA c L0 ∧ v1_GX c g) ∨ (PhB c L0 ∧ v1_GW g)) := by
  rcases h with ⟨ha, htg, ⟨L0, hp, hab⟩ | ⟨hc, _⟩ | he⟩ | ⟨_, hd⟩
  · exact ⟨ha, htg, L0, hp, hab⟩
  · rw [hc.filtered] at hs; cases hs
  · rw [he.filtered] at hs; cases hs
  · rw [hd.filtered] at hs; cases hs

theorem v1_phase_C {T0 : Nat} {c : Core} {g : v1_G} (h : v1_PhaseC T0 c g)
    (hf : c.flags.filtered = true) (hs : c.flags.selected = false) :
    c.flags.additional = false ∧ g.tg ≤ T0 ∧ PhC (T0 - g.tg) c ∧ v1_GW g := by
  rcases h with ⟨ha, htg, ⟨L0, hp, _⟩ | ⟨hc, hg⟩ | he⟩ | ⟨_, hd⟩
  · rw [hp.notFiltered] at hf; cases hf
  · exact ⟨ha, htg, hc, hg⟩
  · rw [he.selected] at hs; cases hs
  · rw [hd.selected] at hs; cases hs

theorem v1_phase_E {T0 : Nat} {c : Core} {g : v1_G} (h : v1_PhaseC T0 c g)
    (hs : c.flags.selected = true) (ha : c.flags.additional = false) :
    g.tg ≤ T0 ∧ v1_PhE T0 c g := by
  rcases h with ⟨_, htg, ⟨L0, hp, _⟩ | ⟨hc, hg⟩ | he⟩ | ⟨hd, _⟩
  · rw [hp.notSelected] at hs; cases hs
  · rw [hc.notSelected] at hs; cases hs
  · exact ⟨htg, he⟩
  · rw [hd] at ha; cases ha

theorem v1_phase_D {T0 : Nat} {c : Core} {g : v1_G} (h : v1_PhaseC T0 c g)
    (ha : c.flags.additional = true) : PhD c := by
  rcases h with ⟨hn, _⟩ | ⟨_, hd⟩
  · rw [hn] at ha; cases ha
  · exact hd

theorem v1_notStarted_of_lt {T0 : Nat} {s : State} {r : Nat} (h : v1_WF T0 s r) {n : Nat}
    (hr : r ≤ n) (hlt : n < s.cfg.conf ∨ n < s.cfg.sel) : s.flags.started = false := by
  cases hs : s.flags.started with
  | false => rfl
  | true => have := h.tlStarted hs; omega

theorem v1_stage_claim {s : State} {e : Env} (h : s.stage e = .claim) :
    s.flags.selected = true ∧ s.flags.additional = true ∧ s.cfg.conf ≤ e.round ∧
    s.cfg.sel ≤ e.round := by
  obtain ⟨h1, h2, _, h4⟩ := LP.Props.C06.claim_stage_means_all_done _ _ _ h
  refine ⟨h1, h2, ?_, h4⟩
  unfold State.stage stageOf at h
  split at h
  · cases h
  · omega

/-! ### transfer of the invariant along unchanged projections -/

theorem v1_WF_of_core {T0 : Nat} {s s' : State} {r r' : Nat} (h : v1_WF T0 s r)
    (hcore : s'.core = s.core) (hgv : v1_gv s' = v1_gv s) (hv : s'.variant = s.variant)
    (hlk : s'.lockPct = s.lockPct)
    (hp : s'.payTok = s.payTok) (hl : s'.lpTok = s.lpTok)
    (hb : ∀ t, t ≠ s.payTok → t ≠ .esdt s.lpTok → s'.bal t 0 = 0)
    (htl1 : r' < s'.cfg.conf → ∀ a, s.confirmed a = 0)
    (htl2 : s.flags.started = true → s'.cfg.conf ≤ r' ∧ s'.cfg.sel ≤ r')
    (hlp : s'.deposited = true → s'.perTicket * v1_owed s ≤ s'.bal (.esdt s.lpTok) 0) :
    v1_WF T0 s' r' := by
  have hprice : s'.price = s.price := congrArg Core.price hcore
  have hflags : s'.flags = s.flags := congrArg Core.flags hcore
  have hconf : s'.confirmed = s.confirmed := congrArg Core.confirmed hcore
  have hnrw : s'.nrWinning = s.nrWinning := congrArg Core.nrWinning hcore
  have hmc : s'.minConfirmed = s.minConfirmed := congrArg v1_G.minConfirmed hgv
  have htg : s'.totalGuaranteed = s.totalGuaranteed := congrArg v1_G.tg hgv
  refine ⟨by rw [hv]; exact h.var, by rw [hprice]; exact h.pricePos, by rw [hp, hl]; exact h.tokNe,
    by rw [hmc, hlk]; exact h.static, ?_, ?_, ?_, ?_, by rw [hcore, hgv]; exact h.phase⟩
  · intro t h1 h2; rw [hp] at h1; rw [hl] at h2; exact hb t h1 h2
  · intro h1; rw [hconf]; exact htl1 h1
  · intro h1; rw [hflags] at h1; exact htl2 h1
  · intro hd
    have : v1_owed s' = v1_owed s := by unfold v1_owed; rw [hnrw, hflags, htg]
    rw [this, hl]; exact hlp hd

/-! ### deployment -/

theorem v1_init_inv {v : Variant} (hv : v1_Fam v) {a : InitArgs} {e : Env} {s : State}
    (h : init v a e = .ok s) :
    s.variant = v ∧ 0 < a.price ∧ 0 < a.nrWinning ∧ a.payTok ≠ .esdt a.lpTok ∧
    s.price = a.price ∧ s.payTok = a.payTok ∧ s.lpTok = a.lpTok ∧ s.nrWinning = a.nrWinning ∧
    s.flags = {} ∧ s.bal = (fun _ _ => 0) ∧ s.confirmed = (fun _ => 0) ∧
    s.status = (fun _ => false) ∧ s.posToId = (fun _ => 0) ∧ s.range = (fun _ => none) ∧
    s.batch = (fun _ => none) ∧ s.lastTicketId = 0 ∧ s.op = .none ∧ s.claimablePayment = 0 ∧
    0 < s.minConfirmed ∧ s.whitelist = [] ∧ s.totalGuaranteed = 0 ∧ s.uts = (fun _ => none) ∧
    s.blacklist = (fun _ => false) ∧ s.deposited = false ∧ s.lockPct ≤ 10000 := by
  unfold init at h
  rcases hv with rfl | rfl <;>
    simp only [Variant.hasNft, Variant.v1Alloc, Variant.hasLock, Variant.noAdditionalStep, bind_ok_iff,
      req_ok_iff, pure_ok_iff, pure_bind,
      exists_const, if_true, if_false, Bool.false_eq_true, reduceCtorEq, decide_eq_true_eq,
      bne_iff_ne, ne_eq, not_false_eq_true, beq_iff_eq, Bool.and_eq_true] at h
  all_goals
    lp_peel h
    subst h
    refine ⟨rfl, by omega, by omega, by assumption, rfl, rfl, rfl, rfl, rfl, rfl, rfl, rfl, rfl, rfl, rfl,
      rfl, rfl, rfl, by assumption, rfl, rfl, rfl, rfl, rfl, by first | exact Nat.zero_le _ | (rename_i hlk _ _; exact hlk.2)⟩

theorem v1_init_WF {v : Variant} (hv : v1_Fam v) {a : InitArgs} {e : Env} {s : State}
    (h : init v a e = .ok s) : v1_WF a.nrWinning s e.round := by
  obtain ⟨h1, h2, h3, h4, h5, h6, h7, h8, h9, h10, h11, h12, h13, h14, h15, h16, h17, h18,
    h19, h20, h21, h22, h23, h24, h25⟩ := v1_init_inv hv h
  refine ⟨by rw [h1]; exact hv, by omega, by rw [h6, h7]; exact h4, ⟨h19, h25⟩, ?_, ?_, ?_, ?_, ?_⟩
  · intro t _ _; rw [h10]
  · intro _ a; rw [h11]
  · intro hs; rw [h9] at hs; cases hs
  · intro hd; rw [h24] at hd; cases hd
  · left
    have htg : (v1_gv s).tg = 0 := h21
    refine ⟨by show s.flags.additional = false; rw [h9], by rw [htg]; omega, Or.inl ⟨[], ?_, Or.inl ⟨?_, ?_⟩⟩⟩
    · refine ⟨?_, ?_, by rw [htg]; exact h8, h12, h13, ⟨List.nodup_nil, nofun, nofun⟩, ?_, ?_, ?_⟩
      · show s.flags.filtered = false; rw [h9]
      · show s.flags.selected = false; rw [h9]
      · intro a _; show s.confirmed a = 0; rw [h11]
      · intro a _; show s.range a = none; rw [h14]
      · show s.bal s.payTok 0 = s.price * sumOver s.confirmed []
        rw [h10]; simp [sumOver]
    · refine ⟨?_, h17, ?_, h16⟩
      · show s.flags.started = false; rw [h9]
      · trivial
    · refine ⟨?_, ?_⟩
      · show GI false s.whitelist s.uts s.blUts s.range s.totalGuaranteed
        have := (GuarInvX_initial s h20 h21 h22 h14 h23).base
        rw [h1, (v1_fam_flags hv).2.2.1] at this
        exact this
      · intro u hu
        have : s.blacklist u = true := hu
        rw [h23] at this; cases this

/-! ### passing of time -/

theorem v1_wait_WF {T0 : Nat} {s : State} {r r' : Nat} (h : v1_WF T0 s r) (hr : r ≤ r') :
    v1_WF T0 s r' :=
  ⟨h.var, h.pricePos, h.tokNe, h.static, h.balOther, fun h1 => h.tlConf (by omega),
    fun h1 => by have := h.tlStarted h1; omega, h.lp, h.phase⟩

end LP
