import LP.Proofs.ZeroAllocG1c
/-
  LP.Proofs.ZeroAllocG1d — zero-size allocations for `Variant.guarV1`, part 4: the un-blacklist
  hook, the body of `unblacklist`, and the distribution step (`distribute`) on the erased state.
-/
namespace LP

/-! ### unblacklist: the v1 hook -/

theorem zg_restoreV1Many (R0 : Nat → Option Range) (B : Nat → Option Batch) (K C : Nat → Bool) :
    ∀ (l : List Nat) {s s' : State} {nw tg nw' tg' : Nat} (U : Nat → Option UTS),
      restoreV1Many l (s, nw, tg) = .ok (s', nw', tg') → s.range = R0 →
      zg_Urel R0 s.uts U → zg_Emp s →
      ∃ U', restoreV1Many (l.filter (fun a => (z_eraseR R0 a).isSome))
            (zg_w s ⟨z_eraseR R0, B, K, C, U⟩, nw, tg)
          = .ok (zg_w s' ⟨z_eraseR R0, B, K, C, U'⟩, nw', tg') ∧
        zg_Urel R0 s'.uts U' ∧ zg_Emp s' ∧ s'.range = s.range ∧ s'.batch = s.batch ∧
        s'.blacklist = s.blacklist ∧ s'.claimed = s.claimed ∧ s'.flags = s.flags ∧
        (∀ a, (U' a).isSome = true → (U a).isSome = true ∨ (z_eraseR R0 a).isSome = true)
  | [], s, s', nw, tg, nw', tg', U, h, _, hU, hE => by
    simp only [restoreV1Many, Except.ok.injEq, Prod.mk.injEq] at h
    obtain ⟨rfl, rfl, rfl⟩ := h
    exact ⟨U, rfl, hU, hE, rfl, rfl, rfl, rfl, rfl, fun _ h => Or.inl h⟩
  | u :: rest, s, s', nw, tg, nw', tg', U, h, hR, hU, hE => by
    rw [restoreV1Many] at h
    simp only at h
    cases hz : z_eraseR R0 u with
    | none =>
      have hskip : ((s.uts u).isSome || (s.range u).isNone) = true := by
        rcases z_eraseR_none hz with h0 | ⟨r, h0, hlt⟩
        · rw [hR, h0]; simp
        · rw [hE u r (by rw [hR]; exact h0) hlt]; rfl
      rw [if_pos hskip] at h
      obtain ⟨U', k⟩ := zg_restoreV1Many R0 B K C rest U h hR hU hE
      refine ⟨U', ?_, k.2⟩
      rw [List.filter_cons_of_neg (by simp [hz])]
      exact k.1
    | some r =>
      rw [List.filter_cons_of_pos (by simp [hz])]
      have hUu : U u = s.uts u := by
        rcases hU u with h0 | ⟨_, h0, _⟩
        · exact h0
        · rw [hz] at h0; cases h0
      have hru : s.range u = some r := by
        have := (z_eraseR_some.mp hz).1
        rw [hR]; exact this
      rw [restoreV1Many]
      simp only
      have e1 : (zg_w s ⟨z_eraseR R0, B, K, C, U⟩).uts u = s.uts u := hUu
      have e2 : (zg_w s ⟨z_eraseR R0, B, K, C, U⟩).range u = some r := hz
      have e3 : (zg_w s ⟨z_eraseR R0, B, K, C, U⟩).whitelist = s.whitelist := rfl
      have e4 : (zg_w s ⟨z_eraseR R0, B, K, C, U⟩).blUts = s.blUts := rfl
      rw [e1, e2, e3, e4]
      rw [hru] at h
      by_cases hc1 : ((s.uts u).isSome || (some r : Option Range).isNone) = true
      · rw [if_pos hc1] at h ⊢
        exact zg_restoreV1Many R0 B K C rest U h hR hU hE
      · rw [if_neg hc1] at h ⊢
        by_cases hc2 : (!(setInsert s.whitelist u).2) = true
        · rw [if_pos hc2] at h ⊢
          exact zg_restoreV1Many R0 B K C rest U h hR hU hE
        · rw [if_neg hc2] at h ⊢
          by_cases hc3 : ((s.blUts u).getD {}).c + ((s.blUts u).getD {}).d > nw
          · rw [if_pos hc3] at h; cases h
          · rw [if_neg hc3] at h ⊢
            obtain ⟨U', k1, k2, k3, k4, k5, k6, k7, k8, k9⟩ :=
              zg_restoreV1Many R0 B K C rest
                (s := { s with whitelist := (setInsert s.whitelist u).1, blUts := upd s.blUts u none,
                               uts := upd s.uts u (some ((s.blUts u).getD {})) })
                (upd U u (some ((s.blUts u).getD {}))) h hR
                (by
                  intro a
                  by_cases hau : a = u
                  · subst hau; left; simp
                  · show upd U u _ a = upd s.uts u _ a ∨ _
                    rw [upd_other _ _ _ _ hau, upd_other _ _ _ _ hau]
                    rcases hU a with h0 | ⟨h0, h0', st0, e1, e2, e3⟩
                    · exact Or.inl h0
                    · right
                      refine ⟨h0, h0', st0, ?_, e2, e3⟩
                      show upd s.uts u _ a = some st0
                      rw [upd_other _ _ _ _ hau]; exact e1)
                (by
                  intro a rg hr hlt
                  show (upd s.uts u _ a).isSome = true
                  by_cases hau : a = u
                  · subst hau; simp
                  · rw [upd_other _ _ _ _ hau]; exact hE a rg hr hlt)
            refine ⟨U', k1, k2, k3, k4, k5, k6, k7, k8, ?_⟩
            intro a ha
            rcases k9 a ha with h0 | h0
            · by_cases hau : a = u
              · subst hau; right; rw [hz]; rfl
              · rw [upd_other _ _ _ _ hau] at h0; exact Or.inl h0
            · exact Or.inr h0

/-- the body of `unblacklist` (guarV1) -/
theorem zg_exec_unblacklist {hash : List Nat → List Nat} {t t' : Tx} {e : Env} {l : List Nat}
    (B : Nat → Option Batch) (K C : Nat → Bool) (U : Nat → Option UTS) (hv : t.s.variant = .guarV1)
    (h : exec hash t e (.unblacklist l) = .ok t')
    (hK : ∀ a, K a = true → t.s.blacklist a = true)
    (hX : ∀ a, (z_eraseR t.s.range a).isSome = true → K a = t.s.blacklist a)
    (hKR : ∀ a, K a = true → (z_eraseR t.s.range a).isSome = true)
    (hU : zg_Urel t.s.range t.s.uts U) (hE : zg_Emp t.s) :
    ∃ K' U', exec hash (zg_wt t ⟨z_eraseR t.s.range, B, K, C, U⟩) e
          (.unblacklist (l.filter (fun a => (z_eraseR t.s.range a).isSome)))
        = .ok (zg_wt t' ⟨z_eraseR t.s.range, B, K', C, U'⟩) ∧
      (∀ a, K' a = true → t'.s.blacklist a = true) ∧
      (∀ a, (z_eraseR t.s.range a).isSome = true → K' a = t'.s.blacklist a) ∧
      zg_Urel t.s.range t'.s.uts U' ∧ zg_Emp t'.s ∧
      (∀ a, (U' a).isSome = true → (U a).isSome = true ∨ (z_eraseR t.s.range a).isSome = true) ∧
      t'.s.range = t.s.range ∧ t'.s.batch = t.s.batch ∧ t'.s.claimed = t.s.claimed ∧
      t'.s.flags = t.s.flags := by
  obtain ⟨_, f2, f3, f4, _⟩ := g1_flags hv
  simp only [exec, bind_ok_iff] at h
  obtain ⟨s1, h1, h⟩ := h
  have hvar : s1.variant = t.s.variant := congrArg Terms.variant (removeUsersFromBlacklist_terms h1)
  simp only [hvar, f3, Bool.false_eq_true, if_false, bind_ok_iff, pure_ok_iff] at h
  obtain ⟨s2, hrs, rfl⟩ := h
  unfold removeUsersFromBlacklist at h1
  simp only [bind_ok_iff, req_ok_iff, exists_const] at h1
  obtain ⟨p1, p1', p2, p3⟩ := h1
  obtain ⟨K', k1, k2, k3, k4, k5, k6, k7, k8, k9⟩ :=
    zg_unblacklistMany (z_eraseR t.s.range) B C U l K p3 hK hX hKR
  unfold restoreGuaranteedV1 at hrs
  simp only [bind_ok_iff, pure_ok_iff, Prod.exists] at hrs
  obtain ⟨s3, nw, tg, hrm, rfl⟩ := hrs
  obtain ⟨U', c1, c2, c3, c4, c5, c6, c7, c8, c9⟩ :=
    zg_restoreV1Many t.s.range B K' C l U hrm k4 (by rw [k5]; exact hU)
      (by
        intro a rg hr hlt
        rw [k5]; rw [k4] at hr; exact hE a rg hr hlt)
  refine ⟨K', U', ?_, ?_, ?_, c2, ?_, c9, ?_, ?_, ?_, ?_⟩
  · have hz : removeUsersFromBlacklist (zg_wt t ⟨z_eraseR t.s.range, B, K, C, U⟩).s e
        (l.filter (fun a => (z_eraseR t.s.range a).isSome))
        = .ok (zg_w s1 ⟨z_eraseR t.s.range, B, K', C, U⟩) := by
      unfold removeUsersFromBlacklist
      simp only [bind_ok_iff, req_ok_iff, exists_const]
      exact ⟨p1, p1', p2, k1⟩
    have hcz : restoreGuaranteedV1 (zg_w s1 ⟨z_eraseR t.s.range, B, K', C, U⟩)
        (l.filter (fun a => (z_eraseR t.s.range a).isSome))
        = .ok (zg_w { s3 with nrWinning := nw, totalGuaranteed := tg }
                ⟨z_eraseR t.s.range, B, K', C, U'⟩) := by
      unfold restoreGuaranteedV1
      simp only [bind_ok_iff, pure_ok_iff, Prod.exists]
      exact ⟨_, _, _, c1, rfl⟩
    have hvz : (zg_w s1 ⟨z_eraseR t.s.range, B, K', C, U⟩).variant = t.s.variant := hvar
    simp only [exec, hz, bind, Except.bind, hvz, f3, Bool.false_eq_true, if_false, pure, Except.pure, hcz]
    rfl
  · intro a ha
    show s3.blacklist a = true
    rw [c6]; exact k2 a ha
  · intro a ha
    show K' a = s3.blacklist a
    rw [c6]; exact k3 a ha
  · exact c3
  · show s3.range = t.s.range
    rw [c4, k4]
  · show s3.batch = t.s.batch
    rw [c5, k7]
  · show s3.claimed = t.s.claimed
    rw [c7, k8]
  · show s3.flags = t.s.flags
    rw [c8, k9]

end LP
