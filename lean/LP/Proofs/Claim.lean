import LP.Proofs.StepLemmas
import LP.Proofs.Vesting
import LP.Proofs.Locked
/-
  LP.Proofs.Claim — the settlement part of a claim (`clearRange`, `settle`) and the
  non-vested claim path of `exec … .claim`.
-/
namespace LP

/-! ### `clearRange`, `countWinning`, `winningIds` -/

theorem clearRange_zero (status : Nat → Bool) (posToId : Nat → Nat) (first : Nat) :
    clearRange status posToId first 0 = (status, posToId, 0) := rfl

theorem clearRange_succ (status : Nat → Bool) (posToId : Nat → Nat) (first k : Nat) :
    clearRange status posToId first (k+1) =
      (upd (clearRange status posToId first k).1 (first + k) false,
       upd (clearRange status posToId first k).2.1 (first + k) 0,
       if (clearRange status posToId first k).1 (first + k)
         then (clearRange status posToId first k).2.2 + 1
         else (clearRange status posToId first k).2.2) := rfl

/-- the winning flags after the loop: cleared inside the range, untouched outside -/
theorem clearRange_status (status : Nat → Bool) (posToId : Nat → Nat) (first len t : Nat) :
    (clearRange status posToId first len).1 t =
      if first ≤ t ∧ t < first + len then false else status t := by
  induction len with
  | zero =>
    rw [clearRange_zero]
    have : ¬ (first ≤ t ∧ t < first + 0) := by omega
    rw [if_neg this]
  | succ k ih =>
    rw [clearRange_succ]
    simp only [upd_apply, ih]
    by_cases h1 : t = first + k
    · have : first ≤ t ∧ t < first + (k + 1) := by omega
      simp [h1]
    · by_cases h2 : first ≤ t ∧ t < first + k
      · have : first ≤ t ∧ t < first + (k + 1) := by omega
        simp [h1, h2, this]
      · have : ¬ (first ≤ t ∧ t < first + (k + 1)) := by omega
        simp [h1, h2, this]

/-- the position map after the loop: zeroed inside the range, untouched outside -/
theorem clearRange_pos (status : Nat → Bool) (posToId : Nat → Nat) (first len t : Nat) :
    (clearRange status posToId first len).2.1 t =
      if first ≤ t ∧ t < first + len then 0 else posToId t := by
  induction len with
  | zero =>
    rw [clearRange_zero]
    have : ¬ (first ≤ t ∧ t < first + 0) := by omega
    rw [if_neg this]
  | succ k ih =>
    rw [clearRange_succ]
    simp only [upd_apply, ih]
    by_cases h1 : t = first + k
    · have : first ≤ t ∧ t < first + (k + 1) := by omega
      simp [h1]
    · by_cases h2 : first ≤ t ∧ t < first + k
      · have : first ≤ t ∧ t < first + (k + 1) := by omega
        simp [h1, h2, this]
      · have : ¬ (first ≤ t ∧ t < first + (k + 1)) := by omega
        simp [h1, h2, this]

/-- the counter returned by the loop is the number of winning flags in the range -/
theorem clearRange_count (status : Nat → Bool) (posToId : Nat → Nat) (first len : Nat) :
    (clearRange status posToId first len).2.2 = countWinning status first len := by
  induction len with
  | zero => rfl
  | succ k ih =>
    rw [clearRange_succ]
    simp only [countWinning, ih, clearRange_status]
    have : ¬ (first ≤ first + k ∧ first + k < first + k) := by omega
    simp only [this, if_false]
    split <;> rfl

/-- `countWinning` is the length of the list the view returns -/
theorem countWinning_eq_length (status : Nat → Bool) (first len : Nat) :
    countWinning status first len = (winningIds status first len).length := by
  induction len with
  | zero => rfl
  | succ k ih =>
    simp only [countWinning, winningIds, List.length_append, ih]
    split <;> rfl

theorem g_countWinning_le (status : Nat → Bool) (first len : Nat) :
    countWinning status first len ≤ len := by
  induction len with
  | zero => exact Nat.le_refl 0
  | succ k ih =>
    simp only [countWinning]
    split <;> omega

/-- membership in the view's list -/
theorem mem_winningIds (status : Nat → Bool) (first len t : Nat) :
    t ∈ winningIds status first len ↔ first ≤ t ∧ t < first + len ∧ status t = true := by
  induction len with
  | zero =>
    simp only [winningIds, List.not_mem_nil, false_iff]
    omega
  | succ k ih =>
    simp only [winningIds, List.mem_append, ih]
    cases hs : status (first + k)
    · simp only [Bool.false_eq_true, if_false, List.not_mem_nil, or_false]
      constructor
      · rintro ⟨a, b, c⟩
        exact ⟨a, by omega, c⟩
      · rintro ⟨a, b, c⟩
        have : t ≠ first + k := by
          intro h; subst h; rw [hs] at c; cases c
        exact ⟨a, by omega, c⟩
    · simp only [if_true, List.mem_singleton]
      constructor
      · rintro (⟨a, b, c⟩ | rfl)
        · exact ⟨a, by omega, c⟩
        · exact ⟨by omega, by omega, hs⟩
      · rintro ⟨a, b, c⟩
        by_cases h : t = first + k
        · exact Or.inr h
        · exact Or.inl ⟨a, by omega, c⟩

/-- everything `clearRange` computes, in one statement -/
theorem clearRange_spec (status : Nat → Bool) (posToId : Nat → Nat) (first len : Nat)
    (st' : Nat → Bool) (p' : Nat → Nat) (c : Nat)
    (h : clearRange status posToId first len = (st', p', c)) :
    c = countWinning status first len ∧
    c = (winningIds status first len).length ∧
    (∀ t, first ≤ t → t < first + len → st' t = false ∧ p' t = 0) ∧
    (∀ t, ¬ (first ≤ t ∧ t < first + len) → st' t = status t ∧ p' t = posToId t) := by
  have h1 := clearRange_count status posToId first len
  have h2 := clearRange_status status posToId first len
  have h3 := clearRange_pos status posToId first len
  rw [h] at h1 h2 h3
  simp only at h1 h2 h3
  refine ⟨h1, by rw [h1, countWinning_eq_length], ?_, ?_⟩
  · intro t a b
    have : first ≤ t ∧ t < first + len := ⟨a, b⟩
    simp [h2, h3, this]
  · intro t hn
    simp [h2, h3, hn]

/-! ### stage facts -/

theorem stageOf_claim_flags {round : Nat} {c : Cfg} {f : Flags} (h : stageOf round c f = .claim) :
    f.selected = true ∧ f.additional = true ∧ c.claim ≤ round := by
  unfold stageOf at h
  split at h
  · cases h
  · split at h
    · cases h
    · split at h
      · cases h
      · split at h
        · cases h
        · rename_i h3 h4
          simp at h3
          exact ⟨h3.1, h3.2, by omega⟩

theorem stage_claim_selected {s : State} {e : Env} (h : s.stage e = .claim) :
    s.flags.selected = true := (stageOf_claim_flags h).1

/-! ### `settle` -/

/-- the state after a settlement of range `r` -/
def settledState (s : State) (a : Nat) (r : Range) : State :=
  { s with status := (clearRange s.status s.posToId r.first (rangeLen r)).1,
           posToId := (clearRange s.status s.posToId r.first (rangeLen r)).2.1,
           confirmed := upd s.confirmed a 0,
           range := upd s.range a none,
           batch := upd s.batch r.first none,
           nrWinning := s.nrWinning - countWinning s.status r.first (rangeLen r),
           claimed := upd s.claimed a true }

theorem csub_ok_iff (a b : Nat) (site : String) (c : Nat) :
    csub a b site = .ok c ↔ b ≤ a ∧ c = a - b := by
  unfold csub
  by_cases h : b ≤ a
  · simp only [h, if_true, Except.ok.injEq, true_and]
    exact eq_comm
  · simp only [h, if_false, false_and]
    exact ⟨fun h => (by cases h), False.elim⟩

/-- the arithmetic part of `settle`, on projections -/
def settleCore (s : State) (a : Nat) (r : Range) : Res (State × Nat × Nat) :=
  let cr := clearRange s.status s.posToId r.first (rangeLen r)
  let jp : Nat → Res (State × Nat × Nat) := fun nrWinning =>
    csub (s.confirmed a) cr.2.2 "user_interactions.rs:98 confirmed - redeemable" >>= fun refund =>
    pure ({ s with status := cr.1, posToId := cr.2.1,
                   confirmed := upd s.confirmed a 0,
                   range := upd s.range a none,
                   batch := upd s.batch r.first none,
                   nrWinning := nrWinning,
                   claimed := upd s.claimed a true }, cr.2.2, refund)
  if cr.2.2 > 0 then
    csub s.nrWinning cr.2.2 "user_interactions.rs:93 nr_winning -= redeemable" >>= jp
  else jp s.nrWinning

theorem settle_eq (s : State) (e : Env) :
    settle s e =
      (requireStage s e .claim "Not in claim period" >>= fun _ =>
       req (!s.claimed e.caller) "Already claimed" >>= fun _ =>
       match s.range e.caller with
       | none => .error (.user "You have no tickets")
       | some r => settleCore s e.caller r) := by
  unfold settle settleCore
  rfl

theorem settleCore_ok_iff (s : State) (a : Nat) (r : Range) (s' : State) (redeem refund : Nat) :
    settleCore s a r = .ok (s', redeem, refund) ↔
        redeem = countWinning s.status r.first (rangeLen r) ∧
        redeem ≤ s.nrWinning ∧ redeem ≤ s.confirmed a ∧
        refund = s.confirmed a - redeem ∧
        s' = settledState s a r := by
  unfold settleCore settledState
  simp only [clearRange_count]
  generalize countWinning s.status r.first (rangeLen r) = c
  by_cases hc : c > 0
  · simp only [hc, if_true, bind_ok_iff, pure_ok_iff, csub_ok_iff, Prod.mk.injEq]
    constructor
    · rintro ⟨nw, ⟨hnw, hnweq⟩, rf, ⟨hle, hrf⟩, hs', hrd, hrf'⟩
      subst hrd hrf' hnweq
      exact ⟨rfl, hnw, hle, hrf, hs'.symm⟩
    · rintro ⟨hrd, hnw, hle, hrf, hs'⟩
      subst hrd
      exact ⟨_, ⟨hnw, rfl⟩, refund, ⟨hle, hrf⟩, hs'.symm, rfl, rfl⟩
  · have h0 : c = 0 := by omega
    subst h0
    simp only [Nat.lt_irrefl, if_false, bind_ok_iff, pure_ok_iff, csub_ok_iff, Prod.mk.injEq,
      Nat.sub_zero, Nat.zero_le, true_and]
    constructor
    · rintro ⟨rf, hrf, hs', hrd, hrf'⟩
      subst hrd hrf'
      exact ⟨rfl, Nat.zero_le _, Nat.zero_le _, hrf, hs'.symm⟩
    · rintro ⟨hrd, hnw, hle, hrf, hs'⟩
      subst hrd
      exact ⟨refund, hrf, hs'.symm, rfl, rfl⟩

/-- exact characterisation of an accepted settlement -/
theorem settle_ok_iff (s : State) (e : Env) (s' : State) (redeem refund : Nat) :
    settle s e = .ok (s', redeem, refund) ↔
      s.stage e = .claim ∧ s.claimed e.caller = false ∧
      ∃ r, s.range e.caller = some r ∧
        redeem = countWinning s.status r.first (rangeLen r) ∧
        redeem ≤ s.nrWinning ∧ redeem ≤ s.confirmed e.caller ∧
        refund = s.confirmed e.caller - redeem ∧
        s' = settledState s e.caller r := by
  rw [settle_eq]
  simp only [bind_ok_iff, req_ok_iff, requireStage, exists_const, beq_iff_eq,
    Bool.not_eq_true']
  constructor
  · rintro ⟨hst, hcl, h⟩
    refine ⟨hst, hcl, ?_⟩
    split at h
    · cases h
    · rename_i r hr
      exact ⟨r, hr, (settleCore_ok_iff s e.caller r s' redeem refund).mp h⟩
  · rintro ⟨hst, hcl, r, hr, h⟩
    refine ⟨hst, hcl, ?_⟩
    rw [hr]
    exact (settleCore_ok_iff s e.caller r s' redeem refund).mpr h

/-! ### sends -/

/-- the complete effect of a successful `Tx.send` -/
def sendResult (t : Tx) (to : Nat) (p : Pay) : Tx :=
  { t with s := { t.s with bal := t.s.bal.sub p.tok p.nonce p.amount },
           o := { t.o with xfers := t.o.xfers ++ [(to, p)] } }

theorem send_ok_iff (t : Tx) (to : Nat) (p : Pay) (t' : Tx) :
    t.send to p = .ok t' ↔ p.amount ≤ t.s.bal p.tok p.nonce ∧ t' = sendResult t to p := by
  unfold Tx.send sendResult
  by_cases h : t.s.bal p.tok p.nonce < p.amount
  · simp only [h, if_true]
    constructor
    · intro h'; cases h'
    · rintro ⟨h', _⟩; omega
  · simp only [h, if_false, Except.ok.injEq]
    constructor
    · intro h'; exact ⟨by omega, h'.symm⟩
    · rintro ⟨_, h'⟩; exact h'.symm

theorem send_error (t : Tx) (to : Nat) (p : Pay) (h : t.s.bal p.tok p.nonce < p.amount) :
    t.send to p = .error (.vm "insufficient funds") := by
  unfold Tx.send
  simp [h]

/-- the `refundTicketPayment` event -/
def refundEvent (s : State) (e : Env) (n : Nat) : Ev :=
  ⟨"refundTicketPayment", [e.caller, e.round, e.epoch],
    [e.caller, e.round, e.epoch, n, s.payTok.code, 0, s.price * n]⟩

/-- the complete effect of a successful `Tx.refund` of `n` tickets -/
def refundResult (t : Tx) (e : Env) (addr n : Nat) : Tx :=
  if n = 0 then t else
    { t with s := { t.s with bal := t.s.bal.sub t.s.payTok 0 (t.s.price * n) },
             o := { t.o with xfers := t.o.xfers ++ [(addr, ⟨t.s.payTok, 0, t.s.price * n⟩)],
                             events := t.o.events ++ [refundEvent t.s e n] } }

theorem refund_ok_iff (t : Tx) (e : Env) (addr n : Nat) (t' : Tx) :
    t.refund e addr n = .ok t' ↔
      t.s.price * n ≤ t.s.bal t.s.payTok 0 ∧ t' = refundResult t e addr n := by
  unfold Tx.refund refundResult
  by_cases h : n = 0
  · subst h
    simp only [if_true, Except.ok.injEq, Nat.mul_zero, Nat.zero_le, true_and]
    exact eq_comm
  · simp only [h, if_false, bind_ok_iff, pure_ok_iff, send_ok_iff]
    constructor
    · rintro ⟨t1, ⟨hle, rfl⟩, rfl⟩
      exact ⟨hle, rfl⟩
    · rintro ⟨hle, rfl⟩
      exact ⟨_, ⟨hle, rfl⟩, rfl⟩

theorem refundResult_variant (t : Tx) (e : Env) (addr n : Nat) :
    (refundResult t e addr n).s.variant = t.s.variant := by
  unfold refundResult; split <;> rfl

theorem refundResult_xfers (t : Tx) (e : Env) (addr n : Nat) :
    (refundResult t e addr n).o.xfers =
      t.o.xfers ++ (if n = 0 then [] else [(addr, ⟨t.s.payTok, 0, t.s.price * n⟩)]) := by
  unfold refundResult; split <;> simp

theorem refundResult_bal (t : Tx) (e : Env) (addr n : Nat) :
    (refundResult t e addr n).s.bal = t.s.bal.sub t.s.payTok 0 (t.s.price * n) := by
  unfold refundResult
  split
  · rename_i h; subst h; simp [Bal.sub_zero]
  · rfl

/-- `refund` changes only the balance of the state -/
theorem refundResult_state (t : Tx) (e : Env) (addr n : Nat) :
    (refundResult t e addr n).s = { t.s with bal := t.s.bal.sub t.s.payTok 0 (t.s.price * n) } := by
  unfold refundResult
  split
  · rename_i h; subst h; simp [Bal.sub_zero]
  · rfl

/-- the effect of `sendLaunchpadTokens` without a lock: one direct transfer (none for `n = 0`) -/
def sendTokensResult (t : Tx) (addr n : Nat) : Tx :=
  if n = 0 then t else sendResult t addr ⟨.esdt t.s.lpTok, 0, n * t.s.perTicket⟩

theorem sendLaunchpadTokens_nolock_ok_iff (t : Tx) (e : Env) (addr n : Nat) (t' : Tx)
    (hl : t.s.variant.hasLock = false) :
    t.sendLaunchpadTokens e addr n = .ok t' ↔
      n * t.s.perTicket ≤ t.s.bal (.esdt t.s.lpTok) 0 ∧ t' = sendTokensResult t addr n := by
  unfold Tx.sendLaunchpadTokens sendTokensResult
  by_cases h : n = 0
  · subst h
    simp only [if_true, Except.ok.injEq, Nat.zero_mul, Nat.zero_le, true_and]
    exact eq_comm
  · simp only [h, if_false, hl, Bool.false_eq_true, send_ok_iff]

theorem sendTokensResult_xfers (t : Tx) (addr n : Nat) :
    (sendTokensResult t addr n).o.xfers =
      t.o.xfers ++ (if n = 0 then [] else [(addr, ⟨.esdt t.s.lpTok, 0, n * t.s.perTicket⟩)]) := by
  unfold sendTokensResult sendResult; split <;> simp

theorem sendTokensResult_state (t : Tx) (addr n : Nat) :
    (sendTokensResult t addr n).s =
      { t.s with bal := t.s.bal.sub (.esdt t.s.lpTok) 0 (n * t.s.perTicket) } := by
  unfold sendTokensResult sendResult
  split
  · rename_i h; subst h; simp [Bal.sub_zero]
  · rfl

/-- the effect of `sendLaunchpadTokens` with a lock -/
def sendTokensLockedResult (t : Tx) (e : Env) (addr n : Nat) : Tx :=
  if n = 0 then t else sendLockedResult t e addr (n * t.s.perTicket)

theorem sendLaunchpadTokens_lock_ok_iff (t : Tx) (e : Env) (addr n : Nat) (t' : Tx)
    (hl : t.s.variant.hasLock = true) (hp : t.s.lockPct ≤ 10000) :
    t.sendLaunchpadTokens e addr n = .ok t' ↔
      n * t.s.perTicket ≤ t.s.bal (.esdt t.s.lpTok) 0 ∧ t' = sendTokensLockedResult t e addr n := by
  unfold Tx.sendLaunchpadTokens sendTokensLockedResult
  by_cases h : n = 0
  · subst h
    simp only [if_true, Except.ok.injEq, Nat.zero_mul, Nat.zero_le, true_and]
    exact eq_comm
  · simp only [h, if_false, hl, if_true]
    by_cases hb : n * t.s.perTicket ≤ t.s.bal (.esdt t.s.lpTok) 0
    · rw [sendLocked_ok t e addr _ (fun _ => hp) hb]
      simp only [Except.ok.injEq, hb, true_and]
      exact eq_comm
    · rw [sendLocked_err t e addr _ (fun _ => hp) (by omega)]
      simp only [hb, false_and]
      exact ⟨fun h => (by cases h), False.elim⟩

theorem sendTokensLockedResult_state (t : Tx) (e : Env) (addr n : Nat) :
    (sendTokensLockedResult t e addr n).s =
      { t.s with bal := t.s.bal.sub (.esdt t.s.lpTok) 0 (n * t.s.perTicket) } := by
  unfold sendTokensLockedResult sendLockedResult
  split
  · rename_i h; subst h; simp [Bal.sub_zero]
  · rfl

/-! ### the non-vested claim path -/

/-- the `claim` endpoint of the variants without vesting -/
def claimBase (t : Tx) (e : Env) : Res Tx :=
  settle t.s e >>= fun x =>
  (t.setS x.1).refund e e.caller x.2.2 >>= fun t1 =>
  t1.sendLaunchpadTokens e e.caller x.2.1 >>= fun t2 =>
  if t2.s.variant.hasNft then claimNft t2 e else pure t2

theorem exec_claim_nonvested (hash : List Nat → List Nat) (t : Tx) (e : Env)
    (hv : t.s.variant.vested = false) : exec hash t e .claim = claimBase t e := by
  unfold exec claimBase
  simp only [hv, Bool.false_eq_true, if_false]

theorem exec_claim_vested (hash : List Nat → List Nat) (t : Tx) (e : Env)
    (hv : t.s.variant.vested = true) : exec hash t e .claim = claimVested t e := by
  unfold exec
  simp only [hv, if_true]

/-- winning tickets of `a` as the claim counts them -/
def winCount (s : State) (a : Nat) : Nat :=
  match s.range a with
  | none => 0
  | some r => countWinning s.status r.first (rangeLen r)

theorem winCount_eq_view (s : State) (a : Nat) (h : s.flags.selected = true) :
    winCount s a = (viewWinningIds s a).length := by
  unfold winCount viewWinningIds
  simp only [h, Bool.not_true, Bool.false_eq_true, if_false]
  cases s.range a with
  | none => rfl
  | some r => exact countWinning_eq_length _ _ _

/-- the transaction record after the settle and refund parts of a claim -/
def claimMid (t : Tx) (e : Env) (r : Range) : Tx :=
  refundResult (t.setS (settledState t.s e.caller r)) e e.caller
    (t.s.confirmed e.caller - countWinning t.s.status r.first (rangeLen r))

/-- conditions for the settle and refund parts -/
def ClaimPre (t : Tx) (e : Env) (r : Range) : Prop :=
  t.s.stage e = .claim ∧ t.s.claimed e.caller = false ∧ t.s.range e.caller = some r ∧
  countWinning t.s.status r.first (rangeLen r) ≤ t.s.nrWinning ∧
  countWinning t.s.status r.first (rangeLen r) ≤ t.s.confirmed e.caller ∧
  t.s.price * (t.s.confirmed e.caller - countWinning t.s.status r.first (rangeLen r))
    ≤ t.s.bal t.s.payTok 0

/-- inversion of the non-vested claim: settle, refund, token delivery, NFT hook -/
theorem claimBase_ok_iff (t : Tx) (e : Env) (t' : Tx) :
    claimBase t e = .ok t' ↔
      ∃ r, ClaimPre t e r ∧
        ∃ t2, (claimMid t e r).sendLaunchpadTokens e e.caller
                (countWinning t.s.status r.first (rangeLen r)) = .ok t2 ∧
          (if t2.s.variant.hasNft then claimNft t2 e else pure t2) = .ok t' := by
  unfold claimBase ClaimPre claimMid
  simp only [bind_ok_iff, Prod.exists, settle_ok_iff, refund_ok_iff]
  constructor
  · rintro ⟨s1, rd, rf, ⟨hst, hcl, r, hr, hrd, hnw, hle, hrf, hs1⟩, t1, ⟨hb, ht1⟩, t2, h2, h3⟩
    subst hrd hrf hs1 ht1
    exact ⟨r, ⟨hst, hcl, hr, hnw, hle, hb⟩, t2, h2, h3⟩
  · rintro ⟨r, ⟨hst, hcl, hr, hnw, hle, hb⟩, t2, h2, h3⟩
    exact ⟨_, _, _, ⟨hst, hcl, r, hr, rfl, hnw, hle, rfl, rfl⟩, _, ⟨hb, rfl⟩, t2, h2, h3⟩

theorem claimMid_state (t : Tx) (e : Env) (r : Range) :
    (claimMid t e r).s =
      { settledState t.s e.caller r with
        bal := t.s.bal.sub t.s.payTok 0
          (t.s.price * (t.s.confirmed e.caller - countWinning t.s.status r.first (rangeLen r))) } := by
  unfold claimMid
  rw [refundResult_state]
  rfl

theorem claimMid_xfers (t : Tx) (e : Env) (r : Range) :
    (claimMid t e r).o.xfers = t.o.xfers ++
      (if t.s.confirmed e.caller - countWinning t.s.status r.first (rangeLen r) = 0 then []
       else [(e.caller, ⟨t.s.payTok, 0,
          t.s.price * (t.s.confirmed e.caller - countWinning t.s.status r.first (rangeLen r))⟩)]) := by
  unfold claimMid
  rw [refundResult_xfers]
  rfl

end LP
