import LP.Proofs.ZeroAlloc1
import LP.Props.C07
import LP.Props.C18
/-
  LP.Proofs.ZeroAlloc2 — zero-size allocations, part 2: the erasure of empty ranges and zero-size
  batches, the simulation relation `ZSim`, and the simulation of `addTickets`, `confirm`,
  `blacklist`, `claim` (the endpoints that read or write the allocation maps; `filter` is in
  part 3).
-/
namespace LP

/-! ### erasure -/

/-- drop the empty ranges `[f, f-1]` -/
def z_eraseR (f : Nat → Option Range) : Nat → Option Range := fun a =>
  match f a with
  | some r => if r.first ≤ r.last then some r else none
  | none => none

/-- drop the zero-size batches -/
def z_eraseB (f : Nat → Option Batch) : Nat → Option Batch := fun i =>
  match f i with
  | some b => if b.n = 0 then none else some b
  | none => none

theorem z_eraseR_some {f : Nat → Option Range} {a : Nat} {r : Range} :
    z_eraseR f a = some r ↔ f a = some r ∧ r.first ≤ r.last := by
  unfold z_eraseR
  cases h : f a with
  | none => simp
  | some r' =>
    by_cases hr : r'.first ≤ r'.last
    · simp only [hr, if_true, Option.some.injEq]
      constructor
      · rintro rfl; exact ⟨rfl, hr⟩
      · rintro ⟨h1, _⟩; exact h1
    · simp only [hr, if_false, Option.some.injEq, reduceCtorEq, false_iff, not_and]
      rintro rfl; exact hr

theorem z_eraseR_of_ne {f : Nat → Option Range} {a : Nat} {r : Range} (h : f a = some r)
    (hr : r.first ≤ r.last) : z_eraseR f a = some r := z_eraseR_some.mpr ⟨h, hr⟩

theorem z_eraseR_of_empty {f : Nat → Option Range} {a : Nat} {r : Range} (h : f a = some r)
    (hr : ¬ r.first ≤ r.last) : z_eraseR f a = none := by
  unfold z_eraseR; rw [h]; simp [hr]

theorem z_eraseR_of_none {f : Nat → Option Range} {a : Nat} (h : f a = none) : z_eraseR f a = none := by
  unfold z_eraseR; rw [h]

theorem z_eraseR_none {f : Nat → Option Range} {a : Nat} (h : z_eraseR f a = none) :
    f a = none ∨ ∃ r, f a = some r ∧ r.last < r.first := by
  cases hf : f a with
  | none => exact Or.inl rfl
  | some r =>
    right
    refine ⟨r, rfl, ?_⟩
    apply Classical.byContradiction
    intro hlt
    have := z_eraseR_of_ne hf (by omega)
    rw [h] at this; cases this

theorem z_eraseR_upd_ne (f : Nat → Option Range) (a : Nat) (r : Range) (hr : r.first ≤ r.last) :
    z_eraseR (upd f a (some r)) = upd (z_eraseR f) a (some r) := by
  funext x
  by_cases hx : x = a
  · subst hx; simp [z_eraseR, upd, hr]
  · simp [z_eraseR, upd, hx]

theorem z_eraseR_upd_none (f : Nat → Option Range) (a : Nat) :
    z_eraseR (upd f a none) = upd (z_eraseR f) a none := by
  funext x
  by_cases hx : x = a
  · subst hx; simp [z_eraseR, upd]
  · simp [z_eraseR, upd, hx]

theorem z_eraseR_upd_empty (f : Nat → Option Range) (a : Nat) (r : Range) (hr : ¬ r.first ≤ r.last) :
    z_eraseR (upd f a (some r)) = upd (z_eraseR f) a none := by
  funext x
  by_cases hx : x = a
  · subst hx; simp [z_eraseR, upd, hr]
  · simp [z_eraseR, upd, hx]

theorem z_upd_none_self {α : Type} (f : Nat → Option α) (a : Nat) (h : f a = none) : upd f a none = f := by
  funext x
  by_cases hx : x = a
  · subst hx; simp [upd, h]
  · simp [upd, hx]

theorem z_eraseB_some {f : Nat → Option Batch} {i : Nat} {b : Batch} :
    z_eraseB f i = some b ↔ f i = some b ∧ b.n ≠ 0 := by
  unfold z_eraseB
  cases h : f i with
  | none => simp
  | some b' =>
    by_cases hb : b'.n = 0
    · simp only [hb, if_true, reduceCtorEq, Option.some.injEq, false_iff, not_and, Decidable.not_not]
      rintro rfl; exact hb
    · simp only [hb, if_false, Option.some.injEq]
      constructor
      · rintro rfl; exact ⟨rfl, hb⟩
      · rintro ⟨h1, _⟩; exact h1

theorem z_eraseB_upd_pos (f : Nat → Option Batch) (i : Nat) (b : Batch) (hb : b.n ≠ 0) :
    z_eraseB (upd f i (some b)) = upd (z_eraseB f) i (some b) := by
  funext x
  by_cases hx : x = i
  · subst hx; simp [z_eraseB, upd, hb]
  · simp [z_eraseB, upd, hx]

theorem z_eraseB_upd_none (f : Nat → Option Batch) (i : Nat) :
    z_eraseB (upd f i none) = upd (z_eraseB f) i none := by
  funext x
  by_cases hx : x = i
  · subst hx; simp [z_eraseB, upd]
  · simp [z_eraseB, upd, hx]

theorem z_eraseB_upd_zero (f : Nat → Option Batch) (i : Nat) (b : Batch) (hb : b.n = 0) :
    z_eraseB (upd f i (some b)) = upd (z_eraseB f) i none := by
  funext x
  by_cases hx : x = i
  · subst hx; simp [z_eraseB, upd, hb]
  · simp [z_eraseB, upd, hx]

/-! ### the simulation relation -/

/-- `z` is the state `s` with the empty ranges and (until the filter has completed) the zero-size
    batches removed; the two address flags of `z` are below those of `s` (an address with an empty
    range may be blacklisted and may "claim" in `s`; `z` does not see it).  Every other field is
    the same. -/
structure ZSim (s z : State) : Prop where
  rest : z = z_w s z.range z.batch z.blacklist z.claimed
  range : z.range = z_eraseR s.range
  batch : s.flags.filtered = false → z.batch = z_eraseB s.batch
  bl : ∀ a, z.blacklist a = true → s.blacklist a = true
  cl : ∀ a, z.claimed a = true → s.claimed a = true

theorem ZSim.refl_of_clean {s : State} (hR : z_eraseR s.range = s.range)
    (hB : z_eraseB s.batch = s.batch) : ZSim s s :=
  ⟨rfl, hR.symm, fun _ => hB.symm, fun _ h => h, fun _ h => h⟩

theorem ZSim.mk' (s : State) (R : Nat → Option Range) (B : Nat → Option Batch) (K C : Nat → Bool)
    (hR : R = z_eraseR s.range) (hB : s.flags.filtered = false → B = z_eraseB s.batch)
    (hK : ∀ a, K a = true → s.blacklist a = true) (hC : ∀ a, C a = true → s.claimed a = true) :
    ZSim s (z_w s R B K C) := ⟨rfl, hR, hB, hK, hC⟩

theorem ZSim.eq {s z : State} (h : ZSim s z) :
    z = z_w s (z_eraseR s.range) z.batch z.blacklist z.claimed := by
  have := h.rest
  rw [h.range] at this
  exact this

/-- the zero-size batch left by the last allocation dangles above `lastTicketId` -/
def z_Hd (s : State) : Prop := ∀ i b, s.lastTicketId < i → s.batch i = some b → b.n = 0

/-! ### building `step` from the body -/

theorem z_step_intro {hash : List Nat → List Nat} {s : State} {e : Env} {c : Call} {m : Meta} {t : Tx}
    (hm : endpointMeta s.variant c = some m)
    (hpay : m.payable = true ∨ (e.egld = 0 ∧ e.esdts = []))
    (hown : m.ownerOnly = true → e.caller = s.owner)
    (hx : exec hash (tx0 s e) e c = .ok t) : step hash s e c = .ok (t.s, t.o) := by
  unfold step
  simp only [hm]
  have h1 : ¬ ((!m.payable && (decide (e.egld > 0) || !e.esdts.isEmpty)) = true) := by
    rcases hpay with hp | ⟨h1, h2⟩
    · simp [hp]
    · simp [h1, h2]
  have h2 : ¬ ((m.ownerOnly && e.caller != s.owner) = true) := by
    cases ho : m.ownerOnly
    · simp
    · simp [hown ho]
  rw [if_neg h1, if_neg h2]
  unfold tx0 at hx
  rw [hx]

/-! ### addTickets -/

open LP.Props.C18 in
theorem z_tryCreate_frame {s s' : State} {a n : Nat} (h : tryCreateTickets s a n = .ok s') :
    s'.blacklist = s.blacklist ∧ s'.claimed = s.claimed ∧ s'.flags = s.flags := by
  rw [tryCreateTickets_ok_iff] at h
  obtain ⟨_, _, rfl⟩ := h
  exact ⟨rfl, rfl, rfl⟩

open LP.Props.C18 in
/-- an allocation of at least one ticket is matched by the same allocation on the erased state -/
theorem z_tryCreate_pos {s s' : State} {a n : Nat} (K C : Nat → Bool) (hn : 1 ≤ n)
    (h : tryCreateTickets s a n = .ok s') (hd : z_Hd s) :
    tryCreateTickets (z_w s (z_eraseR s.range) (z_eraseB s.batch) K C) a n
      = .ok (z_w s' (z_eraseR s'.range) (z_eraseB s'.batch) K C) ∧ z_Hd s' := by
  rw [tryCreateTickets_ok_iff] at h
  obtain ⟨h1, h2, rfl⟩ := h
  constructor
  · rw [tryCreateTickets_ok_iff]
    refine ⟨z_eraseR_of_none h1, h2, ?_⟩
    have e1 : z_eraseR (upd s.range a (some ⟨s.lastTicketId + 1, s.lastTicketId + 1 + n - 1⟩))
        = upd (z_eraseR s.range) a (some ⟨s.lastTicketId + 1, s.lastTicketId + 1 + n - 1⟩) :=
      z_eraseR_upd_ne _ _ _ (by show s.lastTicketId + 1 ≤ s.lastTicketId + 1 + n - 1; omega)
    have e2 : z_eraseB (upd s.batch (s.lastTicketId + 1) (some ⟨a, n⟩))
        = upd (z_eraseB s.batch) (s.lastTicketId + 1) (some ⟨a, n⟩) :=
      z_eraseB_upd_pos _ _ _ (by show n ≠ 0; omega)
    show z_w _ (z_eraseR (upd s.range a _)) (z_eraseB (upd s.batch _ _)) K C = _
    rw [e1, e2]; rfl
  · intro i b hi hb
    have hi' : s.lastTicketId + 1 + n - 1 < i := hi
    have hb' : upd s.batch (s.lastTicketId + 1) (some ⟨a, n⟩) i = some b := hb
    rw [upd_other _ _ _ _ (by omega)] at hb'
    exact hd i b (by omega) hb'

open LP.Props.C18 in
/-- a zero-size allocation is invisible on the erased state -/
theorem z_tryCreate_zero {s s' : State} {a : Nat} (K C : Nat → Bool)
    (h : tryCreateTickets s a 0 = .ok s') (hd : z_Hd s) :
    z_w s' (z_eraseR s'.range) (z_eraseB s'.batch) K C
      = z_w s (z_eraseR s.range) (z_eraseB s.batch) K C ∧ z_Hd s' := by
  rw [tryCreateTickets_ok_iff] at h
  obtain ⟨h1, h2, rfl⟩ := h
  have hl : s.lastTicketId + 1 + 0 - 1 = s.lastTicketId := by omega
  constructor
  · have e1 : z_eraseR (upd s.range a (some ⟨s.lastTicketId + 1, s.lastTicketId + 1 + 0 - 1⟩))
        = z_eraseR s.range := by
      rw [z_eraseR_upd_empty _ _ _ (by show ¬ s.lastTicketId + 1 ≤ s.lastTicketId + 1 + 0 - 1; omega)]
      exact z_upd_none_self _ _ (z_eraseR_of_none h1)
    have e2 : z_eraseB (upd s.batch (s.lastTicketId + 1) (some ⟨a, 0⟩)) = z_eraseB s.batch := by
      rw [z_eraseB_upd_zero _ _ _ rfl]
      apply z_upd_none_self
      cases hb : z_eraseB s.batch (s.lastTicketId + 1) with
      | none => rfl
      | some b =>
        obtain ⟨k1, k2⟩ := z_eraseB_some.mp hb
        exact absurd (hd _ b (by omega) k1) k2
    show z_w _ (z_eraseR (upd s.range a _)) (z_eraseB (upd s.batch _ _)) K C = _
    rw [e1, e2]
    show ({ s with lastTicketId := s.lastTicketId + 1 + 0 - 1, range := _, batch := _, blacklist := K,
                   claimed := C } : State) = _
    rw [hl]; rfl
  · intro i b hi hb
    have hi' : s.lastTicketId + 1 + 0 - 1 < i := hi
    have hb' : upd s.batch (s.lastTicketId + 1) (some ⟨a, 0⟩) i = some b := hb
    by_cases hx : i = s.lastTicketId + 1
    · rw [hx, upd_same] at hb'
      injection hb' with hb'; rw [← hb']
    · rw [upd_other _ _ _ _ hx] at hb'
      exact hd i b (by omega) hb'

/-- **`createMany l` on `s` is matched by `createMany (l without the zero-size entries)` on the
    erased state** -/
theorem z_createMany (K C : Nat → Bool) : ∀ (l : List (Nat × Nat)) {s s' : State},
    createMany l s = .ok s' → z_Hd s →
    createMany (l.filter (fun p => decide (1 ≤ p.2))) (z_w s (z_eraseR s.range) (z_eraseB s.batch) K C)
      = .ok (z_w s' (z_eraseR s'.range) (z_eraseB s'.batch) K C) ∧ z_Hd s' ∧
    s'.blacklist = s.blacklist ∧ s'.claimed = s.claimed ∧ s'.flags = s.flags
  | [], s, s', h, hd => by
    simp only [createMany, Except.ok.injEq] at h
    subst h
    exact ⟨rfl, hd, rfl, rfl, rfl⟩
  | (a, n) :: rest, s, s', h, hd => by
    simp only [createMany] at h
    cases h1 : tryCreateTickets s a n with
    | error err => rw [h1] at h; cases h
    | ok s1 =>
      rw [h1] at h
      obtain ⟨f1, f2, f3⟩ := z_tryCreate_frame h1
      by_cases hn : 1 ≤ n
      · obtain ⟨k1, k2⟩ := z_tryCreate_pos K C hn h1 hd
        obtain ⟨i1, i2, i3, i4, i5⟩ := z_createMany K C rest h k2
        refine ⟨?_, i2, i3.trans f1, i4.trans f2, i5.trans f3⟩
        rw [List.filter_cons_of_pos (by simpa using hn)]
        simp only [createMany, k1]
        exact i1
      · have hn0 : n = 0 := by omega
        subst hn0
        obtain ⟨k1, k2⟩ := z_tryCreate_zero K C h1 hd
        obtain ⟨i1, i2, i3, i4, i5⟩ := z_createMany K C rest h k2
        refine ⟨?_, i2, i3.trans f1, i4.trans f2, i5.trans f3⟩
        rw [List.filter_cons_of_neg (by simp)]
        rw [← k1]
        exact i1

/-- the body of `addTickets` -/
theorem z_exec_addTickets {hash : List Nat → List Nat} {t t' : Tx} {e : Env} {l : List (Nat × Nat)}
    (K C : Nat → Bool) (h : exec hash t e (.addTickets l) = .ok t') (hd : z_Hd t.s) :
    exec hash (z_wt t (z_eraseR t.s.range) (z_eraseB t.s.batch) K C) e
        (.addTickets (l.filter (fun p => decide (1 ≤ p.2))))
      = .ok (z_wt t' (z_eraseR t'.s.range) (z_eraseB t'.s.batch) K C) ∧ z_Hd t'.s ∧
    t'.s.blacklist = t.s.blacklist ∧ t'.s.claimed = t.s.claimed ∧ t'.s.flags = t.s.flags ∧
    t'.o = t.o := by
  simp only [exec, bind_ok_iff, pure_ok_iff, requireStage, req_ok_iff, exists_const] at h ⊢
  obtain ⟨hst, s1, hcm, rfl⟩ := h
  obtain ⟨i1, i2, i3, i4, i5⟩ := z_createMany K C l hcm hd
  exact ⟨⟨hst, _, i1, rfl⟩, i2, i3, i4, i5, rfl⟩

/-! ### confirm -/

/-- the allocation size of an address is the same on the erased state whenever the view of the
    original state does not panic -/
theorem z_ticketsFor {s : State} {a total : Nat} (B : Nat → Option Batch) (K C : Nat → Bool)
    (h : ticketsFor s a = .ok total) :
    ticketsFor (z_w s (z_eraseR s.range) B K C) a = .ok total := by
  unfold ticketsFor at h ⊢
  show (match z_eraseR s.range a with | none => _ | some r => _) = _
  cases hr : s.range a with
  | none => rw [hr] at h; rw [z_eraseR_of_none hr]; exact h
  | some r =>
    rw [hr] at h
    by_cases hle : r.first ≤ r.last
    · rw [z_eraseR_of_ne hr hle]; exact h
    · simp [csub, hle, bind, Except.bind] at h

/-- an empty range makes the allocation view (and hence `confirm`) panic -/
theorem z_ticketsFor_empty {s : State} {a : Nat} {r : Range} (hr : s.range a = some r)
    (he : r.last < r.first) : ∃ err, ticketsFor s a = .error err := by
  unfold ticketsFor
  rw [hr]
  have : ¬ r.first ≤ r.last := by omega
  refine ⟨.panic "tickets.rs:96 last_id - first_id", ?_⟩
  simp [csub, this, bind, Except.bind]

open LP.Props.C07 in
theorem z_exec_confirm {hash : List Nat → List Nat} {t t' : Tx} {e : Env} {n : Nat}
    (B : Nat → Option Batch) (K C : Nat → Bool)
    (h : exec hash t e (.confirm n) = .ok t') (hK : K e.caller = true → t.s.blacklist e.caller = true) :
    exec hash (z_wt t (z_eraseR t.s.range) B K C) e (.confirm n)
      = .ok (z_wt t' (z_eraseR t.s.range) B K C) ∧
    t'.s.range = t.s.range ∧ t'.s.batch = t.s.batch ∧ t'.s.blacklist = t.s.blacklist ∧
    t'.s.claimed = t.s.claimed ∧ t'.s.flags = t.s.flags ∧ t'.s.lastTicketId = t.s.lastTicketId := by
  simp only [exec] at h ⊢
  rw [confirmTickets_ok_iff] at h ⊢
  obtain ⟨total, ⟨a1, a2, a3, a4, a5, a6, a7⟩, rfl⟩ := h
  refine ⟨⟨total, ⟨a1, a2, a3, a4, ?_, z_ticketsFor B K C a6, a7⟩, rfl⟩, rfl, rfl, rfl, rfl, rfl, rfl⟩
  show K e.caller = false
  cases hk : K e.caller with
  | false => rfl
  | true => rw [hK hk] at a5; cases a5

/-! ### blacklist -/

theorem z_refund {R : Nat → Option Range} {B : Nat → Option Batch} {K C : Nat → Bool}
    (t : Tx) (e : Env) (a n : Nat) :
    (z_wt t R B K C).refund e a n = mapR (z_wt · R B K C) (t.refund e a n) := by
  unfold Tx.refund
  by_cases hn : n = 0
  · rw [if_pos hn, if_pos hn]; rfl
  · rw [if_neg hn, if_neg hn]
    simp only [mapR_bind]
    refine bind_eq_bind_of_mapR (z_wt · R B K C) ?_ ?_
    · rhs_exact z_send _ _ _
    · intro t1; rfl

theorem z_refund_frame {t t1 : Tx} {e : Env} {a n : Nat} (h : t.refund e a n = .ok t1) :
    t1.s.range = t.s.range ∧ t1.s.confirmed = t.s.confirmed ∧ t1.s.blacklist = t.s.blacklist := by
  rw [refund_ok_iff] at h
  rw [h.2, refundResult_state]
  exact ⟨rfl, rfl, rfl⟩

/-- **the blacklisting loop**: on the erased state the addresses with an empty range are skipped
    (they have nothing confirmed, so the original loop only sets their flag); the flags of the
    erased state stay below those of the original -/
theorem z_blacklistMany (e : Env) (R0 : Nat → Option Range) (B : Nat → Option Batch) (C : Nat → Bool) :
    ∀ (l : List Nat) {t t' : Tx} (K : Nat → Bool), blacklistMany e l t = .ok t' → t.s.range = R0 →
      (∀ a, K a = true → t.s.blacklist a = true) →
      (∀ a ∈ l, z_eraseR R0 a = none → t.s.confirmed a = 0) →
      ∃ K', blacklistMany e (l.filter (fun a => (z_eraseR R0 a).isSome)) (z_wt t (z_eraseR R0) B K C)
          = .ok (z_wt t' (z_eraseR R0) B K' C) ∧
        (∀ a, K' a = true → t'.s.blacklist a = true)
  | [], t, t', K, h, _, hK, _ => by
    simp only [blacklistMany, Except.ok.injEq] at h
    subst h
    exact ⟨K, rfl, hK⟩
  | a :: rest, t, t', K, h, hR, hK, hc => by
    unfold blacklistMany at h
    by_cases hb : t.s.blacklist a = true
    · rw [if_pos hb] at h; cases h
    rw [if_neg hb] at h
    by_cases hn : (t.s.range a).isNone = true
    · rw [if_pos hn] at h; cases h
    rw [if_neg hn] at h
    simp only at h
    cases hz : z_eraseR R0 a with
    | none =>
      have hc0 : t.s.confirmed a = 0 := hc a (List.mem_cons_self ..) hz
      have hnot : ¬ (t.s.confirmed a > 0) := by omega
      simp only [hnot, if_false] at h
      obtain ⟨K', k1, k2⟩ := z_blacklistMany e R0 B C rest K h hR
        (fun b hb' => by
          show upd t.s.blacklist a true b = true
          by_cases hba : b = a
          · subst hba; simp
          · rw [upd_other _ _ _ _ hba]; exact hK b hb')
        (fun b hb' hz' => hc b (List.mem_cons_of_mem _ hb') hz')
      refine ⟨K', ?_, k2⟩
      rw [List.filter_cons_of_neg (by simp [hz])]
      exact k1
    | some r =>
      rw [List.filter_cons_of_pos (by simp [hz])]
      have hKa : K a = false := by
        cases hk : K a with
        | false => rfl
        | true => exact absurd (hK a hk) hb
      cases hx : (if t.s.confirmed a > 0 then t.refund e a (t.s.confirmed a) else .ok t) with
      | error err => rw [hx] at h; cases h
      | ok t1 =>
        rw [hx] at h
        simp only at h
        have hfr : t1.s.range = t.s.range ∧ t1.s.confirmed = t.s.confirmed ∧
            t1.s.blacklist = t.s.blacklist := by
          split at hx
          · exact z_refund_frame hx
          · cases hx; exact ⟨rfl, rfl, rfl⟩
        have hxz : (if (z_wt t (z_eraseR R0) B K C).s.confirmed a > 0
              then (z_wt t (z_eraseR R0) B K C).refund e a ((z_wt t (z_eraseR R0) B K C).s.confirmed a)
              else .ok (z_wt t (z_eraseR R0) B K C)) = .ok (z_wt t1 (z_eraseR R0) B K C) := by
          show (if t.s.confirmed a > 0 then (z_wt t (z_eraseR R0) B K C).refund e a (t.s.confirmed a)
                else .ok (z_wt t (z_eraseR R0) B K C)) = _
          split at hx
          · rename_i hpos
            rw [if_pos hpos, z_refund, hx]; rfl
          · rename_i hpos
            rw [if_neg hpos]; cases hx; rfl
        obtain ⟨K', k1, k2⟩ := z_blacklistMany e R0 B C rest (upd K a true) h
          (by
            show (if t.s.confirmed a > 0 then _ else t1.s).range = R0
            split
            · exact hfr.1.trans hR
            · exact hfr.1.trans hR)
          (fun b hb' => by
            show upd (if t.s.confirmed a > 0 then _ else t1.s).blacklist a true b = true
            by_cases hba : b = a
            · subst hba; simp
            · rw [upd_other _ _ _ _ hba] at hb' ⊢
              have : (if t.s.confirmed a > 0 then
                  ({ t1.s with confirmed := upd t1.s.confirmed a 0 } : State) else t1.s).blacklist
                  = t.s.blacklist := by split <;> exact hfr.2.2
              rw [this]; exact hK b hb')
          (fun b hb' hz' => by
            have h0 := hc b (List.mem_cons_of_mem _ hb') hz'
            show (if t.s.confirmed a > 0 then
                  ({ t1.s with confirmed := upd t1.s.confirmed a 0 } : State) else t1.s).confirmed b = 0
            split
            · show upd t1.s.confirmed a 0 b = 0
              by_cases hba : b = a
              · subst hba; simp
              · rw [upd_other _ _ _ _ hba, hfr.2.1]; exact h0
            · rw [hfr.2.1]; exact h0)
        refine ⟨K', ?_, k2⟩
        unfold blacklistMany
        have g1 : ¬ ((z_wt t (z_eraseR R0) B K C).s.blacklist a = true) := by
          show ¬ (K a = true); rw [hKa]; simp
        have g2 : ¬ (((z_wt t (z_eraseR R0) B K C).s.range a).isNone = true) := by
          show ¬ ((z_eraseR R0 a).isNone = true); rw [hz]; simp
        rw [if_neg g1, if_neg g2]
        simp only
        rw [hxz]
        simp only
        refine Eq.trans ?_ k1
        congr 1
        by_cases hpos : t.s.confirmed a > 0
        · have hpos' : (z_wt t (z_eraseR R0) B K C).s.confirmed a > 0 := hpos
          simp only [hpos, hpos', if_true]; rfl
        · have hpos' : ¬ (z_wt t (z_eraseR R0) B K C).s.confirmed a > 0 := hpos
          simp only [hpos, hpos', if_false]; rfl

theorem z_plain_flags {v : Variant} (hv : Plain v) :
    v.vested = false ∧ v.hasNft = false ∧ v.isV2 = false ∧ v.v1Alloc = false ∧ v.hasGuaranteed = false := by
  rcases hv with rfl | rfl <;> exact ⟨rfl, rfl, rfl, rfl, rfl⟩

/-- the body of `blacklist` (plain variants) -/
theorem z_exec_blacklist {hash : List Nat → List Nat} {t t' : Tx} {e : Env} {l : List Nat}
    (B : Nat → Option Batch) (K C : Nat → Bool) (hv : Plain t.s.variant)
    (h : exec hash t e (.blacklist l) = .ok t')
    (hK : ∀ a, K a = true → t.s.blacklist a = true)
    (hc : ∀ a ∈ l, z_eraseR t.s.range a = none → t.s.confirmed a = 0) :
    ∃ K', exec hash (z_wt t (z_eraseR t.s.range) B K C) e
          (.blacklist (l.filter (fun a => (z_eraseR t.s.range a).isSome)))
        = .ok (z_wt t' (z_eraseR t.s.range) B K' C) ∧
      (∀ a, K' a = true → t'.s.blacklist a = true) := by
  obtain ⟨_, f2, f3, f4, _⟩ := z_plain_flags hv
  simp only [exec, bind_ok_iff] at h
  obtain ⟨t1, h1, h⟩ := h
  have hvar : t1.s.variant = t.s.variant := congrArg Terms.variant (addUsersToBlacklist_terms h1)
  simp only [hvar, f2, f3, f4, Bool.false_eq_true, if_false, pure_bind, pure_ok_iff] at h
  subst h
  have h1' := h1
  unfold addUsersToBlacklist at h1
  simp only [bind_ok_iff, req_ok_iff, exists_const] at h1
  obtain ⟨p1, p2, p3, p4⟩ := h1
  obtain ⟨K', k1, k2⟩ := z_blacklistMany e t.s.range B C l K p4 rfl hK hc
  refine ⟨K', ?_, k2⟩
  have hz : addUsersToBlacklist (z_wt t (z_eraseR t.s.range) B K C) e
      (l.filter (fun a => (z_eraseR t.s.range a).isSome)) = .ok (z_wt t1 (z_eraseR t.s.range) B K' C) := by
    unfold addUsersToBlacklist
    simp only [bind_ok_iff, req_ok_iff, exists_const]
    exact ⟨p1, p2, p3, k1⟩
  have hvz : (z_wt t1 (z_eraseR t.s.range) B K' C).s.variant = t.s.variant := hvar
  simp only [exec, hz, bind, Except.bind, hvz, f2, f3, f4, Bool.false_eq_true, if_false, pure, Except.pure]

/-! ### claim -/

section
variable {R : Nat → Option Range} {B : Nat → Option Batch} {K C : Nat → Bool}

theorem z_sendLocked (t : Tx) (e : Env) (d a : Nat) :
    (z_wt t R B K C).sendLocked e d a = mapR (z_wt · R B K C) (t.sendLocked e d a) := by
  unfold Tx.sendLocked
  have tail : ∀ (t1 : Tx) (u : Nat),
      (if u > 0 then (z_wt t1 R B K C).send d ⟨.esdt (z_wt t1 R B K C).s.lpTok, 0, u⟩
        else pure (z_wt t1 R B K C))
      = mapR (z_wt · R B K C) (if u > 0 then t1.send d ⟨.esdt t1.s.lpTok, 0, u⟩ else pure t1) := by
    intro t1 u
    by_cases hc : u > 0
    · rw [if_pos hc, if_pos hc]
      rhs_exact z_send _ _ _
    · rw [if_neg hc, if_neg hc]; rfl
  show (if (if e.epoch < t.s.unlockEpoch then lockSplit a t.s.lockPct else 0) > 0 then _ else _) = _
  by_cases hc : (if e.epoch < t.s.unlockEpoch then lockSplit a t.s.lockPct else 0) > 0
  · rw [if_pos hc, if_pos hc]
    simp only [mapR_bind, pure_bind]
    refine bind_eq_bind_of_mapR (z_wt · R B K C) ?_ ?_
    · rhs_exact z_send _ _ _
    · intro t1
      rhs_exact tail _ _
  · rw [if_neg hc, if_neg hc]
    simp only [pure_bind]
    rhs_exact tail _ _

theorem z_sendLp (t : Tx) (e : Env) (a n : Nat) :
    (z_wt t R B K C).sendLaunchpadTokens e a n
      = mapR (z_wt · R B K C) (t.sendLaunchpadTokens e a n) := by
  unfold Tx.sendLaunchpadTokens
  by_cases hn : n = 0
  · rw [if_pos hn, if_pos hn]; rfl
  · rw [if_neg hn, if_neg hn]
    show (if t.s.variant.hasLock = true then _ else _) = _
    by_cases hl : t.s.variant.hasLock = true
    · rw [if_pos hl, if_pos hl]
      rhs_exact z_sendLocked _ _ _ _
    · rw [if_neg hl, if_neg hl]
      rhs_exact z_send _ _ _

/-- the state part of a claim, on a state whose `range`/`claimed` entries of the caller are those
    of the original -/
theorem z_settle (s : State) (e : Env) (r : Range) (hr : s.range e.caller = some r)
    (hR : R e.caller = some r) (hC : C e.caller = s.claimed e.caller) :
    settle (z_w s R B K C) e
      = mapR (fun p => (z_w p.1 (upd R e.caller none) (upd B r.first none) K (upd C e.caller true), p.2))
          (settle s e) := by
  unfold settle
  simp only [mapR_bind]
  show (requireStage s e .claim _ >>= fun _ => _) = _
  refine bind_congr_fun ?_; intro _
  show (req (!C e.caller) _ >>= fun _ => _) = _
  rw [hC]
  refine bind_congr_fun ?_; intro _
  show (match R e.caller with | none => _ | some r => _) = _
  rw [hR, hr]
  simp only [mapR_bind, mapR_ite, pure_bind]
  repeat' (first | rfl | (refine bind_congr_fun ?_; intro _) | ite_both)

end

/-- **a claim by an address whose range is not empty** is matched by the same claim on the
    erased state -/
theorem z_claimBase {t t' : Tx} {e : Env} {r : Range} {R : Nat → Option Range}
    {B : Nat → Option Batch} {K C : Nat → Bool}
    (hn : t.s.variant.hasNft = false)
    (h : claimBase t e = .ok t') (hr : t.s.range e.caller = some r)
    (hR : R e.caller = some r) (hC : C e.caller = t.s.claimed e.caller) :
    claimBase (z_wt t R B K C) e
      = .ok (z_wt t' (upd R e.caller none) (upd B r.first none) K (upd C e.caller true)) := by
  unfold claimBase at h ⊢
  simp only [bind_ok_iff] at h
  obtain ⟨x, hx, t1, h1, t2, h2, h3⟩ := h
  have hv1 : x.1.variant = t.s.variant := congrArg Terms.variant (settle_terms (a := x.2.1) (b := x.2.2) hx)
  have hv2 : t1.s.variant = t.s.variant :=
    (congrArg Terms.variant (Tx.refund_terms h1)).trans hv1
  have hv3 : t2.s.variant = t.s.variant :=
    (congrArg Terms.variant (Tx.sendLaunchpadTokens_terms h2)).trans hv2
  have hn3 : t2.s.variant.hasNft = false := by rw [hv3]; exact hn
  simp only [hn3, Bool.false_eq_true, if_false, pure_ok_iff] at h3
  subst h3
  have hs : settle (z_wt t R B K C).s e
      = .ok (z_w x.1 (upd R e.caller none) (upd B r.first none) K (upd C e.caller true), x.2) := by
    show settle (z_w t.s R B K C) e = _
    rw [z_settle t.s e r hr hR hC, hx]; rfl
  rw [hs]
  show ((z_wt (t.setS x.1) (upd R e.caller none) (upd B r.first none) K (upd C e.caller true)).refund
      e e.caller x.2.2 >>= _) = _
  rw [z_refund, h1]
  show ((z_wt t1 (upd R e.caller none) (upd B r.first none) K (upd C e.caller true)).sendLaunchpadTokens
      e e.caller x.2.1 >>= _) = _
  rw [z_sendLp, h2]
  show (if t2.s.variant.hasNft = true then _ else _) = _
  rw [if_neg (by rw [hn3]; simp)]
  rfl

/-- **a claim by an address whose range is empty changes nothing but the caller's `claimed` flag,
    its (stale) range and the batch slot at the range's first id**; nothing is paid -/
theorem z_claim_stutter {hash : List Nat → List Nat} {s s' : State} {e : Env} {o : Out} {r : Range}
    (hB : pl_Base s) (hs : step hash s e .claim = .ok (s', o))
    (hr : s.range e.caller = some r) (he : r.last < r.first) (hc : s.confirmed e.caller = 0) :
    s' = z_w s (upd s.range e.caller none) (upd s.batch r.first none) s.blacklist
          (upd s.claimed e.caller true) := by
  obtain ⟨r', hacc, hs'⟩ := pl_claim_state hB hs
  have hr' : r' = r := by
    have := hacc.2.2.2.2.1
    rw [hr] at this
    exact (Option.some.inj this).symm
  subst hr'
  have hlen : rangeLen r' = 0 := by unfold rangeLen; omega
  have hw : LP.winCount s e.caller = 0 := by
    rw [LP.Props.C09.winCount_of_range hr, hlen]; rfl
  have hbal : LP.Props.C09.balAfterClaim s e.caller = s.bal := by
    unfold LP.Props.C09.balAfterClaim
    rw [hw, hc]
    simp [Bal.sub_zero]
  have hconf : upd s.confirmed e.caller 0 = s.confirmed := by
    funext x
    by_cases hx : x = e.caller
    · subst hx; simp [hc]
    · simp [upd, hx]
  rw [hs', hbal]
  unfold settledState
  rw [hlen, hconf]
  rfl

end LP
