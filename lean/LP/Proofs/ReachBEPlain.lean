import LP.Proofs.ReachBEFam
/-
  LP.Proofs.ReachBEPlain — `Variant.base` and `Variant.locked` form a `be_Family`
  (reachable states `Reach hash v`, side conditions `EnvOK`/`CallOK` of LP/Proofs/ReachBase.lean).
-/
namespace LP
open LP.Props LP.Events LP.FY

/-- side conditions on the transactions of a history of the `Reach` developments -/
def be_POK (e : Env) (c : Call) : Prop := EnvOK e ∧ CallOK c

theorem be_BV_reach {hash : List Nat → List Nat} {v : Variant} {s : State} {r : Nat}
    (h : Reach hash v s r) : be_BV s := ⟨be_BlZero_reach h, be_validPeriods_reach h⟩

theorem be_plain_not_vested {v : Variant} (hv : Plain v) : v.vested = false := by
  rcases hv with rfl | rfl <;> rfl

theorem be_good_plain {hash : List Nat → List Nat} {v : Variant} (hv : Plain v) {s : State} {r : Nat}
    (h : Reach hash v s r) : be_Good s := by
  obtain ⟨a0, ha⟩ := Reach_iff.mp h
  have wf := reach_WF hv ha
  have hnv := be_plain_not_vested wf.var
  exact ⟨be_Tix_of_Phase wf.phase, be_BlZero_reach h, be_validPeriods_reach h,
    fun h1 => (by rw [hnv] at h1; cases h1), fun h1 => (by rw [hnv] at h1; cases h1)⟩

theorem be_family_plain (hash : List Nat → List Nat) {v : Variant} (hv : Plain v) :
    be_Family hash be_POK (Reach hash v) :=
  ⟨fun hs hr hp hst => .call _ _ _ _ _ _ hs hr hp.1 hp.2 hst, fun hs hr => .wait _ _ _ hs hr,
    fun hs => be_good_plain hv hs⟩

end LP
