import LP.Proofs.ReachNGWF
/-
  LP.Proofs.ReachNGEasy — preservation of `ng_WF` by the endpoints of `Variant.nftGuar` without a
  loop over tickets and without a claim: setters (incl. `setNftCost`), `setSupport`, `pause`,
  `unpause`, `sftSetup`, `deposit`, `setTicketPrice`, `confirm`, `confirmNft`.
  (`addTicketsV1`, `blacklist` are in `ReachNGAlloc.lean`.)
-/
namespace LP
open LP.FY LP.Events LP.Props.C14

/-- in the AddTickets stage the contract holds nothing but (possibly) the launchpad tokens -/
theorem ng_addTickets_bal0 {T0 : Nat} {s : State} {r : Nat} (h : ng_WF T0 s r) {n : Nat} (hr : r ≤ n)
    (hlt : n < s.cfg.conf) :
    (nf_side s).held = 0 ∧ ∀ t k, ¬ (t = .esdt s.lpTok ∧ k = 0) → s.bal t k = 0 := by
  have hz : ∀ a, s.confirmed a = 0 := h.tlConf (by omega)
  obtain ⟨hp0, hw0⟩ := ng_no_payers h hr hlt
  have hns : s.flags.started = false := ng_notStarted_of_lt h hr (Or.inl hlt)
  obtain ⟨hna, _, L0, hp, _⟩ := ng_phase_notStarted h.phase hns
  have hna' : s.flags.additional = false := hna
  have hheld : (nf_side s).held = 0 := by
    simp [nf_Side.held, nf_side, hna', hp0, hw0]
  have hfee : (nf_side s).feeIn = 0 := by
    unfold nf_Side.feeIn; split
    · exact hheld
    · rfl
  have hpay0 : s.bal s.payTok 0 = 0 := by
    have h1 : (nf_side s).tix = s.price * sumOver s.confirmed (L0.map Prod.fst) := hp.pay
    rw [sumOver_zero _ _ (fun a _ => hz a)] at h1
    have h2 := nf_tix_add h.side
    rw [hfee, h1] at h2
    have : (nf_side s).bal (nf_side s).payTok 0 = s.bal s.payTok 0 := rfl
    omega
  refine ⟨hheld, ?_⟩
  intro t k hlp
  by_cases h1 : t = s.payTok ∧ k = 0
  · rw [h1.1, h1.2]; exact hpay0
  · by_cases h2 : t = s.nftCost.tok ∧ k = s.nftCost.nonce
    · rw [h2.1, h2.2]
      by_cases hs : (nf_side s).same
      · have hs' : s.nftCost.tok = s.payTok ∧ s.nftCost.nonce = 0 := hs
        rw [hs'.1, hs'.2]; exact hpay0
      · have hl : ¬ (nf_side s).isLp := by
          intro hl
          have hl' : s.nftCost.tok = .esdt s.lpTok ∧ s.nftCost.nonce = 0 := hl
          exact hlp ⟨h2.1.trans hl'.1, h2.2.trans hl'.2⟩
        have := h.side.feeEq hs hl
        rw [hheld] at this
        exact this
    · exact h.side.balOther t k h1 hlp h2

/-! ### trivial endpoints -/

theorem ng_setSupport {T0 : Nat} {hash : List Nat → List Nat} {s s' : State} {e : Env} {o : Out}
    {r a : Nat} (h : ng_WF T0 s r) (hr : r ≤ e.round)
    (hs : step hash s e (.setSupport a) = .ok (s', o)) : ng_WF T0 s' e.round := by
  obtain ⟨t, hx, rfl⟩ := rb_step_np (by intro m hm; simp [endpointMeta] at hm; rw [← hm]) hs
  simp only [exec, pure_ok_iff] at hx
  subst hx
  exact ng_WF_same_cfg h rfl rfl rfl rfl rfl hr rfl rfl

theorem ng_pause {T0 : Nat} {hash : List Nat → List Nat} {s s' : State} {e : Env} {o : Out}
    {r : Nat} (h : ng_WF T0 s r) (hr : r ≤ e.round)
    (hs : step hash s e .pause = .ok (s', o)) : ng_WF T0 s' e.round := by
  obtain ⟨t, hx, rfl⟩ := rb_step_np (by intro m hm; simp [endpointMeta] at hm; rw [← hm]) hs
  simp only [exec, pure_ok_iff] at hx
  subst hx
  exact ng_WF_same_cfg h rfl rfl rfl rfl rfl hr rfl rfl

theorem ng_unpause {T0 : Nat} {hash : List Nat → List Nat} {s s' : State} {e : Env} {o : Out}
    {r : Nat} (h : ng_WF T0 s r) (hr : r ≤ e.round)
    (hs : step hash s e .unpause = .ok (s', o)) : ng_WF T0 s' e.round := by
  obtain ⟨t, hx, rfl⟩ := rb_step_np (by intro m hm; simp [endpointMeta] at hm; rw [← hm]) hs
  simp only [exec, pure_ok_iff] at hx
  subst hx
  exact ng_WF_same_cfg h rfl rfl rfl rfl rfl hr rfl rfl

theorem ng_sftSetup {T0 : Nat} {hash : List Nat → List Nat} {s s' : State} {e : Env} {o : Out}
    {r : Nat} (h : ng_WF T0 s r) (hr : r ≤ e.round)
    (hs : step hash s e .sftSetup = .ok (s', o)) : ng_WF T0 s' e.round := by
  obtain ⟨t, hx, rfl⟩ := rb_step_np (by
    intro m hm; simp only [endpointMeta] at hm; split at hm
    · simp at hm; rw [← hm]
    · cases hm) hs
  simp only [exec, pure_ok_iff] at hx
  subst hx
  exact ng_WF_same_cfg h rfl rfl rfl rfl rfl hr rfl rfl

theorem ng_setPerTicket {T0 : Nat} {hash : List Nat → List Nat} {s s' : State} {e : Env} {o : Out}
    {r a : Nat} (h : ng_WF T0 s r) (hr : r ≤ e.round)
    (hs : step hash s e (.setPerTicket a) = .ok (s', o)) : ng_WF T0 s' e.round := by
  obtain ⟨t, hx, rfl⟩ := rb_step_np (by intro m hm; simp [endpointMeta] at hm; rw [← hm]) hs
  obtain ⟨h1, _, h3, _⟩ := exec_setPerTicket_s hx
  rw [h1]
  refine ng_WF_of_proj h rfl rfl rfl rfl ?_ ?_ ?_
  · intro hlt; exact h.tlConf (by have : e.round < s.cfg.conf := hlt; omega)
  · intro hst; have := h.tlStarted hst
    show s.cfg.conf ≤ e.round ∧ s.cfg.sel ≤ e.round
    omega
  · intro _ hd
    have h3' : s.deposited = false := h3
    have hd' : s.deposited = true := hd
    rw [h3'] at hd'; cases hd'

theorem ng_setConfStart {T0 : Nat} {hash : List Nat → List Nat} {s s' : State} {e : Env} {o : Out}
    {r x : Nat} (h : ng_WF T0 s r) (hr : r ≤ e.round)
    (hs : step hash s e (.setConfStart x) = .ok (s', o)) : ng_WF T0 s' e.round := by
  obtain ⟨t, hx, rfl⟩ := rb_step_np (by intro m hm; simp [endpointMeta] at hm; rw [← hm]) hs
  obtain ⟨h1, h2, h3⟩ := exec_setConfStart_s hx
  have h2' : e.round < s.cfg.conf := h2
  rw [h1]
  refine ng_WF_of_proj h rfl rfl rfl rfl ?_ ?_ ?_
  · intro _; exact h.tlConf (by omega)
  · intro hst; have := h.tlStarted hst; omega
  · intro _ hd
    exact h.lp (Or.inr (by omega)) hd

theorem ng_setSelStart {T0 : Nat} {hash : List Nat → List Nat} {s s' : State} {e : Env} {o : Out}
    {r x : Nat} (h : ng_WF T0 s r) (hr : r ≤ e.round)
    (hs : step hash s e (.setSelStart x) = .ok (s', o)) : ng_WF T0 s' e.round := by
  obtain ⟨t, hx, rfl⟩ := rb_step_np (by intro m hm; simp [endpointMeta] at hm; rw [← hm]) hs
  obtain ⟨h1, h2, h3⟩ := exec_setSelStart_s hx
  have h2' : e.round < s.cfg.sel := h2
  rw [h1]
  refine ng_WF_of_proj h rfl rfl rfl rfl ?_ ?_ ?_
  · intro hlt; exact h.tlConf (by have : e.round < s.cfg.conf := hlt; omega)
  · intro hst; have := h.tlStarted hst; omega
  · intro hp hd
    refine h.lp (hp.imp id (fun hq => ?_)) hd
    have : e.round < s.cfg.conf := hq
    omega

theorem ng_setClaimStart {T0 : Nat} {hash : List Nat → List Nat} {s s' : State} {e : Env} {o : Out}
    {r x : Nat} (h : ng_WF T0 s r) (hr : r ≤ e.round)
    (hs : step hash s e (.setClaimStart x) = .ok (s', o)) : ng_WF T0 s' e.round := by
  obtain ⟨t, hx, rfl⟩ := rb_step_np (by intro m hm; simp [endpointMeta] at hm; rw [← hm]) hs
  rw [(exec_setClaimStart_s hx).1]
  refine ng_WF_of_proj h rfl rfl rfl rfl ?_ ?_ ?_
  · intro hlt; exact h.tlConf (by have : e.round < s.cfg.conf := hlt; omega)
  · intro hst
    have := h.tlStarted hst
    show s.cfg.conf ≤ e.round ∧ s.cfg.sel ≤ e.round
    omega
  · intro hp hd
    refine h.lp (hp.imp id (fun hq => ?_)) hd
    have : e.round < s.cfg.conf := hq
    omega

/-! ### deposit -/

theorem ng_deposit {T0 : Nat} {hash : List Nat → List Nat} {s s' : State} {e : Env} {o : Out}
    {r : Nat} (h : ng_WF T0 s r) (hr : r ≤ e.round) (hok : EnvOK e)
    (hs : step hash s e .deposit = .ok (s', o)) : ng_WF T0 s' e.round := by
  obtain ⟨m, t, _, _, _, hx, rfl, _⟩ := step_ok_inv hs
  have hx' := hx
  simp only [exec, bind_ok_iff, pure_ok_iff] at hx'
  obtain ⟨s1, hd, _⟩ := hx'
  obtain ⟨he1, he2⟩ := v1_deposit_payment hd hok
  have hlp : (tx0 s e).s.lpTok = s.lpTok := rfl
  have hpt : (tx0 s e).s.perTicket = s.perTicket := rfl
  have hnw : (tx0 s e).s.nrWinning = s.nrWinning := rfl
  have hres : reservedForDeposit (tx0 s e).s = s.totalGuaranteed := by
    unfold reservedForDeposit
    have : (tx0 s e).s.variant = s.variant := rfl
    rw [this, (ng_flags h.var).2.2.2.2.2.1]; rfl
  rw [hlp, hpt, hnw, hres] at he2
  have hcp := rb_credit_single s e _ _ he1 he2
  obtain ⟨_, h1⟩ := exec_deposit_s hx
  rw [h1]
  have hts : (tx0 s e).s = creditPayments s e := rfl
  rw [hts, hcp]
  have hbal : ∀ t n, ¬ (t = .esdt s.lpTok ∧ n = 0) →
      (s.bal.add (.esdt s.lpTok) 0 (s.perTicket * (s.nrWinning + s.totalGuaranteed))) t n = s.bal t n := by
    intro t n ht; simp [Bal.add, ht]
  have hside := nf_SideInv_lpBal h.side h.tokNe
    (s.bal.add (.esdt s.lpTok) 0 (s.perTicket * (s.nrWinning + s.totalGuaranteed))) hbal
  refine ng_WF_build _ rfl hside h.var h.pricePos h.tokNe h.static
    (fun hlt => h.tlConf (by have : e.round < s.cfg.conf := hlt; omega)) ?_ ?_ h.noWinE ?_
  · intro hst2; have := h.tlStarted hst2
    show s.cfg.conf ≤ e.round ∧ s.cfg.sel ≤ e.round
    exact ⟨by omega, by omega⟩
  · intro _ _
    show s.perTicket * v1_owed s ≤
      (s.bal.add (.esdt s.lpTok) 0 (s.perTicket * (s.nrWinning + s.totalGuaranteed))) (.esdt s.lpTok) 0
    have hle : v1_owed s ≤ s.nrWinning + s.totalGuaranteed := by
      unfold v1_owed; split <;> omega
    have := Nat.mul_le_mul_left s.perTicket hle
    simp only [Bal.add, and_self, if_true]
    omega
  · show ng_Phase T0 ({ s.core with
        payBal := (s.bal.add (.esdt s.lpTok) 0 (s.perTicket * (s.nrWinning + s.totalGuaranteed)))
          s.payTok 0 - (nf_side s).feeIn } : Core) (v1_gv s)
    rw [hbal _ _ (by intro hh; exact h.tokNe hh.1)]
    exact h.phase

/-! ### setTicketPrice, setNftCost -/

theorem ng_setTicketPrice {T0 : Nat} {hash : List Nat → List Nat} {s s' : State} {e : Env} {o : Out}
    {r a : Nat} {tok : Token} (h : ng_WF T0 s r) (hr : r ≤ e.round)
    (hs : step hash s e (.setTicketPrice tok a) = .ok (s', o)) : ng_WF T0 s' e.round := by
  obtain ⟨t, hx, rfl⟩ := rb_step_np (by intro m hm; simp [endpointMeta] at hm; rw [← hm]) hs
  obtain ⟨h1, h2, h3, _, h5⟩ := exec_setTicketPrice_s hx
  have hlt : e.round < s.cfg.conf := rb_stage_addTickets h2
  have hz : ∀ a, s.confirmed a = 0 := h.tlConf (by omega)
  have hns : s.flags.started = false := ng_notStarted_of_lt h hr (Or.inl hlt)
  obtain ⟨hna, htg, L0, hp, ha, hg⟩ := ng_phase_notStarted h.phase hns
  obtain ⟨hheld, hb0⟩ := ng_addTickets_bal0 h hr hlt
  have hheld' : (nf_side { s with payTok := tok, price := a }).held = 0 := hheld
  have h1' : t.s = { s with payTok := tok, price := a } := h1
  rw [h1']
  have hs0 := h.side
  refine ng_WF_build _ rfl ?_ h.var h3 h5 h.static (fun _ => hz) ?_ ?_ h.noWinE ?_
  · refine ⟨?_, ?_, ?_, hs0.nodupP, hs0.nodupW, hs0.disj, hs0.winLe, hs0.conf, hs0.fresh,
      hs0.claimedOut, hs0.noWin⟩
    · intro t n _ a2 _; exact hb0 t n a2
    · intro _; rw [hheld']; exact Nat.zero_le _
    · intro _ a2
      rw [hheld']
      exact hb0 _ _ a2
  · intro hst; have := h.tlStarted hst; exact ⟨by omega, by omega⟩
  · intro _ hd
    exact ng_lp_of_notSel (s := s) h hp.notSelected (Or.inr (by omega)) hd
  · left
    refine v1_mk_phaseA hna htg (L0 := L0)
      ⟨hp.notFiltered, hp.notSelected, hp.nrw, hp.status0, hp.pos0, hp.ok, hp.outC, hp.outR, ?_⟩
      ⟨ha.notStarted, ha.op, ha.chain, ha.last⟩ ⟨hg.gi, hg.bl_range⟩
    show (nf_side { s with payTok := tok, price := a }).tix = a * sumOver s.confirmed (L0.map Prod.fst)
    rw [sumOver_zero _ _ (fun a _ => hz a)]
    unfold nf_Side.tix
    have : (nf_side { s with payTok := tok, price := a }).bal
        (nf_side { s with payTok := tok, price := a }).payTok 0 = s.bal tok 0 := rfl
    rw [this, hb0 tok 0 (by intro hh; exact h5 hh.1)]
    simp

theorem ng_setNftCost {T0 : Nat} {hash : List Nat → List Nat} {s s' : State} {e : Env} {o : Out}
    {r : Nat} {c : Pay} (h : ng_WF T0 s r) (hr : r ≤ e.round)
    (hs : step hash s e (.setNftCost c) = .ok (s', o)) : ng_WF T0 s' e.round := by
  obtain ⟨t, hx, rfl⟩ := rb_step_np (by
    intro m hm; simp only [endpointMeta] at hm; split at hm
    · simp at hm; rw [← hm]
    · cases hm) hs
  obtain ⟨h1, h2, _⟩ := exec_setNftCost_s hx
  have hlt : e.round < s.cfg.conf := rb_stage_addTickets h2
  have hz : ∀ a, s.confirmed a = 0 := h.tlConf (by omega)
  have hns : s.flags.started = false := ng_notStarted_of_lt h hr (Or.inl hlt)
  obtain ⟨hna, htg, L0, hp, ha, hg⟩ := ng_phase_notStarted h.phase hns
  obtain ⟨hheld, hb0⟩ := ng_addTickets_bal0 h hr hlt
  obtain ⟨hp0, hw0⟩ := ng_no_payers h hr hlt
  have hna' : s.flags.additional = false := hna
  have hheld' : (nf_side { s with nftCost := c }).held = 0 := by
    simp [nf_Side.held, nf_side, hna', hp0, hw0]
  have hfee' : (nf_side { s with nftCost := c }).feeIn = 0 := by
    unfold nf_Side.feeIn; split
    · exact hheld'
    · rfl
  have h1' : t.s = { s with nftCost := c } := h1
  rw [h1']
  have hs0 := h.side
  refine ng_WF_build _ rfl ?_ h.var h.pricePos h.tokNe h.static (fun _ => hz) ?_ ?_ h.noWinE ?_
  · refine ⟨?_, ?_, ?_, hs0.nodupP, hs0.nodupW, hs0.disj, hs0.winLe, hs0.conf, hs0.fresh,
      hs0.claimedOut, hs0.noWin⟩
    · intro t n _ a2 _; exact hb0 t n a2
    · intro _; rw [hheld']; exact Nat.zero_le _
    · intro _ a2
      rw [hheld']
      exact hb0 _ _ a2
  · intro hst; have := h.tlStarted hst; exact ⟨by omega, by omega⟩
  · intro _ hd
    exact ng_lp_of_notSel (s := s) h hp.notSelected (Or.inr (by omega)) hd
  · left
    refine v1_mk_phaseA hna htg (L0 := L0)
      ⟨hp.notFiltered, hp.notSelected, hp.nrw, hp.status0, hp.pos0, hp.ok, hp.outC, hp.outR, ?_⟩
      ⟨ha.notStarted, ha.op, ha.chain, ha.last⟩ ⟨hg.gi, hg.bl_range⟩
    show (nf_side { s with nftCost := c }).tix = s.price * sumOver s.confirmed (L0.map Prod.fst)
    rw [sumOver_zero _ _ (fun a _ => hz a)]
    unfold nf_Side.tix
    rw [hfee']
    have : (nf_side { s with nftCost := c }).bal (nf_side { s with nftCost := c }).payTok 0
        = s.bal s.payTok 0 := rfl
    rw [this, hb0 s.payTok 0 (by intro hh; exact h.tokNe hh.1)]
    simp

/-! ### confirm -/

theorem ng_confirm {T0 : Nat} {hash : List Nat → List Nat} {s s' : State} {e : Env} {o : Out}
    {r n : Nat} (h : ng_WF T0 s r) (hr : r ≤ e.round) (hok : EnvOK e)
    (hs : step hash s e (.confirm n) = .ok (s', o)) : ng_WF T0 s' e.round := by
  obtain ⟨total, hacc, rfl, _⟩ := LP.Props.C07.confirm_effect hash s e n s' o hs
  have hbal := LP.Props.C07.confirm_holdings s e n total hacc hok
  obtain ⟨_, _, hst, hdep, _, htix, hle⟩ := hacc
  obtain ⟨hc1, hc2⟩ := rb_stage_confirm hst
  have hns : s.flags.started = false := ng_notStarted_of_lt h hr (Or.inr hc2)
  obtain ⟨hna, htg, L0, hp, ha, hg⟩ := ng_phase_notStarted h.phase hns
  have hcp : creditPayments s e = { s with bal := s.bal.add s.payTok 0 (s.price * n) } := by
    have : creditPayments s e = { s with bal := (creditPayments s e).bal } := rfl
    rw [this, hbal]
  rw [hcp]
  have hin : e.caller ∈ L0.map Prod.fst → ∀ p ∈ L0, p.1 = e.caller → s.confirmed e.caller + n ≤ p.2 := by
    intro _ p hp1 hpe
    have : total = p.2 := rb_ticketsFor_chain ha.chain hp.ok.pos hp1 (by rw [hpe]; exact htix)
    omega
  have hout : e.caller ∉ L0.map Prod.fst → n = 0 ∧ s.confirmed e.caller = 0 := by
    intro hnin
    have hrn : s.range e.caller = none := hp.outR _ hnin
    have hc0 : s.confirmed e.caller = 0 := hp.outC _ hnin
    unfold ticketsFor at htix
    rw [hrn] at htix
    simp only [Except.ok.injEq] at htix
    omega
  have hfl := nf_feeIn_le h.side
  have hfl' : (nf_side s).feeIn ≤ s.bal s.payTok 0 := hfl
  have hs0 := h.side
  refine ng_WF_build _ rfl ?_ h.var h.pricePos h.tokNe h.static ?_ ?_ ?_ h.noWinE ?_
  · refine ⟨?_, ?_, ?_, hs0.nodupP, hs0.nodupW, hs0.disj, hs0.winLe, ?_, hs0.fresh,
      hs0.claimedOut, hs0.noWin⟩
    · intro t k a1 a2 a3
      show (s.bal.add s.payTok 0 (s.price * n)) t k = 0
      have a1' : ¬ (t = s.payTok ∧ k = 0) := a1
      simp only [Bal.add, a1', if_false]
      exact hs0.balOther t k a1 a2 a3
    · intro hsm
      have := hs0.feeLe hsm
      show (nf_side s).held ≤ (s.bal.add s.payTok 0 (s.price * n)) s.payTok 0
      have hadd : (s.bal.add s.payTok 0 (s.price * n)) s.payTok 0 = s.bal s.payTok 0 + s.price * n := by
        simp [Bal.add]
      rw [hadd]
      have : (nf_side s).held ≤ s.bal s.payTok 0 := this
      omega
    · intro a1 a2
      have := hs0.feeEq a1 a2
      show (s.bal.add s.payTok 0 (s.price * n)) s.nftCost.tok s.nftCost.nonce = (nf_side s).held
      have a1' : ¬ (s.nftCost.tok = s.payTok ∧ s.nftCost.nonce = 0) := a1
      simp only [Bal.add, a1', if_false]
      exact this
    · intro a ha1
      show 0 < upd s.confirmed e.caller (s.confirmed e.caller + n) a
      have := hs0.conf a ha1
      have : 0 < s.confirmed a := this
      by_cases hae : a = e.caller
      · subst hae; rw [upd_same]; omega
      · rw [upd_other _ _ _ _ hae]; exact this
  · intro hlt; exfalso; have : e.round < s.cfg.conf := hlt; omega
  · intro hst2; have := h.tlStarted hst2; exact ⟨by omega, by omega⟩
  · intro hq hd
    show s.perTicket * v1_owed s ≤ (s.bal.add s.payTok 0 (s.price * n)) (.esdt s.lpTok) 0
    have hne : Token.esdt s.lpTok ≠ s.payTok := fun hh => h.tokNe hh.symm
    simp only [Bal.add, hne, false_and, if_false]
    refine ng_lp_of_notSel (s := s) h hp.notSelected (hq.imp id (fun hq' => ?_)) hd
    have : e.round < s.cfg.conf := hq'
    omega
  · left
    refine v1_mk_phaseA hna htg (L0 := L0)
      ⟨hp.notFiltered, hp.notSelected, hp.nrw, hp.status0, hp.pos0,
        ⟨hp.ok.nodup, hp.ok.pos, ?_⟩, ?_, hp.outR, ?_⟩
      ⟨ha.notStarted, ha.op, ha.chain, ha.last⟩ ⟨hg.gi, hg.bl_range⟩
    · intro p hp1
      show upd s.confirmed e.caller (s.confirmed e.caller + n) p.1 ≤ p.2
      by_cases hpe : p.1 = e.caller
      · rw [hpe, upd_same]
        exact hin (by rw [← hpe]; exact List.mem_map_of_mem hp1) p hp1 hpe
      · rw [upd_other _ _ _ _ hpe]; exact hp.ok.le p hp1
    · intro a ha1
      show upd s.confirmed e.caller (s.confirmed e.caller + n) a = 0
      by_cases hae : a = e.caller
      · subst hae
        obtain ⟨hn0, hc0⟩ := hout ha1
        rw [upd_same, hn0, hc0]
      · rw [upd_other _ _ _ _ hae]; exact hp.outC a ha1
    · show (s.bal.add s.payTok 0 (s.price * n)) s.payTok 0 - (nf_side s).feeIn
        = s.price * sumOver (upd s.confirmed e.caller (s.confirmed e.caller + n)) (L0.map Prod.fst)
      have hpay : s.bal s.payTok 0 - (nf_side s).feeIn
          = s.price * sumOver s.confirmed (L0.map Prod.fst) := hp.pay
      have hadd : (s.bal.add s.payTok 0 (s.price * n)) s.payTok 0 = s.bal s.payTok 0 + s.price * n := by
        simp [Bal.add]
      rw [hadd]
      by_cases hmem : e.caller ∈ L0.map Prod.fst
      · have := sumOver_upd_mem s.confirmed (L0.map Prod.fst) e.caller (s.confirmed e.caller + n)
          hp.ok.nodup hmem
        have e1 : sumOver (upd s.confirmed e.caller (s.confirmed e.caller + n)) (L0.map Prod.fst)
            = sumOver s.confirmed (L0.map Prod.fst) + n := by omega
        rw [e1, Nat.mul_add]; omega
      · obtain ⟨hn0, _⟩ := hout hmem
        rw [sumOver_upd_not_mem _ _ _ _ hmem, hn0]; simp only [Nat.mul_zero, Nat.add_zero]
        exact hpay

/-! ### confirmNft -/

theorem ng_confirmNft {T0 : Nat} {hash : List Nat → List Nat} {s s' : State} {e : Env} {o : Out}
    {r : Nat} (h : ng_WF T0 s r) (hr : r ≤ e.round) (hok : EnvOK e)
    (hs : step hash s e .confirmNft = .ok (s', o)) : ng_WF T0 s' e.round := by
  obtain ⟨hacc, rfl, _⟩ := confirmNft_effect hash s e s' o hs
  have hbal := confirmNft_holdings s e hacc hok
  obtain ⟨_, hst, _, hcpos, hnotin, _⟩ := hacc
  obtain ⟨hc1, hc2⟩ := rb_stage_confirm hst
  have hns : s.flags.started = false := ng_notStarted_of_lt h hr (Or.inr hc2)
  obtain ⟨hna, hnsel, hw0⟩ := ng_early_side h hns
  have hcp : ({ creditPayments s e with payers := s.payers ++ [e.caller] } : State)
      = nf_cnState s e.caller := by
    have : creditPayments s e = { s with bal := (creditPayments s e).bal } := rfl
    rw [this, hbal]
    rfl
  rw [hcp]
  have hs0 := h.side
  have hheld : (nf_side (nf_cnState s e.caller)).held = (nf_side s).held + s.nftCost.amount := by
    simp only [nf_Side.held, nf_side, nf_cnState, hna, Bool.false_eq_true, if_false, List.length_append,
      List.length_singleton, Nat.mul_add, Nat.mul_one]
    omega
  have hsame : (nf_side (nf_cnState s e.caller)).same ↔ (nf_side s).same := Iff.rfl
  have htix : (nf_side (nf_cnState s e.caller)).tix = (nf_side s).tix := by
    unfold nf_Side.tix nf_Side.feeIn
    by_cases hsm : (nf_side s).same
    · have hsm' : s.nftCost.tok = s.payTok ∧ s.nftCost.nonce = 0 := hsm
      rw [if_pos (hsame.mpr hsm), if_pos hsm, hheld]
      show (s.bal.add s.nftCost.tok s.nftCost.nonce s.nftCost.amount) s.payTok 0 - _ = s.bal s.payTok 0 - _
      rw [hsm'.1, hsm'.2]
      simp only [Bal.add, and_self, if_true]
      omega
    · have hsm' : ¬ (s.payTok = s.nftCost.tok ∧ 0 = s.nftCost.nonce) := by
        intro hh; exact hsm ⟨hh.1.symm, hh.2.symm⟩
      rw [if_neg (fun hh => hsm (hsame.mp hh)), if_neg hsm]
      show (s.bal.add s.nftCost.tok s.nftCost.nonce s.nftCost.amount) s.payTok 0 - 0 = s.bal s.payTok 0 - 0
      simp only [Bal.add, hsm', if_false]
  refine ng_WF_build _ rfl ?_ h.var h.pricePos h.tokNe h.static ?_ ?_ ?_ (fun _ _ => hw0) ?_
  · refine ⟨?_, ?_, ?_, ?_, hs0.nodupW, ?_, hs0.winLe, ?_, hs0.fresh, ?_, hs0.noWin⟩
    · intro t k a1 a2 a3
      show (s.bal.add s.nftCost.tok s.nftCost.nonce s.nftCost.amount) t k = 0
      have a3' : ¬ (t = s.nftCost.tok ∧ k = s.nftCost.nonce) := a3
      simp only [Bal.add, a3', if_false]
      exact hs0.balOther t k a1 a2 a3
    · intro hsm
      have hsm0 : (nf_side s).same := hsame.mp hsm
      have hsm' : s.nftCost.tok = s.payTok ∧ s.nftCost.nonce = 0 := hsm0
      have := hs0.feeLe hsm0
      have : (nf_side s).held ≤ s.bal s.payTok 0 := this
      rw [hheld]
      show _ ≤ (s.bal.add s.nftCost.tok s.nftCost.nonce s.nftCost.amount) s.payTok 0
      rw [hsm'.1, hsm'.2]
      simp only [Bal.add, and_self, if_true]
      omega
    · intro a1 a2
      have := hs0.feeEq (fun hh => a1 (hsame.mpr hh)) a2
      have : s.bal s.nftCost.tok s.nftCost.nonce = (nf_side s).held := this
      rw [hheld]
      show (s.bal.add s.nftCost.tok s.nftCost.nonce s.nftCost.amount) s.nftCost.tok s.nftCost.nonce = _
      simp only [Bal.add, and_self, if_true]
      omega
    · show (s.payers ++ [e.caller]).Nodup
      have := setInsert_nodup e.caller hs0.nodupP
      have hq : setInsert s.payers e.caller = (s.payers ++ [e.caller], true) := setInsert_new hnotin
      have hq' : (setInsert (nf_side s).payers e.caller).1 = s.payers ++ [e.caller] := by
        show (setInsert s.payers e.caller).1 = _; rw [hq]
      rw [hq'] at this
      exact this
    · intro a _
      show a ∉ s.nftWinners
      rw [hw0]; simp
    · intro a ha1
      show 0 < s.confirmed a
      have ha1' : a ∈ s.payers ++ [e.caller] ∨ a ∈ s.nftWinners := ha1
      rcases ha1' with ha1' | ha1'
      · rcases List.mem_append.mp ha1' with h1 | h1
        · exact hs0.conf a (Or.inl h1)
        · simp only [List.mem_singleton] at h1; subst h1; exact hcpos
      · exact hs0.conf a (Or.inr ha1')
    · intro a hcl
      have := hs0.fresh hna a
      have hcl' : s.claimed a = true := hcl
      have : s.claimed a = false := this
      rw [this] at hcl'; cases hcl'
  · intro hlt; exfalso; have : e.round < s.cfg.conf := hlt; omega
  · intro hst2; have := h.tlStarted hst2; exact ⟨by omega, by omega⟩
  · intro hq hd
    have hnl : ¬ (nf_side s).isLp := by
      rcases hq with hq | hq
      · exact hq
      · exfalso; have : e.round < s.cfg.conf := hq; omega
    have hnl' : ¬ (Token.esdt s.lpTok = s.nftCost.tok ∧ 0 = s.nftCost.nonce) := by
      intro hh; exact hnl ⟨hh.1.symm, hh.2.symm⟩
    show s.perTicket * v1_owed s ≤
      (s.bal.add s.nftCost.tok s.nftCost.nonce s.nftCost.amount) (.esdt s.lpTok) 0
    simp only [Bal.add, hnl', if_false]
    exact ng_lp_of_notSel (s := s) h hnsel (Or.inl hnl) hd
  · rw [htix]
    exact h.phase

end LP
