import LP.Proofs.ZeroAllocNft1
import LP.Proofs.ZeroAllocNft2
import LP.Proofs.ZeroAllocNft3
import LP.Proofs.ZeroAllocNft4
/-
  LP.Proofs.ZeroAllocNft — zero-size allocation entries for the launchpad with NFT draw
  (`Variant.nft`): umbrella of the four parts.

    ZeroAllocNft1  the endpoints that neither read nor write `range`/`batch`/`blacklist`/`claimed`
                   (incl. `confirmNft`, `selectNft`, `setNftCost`, `sftSetup`, `claimPayment` with the
                   NFT hook) commute with the overwriting `z_w`               (`zn_step_indep`)
    ZeroAllocNft2  `blacklist` with the fee-refund loop, `claim` with `claimNft`
                   (`zn_exec_blacklist`, `zn_claimBase`)
    ZeroAllocNft3  the relation `ZnSim`, the per-endpoint simulation lemmas `zn_sim_*`, the stutter
                   lemma `zn_claim_stutter` (one SFT of category 3) and the SIMULATION THEOREM
                   `zn_sim` / `zn_sim_reach`
    ZeroAllocNft4  invariants that need no simulation (`zn_reachZ_NftLp`, `zn_reachZ_noConf`),
                   acceptance of a claim (`zn_claim_accepts`), `zn_Later` / `zn_later_frozen`
-/
