import LP.Proofs.ZeroAllocNft1
/-
  LP.Proofs.ZeroAllocNft2 — zero-size allocations for `Variant.nft`, part 2: the two endpoints of
  the launchpad with NFT draw that read the allocation maps AND run the NFT hook:

  * `blacklist l` = `addUsersToBlacklist` + `refundNftMany l`: on the erased state the addresses with
    an empty range are skipped; they are not fee payers (nothing confirmed), so the fee-refund loop
    over the shorter list does the same (`zn_refundNftMany_filter`, `zn_exec_blacklist`);
  * `claim` = common claim + `claimNft`: a claim by a holder of a non-empty range is matched by the
    same claim (`zn_claimBase`).
-/
namespace LP

section
variable {R : Nat → Option Range} {B : Nat → Option Batch} {K C : Nat → Bool}

/-! ### the fee-refund loop of `blacklist` -/

theorem zn_refundNftMany : ∀ (l : List Nat) (t : Tx),
    refundNftMany l (z_wt t R B K C) = mapR (z_wt · R B K C) (refundNftMany l t)
  | [], t => rfl
  | u :: rest, t => by
    unfold refundNftMany
    show (if (swapRemove t.s.payers u).2 = true then _ else _) = _
    by_cases hd : (swapRemove t.s.payers u).2 = true
    · simp only [hd, if_true]
      have h1 := z_send (R := R) (B := B) (K := K) (C := C)
        (t.setS { t.s with payers := (swapRemove t.s.payers u).1 }) u t.s.nftCost
      refine Eq.trans (b := match mapR (z_wt · R B K C)
          ((t.setS { t.s with payers := (swapRemove t.s.payers u).1 }).send u t.s.nftCost) with
        | .error e => .error e
        | .ok t' => refundNftMany rest t') ?_ ?_
      · rw [← h1]; rfl
      · cases (t.setS { t.s with payers := (swapRemove t.s.payers u).1 }).send u t.s.nftCost with
        | error err => rfl
        | ok t1 => exact zn_refundNftMany rest t1
    · simp only [hd, if_false, Bool.false_eq_true]
      exact zn_refundNftMany rest t

end

/-- skipping addresses that are not fee payers does not change the fee-refund loop -/
theorem zn_refundNftMany_filter (p : Nat → Bool) : ∀ (l : List Nat) (t : Tx),
    (∀ a ∈ l, p a = false → a ∉ t.s.payers) →
    refundNftMany l t = refundNftMany (l.filter p) t
  | [], _, _ => rfl
  | u :: rest, t, h => by
    by_cases hp : p u = true
    · rw [List.filter_cons_of_pos hp]
      unfold refundNftMany
      by_cases hd : (swapRemove t.s.payers u).2 = true
      · simp only [hd, if_true]
        cases hs : (t.setS { t.s with payers := (swapRemove t.s.payers u).1 }).send u t.s.nftCost with
        | error err => rfl
        | ok t1 =>
          simp only
          apply zn_refundNftMany_filter p rest t1
          intro a ha hpa
          rw [send_ok_iff] at hs
          rw [hs.2]
          show a ∉ (swapRemove t.s.payers u).1
          have hnot := h a (List.mem_cons_of_mem _ ha) hpa
          intro hin
          exact hnot (List.mem_of_mem_erase ((nd_swapRemove_perm _ _).subset hin))
      · simp only [hd, if_false, Bool.false_eq_true]
        exact zn_refundNftMany_filter p rest t (fun a ha => h a (List.mem_cons_of_mem _ ha))
    · have hp' : p u = false := by cases h' : p u <;> simp_all
      rw [List.filter_cons_of_neg (by simp [hp'])]
      have hnot : u ∉ t.s.payers := h u (List.mem_cons_self ..) hp'
      conv => lhs; unfold refundNftMany
      rw [LP.swapRemove_not_mem hnot]
      simp only [Bool.false_eq_true, if_false]
      exact zn_refundNftMany_filter p rest t (fun a ha => h a (List.mem_cons_of_mem _ ha))

/-- `addUsersToBlacklist` does not touch the list of fee payers -/
theorem zn_blacklistMany_payers (e : Env) : ∀ (l : List Nat) {t t' : Tx},
    blacklistMany e l t = .ok t' → t'.s.payers = t.s.payers
  | [], t, t', h => by simp only [blacklistMany, Except.ok.injEq] at h; rw [h]
  | a :: rest, t, t', h => by
    unfold blacklistMany at h
    split at h
    · cases h
    split at h
    · cases h
    simp only at h
    cases hx : (if t.s.confirmed a > 0 then t.refund e a (t.s.confirmed a) else .ok t) with
    | error err => rw [hx] at h; cases h
    | ok t1 =>
      rw [hx] at h
      simp only at h
      have := zn_blacklistMany_payers e rest h
      rw [this]
      have h1 : t1.s.payers = t.s.payers := by
        split at hx
        · rw [refund_ok_iff] at hx
          rw [hx.2, refundResult_state]
        · cases hx; rfl
      split <;> exact h1

/-- the body of `blacklist` (variants with the NFT hook, without guaranteed tickets) -/
theorem zn_exec_blacklist {hash : List Nat → List Nat} {t t' : Tx} {e : Env} {l : List Nat}
    (B : Nat → Option Batch) (K C : Nat → Bool) (hv : t.s.variant = .nft)
    (h : exec hash t e (.blacklist l) = .ok t')
    (hK : ∀ a, K a = true → t.s.blacklist a = true)
    (hc : ∀ a ∈ l, z_eraseR t.s.range a = none → t.s.confirmed a = 0)
    (hp : ∀ a ∈ l, z_eraseR t.s.range a = none → a ∉ t.s.payers) :
    ∃ K', exec hash (z_wt t (z_eraseR t.s.range) B K C) e
          (.blacklist (l.filter (fun a => (z_eraseR t.s.range a).isSome)))
        = .ok (z_wt t' (z_eraseR t.s.range) B K' C) ∧
      (∀ a, K' a = true → t'.s.blacklist a = true) := by
  obtain ⟨_, f1, f2, f3, _⟩ := nf_flags hv
  simp only [exec, bind_ok_iff] at h
  obtain ⟨t1, h1, h⟩ := h
  have hvar : t1.s.variant = t.s.variant := congrArg Terms.variant (addUsersToBlacklist_terms h1)
  simp only [hvar, f1, f2, f3, Bool.false_eq_true, if_false, if_true, pure_bind, bind_ok_iff] at h
  obtain ⟨t2, h2, h⟩ := h
  have hvar2 : t2.s.variant = t.s.variant :=
    (congrArg Terms.variant (refundNftMany_terms h2)).trans hvar
  simp only [hvar2, f2, Bool.false_eq_true, if_false, pure_ok_iff] at h
  subst h
  have h1' := h1
  unfold addUsersToBlacklist at h1
  simp only [bind_ok_iff, req_ok_iff, exists_const] at h1
  obtain ⟨p1, p2, p3, p4⟩ := h1
  have hpay1 : t1.s.payers = t.s.payers := zn_blacklistMany_payers e l p4
  obtain ⟨K', k1, k2⟩ := z_blacklistMany e t.s.range B C l K p4 rfl hK hc
  have hbl2 : t2.s.blacklist = t1.s.blacklist := by
    have := refundNftMany_cb l h2
    exact congrArg CB.blacklist this
  refine ⟨K', ?_, fun a ha => by rw [hbl2]; exact k2 a ha⟩
  have hz : addUsersToBlacklist (z_wt t (z_eraseR t.s.range) B K C) e
      (l.filter (fun a => (z_eraseR t.s.range a).isSome)) = .ok (z_wt t1 (z_eraseR t.s.range) B K' C) := by
    unfold addUsersToBlacklist
    simp only [bind_ok_iff, req_ok_iff, exists_const]
    exact ⟨p1, p2, p3, k1⟩
  have hvz : (z_wt t1 (z_eraseR t.s.range) B K' C).s.variant = t.s.variant := hvar
  have hrf : refundNftMany (l.filter (fun a => (z_eraseR t.s.range a).isSome))
      (z_wt t1 (z_eraseR t.s.range) B K' C) = .ok (z_wt t2 (z_eraseR t.s.range) B K' C) := by
    rw [zn_refundNftMany, ← zn_refundNftMany_filter _ l t1, h2]
    · rfl
    · intro a ha hpa
      rw [hpay1]
      apply hp a ha
      cases hz : z_eraseR t.s.range a with
      | none => rfl
      | some r => rw [hz] at hpa; simp at hpa
  have hvz2 : (z_wt t2 (z_eraseR t.s.range) B K' C).s.variant = t.s.variant := hvar2
  simp only [exec, hz, bind, Except.bind, hvz, f1, f2, f3, Bool.false_eq_true, if_false, pure, Except.pure,
    if_true, hrf, hvz2]

/-! ### claim -/

section
variable {R : Nat → Option Range} {B : Nat → Option Batch} {K C : Nat → Bool}

theorem zn_claimNft (t : Tx) (e : Env) :
    claimNft (z_wt t R B K C) e = mapR (z_wt · R B K C) (claimNft t e) := by
  rw [claimNft_eq, claimNft_eq]
  by_cases hw : (swapRemove t.s.nftWinners e.caller).2 = true
  · have hw' : (swapRemove (z_wt t R B K C).s.nftWinners e.caller).2 = true := hw
    simp only [hw, hw', if_true, mapR_bind]
    refine bind_congr_fun ?_; intro _
    rfl
  · have hw' : ¬ (swapRemove (z_wt t R B K C).s.nftWinners e.caller).2 = true := hw
    simp only [hw, hw']
    by_cases hp : (swapRemove t.s.payers e.caller).2 = true
    · have hp' : (swapRemove ((z_wt t R B K C).setS
          { (z_wt t R B K C).s with nftWinners := (swapRemove (z_wt t R B K C).s.nftWinners e.caller).1 }).s.payers
          e.caller).2 = true := hp
      have hp2 : (swapRemove (t.setS
          { t.s with nftWinners := (swapRemove t.s.nftWinners e.caller).1 }).s.payers
          e.caller).2 = true := hp
      simp only [hp2, hp', if_true, mapR_bind]
      refine bind_congr_fun ?_; intro _
      rhs_exact z_send _ _ _
    · have hp' : ¬ (swapRemove ((z_wt t R B K C).setS
          { (z_wt t R B K C).s with nftWinners := (swapRemove (z_wt t R B K C).s.nftWinners e.caller).1 }).s.payers
          e.caller).2 = true := hp
      have hp2 : ¬ (swapRemove (t.setS
          { t.s with nftWinners := (swapRemove t.s.nftWinners e.caller).1 }).s.payers
          e.caller).2 = true := hp
      simp only [hp2, hp', mapR_bind]
      refine bind_congr_fun ?_; intro _
      rfl

/-- **a claim by an address whose range is not empty** is matched by the same claim on the
    erased state (with or without the NFT hook) -/
theorem zn_claimBase {t t' : Tx} {e : Env} {r : Range}
    (h : claimBase t e = .ok t') (hr : t.s.range e.caller = some r)
    (hR : R e.caller = some r) (hC : C e.caller = t.s.claimed e.caller) :
    claimBase (z_wt t R B K C) e
      = .ok (z_wt t' (upd R e.caller none) (upd B r.first none) K (upd C e.caller true)) := by
  unfold claimBase at h ⊢
  simp only [bind_ok_iff] at h
  obtain ⟨x, hx, t1, h1, t2, h2, h3⟩ := h
  have hs : settle (z_wt t R B K C).s e
      = .ok (z_w x.1 (upd R e.caller none) (upd B r.first none) K (upd C e.caller true), x.2) := by
    show settle (z_w t.s R B K C) e = _
    rw [z_settle t.s e r hr hR hC, hx]; rfl
  rw [hs]
  show ((z_wt (t.setS x.1) (upd R e.caller none) (upd B r.first none) K (upd C e.caller true)).refund
      e e.caller x.2.2 >>= _) = _
  rw [z_refund, h1]
  show ((z_wt t1 (upd R e.caller none) (upd B r.first none) K (upd C e.caller true)).sendLaunchpadTokens
      e e.caller x.2.1 >>= _) = _
  rw [z_sendLp, h2]
  show (if t2.s.variant.hasNft = true then claimNft (z_wt t2 _ _ _ _) e else pure (z_wt t2 _ _ _ _)) = _
  by_cases hn : t2.s.variant.hasNft = true
  · rw [if_pos hn] at h3 ⊢
    rw [zn_claimNft, h3]; rfl
  · rw [if_neg hn] at h3 ⊢
    simp only [pure_ok_iff] at h3
    subst h3; rfl

end

end LP
