import LP.Proofs.ZeroAlloc3
import LP.Proofs.ReachNftFrame
/-
  LP.Proofs.ZeroAllocNft1 — zero-size allocations for `Variant.nft`, part 1.

  The endpoints `deposit`, the setters, `setSupport`, `pause`, `unpause`, `select`, `claimPayment`
  (= common withdrawal + `claimNftPayment`), `confirmNft`, `selectNft`, `setNftCost`, `sftSetup`
  neither read nor write the four fields `range`, `batch`, `blacklist`, `claimed`: their bodies
  COMMUTE with the overwriting `z_w` (`zn_exec_indep`), hence so does `step` (`zn_step_indep`).
  (`z_exec_indep` of LP/Proofs/ZeroAlloc1.lean assumes `hasNft = false`.)
-/
namespace LP

section
variable {R : Nat → Option Range} {B : Nat → Option Batch} {K C : Nat → Bool}

theorem zn_confirmNft (s : State) (e : Env) :
    confirmNft (z_w s R B K C) e = mapR (z_w · R B K C) (confirmNft s e) := by
  unfold confirmNft
  z_peel

theorem zn_claimNftPayment (t : Tx) (e : Env) :
    claimNftPayment (z_wt t R B K C) e = mapR (z_wt · R B K C) (claimNftPayment t e) := by
  unfold claimNftPayment
  simp only [mapR_bind]
  show (requireStage t.s e .claim _ >>= fun _ => _) = _
  refine bind_congr_fun ?_; intro _
  by_cases hc : t.s.claimableNft > 0
  · have hc' : (z_wt t R B K C).s.claimableNft > 0 := hc
    rw [if_pos hc, if_pos hc']
    simp only [mapR_bind]
    refine bind_eq_bind_of_mapR (z_wt · R B K C) ?_ ?_
    · rhs_exact z_send _ _ _
    · intro t1; rfl
  · have hc' : ¬ (z_wt t R B K C).s.claimableNft > 0 := hc
    rw [if_neg hc, if_neg hc']; rfl

def zn_wn (x : NSt) (R : Nat → Option Range) (B : Nat → Option Batch) (K C : Nat → Bool) : NSt :=
  { x with tx := z_wt x.tx R B K C }

theorem zn_nftBody (hash : List Nat → List Nat) (total : Nat) (x : NSt) :
    nftBody hash total (zn_wn x R B K C) = mapR (fst1 (zn_wn · R B K C)) (nftBody hash total x) := by
  unfold nftBody
  simp only [zn_wn, z_draw]
  ite_both
  · rfl
  split <;> rfl

theorem zn_nftSubstep (hash : List Nat → List Nat) (t : Tx) (rng : Rng) :
    nftSubstep hash (z_wt t R B K C) rng = mapR (fst1 (z_wt · R B K C)) (nftSubstep hash t rng) := by
  unfold nftSubstep
  simp only [mapR_bind]
  refine bind_eq_bind_of_mapR (fst1 (zn_wn · R B K C)) ?_ ?_
  · rhs_exact runWhile_commutes (zn_wn · R B K C) _ (zn_nftBody hash _) _ _ _
  · intro ⟨y, b2, st2⟩
    cases st2 <;> rfl

theorem zn_selectNft (hash : List Nat → List Nat) (t : Tx) (e : Env) :
    selectNft hash (z_wt t R B K C) e = mapR (z_wt · R B K C) (selectNft hash t e) := by
  unfold selectNft
  show (requireStage t.s e .winnerSelection _ >>= fun _ => _) = _
  simp only [mapR_bind]
  refine bind_congr_fun ?_; intro _
  show (req t.s.flags.selected _ >>= fun _ => _) = _
  refine bind_congr_fun ?_; intro _
  show (req (!t.s.flags.additional) _ >>= fun _ => _) = _
  refine bind_congr_fun ?_; intro _
  have hop' : (z_wt t R B K C).s.op = t.s.op := rfl
  cases hop : t.s.op with
  | none =>
    simp only [hop', hop, z_freshRng, mapR_bind, pure_bind]
    refine bind_eq_bind_of_mapR (fst1 (z_wt · R B K C)) ?_ ?_
    · rhs_exact zn_nftSubstep hash _ _
    · intro ⟨y, r2, st2⟩
      cases st2 <;> rfl
  | additional d =>
    cases d with
    | nft r =>
      simp only [hop', hop, mapR_bind, pure_bind]
      refine bind_eq_bind_of_mapR (fst1 (z_wt · R B K C)) ?_ ?_
      · rhs_exact zn_nftSubstep hash _ _
      · intro ⟨y, r2, st2⟩
        cases st2 <;> rfl
    | guar g => simp only [hop', hop]; rfl
  | _ => simp only [hop', hop] <;> rfl

/-- the endpoints of `Variant.nft` that neither read nor write `range`, `batch`, `blacklist`,
    `claimed` -/
def zn_indep : Call → Bool
  | .deposit | .setTicketPrice _ _ | .setPerTicket _ | .setConfStart _ | .setSelStart _
  | .setClaimStart _ | .setSupport _ | .pause | .unpause | .select | .claimPayment
  | .confirmNft | .selectNft | .setNftCost _ | .sftSetup => true
  | _ => false

/-- **the bodies of the independent endpoints commute with overwriting the four fields**
    (variants without vesting; with or without the NFT hook) -/
theorem zn_exec_indep (hash : List Nat → List Nat) (t : Tx) (e : Env) (c : Call)
    (hc : zn_indep c = true) (hv : t.s.variant.vested = false) :
    exec hash (z_wt t R B K C) e c = mapR (z_wt · R B K C) (exec hash t e c) := by
  cases c with
  | deposit =>
    simp only [exec, depositLaunchpadTokens]
    z_peel
  | setTicketPrice tok a =>
    simp only [exec, trySetTicketPrice]
    z_peel
  | setPerTicket a => simp only [exec]; z_peel
  | setConfStart x => simp only [exec, validTimelineChange]; z_peel
  | setSelStart x => simp only [exec, validTimelineChange]; z_peel
  | setClaimStart x => simp only [exec, validTimelineChange]; z_peel
  | setSupport a => rfl
  | pause => rfl
  | unpause => rfl
  | sftSetup => rfl
  | setNftCost p => simp only [exec, validCost]; z_peel
  | select => exact z_selectWinners hash t e
  | selectNft => exact zn_selectNft hash t e
  | confirmNft =>
    simp only [exec, mapR_bind]
    refine bind_eq_bind_of_mapR (z_w · R B K C) ?_ ?_
    · rhs_exact zn_confirmNft _ _
    · intro s1; rfl
  | claimPayment =>
    have hv' : (z_wt t R B K C).s.variant.vested = false := hv
    simp only [exec, hv, hv', Bool.false_eq_true, if_false]
    rw [z_claimPaymentCommon]
    cases hcp : claimPaymentCommon t e with
    | error err => rfl
    | ok t1 =>
      simp only [mapR_ok, bind, Except.bind]
      show (if t1.s.variant.hasNft = true then claimNftPayment (z_wt t1 R B K C) e else pure (z_wt t1 R B K C)) = _
      by_cases hn : t1.s.variant.hasNft = true
      · rw [if_pos hn, if_pos hn]; exact zn_claimNftPayment t1 e
      · rw [if_neg hn, if_neg hn]; rfl
  | _ => simp [zn_indep] at hc

/-- **`step` of an independent endpoint commutes with overwriting the four fields** -/
theorem zn_step_indep_eq (hash : List Nat → List Nat) (s : State) (e : Env) (c : Call)
    (hc : zn_indep c = true) (hv : s.variant.vested = false) :
    step hash (z_w s R B K C) e c
      = mapR (fun p => (z_w p.1 R B K C, p.2)) (step hash s e c) := by
  unfold step
  show (match endpointMeta s.variant c with | none => _ | some m => _) = _
  cases endpointMeta s.variant c with
  | none => rfl
  | some m =>
    show (if _ then _ else if (m.ownerOnly && e.caller != s.owner) = true then _ else _) = _
    simp only
    ite_both
    · rfl
    ite_both
    · rfl
    have hx := zn_exec_indep (R := R) (B := B) (K := K) (C := C) hash
      ⟨creditPayments s e, ⟨e.budget, e.seeds, e.script⟩, {}⟩ e c hc hv
    have hx' : exec hash ⟨creditPayments (z_w s R B K C) e, ⟨e.budget, e.seeds, e.script⟩, {}⟩ e c
        = mapR (z_wt · R B K C) (exec hash ⟨creditPayments s e, ⟨e.budget, e.seeds, e.script⟩, {}⟩ e c) := hx
    rw [hx']
    cases exec hash ⟨creditPayments s e, ⟨e.budget, e.seeds, e.script⟩, {}⟩ e c <;> rfl

theorem zn_step_indep {hash : List Nat → List Nat} {s s' : State} {e : Env} {c : Call} {o : Out}
    (hc : zn_indep c = true) (hv : s.variant.vested = false)
    (h : step hash s e c = .ok (s', o)) :
    step hash (z_w s R B K C) e c = .ok (z_w s' R B K C, o) := by
  rw [zn_step_indep_eq hash s e c hc hv, h]; rfl

end

/-- an independent endpoint leaves the four fields alone -/
theorem zn_step_indep_frame {hash : List Nat → List Nat} {s s' : State} {e : Env} {c : Call} {o : Out}
    (hc : zn_indep c = true) (hv : s.variant.vested = false)
    (h : step hash s e c = .ok (s', o)) :
    s'.range = s.range ∧ s'.batch = s.batch ∧ s'.blacklist = s.blacklist ∧ s'.claimed = s.claimed := by
  have h2 := zn_step_indep (R := s.range) (B := s.batch) (K := s.blacklist) (C := s.claimed) hc hv h
  rw [z_w_self, h] at h2
  have h3 : s' = z_w s' s.range s.batch s.blacklist s.claimed := by
    injection h2 with h2; injection h2
  refine ⟨?_, ?_, ?_, ?_⟩
  · exact (congrArg State.range h3).trans rfl
  · exact (congrArg State.batch h3).trans rfl
  · exact (congrArg State.blacklist h3).trans rfl
  · exact (congrArg State.claimed h3).trans rfl

end LP
