import LP.Proofs.StepLemmas
import LP.Proofs.Loop
import LP.Proofs.Claim
/-
  LP.Proofs.NftDraw — the unordered set (`setInsert` / `swapRemove`), the NFT draw loop
  (`nftBody`, `nftSubstep`, `selectNft`), `confirmNft`, `claimNft`, `claimNftPayment`.
-/
namespace LP

/-! ### `setInsert` -/

theorem setInsert_new {l : List Nat} {a : Nat} (h : a ∉ l) : setInsert l a = (l ++ [a], true) := by
  unfold setInsert
  have : l.contains a = false := by
    cases hc : l.contains a
    · rfl
    · exact absurd (List.contains_iff_mem.mp hc) h
  simp [h]

theorem setInsert_old {l : List Nat} {a : Nat} (h : a ∈ l) : setInsert l a = (l, false) := by
  unfold setInsert
  simp [h]

/-- `setInsert` appends iff the element is new -/
theorem setInsert_snd (l : List Nat) (a : Nat) : (setInsert l a).2 = true ↔ a ∉ l := by
  by_cases h : a ∈ l
  · rw [setInsert_old h]; simp [h]
  · rw [setInsert_new h]; simp [h]

theorem setInsert_nodup {l : List Nat} (a : Nat) (h : l.Nodup) : (setInsert l a).1.Nodup := by
  by_cases ha : a ∈ l
  · rw [setInsert_old ha]; exact h
  · rw [setInsert_new ha]
    rw [List.nodup_append]
    refine ⟨h, by simp, ?_⟩
    intro x hx y hy
    simp only [List.mem_singleton] at hy
    subst hy
    intro hxy; subst hxy; exact ha hx

theorem mem_setInsert (l : List Nat) (a x : Nat) : x ∈ (setInsert l a).1 ↔ x ∈ l ∨ x = a := by
  by_cases ha : a ∈ l
  · rw [setInsert_old ha]
    constructor
    · exact Or.inl
    · rintro (h | rfl)
      · exact h
      · exact ha
  · rw [setInsert_new ha]; simp

/-! ### `swapRemove` -/

theorem g_idxOf?_split {l₁ l₂ : List Nat} {a : Nat} (h : a ∉ l₁) :
    (l₁ ++ a :: l₂).idxOf? a = some l₁.length := by
  unfold List.idxOf?
  rw [List.findIdx?_append]
  have h1 : l₁.findIdx? (fun x => x == a) = none := by
    rw [List.findIdx?_eq_none_iff]
    intro x hx
    simp only [beq_eq_false_iff_ne, ne_eq]
    intro hxa; subst hxa; exact h hx
  rw [h1, List.findIdx?_cons]
  simp

/-- the removed element is last: the list just loses it -/
theorem swapRemove_split_last {l₁ : List Nat} {a : Nat} (h : a ∉ l₁) :
    swapRemove (l₁ ++ [a]) a = (l₁, true) := by
  unfold swapRemove
  rw [g_idxOf?_split h]
  simp

/-- the removed element is not last: the last element takes its slot -/
theorem swapRemove_split_mid {l₁ m : List Nat} {a z : Nat} (h : a ∉ l₁) :
    swapRemove (l₁ ++ a :: (m ++ [z])) a = (l₁ ++ z :: m, true) := by
  unfold swapRemove
  rw [g_idxOf?_split h]
  have hlast : (l₁ ++ a :: (m ++ [z])).getLast? = some z := by
    rw [show l₁ ++ a :: (m ++ [z]) = (l₁ ++ a :: m) ++ [z] by simp]
    exact List.getLast?_concat
  have hlen : ¬ (l₁.length + 1 = (l₁ ++ a :: (m ++ [z])).length) := by
    simp only [List.length_append, List.length_cons, List.length_nil]; omega
  simp only [hlast, hlen, if_false]
  rw [List.set_append_right _ _ (Nat.le_refl _), Nat.sub_self, List.set_cons_zero]
  rw [show l₁ ++ z :: (m ++ [z]) = (l₁ ++ z :: m) ++ [z] by simp]
  rw [List.dropLast_concat]

theorem swapRemove_not_mem {l : List Nat} {a : Nat} (h : a ∉ l) : swapRemove l a = (l, false) := by
  unfold swapRemove
  rw [List.idxOf?_eq_none_iff.mpr h]

/-- a member is removed: the flag is set and the result is a permutation of `l.erase a` -/
theorem swapRemove_mem {l : List Nat} {a : Nat} (h : a ∈ l) :
    (swapRemove l a).2 = true ∧ (swapRemove l a).1.Perm (l.erase a) := by
  obtain ⟨l₁, l₂, rfl, hn⟩ := List.eq_append_cons_of_mem h
  have herase : (l₁ ++ a :: l₂).erase a = l₁ ++ l₂ := by
    rw [List.erase_append_right _ hn, List.erase_cons_head]
  rw [herase]
  rcases List.eq_nil_or_concat l₂ with rfl | ⟨m, z, rfl⟩
  · rw [swapRemove_split_last hn]
    exact ⟨rfl, by simp⟩
  · rw [List.concat_eq_append, swapRemove_split_mid hn]
    refine ⟨rfl, ?_⟩
    apply List.Perm.append_left
    exact (List.perm_append_singleton z m).symm

/-- **swapRemove, flag**: the flag says whether the element was a member -/
theorem nd_swapRemove_snd (l : List Nat) (a : Nat) : (swapRemove l a).2 = true ↔ a ∈ l := by
  by_cases h : a ∈ l
  · exact ⟨fun _ => h, fun _ => (swapRemove_mem h).1⟩
  · rw [swapRemove_not_mem h]; simp [h]

theorem nd_swapRemove_perm (l : List Nat) (a : Nat) : (swapRemove l a).1.Perm (l.erase a) := by
  by_cases h : a ∈ l
  · exact (swapRemove_mem h).2
  · rw [swapRemove_not_mem h, List.erase_of_not_mem h]

theorem nd_swapRemove_nodup {l : List Nat} (a : Nat) (h : l.Nodup) : (swapRemove l a).1.Nodup :=
  (nd_swapRemove_perm l a).nodup_iff.mpr (h.erase a)

theorem g_mem_swapRemove {l : List Nat} (a x : Nat) (h : l.Nodup) :
    x ∈ (swapRemove l a).1 ↔ x ∈ l ∧ x ≠ a := by
  rw [(nd_swapRemove_perm l a).mem_iff, h.mem_erase_iff]
  exact And.comm

theorem length_swapRemove {l : List Nat} {a : Nat} (h : a ∈ l) :
    (swapRemove l a).1.length = l.length - 1 := by
  rw [(nd_swapRemove_perm l a).length_eq, List.length_erase_of_mem h]

theorem not_mem_swapRemove_self {l : List Nat} (a : Nat) (h : l.Nodup) : a ∉ (swapRemove l a).1 := by
  rw [g_mem_swapRemove a a h]; simp

/-! ### the draw loop body -/

theorem Tx.g_draw_s (hash : List Nat → List Nat) (t : Tx) (rng : Rng) : (t.draw hash rng).2.2.s = t.s := by
  unfold Tx.draw
  simp only
  split <;> rfl

theorem inRange_bounds (raw n : Nat) (h : 0 < n) :
    1 ≤ inRange raw 1 (n + 1) ∧ inRange raw 1 (n + 1) ≤ n := by
  unfold inRange
  have h1 : ¬ (1 ≥ n + 1) := by omega
  simp only [h1, if_false]
  have : raw % (n + 1 - 1) < n + 1 - 1 := Nat.mod_lt _ (by omega)
  omega

/-- the loop state is consistent: the two lists are duplicate-free and disjoint, the two
    counters are their lengths -/
structure DrawOk (x : NSt) : Prop where
  nodupP : x.payers.Nodup
  nodupW : x.winners.Nodup
  disj : ∀ a, a ∈ x.payers → a ∉ x.winners
  left : x.usersLeft = x.payers.length
  sel : x.selected = x.winners.length

/-- the raw value drawn by an iteration from state `x` -/
def drawnRaw (hash : List Nat → List Nat) (x : NSt) : Nat := (x.tx.draw hash x.rng).1

/-- the index (0-based) picked by an iteration from state `x` -/
def drawnIdx (hash : List Nat → List Nat) (x : NSt) : Nat :=
  inRange (drawnRaw hash x) 1 (x.usersLeft + 1) - 1

theorem drawnIdx_lt (hash : List Nat → List Nat) (x : NSt) (h : x.usersLeft = x.payers.length)
    (h0 : x.usersLeft ≠ 0) : drawnIdx hash x < x.payers.length := by
  unfold drawnIdx
  have := inRange_bounds (drawnRaw hash x) x.usersLeft (by omega)
  omega

/-- STOP: exactly when no payer is left or all NFTs are assigned; the state is unchanged -/
theorem nftBody_stop_iff (hash : List Nat → List Nat) (total : Nat) (x x' : NSt) (hx : DrawOk x) :
    nftBody hash total x = .ok (x', false) ↔ (x.usersLeft = 0 ∨ x.selected = total) ∧ x' = x := by
  unfold nftBody
  by_cases hc : x.usersLeft = 0 ∨ x.selected = total
  · have : (x.usersLeft = 0 || x.selected = total) = true := by simpa using hc
    simp only [this, if_true, Except.ok.injEq, Prod.mk.injEq, and_true, hc, true_and]
    exact eq_comm
  · have : ¬ ((x.usersLeft = 0 || x.selected = total) = true) := by simpa using hc
    simp only [this, hc, false_and, iff_false]
    have hlt := drawnIdx_lt hash x hx.left (by intro h; exact hc (Or.inl h))
    have hget : x.payers[drawnIdx hash x]? = some (x.payers[drawnIdx hash x]) :=
      List.getElem?_eq_getElem hlt
    unfold drawnIdx drawnRaw at hget
    simp only [hget]
    intro h
    cases h

/-- CONTINUE: the element at the drawn index moves from `payers` to `winners` -/
theorem nftBody_cont (hash : List Nat → List Nat) (total : Nat) (x x' : NSt) (hx : DrawOk x)
    (h : nftBody hash total x = .ok (x', true)) :
    x.usersLeft ≠ 0 ∧ x.selected ≠ total ∧
    ∃ (hlt : drawnIdx hash x < x.payers.length),
      x'.payers = (swapRemove x.payers (x.payers[drawnIdx hash x])).1 ∧
      x'.winners = x.winners ++ [x.payers[drawnIdx hash x]] ∧
      x'.usersLeft = x.usersLeft - 1 ∧ x'.selected = x.selected + 1 ∧
      x'.tx.s = x.tx.s ∧ x'.rng = (x.tx.draw hash x.rng).2.1 := by
  unfold nftBody at h
  by_cases hc : x.usersLeft = 0 ∨ x.selected = total
  · have : (x.usersLeft = 0 || x.selected = total) = true := by simpa using hc
    simp only [this, if_true, Except.ok.injEq, Prod.mk.injEq] at h
    exact absurd h.2 (by decide)
  · have hcb : ¬ ((x.usersLeft = 0 || x.selected = total) = true) := by simpa using hc
    have h0 : x.usersLeft ≠ 0 := fun h => hc (Or.inl h)
    have h1 : x.selected ≠ total := fun h => hc (Or.inr h)
    have hlt := drawnIdx_lt hash x hx.left h0
    refine ⟨h0, h1, hlt, ?_⟩
    have hget : x.payers[drawnIdx hash x]? = some (x.payers[drawnIdx hash x]) :=
      List.getElem?_eq_getElem hlt
    have hw : x.payers[drawnIdx hash x] ∉ x.winners := hx.disj _ (List.getElem_mem hlt)
    generalize hwdef : x.payers[drawnIdx hash x] = w at hget hw
    unfold drawnIdx drawnRaw at hget
    simp only [hcb, Bool.false_eq_true, if_false, hget, Except.ok.injEq, Prod.mk.injEq, and_true] at h
    subst h
    refine ⟨rfl, ?_, rfl, rfl, ?_, rfl⟩
    · show (setInsert x.winners w).1 = x.winners ++ [w]
      rw [setInsert_new hw]
    · exact Tx.g_draw_s hash x.tx x.rng

/-- the body never fails on a consistent state -/
theorem nftBody_no_error (hash : List Nat → List Nat) (total : Nat) (x : NSt) (hx : DrawOk x) :
    ∃ r, nftBody hash total x = .ok r := by
  unfold nftBody
  by_cases hc : x.usersLeft = 0 ∨ x.selected = total
  · have : (x.usersLeft = 0 || x.selected = total) = true := by simpa using hc
    simp only [this, if_true]
    exact ⟨_, rfl⟩
  · have hcb : ¬ ((x.usersLeft = 0 || x.selected = total) = true) := by simpa using hc
    have hlt := drawnIdx_lt hash x hx.left (fun h => hc (Or.inl h))
    have hget : x.payers[drawnIdx hash x]? = some (x.payers[drawnIdx hash x]) :=
      List.getElem?_eq_getElem hlt
    unfold drawnIdx drawnRaw at hget
    simp only [hcb, hget]
    exact ⟨_, rfl⟩

/-- **one CONTINUE iteration**: consistency is preserved; exactly one element `w` (the one at
    the drawn index) moves from `payers` to `winners`; the union is unchanged -/
theorem nftBody_cont_ok (hash : List Nat → List Nat) (total : Nat) (x x' : NSt) (hx : DrawOk x)
    (h : nftBody hash total x = .ok (x', true)) :
    DrawOk x' ∧
    ∃ w, w ∈ x.payers ∧ x.payers[drawnIdx hash x]? = some w ∧
      x'.payers.Perm (x.payers.erase w) ∧ x'.winners = x.winners ++ [w] ∧
      x'.payers.length + 1 = x.payers.length ∧ x'.winners.length = x.winners.length + 1 ∧
      (∀ a, (a ∈ x'.payers ∨ a ∈ x'.winners) ↔ (a ∈ x.payers ∨ a ∈ x.winners)) ∧
      x'.tx.s = x.tx.s := by
  obtain ⟨h0, h1, hlt, hp, hw, hl, hs, hts, _⟩ := nftBody_cont hash total x x' hx h
  have hmem : x.payers[drawnIdx hash x] ∈ x.payers := List.getElem_mem hlt
  have hget : x.payers[drawnIdx hash x]? = some (x.payers[drawnIdx hash x]) :=
    List.getElem?_eq_getElem hlt
  generalize x.payers[drawnIdx hash x] = w at hp hw hmem hget
  have hlen : x'.payers.length = x.payers.length - 1 := by rw [hp]; exact length_swapRemove hmem
  have hpos : 0 < x.payers.length := List.length_pos_of_mem hmem
  have hnw : w ∉ x.winners := hx.disj w hmem
  refine ⟨⟨?_, ?_, ?_, ?_, ?_⟩, w, hmem, hget, ?_, hw, by omega, by rw [hw]; simp, ?_, hts⟩
  · rw [hp]; exact nd_swapRemove_nodup w hx.nodupP
  · rw [hw, List.nodup_append]
    refine ⟨hx.nodupW, by simp, ?_⟩
    intro a ha b hb
    simp only [List.mem_singleton] at hb
    subst hb
    intro hab; subst hab; exact hnw ha
  · intro a ha
    rw [hp, g_mem_swapRemove w a hx.nodupP] at ha
    rw [hw]
    simp only [List.mem_append, List.mem_singleton, not_or]
    exact ⟨hx.disj a ha.1, ha.2⟩
  · rw [hl, hlen, hx.left]
  · rw [hs, hw, hx.sel]; simp
  · rw [hp]; exact nd_swapRemove_perm _ _
  · intro a
    rw [hp, g_mem_swapRemove w a hx.nodupP, hw]
    simp only [List.mem_append, List.mem_singleton]
    constructor
    · rintro (⟨h, _⟩ | h | h)
      · exact Or.inl h
      · exact Or.inr h
      · subst h; exact Or.inl hmem
    · rintro (h | h)
      · by_cases ha : a = w
        · exact Or.inr (Or.inr ha)
        · exact Or.inl ⟨h, ha⟩
      · exact Or.inr (Or.inl h)

/-! ### the loop -/

/-- what every iteration of the draw preserves, relative to the lists `P0`, `W0` at its start -/
structure DrawRel (total : Nat) (P0 W0 : List Nat) (s0 : State) (x : NSt) : Prop where
  ok : DrawOk x
  le : x.winners.length ≤ total
  sum : x.payers.length + x.winners.length = P0.length + W0.length
  union : ∀ a, (a ∈ x.payers ∨ a ∈ x.winners) ↔ (a ∈ P0 ∨ a ∈ W0)
  pre : W0 <+: x.winners
  st : x.tx.s = s0

theorem DrawRel.step {hash : List Nat → List Nat} {total : Nat} {P0 W0 : List Nat} {s0 : State}
    {x x' : NSt} (hr : DrawRel total P0 W0 s0 x) (h : nftBody hash total x = .ok (x', true)) :
    DrawRel total P0 W0 s0 x' := by
  obtain ⟨hne0, hne1, _⟩ := nftBody_cont hash total x x' hr.ok h
  obtain ⟨hok, w, hmem, _, _, hw, hl1, hl2, hun, hts⟩ := nftBody_cont_ok hash total x x' hr.ok h
  refine ⟨hok, ?_, ?_, ?_, ?_, ?_⟩
  · have := hr.le
    have := hr.ok.sel
    omega
  · have := hr.sum; omega
  · intro a; rw [hun a, hr.union a]
  · rw [hw]
    exact hr.pre.trans (List.prefix_append _ _)
  · rw [hts, hr.st]

theorem loopIter_DrawRel {hash : List Nat → List Nat} {total : Nat} {P0 W0 : List Nat} {s0 : State} :
    ∀ (n : Nat) (x x' : NSt), loopIter (nftBody hash total) n x = some x' →
      DrawRel total P0 W0 s0 x → DrawRel total P0 W0 s0 x' := by
  intro n
  induction n with
  | zero =>
    intro x x' h hr
    simp only [loopIter, Option.some.injEq] at h
    subst h; exact hr
  | succ n ih =>
    intro x x' h hr
    cases hb : nftBody hash total x with
    | error err => simp [loopIter, hb] at h
    | ok r =>
      obtain ⟨x1, c⟩ := r
      cases c
      · simp [loopIter, hb] at h
      · rw [loopIter_cont hb] at h
        exact ih x1 x' h (hr.step hb)

/-- the loop, whatever the fuel, budget and resulting status, preserves the relation -/
theorem runWhile_DrawRel {hash : List Nat → List Nat} {total : Nat} {P0 W0 : List Nat} {s0 : State} :
    ∀ (f : Nat) (b : Option Nat) (x x' : NSt) (b' : Option Nat) (st : LoopStatus),
      runWhile (nftBody hash total) f b x = .ok (x', b', st) →
      DrawRel total P0 W0 s0 x → DrawRel total P0 W0 s0 x' := by
  intro f
  induction f with
  | zero =>
    intro b x x' b' st h hr
    rw [runWhile_zero] at h
    cases h; exact hr
  | succ f ih =>
    intro b x x' b' st h hr
    cases hb : nftBody hash total x with
    | error err => rw [runWhile_err hb] at h; cases h
    | ok r =>
      obtain ⟨x1, c⟩ := r
      cases c
      · rw [runWhile_stop hb] at h
        cases h
        have := (nftBody_stop_iff hash total x x' hr.ok).mp hb
        rw [this.2]; exact hr
      · have hr1 := hr.step hb
        cases b with
        | none => rw [runWhile_cont_none hb] at h; exact ih _ _ _ _ _ h hr1
        | some k =>
          cases k with
          | zero => rw [runWhile_cont_zero hb] at h; cases h; exact hr1
          | succ k => rw [runWhile_cont_succ hb] at h; exact ih _ _ _ _ _ h hr1

/-- a completed run ends in a state in which the body says STOP -/
theorem g_runWhile_completed_stop {σ : Type} (body : σ → Res (σ × Bool)) :
    ∀ (f : Nat) (b : Option Nat) (x x' : σ) (b' : Option Nat),
      runWhile body f b x = .ok (x', b', .completed) → ∃ y, body y = .ok (x', false) := by
  intro f
  induction f with
  | zero =>
    intro b x x' b' h
    rw [runWhile_zero] at h
    cases h
  | succ f ih =>
    intro b x x' b' h
    cases hb : body x with
    | error err => rw [runWhile_err hb] at h; cases h
    | ok r =>
      obtain ⟨x1, c⟩ := r
      cases c
      · rw [runWhile_stop hb] at h
        cases h
        exact ⟨x, hb⟩
      · cases b with
        | none => rw [runWhile_cont_none hb] at h; exact ih _ _ _ _ h
        | some k =>
          cases k with
          | zero => rw [runWhile_cont_zero hb] at h; cases h
          | succ k => rw [runWhile_cont_succ hb] at h; exact ih _ _ _ _ h

/-- **the draw run to completion** (any fuel, any budget): the number of winners is
    `min total (payers + winners at the start)`; winners are distinct, come from the original
    payers or winners, the original winners are kept -/
theorem draw_completed {hash : List Nat → List Nat} {total : Nat} {P0 W0 : List Nat} {s0 : State}
    (f : Nat) (b : Option Nat) (x x' : NSt) (b' : Option Nat)
    (h : runWhile (nftBody hash total) f b x = .ok (x', b', .completed))
    (hr : DrawRel total P0 W0 s0 x) :
    DrawRel total P0 W0 s0 x' ∧
    x'.winners.length = min total (P0.length + W0.length) ∧
    x'.winners.Nodup ∧ (∀ a ∈ x'.winners, a ∈ P0 ∨ a ∈ W0) := by
  have hr' := runWhile_DrawRel f b x x' b' _ h hr
  refine ⟨hr', ?_, hr'.ok.nodupW, fun a ha => (hr'.union a).mp (Or.inr ha)⟩
  -- the last body call said STOP on `x'` itself
  have hstop : x'.usersLeft = 0 ∨ x'.selected = total := by
    obtain ⟨y, hy⟩ := g_runWhile_completed_stop _ f b x x' b' h
    unfold nftBody at hy
    by_cases hc : y.usersLeft = 0 ∨ y.selected = total
    · have : (y.usersLeft = 0 || y.selected = total) = true := by simpa using hc
      simp only [this, if_true, Except.ok.injEq, Prod.mk.injEq, and_true] at hy
      subst hy; exact hc
    · have : ¬ ((y.usersLeft = 0 || y.selected = total) = true) := by simpa using hc
      simp only [this, Bool.false_eq_true, if_false] at hy
      split at hy
      · cases hy
      · simp only [Except.ok.injEq, Prod.mk.injEq] at hy
        exact absurd hy.2 (by decide)
  have h1 := hr'.ok.left
  have h2 := hr'.ok.sel
  have h3 := hr'.le
  have h4 := hr'.sum
  rw [Nat.min_def]
  split <;> omega

/-! ### `nftSubstep`, `selectNft` -/

/-- state invariant of the NFT lists: duplicate-free and disjoint -/
structure NftOk (s : State) : Prop where
  nodupP : s.payers.Nodup
  nodupW : s.nftWinners.Nodup
  disj : ∀ a, a ∈ s.payers → a ∉ s.nftWinners

theorem Tx.g_freshRng_s (t : Tx) : t.freshRng.2.s = t.s := by
  unfold Tx.freshRng; split <;> rfl

theorem Tx.g_freshRng_o (t : Tx) : t.freshRng.2.o = t.o := by
  unfold Tx.freshRng; split <;> rfl

/-- the state a draw call leaves, given the lists it reached -/
def drawState (s : State) (P W : List Nat) (st : LoopStatus) : State :=
  match st with
  | .completed => { s with payers := P, nftWinners := W, op := .none,
                           claimableNft := s.nftCost.amount * W.length }
  | _ => { s with payers := P, nftWinners := W }

/-- **one draw call** (`nftSubstep`, whatever the budget): the two lists stay duplicate-free and
    disjoint, their union and total size are unchanged, earlier winners are kept, the number of
    winners never exceeds `availNfts`; when the call completes, the number of winners is
    `min availNfts (payers + winners before the call)` and `claimableNft = fee * winners` -/
theorem nftSubstep_spec {hash : List Nat → List Nat} {t t' : Tx} {rng rng' : Rng} {st : LoopStatus}
    (h : nftSubstep hash t rng = .ok (t', rng', st))
    (hok : NftOk t.s) (hle : t.s.nftWinners.length ≤ t.s.availNfts) :
    st ≠ .outOfFuel ∧
    t'.s = drawState t.s t'.s.payers t'.s.nftWinners st ∧
    NftOk t'.s ∧ t'.s.nftWinners.length ≤ t.s.availNfts ∧
    t'.s.payers.length + t'.s.nftWinners.length = t.s.payers.length + t.s.nftWinners.length ∧
    (∀ a, (a ∈ t'.s.payers ∨ a ∈ t'.s.nftWinners) ↔ (a ∈ t.s.payers ∨ a ∈ t.s.nftWinners)) ∧
    t.s.nftWinners <+: t'.s.nftWinners ∧
    (st = .completed →
      t'.s.nftWinners.length = min t.s.availNfts (t.s.payers.length + t.s.nftWinners.length)) := by
  unfold nftSubstep at h
  simp only [bind_ok_iff, Prod.exists] at h
  obtain ⟨x, b, st0, hrun, hrest⟩ := h
  have hr0 : DrawRel t.s.availNfts t.s.payers t.s.nftWinners t.s
      ⟨t.s.payers, t.s.nftWinners, t.s.payers.length, t.s.nftWinners.length, rng, t⟩ :=
    ⟨⟨hok.nodupP, hok.nodupW, hok.disj, rfl, rfl⟩, hle, rfl, fun _ => Iff.rfl,
      List.prefix_refl _, rfl⟩
  have hr := runWhile_DrawRel _ _ _ _ _ _ hrun hr0
  have hxs := hr.st
  cases st0 with
  | outOfFuel => cases hrest
  | interrupted =>
    simp only [pure_ok_iff, Prod.mk.injEq] at hrest
    obtain ⟨rfl, rfl, rfl⟩ := hrest
    refine ⟨by decide, ?_, ⟨hr.ok.nodupP, hr.ok.nodupW, hr.ok.disj⟩, hr.le, hr.sum, hr.union,
      hr.pre, fun h => by cases h⟩
    simp only [drawState, hxs]
  | completed =>
    simp only [pure_ok_iff, Prod.mk.injEq] at hrest
    obtain ⟨rfl, rfl, rfl⟩ := hrest
    have hc := draw_completed _ _ _ _ _ hrun hr0
    refine ⟨by decide, ?_, ⟨hr.ok.nodupP, hr.ok.nodupW, hr.ok.disj⟩, hr.le, hr.sum, hr.union,
      hr.pre, fun _ => hc.2.1⟩
    simp only [drawState, Tx.setS, hxs]

def g_selDone (t1 : Tx) : Tx :=
  { t1 with s := { t1.s with flags := { t1.s.flags with additional := true } },
            o := { t1.o with ret := [0] } }

def selMore (t1 : Tx) (rng' : Rng) : Tx :=
  { t1 with s := { t1.s with op := .additional (.nft rng') }, o := { t1.o with ret := [1] } }

/-- acceptance conditions and bookkeeping of `selectNft` around the draw call -/
theorem g_selectNft_inv {hash : List Nat → List Nat} {t t' : Tx} {e : Env}
    (h : selectNft hash t e = .ok t') :
    t.s.stage e = .winnerSelection ∧ t.s.flags.selected = true ∧ t.s.flags.additional = false ∧
    ∃ (t0 t1 : Tx) (rng rng' : Rng) (st : LoopStatus),
      t0.s = t.s ∧ nftSubstep hash t0 rng = .ok (t1, rng', st) ∧
      ((st = .completed ∧
          t'.s = { t1.s with flags := { t1.s.flags with additional := true } } ∧ t'.o.ret = [0]) ∨
       (st ≠ .completed ∧ t'.s = { t1.s with op := .additional (.nft rng') } ∧ t'.o.ret = [1])) := by
  unfold selectNft at h
  simp only [bind_ok_iff, req_ok_iff, requireStage, exists_const, beq_iff_eq,
    Bool.not_eq_true'] at h
  obtain ⟨hst, hsel, hadd, h⟩ := h
  refine ⟨hst, hsel, hadd, ?_⟩
  have fin : ∀ (t0 t1 : Tx) (rng rng' : Rng) (st : LoopStatus), t0.s = t.s →
      nftSubstep hash t0 rng = .ok (t1, rng', st) →
      (match st with
        | .completed => (pure (g_selDone t1) : Res Tx)
        | _ => pure (selMore t1 rng')) = .ok t' →
      ∃ (t0 t1 : Tx) (rng rng' : Rng) (st : LoopStatus),
        t0.s = t.s ∧ nftSubstep hash t0 rng = .ok (t1, rng', st) ∧
        ((st = .completed ∧
            t'.s = { t1.s with flags := { t1.s.flags with additional := true } } ∧ t'.o.ret = [0]) ∨
         (st ≠ .completed ∧ t'.s = { t1.s with op := .additional (.nft rng') } ∧ t'.o.ret = [1])) := by
    intro t0 t1 rng rng' st h0 hsub hfin
    refine ⟨t0, t1, rng, rng', st, h0, hsub, ?_⟩
    cases st with
    | completed =>
      simp only [pure_ok_iff] at hfin
      subst hfin
      exact Or.inl ⟨rfl, rfl, rfl⟩
    | interrupted =>
      simp only [pure_ok_iff] at hfin
      subst hfin
      exact Or.inr ⟨by decide, rfl, rfl⟩
    | outOfFuel =>
      simp only [pure_ok_iff] at hfin
      subst hfin
      exact Or.inr ⟨by decide, rfl, rfl⟩
  split at h
  · simp only [bind_ok_iff, pure_ok_iff, Prod.exists, Prod.mk.injEq] at h
    obtain ⟨rng, t0, ⟨hr, ht0⟩, t1, rng', st, hsub, hfin⟩ := h
    exact fin t0 t1 rng rng' st (by rw [← ht0]; exact Tx.g_freshRng_s t) hsub hfin
  · simp only [bind_ok_iff, pure_ok_iff, Prod.exists, Prod.mk.injEq] at h
    obtain ⟨rng, t0, ⟨hr, ht0⟩, t1, rng', st, hsub, hfin⟩ := h
    exact fin t0 t1 rng rng' st (by rw [← ht0]) hsub hfin
  · simp [bind, Except.bind] at h
  · simp [bind, Except.bind] at h

/-! ### `confirmNft` -/

theorem Pay.eq_iff (p q : Pay) :
    (p.tok == q.tok && p.nonce == q.nonce && p.amount == q.amount) = true ↔ p = q := by
  cases p; cases q
  simp [Bool.and_eq_true]
  exact and_assoc

/-- **confirmNft, exact**: accepted iff the stage is Confirm, the SFT set-up is complete, the
    caller has confirmed at least one ticket, is not yet in `payers`, and the call value is exactly
    one payment equal to `nftCost`; the only effect is that the caller is appended to `payers` -/
theorem confirmNft_ok_iff (s : State) (e : Env) (s' : State) :
    confirmNft s e = .ok s' ↔
      s.stage e = .confirm ∧
      (s.sftIssuedFlag = true ∧ s.sftCreated = true ∧ s.sftRole = true) ∧
      0 < s.confirmed e.caller ∧ e.caller ∉ s.payers ∧
      egldOrSingleEsdt e = .ok s.nftCost ∧
      s' = { s with payers := s.payers ++ [e.caller] } := by
  unfold confirmNft
  by_cases hm : e.caller ∈ s.payers
  · rw [setInsert_old hm]
    simp only [bind_ok_iff, req_ok_iff, requireStage, exists_const, beq_iff_eq, Bool.false_eq_true,
      false_and, and_false, hm, not_true_eq_false]
  · rw [setInsert_new hm]
    simp only [bind_ok_iff, pure_ok_iff, req_ok_iff, requireStage, exists_const, beq_iff_eq,
      Bool.and_eq_true, decide_eq_true_eq, hm, not_false_eq_true, true_and]
    constructor
    · rintro ⟨hst, hsft, hc, p, hp, hpay, rfl⟩
      have : p = s.nftCost := (Pay.eq_iff p s.nftCost).mp (by simp [hpay])
      subst this
      exact ⟨hst, ⟨hsft.1.1, hsft.1.2, hsft.2⟩, hc, hp, rfl⟩
    · rintro ⟨hst, ⟨h1, h2, h3⟩, hc, hp, rfl⟩
      exact ⟨hst, ⟨⟨h1, h2⟩, h3⟩, hc, s.nftCost, hp, ⟨⟨rfl, rfl⟩, rfl⟩, rfl⟩

/-! ### `claimNft` -/

/-- the category of the SFT handed out: 1 = won the draw, 2 = paid the fee and lost,
    3 = did not take part -/
def nftCategory (s : State) (a : Nat) : Nat :=
  if a ∈ s.nftWinners then 1 else if a ∈ s.payers then 2 else 3

/-- the complete effect of a successful `claimNft` -/
def claimNftResult (t : Tx) (e : Env) : Tx :=
  let k := nftCategory t.s e.caller
  if k = 2 then
    { t with s := { t.s with nftWinners := (swapRemove t.s.nftWinners e.caller).1,
                             payers := (swapRemove t.s.payers e.caller).1,
                             bal := t.s.bal.sub t.s.nftCost.tok t.s.nftCost.nonce t.s.nftCost.amount },
             o := { t.o with sfts := t.o.sfts ++ [(e.caller, 2)],
                             xfers := t.o.xfers ++ [(e.caller, t.s.nftCost)] } }
  else
    { t with s := { t.s with nftWinners := (swapRemove t.s.nftWinners e.caller).1 },
             o := { t.o with sfts := t.o.sfts ++ [(e.caller, k)] } }

theorem claimNft_eq (t : Tx) (e : Env) :
    claimNft t e =
      (let w := swapRemove t.s.nftWinners e.caller
       let t1 := t.setS { t.s with nftWinners := w.1 }
       let kt : Nat × Tx :=
         if w.2 then (1, t1) else
           let p := swapRemove t1.s.payers e.caller
           if p.2 then (2, t1.setS { t1.s with payers := p.1 }) else (3, t1)
       req kt.2.s.sftToken "Token ID not set (mysterySftTokenId)" >>= fun _ =>
       let t2 : Tx := { kt.2 with o := { kt.2.o with sfts := kt.2.o.sfts ++ [(e.caller, kt.1)] } }
       if kt.1 = 2 then t2.send e.caller t2.s.nftCost else pure t2) := by
  unfold claimNft
  rfl

/-- **claimNft, exact**: accepted iff the SFT token id is set and — for category 2 — the contract
    holds the fee to refund; the effect is `claimNftResult` -/
theorem claimNft_ok_iff (t : Tx) (e : Env) (t' : Tx) :
    claimNft t e = .ok t' ↔
      t.s.sftToken = true ∧
      (nftCategory t.s e.caller = 2 →
        t.s.nftCost.amount ≤ t.s.bal t.s.nftCost.tok t.s.nftCost.nonce) ∧
      t' = claimNftResult t e := by
  rw [claimNft_eq]
  unfold claimNftResult nftCategory
  by_cases hw : e.caller ∈ t.s.nftWinners
  · have h1 : (swapRemove t.s.nftWinners e.caller).2 = true := (nd_swapRemove_snd _ _).mpr hw
    simp only [h1, if_true, hw, bind_ok_iff, req_ok_iff, exists_const, Tx.setS,
      show ¬ ((1 : Nat) = 2) by decide, if_false, pure_ok_iff, false_implies, true_and]
    exact ⟨fun ⟨a, b⟩ => ⟨a, b.symm⟩, fun ⟨a, b⟩ => ⟨a, b.symm⟩⟩
  · have h1 : (swapRemove t.s.nftWinners e.caller).2 = false := by
      cases h : (swapRemove t.s.nftWinners e.caller).2
      · rfl
      · exact absurd ((nd_swapRemove_snd _ _).mp h) hw
    by_cases hp : e.caller ∈ t.s.payers
    · have h2 : (swapRemove t.s.payers e.caller).2 = true := (nd_swapRemove_snd _ _).mpr hp
      simp only [h1, Bool.false_eq_true, if_false, hw, hp, Tx.setS, h2, if_true, bind_ok_iff,
        req_ok_iff, exists_const, send_ok_iff, true_implies]
      constructor
      · rintro ⟨a, b, c⟩
        exact ⟨a, b, c⟩
      · rintro ⟨a, b, c⟩
        exact ⟨a, b, c⟩
    · have h2 : (swapRemove t.s.payers e.caller).2 = false := by
        cases h : (swapRemove t.s.payers e.caller).2
        · rfl
        · exact absurd ((nd_swapRemove_snd _ _).mp h) hp
      simp only [h1, Bool.false_eq_true, if_false, hw, hp, Tx.setS, h2, bind_ok_iff,
        req_ok_iff, exists_const, show ¬ ((3 : Nat) = 2) by decide, pure_ok_iff, false_implies,
        true_and]
      exact ⟨fun ⟨a, b⟩ => ⟨a, b.symm⟩, fun ⟨a, b⟩ => ⟨a, b.symm⟩⟩

/-- what `claimNftResult` does to outputs and lists -/
theorem claimNftResult_effect (t : Tx) (e : Env) :
    (claimNftResult t e).o.sfts = t.o.sfts ++ [(e.caller, nftCategory t.s e.caller)] ∧
    (claimNftResult t e).o.xfers =
      t.o.xfers ++ (if nftCategory t.s e.caller = 2 then [(e.caller, t.s.nftCost)] else []) ∧
    (claimNftResult t e).o.locks = t.o.locks ∧
    (claimNftResult t e).s.nftWinners = (swapRemove t.s.nftWinners e.caller).1 ∧
    (claimNftResult t e).s.payers =
      (if nftCategory t.s e.caller = 2 then (swapRemove t.s.payers e.caller).1 else t.s.payers) ∧
    (claimNftResult t e).s.bal =
      (if nftCategory t.s e.caller = 2
        then t.s.bal.sub t.s.nftCost.tok t.s.nftCost.nonce t.s.nftCost.amount else t.s.bal) ∧
    (claimNftResult t e).s.claimed = t.s.claimed ∧
    (claimNftResult t e).s.claimableNft = t.s.claimableNft ∧
    (claimNftResult t e).s.nftCost = t.s.nftCost := by
  unfold claimNftResult
  by_cases h : nftCategory t.s e.caller = 2
  · simp [h]
  · simp [h]

theorem nftCategory_iff (s : State) (a : Nat) (h : NftOk s) :
    (nftCategory s a = 1 ↔ a ∈ s.nftWinners) ∧
    (nftCategory s a = 2 ↔ a ∈ s.payers) ∧
    (nftCategory s a = 3 ↔ a ∉ s.nftWinners ∧ a ∉ s.payers) := by
  unfold nftCategory
  by_cases hw : a ∈ s.nftWinners
  · have hp : a ∉ s.payers := fun hp => h.disj a hp hw
    simp [hw, hp]
  · by_cases hp : a ∈ s.payers <;> simp [hw, hp]

/-- after an NFT claim the caller is in neither list: a further `claimNft` would be category 3 -/
theorem claimNftResult_category (t : Tx) (e : Env) (h : NftOk t.s) :
    nftCategory (claimNftResult t e).s e.caller = 3 ∧ NftOk (claimNftResult t e).s := by
  have heff := claimNftResult_effect t e
  obtain ⟨-, -, -, hW, hP, -⟩ := heff
  have hcat := nftCategory_iff t.s e.caller h
  have hnw : e.caller ∉ (claimNftResult t e).s.nftWinners := by
    rw [hW]; exact not_mem_swapRemove_self _ h.nodupW
  have hnp : e.caller ∉ (claimNftResult t e).s.payers := by
    rw [hP]
    by_cases h2 : nftCategory t.s e.caller = 2
    · simp only [h2, if_true]; exact not_mem_swapRemove_self _ h.nodupP
    · simp only [h2, if_false]
      intro hp; exact h2 (hcat.2.1.mpr hp)
  have hok : NftOk (claimNftResult t e).s := by
    refine ⟨?_, ?_, ?_⟩
    · rw [hP]; split
      · exact nd_swapRemove_nodup _ h.nodupP
      · exact h.nodupP
    · rw [hW]; exact nd_swapRemove_nodup _ h.nodupW
    · intro a ha
      rw [hW, g_mem_swapRemove _ _ h.nodupW]
      rw [hP] at ha
      have ha' : a ∈ t.s.payers := by
        split at ha
        · exact ((g_mem_swapRemove _ _ h.nodupP).mp ha).1
        · exact ha
      intro hcon
      exact h.disj a ha' hcon.1
  refine ⟨?_, hok⟩
  unfold nftCategory
  simp [hnw, hnp]

/-! ### `claimNftPayment` -/

/-- **claimNftPayment, exact**: accepted iff the stage is Claim and the contract holds
    `claimableNft` of the fee token; it pays exactly `claimableNft` of the fee token to the caller
    (nothing if zero) and zeroes it -/
theorem claimNftPayment_ok_iff (t : Tx) (e : Env) (t' : Tx) :
    claimNftPayment t e = .ok t' ↔
      t.s.stage e = .claim ∧
      t.s.claimableNft ≤ t.s.bal t.s.nftCost.tok t.s.nftCost.nonce ∧
      t' = (if t.s.claimableNft > 0 then
              { t with s := { t.s with claimableNft := 0,
                                       bal := t.s.bal.sub t.s.nftCost.tok t.s.nftCost.nonce t.s.claimableNft },
                       o := { t.o with xfers := t.o.xfers ++
                                [(e.caller, { t.s.nftCost with amount := t.s.claimableNft })] } }
            else t) := by
  unfold claimNftPayment
  by_cases hc : t.s.claimableNft > 0
  · simp only [hc, if_true, bind_ok_iff, req_ok_iff, requireStage, exists_const, beq_iff_eq,
      pure_ok_iff, send_ok_iff]
    constructor
    · rintro ⟨hst, t1, ⟨hb, rfl⟩, rfl⟩
      exact ⟨hst, hb, rfl⟩
    · rintro ⟨hst, hb, rfl⟩
      exact ⟨hst, _, ⟨hb, rfl⟩, rfl⟩
  · have h0 : t.s.claimableNft = 0 := by omega
    simp only [hc, if_false, bind_ok_iff, req_ok_iff, requireStage, exists_const, beq_iff_eq,
      pure_ok_iff]
    exact ⟨fun ⟨a, b⟩ => ⟨a, by omega, b.symm⟩, fun ⟨a, _, b⟩ => ⟨a, b.symm⟩⟩

/-- second half of `claimPaymentCommon`: surplus launchpad tokens go back to the caller -/
def cpTail (t : Tx) (e : Env) : Res Tx :=
  bsub (t.s.bal (.esdt t.s.lpTok) 0) (t.s.perTicket * t.s.nrWinning) "tickets.rs:66 balance - needed"
    >>= fun extra =>
  if extra > 0 then t.send e.caller ⟨.esdt t.s.lpTok, 0, extra⟩ else pure t

theorem claimPaymentCommon_eq (t : Tx) (e : Env) :
    claimPaymentCommon t e =
      (requireStage t.s e .claim "Not in claim period" >>= fun _ =>
        if t.s.claimablePayment > 0 then
          (t.setS { t.s with claimablePayment := 0 }).send e.caller
            ⟨t.s.payTok, 0, t.s.claimablePayment⟩ >>= fun t1 => cpTail t1 e
        else cpTail t e) := by
  unfold claimPaymentCommon cpTail
  rfl

theorem cpTail_frame {t t' : Tx} {e : Env} (h : cpTail t e = .ok t') :
    ∃ b, t'.s = { t.s with bal := b } ∧
    ∃ l : List (Nat × Pay), t'.o.xfers = t.o.xfers ++ l ∧ (∀ x ∈ l, x.1 = e.caller) ∧
      t'.o.sfts = t.o.sfts ∧ t'.o.locks = t.o.locks := by
  unfold cpTail at h
  simp only [bind_ok_iff] at h
  obtain ⟨extra, _, h2⟩ := h
  split at h2
  · rw [send_ok_iff] at h2
    obtain ⟨_, rfl⟩ := h2
    exact ⟨_, rfl, [_], rfl, by simp, rfl, rfl⟩
  · simp only [pure_ok_iff] at h2
    subst h2
    exact ⟨_, rfl, [], by simp, by simp, rfl, rfl⟩

/-- `claimPaymentCommon` touches only `claimablePayment` and the balances; it only adds transfers
    to the caller -/
theorem claimPaymentCommon_frame {t t' : Tx} {e : Env} (h : claimPaymentCommon t e = .ok t') :
    t.s.stage e = .claim ∧
    ∃ b cp, t'.s = { t.s with bal := b, claimablePayment := cp } ∧
    ∃ l : List (Nat × Pay), t'.o.xfers = t.o.xfers ++ l ∧ (∀ x ∈ l, x.1 = e.caller) ∧
      t'.o.sfts = t.o.sfts ∧ t'.o.locks = t.o.locks := by
  rw [claimPaymentCommon_eq] at h
  simp only [bind_ok_iff, req_ok_iff, requireStage, exists_const, beq_iff_eq] at h
  obtain ⟨hst, h⟩ := h
  refine ⟨hst, ?_⟩
  split at h
  · simp only [bind_ok_iff, send_ok_iff] at h
    obtain ⟨t1, ⟨_, rfl⟩, h2⟩ := h
    obtain ⟨b, hs, l, hx, hl, hsf, hlk⟩ := cpTail_frame h2
    refine ⟨b, 0, ?_, [(e.caller, ⟨t.s.payTok, 0, t.s.claimablePayment⟩)] ++ l, ?_, ?_, hsf, hlk⟩
    · rw [hs]; rfl
    · rw [hx]; simp [sendResult, Tx.setS]
    · intro x hx'
      simp only [List.mem_append, List.mem_singleton] at hx'
      rcases hx' with rfl | hx'
      · rfl
      · exact hl x hx'
  · obtain ⟨b, hs, l, hx, hl, hsf, hlk⟩ := cpTail_frame h
    exact ⟨b, t.s.claimablePayment, by rw [hs], l, hx, hl, hsf, hlk⟩

/-! ### balances of third tokens -/

theorem cpTail_bal_other {t t' : Tx} {e : Env} (h : cpTail t e = .ok t') (tok : Token) (n : Nat)
    (h2 : ¬ (tok = .esdt t.s.lpTok ∧ n = 0)) : t'.s.bal tok n = t.s.bal tok n := by
  unfold cpTail at h
  simp only [bind_ok_iff] at h
  obtain ⟨extra, _, h⟩ := h
  split at h
  · rw [send_ok_iff] at h
    obtain ⟨_, rfl⟩ := h
    simp [sendResult, Bal.sub, h2]
  · simp only [pure_ok_iff] at h
    subst h; rfl

/-- `claimPaymentCommon` moves only the payment token and the launchpad token -/
theorem claimPaymentCommon_bal_other {t t' : Tx} {e : Env} (h : claimPaymentCommon t e = .ok t')
    (tok : Token) (n : Nat) (h1 : ¬ (tok = t.s.payTok ∧ n = 0))
    (h2 : ¬ (tok = .esdt t.s.lpTok ∧ n = 0)) : t'.s.bal tok n = t.s.bal tok n := by
  rw [claimPaymentCommon_eq] at h
  simp only [bind_ok_iff, req_ok_iff, requireStage, exists_const, beq_iff_eq] at h
  obtain ⟨_, h⟩ := h
  split at h
  · simp only [bind_ok_iff, send_ok_iff] at h
    obtain ⟨t1, ⟨_, rfl⟩, h⟩ := h
    rw [cpTail_bal_other h tok n h2]
    simp [sendResult, Tx.setS, Bal.sub, h1]
  · exact cpTail_bal_other h tok n h2

theorem claimNftResult_flags (t : Tx) (e : Env) :
    (claimNftResult t e).s.flags = t.s.flags ∧ (claimNftResult t e).s.variant = t.s.variant := by
  unfold claimNftResult
  simp only []
  split <;> exact ⟨rfl, rfl⟩

/-- the fee refund of a batch of blacklisted users: the fee-token balance drops by exactly
    `fee × (number of users removed from payers)`; nothing else of the NFT bookkeeping moves -/
theorem refundNftMany_recon : ∀ (l : List Nat) {t t' : Tx}, refundNftMany l t = .ok t' →
    t'.s.bal t.s.nftCost.tok t.s.nftCost.nonce + t.s.nftCost.amount * t.s.payers.length
      = t.s.bal t.s.nftCost.tok t.s.nftCost.nonce + t.s.nftCost.amount * t'.s.payers.length ∧
    t'.s.payers.length ≤ t.s.payers.length ∧
    t'.s.nftCost = t.s.nftCost ∧ t'.s.nftWinners = t.s.nftWinners ∧
    t'.s.claimableNft = t.s.claimableNft ∧ t'.s.flags = t.s.flags ∧
    (∀ tok n, ¬ (tok = t.s.nftCost.tok ∧ n = t.s.nftCost.nonce) → t'.s.bal tok n = t.s.bal tok n)
  | [], t, t', h => by
    simp only [refundNftMany, Except.ok.injEq] at h
    subst h
    exact ⟨rfl, Nat.le_refl _, rfl, rfl, rfl, rfl, fun _ _ _ => rfl⟩
  | u :: rest, t, t', h => by
    unfold refundNftMany at h
    simp only at h
    split at h
    · rename_i hdid
      split at h
      · cases h
      · rename_i t1 h1
        rw [send_ok_iff] at h1
        obtain ⟨hb, rfl⟩ := h1
        have hu : u ∈ t.s.payers := (nd_swapRemove_snd _ _).mp hdid
        have hlen := length_swapRemove hu
        have hpos : 0 < t.s.payers.length := List.length_pos_of_mem hu
        obtain ⟨a1, a2, a3, a4, a5, a6, a7⟩ := refundNftMany_recon rest h
        simp only [sendResult, Tx.setS] at a1 a2 a3 a4 a5 a6 a7 hb
        refine ⟨?_, by omega, a3, a4, a5, a6, ?_⟩
        · rw [hlen] at a1
          simp only [Bal.sub, and_self, if_true] at a1
          have hm : t.s.nftCost.amount * t.s.payers.length
              = t.s.nftCost.amount * (t.s.payers.length - 1) + t.s.nftCost.amount := by
            rw [← Nat.mul_succ]; congr 1; omega
          omega
        · intro tok n hne
          rw [a7 tok n hne]
          simp [Bal.sub, hne]
    · exact refundNftMany_recon rest h

end LP
