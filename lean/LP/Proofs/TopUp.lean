import LP.Guaranteed
/-
  LP.Proofs.TopUp — lemmas on `countWinning`, `topUp`, `calcV1`, `calcV2`,
  `processGuaranteed` (distribution step, part 1).
-/
namespace LP

/-! ### countWinning -/

theorem countWinning_le (status : Nat → Bool) (first len : Nat) :
    countWinning status first len ≤ len := by
  induction len with
  | zero => simp [countWinning]
  | succ k ih => simp only [countWinning]; split <;> omega

/-- peel the first element (the definition peels the last) -/
theorem countWinning_succ_front (status : Nat → Bool) (first len : Nat) :
    countWinning status first (len + 1) =
      (if status first then 1 else 0) + countWinning status (first + 1) len := by
  induction len with
  | zero => simp [countWinning]
  | succ k ih =>
    rw [countWinning, ih, countWinning]
    have : first + 1 + k = first + (k + 1) := by omega
    rw [this]; omega

theorem countWinning_congr (s1 s2 : Nat → Bool) (first len : Nat)
    (h : ∀ t, first ≤ t → t < first + len → s1 t = s2 t) :
    countWinning s1 first len = countWinning s2 first len := by
  induction len with
  | zero => rfl
  | succ k ih =>
    simp only [countWinning]
    rw [ih (fun t h1 h2 => h t h1 (by omega)), h (first + k) (by omega) (by omega)]

theorem countWinning_mono (s1 s2 : Nat → Bool) (first len : Nat)
    (h : ∀ t, first ≤ t → t < first + len → s1 t = true → s2 t = true) :
    countWinning s1 first len ≤ countWinning s2 first len := by
  induction len with
  | zero => simp [countWinning]
  | succ k ih =>
    simp only [countWinning]
    have h1 := ih (fun t h1 h2 => h t h1 (by omega))
    have h2 := h (first + k) (by omega) (by omega)
    by_cases hs : s1 (first + k) = true
    · simp [hs, h2 hs]; exact h1
    · simp [hs]; split <;> omega

theorem countWinning_upd_front (status : Nat → Bool) (cur len : Nat) (b : Bool) :
    countWinning (upd status cur b) (cur + 1) len = countWinning status (cur + 1) len := by
  apply countWinning_congr
  intro t h1 _
  exact upd_other _ _ _ _ (by omega)

/-! ### topUp (B1) -/

theorem topUp_sum (status : Nat → Bool) (cur len remaining : Nat) :
    (topUp status cur len remaining).2.1 + (topUp status cur len remaining).2.2 = remaining := by
  fun_induction topUp status cur len remaining with
  | case1 => simp
  | case2 => simp
  | case3 => assumption
  | case4 status cur len remaining hr hs st m r heq ih =>
    simp only [heq] at ih
    simp only
    omega

theorem topUp_outside (status : Nat → Bool) (cur len remaining t : Nat)
    (ht : t < cur ∨ cur + len ≤ t) :
    (topUp status cur len remaining).1 t = status t := by
  fun_induction topUp status cur len remaining with
  | case1 => rfl
  | case2 => rfl
  | case3 status cur len remaining hr hs ih => exact ih (by omega)
  | case4 status cur len remaining hr hs st m r heq ih =>
    simp only [heq] at ih
    simp only
    rw [ih (by omega)]
    exact upd_other _ _ _ _ (by omega)

theorem topUp_mono (status : Nat → Bool) (cur len remaining t : Nat)
    (h : status t = true) : (topUp status cur len remaining).1 t = true := by
  fun_induction topUp status cur len remaining with
  | case1 => exact h
  | case2 => exact h
  | case3 status cur len remaining hr hs ih => exact ih h
  | case4 status cur len remaining hr hs st m r heq ih =>
    simp only [heq] at ih
    simp only
    apply ih
    simp [upd_apply, h]

theorem topUp_count (status : Nat → Bool) (cur len remaining : Nat) :
    countWinning (topUp status cur len remaining).1 cur len =
      countWinning status cur len + (topUp status cur len remaining).2.1 := by
  fun_induction topUp status cur len remaining with
  | case1 => simp [countWinning]
  | case2 => simp
  | case3 status cur len remaining hr hs ih =>
    rw [countWinning_succ_front, countWinning_succ_front, ih,
      topUp_outside _ _ _ _ _ (by omega)]
    omega
  | case4 status cur len remaining hr hs st m r heq ih =>
    simp only [heq] at ih
    simp only
    rw [countWinning_succ_front, countWinning_succ_front, ih, countWinning_upd_front]
    have h1 : st cur = true := by
      have := topUp_outside (upd status cur true) (cur + 1) len (remaining - 1) cur (by omega)
      rw [heq] at this
      simp only at this
      rw [this]; simp
    simp [h1, hs]
    omega

/-- exact number of tickets marked: the minimum of the request and the free slots -/
theorem topUp_marked (status : Nat → Bool) (cur len remaining : Nat) :
    (topUp status cur len remaining).2.1 =
      min remaining (len - countWinning status cur len) := by
  fun_induction topUp status cur len remaining with
  | case1 => simp [countWinning]
  | case2 => simp
  | case3 status cur len remaining hr hs ih =>
    rw [ih, countWinning_succ_front]
    simp [hs]
    have := countWinning_le status (cur + 1) len
    omega
  | case4 status cur len remaining hr hs st m r heq ih =>
    simp only [heq] at ih
    simp only
    rw [ih, countWinning_succ_front, countWinning_upd_front]
    simp [hs]
    have := countWinning_le status (cur + 1) len
    omega

theorem topUp_enough (status : Nat → Bool) (cur len remaining : Nat)
    (h : remaining ≤ len - countWinning status cur len) :
    (topUp status cur len remaining).2.2 = 0 := by
  have h1 := topUp_sum status cur len remaining
  have h2 := topUp_marked status cur len remaining
  omega

/-! ### calcV2 / calcV1 (B2) -/

theorem foldl_add_fst (l : List (Nat × Nat)) (a : Nat) :
    l.foldl (fun acc i => acc + i.1) a = a + (l.map (·.1)).sum := by
  induction l generalizing a with
  | nil => simp
  | cons x xs ih => simp [List.foldl_cons, ih]; omega

theorem sumG_eq (l : List (Nat × Nat)) : sumG l = (l.map (·.1)).sum := by
  simp [sumG, foldl_add_fst]

@[simp] theorem sumG_nil : sumG [] = 0 := rfl

theorem sumG_cons (x : Nat × Nat) (l : List (Nat × Nat)) : sumG (x :: l) = x.1 + sumG l := by
  simp [sumG_eq]

theorem sumG_filter_split (p : Nat × Nat → Bool) (l : List (Nat × Nat)) :
    sumG (l.filter p) + sumG (l.filter (fun i => !p i)) = sumG l := by
  induction l with
  | nil => rfl
  | cons x xs ih =>
    by_cases hp : p x = true
    · simp [hp, sumG_cons]; omega
    · simp [hp, sumG_cons]; omega

/-- the guarantees of `infos` whose threshold `minConfirmed` is met by `conf` -/
def metG (infos : List (Nat × Nat)) (conf : Nat) : Nat :=
  sumG (infos.filter (fun i => decide (conf ≥ i.2)))

theorem calcV2_fst (infos : List (Nat × Nat)) (conf : Nat) :
    (calcV2 infos conf).1 = min conf (metG infos conf) := by
  unfold calcV2 metG sumG
  simp only []
  generalize List.foldl (fun acc i => acc + i.1) 0
    (List.filter (fun i => decide (conf ≥ i.2)) infos) = a
  split
  · simp only; omega
  · simp only; omega

theorem calcV2_sum (infos : List (Nat × Nat)) (conf : Nat) :
    (calcV2 infos conf).1 + (calcV2 infos conf).2 = sumG infos := by
  have h := sumG_filter_split (fun i => decide (conf ≥ i.2)) infos
  unfold calcV2
  unfold sumG at h ⊢
  simp only []
  split
  · simp only; omega
  · simp only; omega

theorem calcV2_le_conf (infos : List (Nat × Nat)) (conf : Nat) :
    (calcV2 infos conf).1 ≤ conf := by
  rw [calcV2_fst]; omega

theorem calcV1_sum (st : UTS) (conf minc : Nat) :
    (calcV1 st conf minc).1 + (calcV1 st conf minc).2 = st.c + st.d := by
  unfold calcV1
  by_cases h1 : conf ≥ st.b <;> simp only [h1, if_true, if_false] <;> split <;> simp only <;> omega

/-! ### processGuaranteed (B3) -/

theorem processGuaranteed_none (status : Nat → Bool) (g : Nat) :
    processGuaranteed status none g = (status, g, 0) := rfl

/-- everything about `processGuaranteed status (some r) g`, no assumption on `g` -/
theorem processGuaranteed_some_general (status : Nat → Bool) (r : Range) (g : Nat) :
    let res := processGuaranteed status (some r) g
    let w := countWinning status r.first (rangeLen r)
    -- reserved tickets are either used (already winning or newly marked) or returned
    res.2.1 + res.2.2 = g ∧
    -- `add` is the number of newly marked tickets
    countWinning res.1 r.first (rangeLen r) = w + res.2.2 ∧
    res.2.2 = min (g - w) (rangeLen r - w) ∧
    -- the guarantee is honoured as far as the range allows
    countWinning res.1 r.first (rangeLen r) ≥ min g (rangeLen r) ∧
    -- no other participant's ticket, no non-existent id
    (∀ t, (t < r.first ∨ r.first + rangeLen r ≤ t) → res.1 t = status t) ∧
    -- flags only gain
    (∀ t, status t = true → res.1 t = true) := by
  intro res w
  have hw : w ≤ rangeLen r := countWinning_le _ _ _
  by_cases hg : g > w
  · have hres : res = ((topUp status r.first (rangeLen r) (g - w)).1,
        w + (topUp status r.first (rangeLen r) (g - w)).2.2,
        (topUp status r.first (rangeLen r) (g - w)).2.1) := by
      show processGuaranteed status (some r) g = _
      simp only [processGuaranteed]
      rw [if_pos hg]
    have hs := topUp_sum status r.first (rangeLen r) (g - w)
    have hc := topUp_count status r.first (rangeLen r) (g - w)
    have hm := topUp_marked status r.first (rangeLen r) (g - w)
    rw [hres]
    refine ⟨by simp only; omega, by simp only; exact hc, by simp only; exact hm,
      by simp only; rw [hc]; omega, ?_, ?_⟩
    · intro t ht; exact topUp_outside _ _ _ _ _ ht
    · intro t ht; exact topUp_mono _ _ _ _ _ ht
  · have hres : res = (status, g, 0) := by
      show processGuaranteed status (some r) g = _
      simp only [processGuaranteed]
      rw [if_neg hg]
    rw [hres]
    refine ⟨by simp, by simp; rfl, by simp only; omega, by simp only; omega, ?_, ?_⟩
    · intro t _; rfl
    · intro t ht; exact ht

end LP
