import LP.Proofs.ZeroAllocNGFull4
/-
  LP.Proofs.ZeroAllocNGFull5 — zero-size allocations in `Variant.nftGuar` without any restriction
  on the allocation entries, part 5: from the start of the filter until the additional step
  completes every accepted call of the real state is matched by the SAME call on the erased state
  (`zk_PB_match`), hence the NFT participants are frozen along any accepted calls
  (`zk_later_frozen`, the counterpart of `ng_later_frozen` for the relation `ng_LaterZ` without the
  restriction `v1_CallOK`).
-/
namespace LP
open LP.FY LP.Events LP.Props.C14

/-- after the first `filter` call and before the additional step completes, every accepted call
    is matched by the same call on the erased state -/
theorem zk_PB_match {T0 : Nat} {hash : List Nat → List Nat} {s z s' : State} {e : Env} {c : Call}
    {o : Out} {r : Nat} (hst : s.flags.started = true) (hna : s.flags.additional = false)
    (hz : ng_WF T0 z r) (hsim : ZSimG s z)
    (hu : z.uts = s.uts) (hr : r ≤ e.round) (hok : EnvOK e)
    (hs : step hash s e c = .ok (s', o)) :
    ∃ z', ng_WF T0 z' e.round ∧ ZSimG s' z' ∧ z'.uts = s'.uts ∧ step hash z e c = .ok (z', o) := by
  have hvar := zk_var_of_sim hz hsim
  have hex := ng_exposed hvar hs
  obtain ⟨hcfg, hfl, _⟩ := hsim.fields
  have htl := hz.tlStarted (by rw [hfl]; exact hst)
  rw [hcfg] at htl
  have hearly : ¬ (s.stage e = .addTickets ∨ s.stage e = .confirm) := by
    rintro (h1 | h1)
    · have := rb_stage_addTickets h1; omega
    · have := (rb_stage_confirm h1).2; omega
  cases c with
  | addTicketsV1 l =>
    exact absurd (Or.inl (LP.Props.C06.alloc_only_in_addTickets hash s e _ _
      (Or.inr (Or.inl ⟨l, rfl⟩)) hs)) hearly
  | blacklist l =>
    exact absurd (LP.Props.C06.blacklist_only_before_selection hash s e _ _ (Or.inl ⟨l, rfl⟩) hs) hearly
  | confirm n => exact zk_PB_confirm hz hsim hu hr hok hs
  | filter => exact zk_PB_filter hz hsim hu hr hok hs
  | secondary => exact zk_PB_secondary hz hsim hu hr hok hs
  | claim =>
    exfalso
    rcases LP.Props.C06.claim_gate hash s e _ hs with h1 | ⟨h1, _⟩
    · have := (v1_stage_claim h1).2.1
      rw [hna] at this; cases this
    · rw [(ng_flags hvar).1] at h1; cases h1
  | deposit | setTicketPrice _ _ | setPerTicket _ | setConfStart _ | setSelStart _ | setClaimStart _
  | setSupport _ | pause | unpause | select | claimPayment | confirmNft | setNftCost _ | sftSetup =>
    exact zk_PB_indep rfl hz hsim hu hr hok hs
  | _ => exact absurd hex id

/-- … hence it keeps the NFT participants -/
theorem zk_call_frozen {T0 : Nat} {hash : List Nat → List Nat} {s z s' : State} {e : Env} {c : Call}
    {o : Out} {r : Nat} (hst : s.flags.started = true) (hna : s.flags.additional = false)
    (hz : ng_WF T0 z r) (hsim : ZSimG s z)
    (hu : z.uts = s.uts) (hr : r ≤ e.round) (hok : EnvOK e)
    (hs : step hash s e c = .ok (s', o)) : nf_Frozen s s' ∧ s'.flags.started = true := by
  obtain ⟨z', _, hsim', _, hstep⟩ := zk_PB_match hst hna hz hsim hu hr hok hs
  have hfl : z.flags = s.flags := hsim.fields.2.1
  obtain ⟨k, k2⟩ := ng_call_frozen hz hr (by rw [hfl]; exact hst) (by rw [hfl]; exact hna) hstep
  obtain ⟨R, B, K, C, U, rfl⟩ := hsim.shape'
  obtain ⟨R', B', K', C', U', rfl⟩ := hsim'.shape'
  exact ⟨⟨k.mem, k.len, k.pre, k.avail, k.cost⟩, k2⟩

/-- `ng_LaterZ hash s r s2 r2`: `s2` (at round `r2`) is reached from `s` (at round `r`) by ANY
    accepted calls (no restriction on allocation entries) and by the passing of time -/
inductive ng_LaterZ (hash : List Nat → List Nat) (s : State) (r : Nat) : State → Nat → Prop
  | refl : ng_LaterZ hash s r s r
  | call (s1 : State) (r1 : Nat) (e : Env) (c : Call) (s2 : State) (o : Out) :
      ng_LaterZ hash s r s1 r1 → r1 ≤ e.round → EnvOK e →
      step hash s1 e c = .ok (s2, o) → ng_LaterZ hash s r s2 e.round
  | wait (s1 : State) (r1 r2 : Nat) : ng_LaterZ hash s r s1 r1 → r1 ≤ r2 → ng_LaterZ hash s r s1 r2

/-- from an `ng_ReachZA` state in which the filter has started, as long as the additional step is
    not complete: whatever calls are accepted in whatever order, the NFT participants stay the
    same -/
theorem zk_later_frozen {hash : List Nat → List Nat} {a0 : InitArgs} {s : State} {r : Nat}
    (h : ng_ReachZA hash a0 s r) (hstd : s.flags.started = true) {s2 : State} {r2 : Nat}
    (hl : ng_LaterZ hash s r s2 r2) :
    ng_ReachZA hash a0 s2 r2 ∧
    (s2.flags.additional = false → nf_Frozen s s2 ∧ s2.flags.started = true) := by
  induction hl with
  | refl => exact ⟨h, fun _ => ⟨nf_Frozen.refl s, hstd⟩⟩
  | call s1 r1 e c s2 o _ h1 h2 h4 ih =>
    obtain ⟨i1, i2⟩ := ih
    refine ⟨.call s1 r1 e c s2 o i1 h1 h2 h4, fun hadd2 => ?_⟩
    have hadd1 : s1.flags.additional = false := by
      cases hq : s1.flags.additional with
      | false => rfl
      | true =>
        have := (step_flags_gain h4).2 hq
        rw [hadd2] at this; cases this
    obtain ⟨j1, j2⟩ := i2 hadd1
    obtain ⟨z, hz, hsim, hu⟩ := zk_Inv_started (zk_sim i1) j2
    obtain ⟨k1, k2⟩ := zk_call_frozen j2 hadd1 hz hsim hu h1 h2 h4
    exact ⟨j1.trans k1, k2⟩
  | wait s1 r1 r2 _ h1 ih =>
    obtain ⟨i1, i2⟩ := ih
    exact ⟨.wait s1 r1 r2 i1 h1, i2⟩

end LP

#print axioms LP.zk_later_frozen
