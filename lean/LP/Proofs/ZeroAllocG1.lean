import LP.Proofs.ZeroAllocG1h
/-
  LP.Proofs.ZeroAllocG1 — zero-size allocations for `Variant.guarV1`, final part: simulation of the
  vested `claim` and THE SIMULATION THEOREM `zg_sim`: every `g1_ReachZA` state (zero-size entries
  `(a, 0, 0, false)` allowed) is `ZGSim`-related to a `g1_ReachA` state of the original development.

  (parts: ZeroAllocG1a … ZeroAllocG1h)
-/
namespace LP
open LP.FY

/-- `claim`:
    * caller settled on both sides, or unsettled with a non-empty range: the same claim;
    * caller with an EMPTY range (first claim) or already "settled" only in `s` (repeat claim of an
      address that had an empty range): the erased state does not move. -/
theorem zg_sim_claim {hash : List Nat → List Nat} {a0 : InitArgs} {s z : State} {r : Nat}
    {e : Env} {s' : State} {o : Out}
    (hz : g1_ReachA hash a0 z r) (hsim : ZGSim s z)
    (hr : r ≤ e.round) (hok : EnvOK e) (hs : step hash s e .claim = .ok (s', o)) :
    ∃ z', g1_ReachA hash a0 z' e.round ∧ ZGSim s' z' ∧ (s'.flags.started = false → zg_A s' z') ∧
      (step hash z e .claim = .ok (z', o) ∨
        (z' = z ∧ (s' = s ∨ ∃ rg, s.range e.caller = some rg ∧ rg.last < rg.first ∧
          s' = zg_w s ⟨upd s.range e.caller none, upd s.batch rg.first none, s.blacklist,
                       upd s.claimed e.caller true, s.uts⟩))) := by
  have hwf := g1_reach_WF hz
  obtain ⟨hcfg, hfl, hvz, hoz, hcf, hop, hlast, _, _, hut⟩ := hsim.fields
  have hvar : s.variant = .guarV1 := by rw [← hvz]; exact hwf.var
  obtain ⟨hvest, _, hv2, _⟩ := g1_flags hvar
  -- stage
  have hdone : s.flags.selected = true ∧ s.flags.additional = true := by
    rcases LP.Props.C06.claim_gate hash s e (s', o) hs with hstg | ⟨_, hc⟩
    · obtain ⟨h1, h2, _, _⟩ := v1_stage_claim hstg; exact ⟨h1, h2⟩
    · exact hsim.done _ hc
  obtain ⟨hsel, hadd⟩ := hdone
  have hD := v1_phase_D hwf.phase (by show z.flags.additional = true; rw [hfl]; exact hadd)
  have hfil : s.flags.filtered = true := by rw [← hfl]; exact hD.filtered
  have hsta : s.flags.started = true := by rw [← hfl]; exact hD.started
  have hnorec := (LP.Props.C01reachG1.unsettled_no_record_guarV1 hash z r (g1_Reach_iff.mpr ⟨a0, hz⟩)).1
  have hs2 := hs
  rw [LP.Props.C09.step_claim_ok_iff] at hs2
  obtain ⟨he1, he2, t, hx, rfl, rfl⟩ := hs2
  have hvt : (LP.Props.C09.txc s e).s.variant = .guarV1 := hvar
  have htx : LP.Props.C09.txc z e = zg_wt (LP.Props.C09.txc s e) (zg_of z) := by
    conv => lhs; rw [hsim.rest]
    rfl
  -- generic closing of the "same claim" cases
  have same : ∀ (w' ws' : zg_O),
      exec hash (zg_wt (LP.Props.C09.txc s e) (zg_of z)) e .claim = .ok (zg_wt t w') →
      t = zg_wt t ws' →
      w'.R = z_eraseR ws'.R → (∀ a, w'.K a = true → ws'.K a = true) →
      (∀ a, w'.C a = true → ws'.C a = true) → zg_Uweak ws'.U w'.U →
      ∃ z', g1_ReachA hash a0 z' e.round ∧ ZGSim t.s z' ∧ (t.s.flags.started = false → zg_A t.s z') ∧
        (step hash z e .claim = .ok (z', t.o) ∨
          (z' = z ∧ (t.s = s ∨ ∃ rg, s.range e.caller = some rg ∧ rg.last < rg.first ∧
            t.s = zg_w s ⟨upd s.range e.caller none, upd s.batch rg.first none, s.blacklist,
                         upd s.claimed e.caller true, s.uts⟩))) := by
    intro w' ws' hex hfr hR hK hC hU
    have hstep : step hash z e .claim = .ok ((zg_wt t w').s, t.o) := by
      rw [LP.Props.C09.step_claim_ok_iff]
      exact ⟨he1, he2, _, by rw [htx]; exact hex, rfl, rfl⟩
    have e1 : t.s.range = ws'.R := (congrArg (fun x => x.s.range) hfr).trans rfl
    have e3 : t.s.blacklist = ws'.K := (congrArg (fun x => x.s.blacklist) hfr).trans rfl
    have e4 : t.s.claimed = ws'.C := (congrArg (fun x => x.s.claimed) hfr).trans rfl
    have e5 : t.s.uts = ws'.U := (congrArg (fun x => x.s.uts) hfr).trans rfl
    obtain ⟨g1, g2, g3, g4⟩ := step_flags_gain4 hs
    have q1 : t.s.flags.started = true := g1 hsta
    have q2 : t.s.flags.filtered = true := g2 hfil
    have q3 : t.s.flags.selected = true := g3 hsel
    have q4 : t.s.flags.additional = true := g4 hadd
    refine ⟨_, .call z r e .claim _ _ hz hr hok trivial hstep,
      ⟨rfl, ?_, ?_, ?_, ?_, ?_, fun _ _ => ⟨q3, q4⟩⟩, ?_, Or.inl hstep⟩
    · show w'.R = z_eraseR t.s.range
      rw [e1]; exact hR
    · intro hf
      rw [q2] at hf; cases hf
    · intro a ha
      show t.s.blacklist a = true
      rw [e3]; exact hK a ha
    · intro a ha
      show t.s.claimed a = true
      rw [e4]; exact hC a ha
    · show zg_Uweak t.s.uts w'.U
      rw [e5]; exact hU
    · intro hf
      rw [q1] at hf; cases hf
  cases hcl : s.claimed e.caller with
  | true =>
    cases hzc : z.claimed e.caller with
    | true =>
      -- settled on both sides: a further instalment
      obtain ⟨w', k1, k2⟩ := zg_exec_claim (zg_of z) hvt hx (Or.inl ⟨hcl, hzc⟩)
      obtain ⟨ws', j1, j2⟩ := zg_exec_claim (zg_of (LP.Props.C09.txc s e).s) hvt hx (Or.inl ⟨hcl, hcl⟩)
      have j1' : exec hash (LP.Props.C09.txc s e) e .claim = .ok (zg_wt t ws') := j1
      rw [hx] at j1'
      have hfr : t = zg_wt t ws' := by injection j1'
      rcases k2 with ⟨_, rfl⟩ | ⟨h0, _⟩
      · rcases j2 with ⟨_, rfl⟩ | ⟨h0, _⟩
        · exact same _ _ k1 hfr hsim.range hsim.bl hsim.cl hsim.uts
        · exact absurd (show s.claimed e.caller = _ from h0) (by rw [hcl]; simp)
      · exact absurd (show s.claimed e.caller = _ from h0) (by rw [hcl]; simp)
    | false =>
      -- "settled" only in `s` (an address that had an empty range): nothing happens
      have hut0 : s.userTotal e.caller = 0 := by rw [← hut]; exact (hnorec e.caller hzc).1
      have hs' : t.s = s := zg_claim_noop hvar hs hcl hut0
      refine ⟨z, .wait z r e.round hz hr, ?_, ?_, Or.inr ⟨rfl, Or.inl hs'⟩⟩
      · rw [hs']; exact hsim
      · intro hf; rw [hs', hsta] at hf; cases hf
  | false =>
    have hzc : z.claimed e.caller = false := by
      cases hk : z.claimed e.caller with
      | false => rfl
      | true => rw [hsim.cl _ hk] at hcl; cases hcl
    -- the caller holds a range
    obtain ⟨rg, hrg⟩ : ∃ rg, s.range e.caller = some rg := by
      have hx' : claimVested (rbTx s e) e = .ok t := by
        have hx0 := hx
        simp only [exec] at hx0
        rw [if_pos (by exact hvest)] at hx0
        exact hx0
      obtain ⟨t1, c, h1, _⟩ := g1_claimVested_state hv2 hx'
      rcases v2_claimSettle_state h1 with ⟨h0, _⟩ | ⟨_, _, rg, B, hrg, _⟩
      · exact absurd (show s.claimed e.caller = _ from h0) (by rw [hcl]; simp)
      · exact ⟨rg, hrg⟩
    by_cases hne : rg.first ≤ rg.last
    · have hzr : z.range e.caller = some rg := by rw [hsim.range]; exact z_eraseR_of_ne hrg hne
      obtain ⟨w', k1, k2⟩ := zg_exec_claim (zg_of z) hvt hx (Or.inr ⟨hcl, hzc, rg, hrg, hzr⟩)
      obtain ⟨ws', j1, j2⟩ := zg_exec_claim (zg_of (LP.Props.C09.txc s e).s) hvt hx
        (Or.inr ⟨hcl, hcl, rg, hrg, hrg⟩)
      have j1' : exec hash (LP.Props.C09.txc s e) e .claim = .ok (zg_wt t ws') := j1
      rw [hx] at j1'
      have hfr : t = zg_wt t ws' := by injection j1'
      rcases k2 with ⟨h0, _⟩ | ⟨_, rg1, hrg1, rfl⟩
      · exact absurd (show s.claimed e.caller = _ from h0) (by rw [hcl]; simp)
      · rcases j2 with ⟨h0, _⟩ | ⟨_, rg2, hrg2, rfl⟩
        · exact absurd (show s.claimed e.caller = _ from h0) (by rw [hcl]; simp)
        · have hrg1' : s.range e.caller = some rg1 := hrg1
          have hrg2' : s.range e.caller = some rg2 := hrg2
          rw [hrg] at hrg1' hrg2'
          injection hrg1' with hrg1'
          injection hrg2' with hrg2'
          subst hrg1' hrg2'
          refine same _ _ k1 hfr ?_ hsim.bl ?_ hsim.uts
          · show upd z.range e.caller none = z_eraseR (upd s.range e.caller none)
            rw [z_eraseR_upd_none, hsim.range]
          · intro a ha
            have ha' : upd z.claimed e.caller true a = true := ha
            show upd s.claimed e.caller true a = true
            by_cases hxa : a = e.caller
            · subst hxa; simp
            · rw [upd_other _ _ _ _ hxa] at ha' ⊢; exact hsim.cl a ha'
    · -- an address with an empty range: the erased state does not move
      have hzn : z.range e.caller = none := by rw [hsim.range]; exact z_eraseR_of_empty hrg hne
      have hc0 : s.confirmed e.caller = 0 := by rw [← hcf]; exact hD.rngNone e.caller hzn
      have hut0 : s.userTotal e.caller = 0 := by rw [← hut]; exact (hnorec e.caller hzc).1
      have hst2 := zg_claim_stutter hvar hs hcl hrg (by omega) hc0 hut0
      refine ⟨z, .wait z r e.round hz hr, ⟨?_, ?_, ?_, ?_, ?_, ?_, ?_⟩, ?_,
        Or.inr ⟨rfl, Or.inr ⟨rg, hrg, by omega, hst2⟩⟩⟩
      · rw [hst2, zg_w_w]; exact hsim.rest
      · rw [hst2]
        show z.range = z_eraseR (upd s.range e.caller none)
        rw [z_eraseR_upd_none, ← hsim.range, z_upd_none_self _ _ hzn]
      · intro hf
        rw [hst2] at hf
        have hf' : s.flags.filtered = false := hf
        rw [hfil] at hf'; cases hf'
      · intro a ha
        rw [hst2]
        exact hsim.bl a ha
      · intro a ha
        rw [hst2]
        show upd s.claimed e.caller true a = true
        by_cases hxa : a = e.caller
        · subst hxa; simp
        · rw [upd_other _ _ _ _ hxa]; exact hsim.cl a ha
      · rw [hst2]; exact hsim.uts
      · intro _ _
        rw [hst2]; exact ⟨hsel, hadd⟩
      · intro hf
        rw [hst2] at hf
        have hf' : s.flags.started = false := hf
        rw [hsta] at hf'; cases hf'

/-! ### the simulation theorem -/

/-- one accepted call from a state related to a `g1_ReachA` state leads to a state related to a
    `g1_ReachA` state -/
theorem zg_sim_step {hash : List Nat → List Nat} {a0 : InitArgs} {s z : State} {r : Nat}
    {e : Env} {c : Call} {s' : State} {o : Out}
    (hz : g1_ReachA hash a0 z r) (hsim : ZGSim s z) (hA : s.flags.started = false → zg_A s z)
    (hr : r ≤ e.round) (hok : EnvOK e) (hc : zg_CallOK c) (hs : step hash s e c = .ok (s', o)) :
    ∃ z', g1_ReachA hash a0 z' e.round ∧ ZGSim s' z' ∧ (s'.flags.started = false → zg_A s' z') := by
  have hwf := g1_reach_WF hz
  have hvar : s.variant = .guarV1 := by rw [← hsim.fields.2.2.1]; exact hwf.var
  have hex := g1_exposed hvar hs
  cases c with
  | addTicketsV1 l =>
    obtain ⟨z', h1, h2, h3, _⟩ := zg_sim_add hz hsim hA hr hok hc hs; exact ⟨z', h1, h2, h3⟩
  | confirm n =>
    obtain ⟨z', h1, h2, h3, _⟩ := zg_sim_confirm hz hsim hA hr hok hs; exact ⟨z', h1, h2, h3⟩
  | filter =>
    obtain ⟨z', h1, h2, h3, _⟩ := zg_sim_filter hz hsim hr hok hs; exact ⟨z', h1, h2, h3⟩
  | distribute =>
    obtain ⟨z', h1, h2, h3, _⟩ := zg_sim_distribute hz hsim hr hok hs; exact ⟨z', h1, h2, h3⟩
  | claim =>
    obtain ⟨z', h1, h2, h3, _⟩ := zg_sim_claim hz hsim hr hok hs; exact ⟨z', h1, h2, h3⟩
  | blacklist l =>
    obtain ⟨z', h1, h2, h3, _⟩ := zg_sim_blacklist hz hsim hA hr hok hs; exact ⟨z', h1, h2, h3⟩
  | unblacklist l =>
    obtain ⟨z', h1, h2, h3, _⟩ := zg_sim_unblacklist hz hsim hA hr hok hs; exact ⟨z', h1, h2, h3⟩
  | deposit | setTicketPrice _ _ | setPerTicket _ | setConfStart _ | setSelStart _ | setClaimStart _
  | setSupport _ | pause | unpause | select | claimPayment | setSchedule1 _ _ _ _ _ =>
    obtain ⟨z', h1, h2, h3, _⟩ := zg_sim_indep rfl hz hsim hA hr hok hs; exact ⟨z', h1, h2, h3⟩
  | _ => exact absurd hex id

/-- **SIMULATION**: every state of `guarV1` reachable with zero-size allocation entries
    `(a, 0, 0, false)` is `ZGSim`-related to a state reachable in the original development (same
    deployment arguments, same round): erase the empty ranges, the zero-size batches and the
    guarantee-free records of the empty-range addresses. -/
theorem zg_sim {hash : List Nat → List Nat} {a0 : InitArgs}
    {s : State} {r : Nat} (h : g1_ReachZA hash a0 s r) :
    ∃ z, g1_ReachA hash a0 z r ∧ ZGSim s z ∧ (s.flags.started = false → zg_A s z) := by
  induction h with
  | init e s h =>
    obtain ⟨_, _, _, _, _, _, _, _, _, _, _, _, _, h14, h15, _, _, _, _, _, _, h22, h23, _, _, _, _, h28, _⟩ := g1_init_inv h
    refine ⟨s, .init e s h, ⟨rfl, ?_, ?_, fun _ h => h, fun _ h => h, fun _ => Or.inl rfl, ?_⟩, ?_⟩
    · rw [h14]; rfl
    · intro _; rw [h15]; rfl
    · intro a ha
      rw [h28] at ha; cases ha
    · intro _
      refine ⟨?_, ?_, fun _ => Or.inl rfl, ?_, fun _ _ => rfl⟩
      · intro i b _ hb
        rw [h15] at hb; cases hb
      · intro a rg hr _
        rw [h14] at hr; cases hr
      · intro a ha
        rw [h23] at ha; cases ha
  | call s r e c s' o _ h1 h2 h3 h4 ih =>
    obtain ⟨z, hz, hsim, hA⟩ := ih
    exact zg_sim_step hz hsim hA h1 h2 h3 h4
  | wait s r r' _ h1 ih =>
    obtain ⟨z, hz, hsim, hA⟩ := ih
    exact ⟨z, .wait z r r' hz h1, hsim, hA⟩

theorem zg_sim_reach {hash : List Nat → List Nat} {s : State} {r : Nat} (h : g1_ReachZ hash s r) :
    ∃ z, g1_Reach hash z r ∧ ZGSim s z := by
  obtain ⟨a0, h⟩ := g1_ReachZ_iff.mp h
  obtain ⟨z, hz, hsim, _⟩ := zg_sim h
  exact ⟨z, g1_Reach_iff.mpr ⟨a0, hz⟩, hsim⟩

/-! ### quantities that do not see the erasure -/

theorem ZGSim.shape' {s z : State} (h : ZGSim s z) : ∃ w, z = zg_w s w := ⟨_, h.rest⟩

theorem ZGSim.winCountOf_eq {s z : State} (h : ZGSim s z) (a : Nat) : winCountOf s a = winCountOf z a := by
  have hst : z.status = s.status := by have := congrArg State.status h.rest; exact this
  unfold winCountOf
  rw [h.range, hst]
  cases hr : s.range a with
  | none => rw [z_eraseR_of_none hr]
  | some rg =>
    by_cases hne : rg.first ≤ rg.last
    · rw [z_eraseR_of_ne hr hne]
    · rw [z_eraseR_of_empty hr hne]
      have : rangeLen rg = 0 := by unfold rangeLen; omega
      simp only [this, countWinning]

theorem ZGSim.refundDue_eq {s z : State} (h : ZGSim s z)
    (hnone : ∀ a, z.range a = none → z.confirmed a = 0) (a : Nat) : refundDue s a = refundDue z a := by
  have hw := h.winCountOf_eq a
  have hc : z.confirmed = s.confirmed := by have := congrArg State.confirmed h.rest; exact this
  have hp : z.price = s.price := by have := congrArg State.price h.rest; exact this
  unfold refundDue
  rw [← hw, hc, hp, h.range]
  cases hr : s.range a with
  | none => rw [z_eraseR_of_none hr]
  | some rg =>
    by_cases hne : rg.first ≤ rg.last
    · rw [z_eraseR_of_ne hr hne]
    · have hz : z.range a = none := by rw [h.range]; exact z_eraseR_of_empty hr hne
      rw [z_eraseR_of_empty hr hne]
      have := hnone a hz
      rw [hc] at this
      simp [this]

end LP

#print axioms LP.zg_sim
#print axioms LP.zg_sim_reach
