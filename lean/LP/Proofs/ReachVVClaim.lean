import LP.Proofs.ReachVVWF
import LP.Props.C20
/-
  LP.Proofs.ReachVVClaim — the vested claim of `Variant.guarV2` from a well-formed state that
  satisfies the exactness invariant `vv_Exact`:
    * `vv_claim_out`    : the transfers and events of an accepted claim (refund of the losing
                          tickets on the first claim, then ONE launchpad-token transfer and ONE
                          `claimLaunchpadTokens` event of exactly the booked increment, or none);
    * `vv_claim_effect` : the caller's booked amount becomes EXACTLY the released part of his
                          entitlement at the round of the call, the balance drops by exactly the
                          increment, nobody else is touched, schedule and terms untouched;
    * `vv_claim_Exact`, `vv_call_Exact`, `vv_reach_Exact` : `vv_Exact` is an invariant of the
                          reachable states.
-/
namespace LP
open LP.FY LP.Events

/-! ### one call of the claimable computation -/

/-- **path independence at the level of one call** (C13 `claimable2_step`): under the exactness
    clause the booked amount after the call is exactly the released amount at the current round -/
theorem vv_claimable2_exact {s : State} {e : Env} {a c : Nat} (h : claimable2 s e a = .ok c)
    (hinv : s.userClaimed a = 0 ∨
      ∃ r', r' ≤ e.round ∧ s.userClaimed a = entitled (s.userTotal a) (unlockedPct2 r' (sched2Of s))) :
    s.userClaimed a + c = entitled (s.userTotal a) (unlockedPct2 e.round (sched2Of s)) := by
  rcases hinv with h0 | ⟨r', hr', h0⟩
  · exact claimable2_step h (Nat.le_refl _) (by rw [h0]; exact Nat.zero_le _)
  · exact claimable2_step h hr' (by rw [h0]; exact Nat.le_refl _)

/-! ### transfers and events of an accepted claim -/

/-- the settle part of the first claim, from its two components -/
theorem vv_claimSettle_first {t t1 : Tx} {e : Env} {s1 : State} {redeem rf : Nat}
    (hcl : t.s.claimed e.caller = false) (hset : settle t.s e = .ok (s1, redeem, rf))
    (href : (t.setS s1).refund e e.caller rf = .ok t1) :
    claimSettle t e = .ok (if redeem > 0 then
      t1.setS { t1.s with userTotal := upd t1.s.userTotal e.caller (redeem * t1.s.perTicket) }
      else t1) := by
  unfold claimSettle
  simp only [hcl, Bool.false_eq_true, if_false, hset, bind, Except.bind, href, pure, Except.pure]

/-- **what an accepted v2 claim sends and emits**: `rf` = the caller's losing confirmed tickets on
    the first claim (`0` on a repeat claim), `c` = the booked increment: one payment-token refund
    transfer / `refundTicketPayment` event iff `rf > 0`, then one launchpad-token transfer of
    exactly `c` to the caller and one `claimLaunchpadTokens` event carrying `c` iff `c > 0` -/
theorem vv_claim_out {s : State} {e : Env} {t : Tx} (hv2 : s.variant.isV2 = true)
    (h : claimVested (rbTx s e) e = .ok t) :
    ∃ c rf, t.s.userClaimed e.caller = s.userClaimed e.caller + c ∧
      (s.claimed e.caller = true → rf = 0) ∧
      t.o.xfers = (if rf > 0 then [(e.caller, refundPay s rf)] else []) ++
        (if c > 0 then [(e.caller, (⟨.esdt s.lpTok, 0, c⟩ : Pay))] else []) ∧
      t.o.events = (if rf > 0 then [refundEv s e rf] else []) ++
        (if c > 0 then [claimEv s e c] else []) := by
  obtain ⟨t1, c, h1, hc, h2, _⟩ := claimVested_inv h
  simp only [rbTx_s, hv2, if_true] at hc h2
  cases hcl : s.claimed e.caller with
  | true =>
    obtain ⟨c', hc', hev, hxf⟩ := LP.Events.claimVested_claimed (t := rbTx s e) hcl h
    simp only [rbTx_s, hv2, if_true, and_true] at hc' hev hxf
    have ht1 : t1 = rbTx s e := (claimSettle_frame h1).2.2.2.2.1 hcl
    rw [ht1] at hc
    simp only [rbTx_s] at hc
    have hcc : c' = c := by rw [hc'] at hc; injection hc
    subst hcc
    refine ⟨c', 0, h2, fun _ => rfl, ?_, ?_⟩
    · rw [hxf]; rfl
    · rw [hev]; rfl
  | false =>
    obtain ⟨s1, redeem, rf, t2, c', hset, href, hc', hev, hxf⟩ :=
      LP.Events.claimVested_first (t := rbTx s e) hcl h
    simp only [rbTx_s, hv2, if_true, and_true] at hc' hev hxf hset
    have h1' := vv_claimSettle_first (t := rbTx s e) hcl hset href
    rw [h1'] at h1
    injection h1 with h1
    have hs1 : t1.s = (if redeem > 0 then
        { t2.s with userTotal := upd t2.s.userTotal e.caller (redeem * t2.s.perTicket) }
        else t2.s) := by
      rw [← h1]; split <;> rfl
    rw [hs1, hc'] at hc
    have hcc : c' = c := by injection hc
    subst hcc
    refine ⟨c', rf, h2, (fun hq => by cases hq), ?_, ?_⟩
    · rw [hxf]; rfl
    · rw [hev]; rfl

/-! ### the effect of a vested claim on the vesting ledger -/

/-- **an accepted claim, first or repeat, from a well-formed state**: the schedule and the
    terms are untouched; afterwards the caller's booked amount is EXACTLY the released part of his
    entitlement at the round of the call (whatever he claimed before: path independence); the
    booked amount did not decrease; the contract's launchpad-token balance dropped by exactly the
    increment; nobody else's record changed; the entitlement is unchanged on a repeat claim and is
    `winning tickets × perTicket` (with nothing booked before) on the first claim. -/
theorem vv_claim_effect {T0 : Nat} {hash : List Nat → List Nat} {s s' : State} {e : Env} {o : Out}
    {r : Nat} (h : WF2 T0 s r) (hx : vv_Exact s r) (hr : r ≤ e.round)
    (hs : step hash s e .claim = .ok (s', o)) :
    s'.sched2 = s.sched2 ∧ s'.perTicket = s.perTicket ∧ s'.lpTok = s.lpTok ∧ s'.cfg = s.cfg ∧
    s'.userClaimed e.caller
      = entitled (s'.userTotal e.caller) (unlockedPct2 e.round (sched2Of s)) ∧
    s.userClaimed e.caller ≤ s'.userClaimed e.caller ∧
    s'.bal (.esdt s.lpTok) 0 + (s'.userClaimed e.caller - s.userClaimed e.caller)
      = s.bal (.esdt s.lpTok) 0 ∧
    (∀ a, a ≠ e.caller → s'.userClaimed a = s.userClaimed a ∧ s'.userTotal a = s.userTotal a ∧
      s'.claimed a = s.claimed a) ∧
    s'.claimed e.caller = true ∧
    (s.claimed e.caller = true → s'.userTotal e.caller = s.userTotal e.caller) ∧
    (s.claimed e.caller = false →
      s'.userTotal e.caller = winCountOf s e.caller * s.perTicket ∧ s.userClaimed e.caller = 0 ∧
      s.stage e = .claim) := by
  obtain ⟨t, hxx, rfl⟩ := rb_step_np (by intro m hm; simp [endpointMeta] at hm; rw [← hm]) hs
  obtain ⟨hvest, _, hv2, _⟩ := v2_flags h.var
  simp only [exec, rbTx_s, hvest, if_true] at hxx
  obtain ⟨t1, c, h1, hcl1, hts, hcle⟩ := v2_claimVested_state hv2 hxx
  have hl := h.lp
  have hne : Token.esdt s.lpTok ≠ s.payTok := fun hh => h.tokNe hh.symm
  have hexs : ∀ a, s.userClaimed a = 0 ∨ ∃ r', r' ≤ e.round ∧
      s.userClaimed a = entitled (s.userTotal a) (unlockedPct2 r' (sched2Of s)) :=
    (hx.mono hr).exact
  rcases v2_claimSettle_state h1 with ⟨hcl, rfl⟩ | ⟨hcl, hst, rg, B, hrg, hle, ht1, hBle, hBo, hBpay⟩
  · simp only [rbTx_s] at hcl1 hcle
    have hex := vv_claimable2_exact hcl1 (hexs e.caller)
    rw [hts]
    refine ⟨rfl, rfl, rfl, rfl, ?_, ?_, ?_, ?_, hcl, fun _ => rfl, fun hq => ?_⟩
    · show upd s.userClaimed e.caller (s.userClaimed e.caller + c) e.caller = _
      rw [upd_same]; exact hex
    · show s.userClaimed e.caller ≤ upd s.userClaimed e.caller (s.userClaimed e.caller + c) e.caller
      rw [upd_same]; omega
    · show (s.bal.sub (.esdt s.lpTok) 0 c) (.esdt s.lpTok) 0 +
        (upd s.userClaimed e.caller (s.userClaimed e.caller + c) e.caller - s.userClaimed e.caller) = _
      rw [upd_same]
      simp only [Bal.sub, and_self, if_true]
      omega
    · intro a ha
      refine ⟨?_, rfl, rfl⟩
      show upd s.userClaimed e.caller (s.userClaimed e.caller + c) a = _
      rw [upd_other _ _ _ _ ha]
    · rw [hcl] at hq; cases hq
  · obtain ⟨hsel, hadd, hc1, hc2⟩ := v2_stage_claim hst
    have hlp1 : t1.s.lpTok = s.lpTok := by rw [ht1]; rfl
    have hbal1 : t1.s.bal = B := by rw [ht1]
    have hBlp : B (.esdt s.lpTok) 0 = s.bal (.esdt s.lpTok) 0 := hBo _ _ hne
    have hpost := hl.post hadd
    have hut0 : s.userTotal e.caller = 0 := hpost.unclaimed e.caller hcl
    have huc0 : s.userClaimed e.caller = 0 := Nat.le_zero.mp (hut0 ▸ hpost.le e.caller)
    have hut : (if redeemOf s rg > 0 then upd s.userTotal e.caller (redeemOf s rg * s.perTicket)
        else s.userTotal) = upd s.userTotal e.caller (redeemOf s rg * s.perTicket) := by
      by_cases hk0 : redeemOf s rg > 0
      · rw [if_pos hk0]
      · rw [if_neg hk0]
        have : redeemOf s rg = 0 := by omega
        rw [this, Nat.zero_mul, ← hut0, upd_self_val]
    have hwc : winCountOf s e.caller = redeemOf s rg := by
      simp only [winCountOf, hrg, redeemOf, (rb_clearRange_spec s.status s.posToId rg.first (rangeLen rg)).2.2]
    have hcle' : c ≤ s.bal (.esdt s.lpTok) 0 := by
      rw [hlp1, hbal1, hBlp] at hcle; exact hcle
    have hex : s.userClaimed e.caller + c
        = entitled (redeemOf s rg * s.perTicket) (unlockedPct2 e.round (sched2Of s)) := by
      have h0 : t1.s.userClaimed e.caller = 0 ∨ ∃ r', r' ≤ e.round ∧ t1.s.userClaimed e.caller
          = entitled (t1.s.userTotal e.caller) (unlockedPct2 r' (sched2Of t1.s)) := by
        left; rw [ht1]; exact huc0
      have := vv_claimable2_exact hcl1 h0
      rw [ht1] at this
      have this' : s.userClaimed e.caller + c = entitled ((if redeemOf s rg > 0
        then upd s.userTotal e.caller (redeemOf s rg * s.perTicket) else s.userTotal) e.caller)
          (unlockedPct2 e.round (sched2Of s)) := this
      rw [hut, upd_same] at this'
      exact this'
    rw [hts, hlp1, hbal1, ht1]
    refine ⟨rfl, rfl, rfl, rfl, ?_, ?_, ?_, ?_, ?_, fun hq => ?_, fun _ => ⟨?_, huc0, hst⟩⟩
    · show upd s.userClaimed e.caller (s.userClaimed e.caller + c) e.caller
        = entitled ((if redeemOf s rg > 0 then upd s.userTotal e.caller (redeemOf s rg * s.perTicket)
            else s.userTotal) e.caller) (unlockedPct2 e.round (sched2Of s))
      rw [hut, upd_same, upd_same]; exact hex
    · show s.userClaimed e.caller ≤ upd s.userClaimed e.caller (s.userClaimed e.caller + c) e.caller
      rw [upd_same]; omega
    · show (B.sub (.esdt s.lpTok) 0 c) (.esdt s.lpTok) 0 +
        (upd s.userClaimed e.caller (s.userClaimed e.caller + c) e.caller - s.userClaimed e.caller) = _
      rw [upd_same]
      simp only [Bal.sub, and_self, if_true, hBlp]
      omega
    · intro a ha
      refine ⟨?_, ?_, ?_⟩
      · show upd s.userClaimed e.caller (s.userClaimed e.caller + c) a = _
        rw [upd_other _ _ _ _ ha]
      · show (if redeemOf s rg > 0 then upd s.userTotal e.caller (redeemOf s rg * s.perTicket)
            else s.userTotal) a = _
        rw [hut, upd_other _ _ _ _ ha]
      · show upd s.claimed e.caller true a = _
        rw [upd_other _ _ _ _ ha]
    · show upd s.claimed e.caller true e.caller = true
      rw [upd_same]
    · rw [hcl] at hq; cases hq
    · show (if redeemOf s rg > 0 then upd s.userTotal e.caller (redeemOf s rg * s.perTicket)
          else s.userTotal) e.caller = _
      rw [hut, upd_same, hwc]

/-- what the contract sends and emits in an accepted claim, in terms of the booked increment
    `inc = userClaimed' − userClaimed` of the caller: at most one payment-token refund (first claim
    only), then exactly one launchpad-token transfer of `inc` to the caller and one
    `claimLaunchpadTokens` event carrying `inc` iff `inc > 0` -/
theorem vv_claim_transfers {hash : List Nat → List Nat} {s s' : State} {e : Env} {o : Out}
    (hv : s.variant = .guarV2) (hs : step hash s e .claim = .ok (s', o)) :
    ∃ rf, (s.claimed e.caller = true → rf = 0) ∧
      o.xfers = (if rf > 0 then [(e.caller, refundPay s rf)] else []) ++
        (if s'.userClaimed e.caller - s.userClaimed e.caller > 0 then
          [(e.caller, (⟨.esdt s.lpTok, 0, s'.userClaimed e.caller - s.userClaimed e.caller⟩ : Pay))]
          else []) ∧
      o.events = (if rf > 0 then [refundEv s e rf] else []) ++
        (if s'.userClaimed e.caller - s.userClaimed e.caller > 0 then
          [claimEv s e (s'.userClaimed e.caller - s.userClaimed e.caller)] else []) := by
  obtain ⟨t, hxx, rfl, rfl⟩ := LP.Props.C20.step_nopay_inv
    (by intro m hm; simp [endpointMeta] at hm; rw [← hm]) hs
  obtain ⟨hvest, _, hv2, _⟩ := v2_flags hv
  have hxx' : exec hash (rbTx s e) e .claim = .ok t := hxx
  simp only [exec, rbTx_s, hvest, if_true] at hxx'
  obtain ⟨c, rf, k1, k2, k3, k4⟩ := vv_claim_out hv2 hxx'
  have hinc : t.s.userClaimed e.caller - s.userClaimed e.caller = c := by omega
  rw [hinc]
  exact ⟨rf, k2, k3, k4⟩

/-! ### preservation of the exactness invariant -/

theorem vv_sched2Of_congr {s s' : State} (h : s'.sched2 = s.sched2) : sched2Of s' = sched2Of s := by
  unfold sched2Of; rw [h]

theorem vv_claim_Exact {T0 : Nat} {hash : List Nat → List Nat} {s s' : State} {e : Env} {o : Out}
    {r : Nat} (h : WF2 T0 s r) (hx : vv_Exact s r) (hr : r ≤ e.round)
    (hs : step hash s e .claim = .ok (s', o)) : vv_Exact s' e.round := by
  obtain ⟨j1, j2, _, j4, j5, _, _, j8, j9, j10, j11⟩ := vv_claim_effect h hx hr hs
  have hsc := vv_sched2Of_congr j1
  have hxm := hx.mono hr
  refine ⟨fun a hca => ?_, fun a hca => ?_, fun ms hms => ?_, fun a => ?_⟩
  · by_cases ha : a = e.caller
    · rw [ha]
      exact ⟨e.round, Nat.le_refl _, by rw [hsc]; exact j5⟩
    · obtain ⟨q1, q2, q3⟩ := j8 a ha
      rw [q3] at hca
      rw [q1, q2, hsc]; exact hxm.settled a hca
  · by_cases ha : a = e.caller
    · rw [ha, j9] at hca; cases hca
    · obtain ⟨q1, _, q3⟩ := j8 a ha
      rw [q3] at hca
      rw [q1]; exact hx.unset a hca
  · rw [j1] at hms
    rw [j4]; exact hxm.sch ms hms
  · by_cases ha : a = e.caller
    · rw [ha]
      cases hcl : s.claimed e.caller with
      | true => rw [j10 hcl, j2]; exact hx.unit e.caller
      | false => exact ⟨winCountOf s e.caller, by rw [(j11 hcl).1, j2]⟩
    · rw [(j8 a ha).2.1, j2]; exact hx.unit a

/-- **preservation**: every accepted call of the v2 launchpad keeps the exactness invariant -/
theorem vv_call_Exact {T0 : Nat} {hash : List Nat → List Nat} {s s' : State} {e : Env} {c : Call}
    {o : Out} {r : Nat} (h : WF2 T0 s r) (hx : vv_Exact s r) (hr : r ≤ e.round) (hok : EnvOK e)
    (hs : step hash s e c = .ok (s', o)) : vv_Exact s' e.round := by
  have h' : WF2 T0 s' e.round := call_WF2 h hr hok hs
  have hxm := hx.mono hr
  -- the schedule clause
  have hsch : ∀ ms, s'.sched2 = some ms →
      ms.length ≤ 60 ∧ ∃ t0, t0 ≤ e.round ∧ t0 < s'.cfg.conf ∧ validSchedule2 t0 ms = true := by
    intro ms hms
    by_cases hc : ∃ l, c = .setSchedule2 l
    · obtain ⟨l, rfl⟩ := hc
      obtain ⟨m, t, _, _, _, hxx, rfl, _⟩ := step_ok_inv hs
      simp only [exec] at hxx
      obtain ⟨k1, k2, k3, rfl⟩ := (setSchedule2_eq_ok _ _ _ _).mp hxx
      have hml : l = ms := by
        have : some l = some ms := hms
        injection this
      subst hml
      have hlt : e.round < s.cfg.conf := rb_stage_addTickets (s := s) k1
      exact ⟨k2, e.round, Nat.le_refl _, hlt, k3⟩
    · have hs2 : s'.sched2 = s.sched2 := sched2_frame hs (fun l hl => hc ⟨l, hl⟩)
      rw [hs2] at hms
      obtain ⟨q1, t0, q2, q3, q4⟩ := hxm.sch ms hms
      exact ⟨q1, t0, q2, vv_conf_lower hs q2 q3, q4⟩
  by_cases hcc : c = .claim
  · subst hcc; exact vv_claim_Exact h hx hr hs
  cases hq' : s'.flags.additional with
  | false =>
    have hf := (h'.lp.pre hq').fresh
    exact vv_Exact_of_fresh hf hsch
  | true =>
    cases hq : s.flags.additional with
    | false =>
      have hf := (h.lp.pre hq).fresh
      have hcl : s'.claimed = s.claimed := vv_step_claimed hcc hs
      refine vv_Exact_of_fresh (fun a => ?_) hsch
      have hca : s'.claimed a = false := by
        rw [hcl]; exact (hf a).2.2
      exact ⟨((vv_records h' a).1 hca).1, ((vv_records h' a).1 hca).2, hca⟩
    | true =>
      have hd : AllDone s := ⟨(v2_phase_F h.phase hq).d.selected, hq⟩
      obtain ⟨_, k2, _, _, k5, _, _, k8⟩ := vv_done_frame h hr hd hs
      obtain ⟨q1, q2, q3⟩ := k8 hcc
      have hsc := vv_sched2Of_congr k5
      refine ⟨fun a hca => ?_, fun a hca => ?_, hsch, fun a => ?_⟩
      · rw [q3] at hca
        rw [q1, q2, hsc]; exact hxm.settled a hca
      · rw [q3] at hca
        rw [q2]; exact hx.unset a hca
      · rw [q1, k2]; exact hx.unit a

/-- the exactness invariant (together with `WF2`) holds in every reachable state -/
theorem vv_reach_Exact {hash : List Nat → List Nat} {a0 : InitArgs} {s : State} {r : Nat}
    (h : ReachA hash .guarV2 a0 s r) : vv_Exact s r := by
  induction h with
  | init e s h => exact vv_init_Exact h
  | call s r e c s' o hprev h1 h2 _ h4 ih => exact vv_call_Exact (reach_WF2 hprev) ih h1 h2 h4
  | wait s r r' _ h1 ih => exact vv_wait_Exact ih h1

end LP

#print axioms LP.vv_claim_out
#print axioms LP.vv_claim_effect
#print axioms LP.vv_claim_transfers
#print axioms LP.vv_call_Exact
#print axioms LP.vv_reach_Exact
