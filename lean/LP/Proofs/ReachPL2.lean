import LP.Proofs.ReachPL1
import LP.Proofs.CBFrame
/-
  LP.Proofs.ReachPL2 — the launchpad-token side of the two plain launchpads, part 2: the
  invariant.

  `pl_Lp T0 s` (`T0` = the number of winning tickets given at deployment):
     base    : `pl_Base s`
     num     : `pl_Num T0 (pl_view s)`, i.e.
         nrwLe   nrWinning ≤ T0
         notFil  filtered = false → nrWinning = T0 ∧ selected = false
         notDep  deposited = false → bal lpTok = 0
         dep     deposited = true → ∃ k, bal lpTok = perTicket × (nrWinning + k) ∧ nrWinning + k ≤ T0 ∧
                                         (filtered = false → k = 0)
     noConf  : deposited = false → nobody has a confirmed ticket
  `k` is the number of tickets whose tokens are the owner's not-yet-withdrawn surplus: `0` until the
  filter completes (the balance is EXACTLY `perTicket × nrWinning = perTicket × T0`), then
  `T0 − nrWinning(at filter completion)` until the owner withdraws, then `0` for ever
  (`pl_Exact`, kept by every later call: `pl_step_Exact`).

      pl_init   deployment establishes it
      pl_step   EVERY accepted call keeps it (no `EnvOK`, no `CallOK`, no round monotonicity)
      pl_run    hence it holds after any history `run hash s0 h`
      pl_reach  and in every state of `Reach hash v s r`, `Plain v`
-/
namespace LP
open LP.FY

/-! ### the numeric part, on views -/

structure pl_Num (T0 : Nat) (v : pl_V) : Prop where
  nrwLe : v.nrw ≤ T0
  notFil : v.fil = false → v.nrw = T0 ∧ v.sel = false
  notDep : v.dep = false → v.bal = 0
  dep : v.dep = true → ∃ k, v.bal = v.per * (v.nrw + k) ∧ v.nrw + k ≤ T0 ∧ (v.fil = false → k = 0)

theorem pl_mul_split (per n k w : Nat) (hw : w ≤ n) :
    per * (n + k) = per * (n - w + k) + w * per := by
  rw [Nat.mul_comm w per, ← Nat.mul_add]
  congr 1
  omega

theorem pl_fil_of_sel {T0 : Nat} {v : pl_V} (h : pl_Num T0 v) (hs : v.sel = true) : v.fil = true := by
  cases hf : v.fil with
  | true => rfl
  | false =>
    have := (h.notFil hf).2
    rw [hs] at this; cases this

/-- every move keeps the numeric invariant -/
theorem pl_Tr_Num {T0 : Nat} {K : pl_K} {v v' : pl_V} (h : pl_Num T0 v) (ht : pl_Tr K v v') :
    pl_Num T0 v' := by
  cases ht with
  | same => exact h
  | select _ hf =>
    refine ⟨h.nrwLe, ?_, h.notDep, h.dep⟩
    intro hf'
    have hf'' : v.fil = false := hf'
    rw [hf] at hf''; cases hf''
  | setPer _ a hd ha =>
    refine ⟨h.nrwLe, h.notFil, h.notDep, ?_⟩
    intro hd'
    have hd'' : v.dep = true := hd'
    rw [hd] at hd''; cases hd''
  | deposit _ hd =>
    refine ⟨h.nrwLe, h.notFil, ?_, ?_⟩
    · intro hd'; cases hd'
    · intro _
      refine ⟨0, ?_, h.nrwLe, fun _ => rfl⟩
      show v.bal + v.per * v.nrw = v.per * (v.nrw + 0)
      rw [h.notDep hd]; simp
  | filter _ n hf hn =>
    obtain ⟨hT, _⟩ := h.notFil hf
    refine ⟨by show n ≤ T0; omega, ?_, h.notDep, ?_⟩
    · intro hf'; cases hf'
    · intro hd
      obtain ⟨k, hk, _, hk0⟩ := h.dep hd
      have hk0' := hk0 hf
      subst hk0'
      refine ⟨v.nrw - n, ?_, ?_, ?_⟩
      · show v.bal = v.per * (n + (v.nrw - n))
        rw [hk]; congr 1; omega
      · show n + (v.nrw - n) ≤ T0; omega
      · intro hf'; cases hf'
  | claim _ w hs hw hb =>
    have hfil := pl_fil_of_sel h hs
    refine ⟨by show v.nrw - w ≤ T0; have := h.nrwLe; omega, ?_, ?_, ?_⟩
    · intro hf'
      have hf'' : v.fil = false := hf'
      rw [hfil] at hf''; cases hf''
    · intro hd
      show v.bal - w * v.per = 0
      rw [h.notDep hd]; omega
    · intro hd
      obtain ⟨k, hk, hkT, hk0⟩ := h.dep hd
      refine ⟨k, ?_, ?_, ?_⟩
      · show v.bal - w * v.per = v.per * (v.nrw - w + k)
        have := pl_mul_split v.per v.nrw k w hw
        omega
      · show v.nrw - w + k ≤ T0; omega
      · exact hk0
  | withdraw _ hs hb =>
    refine ⟨h.nrwLe, h.notFil, ?_, ?_⟩
    · intro hd
      show v.per * v.nrw = 0
      have := h.notDep hd
      omega
    · intro _
      exact ⟨0, rfl, h.nrwLe, fun _ => rfl⟩

/-- "the owner's surplus is gone": the filter is complete and, from the deposit on, the contract
    holds EXACTLY the outstanding winners' launchpad tokens -/
def pl_Exact (v : pl_V) : Prop := v.fil = true ∧ (v.dep = true → v.bal = v.per * v.nrw)

/-- every move keeps it -/
theorem pl_Tr_Exact {T0 : Nat} {K : pl_K} {v v' : pl_V} (hN : pl_Num T0 v) (hE : pl_Exact v)
    (ht : pl_Tr K v v') :
    pl_Exact v' := by
  obtain ⟨hf0, hb0⟩ := hE
  cases ht with
  | same => exact ⟨hf0, hb0⟩
  | select _ hf => exact ⟨hf0, hb0⟩
  | setPer _ a hd ha =>
    refine ⟨hf0, ?_⟩
    intro hd'
    have hd'' : v.dep = true := hd'
    rw [hd] at hd''; cases hd''
  | deposit _ hd =>
    refine ⟨hf0, fun _ => ?_⟩
    show v.bal + v.per * v.nrw = v.per * v.nrw
    rw [hN.notDep hd]; simp
  | filter _ n hf hn => rw [hf0] at hf; cases hf
  | claim _ w hs hw hb =>
    refine ⟨hf0, fun hd => ?_⟩
    show v.bal - w * v.per = v.per * (v.nrw - w)
    have h1 := hb0 hd
    have := pl_mul_split v.per v.nrw 0 w hw
    simp only [Nat.add_zero] at this
    omega
  | withdraw _ hs hb => exact ⟨hf0, fun _ => rfl⟩

/-- **the surplus is frozen**: from the deposit and the completion of the filter on, a move that is
    not the owner's withdrawal leaves `bal − perTicket × nrWinning` (the owner's not-yet-withdrawn
    surplus) and `perTicket` unchanged -/
theorem pl_Tr_surplus {T0 : Nat} {K : pl_K} {v v' : pl_V} (hN : pl_Num T0 v) (ht : pl_Tr K v v')
    (hK : K ≠ .cp) (hd : v.dep = true) (hf : v.fil = true) :
    v'.bal - v'.per * v'.nrw = v.bal - v.per * v.nrw ∧ v'.per = v.per ∧ v'.dep = true ∧
    v'.fil = true := by
  cases ht with
  | same => exact ⟨rfl, rfl, hd, hf⟩
  | select _ => exact ⟨rfl, rfl, hd, hf⟩
  | setPer _ a hd' ha => rw [hd] at hd'; cases hd'
  | deposit _ hd' => rw [hd] at hd'; cases hd'
  | filter _ n hf' hn => rw [hf] at hf'; cases hf'
  | claim _ w hs hw hb =>
    refine ⟨?_, rfl, hd, hf⟩
    show v.bal - w * v.per - v.per * (v.nrw - w) = v.bal - v.per * v.nrw
    obtain ⟨k, hk, _, _⟩ := hN.dep hd
    have h1 := pl_mul_split v.per v.nrw 0 w hw
    have h2 : v.per * v.nrw ≤ v.per * (v.nrw + k) := Nat.mul_le_mul_left _ (Nat.le_add_right _ _)
    simp only [Nat.add_zero] at h1
    omega
  | withdraw _ _ => exact absurd rfl hK

/-- **the filter fixes the surplus**: a filter call on a deposited, not yet filtered state either
    leaves the view alone (interrupted) or completes: then `nrWinning` drops from `T0` to `n` and the
    balance `perTicket × T0` is `perTicket × n` plus the surplus `perTicket × (T0 − n)` -/
theorem pl_Tr_filter_surplus {T0 : Nat} {v v' : pl_V} (hN : pl_Num T0 v) (ht : pl_Tr .filt v v')
    (hd : v.dep = true) :
    v' = v ∨ (v.fil = false ∧ v.nrw = T0 ∧ v'.fil = true ∧ v'.sel = false ∧ v'.nrw ≤ T0 ∧
      v'.per = v.per ∧ v'.bal = v.per * T0 ∧ v'.bal = v'.per * v'.nrw + v'.per * (T0 - v'.nrw)) := by
  generalize hK : pl_K.filt = K at ht
  cases ht with
  | same => exact Or.inl rfl
  | select _ => cases hK
  | setPer _ a hd' ha => cases hK
  | deposit _ hd' => cases hK
  | claim _ w hs hw hb => cases hK
  | withdraw _ _ => cases hK
  | filter _ n hf hn =>
    right
    obtain ⟨hT, hsel⟩ := hN.notFil hf
    obtain ⟨k, hk, _, hk0⟩ := hN.dep hd
    have := hk0 hf
    subst this
    refine ⟨hf, hT, rfl, hsel, by show n ≤ T0; omega, rfl, ?_, ?_⟩
    · show v.bal = v.per * T0
      rw [hk, hT]; rfl
    · show v.bal = v.per * n + v.per * (T0 - n)
      rw [hk, ← Nat.mul_add]; congr 1; omega

/-- the owner's withdrawal establishes it -/
theorem pl_withdraw_Exact {T0 : Nat} {v : pl_V} (hN : pl_Num T0 v) (hs : v.sel = true) :
    pl_Exact { v with bal := v.per * v.nrw } :=
  ⟨(pl_fil_of_sel hN hs : v.fil = true), fun _ => rfl⟩

/-! ### nobody confirms before the deposit -/

def pl_NoConf (s : State) : Prop := s.deposited = false → ∀ a, s.confirmed a = 0

theorem pl_step_NoConf {hash : List Nat → List Nat} {s s' : State} {e : Env} {c : Call} {o : Out}
    (h : pl_NoConf s) (hs : step hash s e c = .ok (s', o)) : pl_NoConf s' := by
  intro hd' a
  have hd : s.deposited = false := by
    cases hdd : s.deposited with
    | false => rfl
    | true => have := deposited_mono hs hdd; rw [hd'] at this; cases this
  have h0 := h hd
  have hcb := step_cb hs
  have hc : s'.confirmed = (cbAfter s e c).confirmed := congrArg CB.confirmed hcb
  rw [hc]
  cases c with
  | confirm n =>
    obtain ⟨total, hacc, _⟩ := LP.Props.C07.confirm_effect hash s e n s' o hs
    have := hacc.2.2.2.1
    rw [hd] at this; cases this
  | blacklist l =>
    show (if a ∈ l then 0 else s.confirmed a) = 0
    split
    · rfl
    · exact h0 a
  | refundUsers l =>
    show (if a ∈ l then 0 else s.confirmed a) = 0
    split
    · rfl
    · exact h0 a
  | claim =>
    show (if (s.variant.vested && s.claimed e.caller) = true then s.confirmed
      else upd s.confirmed e.caller 0) a = 0
    split
    · exact h0 a
    · rw [upd_apply]; split
      · rfl
      · exact h0 a
  | _ => exact h0 a

/-! ### the invariant -/

/-- launchpad-token invariant of the plain launchpads; `T0` = winning tickets given at deployment -/
structure pl_Lp (T0 : Nat) (s : State) : Prop where
  base : pl_Base s
  num : pl_Num T0 (pl_view s)
  noConf : pl_NoConf s

/-- **preservation**: every accepted call of a plain launchpad keeps `pl_Lp` — no restriction on the
    call, its arguments, its call value or its round -/
theorem pl_step {T0 : Nat} {hash : List Nat → List Nat} {s s' : State} {e : Env} {c : Call} {o : Out}
    (hI : pl_Lp T0 s) (hs : step hash s e c = .ok (s', o)) : pl_Lp T0 s' :=
  ⟨pl_step_Base hI.base hs, pl_Tr_Num hI.num (pl_step_Tr hI.base hs), pl_step_NoConf hI.noConf hs⟩

/-- **the surplus is frozen**: from a deposited state whose filter is complete, every accepted
    call other than the owner's `claimPayment` leaves the owner's not-yet-withdrawn surplus
    `bal lpTok − perTicket × nrWinning` unchanged -/
theorem pl_step_surplus {T0 : Nat} {hash : List Nat → List Nat} {s s' : State} {e : Env} {c : Call}
    {o : Out} (hI : pl_Lp T0 s) (hs : step hash s e c = .ok (s', o)) (hc : c ≠ .claimPayment)
    (hd : s.deposited = true) (hf : s.flags.filtered = true) :
    s'.bal (.esdt s'.lpTok) 0 - s'.perTicket * s'.nrWinning
      = s.bal (.esdt s.lpTok) 0 - s.perTicket * s.nrWinning ∧
    s'.perTicket = s.perTicket ∧ s'.deposited = true ∧ s'.flags.filtered = true := by
  have hK : pl_kind c ≠ .cp := by
    cases c <;> first | (intro h; cases h; done) | exact absurd rfl hc
  exact pl_Tr_surplus hI.num (pl_step_Tr hI.base hs) hK hd hf

/-- every accepted call keeps "the owner's surplus is gone" -/
theorem pl_step_Exact {T0 : Nat} {hash : List Nat → List Nat} {s s' : State} {e : Env} {c : Call}
    {o : Out} (hI : pl_Lp T0 s) (hE : pl_Exact (pl_view s)) (hs : step hash s e c = .ok (s', o)) :
    pl_Exact (pl_view s') :=
  pl_Tr_Exact hI.num hE (pl_step_Tr hI.base hs)

/-- **deployment** establishes `pl_Lp` with `T0 = a.nrWinning` -/
theorem pl_init {v : Variant} (hv : Plain v) {a : InitArgs} {e : Env} {s : State}
    (h : init v a e = .ok s) : pl_Lp a.nrWinning s := by
  have hB := pl_init_Base hv h
  obtain ⟨_, _, _, _, _, _, h7, _, h9, h10, h11, _⟩ := pl_init_inv hv h
  have hcb := init_cb h
  refine ⟨hB, ⟨?_, ?_, ?_, ?_⟩, ?_⟩
  · show s.nrWinning ≤ a.nrWinning; omega
  · intro _
    refine ⟨h7, ?_⟩
    show s.flags.selected = false
    rw [h10]
  · intro _
    show s.bal (.esdt s.lpTok) 0 = 0
    rw [h11]
  · intro hd
    have hd' : s.deposited = true := hd
    rw [h9] at hd'; cases hd'
  · intro _ a'
    have : s.confirmed = fun _ => 0 := congrArg CB.confirmed hcb
    rw [this]

/-- along any history (rejected transactions leave the state unchanged) -/
theorem pl_run_preserves {T0 : Nat} (hash : List Nat → List Nat) :
    ∀ (h : List (Env × Call)) (s : State), pl_Lp T0 s → pl_Lp T0 (run hash s h)
  | [], s, hs => hs
  | (e, c) :: rest, s, hs => by
    unfold run
    cases hx : step hash s e c with
    | error err => exact pl_run_preserves hash rest s hs
    | ok q =>
      obtain ⟨s', o⟩ := q
      exact pl_run_preserves hash rest s' (pl_step hs hx)

/-- "the owner's surplus is gone" along any history -/
theorem pl_run_Exact {T0 : Nat} (hash : List Nat → List Nat) :
    ∀ (h : List (Env × Call)) (s : State), pl_Lp T0 s → pl_Exact (pl_view s) →
      pl_Exact (pl_view (run hash s h))
  | [], s, _, hE => hE
  | (e, c) :: rest, s, hs, hE => by
    unfold run
    cases hx : step hash s e c with
    | error err => exact pl_run_Exact hash rest s hs hE
    | ok q =>
      obtain ⟨s', o⟩ := q
      exact pl_run_Exact hash rest s' (pl_step hs hx) (pl_step_Exact hs hE hx)

/-- **every history** of a plain launchpad satisfies `pl_Lp` -/
theorem pl_run (hash : List Nat → List Nat) {v : Variant} (hv : Plain v) {a : InitArgs} {e : Env}
    {s0 : State} (hi : init v a e = .ok s0) (h : List (Env × Call)) :
    pl_Lp a.nrWinning (run hash s0 h) :=
  pl_run_preserves hash h s0 (pl_init hv hi)

/-- every state of `ReachA hash v a0`, `Plain v`, satisfies `pl_Lp a0.nrWinning` -/
theorem pl_reachA {hash : List Nat → List Nat} {v : Variant} (hv : Plain v) {a0 : InitArgs}
    {s : State} {r : Nat} (h : ReachA hash v a0 s r) : pl_Lp a0.nrWinning s := by
  induction h with
  | init e s h => exact pl_init hv h
  | call s r e c s' o _ _ _ _ h4 ih => exact pl_step ih h4
  | wait s r r' _ _ ih => exact ih

/-- every state of `Reach hash v`, `Plain v`, satisfies `pl_Lp T0` for the `T0` of its deployment -/
theorem pl_reach {hash : List Nat → List Nat} {v : Variant} (hv : Plain v) {s : State} {r : Nat}
    (h : Reach hash v s r) : ∃ T0, pl_Lp T0 s := by
  obtain ⟨a0, h0⟩ := Reach_iff.mp h
  exact ⟨a0.nrWinning, pl_reachA hv h0⟩

end LP

#print axioms LP.pl_Tr_Num
#print axioms LP.pl_Tr_Exact
#print axioms LP.pl_step
#print axioms LP.pl_step_surplus
#print axioms LP.pl_Tr_filter_surplus
#print axioms LP.pl_step_Exact
#print axioms LP.pl_init
#print axioms LP.pl_run
#print axioms LP.pl_run_Exact
#print axioms LP.pl_reachA
#print axioms LP.pl_reach
