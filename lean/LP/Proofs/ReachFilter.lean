import LP.Proofs.ReachEasy
/-
  LP.Proofs.ReachFilter — preservation of `WF` by `filterTickets`, interrupted or completed,
  from a fresh or a saved loop state.
-/
namespace LP
open LP.FY

theorem rb_filterTickets_cases {t t' : Tx} {e : Env} (h : filterTickets t e = .ok t') :
    FilterPre t.s e ∧ ∃ x f b, filStOf t.s = some x ∧
      ((runWhile (filterBody t.s.confirmed t.s.lastTicketId) (t.s.lastTicketId + 2) t.c.budget x
          = .ok (f, b, .interrupted) ∧ t'.s = filterSaved t.s x f) ∨
       (runWhile (filterBody t.s.confirmed t.s.lastTicketId) (t.s.lastTicketId + 2) t.c.budget x
          = .ok (f, b, .completed) ∧ f.removed ≤ t.s.lastTicketId ∧ t'.s = filterDone t.s x f)) := by
  obtain ⟨hp, x, hx⟩ := filterTickets_inv t t' e h
  refine ⟨hp, x, ?_⟩
  cases hrun : runWhile (filterBody t.s.confirmed t.s.lastTicketId) (t.s.lastTicketId + 2)
      t.c.budget x with
  | error err =>
    have := filterTickets_error t e x err hp hx hrun
    rw [this] at h; cases h
  | ok q =>
    obtain ⟨f, b, st⟩ := q
    cases st with
    | outOfFuel =>
      have := filterTickets_outOfFuel t e x f b hp hx hrun
      rw [this] at h; cases h
    | interrupted =>
      have := filterTickets_interrupted t e x f b hp hx hrun
      rw [this] at h
      injection h with h
      subst h
      exact ⟨f, b, hx, Or.inl ⟨rfl, rfl⟩⟩
    | completed =>
      by_cases hle : f.removed ≤ t.s.lastTicketId
      · have := filterTickets_completed t e x f b hp hx hrun hle
        rw [this] at h
        injection h with h
        subst h
        exact ⟨f, b, hx, Or.inr ⟨rfl, hle, rfl⟩⟩
      · obtain ⟨err, this⟩ := filterTickets_underflow t e x f b hp hx hrun hle
        rw [this] at h; cases h

theorem rb_filterFlags (s : State) (n : Nat) :
    (filterFlags s n).filtered = s.flags.filtered ∧ (filterFlags s n).selected = s.flags.selected ∧
    (filterFlags s n).additional = s.flags.additional := by
  by_cases h : n = 1 <;> simp [filterFlags, h]

theorem rb_mem_survivors_of_pos {conf : Nat → Nat} {L : List (Nat × Nat)} {p : Nat × Nat}
    (hp : p ∈ L) (h : conf p.1 ≠ 0) : p.1 ∈ (survivors conf L).map Prod.fst := by
  induction L with
  | nil => cases hp
  | cons q rest ih =>
    obtain ⟨a, n⟩ := q
    by_cases h0 : conf a = 0
    · rw [survivors_cons_zero conf a n rest h0]
      rcases List.mem_cons.mp hp with rfl | hp
      · exact absurd h0 h
      · exact ih hp
    · rw [survivors_cons_pos conf a n rest h0]
      rcases List.mem_cons.mp hp with rfl | hp
      · simp
      · exact List.mem_cons_of_mem _ (ih hp)

theorem rb_filter {T0 : Nat} {hash : List Nat → List Nat} {s s' : State} {e : Env} {o : Out}
    {r : Nat} (h : WF T0 s r) (_hr : r ≤ e.round)
    (hs : step hash s e .filter = .ok (s', o)) : WF T0 s' e.round := by
  obtain ⟨t, hx, rfl⟩ := rb_step_np (by intro m hm; simp [endpointMeta] at hm; rw [← hm]) hs
  simp only [exec] at hx
  obtain ⟨hpre, x, f, b, hxs, hcase⟩ := rb_filterTickets_cases hx
  simp only [rbTx_s] at hpre hxs hcase
  obtain ⟨hc1, hc2⟩ := rb_stage_winnerSelection hpre.stage
  obtain ⟨L0, hp, hab⟩ := rb_phase_notFiltered h.phase hpre.notFiltered
  have hmid : Mid s.confirmed s.lastTicketId L0 x ∧ (x.first = 1 ∨ s.flags.started = true) := by
    rcases hab with ha | hb
    · have hop : s.op = .none := ha.op
      simp only [filStOf, hop, Option.some.injEq] at hxs
      subst hxs
      have hl : s.lastTicketId = ticketTotal L0 := ha.last
      rw [hl]
      exact ⟨rb_Mid_start ha.chain hp.outR, Or.inl rfl⟩
    · obtain ⟨f0, rm, hop, hm⟩ := hb.mid
      have hop' : s.op = .filter f0 rm := hop
      simp only [filStOf, hop', Option.some.injEq] at hxs
      subst hxs
      exact ⟨hm, Or.inr hb.started⟩
  obtain ⟨hmid, hfirst⟩ := hmid
  have hok : AllocOK s.confirmed L0 := hp.ok
  have hloop := fun b' st (hrun : runWhile (filterBody s.confirmed s.lastTicketId)
      (s.lastTicketId + 2) (rbTx s e).c.budget x = .ok (f, b', st)) =>
    rb_runWhile_inv (Mid s.confirmed s.lastTicketId L0) (filterBody s.confirmed s.lastTicketId)
      (fun y y' hb hm => rb_filterBody_Mid hok hb hm) _ _ _ _ _ _ hrun hmid
  obtain ⟨hff, hfs, hfa⟩ := rb_filterFlags s x.first
  rcases hcase with ⟨hrun, hs'⟩ | ⟨hrun, hle, hs'⟩
  · -- interrupted
    have hmf : Mid s.confirmed s.lastTicketId L0 f := (hloop _ _ hrun).1 rfl
    have houtR := hmf.choose_spec.choose_spec.2.2.2.2.2.2.2
    rw [hs']
    refine ⟨h.var, h.pricePos, h.tokNe, ?_, h.balOther, ?_, ?_, ?_⟩
    · show (filterFlags s x.first).additional = true
      rw [hfa]; exact h.add
    · intro hlt; exfalso; have : e.round < s.cfg.conf := hlt; omega
    · intro _; exact ⟨hc1, hc2⟩
    · left
      refine ⟨L0, ⟨?_, ?_, hp.nrw, hp.status0, hp.pos0, hp.ok, hp.outC, houtR, hp.pay⟩, Or.inr ⟨?_, ?_⟩⟩
      · show (filterFlags s x.first).filtered = false
        rw [hff]; exact hpre.notFiltered
      · show (filterFlags s x.first).selected = false
        rw [hfs]; exact hp.notSelected
      · exact filterFlags_started s x.first hfirst
      · exact ⟨f.first, f.removed, rfl, hmf⟩
  · -- completed
    obtain ⟨y, hmy, hby⟩ := (hloop _ _ hrun).2 rfl
    obtain ⟨hy1, hyf⟩ := rb_filterBody_false hby
    subst hyf
    obtain ⟨hch, hrem, hlast, hzero, hout⟩ := rb_Mid_final hok hmy hy1
    have hcd := confSum_add_droppedSum s.confirmed L0 hok.le
    have hnew : s.lastTicketId - f.removed = ticketTotal (survivors s.confirmed L0) := by
      rw [ticketTotal_survivors, hrem]; omega
    have hnrw : s.nrWinning = T0 := hp.nrw
    rw [hs']
    refine ⟨h.var, h.pricePos, h.tokNe, ?_, h.balOther, ?_, ?_, ?_⟩
    · show (filterFlags s x.first).additional = true
      rw [hfa]; exact h.add
    · intro hlt; exfalso; have : e.round < s.cfg.conf := hlt; omega
    · intro _; exact ⟨hc1, hc2⟩
    · right; left
      refine ⟨filterFlags_started s x.first hfirst, rfl, ?_, ?_, ?_, Or.inl ⟨rfl, hp.status0, hp.pos0⟩⟩
      · show (filterFlags s x.first).selected = false
        rw [hfs]; exact hp.notSelected
      · show (if s.nrWinning > s.lastTicketId - f.removed then s.lastTicketId - f.removed
              else s.nrWinning) = min T0 (s.lastTicketId - f.removed)
        rw [hnrw]; split <;> omega
      · refine ⟨survivors s.confirmed L0, survivors_nodup _ _ hok.nodup, ?_, hch, hnew, ?_, ?_⟩
        · intro p hp1
          obtain ⟨_, h2, h3⟩ := mem_survivors hp1
          exact ⟨by omega, h2⟩
        · intro a ha
          by_cases hin : a ∈ L0.map Prod.fst
          · obtain ⟨p, hp1, hpa⟩ := List.mem_map.mp hin
            have hc0 : s.confirmed p.1 = 0 := by
              apply Classical.byContradiction
              intro hne
              exact ha (hpa ▸ rb_mem_survivors_of_pos hp1 hne)
            subst hpa
            exact ⟨hzero p hp1 hc0, hc0⟩
          · exact ⟨hout a hin, hp.outC a hin⟩
        · show s.bal s.payTok 0 = s.price * sumOver s.confirmed ((survivors s.confirmed L0).map Prod.fst)
          rw [rb_sumOver_survivors]
          exact hp.pay

end LP
