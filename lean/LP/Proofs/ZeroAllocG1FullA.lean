import LP.Proofs.ZeroAllocG1
import LP.Proofs.ZeroAllocV1B
/-
  LP.Proofs.ZeroAllocG1FullA — zero-size allocations for `Variant.guarV1` WITHOUT ANY restriction
  on the allocation entries (in particular the migrated zero-size entries `(a, 0, 0, true)`, the
  "ghost guarantees", are allowed), part 1: the phase BEFORE the first `filter` call.

  Port of LP/Proofs/ZeroAllocV1A.lean (v1 family) to the vested variant `guarV1`: the real state
  `s` is paired with the SHADOW `zv_sh s U BU N TG` (empty ranges / zero-size batches erased,
  guarantee bookkeeping replaced by the guarantee-free one `([], U, BU, N, TG)`), which satisfies
  the invariant `g1_WF` of the original development and takes REAL steps (`addTicketsV1 l` is
  matched by `addTicketsV1 (zv_lst l)`, `blacklist l` / `unblacklist l` by the same call on the
  holders of a non-empty range, `setSchedule1` and every other call by itself).  The reserve part
  is `GuarInvX s` on the REAL state plus `nrWinning + totalGuaranteed = T0`.
  The state-level lemmas of ZeroAllocV1A (`zv_g`, `zv_sh`, `zv_addV1Many`, `zv_blState`, …) do not
  mention the variant and are reused as they are.
-/
namespace LP
open LP.FY LP.Events

/-- **invariant before the first `filter` call** (`guarV1`) -/
structure zh_PA (T0 : Nat) (s : State) (r : Nat) : Prop where
  sh : ∃ U BU N TG, g1_WF T0 (zv_sh s U BU N TG) r ∧
    (∀ u, (z_eraseR s.range u).isSome = true → (U u).isSome = true)
  gx : GuarInvX s
  sum : s.nrWinning + s.totalGuaranteed = T0
  hd : z_Hd s
  ns : s.flags.started = false

theorem zh_sh_sum {T0 : Nat} {s : State} {U BU : Nat → Option UTS} {N TG r : Nat}
    (h : g1_WF T0 (zv_sh s U BU N TG) r) (hns : s.flags.started = false) : N + TG = T0 := by
  obtain ⟨_, htg, L0, hp, _, _⟩ := v1_phase_notStarted h.phase hns
  have h1 : N = T0 - TG := hp.nrw
  have h2 : TG ≤ T0 := htg
  omega

/-- the endpoints of `guarV1` that neither read nor write the guaranteed-ticket bookkeeping nor the
    allocation maps -/
def zh_gindep : Call → Bool
  | .deposit | .setTicketPrice _ _ | .setPerTicket _ | .setConfStart _ | .setSelStart _
  | .setClaimStart _ | .setSupport _ | .pause | .unpause | .setSchedule1 .. => true
  | _ => false

section
variable {W : List Nat} {U BU : Nat → Option UTS} {N TG : Nat}

theorem zh_exec_g (hash : List Nat → List Nat) (t : Tx) (e : Env) (c : Call)
    (hc : zh_gindep c = true) (hg : t.s.variant.hasGuaranteed = true)
    (hsum : N + TG = t.s.nrWinning + t.s.totalGuaranteed) :
    exec hash (zv_gt t W U BU N TG) e c = mapR (zv_gt · W U BU N TG) (exec hash t e c) := by
  cases c with
  | setSchedule1 a b c d f =>
    simp only [exec, setSchedule1]
    z_peel
  | deposit => exact zv_exec_g hash t e _ rfl hg hsum
  | setTicketPrice tok a => exact zv_exec_g hash t e _ rfl hg hsum
  | setPerTicket a => exact zv_exec_g hash t e _ rfl hg hsum
  | setConfStart x => exact zv_exec_g hash t e _ rfl hg hsum
  | setSelStart x => exact zv_exec_g hash t e _ rfl hg hsum
  | setClaimStart x => exact zv_exec_g hash t e _ rfl hg hsum
  | setSupport a => exact zv_exec_g hash t e _ rfl hg hsum
  | pause => exact zv_exec_g hash t e _ rfl hg hsum
  | unpause => exact zv_exec_g hash t e _ rfl hg hsum
  | _ => simp [zh_gindep] at hc

end

theorem zh_step_g_frame {hash : List Nat → List Nat} {s s' : State} {e : Env} {c : Call} {o : Out}
    (hc : zh_gindep c = true) (hg : s.variant.hasGuaranteed = true)
    (h : step hash s e c = .ok (s', o)) :
    s'.whitelist = s.whitelist ∧ s'.uts = s.uts ∧ s'.blUts = s.blUts ∧
    s'.nrWinning = s.nrWinning ∧ s'.totalGuaranteed = s.totalGuaranteed := by
  obtain ⟨m, t, _, _, _, hx, rfl, rfl⟩ := step_ok_inv h
  have h2 := zh_exec_g (W := s.whitelist) (U := s.uts) (BU := s.blUts) (N := s.nrWinning)
    (TG := s.totalGuaranteed) hash (tx0 s e) e c hc hg rfl
  have h3 : zv_gt (tx0 s e) s.whitelist s.uts s.blUts s.nrWinning s.totalGuaranteed = tx0 s e := rfl
  rw [h3, hx] at h2
  have h4 : t = zv_gt t s.whitelist s.uts s.blUts s.nrWinning s.totalGuaranteed := by
    injection h2
  refine ⟨?_, ?_, ?_, ?_, ?_⟩
  · exact (congrArg (fun x => x.s.whitelist) h4).trans rfl
  · exact (congrArg (fun x => x.s.uts) h4).trans rfl
  · exact (congrArg (fun x => x.s.blUts) h4).trans rfl
  · exact (congrArg (fun x => x.s.nrWinning) h4).trans rfl
  · exact (congrArg (fun x => x.s.totalGuaranteed) h4).trans rfl

theorem zh_gindep_zg {c : Call} (h : zh_gindep c = true) : zg_indep c = true := by
  cases c <;> first | rfl | (simp [zh_gindep] at h)

theorem zh_gindep_CallOK {c : Call} (h : zh_gindep c = true) : v1_CallOK c := by
  cases c <;> first | trivial | (simp [zh_gindep] at h)

/-- **the endpoints that touch neither the allocation maps nor the guarantee bookkeeping** -/
theorem zh_PA_indep {T0 : Nat} {hash : List Nat → List Nat} {s s' : State} {e : Env} {c : Call}
    {o : Out} {r : Nat} (hc : zh_gindep c = true) (h : zh_PA T0 s r) (hr : r ≤ e.round)
    (hok : EnvOK e) (hs : step hash s e c = .ok (s', o)) : zh_PA T0 s' e.round := by
  obtain ⟨U, BU, N, TG, hwf, hU⟩ := h.sh
  have hvar : s.variant = .guarV1 := hwf.var
  obtain ⟨f1, _, _, _, f5, _⟩ := g1_flags hvar
  obtain ⟨g1, g2, g3, g4, _⟩ := zg_step_indep_frame (zh_gindep_zg hc) f1 hs
  obtain ⟨k1, k2, k3, k4, k5⟩ := zh_step_g_frame hc f5 hs
  have hvar' : s'.variant = s.variant := be_variant_step hs
  have hfl : s'.flags = s.flags := zv_step_flags_eq hs (by cases c <;> first | rfl | (simp [zh_gindep] at hc))
  have htk : s'.tk = s.tk := by
    refine z_step_tk hs ?_ ?_ ?_ ?_ ?_ <;>
      (first | (intro h; subst h; simp [zh_gindep] at hc) | (intro l h; subst h; simp [zh_gindep] at hc))
  have hd' := z_Hd_keep hs htk (fun _ => h.hd) (by rw [hfl]; exact h.ns)
  obtain ⟨m, t, hm, hpay, hown, hx, rfl, rfl⟩ := step_ok_inv hs
  have hsum := zh_sh_sum hwf h.ns
  -- the shadow takes the same step
  have hx2 : exec hash (tx0 (zv_sh s U BU N TG) e) e c
      = .ok (zv_gt (zg_wt t ⟨z_eraseR s.range, z_eraseB s.batch, zv_K s.range s.blacklist, s.claimed, U⟩)
          [] U BU N TG) := by
    have e1 : tx0 (zv_sh s U BU N TG) e
        = zv_gt (zg_wt (tx0 s e) ⟨z_eraseR s.range, z_eraseB s.batch, zv_K s.range s.blacklist, s.claimed, U⟩)
            [] U BU N TG := rfl
    rw [e1, zh_exec_g hash _ e c hc (by exact f5) (by
      show N + TG = s.nrWinning + s.totalGuaranteed
      rw [hsum, h.sum]), zg_exec_indep hash _ e c (zh_gindep_zg hc) (by exact f1), hx]
    rfl
  have hstep := z_step_intro (s := zv_sh s U BU N TG) (by exact hm) hpay (by exact hown) hx2
  have hsh : (zv_gt (zg_wt t ⟨z_eraseR s.range, z_eraseB s.batch, zv_K s.range s.blacklist, s.claimed, U⟩)
      [] U BU N TG).s = zv_sh t.s U BU N TG := by
    show zv_g (zg_w t.s ⟨z_eraseR s.range, z_eraseB s.batch, zv_K s.range s.blacklist, s.claimed, U⟩)
        [] U BU N TG
      = zv_g (z_w t.s (z_eraseR t.s.range) (z_eraseB t.s.batch) (zv_K t.s.range t.s.blacklist) t.s.claimed)
        [] U BU N TG
    rw [g1, g2, g3, g4]
    rfl
  rw [hsh] at hstep
  have hwf' := g1_call_WF hwf hr hok (zh_gindep_CallOK hc) hstep
  refine ⟨⟨U, BU, N, TG, hwf', ?_⟩, ?_, ?_, hd', by rw [hfl]; exact h.ns⟩
  · intro u hu; rw [g1] at hu; exact hU u hu
  · exact GuarInvX_of_GEq ⟨k1, k2, k3, g1, k4, k5, hvar'⟩ g3 h.gx
  · rw [k4, k5]; exact h.sum

/-- **`confirm`** -/
theorem zh_PA_confirm {T0 : Nat} {hash : List Nat → List Nat} {s s' : State} {e : Env} {n : Nat}
    {o : Out} {r : Nat} (h : zh_PA T0 s r) (hr : r ≤ e.round)
    (hok : EnvOK e) (hs : step hash s e (.confirm n) = .ok (s', o)) : zh_PA T0 s' e.round := by
  obtain ⟨U, BU, N, TG, hwf, hU⟩ := h.sh
  obtain ⟨m, t, hm, hpay, hown, hx, rfl, rfl⟩ := step_ok_inv hs
  simp only [exec] at hx
  rw [LP.Props.C07.confirmTickets_ok_iff] at hx
  obtain ⟨total, ⟨a1, a2, a3, a4, a5, a6, a7⟩, rfl⟩ := hx
  have a5' : s.blacklist e.caller = false := a5
  have hx2 : exec hash (tx0 (zv_sh s U BU N TG) e) e (.confirm n)
      = .ok (zv_gt (z_wt ((tx0 s e).setS { (tx0 s e).s with
                confirmed := upd (tx0 s e).s.confirmed e.caller ((tx0 s e).s.confirmed e.caller + n) }
              |>.emit (LP.Props.C07.confirmEvent (tx0 s e).s e n total))
            (z_eraseR s.range) (z_eraseB s.batch) (zv_K s.range s.blacklist) s.claimed) [] U BU N TG) := by
    simp only [exec]
    rw [LP.Props.C07.confirmTickets_ok_iff]
    refine ⟨total, ⟨a1, a2, a3, a4, ?_, ?_, a7⟩, rfl⟩
    · show zv_K s.range s.blacklist e.caller = false
      simp [zv_K, a5']
    · exact z_ticketsFor (z_eraseB s.batch) (zv_K s.range s.blacklist) s.claimed a6
  have hstep := z_step_intro (s := zv_sh s U BU N TG) (by exact hm) hpay (by exact hown) hx2
  have hwf' := g1_call_WF (c := .confirm n) hwf hr hok trivial hstep
  refine ⟨⟨U, BU, N, TG, hwf', hU⟩, ?_, h.sum, ?_, h.ns⟩
  · exact GuarInvX_of_GEq (s := s) ⟨rfl, rfl, rfl, rfl, rfl, rfl, rfl⟩ rfl h.gx
  · intro i b hi hb
    exact h.hd i b hi hb

/-- **`addTicketsV1 l`** (ANY entries), matched on the shadow by `addTicketsV1 (zv_lst l)` -/
theorem zh_PA_add {T0 : Nat} {hash : List Nat → List Nat} {s s' : State} {e : Env}
    {l : List (Nat × Nat × Nat × Bool)} {o : Out} {r : Nat} (h : zh_PA T0 s r) (hr : r ≤ e.round)
    (hok : EnvOK e) (hs : step hash s e (.addTicketsV1 l) = .ok (s', o)) : zh_PA T0 s' e.round := by
  obtain ⟨U, BU, N, TG, hwf, hU⟩ := h.sh
  obtain ⟨hsum', hgx'⟩ := v1_step_guar (c := .addTicketsV1 l) rfl h.gx hs
  have hfl : s'.flags = s.flags := zv_step_flags_eq hs rfl
  obtain ⟨m, t, hm, hpay, hown, hx, rfl, rfl⟩ := step_ok_inv hs
  simp only [exec, bind_ok_iff, pure_ok_iff] at hx
  obtain ⟨s1, hat, rfl⟩ := hx
  unfold addTicketsV1 at hat
  simp only [bind_ok_iff, pure_ok_iff, requireStage, req_ok_iff, exists_const, Prod.exists] at hat
  obtain ⟨hst, sA, tw, tg, hmany, rfl⟩ := hat
  have hmc : 0 < (tx0 s e).s.minConfirmed := hwf.static
  obtain ⟨U', k1, k2, k3⟩ := zv_addV1Many (zv_K s.range s.blacklist) s.claimed BU N TG l (tx0 s e).s _ _ _
    U N TG hmany h.hd hmc hU
  obtain ⟨s0', hcm, hrg, _, _, wl, u, hsA⟩ := v1_addV1Many_sim l (tx0 s e).s (tx0 s e).s _ _ _ _ _
    rfl rfl rfl hmany
  obtain ⟨_, hnone, _, _, _, hfr, _, _⟩ := createMany_ok (v1_proj l) _ s0' hcm
  have hbl : sA.blacklist = s.blacklist := by rw [hsA]; rfl
  have hcl : sA.claimed = s.claimed := by rw [hsA]; rfl
  have hK : zv_K sA.range sA.blacklist = zv_K s.range s.blacklist := by
    funext a
    unfold zv_K
    rw [hbl]
    cases hb : s.blacklist a with
    | false => rfl
    | true =>
      have hsome := h.gx.bl_range a hb
      have hnin : a ∉ (v1_proj l).map Prod.fst := by
        intro hin
        have : s.range a = none := hnone a hin
        rw [this] at hsome; cases hsome
      have : sA.range a = s.range a := by rw [hrg]; exact hfr a hnin
      rw [zv_eraseR_congr this]
  have hx2 : exec hash (tx0 (zv_sh s U BU N TG) e) e (.addTicketsV1 (zv_lst l))
      = .ok ((tx0 (zv_sh s U BU N TG) e).setS
          (zv_y sA (zv_K s.range s.blacklist) s.claimed U' BU N TG)) := by
    simp only [exec, bind_ok_iff, pure_ok_iff]
    refine ⟨_, ?_, rfl⟩
    unfold addTicketsV1
    simp only [bind_ok_iff, pure_ok_iff, requireStage, req_ok_iff, exists_const, Prod.exists]
    exact ⟨hst, _, _, _, k1, rfl⟩
  have hmz : endpointMeta (zv_sh s U BU N TG).variant (.addTicketsV1 (zv_lst l)) = some m := by
    rw [← hm]; rfl
  have hstep := z_step_intro (s := zv_sh s U BU N TG) hmz hpay (by exact hown) hx2
  have hwf' := g1_call_WF hwf hr hok (zv_lst_CallOK l) hstep
  have hsh : ((tx0 (zv_sh s U BU N TG) e).setS
      (zv_y sA (zv_K s.range s.blacklist) s.claimed U' BU N TG)).s
        = zv_sh ({ sA with totalGuaranteed := tg, nrWinning := tw }) U' BU N TG := by
    show zv_y sA (zv_K s.range s.blacklist) s.claimed U' BU N TG
      = zv_y sA (zv_K sA.range sA.blacklist) sA.claimed U' BU N TG
    rw [hK, hcl]
  rw [hsh] at hwf'
  exact ⟨⟨U', BU, N, TG, hwf', k3⟩, hgx', by rw [hsum']; exact h.sum, k2, by rw [hfl]; exact h.ns⟩

/-! ### blacklist -/

/-- before the first `filter` call an address without a non-empty range has nothing confirmed -/
theorem zh_noRange_noConf {T0 : Nat} {y : State} {r : Nat} (hwf : g1_WF T0 y r)
    (hns : y.flags.started = false) {a : Nat} (ha : y.range a = none) : y.confirmed a = 0 := by
  obtain ⟨_, _, L0, hp, hA, _⟩ := v1_phase_notStarted hwf.phase hns
  by_cases hin : a ∈ L0.map Prod.fst
  · obtain ⟨rr, hrr⟩ := rb_Chain_range_some hA.chain hin
    have hrr' : y.range a = some rr := hrr
    rw [ha] at hrr'; cases hrr'
  · exact hp.outC a hin

/-- **`blacklist l`**, matched on the shadow by `blacklist (l without the holders of an empty range)` -/
theorem zh_PA_blacklist {T0 : Nat} {hash : List Nat → List Nat} {s s' : State} {e : Env}
    {l : List Nat} {o : Out} {r : Nat} (h : zh_PA T0 s r) (hr : r ≤ e.round)
    (hok : EnvOK e) (hs : step hash s e (.blacklist l) = .ok (s', o)) : zh_PA T0 s' e.round := by
  obtain ⟨U, BU, N, TG, hwf, hU⟩ := h.sh
  obtain ⟨hsum', hgx'⟩ := v1_step_guar (c := .blacklist l) rfl h.gx hs
  have hfl : s'.flags = s.flags := zv_step_flags_eq hs rfl
  have hvar : s.variant = .guarV1 := hwf.var
  obtain ⟨_, f2, f3, f4, _⟩ := g1_flags hvar
  obtain ⟨m, t, hm, hpay, hown, hx, rfl, rfl⟩ := step_ok_inv hs
  obtain ⟨hadd1, _, _, _, _, _, s1, py, bal, hgh, hts, hpb⟩ := exec_blacklist_out hx
  obtain ⟨hperm, hstage, hnd, hall, hle, _⟩ := (addUsersToBlacklist_ok_iff _ _ _ _).mp hadd1
  obtain ⟨hpy, hbal⟩ := hpb (by exact f2)
  obtain ⟨⟨wl, uu, bb, nw, tg, hs1⟩, _⟩ := hgh
  have hts' : t.s = s1 := by rw [hts, hpy, hbal]
  have hc : ∀ a, z_eraseR s.range a = none → s.confirmed a = 0 := fun a ha =>
    zh_noRange_noConf hwf h.ns (a := a) ha
  have hmem : ∀ a, a ∈ l.filter (fun a => (z_eraseR s.range a).isSome) ↔
      a ∈ l ∧ (z_eraseR s.range a).isSome = true := fun a => List.mem_filter
  have hS : blConfSum (tx0 s e).s (l.filter (fun a => (z_eraseR s.range a).isSome))
      = blConfSum (tx0 s e).s l :=
    zv_sum_filter s.confirmed (fun a => (z_eraseR s.range a).isSome) l
      (fun a _ hp => hc a (zv_isSome_false (by rw [hp]; simp)))
  have hC : (fun a => if a ∈ l.filter (fun a => (z_eraseR s.range a).isSome) then 0
        else (tx0 s e).s.confirmed a)
      = fun a => if a ∈ l then 0 else (tx0 s e).s.confirmed a := by
    funext a
    by_cases h1 : a ∈ l
    · by_cases h2 : (z_eraseR s.range a).isSome = true
      · rw [if_pos ((hmem a).mpr ⟨h1, h2⟩), if_pos h1]
      · rw [if_neg (fun hh => h2 ((hmem a).mp hh).2), if_pos h1]
        exact hc a (zv_isSome_false h2)
    · rw [if_neg (fun hh => h1 ((hmem a).mp hh).1), if_neg h1]
  have hK : zv_K s.range (fun a => if a ∈ l then true else s.blacklist a)
      = fun a => if a ∈ l.filter (fun a => (z_eraseR s.range a).isSome) then true
          else zv_K s.range s.blacklist a := by
    funext a
    show ((if a ∈ l then true else s.blacklist a) && (z_eraseR s.range a).isSome)
      = (if a ∈ l.filter (fun a => (z_eraseR s.range a).isSome) then true
          else (s.blacklist a && (z_eraseR s.range a).isSome))
    by_cases h1 : a ∈ l
    · by_cases h2 : (z_eraseR s.range a).isSome = true
      · rw [if_pos ((hmem a).mpr ⟨h1, h2⟩), if_pos h1, h2]; rfl
      · rw [if_neg (fun hh => h2 ((hmem a).mp hh).2), if_pos h1]
        have : (z_eraseR s.range a).isSome = false := by simpa using h2
        rw [this]; simp
    · rw [if_neg (fun hh => h1 ((hmem a).mp hh).1), if_neg h1]
  have hstate := zv_blState (tx0 s e).s l (l.filter (fun a => (z_eraseR s.range a).isSome))
    (z_eraseR s.range) (z_eraseB s.batch) (zv_K s.range s.blacklist) _ s.claimed U BU N TG hK hC hS
  -- the shadow accepts the filtered call
  have hy1 : addUsersToBlacklist (tx0 (zv_sh s U BU N TG) e) e
      (l.filter (fun a => (z_eraseR s.range a).isSome))
      = .ok (blTx (tx0 (zv_sh s U BU N TG) e) e (l.filter (fun a => (z_eraseR s.range a).isSome))) := by
    rw [addUsersToBlacklist_ok_iff]
    refine ⟨hperm, hstage, hnd.filter _, ?_, ?_, rfl⟩
    · intro u hu
      obtain ⟨h1, h2⟩ := (hmem u).mp hu
      refine ⟨?_, h2⟩
      show zv_K s.range s.blacklist u = false
      have : s.blacklist u = false := (hall u h1).1
      simp [zv_K, this]
    · have : blConfSum (tx0 (zv_sh s U BU N TG) e).s (l.filter (fun a => (z_eraseR s.range a).isSome))
          = blConfSum (tx0 s e).s l := hS
      rw [this]
      exact hle
  have hx2 : exec hash (tx0 (zv_sh s U BU N TG) e) e
      (.blacklist (l.filter (fun a => (z_eraseR s.range a).isSome)))
      = .ok (blTx (tx0 (zv_sh s U BU N TG) e) e (l.filter (fun a => (z_eraseR s.range a).isSome))) := by
    have hg : blHookG (blTx (tx0 (zv_sh s U BU N TG) e) e (l.filter (fun a => (z_eraseR s.range a).isSome)))
        (l.filter (fun a => (z_eraseR s.range a).isSome))
        = .ok (blTx (tx0 (zv_sh s U BU N TG) e) e (l.filter (fun a => (z_eraseR s.range a).isSome))) := by
      unfold blHookG
      rw [if_neg (by show ¬ (s.variant.isV2 = true); rw [f3]; simp), if_pos (by exact f4),
        zv_clearGuaranteedV1_nil _ _ rfl]
      rfl
    have hn : blHookN (blTx (tx0 (zv_sh s U BU N TG) e) e (l.filter (fun a => (z_eraseR s.range a).isSome)))
        (l.filter (fun a => (z_eraseR s.range a).isSome))
        = .ok (blTx (tx0 (zv_sh s U BU N TG) e) e (l.filter (fun a => (z_eraseR s.range a).isSome))) := by
      unfold blHookN
      rw [if_neg (by show ¬ (s.variant.hasNft = true); rw [f2]; simp)]
      rfl
    have he : blHookE (blTx (tx0 (zv_sh s U BU N TG) e) e (l.filter (fun a => (z_eraseR s.range a).isSome))) e
        (l.filter (fun a => (z_eraseR s.range a).isSome))
        = blTx (tx0 (zv_sh s U BU N TG) e) e (l.filter (fun a => (z_eraseR s.range a).isSome)) := by
      unfold blHookE
      rw [if_neg (by show ¬ (s.variant.isV2 = true); rw [f3]; simp)]
    rw [exec_blacklist_eq, hy1]
    show (blHookG _ _ >>= _) = _
    rw [hg]
    show (blHookN _ _ >>= _) = _
    rw [hn]
    show (pure (blHookE _ _ _) : Res Tx) = _
    rw [he]
    rfl
  have hmz : endpointMeta (zv_sh s U BU N TG).variant
      (.blacklist (l.filter (fun a => (z_eraseR s.range a).isSome))) = some m := by
    rw [← hm]; rfl
  have hstep := z_step_intro (s := zv_sh s U BU N TG) hmz hpay (by exact hown) hx2
  have hwf' := g1_call_WF (c := .blacklist _) hwf hr hok trivial hstep
  have hsh : (blTx (tx0 (zv_sh s U BU N TG) e) e (l.filter (fun a => (z_eraseR s.range a).isSome))).s
      = zv_sh t.s U BU N TG := by
    refine Eq.trans (b := zv_g (z_w (blState (tx0 s e).s l) (z_eraseR s.range) (z_eraseB s.batch)
      (zv_K s.range (fun a => if a ∈ l then true else s.blacklist a)) s.claimed) [] U BU N TG) hstate ?_
    rw [hts', hs1]
    rfl
  rw [hsh] at hwf'
  refine ⟨⟨U, BU, N, TG, hwf', ?_⟩, hgx', by rw [hsum']; exact h.sum, ?_, by rw [hfl]; exact h.ns⟩
  · intro u hu
    apply hU
    rw [hts', hs1] at hu
    exact hu
  · rw [hts', hs1]
    intro i b hi hb
    exact h.hd i b hi hb

/-! ### unblacklist -/

/-- **`unblacklist l`**, matched on the shadow by the same call on the holders of a non-empty
    range -/
theorem zh_PA_unblacklist {T0 : Nat} {hash : List Nat → List Nat} {s s' : State} {e : Env}
    {l : List Nat} {o : Out} {r : Nat} (h : zh_PA T0 s r) (hr : r ≤ e.round)
    (hok : EnvOK e) (hs : step hash s e (.unblacklist l) = .ok (s', o)) : zh_PA T0 s' e.round := by
  obtain ⟨U, BU, N, TG, hwf, hU⟩ := h.sh
  obtain ⟨hsum', hgx'⟩ := v1_step_guar (c := .unblacklist l) rfl h.gx hs
  have hfl : s'.flags = s.flags := zv_step_flags_eq hs rfl
  have hvar : s.variant = .guarV1 := hwf.var
  obtain ⟨_, f2, f3, f4, _⟩ := g1_flags hvar
  obtain ⟨m, t, hm, hpay, hown, hx, rfl, rfl⟩ := step_ok_inv hs
  obtain ⟨hrem, hgh, _, _, _⟩ := exec_unblacklist_out hx
  obtain ⟨hperm, hstage, hnd, hall, _⟩ := (removeUsersFromBlacklist_ok_iff _ _ _ _).mp hrem
  obtain ⟨⟨wl, uu, bb, nw, tg, hs1⟩, _⟩ := hgh
  have hmem : ∀ a, a ∈ l.filter (fun a => (z_eraseR s.range a).isSome) ↔
      a ∈ l ∧ (z_eraseR s.range a).isSome = true := fun a => List.mem_filter
  have hK : zv_K s.range (fun a => if a ∈ l then false else s.blacklist a)
      = fun a => if a ∈ l.filter (fun a => (z_eraseR s.range a).isSome) then false
          else zv_K s.range s.blacklist a := by
    funext a
    show ((if a ∈ l then false else s.blacklist a) && (z_eraseR s.range a).isSome)
      = (if a ∈ l.filter (fun a => (z_eraseR s.range a).isSome) then false
          else (s.blacklist a && (z_eraseR s.range a).isSome))
    by_cases h1 : a ∈ l
    · by_cases h2 : (z_eraseR s.range a).isSome = true
      · rw [if_pos ((hmem a).mpr ⟨h1, h2⟩), if_pos h1]; rfl
      · rw [if_neg (fun hh => h2 ((hmem a).mp hh).2), if_pos h1]
        have : (z_eraseR s.range a).isSome = false := by simpa using h2
        rw [this]; simp
    · rw [if_neg (fun hh => h1 ((hmem a).mp hh).1), if_neg h1]
  have hstate := zv_unblState (tx0 s e).s l (l.filter (fun a => (z_eraseR s.range a).isSome))
    (z_eraseR s.range) (z_eraseB s.batch) (zv_K s.range s.blacklist) _ s.claimed U BU N TG hK
  have hy1 : removeUsersFromBlacklist (tx0 (zv_sh s U BU N TG) e).s e
      (l.filter (fun a => (z_eraseR s.range a).isSome))
      = .ok (unblState (tx0 (zv_sh s U BU N TG) e).s (l.filter (fun a => (z_eraseR s.range a).isSome))) := by
    rw [removeUsersFromBlacklist_ok_iff]
    refine ⟨hperm, hstage, hnd.filter _, ?_, rfl⟩
    intro u hu
    obtain ⟨h1, h2⟩ := (hmem u).mp hu
    show zv_K s.range s.blacklist u = true
    have : s.blacklist u = true := hall u h1
    simp [zv_K, this, h2]
  have hy2 : restoreGuaranteedV1
      (unblState (tx0 (zv_sh s U BU N TG) e).s (l.filter (fun a => (z_eraseR s.range a).isSome)))
      (l.filter (fun a => (z_eraseR s.range a).isSome))
      = .ok (unblState (tx0 (zv_sh s U BU N TG) e).s (l.filter (fun a => (z_eraseR s.range a).isSome))) := by
    apply zv_restoreGuaranteedV1_skip
    intro u hu
    left
    exact hU u ((hmem u).mp hu).2
  have hx2 : exec hash (tx0 (zv_sh s U BU N TG) e) e
      (.unblacklist (l.filter (fun a => (z_eraseR s.range a).isSome)))
      = .ok ((tx0 (zv_sh s U BU N TG) e).setS
          (unblState (tx0 (zv_sh s U BU N TG) e).s (l.filter (fun a => (z_eraseR s.range a).isSome)))) := by
    simp only [exec]
    rw [hy1]
    show (if (unblState (tx0 (zv_sh s U BU N TG) e).s _).variant.isV2 = true then _ else _) = _
    rw [if_neg (by show ¬ (s.variant.isV2 = true); rw [f3]; simp)]
    show (restoreGuaranteedV1 _ _ >>= _) = _
    rw [hy2]
    rfl
  have hmz : endpointMeta (zv_sh s U BU N TG).variant
      (.unblacklist (l.filter (fun a => (z_eraseR s.range a).isSome))) = some m := by
    rw [← hm]; rfl
  have hstep := z_step_intro (s := zv_sh s U BU N TG) hmz hpay (by exact hown) hx2
  have hwf' := g1_call_WF (c := .unblacklist _) hwf hr hok trivial hstep
  have hsh : ((tx0 (zv_sh s U BU N TG) e).setS
      (unblState (tx0 (zv_sh s U BU N TG) e).s (l.filter (fun a => (z_eraseR s.range a).isSome)))).s
      = zv_sh t.s U BU N TG := by
    refine Eq.trans (b := zv_g (z_w (unblState (tx0 s e).s l) (z_eraseR s.range) (z_eraseB s.batch)
      (zv_K s.range (fun a => if a ∈ l then false else s.blacklist a)) s.claimed) [] U BU N TG) hstate ?_
    rw [hs1]
    rfl
  rw [hsh] at hwf'
  refine ⟨⟨U, BU, N, TG, hwf', ?_⟩, hgx', by rw [hsum']; exact h.sum, ?_, by rw [hfl]; exact h.ns⟩
  · intro u hu
    apply hU
    rw [hs1] at hu
    exact hu
  · rw [hs1]
    intro i b hi hb
    exact h.hd i b hi hb

end LP
