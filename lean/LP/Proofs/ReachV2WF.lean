import LP.Proofs.ReachFrame
import LP.Props.C03final
import LP.Props.C04select
import LP.Props.C12reserve
import LP.Props.C13
import LP.Props.C10
/-
  LP.Proofs.ReachV2WF — the inductive invariant `WF2 T0 s r` of `Variant.guarV2`
  (launchpad-guaranteed-tickets-v2), its establishment by `init` and preservation by the passing
  of time.

  The invariant extends the plain one (`LP/Proofs/ReachWF.lean`): the phases before the base
  lottery completes are the plain phases for the BASE winner count `T0 - totalGuaranteed`
  (reserve conservation), then a distribution phase `PhE` (`selected ∧ ¬ additional`; the ledger
  equation is still the pre-selection one) and the final phase `PhF` (= plain `PhD` + facts on the
  flags and the honoured guarantees).  The field `lp : LPI …` is the launchpad-token ledger
  (deposit intact until the distribution completes; afterwards cases A / B of `LPost`).
-/
namespace LP
open LP.FY

/-! ### projection -/

/-- the plain projection plus the guaranteed-ticket fields the later phases read -/
structure GCore where
  core : Core
  whitelist : List Nat
  uts : Nat → Option UTS
  tg : Nat

def State.gcore (s : State) : GCore := ⟨s.core, s.whitelist, s.uts, s.totalGuaranteed⟩

/-- whitelist facts that survive the filter (which removes ranges) -/
structure GI2 (wl : List Nat) (uts : Nat → Option UTS) (tg : Nat) : Prop where
  nodup : wl.Nodup
  total : tg = gSum true uts wl
  mem_of_pos : ∀ u st, uts u = some st → sumG st.infos > 0 → u ∈ wl

theorem GI2.of_GuarInv {s : State} (h : GuarInv true s) : GI2 s.whitelist s.uts s.totalGuaranteed :=
  ⟨h.nodup, h.total, fun u st h1 h2 => h.mem_of_pos u st h1 h2⟩

/-- the distribution step in progress with cursor `(leftover, offset, additional)`:
    both loops share this invariant (the top-up only adds flags inside `1..last`, which the
    position invariant of the leftover loop tolerates) -/
structure DInv (g : GCore) (lo off add : Nat) : Prop where
  nodup : g.whitelist.Nodup
  total : lo + add + gSum true g.uts g.whitelist = g.tg
  pinv : PosInv g.core.lastTicketId g.core.status g.core.posToId (g.core.nrWinning + off)
  count : countTrue g.core.status g.core.lastTicketId = g.core.nrWinning + add
  hon : ∀ u st r, g.uts u = some st → u ∉ g.whitelist → g.core.range u = some r →
    (calcV2 st.infos (g.core.confirmed u)).1 ≤ countWinning g.core.status r.first (rangeLen r)

/-- phase E: base lottery complete, distribution not complete -/
structure PhE (T : Nat) (g : GCore) : Prop where
  started : g.core.flags.started = true
  filtered : g.core.flags.filtered = true
  selected : g.core.flags.selected = true
  notAdd : g.core.flags.additional = false
  nrw : g.core.nrWinning = min T g.core.lastTicketId
  alloc : ∃ Ls : List (Nat × Nat), (Ls.map Prod.fst).Nodup ∧
    (∀ p ∈ Ls, 1 ≤ p.2 ∧ p.2 = g.core.confirmed p.1) ∧ Chain Ls 1 g.core.range g.core.batch ∧
    g.core.lastTicketId = ticketTotal Ls ∧
    (∀ a, a ∉ Ls.map Prod.fst → g.core.range a = none ∧ g.core.confirmed a = 0) ∧
    PayPre g.core (Ls.map Prod.fst)
  claimable : g.core.claimable = g.core.price * g.core.nrWinning
  dist : ∃ lo off add, DInv g lo off add ∧
    ((g.core.op = .none ∧ lo = 0 ∧ off = 1 ∧ add = 0) ∨
     ∃ rng, g.core.op = .additional (.guar ⟨rng, lo, off, add⟩))

/-- phase F: all selection steps complete -/
structure PhF (g : GCore) : Prop where
  d : PhD g.core
  add : g.core.flags.additional = true
  flagsIn : FlagsIn g.core.lastTicketId g.core.status
  hon : ∀ u st r, g.uts u = some st → g.core.range u = some r →
    (calcV2 st.infos (g.core.confirmed u)).1 ≤ countWinning g.core.status r.first (rangeLen r)

def Phase2 (T0 : Nat) (g : GCore) : Prop :=
  (g.core.flags.additional = false ∧ g.core.flags.selected = false ∧
      GI2 g.whitelist g.uts g.tg ∧ Phase (T0 - g.tg) g.core) ∨
  PhE (T0 - g.tg) g ∨ PhF g

/-! ### the launchpad-token side -/

/-- the fields the launchpad-token ledger reads (besides the projection `GCore`) -/
structure LProj where
  lpBal : Nat
  deposited : Bool
  totalDeposited : Nat
  perTicket : Nat
  userTotal : Nat → Nat
  userClaimed : Nat → Nat
  claimed : Nat → Bool
  sched : List (Nat × Nat)

def State.lproj (s : State) : LProj :=
  { lpBal := s.bal (.esdt s.lpTok) 0, deposited := s.deposited, totalDeposited := s.totalDeposited,
    perTicket := s.perTicket, userTotal := s.userTotal, userClaimed := s.userClaimed,
    claimed := s.claimed, sched := s.sched2.getD defaultSchedule2 }

/-- before the distribution completes: nobody has claimed; a deposit made so far is intact and
    covers `perTicket × (base winners + reserve)` -/
structure LPre (g : GCore) (p : LProj) : Prop where
  fresh : ∀ a, p.userTotal a = 0 ∧ p.userClaimed a = 0 ∧ p.claimed a = false
  dep : p.deposited = true → p.lpBal = p.totalDeposited ∧
    p.perTicket * (g.core.nrWinning + g.tg) ≤ p.totalDeposited

/-- after the distribution: the launchpad-token ledger.  Case A (owner has not withdrawn):
    `balance + Σ paid out = deposit`, the recorded proceeds are `price × W` with
    `W × perTicket = perTicket × (winners still unsettled) + Σ entitlements of the settled`,
    and the deposit covers `W × perTicket`.  Case B (owner has withdrawn his surplus):
    `balance + Σ paid out = perTicket × unsettled winners + Σ entitlements`. -/
structure LPost (g : GCore) (p : LProj) : Prop where
  led : ∃ L : List Nat, L.Nodup ∧ (∀ a, a ∉ L → p.userTotal a = 0 ∧ p.userClaimed a = 0) ∧
    ((p.lpBal + sumOver p.userClaimed L = p.totalDeposited ∧
      ∃ W, g.core.claimable = g.core.price * W ∧
        W * p.perTicket = p.perTicket * g.core.nrWinning + sumOver p.userTotal L ∧
        W * p.perTicket ≤ p.totalDeposited) ∨
     (p.totalDeposited = 0 ∧ g.core.claimable = 0 ∧
      p.lpBal + sumOver p.userClaimed L = p.perTicket * g.core.nrWinning + sumOver p.userTotal L))
  le : ∀ a, p.userClaimed a ≤ p.userTotal a
  unclaimed : ∀ a, p.claimed a = false → p.userTotal a = 0

/-- the launchpad-token invariant -/
structure LPI (g : GCore) (p : LProj) : Prop where
  sched : ∀ now, unlockedPct2 now p.sched ≤ 10000
  nodep : p.deposited = false → (∀ a, g.core.confirmed a = 0) ∧ p.lpBal = 0 ∧ p.totalDeposited = 0 ∧
    (∀ a, p.userTotal a = 0 ∧ p.userClaimed a = 0) ∧
    (g.core.flags.additional = true → g.core.nrWinning = 0)
  pre : g.core.flags.additional = false → LPre g p
  post : g.core.flags.additional = true → LPost g p

/-- preservation of the launchpad-token invariant by a step inside the pre-distribution phases
    that leaves the launchpad-token fields alone and does not increase `nrWinning + reserve` -/
theorem LPI.early {g g' : GCore} {p : LProj} (h : LPI g p) (ha : g.core.flags.additional = false)
    (ha' : g'.core.flags.additional = false)
    (hnw : g'.core.nrWinning + g'.tg ≤ g.core.nrWinning + g.tg)
    (hc : p.deposited = false → ∀ a, g'.core.confirmed a = 0) : LPI g' p := by
  have hpre := h.pre ha
  refine ⟨h.sched, ?_, fun _ => ⟨hpre.fresh, fun hd => ?_⟩, fun hq => ?_⟩
  · intro hd
    obtain ⟨_, h2, h3, h4, _⟩ := h.nodep hd
    exact ⟨hc hd, h2, h3, h4, fun hq => by rw [ha'] at hq; cases hq⟩
  · obtain ⟨h1, h2⟩ := hpre.dep hd
    exact ⟨h1, Nat.le_trans (Nat.mul_le_mul_left _ hnw) h2⟩
  · rw [ha'] at hq; cases hq

/-- the inductive invariant of `Variant.guarV2`; `T0` = winners configured at deployment -/
structure WF2 (T0 : Nat) (s : State) (r : Nat) : Prop where
  var : s.variant = .guarV2
  pricePos : 0 < s.price
  tokNe : s.payTok ≠ .esdt s.lpTok
  balOther : ∀ t, t ≠ s.payTok → t ≠ .esdt s.lpTok → s.bal t 0 = 0
  tlConf : r < s.cfg.conf → ∀ a, s.confirmed a = 0
  tlStarted : s.flags.started = true → s.cfg.conf ≤ r ∧ s.cfg.sel ≤ r
  tgLe : s.totalGuaranteed ≤ T0
  gx : s.flags.started = false → GuarInvX s
  phase : Phase2 T0 s.gcore
  lp : LPI s.gcore s.lproj

/-! ### extraction of the phase from the flags -/

theorem v2_phase_early {T0 : Nat} {g : GCore} (h : Phase2 T0 g) (hs : g.core.flags.selected = false) :
    g.core.flags.additional = false ∧ GI2 g.whitelist g.uts g.tg ∧ Phase (T0 - g.tg) g.core := by
  rcases h with ⟨h1, _, h3, h4⟩ | hE | hF
  · exact ⟨h1, h3, h4⟩
  · rw [hE.selected] at hs; cases hs
  · rw [hF.d.selected] at hs; cases hs

theorem v2_phase_notStarted {T0 : Nat} {g : GCore} (h : Phase2 T0 g)
    (hs : g.core.flags.started = false) :
    g.core.flags.additional = false ∧ g.core.flags.selected = false ∧
    GI2 g.whitelist g.uts g.tg ∧ ∃ L0, Pre (T0 - g.tg) g.core L0 ∧ PhA g.core L0 := by
  rcases h with ⟨h1, h2, h3, h4⟩ | hE | hF
  · exact ⟨h1, h2, h3, rb_phase_notStarted h4 hs⟩
  · rw [hE.started] at hs; cases hs
  · rw [hF.d.started] at hs; cases hs

theorem v2_phase_E {T0 : Nat} {g : GCore} (h : Phase2 T0 g) (hs : g.core.flags.selected = true)
    (ha : g.core.flags.additional = false) : PhE (T0 - g.tg) g := by
  rcases h with ⟨_, h2, _⟩ | hE | hF
  · rw [h2] at hs; cases hs
  · exact hE
  · rw [hF.add] at ha; cases ha

theorem v2_phase_F {T0 : Nat} {g : GCore} (h : Phase2 T0 g) (ha : g.core.flags.additional = true) :
    PhF g := by
  rcases h with ⟨h1, _⟩ | hE | hF
  · rw [h1] at ha; cases ha
  · rw [hE.notAdd] at ha; cases ha
  · exact hF

theorem v2_notStarted_of_lt {T0 : Nat} {s : State} {r : Nat} (h : WF2 T0 s r) {n : Nat}
    (hr : r ≤ n) (hlt : n < s.cfg.conf ∨ n < s.cfg.sel) : s.flags.started = false := by
  cases hs : s.flags.started with
  | false => rfl
  | true => have := h.tlStarted hs; omega

theorem v2_flags {v : Variant} (hv : v = .guarV2) :
    v.vested = true ∧ v.hasNft = false ∧ v.isV2 = true ∧ v.v1Alloc = false ∧ v.hasLock = false ∧
    v.hasGuaranteed = true ∧ v.hasUnblacklist = true ∧ v.noAdditionalStep = false := by
  subst hv; exact ⟨rfl, rfl, rfl, rfl, rfl, rfl, rfl, rfl⟩

/-! ### transfer along an unchanged projection -/

theorem v2_WF_of_gcore_lp {T0 : Nat} {s s' : State} {r r' : Nat} (h : WF2 T0 s r)
    (hg : s'.gcore = s.gcore) (hlp : LPI s.gcore s'.lproj) (hge : GEq s s')
    (hbl : s'.blacklist = s.blacklist)
    (hp : s'.payTok = s.payTok) (hl : s'.lpTok = s.lpTok)
    (hb : ∀ t, t ≠ s.payTok → t ≠ .esdt s.lpTok → s'.bal t 0 = 0)
    (htl1 : r' < s'.cfg.conf → ∀ a, s.confirmed a = 0)
    (htl2 : s.flags.started = true → s'.cfg.conf ≤ r' ∧ s'.cfg.sel ≤ r') : WF2 T0 s' r' := by
  have hcore : s'.core = s.core := congrArg GCore.core hg
  have hprice : s'.price = s.price := congrArg Core.price hcore
  have hflags : s'.flags = s.flags := congrArg Core.flags hcore
  have hconf : s'.confirmed = s.confirmed := congrArg Core.confirmed hcore
  refine ⟨by rw [hge.variant]; exact h.var, by rw [hprice]; exact h.pricePos,
    by rw [hp, hl]; exact h.tokNe, ?_, ?_, ?_, by rw [hge.totalGuaranteed]; exact h.tgLe, ?_,
    by rw [hg]; exact h.phase, by rw [hg]; exact hlp⟩
  · intro t h1 h2; rw [hp] at h1; rw [hl] at h2; exact hb t h1 h2
  · intro h1; rw [hconf]; exact htl1 h1
  · intro h1; rw [hflags] at h1; exact htl2 h1
  · intro h1; rw [hflags] at h1; exact GuarInvX_of_GEq hge hbl (h.gx h1)

theorem v2_WF_of_gcore {T0 : Nat} {s s' : State} {r r' : Nat} (h : WF2 T0 s r)
    (hg : s'.gcore = s.gcore) (hlj : s'.lproj = s.lproj) (hge : GEq s s')
    (hbl : s'.blacklist = s.blacklist)
    (hp : s'.payTok = s.payTok) (hl : s'.lpTok = s.lpTok)
    (hb : ∀ t, t ≠ s.payTok → t ≠ .esdt s.lpTok → s'.bal t 0 = 0)
    (htl1 : r' < s'.cfg.conf → ∀ a, s.confirmed a = 0)
    (htl2 : s.flags.started = true → s'.cfg.conf ≤ r' ∧ s'.cfg.sel ≤ r') : WF2 T0 s' r' :=
  v2_WF_of_gcore_lp h hg (by rw [hlj]; exact h.lp) hge hbl hp hl hb htl1 htl2

theorem v2_WF_same_cfg_lp {T0 : Nat} {s s' : State} {r r' : Nat} (h : WF2 T0 s r)
    (hg : s'.gcore = s.gcore) (hlp : LPI s.gcore s'.lproj) (hge : GEq s s')
    (hbl : s'.blacklist = s.blacklist)
    (hp : s'.payTok = s.payTok) (hl : s'.lpTok = s.lpTok)
    (hb : ∀ t, t ≠ s.payTok → t ≠ .esdt s.lpTok → s'.bal t 0 = 0)
    (hcfg : s'.cfg = s.cfg) (hr : r ≤ r') : WF2 T0 s' r' := by
  apply v2_WF_of_gcore_lp h hg hlp hge hbl hp hl hb
  · intro h1; rw [hcfg] at h1; exact h.tlConf (by omega)
  · intro h1; rw [hcfg]; have := h.tlStarted h1; omega

theorem v2_WF_same_cfg {T0 : Nat} {s s' : State} {r r' : Nat} (h : WF2 T0 s r)
    (hg : s'.gcore = s.gcore) (hlj : s'.lproj = s.lproj) (hge : GEq s s')
    (hbl : s'.blacklist = s.blacklist)
    (hp : s'.payTok = s.payTok) (hl : s'.lpTok = s.lpTok)
    (hb : ∀ t, t ≠ s.payTok → t ≠ .esdt s.lpTok → s'.bal t 0 = 0)
    (hcfg : s'.cfg = s.cfg) (hr : r ≤ r') : WF2 T0 s' r' :=
  v2_WF_same_cfg_lp h hg (by rw [hlj]; exact h.lp) hge hbl hp hl hb hcfg hr

/-! ### deployment -/

/-- the freshly deployed v2 contract -/
def v2Init (a : InitArgs) (e : Env) : State :=
  { variant := .guarV2, owner := e.caller, lpTok := a.lpTok, perTicket := a.perTicket,
    payTok := a.payTok, price := a.price, nrWinning := a.nrWinning,
    cfg := ⟨a.conf, a.sel, a.claim⟩, flags := { additional := false }, support := e.caller }

theorem v2_init_inv {a : InitArgs} {e : Env} {s : State} (h : init .guarV2 a e = .ok s) :
    0 < a.price ∧ 0 < a.nrWinning ∧ a.payTok ≠ .esdt a.lpTok ∧ 0 < a.perTicket ∧
    s = v2Init a e := by
  unfold init at h
  simp only [Variant.hasNft, Variant.v1Alloc, Variant.hasLock, Variant.noAdditionalStep, bind_ok_iff,
    req_ok_iff, pure_ok_iff, pure_bind,
    exists_const, if_true, if_false, Bool.false_eq_true, reduceCtorEq, decide_eq_true_eq,
    bne_iff_ne, ne_eq, not_false_eq_true, beq_iff_eq] at h
  lp_peel h
  subst h
  refine ⟨by omega, by omega, by assumption, by omega, rfl⟩

theorem init_WF2 {a : InitArgs} {e : Env} {s : State} (h : init .guarV2 a e = .ok s) :
    WF2 a.nrWinning s e.round := by
  obtain ⟨h1, h2, h3, _, rfl⟩ := v2_init_inv h
  have hG : GuarInvX (v2Init a e) := GuarInvX_initial _ rfl rfl rfl rfl rfl
  refine ⟨rfl, h1, h3, fun _ _ _ => rfl, fun _ _ => rfl, nofun, Nat.zero_le _, fun _ => hG, ?_, ?_⟩
  rotate_left
  · refine ⟨fun now => ?_, fun _ => ⟨fun _ => rfl, rfl, rfl, fun _ => ⟨rfl, rfl⟩, nofun⟩,
      fun _ => ⟨fun _ => ⟨rfl, rfl, rfl⟩, nofun⟩, nofun⟩
    show unlockedPct2 now defaultSchedule2 ≤ 10000
    rw [unlockedPct2_default]; exact Nat.le_refl _
  left
  refine ⟨rfl, rfl, GI2.of_GuarInv hG.base, ?_⟩
  left
  refine ⟨[], ⟨rfl, rfl, rfl, rfl, rfl, ⟨List.nodup_nil, nofun, nofun⟩, fun _ _ => rfl,
    fun _ _ => rfl, ?_⟩, Or.inl ⟨rfl, rfl, trivial, rfl⟩⟩
  show (0 : Nat) = a.price * sumOver (fun _ => 0) []
  simp [sumOver]

/-! ### passing of time -/

theorem wait_WF2 {T0 : Nat} {s : State} {r r' : Nat} (h : WF2 T0 s r) (hr : r ≤ r') : WF2 T0 s r' :=
  ⟨h.var, h.pricePos, h.tokNe, h.balOther, fun h1 => h.tlConf (by omega),
    fun h1 => by have := h.tlStarted h1; omega, h.tgLe, h.gx, h.phase, h.lp⟩

end LP
