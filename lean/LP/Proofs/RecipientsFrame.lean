import LP.Proofs.ReachBEAll
/-
  LP.Proofs.RecipientsFrame — the pass of LP.Proofs.CBFrame once more, for the projection
  `State.rb` = (`range`, `batch`, `userTotal`, `flags.filtered`): the allocation records, the vesting
  entitlements and the filter flag.  Every helper keeps the projection except the allocation
  endpoints (`addTickets*`, not needed here: they are stage-gated), `filterTickets` (exact effect:
  the result of the filter loop) and the settlement inside `claim` (exact effect: the caller's
  record and batch are erased; `userTotal` changes at most for the caller).
  (generated from the `_cb` lemmas of CBFrame.lean; the proofs are the same scripts)
-/
namespace LP

/-- allocation records, vesting entitlements, filter flag -/
structure RB where
  range : Nat → Option Range
  batch : Nat → Option Batch
  userTotal : Nat → Nat
  filtered : Bool

@[reducible] def State.rb (s : State) : RB := ⟨s.range, s.batch, s.userTotal, s.flags.filtered⟩

theorem rb_range {s s' : State} (h : s'.rb = s.rb) : s'.range = s.range := congrArg RB.range h
theorem rb_batch {s s' : State} (h : s'.rb = s.rb) : s'.batch = s.batch := congrArg RB.batch h
theorem rb_userTotal {s s' : State} (h : s'.rb = s.rb) : s'.userTotal = s.userTotal :=
  congrArg RB.userTotal h
theorem rb_filtered {s s' : State} (h : s'.rb = s.rb) : s'.flags.filtered = s.flags.filtered :=
  congrArg RB.filtered h


theorem depositLaunchpadTokens_rb {s s' : State} {e : Env} {tw : Nat}
    (h : depositLaunchpadTokens s e tw = .ok s') : s'.rb = s.rb := by
  unfold depositLaunchpadTokens at h
  simp only [bind_ok_iff, pure_ok_iff, req_ok_iff, exists_const, Prod.exists] at h
  obtain ⟨_, _, _, _, _, _, rfl⟩ := h
  rfl

theorem trySetTicketPrice_rb {s s' : State} {tok : Token} {amount : Nat}
    (h : trySetTicketPrice s tok amount = .ok s') : s'.rb = s.rb := by
  unfold trySetTicketPrice at h
  simp only [bind_ok_iff, pure_ok_iff, req_ok_iff, exists_const] at h
  obtain ⟨_, _, _, rfl⟩ := h
  rfl

theorem selectWinners_rb {hash : List Nat → List Nat} {t t' : Tx} {e : Env}
    (h : selectWinners hash t e = .ok t') : t'.s.rb = t.s.rb := by
  unfold selectWinners at h
  simp only [bind_ok_iff, req_ok_iff, requireStage, ownerOrUser, exists_const] at h
  obtain ⟨_, _, _, _, _, h⟩ := h
  split at h
  · simp only [bind_ok_iff, pure_ok_iff, Prod.exists, Prod.mk.injEq] at h
    obtain ⟨rng, pos, t0, _, x, b, st, _, h⟩ := h
    cases st with
    | completed => simp only [pure_ok_iff] at h; subst h; rfl
    | interrupted => simp only [pure_ok_iff] at h; subst h; rfl
    | outOfFuel => cases h
  · simp only [bind_ok_iff, pure_ok_iff, Prod.exists, Prod.mk.injEq] at h
    obtain ⟨rng, pos, t0, _, x, b, st, _, h⟩ := h
    cases st with
    | completed => simp only [pure_ok_iff] at h; subst h; rfl
    | interrupted => simp only [pure_ok_iff] at h; subst h; rfl
    | outOfFuel => cases h
  · simp [bind, Except.bind] at h

theorem clearV1Many_rb : ∀ (l : List Nat) {acc acc' : State × Nat × Nat},
    clearV1Many l acc = .ok acc' → acc'.1.rb = acc.1.rb
  | [], acc, acc', h => by simp only [clearV1Many, Except.ok.injEq] at h; rw [h]
  | u :: rest, (s, removed, tg), acc', h => by
    unfold clearV1Many at h
    repeat' (first | split at h | simp only at h)
    all_goals first
      | (cases h; done)
      | (rw [clearV1Many_rb rest h])

theorem clearGuaranteedV1_rb {s s' : State} {l : List Nat}
    (h : clearGuaranteedV1 s l = .ok s') : s'.rb = s.rb := by
  unfold clearGuaranteedV1 at h
  simp only [bind_ok_iff, pure_ok_iff, Prod.exists] at h
  obtain ⟨s1, a, b, h1, rfl⟩ := h
  exact clearV1Many_rb l h1

theorem clearV2Many_rb : ∀ (l : List Nat) {acc acc' : State × Nat × Nat},
    clearV2Many l acc = .ok acc' → acc'.1.rb = acc.1.rb
  | [], acc, acc', h => by simp only [clearV2Many, Except.ok.injEq] at h; rw [h]
  | u :: rest, (s, nw, tg), acc', h => by
    unfold clearV2Many at h
    repeat' (first | split at h | simp only at h)
    all_goals first
      | (cases h; done)
      | (rw [clearV2Many_rb rest h])

theorem clearGuaranteedV2_rb {s s' : State} {l : List Nat}
    (h : clearGuaranteedV2 s l = .ok s') : s'.rb = s.rb := by
  unfold clearGuaranteedV2 at h
  simp only [bind_ok_iff, pure_ok_iff, Prod.exists] at h
  obtain ⟨s1, a, b, h1, rfl⟩ := h
  exact clearV2Many_rb l h1

theorem restoreV1Many_rb : ∀ (l : List Nat) {acc acc' : State × Nat × Nat},
    restoreV1Many l acc = .ok acc' → acc'.1.rb = acc.1.rb
  | [], acc, acc', h => by simp only [restoreV1Many, Except.ok.injEq] at h; rw [h]
  | u :: rest, (s, nw, tg), acc', h => by
    unfold restoreV1Many at h
    repeat' (first | split at h | simp only at h)
    all_goals first
      | (cases h; done)
      | (rw [restoreV1Many_rb rest h])

theorem restoreGuaranteedV1_rb {s s' : State} {l : List Nat}
    (h : restoreGuaranteedV1 s l = .ok s') : s'.rb = s.rb := by
  unfold restoreGuaranteedV1 at h
  simp only [bind_ok_iff, pure_ok_iff, Prod.exists] at h
  obtain ⟨s1, a, b, h1, rfl⟩ := h
  exact restoreV1Many_rb l h1

theorem restoreV2Many_rb : ∀ (l : List Nat) {acc acc' : State × Nat × Nat},
    restoreV2Many l acc = .ok acc' → acc'.1.rb = acc.1.rb
  | [], acc, acc', h => by simp only [restoreV2Many, Except.ok.injEq] at h; rw [h]
  | u :: rest, (s, nw, tg), acc', h => by
    unfold restoreV2Many at h
    repeat' (first | split at h | simp only at h)
    all_goals first
      | (cases h; done)
      | (rw [restoreV2Many_rb rest h])

theorem restoreGuaranteedV2_rb {s s' : State} {l : List Nat}
    (h : restoreGuaranteedV2 s l = .ok s') : s'.rb = s.rb := by
  unfold restoreGuaranteedV2 at h
  simp only [bind_ok_iff, pure_ok_iff, Prod.exists] at h
  obtain ⟨s1, a, b, h1, rfl⟩ := h
  exact restoreV2Many_rb l h1

theorem refundNftMany_rb : ∀ (l : List Nat) {t t' : Tx},
    refundNftMany l t = .ok t' → t'.s.rb = t.s.rb
  | [], t, t', h => by simp only [refundNftMany, Except.ok.injEq] at h; rw [h]
  | u :: rest, t, t', h => by
    unfold refundNftMany at h
    simp only at h
    split at h
    · split at h
      · cases h
      · rename_i t1 h1
        rw [refundNftMany_rb rest h]
        rw [send_ok_iff] at h1
        rw [h1.2]; rfl
    · exact refundNftMany_rb rest h

theorem setSchedule1_rb {s s' : State} {e : Env} {a b c d f : Nat}
    (h : setSchedule1 s e a b c d f = .ok s') : s'.rb = s.rb := by
  unfold setSchedule1 at h
  simp only [bind_ok_iff, pure_ok_iff, req_ok_iff, exists_const] at h
  obtain ⟨_, _, _, _, rfl⟩ := h
  rfl

theorem setSchedule2_rb {t t' : Tx} {e : Env} {ms : List (Nat × Nat)}
    (h : setSchedule2 t e ms = .ok t') : t'.s.rb = t.s.rb := by
  unfold setSchedule2 at h
  simp only [bind_ok_iff, pure_ok_iff, req_ok_iff, requireStage, exists_const] at h
  obtain ⟨_, _, _, rfl⟩ := h
  rfl

theorem claimPaymentOwn_rb {t t' : Tx} {e : Env}
    (h : claimPaymentOwn t e = .ok t') : t'.s.rb = t.s.rb := by
  unfold claimPaymentOwn at h
  simp only [bind_ok_iff, req_ok_iff, requireStage, exists_const] at h
  obtain ⟨_, h⟩ := h
  split at h
  · simp only [bind_ok_iff, send_ok_iff] at h
    obtain ⟨t1, ⟨_, rfl⟩, h⟩ := h
    split at h
    · simp only [pure_ok_iff] at h; subst h; rfl
    · split at h
      · simp only [pure_ok_iff] at h; subst h; rfl
      · rw [send_ok_iff] at h; rw [h.2]; rfl
  · simp only [bind_ok_iff, pure_ok_iff] at h
    obtain ⟨a, rfl, h⟩ := h
    split at h
    · simp only [pure_ok_iff] at h; subst h; rfl
    · split at h
      · simp only [pure_ok_iff] at h; subst h; rfl
      · rw [send_ok_iff] at h; rw [h.2]; rfl

theorem claimPaymentCommon_rb {t t' : Tx} {e : Env}
    (h : claimPaymentCommon t e = .ok t') : t'.s.rb = t.s.rb := by
  unfold claimPaymentCommon at h
  simp only [bind_ok_iff, req_ok_iff, requireStage, exists_const] at h
  obtain ⟨_, h⟩ := h
  split at h
  · simp only [bind_ok_iff, send_ok_iff] at h
    obtain ⟨t1, ⟨_, rfl⟩, x, _, h⟩ := h
    split at h
    · rw [send_ok_iff] at h; rw [h.2]; rfl
    · simp only [pure_ok_iff] at h; subst h; rfl
  · simp only [bind_ok_iff, pure_ok_iff] at h
    obtain ⟨a, rfl, x, _, h⟩ := h
    split at h
    · rw [send_ok_iff] at h; rw [h.2]; rfl
    · simp only [pure_ok_iff] at h; subst h; rfl

theorem claimNftPayment_rb {t t' : Tx} {e : Env}
    (h : claimNftPayment t e = .ok t') : t'.s.rb = t.s.rb := by
  unfold claimNftPayment at h
  simp only [bind_ok_iff, req_ok_iff, requireStage, exists_const] at h
  obtain ⟨_, h⟩ := h
  split at h
  · simp only [bind_ok_iff, pure_ok_iff, send_ok_iff] at h
    obtain ⟨t1, ⟨_, rfl⟩, rfl⟩ := h
    rfl
  · simp only [pure_ok_iff] at h; subst h; rfl

/-! ### token delivery -/

theorem sendLocked_rb {t t' : Tx} {e : Env} {dest amount : Nat}
    (h : t.sendLocked e dest amount = .ok t') : t'.s.rb = t.s.rb := by
  rw [sendLocked_eq_with] at h
  unfold sendLockedWith at h
  split at h
  · simp only [bind_ok_iff, pure_ok_iff, send_ok_iff] at h
    obtain ⟨t1, ⟨_, rfl⟩, t2, rfl, h⟩ := h
    split at h
    · rw [send_ok_iff] at h; rw [h.2]; rfl
    · simp only [pure_ok_iff] at h; subst h; rfl
  · simp only [bind_ok_iff, pure_ok_iff] at h
    obtain ⟨t2, rfl, h⟩ := h
    split at h
    · rw [send_ok_iff] at h; rw [h.2]; rfl
    · simp only [pure_ok_iff] at h; subst h; rfl

theorem sendLaunchpadTokens_rb {t t' : Tx} {e : Env} {addr n : Nat}
    (h : t.sendLaunchpadTokens e addr n = .ok t') : t'.s.rb = t.s.rb := by
  unfold Tx.sendLaunchpadTokens at h
  split at h
  · cases h; rfl
  · simp only at h
    split at h
    · exact sendLocked_rb h
    · rw [send_ok_iff] at h
      rw [h.2]; rfl

theorem nftSubstep_rb {hash : List Nat → List Nat} {t t' : Tx} {rng rng' : Rng} {st : LoopStatus}
    (h : nftSubstep hash t rng = .ok (t', rng', st)) : t'.s.rb = t.s.rb := by
  unfold nftSubstep at h
  simp only [bind_ok_iff, Prod.exists] at h
  obtain ⟨x, b, st0, hrun, hrest⟩ := h
  have hx : x.tx.s = t.s :=
    runWhile_keeps_cb (fun y : NSt => y.tx.s = t.s) _
      (fun y y' c hb hy => nftBody_tx_s_cb hash _ t.s y y' c hb hy) _ _ _ _ _ _ hrun rfl
  cases st0 with
  | outOfFuel => cases hrest
  | interrupted =>
    simp only [pure_ok_iff, Prod.mk.injEq] at hrest
    obtain ⟨rfl, _, _⟩ := hrest
    show x.tx.s.rb = _
    rw [hx]
  | completed =>
    simp only [pure_ok_iff, Prod.mk.injEq] at hrest
    obtain ⟨rfl, _, _⟩ := hrest
    show x.tx.s.rb = _
    rw [hx]

theorem selectNft_rb {hash : List Nat → List Nat} {t t' : Tx} {e : Env}
    (h : selectNft hash t e = .ok t') : t'.s.rb = t.s.rb := by
  unfold selectNft at h
  simp only [bind_ok_iff, req_ok_iff, requireStage, exists_const] at h
  obtain ⟨_, _, _, h⟩ := h
  split at h
  case h_3 => simp [bind, Except.bind] at h
  case h_4 => simp [bind, Except.bind] at h
  all_goals
    simp only [bind_ok_iff, pure_ok_iff, Prod.exists, Prod.mk.injEq] at h
    obtain ⟨rng, t0, ⟨_, ht0⟩, t1, rng', st, hsub, hfin⟩ := h
    have e0 : t0.s.rb = t.s.rb := by
      first
        | (rw [← ht0]; exact congrArg State.rb (Events.DrawFrame.freshRng t).1)
        | rw [← ht0]
    have e1 := nftSubstep_rb hsub
    cases st <;>
      (simp only [pure_ok_iff] at hfin; subst hfin; show t1.s.rb = _; rw [e1, e0])

theorem guaranteedSubstep_rb {hash : List Nat → List Nat} {t t' : Tx} {g g' : GuarOp}
    {st : LoopStatus} (h : guaranteedSubstep hash t g = .ok (t', g', st)) :
    t'.s.rb = t.s.rb := by
  unfold guaranteedSubstep at h
  simp only [bind_ok_iff, Prod.exists] at h
  obtain ⟨x, b, st0, _, hrest⟩ := h
  cases st0 with
  | outOfFuel => cases hrest
  | interrupted =>
    simp only [pure_ok_iff, Prod.mk.injEq] at hrest
    obtain ⟨rfl, _, _⟩ := hrest
    rfl
  | completed =>
    simp only [bind_ok_iff, Prod.exists] at hrest
    obtain ⟨y, b2, st1, hrun, hrest⟩ := hrest
    have hy := runWhile_keeps_cb (fun z : LSt => z.tx.s.rb = t.s.rb) _
      (fun z z' c hb hz => by
        have := leftoverBody_tx_s_cb hash _ _ _ z.tx.s z z' c hb rfl
        show z'.tx.s.rb = _
        rw [this]; exact hz) _ _ _ _ _ _ hrun rfl
    cases st1 with
    | outOfFuel => cases hrest
    | interrupted =>
      simp only [pure_ok_iff, Prod.mk.injEq] at hrest
      obtain ⟨rfl, _, _⟩ := hrest
      exact hy
    | completed =>
      simp only [pure_ok_iff, Prod.mk.injEq] at hrest
      obtain ⟨rfl, _, _⟩ := hrest
      exact hy

def KeepsRB (c0 : RB) (r : Res Tx) : Prop := ∀ t', r = .ok t' → t'.s.rb = c0

theorem KeepsRB_error (c0 : RB) (err : Err) : KeepsRB c0 (.error err) := by
  intro t' h; cases h

theorem KeepsRB_pure (c0 : RB) (t : Tx) (h : t.s.rb = c0) : KeepsRB c0 (pure t) := by
  intro t' h'; cases h'; exact h

theorem KeepsRB_ok (c0 : RB) (t : Tx) (h : t.s.rb = c0) : KeepsRB c0 (.ok t) := by
  intro t' h'; cases h'; exact h

theorem KeepsRB_bind {α : Type} (c0 : RB) (x : Res α) (f : α → Res Tx)
    (h : ∀ a, x = .ok a → KeepsRB c0 (f a)) : KeepsRB c0 (x >>= f) := by
  intro t' h'
  rw [bind_ok_iff] at h'
  obtain ⟨a, ha, hf⟩ := h'
  exact h a ha t' hf

theorem KeepsRB_pure_bind {α : Type} (c0 : RB) (x : α) (f : α → Res Tx)
    (h : KeepsRB c0 (f x)) : KeepsRB c0 (pure x >>= f) := h

theorem KeepsRB_error_bind {α : Type} (c0 : RB) (err : Err) (f : α → Res Tx) :
    KeepsRB c0 ((Except.error err : Res α) >>= f) := by
  intro t' h; cases h

theorem KeepsRB_bind_guar (c0 : RB) (hash : List Nat → List Nat) (t0 : Tx) (g : GuarOp)
    (f : Tx × GuarOp × LoopStatus → Res Tx)
    (h : ∀ a : Tx × GuarOp × LoopStatus, a.1.s.rb = t0.s.rb → KeepsRB c0 (f a)) :
    KeepsRB c0 (guaranteedSubstep hash t0 g >>= f) := by
  apply KeepsRB_bind
  intro a ha
  exact h a (guaranteedSubstep_rb (t' := a.1) (g' := a.2.1) (st := a.2.2) ha)

theorem KeepsRB_bind_nft (c0 : RB) (hash : List Nat → List Nat) (t0 : Tx) (r : Rng)
    (f : Tx × Rng × LoopStatus → Res Tx)
    (h : ∀ a : Tx × Rng × LoopStatus, a.1.s.rb = t0.s.rb → KeepsRB c0 (f a)) :
    KeepsRB c0 (nftSubstep hash t0 r >>= f) := by
  apply KeepsRB_bind
  intro a ha
  exact h a (nftSubstep_rb (t' := a.1) (rng' := a.2.1) (st := a.2.2) ha)

theorem freshRng_rb (t : Tx) (r : Rng) (t' : Tx) (h : t.freshRng = (r, t')) :
    t'.s.rb = t.s.rb := by
  have : t.freshRng.2.s = t.s := (Events.DrawFrame.freshRng t).1
  rw [h] at this
  exact congrArg State.rb this

theorem distribute_keeps_rb (hash : List Nat → List Nat) (t : Tx) (e : Env) :
    KeepsRB t.s.rb (distribute hash t e) := by
  unfold distribute
  repeat' (first
    | with_reducible apply KeepsRB_error
    | with_reducible apply KeepsRB_pure_bind
    | with_reducible apply KeepsRB_error_bind
    | (with_reducible apply KeepsRB_bind_guar; intro a hg)
    | (with_reducible apply KeepsRB_bind; intro a ha)
    | split
    | (simp only []))
  all_goals
    with_reducible apply KeepsRB_pure
    first
      | exact hg
      | exact hg.trans (freshRng_rb t _ _ (by assumption))

theorem distribute_rb {hash : List Nat → List Nat} {t t' : Tx} {e : Env}
    (h : distribute hash t e = .ok t') : t'.s.rb = t.s.rb :=
  distribute_keeps_rb hash t e t' h

theorem secondary_rb {hash : List Nat → List Nat} {t t' : Tx} {e : Env}
    (h : secondary hash t e = .ok t') : t'.s.rb = t.s.rb := by
  unfold secondary at h
  simp only [bind_ok_iff, req_ok_iff, requireStage, exists_const] at h
  obtain ⟨_, _, _, h⟩ := h
  split at h
  case h_3 => simp [bind, Except.bind] at h
  all_goals
    simp only [bind_ok_iff, pure_ok_iff, Prod.exists, Prod.mk.injEq] at h
    obtain ⟨cur, t0, ⟨_, ht0⟩, hh⟩ := h
    have h0 : t0.s.rb = t.s.rb := by
      first
        | (rw [← ht0]; exact freshRng_rb t _ _ rfl)
        | rw [← ht0]
    clear ht0
    cases cur with
    | nft r =>
      simp only [bind_ok_iff, pure_ok_iff] at hh
      obtain ⟨_, rfl, hh⟩ := hh
      simp only [bind_ok_iff, Prod.exists] at hh
      obtain ⟨t2, rng', st, hsub, hfin⟩ := hh
      have h2 := nftSubstep_rb hsub
      cases st <;>
        (simp only [pure_ok_iff] at hfin; subst hfin; show t2.s.rb = _; rw [h2]; exact h0)
    | guar g =>
      simp only [bind_ok_iff, Prod.exists] at hh
      obtain ⟨t1, g', st, hsub, hfin⟩ := hh
      have hg := guaranteedSubstep_rb hsub
      cases st with
      | completed =>
        simp only [bind_ok_iff, pure_ok_iff] at hfin
        obtain ⟨_, rfl, hfin⟩ := hfin
        simp only [bind_ok_iff, Prod.exists] at hfin
        obtain ⟨t2, rng', st2, hsub2, hfin⟩ := hfin
        have h2 := nftSubstep_rb hsub2
        have hfr : (t1.setS (creditAdditional t1.s g'.additional)).freshRng.2.s.rb
            = t1.s.rb :=
          freshRng_rb (t1.setS (creditAdditional t1.s g'.additional)) _ _ rfl
        cases st2 <;>
          (simp only [pure_ok_iff] at hfin; subst hfin; show t2.s.rb = _
           rw [h2, hfr, hg]; exact h0)
      | interrupted =>
        simp only [bind_ok_iff, pure_ok_iff] at hfin
        obtain ⟨_, rfl, hfin⟩ := hfin
        simp only [pure_ok_iff] at hfin
        subst hfin
        show t1.s.rb = _
        rw [hg]; exact h0
      | outOfFuel =>
        simp only [bind_ok_iff, pure_ok_iff] at hfin
        obtain ⟨_, rfl, hfin⟩ := hfin
        simp only [pure_ok_iff] at hfin
        subst hfin
        show t1.s.rb = _
        rw [hg]; exact h0

theorem confirmNft_rb {s s' : State} {e : Env} (h : confirmNft s e = .ok s') :
    s'.rb = s.rb := by
  unfold confirmNft at h
  simp only [bind_ok_iff, pure_ok_iff, req_ok_iff, requireStage, exists_const] at h
  repeat (cases h with | intro _ h)
  subst h
  rfl

theorem KeepsRB_bind_tx (c0 c1 : RB) (x : Res Tx) (f : Tx → Res Tx)
    (hx : ∀ a, x = .ok a → a.s.rb = c1)
    (h : ∀ a : Tx, a.s.rb = c1 → KeepsRB c0 (f a)) : KeepsRB c0 (x >>= f) := by
  apply KeepsRB_bind
  intro a ha
  exact h a (hx a ha)

theorem KeepsRB_bind_st (c0 c1 : RB) (x : Res State) (f : State → Res Tx)
    (hx : ∀ a, x = .ok a → a.rb = c1)
    (h : ∀ a : State, a.rb = c1 → KeepsRB c0 (f a)) : KeepsRB c0 (x >>= f) := by
  apply KeepsRB_bind
  intro a ha
  exact h a (hx a ha)

theorem claimPay_rb {v2 : Bool} {t t' : Tx} {e : Env} {c : Nat}
    (h : claimPay v2 t e c = .ok t') : t'.s.rb = t.s.rb := by
  unfold claimPay at h
  split at h
  · simp only [bind_ok_iff, send_ok_iff, pure_ok_iff] at h
    obtain ⟨t1, ⟨_, rfl⟩, rfl⟩ := h
    cases v2 <;> rfl
  · simp only [pure_ok_iff] at h
    subst h; rfl

theorem claimNft_rb {t t' : Tx} {e : Env} (h : claimNft t e = .ok t') : t'.s.rb = t.s.rb := by
  unfold claimNft at h
  generalize swapRemove t.s.nftWinners e.caller = sw at h
  obtain ⟨w, won⟩ := sw
  cases won
  · simp only [Bool.false_eq_true, ↓reduceIte] at h
    generalize hsp : swapRemove (t.setS { t.s with nftWinners := w }).s.payers e.caller = sp at h
    obtain ⟨p, paid⟩ := sp
    cases paid
    · simp only [Bool.false_eq_true, ↓reduceIte, bind_ok_iff, req_ok_iff, exists_const, pure_ok_iff,
        Nat.reduceEqDiff] at h
      obtain ⟨_, rfl⟩ := h
      rfl
    · simp only [↓reduceIte, bind_ok_iff, req_ok_iff, exists_const] at h
      obtain ⟨_, h⟩ := h
      rw [send_ok_iff] at h
      rw [h.2]; rfl
  · simp only [↓reduceIte, bind_ok_iff, req_ok_iff, exists_const, pure_ok_iff, Nat.reduceEqDiff] at h
    obtain ⟨_, rfl⟩ := h
    rfl

theorem GHook_rb {l : List Nat} {s s' : State} (h : Events.GHook l s s') : s'.rb = s.rb := by
  obtain ⟨⟨_, _, _, _, _, rfl⟩, _⟩ := h
  rfl


/-! ### the helpers that write the projection: exact effect -/

theorem confirmTickets_rb {t t' : Tx} {e : Env} {n : Nat} (h : confirmTickets t e n = .ok t') :
    t'.s.rb = t.s.rb := by
  unfold confirmTickets at h
  simp only [bind_ok_iff, pure_ok_iff, req_ok_iff, exists_const, Prod.exists] at h
  obtain ⟨_, _, _, _, _, _, _, _, _, _, _, _, _, rfl⟩ := h
  rfl

/-- effect of a `claim` by `caller` on the projection: the filter flag is kept, `userTotal` changes
    at most for the caller; either nothing else changes (repeat claim of a vesting variant) or the
    caller had a record `r`, which is erased together with its batch -/
def rbClaim (s s' : State) (caller : Nat) : Prop :=
  s'.flags.filtered = s.flags.filtered ∧ (∀ a, a ≠ caller → s'.userTotal a = s.userTotal a) ∧
  ((s'.range = s.range ∧ s'.batch = s.batch ∧ s'.userTotal = s.userTotal) ∨
   (∃ r, s.range caller = some r ∧ s'.range = upd s.range caller none ∧
      s'.batch = upd s.batch r.first none))

theorem claimSettle_rb {t t1 : Tx} {e : Env} (h : claimSettle t e = .ok t1) :
    rbClaim t.s t1.s e.caller := by
  unfold claimSettle at h
  cases hcl : t.s.claimed e.caller
  · simp only [hcl, Bool.false_eq_true, if_false, bind_ok_iff, Prod.exists, settle_ok_iff,
      refund_ok_iff, pure_ok_iff] at h
    obtain ⟨s1, rd, rf, ⟨_, _, r, hr, _, _, _, _, rfl⟩, t0, ⟨_, rfl⟩, rfl⟩ := h
    split
    · simp only [Tx.setS, refundResult_state]
      refine ⟨rfl, ?_, Or.inr ⟨r, hr, rfl, rfl⟩⟩
      intro a ha
      show upd _ _ _ a = _
      rw [upd_other _ _ _ _ ha]
      rfl
    · rw [refundResult_state]
      exact ⟨rfl, fun _ _ => rfl, Or.inr ⟨r, hr, rfl, rfl⟩⟩
  · simp only [hcl, if_true, pure_ok_iff] at h
    subst h
    exact ⟨rfl, fun _ _ => rfl, Or.inl ⟨rfl, rfl, rfl⟩⟩

theorem rbClaim_of_rb {s s1 s' : State} {caller : Nat} (h1 : rbClaim s s1 caller)
    (h2 : s'.rb = s1.rb) : rbClaim s s' caller := by
  obtain ⟨a, b, c⟩ := h1
  refine ⟨(rb_filtered h2).trans a, fun x hx => by rw [rb_userTotal h2]; exact b x hx, ?_⟩
  rcases c with ⟨c1, c2, c3⟩ | ⟨r, hr, c1, c2⟩
  · exact Or.inl ⟨(rb_range h2).trans c1, (rb_batch h2).trans c2, (rb_userTotal h2).trans c3⟩
  · exact Or.inr ⟨r, hr, (rb_range h2).trans c1, (rb_batch h2).trans c2⟩

theorem claimVested_rb {t t' : Tx} {e : Env} (h : claimVested t e = .ok t') :
    rbClaim t.s t'.s e.caller := by
  have hb : ∀ v2, claimBody v2 t e = .ok t' → rbClaim t.s t'.s e.caller := by
    intro v2 h
    unfold claimBody at h
    simp only [bind_ok_iff] at h
    obtain ⟨t1, h1, c, _, h2⟩ := h
    exact rbClaim_of_rb (claimSettle_rb h1) (claimPay_rb h2)
  rw [claimVested_eq] at h
  split at h
  · simp only [bind_ok_iff, req_ok_iff, exists_const] at h
    exact hb _ h.2
  · exact hb _ h

theorem claimBase_rb {t t' : Tx} {e : Env} (h : claimBase t e = .ok t') :
    rbClaim t.s t'.s e.caller := by
  rw [claimBase_ok_iff] at h
  obtain ⟨r, hpre, t2, h2, h3⟩ := h
  have h2' := sendLaunchpadTokens_rb h2
  rw [claimMid_state] at h2'
  have ht' : t'.s.rb = t2.s.rb := by
    split at h3
    · exact claimNft_rb h3
    · simp only [pure_ok_iff] at h3; subst h3; rfl
  have hmid : rbClaim t.s
      { settledState t.s e.caller r with
        bal := t.s.bal.sub t.s.payTok 0
          (t.s.price * (t.s.confirmed e.caller - countWinning t.s.status r.first (rangeLen r))) }
      e.caller :=
    ⟨rfl, fun _ _ => rfl, Or.inr ⟨r, hpre.2.2.1, rfl, rfl⟩⟩
  exact rbClaim_of_rb hmid (ht'.trans h2')

/-- effect of `filterTickets`: `range` and `batch` are those computed by the filter loop, started
    from the stored ones -/
theorem filterTickets_rb {t t' : Tx} {e : Env} (h : filterTickets t e = .ok t') :
    t'.s.userTotal = t.s.userTotal ∧
    (t.s.flags.filtered = true → t'.s.flags.filtered = true) ∧
    ∃ fuel first removed f b st,
      runWhile (filterBody t.s.confirmed t.s.lastTicketId) fuel t.c.budget
        ⟨t.s.range, t.s.batch, first, removed⟩ = .ok (f, b, st) ∧
      t'.s.range = f.range ∧ t'.s.batch = f.batch := by
  unfold filterTickets at h
  simp only [bind_ok_iff, req_ok_iff, requireStage, exists_const] at h
  obtain ⟨_, _, _, h⟩ := h
  split at h
  · simp only [bind_ok_iff, pure_ok_iff, Prod.exists, Prod.mk.injEq] at h
    obtain ⟨first, removed, _, f, b, st, hrun, h⟩ := h
    cases st with
    | completed =>
      simp only [bind_ok_iff, pure_ok_iff] at h
      obtain ⟨_, _, rfl⟩ := h
      exact ⟨rfl, fun _ => rfl, _, _, _, _, _, _, hrun, rfl, rfl⟩
    | interrupted =>
      simp only [pure_ok_iff] at h; subst h
      refine ⟨rfl, ?_, _, _, _, _, _, _, hrun, rfl, rfl⟩
      intro hf; show (if first = 1 then _ else _ : Flags).filtered = true
      split <;> exact hf
    | outOfFuel => cases h
  · simp only [bind_ok_iff, pure_ok_iff, Prod.exists, Prod.mk.injEq] at h
    obtain ⟨first, removed, _, f, b, st, hrun, h⟩ := h
    cases st with
    | completed =>
      simp only [bind_ok_iff, pure_ok_iff] at h
      obtain ⟨_, _, rfl⟩ := h
      exact ⟨rfl, fun _ => rfl, _, _, _, _, _, _, hrun, rfl, rfl⟩
    | interrupted =>
      simp only [pure_ok_iff] at h; subst h
      refine ⟨rfl, ?_, _, _, _, _, _, _, hrun, rfl, rfl⟩
      intro hf; show (if first = 1 then _ else _ : Flags).filtered = true
      split <;> exact hf
    | outOfFuel => cases h
  · simp [bind, Except.bind] at h

/-! ### all endpoints -/

/-- the endpoints that write the projection -/
def Call.writesRB : Call → Bool
  | .addTickets _ | .addTicketsV1 _ | .addTicketsV2 _ | .filter | .claim => true
  | _ => false

/-- **every other endpoint** keeps `range`, `batch`, `userTotal` and the filter flag -/
theorem exec_rb {hash : List Nat → List Nat} {t t' : Tx} {e : Env} {c : Call}
    (h : exec hash t e c = .ok t') (hc : c.writesRB = false) : t'.s.rb = t.s.rb := by
  cases c with
  | addTickets _ | addTicketsV1 _ | addTicketsV2 _ | filter | claim => simp [Call.writesRB] at hc
  | confirm n => exact confirmTickets_rb h
  | blacklist l =>
    obtain ⟨_, _, _, _, _, _, s1, py, bal, hg, hs, _⟩ := Events.exec_blacklist_out h
    rw [hs]
    exact (GHook_rb hg).trans rfl
  | refundUsers l =>
    obtain ⟨_, _, _, hg⟩ := Events.exec_refundUsers_out h
    exact (GHook_rb hg).trans rfl
  | unblacklist l =>
    obtain ⟨_, hg, _⟩ := Events.exec_unblacklist_out h
    exact (GHook_rb hg).trans rfl
  | deposit =>
    simp only [exec, bind_ok_iff, pure_ok_iff] at h
    obtain ⟨s1, h1, rfl⟩ := h
    exact depositLaunchpadTokens_rb h1
  | setTicketPrice tok amount =>
    simp only [exec, bind_ok_iff, pure_ok_iff, req_ok_iff, requireStage, exists_const] at h
    obtain ⟨_, s1, h1, rfl⟩ := h
    exact trySetTicketPrice_rb h1
  | setPerTicket amount =>
    simp only [exec, bind_ok_iff, pure_ok_iff, req_ok_iff, requireStage, exists_const] at h
    obtain ⟨_, _, _, rfl⟩ := h
    rfl
  | setConfStart r =>
    simp only [exec, bind_ok_iff, pure_ok_iff, req_ok_iff, exists_const] at h
    obtain ⟨_, _, _, rfl⟩ := h
    rfl
  | setSelStart r =>
    simp only [exec, bind_ok_iff, pure_ok_iff, req_ok_iff, exists_const] at h
    obtain ⟨_, _, _, rfl⟩ := h
    rfl
  | setClaimStart r =>
    simp only [exec, bind_ok_iff, pure_ok_iff, req_ok_iff, exists_const] at h
    obtain ⟨_, _, _, rfl⟩ := h
    rfl
  | setSupport a => simp only [exec, pure_ok_iff] at h; subst h; rfl
  | pause => simp only [exec, pure_ok_iff] at h; subst h; rfl
  | unpause => simp only [exec, pure_ok_iff] at h; subst h; rfl
  | select => exact selectWinners_rb h
  | claimPayment =>
    simp only [exec] at h
    split at h
    · exact claimPaymentOwn_rb h
    · simp only [bind_ok_iff] at h
      obtain ⟨t1, h1, h2⟩ := h
      have e1 := claimPaymentCommon_rb h1
      split at h2
      · exact (claimNftPayment_rb h2).trans e1
      · simp only [pure_ok_iff] at h2; subst h2; exact e1
  | distribute => exact distribute_rb h
  | setSchedule1 a b c d f =>
    simp only [exec, bind_ok_iff, pure_ok_iff] at h
    obtain ⟨s1, h1, rfl⟩ := h
    exact setSchedule1_rb h1
  | setSchedule2 l => exact setSchedule2_rb h
  | confirmNft =>
    simp only [exec, bind_ok_iff, pure_ok_iff] at h
    obtain ⟨s1, h1, rfl⟩ := h
    exact confirmNft_rb h1
  | selectNft => exact selectNft_rb h
  | secondary => exact secondary_rb h
  | setNftCost c =>
    simp only [exec, bind_ok_iff, pure_ok_iff, req_ok_iff, requireStage, exists_const] at h
    obtain ⟨_, _, _, rfl⟩ := h
    rfl
  | issueSft =>
    simp only [exec, bind_ok_iff] at h
    obtain ⟨_, _, h⟩ := h
    cases h
  | createSfts =>
    simp only [exec, bind_ok_iff] at h
    obtain ⟨_, _, _, _, h⟩ := h
    cases h
  | setTransferRole o =>
    simp only [exec, bind_ok_iff] at h
    obtain ⟨_, _, h⟩ := h
    cases h
  | sftSetup => simp only [exec, pure_ok_iff] at h; subst h; rfl

theorem exec_claim_rb {hash : List Nat → List Nat} {t t' : Tx} {e : Env}
    (h : exec hash t e .claim = .ok t') : rbClaim t.s t'.s e.caller := by
  cases hv : t.s.variant.vested
  · rw [exec_claim_nonvested hash t e hv] at h
    exact claimBase_rb h
  · rw [exec_claim_vested hash t e hv] at h
    exact claimVested_rb h

/-- the same for a whole transaction (`creditPayments` only touches `bal`) -/
theorem step_rb {hash : List Nat → List Nat} {s s' : State} {e : Env} {c : Call} {o : Out}
    (h : step hash s e c = .ok (s', o)) (hc : c.writesRB = false) : s'.rb = s.rb := by
  obtain ⟨m, t, _, _, _, hx, rfl, _⟩ := step_ok_inv h
  exact exec_rb hx hc

theorem step_claim_rb {hash : List Nat → List Nat} {s s' : State} {e : Env} {o : Out}
    (h : step hash s e .claim = .ok (s', o)) : rbClaim s s' e.caller := by
  obtain ⟨m, t, _, _, _, hx, rfl, _⟩ := step_ok_inv h
  exact exec_claim_rb hx

theorem step_filter_rb {hash : List Nat → List Nat} {s s' : State} {e : Env} {o : Out}
    (h : step hash s e .filter = .ok (s', o)) :
    s'.userTotal = s.userTotal ∧ (s.flags.filtered = true → s'.flags.filtered = true) ∧
    ∃ fuel first removed f b st,
      runWhile (filterBody s.confirmed s.lastTicketId) fuel e.budget
        ⟨s.range, s.batch, first, removed⟩ = .ok (f, b, st) ∧
      s'.range = f.range ∧ s'.batch = f.batch := by
  obtain ⟨m, t, _, _, _, hx, rfl, _⟩ := step_ok_inv h
  exact filterTickets_rb hx

end LP
