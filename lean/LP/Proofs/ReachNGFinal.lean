import LP.Proofs.ReachNGBase
/-
  LP.Proofs.ReachNGFinal — what the completing `secondary` call establishes (final ticket winners,
  honoured guarantees, the NFT draw), and the launchpad-token consequences of the invariant
  `ng_WF` (counterparts of `LP/Proofs/ReachV1Final.lean`).
-/
namespace LP
open LP.FY LP.Props.C14

/-- an accepted `secondary` call, with its output -/
theorem ng_secondary_exec {hash : List Nat → List Nat} {s s' : State} {e : Env} {o : Out}
    (hv : s.variant = .nftGuar) (hs : step hash s e .secondary = .ok (s', o)) :
    ∃ t, secondary hash (rbTx s e) e = .ok t ∧ s' = t.s ∧ o = t.o := by
  obtain ⟨t, hx, h1, h2⟩ := LP.Props.C20.step_nopay_inv (by
    intro m hm; rw [hv] at hm; simp [endpointMeta] at hm; rw [← hm]) hs
  have hx' : exec hash (rbTx s e) e .secondary = .ok t := hx
  exact ⟨t, by simpa only [exec] using hx', h1, h2⟩

/-- the `secondary` call that completes the additional step (`ret = [0]`) from a well-formed state
    (whatever interruptions happened before, in whichever of the three loops) -/
theorem ng_secondary_completion {T0 : Nat} {hash : List Nat → List Nat} {s s' : State} {e : Env}
    {o : Out} {r : Nat} (h : ng_WF T0 s r) (hr : r ≤ e.round)
    (hs : step hash s e .secondary = .ok (s', o)) (hret : o.ret = [0]) :
    s'.flags.selected = true ∧ s'.flags.additional = true ∧
    s'.lastTicketId = s.lastTicketId ∧ s'.price = s.price ∧
    countTrue s'.status s'.lastTicketId = s'.nrWinning ∧
    s'.nrWinning = min T0 s'.lastTicketId ∧
    s'.claimablePayment = s'.price * s'.nrWinning ∧
    (∀ t, s'.status t = true → 1 ≤ t ∧ t ≤ s'.lastTicketId) ∧
    (∀ t, s.status t = true → s'.status t = true) ∧
    (∀ u st, s'.uts u = some st →
      min (calcV1 st (s'.confirmed u) s'.minConfirmed).1 (s'.confirmed u) ≤ winCountOf s' u) ∧
    s'.nftWinners.length = min s.availNfts (s.payers.length + s.nftWinners.length) ∧
    s'.claimableNft = s.nftCost.amount * s'.nftWinners.length ∧
    NftOk s' ∧ (∀ a, (a ∈ s'.payers ∨ a ∈ s'.nftWinners) ↔ (a ∈ s.payers ∨ a ∈ s.nftWinners)) ∧
    s.nftWinners <+: s'.nftWinners := by
  obtain ⟨t, hx, rfl, rfl⟩ := ng_secondary_exec h.var hs
  obtain ⟨hsel, _, hcase⟩ := ng_secondary_split h hr hx
  rcases hcase with ⟨_, h1, _⟩ | ⟨m, t2, rng, hmid, ht2, htail, hrel⟩
  · rw [hret] at h1; cases h1
  have hs0 := hmid.side
  obtain ⟨P, W, hokPW, _, hlen, hun, hpre, hcase⟩ :=
    ng_tail_shape ⟨hs0.nodupP, hs0.nodupW, hs0.disj⟩ hs0.winLe ht2 htail
  rcases hcase with ⟨hs', _, hWlen⟩ | ⟨_, _, h1⟩
  rotate_left
  · rw [hret] at h1; cases h1
  have hF := hmid.phF
  rw [hs']
  have hselm : m.flags.selected = true := hF.post.selected
  refine ⟨hselm, rfl, hrel.last, hrel.price, hF.count, hF.nrw, hF.claimable, hF.inside, hrel.mono,
    ?_, ?_, ?_, ⟨hokPW.nodupP, hokPW.nodupW, hokPW.disj⟩, ?_, ?_⟩
  · intro u st hu
    exact hF.hon u st hu
  · show W.length = _
    rw [hWlen, hrel.avail, hrel.payers, hrel.winners]
  · show m.nftCost.amount * W.length = s.nftCost.amount * W.length
    rw [hrel.cost]
  · intro a
    have := hun a
    rw [hrel.payers, hrel.winners] at this
    exact this
  · have := hpre
    rw [hrel.winners] at this
    exact this

/-- an accepted `secondary` call that does not return `[0]` is an interruption: the additional
    step stays incomplete -/
theorem ng_secondary_interrupted {T0 : Nat} {hash : List Nat → List Nat} {s s' : State} {e : Env}
    {o : Out} {r : Nat} (h : ng_WF T0 s r) (hr : r ≤ e.round)
    (hs : step hash s e .secondary = .ok (s', o)) :
    (o.ret = [0] ∧ s'.flags.additional = true) ∨ (o.ret = [1] ∧ s'.flags.additional = false) := by
  obtain ⟨t, hx, rfl, rfl⟩ := ng_secondary_exec h.var hs
  obtain ⟨_, _, hcase⟩ := ng_secondary_split h hr hx
  rcases hcase with ⟨_, h1, h2, _⟩ | ⟨m, t2, rng, hmid, ht2, htail, _⟩
  · exact Or.inr ⟨h1, h2⟩
  have hs0 := hmid.side
  obtain ⟨P, W, _, _, _, _, _, hcase⟩ :=
    ng_tail_shape ⟨hs0.nodupP, hs0.nodupW, hs0.disj⟩ hs0.winLe ht2 htail
  rcases hcase with ⟨hs', h1, _⟩ | ⟨_, hs', h1⟩
  · exact Or.inl ⟨h1, by rw [hs']; rfl⟩
  · exact Or.inr ⟨h1, by rw [hs']; exact hmid.phF.notDone⟩

/-- the call in which the NFT draw STARTS (the guaranteed-ticket sub-step is not yet complete
    before it): nobody has been drawn before -/
theorem ng_no_winner_before_draw {T0 : Nat} {s : State} {r : Nat} (h : ng_WF T0 s r)
    (hna : s.flags.additional = false) (hop : ∀ rg, s.op ≠ .additional (.nft rg)) :
    s.nftWinners = [] := h.noWinE hna hop

/-! ### the reserve and the winners -/

/-- before the filter has completed the reserve is intact: `nrWinning + totalGuaranteed = T0` -/
theorem ng_reserve_before_filter {T0 : Nat} {s : State} {r : Nat} (h : ng_WF T0 s r)
    (hf : s.flags.filtered = false) : s.nrWinning + s.totalGuaranteed = T0 := by
  obtain ⟨_, htg, L0, hp, _⟩ := ng_phase_notFiltered h.phase hf
  have h1 : s.nrWinning = T0 - s.totalGuaranteed := hp.nrw
  have h2 : s.totalGuaranteed ≤ T0 := htg
  omega

/-- as long as the guaranteed-ticket sub-step is not complete, outstanding winners plus reserve
    never exceed `T0`; afterwards the winners alone do not -/
theorem ng_owed_le_T0 {T0 : Nat} {s : State} {r : Nat} (h : ng_WF T0 s r)
    (hna : s.flags.additional = false) : ng_owed s ≤ T0 := by
  rcases h.phase with (⟨_, htg, ⟨L0, hp, hab⟩ | ⟨hC, _⟩ | hE⟩ | ⟨ha, _⟩) | ⟨hF, rg, hop⟩
  · have hop : ∀ rg, s.op ≠ .additional (.nft rg) := ng_op_not_nft (T0 := T0) (g := v1_gv s)
      (Or.inl ⟨hna, htg, Or.inl ⟨L0, hp, hab⟩⟩)
    rw [ng_owed_of_not hop]
    unfold v1_owed; rw [hna]
    have h1 : s.nrWinning = T0 - s.totalGuaranteed := hp.nrw
    have h2 : s.totalGuaranteed ≤ T0 := htg
    simp only [Bool.false_eq_true, if_false]
    omega
  · have hop : ∀ rg, s.op ≠ .additional (.nft rg) := by
      intro rg
      rcases hC.sel with ⟨h0, _⟩ | ⟨a, b, c, h0, _⟩
      · have h0' : s.op = .none := h0
        rw [h0']; nofun
      · have h0' : s.op = .select a b := h0
        rw [h0']; nofun
    rw [ng_owed_of_not hop]
    unfold v1_owed; rw [hna]
    have h1 : s.nrWinning = min (T0 - s.totalGuaranteed) s.lastTicketId := hC.nrw
    have h2 : s.totalGuaranteed ≤ T0 := htg
    simp only [Bool.false_eq_true, if_false]
    omega
  · rw [ng_owed_of_not (fun rg => ng_PhE_op hE rg)]
    unfold v1_owed; rw [hna]
    have h1 : s.nrWinning = min (T0 - s.totalGuaranteed) s.lastTicketId := hE.nrw
    have h2 : s.totalGuaranteed ≤ T0 := htg
    simp only [Bool.false_eq_true, if_false]
    omega
  · have ha' : s.flags.additional = true := ha
    rw [hna] at ha'; cases ha'
  · have hop' : s.op = .additional (.nft rg) := hop
    rw [ng_owed_nft hop']
    have : s.nrWinning = min T0 s.lastTicketId := hF.nrw
    omega

/-- until the first `secondary` call is accepted, the whitelist is exactly the set of holders of
    a positive guarantee -/
theorem ng_whitelist_intact {T0 : Nat} {s : State} {r : Nat} (h : ng_WF T0 s r)
    (hna : s.flags.additional = false) (hop : s.flags.selected = true → s.op = .none) (u : Nat) :
    u ∈ s.whitelist ↔ ∃ st, s.uts u = some st ∧ st.c + st.d > 0 := by
  have key : v1_GW (v1_gv s) := by
    rcases h.phase with (⟨_, _, ⟨L0, _, ⟨_, hg⟩ | ⟨_, hg⟩⟩ | ⟨_, hg⟩ | hE⟩ | ⟨ha, _⟩) | ⟨hF, rg, hopF⟩
    · exact hg.toGW
    · exact hg
    · exact hg
    · exact hE.wl0 (hop hE.selected)
    · have ha' : s.flags.additional = true := ha
      rw [hna] at ha'; cases ha'
    · have h1 : s.op = .none := hop hF.post.selected
      have h2 : s.op = .additional (.nft rg) := hopF
      rw [h1] at h2; cases h2
  constructor
  · intro hm
    obtain ⟨st, h1, h2⟩ := key.pos_of_mem u hm
    exact ⟨st, h1, by simpa using h2⟩
  · rintro ⟨st, h1, h2⟩
    exact key.mem_of_pos u st h1 (by simpa using h2)

/-- during the additional step (lottery complete, step not): the winning flags never exceed
    `min T0 lastTicketId`, are at least the stored winners, and lie in `1..lastTicketId` -/
theorem ng_winners_bound {T0 : Nat} {s : State} {r : Nat} (h : ng_WF T0 s r)
    (hsel : s.flags.selected = true) (hna : s.flags.additional = false) :
    s.nrWinning ≤ countTrue s.status s.lastTicketId ∧
    countTrue s.status s.lastTicketId ≤ min T0 s.lastTicketId ∧
    (∀ t, s.status t = true → 1 ≤ t ∧ t ≤ s.lastTicketId) := by
  rcases ng_phase_sel h.phase hsel hna with ⟨htg, hE⟩ | ⟨hF, _⟩
  · obtain ⟨lo, off, add, _, hpos, hcount, hsplit, _⟩ := hE.dist
    have hnrw : s.nrWinning = min (T0 - s.totalGuaranteed) s.lastTicketId := hE.nrw
    have htg' : s.totalGuaranteed ≤ T0 := htg
    have hsplit' : lo + add + gSum false s.uts s.whitelist = s.totalGuaranteed := hsplit
    have hcount' : countTrue s.status s.lastTicketId = s.nrWinning + add := hcount
    have hle := countTrue_le s.status s.lastTicketId
    exact ⟨by omega, by omega, hpos.inside⟩
  · have h1 : countTrue s.status s.lastTicketId = s.nrWinning := hF.count
    have h2 : s.nrWinning = min T0 s.lastTicketId := hF.nrw
    exact ⟨by omega, by omega, hF.inside⟩

/-- once everybody has settled no winner is outstanding -/
theorem ng_all_settled_nrWinning {T0 : Nat} {s : State} {r : Nat} (h : ng_WF T0 s r)
    (hd : AllDone s) (hall : ∀ a, s.range a = none) : s.nrWinning = 0 := by
  have hD := ng_phase_D h.phase hd.2
  obtain ⟨L, _, _, _, hwin⟩ := hD.led
  have hwin' : sumOver (winOf s.range s.status) L = s.nrWinning := hwin
  rw [← hwin']
  apply sumOver_zero
  intro a _
  simp [winOf, hall a]

/-- the owner's withdrawal, when the fee slot is not the launchpad-token slot: exactly the
    outstanding winners' launchpad tokens stay -/
theorem ng_owner_surplus {T0 : Nat} {hash : List Nat → List Nat} {s s' : State} {e : Env} {o : Out}
    {r : Nat} (h : ng_WF T0 s r) (hnl : ¬ (nf_side s).isLp)
    (hs : step hash s e .claimPayment = .ok (s', o)) :
    s'.bal (.esdt s'.lpTok) 0 = s'.perTicket * s'.nrWinning ∧ s'.nrWinning = s.nrWinning ∧
    s'.claimablePayment = 0 ∧ s'.claimableNft = 0 := by
  obtain ⟨t, hx, rfl⟩ := rb_step_np (by intro m hm; simp [endpointMeta] at hm; rw [← hm]) hs
  obtain ⟨_, _, b, B, cp, cn, hs', hcp, hcn, _, _, _, hB, hsur⟩ :=
    ng_claimPayment_shape h.var h.tokNe hx
  subst hcp hcn
  have hnl' : ¬ (Token.esdt s.lpTok = s.nftCost.tok ∧ 0 = s.nftCost.nonce) := by
    intro hh; exact hnl ⟨hh.1.symm, hh.2.symm⟩
  rw [hs']
  refine ⟨?_, rfl, rfl, rfl⟩
  show B (.esdt s.lpTok) 0 = s.perTicket * s.nrWinning
  rw [hB]
  simp only [Bal.sub, hnl', if_false]
  exact hsur

end LP
