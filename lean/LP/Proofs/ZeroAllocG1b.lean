import LP.Proofs.ZeroAllocG1a
/-
  LP.Proofs.ZeroAllocG1b — zero-size allocations for `Variant.guarV1`, part 2: the endpoints that
  read or write the allocation maps or the guarantee records, on the erased state:
  `addTicketsV1`, `confirm`.
-/
namespace LP
open LP.Props.C18

/-- pointwise relation between the guarantee records `uts` of a state with range map `R` and the
    records `U` of its erasure: equal, or the erased state has no record and no range for an address
    whose record in the original carries no guarantee -/
def zg_Urel (R : Nat → Option Range) (uts U : Nat → Option UTS) : Prop :=
  ∀ a, U a = uts a ∨
    (U a = none ∧ z_eraseR R a = none ∧ ∃ st, uts a = some st ∧ st.c = 0 ∧ st.d = 0)

/-- an address with an empty range has a guarantee record -/
def zg_Emp (s : State) : Prop :=
  ∀ a rg, s.range a = some rg → rg.last < rg.first → (s.uts a).isSome = true

/-! ### one allocation entry -/

/-- the arithmetic of one iteration of `addV1Many` (reads `minConfirmed` and the whitelist only) -/
def zg_addCore (minC : Nat) (wl0 : List Nat) (buyer staking : Nat) (migrated : Bool) (tw tg : Nat) :
    Res (List Nat × Nat × Nat × Nat × Nat) :=
  let stakingOk := staking ≥ minC
  if stakingOk && tw == 0 then .error (.user "Too many users with guaranteed ticket") else
  let (wl, tw, tg, c) := if stakingOk then ((setInsert wl0 buyer).1, tw - 1, tg + 1, 1)
                          else (wl0, tw, tg, 0)
  if migrated && tw == 0 then .error (.user "Too many users with guaranteed ticket") else
  let (wl, tw, tg, d) := if migrated then ((setInsert wl buyer).1, tw - 1, tg + 1, 1)
                          else (wl, tw, tg, 0)
  .ok (wl, c, d, tw, tg)

theorem zg_addV1Many_cons (buyer staking energy : Nat) (migrated : Bool)
    (rest : List (Nat × Nat × Nat × Bool)) (s : State) (tw tg : Nat) :
    addV1Many ((buyer, staking, energy, migrated) :: rest) (s, tw, tg) =
      match tryCreateTickets s buyer (staking + energy) with
      | .error e => .error e
      | .ok s1 =>
        match zg_addCore s1.minConfirmed s1.whitelist buyer staking migrated tw tg with
        | .error e => .error e
        | .ok (wl, c, d, tw', tg') =>
          addV1Many rest ({ s1 with whitelist := wl,
                                    uts := upd s1.uts buyer (some { a := staking, b := energy, c := c, d := d }) },
                          tw', tg') := by
  rw [addV1Many]
  cases tryCreateTickets s buyer (staking + energy) with
  | error e => rfl
  | ok s1 =>
    simp only [zg_addCore]
    by_cases h1 : staking ≥ s1.minConfirmed <;> cases migrated <;> by_cases h2 : tw = 0 <;>
      by_cases h3 : tw - 1 = 0 <;> simp [h1, h2, h3]

/-- a zero-size entry without the migration flag reserves nothing -/
theorem zg_addCore_zero {minC : Nat} (wl0 : List Nat) (buyer tw tg : Nat) (h : 0 < minC) :
    zg_addCore minC wl0 buyer 0 false tw tg = .ok (wl0, 0, 0, tw, tg) := by
  have : ¬ (0 ≥ minC) := by omega
  simp [zg_addCore, this]

theorem zg_tryCreate_U {s s' : State} {a n : Nat} (U : Nat → Option UTS)
    (h : tryCreateTickets s a n = .ok s') :
    tryCreateTickets { s with uts := U } a n = .ok { s' with uts := U } := by
  rw [tryCreateTickets_ok_iff] at h ⊢
  obtain ⟨h1, h2, rfl⟩ := h
  exact ⟨h1, h2, rfl⟩

theorem zg_tryCreate_pos {s s' : State} {a n : Nat} (K C : Nat → Bool) (U : Nat → Option UTS)
    (hn : 1 ≤ n) (h : tryCreateTickets s a n = .ok s') (hd : z_Hd s) :
    tryCreateTickets (zg_w s ⟨z_eraseR s.range, z_eraseB s.batch, K, C, U⟩) a n
      = .ok (zg_w s' ⟨z_eraseR s'.range, z_eraseB s'.batch, K, C, U⟩) ∧ z_Hd s' := by
  have hd' : z_Hd { s with uts := U } := hd
  obtain ⟨k1, k2⟩ := z_tryCreate_pos K C hn (zg_tryCreate_U U h) hd'
  exact ⟨k1, k2⟩

theorem zg_tryCreate_zero {s s' : State} {a : Nat} (K C : Nat → Bool) (U : Nat → Option UTS)
    (h : tryCreateTickets s a 0 = .ok s') (hd : z_Hd s) :
    zg_w s' ⟨z_eraseR s'.range, z_eraseB s'.batch, K, C, U⟩
      = zg_w s ⟨z_eraseR s.range, z_eraseB s.batch, K, C, U⟩ ∧ z_Hd s' := by
  have hd' : z_Hd { s with uts := U } := hd
  obtain ⟨k1, k2⟩ := z_tryCreate_zero K C (zg_tryCreate_U U h) hd'
  exact ⟨k1, k2⟩

theorem zg_eraseR_upd_ne_other (f : Nat → Option Range) (a x : Nat) (v : Option Range) (hx : x ≠ a) :
    z_eraseR (upd f a v) x = z_eraseR f x := by
  simp [z_eraseR, upd, hx]

/-- **`addV1Many l` on `s` is matched by `addV1Many (l without the zero-size entries)` on the erased
    state**, provided the zero-size entries do not carry the migration flag -/
theorem zg_addV1Many (K C : Nat → Bool) : ∀ (l : List (Nat × Nat × Nat × Bool)) {s s' : State}
    {tw tg tw' tg' : Nat} (U : Nat → Option UTS),
    addV1Many l (s, tw, tg) = .ok (s', tw', tg') → z_Hd s → 0 < s.minConfirmed →
    (∀ q ∈ l, q.2.1 + q.2.2.1 = 0 → q.2.2.2 = false) →
    zg_Urel s.range s.uts U → (∀ a, (U a).isSome = true → (z_eraseR s.range a).isSome = true) →
    zg_Emp s →
    ∃ U', addV1Many (l.filter (fun q => decide (1 ≤ q.2.1 + q.2.2.1)))
        (zg_w s ⟨z_eraseR s.range, z_eraseB s.batch, K, C, U⟩, tw, tg)
      = .ok (zg_w s' ⟨z_eraseR s'.range, z_eraseB s'.batch, K, C, U'⟩, tw', tg') ∧
      z_Hd s' ∧ zg_Urel s'.range s'.uts U' ∧
      (∀ a, (U' a).isSome = true → (z_eraseR s'.range a).isSome = true) ∧ zg_Emp s' ∧
      (∀ a, s'.range a = s.range a ∨ s.range a = none) ∧
      s'.blacklist = s.blacklist ∧ s'.claimed = s.claimed ∧ s'.flags = s.flags
  | [], s, s', tw, tg, tw', tg', U, h, hd, _, _, hU, hR, hE => by
    simp only [addV1Many, Except.ok.injEq, Prod.mk.injEq] at h
    obtain ⟨rfl, rfl, rfl⟩ := h
    exact ⟨U, rfl, hd, hU, hR, hE, fun _ => Or.inl rfl, rfl, rfl, rfl⟩
  | (b, st, en, mg) :: rest, s, s', tw, tg, tw', tg', U, h, hd, hmin, hz, hU, hR, hE => by
    rw [zg_addV1Many_cons] at h
    cases h1 : tryCreateTickets s b (st + en) with
    | error err => rw [h1] at h; cases h
    | ok s1 =>
      rw [h1] at h
      simp only at h
      cases h2 : zg_addCore s1.minConfirmed s1.whitelist b st mg tw tg with
      | error err => rw [h2] at h; cases h
      | ok q =>
        obtain ⟨wl, c, d, tw1, tg1⟩ := q
        rw [h2] at h
        simp only at h
        have h1' := (tryCreateTickets_ok_iff _ _ _ _).mp h1
        obtain ⟨hb0, _, hs1⟩ := h1'
        have hmin1 : s1.minConfirmed = s.minConfirmed := by rw [hs1]
        have huts1 : s1.uts = s.uts := by rw [hs1]
        have hrng1 : s1.range = upd s.range b (some ⟨s.lastTicketId + 1, s.lastTicketId + 1 + (st + en) - 1⟩) := by
          rw [hs1]
        have hbl1 : s1.blacklist = s.blacklist ∧ s1.claimed = s.claimed ∧ s1.flags = s.flags := by
          rw [hs1]; exact ⟨rfl, rfl, rfl⟩
        have hzrest : ∀ q ∈ rest, q.2.1 + q.2.2.1 = 0 → q.2.2.2 = false :=
          fun q hq => hz q (List.mem_cons_of_mem _ hq)
        have hother : ∀ a, a ≠ b → z_eraseR s1.range a = z_eraseR s.range a := by
          intro a ha; rw [hrng1]; exact zg_eraseR_upd_ne_other _ _ _ _ ha
        have hEnew : ∀ (rec : UTS), zg_Emp { s1 with whitelist := wl, uts := upd s1.uts b (some rec) } := by
          intro rec a rg hr hlt
          show (upd s1.uts b (some rec) a).isSome = true
          by_cases hab : a = b
          · subst hab; simp
          · rw [upd_other _ _ _ _ hab, huts1]
            have hr' : s1.range a = some rg := hr
            rw [hrng1, upd_other _ _ _ _ hab] at hr'
            exact hE a rg hr' hlt
        have hrange_or : ∀ a, s1.range a = s.range a ∨ s.range a = none := by
          intro a
          by_cases hab : a = b
          · subst hab; exact Or.inr hb0
          · left; rw [hrng1, upd_other _ _ _ _ hab]
        by_cases hn : 1 ≤ st + en
        · -- a real entry: the same iteration on the erased state
          obtain ⟨k1, k2⟩ := zg_tryCreate_pos K C U hn h1 hd
          have hnb : z_eraseR s1.range b = some ⟨s.lastTicketId + 1, s.lastTicketId + 1 + (st + en) - 1⟩ := by
            rw [hrng1]
            exact z_eraseR_of_ne (by simp) (by show s.lastTicketId + 1 ≤ s.lastTicketId + 1 + (st + en) - 1; omega)
          obtain ⟨U', i1, i2, i3, i4, i5, i6, i7, i8, i9⟩ :=
            zg_addV1Many K C rest
              (s := { s1 with whitelist := wl, uts := upd s1.uts b (some { a := st, b := en, c := c, d := d }) })
              (upd U b (some { a := st, b := en, c := c, d := d })) h k2 (by show 0 < s1.minConfirmed; omega) hzrest
              (by
                intro a
                by_cases hab : a = b
                · subst hab; left; simp
                · show upd U b _ a = upd s1.uts b _ a ∨ _
                  rw [upd_other _ _ _ _ hab, upd_other _ _ _ _ hab, huts1]
                  rcases hU a with h0 | ⟨h0, h0', st0, e1, e2, e3⟩
                  · exact Or.inl h0
                  · right
                    refine ⟨h0, ?_, st0, ?_, e2, e3⟩
                    · show z_eraseR s1.range a = none
                      rw [hother a hab]; exact h0'
                    · show upd s.uts b _ a = some st0
                      rw [upd_other _ _ _ _ hab]; exact e1)
              (by
                intro a ha
                show (z_eraseR s1.range a).isSome = true
                by_cases hab : a = b
                · subst hab; rw [hnb]; rfl
                · rw [upd_other _ _ _ _ hab] at ha
                  rw [hother a hab]; exact hR a ha)
              (hEnew _)
          refine ⟨U', ?_, i2, i3, i4, i5, ?_, i7.trans hbl1.1, i8.trans hbl1.2.1, i9.trans hbl1.2.2⟩
          · rw [List.filter_cons_of_pos (by simpa using hn), zg_addV1Many_cons, k1]
            simp only
            have h2' : zg_addCore (zg_w s1 ⟨z_eraseR s1.range, z_eraseB s1.batch, K, C, U⟩).minConfirmed
                (zg_w s1 ⟨z_eraseR s1.range, z_eraseB s1.batch, K, C, U⟩).whitelist b st mg tw tg
                = .ok (wl, c, d, tw1, tg1) := h2
            rw [h2']
            exact i1
          · intro a
            rcases i6 a with h0 | h0
            · rcases hrange_or a with h00 | h00
              · exact Or.inl (h0.trans h00)
              · exact Or.inr h00
            · have h0' : s1.range a = none := h0
              rcases hrange_or a with h00 | h00
              · exact Or.inr (h00 ▸ h0')
              · exact Or.inr h00
        · -- a zero-size entry: invisible on the erased state
          have hst : st = 0 := by omega
          have hen : en = 0 := by omega
          subst hst hen
          have hmg : mg = false := hz (b, 0, 0, mg) (List.mem_cons_self ..) rfl
          subst hmg
          rw [zg_addCore_zero _ _ _ _ (by omega)] at h2
          injection h2 with h2
          simp only [Prod.mk.injEq] at h2
          obtain ⟨rfl, rfl, rfl, rfl, rfl⟩ := h2
          obtain ⟨k1, k2⟩ := zg_tryCreate_zero K C U h1 hd
          have hUb : U b = none := by
            cases hub : U b with
            | none => rfl
            | some x =>
              have := hR b (by rw [hub]; rfl)
              rw [z_eraseR_of_none hb0] at this; cases this
          have hemp_b : z_eraseR s1.range b = none := by
            rw [hrng1]
            exact z_eraseR_of_empty (r := ⟨s.lastTicketId + 1, s.lastTicketId + 1 + (0 + 0) - 1⟩) (by simp)
              (by show ¬ s.lastTicketId + 1 ≤ s.lastTicketId + 1 + (0 + 0) - 1; omega)
          obtain ⟨U', i1, i2, i3, i4, i5, i6, i7, i8, i9⟩ :=
            zg_addV1Many K C rest
              (s := { s1 with whitelist := s1.whitelist, uts := upd s1.uts b (some { a := 0, b := 0, c := 0, d := 0 }) })
              U h k2 (by show 0 < s1.minConfirmed; omega) hzrest
              (by
                intro a
                by_cases hab : a = b
                · subst hab
                  right
                  refine ⟨hUb, hemp_b, ⟨{ a := 0, b := 0, c := 0, d := 0 }, ?_, rfl, rfl⟩⟩
                  show upd s1.uts a _ a = _
                  simp
                · show U a = upd s1.uts b _ a ∨ _
                  rw [upd_other _ _ _ _ hab, huts1]
                  rcases hU a with h0 | ⟨h0, h0', st0, e1, e2, e3⟩
                  · exact Or.inl h0
                  · right
                    refine ⟨h0, ?_, st0, ?_, e2, e3⟩
                    · show z_eraseR s1.range a = none
                      rw [hother a hab]; exact h0'
                    · show upd s.uts b _ a = some st0
                      rw [upd_other _ _ _ _ hab]; exact e1)
              (by
                intro a ha
                show (z_eraseR s1.range a).isSome = true
                by_cases hab : a = b
                · subst hab; rw [hUb] at ha; cases ha
                · rw [hother a hab]; exact hR a ha)
              (hEnew _)
          refine ⟨U', ?_, i2, i3, i4, i5, ?_, i7.trans hbl1.1, i8.trans hbl1.2.1, i9.trans hbl1.2.2⟩
          · rw [List.filter_cons_of_neg (by simp)]
            rw [← k1]
            exact i1
          · intro a
            rcases i6 a with h0 | h0
            · rcases hrange_or a with h00 | h00
              · exact Or.inl (h0.trans h00)
              · exact Or.inr h00
            · have h0' : s1.range a = none := h0
              rcases hrange_or a with h00 | h00
              · exact Or.inr (h00 ▸ h0')
              · exact Or.inr h00

end LP

namespace LP
open LP.Props.C18

/-- the body of `addTicketsV1` -/
theorem zg_exec_add {hash : List Nat → List Nat} {t t' : Tx} {e : Env}
    {l : List (Nat × Nat × Nat × Bool)} (K C : Nat → Bool) (U : Nat → Option UTS)
    (h : exec hash t e (.addTicketsV1 l) = .ok t') (hd : z_Hd t.s) (hmin : 0 < t.s.minConfirmed)
    (hz : ∀ q ∈ l, q.2.1 + q.2.2.1 = 0 → q.2.2.2 = false)
    (hU : zg_Urel t.s.range t.s.uts U)
    (hR : ∀ a, (U a).isSome = true → (z_eraseR t.s.range a).isSome = true) (hE : zg_Emp t.s) :
    ∃ U', exec hash (zg_wt t ⟨z_eraseR t.s.range, z_eraseB t.s.batch, K, C, U⟩) e
          (.addTicketsV1 (l.filter (fun q => decide (1 ≤ q.2.1 + q.2.2.1))))
        = .ok (zg_wt t' ⟨z_eraseR t'.s.range, z_eraseB t'.s.batch, K, C, U'⟩) ∧
      z_Hd t'.s ∧ zg_Urel t'.s.range t'.s.uts U' ∧
      (∀ a, (U' a).isSome = true → (z_eraseR t'.s.range a).isSome = true) ∧ zg_Emp t'.s ∧
      (∀ a, t'.s.range a = t.s.range a ∨ t.s.range a = none) ∧
      t'.s.blacklist = t.s.blacklist ∧ t'.s.claimed = t.s.claimed ∧ t'.s.flags = t.s.flags ∧
      t'.o = t.o := by
  simp only [exec, addTicketsV1, bind_ok_iff, pure_ok_iff, requireStage, req_ok_iff, exists_const,
    Prod.exists] at h ⊢
  obtain ⟨s2, ⟨hst, s1, tw, tg, hcm, rfl⟩, rfl⟩ := h
  obtain ⟨U', i1, i2, i3, i4, i5, i6, i7, i8, i9⟩ := zg_addV1Many K C l U hcm hd hmin hz hU hR hE
  exact ⟨U', ⟨_, ⟨hst, _, _, _, i1, rfl⟩, rfl⟩, i2, i3, i4, i5, i6, i7, i8, i9, rfl⟩

/-! ### confirm -/

theorem zg_ticketsFor {s : State} {a total : Nat} (B : Nat → Option Batch) (K C : Nat → Bool)
    (U : Nat → Option UTS) (h : ticketsFor s a = .ok total) :
    ticketsFor (zg_w s ⟨z_eraseR s.range, B, K, C, U⟩) a = .ok total := by
  have h' : ticketsFor { s with uts := U } a = .ok total := h
  exact z_ticketsFor (s := { s with uts := U }) B K C h'

open LP.Props.C07 in
theorem zg_exec_confirm {hash : List Nat → List Nat} {t t' : Tx} {e : Env} {n : Nat}
    (B : Nat → Option Batch) (K C : Nat → Bool) (U : Nat → Option UTS)
    (h : exec hash t e (.confirm n) = .ok t') (hK : K e.caller = true → t.s.blacklist e.caller = true) :
    exec hash (zg_wt t ⟨z_eraseR t.s.range, B, K, C, U⟩) e (.confirm n)
      = .ok (zg_wt t' ⟨z_eraseR t.s.range, B, K, C, U⟩) ∧
    t'.s.range = t.s.range ∧ t'.s.batch = t.s.batch ∧ t'.s.blacklist = t.s.blacklist ∧
    t'.s.claimed = t.s.claimed ∧ t'.s.flags = t.s.flags ∧ t'.s.lastTicketId = t.s.lastTicketId ∧
    t'.s.uts = t.s.uts ∧ t'.s.whitelist = t.s.whitelist := by
  simp only [exec] at h ⊢
  rw [confirmTickets_ok_iff] at h ⊢
  obtain ⟨total, ⟨a1, a2, a3, a4, a5, a6, a7⟩, rfl⟩ := h
  refine ⟨⟨total, ⟨a1, a2, a3, a4, ?_, zg_ticketsFor B K C U a6, a7⟩, rfl⟩, rfl, rfl, rfl, rfl, rfl, rfl,
    rfl, rfl⟩
  show K e.caller = false
  cases hk : K e.caller with
  | false => rfl
  | true => rw [hK hk] at a5; cases a5

end LP
