import LP.Proofs.ZeroAllocNG1
/-
  LP.Proofs.ZeroAllocNG6 — the commutation of LP/Proofs/ZeroAllocNG1.lean once more, with the
  whitelist among the overwritten fields (`zd_w`): the independent endpoints of `nftGuar` do not
  write the whitelist (`zd_step_indep_whitelist`).
-/
namespace LP

/-- overwrite the allocation maps, the two address flags and the guarantee records -/
def zd_w (s : State) (R : Nat → Option Range) (B : Nat → Option Batch) (K C : Nat → Bool)
    (U : Nat → Option UTS) (W : List Nat) : State :=
  { s with range := R, batch := B, blacklist := K, claimed := C, uts := U, whitelist := W }

def zd_wt (t : Tx) (R : Nat → Option Range) (B : Nat → Option Batch) (K C : Nat → Bool)
    (U : Nat → Option UTS) (W : List Nat) : Tx :=
  { t with s := zd_w t.s R B K C U W }

def zd_wx (x : SelSt) (R : Nat → Option Range) (B : Nat → Option Batch) (K C : Nat → Bool)
    (U : Nat → Option UTS) (W : List Nat) : SelSt :=
  { x with tx := zd_wt x.tx R B K C U W }

theorem zd_w_self (s : State) : zd_w s s.range s.batch s.blacklist s.claimed s.uts s.whitelist = s := rfl

theorem zd_w_w (s : State) (R R' : Nat → Option Range) (B B' : Nat → Option Batch)
    (K K' C C' : Nat → Bool) (U U' : Nat → Option UTS) (W W' : List Nat) :
    zd_w (zd_w s R B K C U W) R' B' K' C' U' W' = zd_w s R' B' K' C' U' W' := rfl

section
variable {R : Nat → Option Range} {B : Nat → Option Batch} {K C : Nat → Bool} {U : Nat → Option UTS} {W : List Nat}

theorem zd_freshRng (t : Tx) :
    (zd_wt t R B K C U W).freshRng = (t.freshRng.1, zd_wt t.freshRng.2 R B K C U W) := by
  unfold Tx.freshRng
  show (match t.c.seeds with | [] => _ | sd :: rest => _) = _
  cases t.c.seeds <;> rfl

theorem zd_draw (hash : List Nat → List Nat) (t : Tx) (rng : Rng) :
    (zd_wt t R B K C U W).draw hash rng
      = ((t.draw hash rng).1, (t.draw hash rng).2.1, zd_wt (t.draw hash rng).2.2 R B K C U W) := by
  unfold Tx.draw
  show (match t.c.script with | [] => _ | x :: xs => _) = _
  cases t.c.script <;> rfl

theorem zd_send (t : Tx) (a : Nat) (p : Pay) :
    (zd_wt t R B K C U W).send a p = mapR (zd_wt · R B K C U W) (t.send a p) := by
  unfold Tx.send
  by_cases h : t.s.bal p.tok p.nonce < p.amount
  · have h' : (zd_wt t R B K C U W).s.bal p.tok p.nonce < p.amount := h
    rw [if_pos h, if_pos h']; rfl
  · have h' : ¬ (zd_wt t R B K C U W).s.bal p.tok p.nonce < p.amount := h
    rw [if_neg h, if_neg h']; rfl

theorem zd_selectBody (hash : List Nat → List Nat) (nr last : Nat) (x : SelSt) :
    selectBody hash nr last (zd_wx x R B K C U W)
      = mapR (fst1 (zd_wx · R B K C U W)) (selectBody hash nr last x) := by
  unfold selectBody
  simp only [zd_wx, zd_draw]
  repeat' ite_both
  all_goals rfl

/-- peel the common guards off an equation `X (zd_wt t …) = mapR (zd_wt · …) (X t)` -/
macro "zd_peel" : tactic => `(tactic|
  (simp only [mapR_bind, bind_assoc, pure_bind]
   repeat' (first | rfl | (refine bind_congr_fun ?_; intro _) | ite_both)))

theorem zd_selectWinners (hash : List Nat → List Nat) (t : Tx) (e : Env) :
    selectWinners hash (zd_wt t R B K C U W) e = mapR (zd_wt · R B K C U W) (selectWinners hash t e) := by
  unfold selectWinners
  simp only [setp]
  show (req (!t.s.paused) _ >>= fun _ => _) = _
  refine bind_congr_fun ?_; intro _
  show (requireStage t.s e .winnerSelection _ >>= fun _ => _) = _
  refine bind_congr_fun ?_; intro _
  show (ownerOrUser t.s e >>= fun _ => _) = _
  refine bind_congr_fun ?_; intro _
  show (req t.s.flags.filtered _ >>= fun _ => _) = _
  refine bind_congr_fun ?_; intro _
  show (req (!t.s.flags.selected) _ >>= fun _ => _) = _
  refine bind_congr_fun ?_; intro _
  have hop' : (zd_wt t R B K C U W).s.op = t.s.op := rfl
  cases hop : t.s.op with
  | none =>
    simp only [hop', hop, zd_freshRng, mapR_bind]
    refine bind_eq_bind_of_mapR (fst1 (zd_wx · R B K C U W)) ?_ ?_
    · rhs_exact runWhile_commutes (zd_wx · R B K C U W) _ (zd_selectBody hash _ _) _ _ _
    · intro ⟨y, b2, st2⟩
      cases st2 <;> rfl
  | select r p =>
    simp only [hop', hop, mapR_bind]
    refine bind_eq_bind_of_mapR (fst1 (zd_wx · R B K C U W)) ?_ ?_
    · rhs_exact runWhile_commutes (zd_wx · R B K C U W) _ (zd_selectBody hash _ _) _ _ _
    · intro ⟨y, b2, st2⟩
      cases st2 <;> rfl
  | _ => simp only [hop', hop] <;> rfl

theorem zd_claimPaymentCommon (t : Tx) (e : Env) :
    claimPaymentCommon (zd_wt t R B K C U W) e = mapR (zd_wt · R B K C U W) (claimPaymentCommon t e) := by
  unfold claimPaymentCommon
  simp only [mapR_bind]
  show (requireStage t.s e .claim _ >>= fun _ => _) = _
  refine bind_congr_fun ?_; intro _
  have tail : ∀ t1 : Tx,
      (bsub ((zd_wt t1 R B K C U W).s.bal (.esdt (zd_wt t1 R B K C U W).s.lpTok) 0)
          ((zd_wt t1 R B K C U W).s.perTicket * (zd_wt t1 R B K C U W).s.nrWinning) "tickets.rs:66 balance - needed"
        >>= fun extra => if extra > 0 then (zd_wt t1 R B K C U W).send e.caller ⟨.esdt (zd_wt t1 R B K C U W).s.lpTok, 0, extra⟩
                         else pure (zd_wt t1 R B K C U W)) =
      (bsub (t1.s.bal (.esdt t1.s.lpTok) 0) (t1.s.perTicket * t1.s.nrWinning) "tickets.rs:66 balance - needed"
        >>= fun extra => mapR (zd_wt · R B K C U W)
              (if extra > 0 then t1.send e.caller ⟨.esdt t1.s.lpTok, 0, extra⟩ else pure t1)) := by
    intro t1
    refine bind_congr_fun ?_; intro extra
    by_cases hx : extra > 0
    · rw [if_pos hx, if_pos hx]
      rhs_exact zd_send _ _ _
    · rw [if_neg hx, if_neg hx]; rfl
  by_cases hc : t.s.claimablePayment > 0
  · have hc' : (zd_wt t R B K C U W).s.claimablePayment > 0 := hc
    rw [if_pos hc, if_pos hc']
    simp only [mapR_bind]
    refine bind_eq_bind_of_mapR (zd_wt · R B K C U W) ?_ ?_
    · rhs_exact zd_send _ _ _
    · intro t1; exact tail t1
  · have hc' : ¬ (zd_wt t R B K C U W).s.claimablePayment > 0 := hc
    rw [if_neg hc, if_neg hc']
    simp only [mapR_bind, pure_bind]
    exact tail t

theorem zd_claimNftPayment (t : Tx) (e : Env) :
    claimNftPayment (zd_wt t R B K C U W) e = mapR (zd_wt · R B K C U W) (claimNftPayment t e) := by
  unfold claimNftPayment
  simp only [mapR_bind]
  show (requireStage t.s e .claim _ >>= fun _ => _) = _
  refine bind_congr_fun ?_; intro _
  by_cases hc : t.s.claimableNft > 0
  · have hc' : (zd_wt t R B K C U W).s.claimableNft > 0 := hc
    rw [if_pos hc, if_pos hc']
    simp only [mapR_bind]
    refine bind_eq_bind_of_mapR (zd_wt · R B K C U W) ?_ ?_
    · rhs_exact zd_send _ _ _
    · intro t1; rfl
  · have hc' : ¬ (zd_wt t R B K C U W).s.claimableNft > 0 := hc
    rw [if_neg hc, if_neg hc']
    rfl

theorem zd_confirmNft (s : State) (e : Env) :
    confirmNft (zd_w s R B K C U W) e = mapR (zd_w · R B K C U W) (confirmNft s e) := by
  unfold confirmNft
  zd_peel

/-- the endpoints of `nftGuar` that neither read nor write `range`, `batch`, `blacklist`,
    `claimed`, `uts` -/
def zd_indep : Call → Bool
  | .deposit | .setTicketPrice _ _ | .setPerTicket _ | .setConfStart _ | .setSelStart _
  | .setClaimStart _ | .setSupport _ | .pause | .unpause | .select | .claimPayment
  | .confirmNft | .setNftCost _ | .sftSetup => true
  | _ => false

/-- **the bodies of the independent endpoints commute with overwriting the five fields**
    (variants without vesting) -/
theorem zd_exec_indep (hash : List Nat → List Nat) (t : Tx) (e : Env) (c : Call)
    (hc : zd_indep c = true) (hv : t.s.variant.vested = false) :
    exec hash (zd_wt t R B K C U W) e c = mapR (zd_wt · R B K C U W) (exec hash t e c) := by
  cases c with
  | deposit =>
    simp only [exec, depositLaunchpadTokens]
    zd_peel
  | setTicketPrice tok a =>
    simp only [exec, trySetTicketPrice]
    zd_peel
  | setPerTicket a => simp only [exec]; zd_peel
  | setConfStart x => simp only [exec, validTimelineChange]; zd_peel
  | setSelStart x => simp only [exec, validTimelineChange]; zd_peel
  | setClaimStart x => simp only [exec, validTimelineChange]; zd_peel
  | setSupport a => rfl
  | pause => rfl
  | unpause => rfl
  | sftSetup => rfl
  | setNftCost c => simp only [exec, validCost]; zd_peel
  | confirmNft =>
    simp only [exec]
    show (confirmNft (zd_w t.s R B K C U W) e >>= _) = _
    rw [zd_confirmNft]
    cases confirmNft t.s e <;> rfl
  | select => exact zd_selectWinners hash t e
  | claimPayment =>
    have hv' : (zd_wt t R B K C U W).s.variant.vested = false := hv
    simp only [exec, hv, hv', Bool.false_eq_true, if_false]
    rw [zd_claimPaymentCommon]
    cases hcp : claimPaymentCommon t e with
    | error err => rfl
    | ok t1 =>
      simp only [mapR_ok, bind, Except.bind]
      show (if t1.s.variant.hasNft = true then claimNftPayment (zd_wt t1 R B K C U W) e
            else pure (zd_wt t1 R B K C U W)) = _
      by_cases hn : t1.s.variant.hasNft = true
      · rw [if_pos hn, if_pos hn]; exact zd_claimNftPayment t1 e
      · rw [if_neg hn, if_neg hn]; rfl
  | _ => simp [zd_indep] at hc

theorem zd_credit (s : State) (e : Env) :
    creditPayments (zd_w s R B K C U W) e = zd_w (creditPayments s e) R B K C U W := rfl

/-- **`step` of an independent endpoint commutes with overwriting the five fields** -/
theorem zd_step_indep_eq (hash : List Nat → List Nat) (s : State) (e : Env) (c : Call)
    (hc : zd_indep c = true) (hv : s.variant.vested = false) :
    step hash (zd_w s R B K C U W) e c
      = mapR (fun p => (zd_w p.1 R B K C U W, p.2)) (step hash s e c) := by
  unfold step
  show (match endpointMeta s.variant c with | none => _ | some m => _) = _
  cases endpointMeta s.variant c with
  | none => rfl
  | some m =>
    show (if _ then _ else if (m.ownerOnly && e.caller != s.owner) = true then _ else _) = _
    simp only
    ite_both
    · rfl
    ite_both
    · rfl
    have hx := zd_exec_indep (R := R) (B := B) (K := K) (C := C) (U := U) (W := W) hash
      ⟨creditPayments s e, ⟨e.budget, e.seeds, e.script⟩, {}⟩ e c hc hv
    have hx' : exec hash ⟨creditPayments (zd_w s R B K C U W) e, ⟨e.budget, e.seeds, e.script⟩, {}⟩ e c
        = mapR (zd_wt · R B K C U W)
            (exec hash ⟨creditPayments s e, ⟨e.budget, e.seeds, e.script⟩, {}⟩ e c) := hx
    rw [hx']
    cases exec hash ⟨creditPayments s e, ⟨e.budget, e.seeds, e.script⟩, {}⟩ e c <;> rfl

theorem zd_step_indep {hash : List Nat → List Nat} {s s' : State} {e : Env} {c : Call} {o : Out}
    (hc : zd_indep c = true) (hv : s.variant.vested = false)
    (h : step hash s e c = .ok (s', o)) :
    step hash (zd_w s R B K C U W) e c = .ok (zd_w s' R B K C U W, o) := by
  rw [zd_step_indep_eq hash s e c hc hv, h]; rfl

end

/-- an independent endpoint leaves the whitelist alone -/
theorem zd_step_indep_whitelist {hash : List Nat → List Nat} {s s' : State} {e : Env} {c : Call} {o : Out}
    (hc : zd_indep c = true) (hv : s.variant.vested = false)
    (h : step hash s e c = .ok (s', o)) : s'.whitelist = s.whitelist := by
  have h2 := zd_step_indep (R := s.range) (B := s.batch) (K := s.blacklist) (C := s.claimed)
    (U := s.uts) (W := s.whitelist) hc hv h
  rw [zd_w_self, h] at h2
  have h3 : s' = zd_w s' s.range s.batch s.blacklist s.claimed s.uts s.whitelist := by
    injection h2 with h2; injection h2
  exact (congrArg State.whitelist h3).trans rfl

end LP
