import LP.Proofs.ZeroAlloc3
import LP.Props.C14reachG
/-
  LP.Proofs.ZeroAllocNG1 — zero-size allocations in `Variant.nftGuar`, part 1.

  `zc_w s R B K C U` overwrites the FIVE fields `range`, `batch`, `blacklist`, `claimed`, `uts` of a
  state (the four of the plain development, `z_w`, plus the guarantee records: a zero-size entry
  `(a, 0, 0, false)` leaves the record `{0,0,0,0}` behind).  The endpoints `deposit`, the setters,
  `setSupport`, `pause`, `unpause`, `select`, `claimPayment` (with its NFT part), `confirmNft`,
  `setNftCost`, `sftSetup` neither read nor write these five fields: their bodies COMMUTE with the
  overwriting (`zc_exec_indep`), hence so does `step` (`zc_step_indep`).
-/
namespace LP

/-- overwrite the allocation maps, the two address flags and the guarantee records -/
def zc_w (s : State) (R : Nat → Option Range) (B : Nat → Option Batch) (K C : Nat → Bool)
    (U : Nat → Option UTS) : State :=
  { s with range := R, batch := B, blacklist := K, claimed := C, uts := U }

def zc_wt (t : Tx) (R : Nat → Option Range) (B : Nat → Option Batch) (K C : Nat → Bool)
    (U : Nat → Option UTS) : Tx :=
  { t with s := zc_w t.s R B K C U }

def zc_wx (x : SelSt) (R : Nat → Option Range) (B : Nat → Option Batch) (K C : Nat → Bool)
    (U : Nat → Option UTS) : SelSt :=
  { x with tx := zc_wt x.tx R B K C U }

theorem zc_w_self (s : State) : zc_w s s.range s.batch s.blacklist s.claimed s.uts = s := rfl

theorem zc_w_w (s : State) (R R' : Nat → Option Range) (B B' : Nat → Option Batch)
    (K K' C C' : Nat → Bool) (U U' : Nat → Option UTS) :
    zc_w (zc_w s R B K C U) R' B' K' C' U' = zc_w s R' B' K' C' U' := rfl

section
variable {R : Nat → Option Range} {B : Nat → Option Batch} {K C : Nat → Bool} {U : Nat → Option UTS}

theorem zc_freshRng (t : Tx) :
    (zc_wt t R B K C U).freshRng = (t.freshRng.1, zc_wt t.freshRng.2 R B K C U) := by
  unfold Tx.freshRng
  show (match t.c.seeds with | [] => _ | sd :: rest => _) = _
  cases t.c.seeds <;> rfl

theorem zc_draw (hash : List Nat → List Nat) (t : Tx) (rng : Rng) :
    (zc_wt t R B K C U).draw hash rng
      = ((t.draw hash rng).1, (t.draw hash rng).2.1, zc_wt (t.draw hash rng).2.2 R B K C U) := by
  unfold Tx.draw
  show (match t.c.script with | [] => _ | x :: xs => _) = _
  cases t.c.script <;> rfl

theorem zc_send (t : Tx) (a : Nat) (p : Pay) :
    (zc_wt t R B K C U).send a p = mapR (zc_wt · R B K C U) (t.send a p) := by
  unfold Tx.send
  by_cases h : t.s.bal p.tok p.nonce < p.amount
  · have h' : (zc_wt t R B K C U).s.bal p.tok p.nonce < p.amount := h
    rw [if_pos h, if_pos h']; rfl
  · have h' : ¬ (zc_wt t R B K C U).s.bal p.tok p.nonce < p.amount := h
    rw [if_neg h, if_neg h']; rfl

theorem zc_selectBody (hash : List Nat → List Nat) (nr last : Nat) (x : SelSt) :
    selectBody hash nr last (zc_wx x R B K C U)
      = mapR (fst1 (zc_wx · R B K C U)) (selectBody hash nr last x) := by
  unfold selectBody
  simp only [zc_wx, zc_draw]
  repeat' ite_both
  all_goals rfl

/-- peel the common guards off an equation `X (zc_wt t …) = mapR (zc_wt · …) (X t)` -/
macro "zc_peel" : tactic => `(tactic|
  (simp only [mapR_bind, bind_assoc, pure_bind]
   repeat' (first | rfl | (refine bind_congr_fun ?_; intro _) | ite_both)))

theorem zc_selectWinners (hash : List Nat → List Nat) (t : Tx) (e : Env) :
    selectWinners hash (zc_wt t R B K C U) e = mapR (zc_wt · R B K C U) (selectWinners hash t e) := by
  unfold selectWinners
  simp only [setp]
  show (req (!t.s.paused) _ >>= fun _ => _) = _
  refine bind_congr_fun ?_; intro _
  show (requireStage t.s e .winnerSelection _ >>= fun _ => _) = _
  refine bind_congr_fun ?_; intro _
  show (ownerOrUser t.s e >>= fun _ => _) = _
  refine bind_congr_fun ?_; intro _
  show (req t.s.flags.filtered _ >>= fun _ => _) = _
  refine bind_congr_fun ?_; intro _
  show (req (!t.s.flags.selected) _ >>= fun _ => _) = _
  refine bind_congr_fun ?_; intro _
  have hop' : (zc_wt t R B K C U).s.op = t.s.op := rfl
  cases hop : t.s.op with
  | none =>
    simp only [hop', hop, zc_freshRng, mapR_bind]
    refine bind_eq_bind_of_mapR (fst1 (zc_wx · R B K C U)) ?_ ?_
    · rhs_exact runWhile_commutes (zc_wx · R B K C U) _ (zc_selectBody hash _ _) _ _ _
    · intro ⟨y, b2, st2⟩
      cases st2 <;> rfl
  | select r p =>
    simp only [hop', hop, mapR_bind]
    refine bind_eq_bind_of_mapR (fst1 (zc_wx · R B K C U)) ?_ ?_
    · rhs_exact runWhile_commutes (zc_wx · R B K C U) _ (zc_selectBody hash _ _) _ _ _
    · intro ⟨y, b2, st2⟩
      cases st2 <;> rfl
  | _ => simp only [hop', hop] <;> rfl

theorem zc_claimPaymentCommon (t : Tx) (e : Env) :
    claimPaymentCommon (zc_wt t R B K C U) e = mapR (zc_wt · R B K C U) (claimPaymentCommon t e) := by
  unfold claimPaymentCommon
  simp only [mapR_bind]
  show (requireStage t.s e .claim _ >>= fun _ => _) = _
  refine bind_congr_fun ?_; intro _
  have tail : ∀ t1 : Tx,
      (bsub ((zc_wt t1 R B K C U).s.bal (.esdt (zc_wt t1 R B K C U).s.lpTok) 0)
          ((zc_wt t1 R B K C U).s.perTicket * (zc_wt t1 R B K C U).s.nrWinning) "tickets.rs:66 balance - needed"
        >>= fun extra => if extra > 0 then (zc_wt t1 R B K C U).send e.caller ⟨.esdt (zc_wt t1 R B K C U).s.lpTok, 0, extra⟩
                         else pure (zc_wt t1 R B K C U)) =
      (bsub (t1.s.bal (.esdt t1.s.lpTok) 0) (t1.s.perTicket * t1.s.nrWinning) "tickets.rs:66 balance - needed"
        >>= fun extra => mapR (zc_wt · R B K C U)
              (if extra > 0 then t1.send e.caller ⟨.esdt t1.s.lpTok, 0, extra⟩ else pure t1)) := by
    intro t1
    refine bind_congr_fun ?_; intro extra
    by_cases hx : extra > 0
    · rw [if_pos hx, if_pos hx]
      rhs_exact zc_send _ _ _
    · rw [if_neg hx, if_neg hx]; rfl
  by_cases hc : t.s.claimablePayment > 0
  · have hc' : (zc_wt t R B K C U).s.claimablePayment > 0 := hc
    rw [if_pos hc, if_pos hc']
    simp only [mapR_bind]
    refine bind_eq_bind_of_mapR (zc_wt · R B K C U) ?_ ?_
    · rhs_exact zc_send _ _ _
    · intro t1; exact tail t1
  · have hc' : ¬ (zc_wt t R B K C U).s.claimablePayment > 0 := hc
    rw [if_neg hc, if_neg hc']
    simp only [mapR_bind, pure_bind]
    exact tail t

theorem zc_claimNftPayment (t : Tx) (e : Env) :
    claimNftPayment (zc_wt t R B K C U) e = mapR (zc_wt · R B K C U) (claimNftPayment t e) := by
  unfold claimNftPayment
  simp only [mapR_bind]
  show (requireStage t.s e .claim _ >>= fun _ => _) = _
  refine bind_congr_fun ?_; intro _
  by_cases hc : t.s.claimableNft > 0
  · have hc' : (zc_wt t R B K C U).s.claimableNft > 0 := hc
    rw [if_pos hc, if_pos hc']
    simp only [mapR_bind]
    refine bind_eq_bind_of_mapR (zc_wt · R B K C U) ?_ ?_
    · rhs_exact zc_send _ _ _
    · intro t1; rfl
  · have hc' : ¬ (zc_wt t R B K C U).s.claimableNft > 0 := hc
    rw [if_neg hc, if_neg hc']
    rfl

theorem zc_confirmNft (s : State) (e : Env) :
    confirmNft (zc_w s R B K C U) e = mapR (zc_w · R B K C U) (confirmNft s e) := by
  unfold confirmNft
  zc_peel

/-- the endpoints of `nftGuar` that neither read nor write `range`, `batch`, `blacklist`,
    `claimed`, `uts` -/
def zc_indep : Call → Bool
  | .deposit | .setTicketPrice _ _ | .setPerTicket _ | .setConfStart _ | .setSelStart _
  | .setClaimStart _ | .setSupport _ | .pause | .unpause | .select | .claimPayment
  | .confirmNft | .setNftCost _ | .sftSetup => true
  | _ => false

/-- **the bodies of the independent endpoints commute with overwriting the five fields**
    (variants without vesting) -/
theorem zc_exec_indep (hash : List Nat → List Nat) (t : Tx) (e : Env) (c : Call)
    (hc : zc_indep c = true) (hv : t.s.variant.vested = false) :
    exec hash (zc_wt t R B K C U) e c = mapR (zc_wt · R B K C U) (exec hash t e c) := by
  cases c with
  | deposit =>
    simp only [exec, depositLaunchpadTokens]
    zc_peel
  | setTicketPrice tok a =>
    simp only [exec, trySetTicketPrice]
    zc_peel
  | setPerTicket a => simp only [exec]; zc_peel
  | setConfStart x => simp only [exec, validTimelineChange]; zc_peel
  | setSelStart x => simp only [exec, validTimelineChange]; zc_peel
  | setClaimStart x => simp only [exec, validTimelineChange]; zc_peel
  | setSupport a => rfl
  | pause => rfl
  | unpause => rfl
  | sftSetup => rfl
  | setNftCost c => simp only [exec, validCost]; zc_peel
  | confirmNft =>
    simp only [exec]
    show (confirmNft (zc_w t.s R B K C U) e >>= _) = _
    rw [zc_confirmNft]
    cases confirmNft t.s e <;> rfl
  | select => exact zc_selectWinners hash t e
  | claimPayment =>
    have hv' : (zc_wt t R B K C U).s.variant.vested = false := hv
    simp only [exec, hv, hv', Bool.false_eq_true, if_false]
    rw [zc_claimPaymentCommon]
    cases hcp : claimPaymentCommon t e with
    | error err => rfl
    | ok t1 =>
      simp only [mapR_ok, bind, Except.bind]
      show (if t1.s.variant.hasNft = true then claimNftPayment (zc_wt t1 R B K C U) e
            else pure (zc_wt t1 R B K C U)) = _
      by_cases hn : t1.s.variant.hasNft = true
      · rw [if_pos hn, if_pos hn]; exact zc_claimNftPayment t1 e
      · rw [if_neg hn, if_neg hn]; rfl
  | _ => simp [zc_indep] at hc

theorem zc_credit (s : State) (e : Env) :
    creditPayments (zc_w s R B K C U) e = zc_w (creditPayments s e) R B K C U := rfl

/-- **`step` of an independent endpoint commutes with overwriting the five fields** -/
theorem zc_step_indep_eq (hash : List Nat → List Nat) (s : State) (e : Env) (c : Call)
    (hc : zc_indep c = true) (hv : s.variant.vested = false) :
    step hash (zc_w s R B K C U) e c
      = mapR (fun p => (zc_w p.1 R B K C U, p.2)) (step hash s e c) := by
  unfold step
  show (match endpointMeta s.variant c with | none => _ | some m => _) = _
  cases endpointMeta s.variant c with
  | none => rfl
  | some m =>
    show (if _ then _ else if (m.ownerOnly && e.caller != s.owner) = true then _ else _) = _
    simp only
    ite_both
    · rfl
    ite_both
    · rfl
    have hx := zc_exec_indep (R := R) (B := B) (K := K) (C := C) (U := U) hash
      ⟨creditPayments s e, ⟨e.budget, e.seeds, e.script⟩, {}⟩ e c hc hv
    have hx' : exec hash ⟨creditPayments (zc_w s R B K C U) e, ⟨e.budget, e.seeds, e.script⟩, {}⟩ e c
        = mapR (zc_wt · R B K C U)
            (exec hash ⟨creditPayments s e, ⟨e.budget, e.seeds, e.script⟩, {}⟩ e c) := hx
    rw [hx']
    cases exec hash ⟨creditPayments s e, ⟨e.budget, e.seeds, e.script⟩, {}⟩ e c <;> rfl

theorem zc_step_indep {hash : List Nat → List Nat} {s s' : State} {e : Env} {c : Call} {o : Out}
    (hc : zc_indep c = true) (hv : s.variant.vested = false)
    (h : step hash s e c = .ok (s', o)) :
    step hash (zc_w s R B K C U) e c = .ok (zc_w s' R B K C U, o) := by
  rw [zc_step_indep_eq hash s e c hc hv, h]; rfl

end

/-- an independent endpoint leaves the five fields alone -/
theorem zc_step_indep_frame {hash : List Nat → List Nat} {s s' : State} {e : Env} {c : Call} {o : Out}
    (hc : zc_indep c = true) (hv : s.variant.vested = false)
    (h : step hash s e c = .ok (s', o)) :
    s'.range = s.range ∧ s'.batch = s.batch ∧ s'.blacklist = s.blacklist ∧ s'.claimed = s.claimed ∧
    s'.uts = s.uts := by
  have h2 := zc_step_indep (R := s.range) (B := s.batch) (K := s.blacklist) (C := s.claimed)
    (U := s.uts) hc hv h
  rw [zc_w_self, h] at h2
  have h3 : s' = zc_w s' s.range s.batch s.blacklist s.claimed s.uts := by
    injection h2 with h2; injection h2
  refine ⟨?_, ?_, ?_, ?_, ?_⟩
  · exact (congrArg State.range h3).trans rfl
  · exact (congrArg State.batch h3).trans rfl
  · exact (congrArg State.blacklist h3).trans rfl
  · exact (congrArg State.claimed h3).trans rfl
  · exact (congrArg State.uts h3).trans rfl

end LP
