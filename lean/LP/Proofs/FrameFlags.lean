import LP.Proofs.Frame
/-
  LP.Proofs.FrameFlags — the same pass as LP.Proofs.Frame for the `flags` field: every helper keeps
  `flags` equal, except the five selection endpoints, which only gain flags (`Flags.gain`).
  (generated from the `_static` lemmas of Frame.lean; the proofs are the same scripts)
-/
namespace LP

theorem Flags.gain_of_eq {f f' : Flags} (h : f' = f) : Flags.gain f f' := h ▸ Flags.gain_refl f

/-- close a goal `Flags.gain f f'` where `f'` is `f` with some flags set (possibly under an `if`) -/
macro "gain_close" : tactic =>
  `(tactic| (constructor <;> intro hh <;> (try dsimp only [Tx.emit, Tx.setS, creditAdditional]) <;> (try split) <;> first | exact hh | rfl))

/-! ### primitive transaction operations -/

/-- a `Tx.setS`-based update preserves `flags` as soon as the written state does -/
theorem Tx.setS_flags {t : Tx} {s : State} (h : s.flags = t.s.flags) : (t.setS s).s.flags = t.s.flags := h
theorem Tx.emit_flags (t : Tx) (ev : Ev) : (t.emit ev).s.flags = t.s.flags := rfl
theorem Tx.send_flags {t t' : Tx} {a : Nat} {p : Pay} (h : t.send a p = .ok t') :
    t'.s.flags = t.s.flags := by
  rw [(Tx.send_s h).1]

theorem Tx.refund_flags {t t' : Tx} {e : Env} {a n : Nat} (h : t.refund e a n = .ok t') :
    t'.s.flags = t.s.flags := by
  rcases Nat.eq_zero_or_pos n with rfl | hn
  · rw [Tx.refund_zero h]
  · rw [(Tx.refund_pos h hn).1]

/-! ### launchpad-common helpers -/

/-- `tryCreateTickets` changes only `range`, `batch`, `lastTicketId` -/
theorem tryCreateTickets_flags {s s' : State} {a n : Nat} (h : tryCreateTickets s a n = .ok s') :
    s'.flags = s.flags := by
  unfold tryCreateTickets at h
  simp only [bind_ok_iff, pure_ok_iff, req_ok_iff, exists_const] at h
  obtain ⟨_, _, rfl⟩ := h
  rfl

/-- `createMany` changes only `range`, `batch`, `lastTicketId` -/
theorem createMany_flags : ∀ (l : List (Nat × Nat)) {s s' : State}, createMany l s = .ok s' →
    s'.flags = s.flags
  | [], s, s', h => by simp only [createMany, Except.ok.injEq] at h; rw [h]
  | (a, n) :: rest, s, s', h => by
    unfold createMany at h
    cases h1 : tryCreateTickets s a n with
    | error e => simp [h1] at h
    | ok s1 =>
      simp only [h1] at h
      exact (createMany_flags rest h).trans (tryCreateTickets_flags h1)

/-- `confirmTickets` changes only `confirmed` (and emits one event) -/
theorem confirmTickets_flags {t t' : Tx} {e : Env} {n : Nat} (h : confirmTickets t e n = .ok t') :
    t'.s.flags = t.s.flags := by
  unfold confirmTickets at h
  simp only [bind_ok_iff, pure_ok_iff, req_ok_iff, exists_const, Prod.exists] at h
  lp_peel h
  subst h
  rfl

/-- `settle` changes only `status`, `posToId`, `confirmed`, `range`, `batch`, `nrWinning`, `claimed` -/
theorem settle_flags {s s' : State} {e : Env} {a b : Nat} (h : settle s e = .ok (s', a, b)) :
    s'.flags = s.flags := by
  unfold settle at h
  simp only [bind_ok_iff, req_ok_iff, exists_const] at h
  obtain ⟨_, _, _, h⟩ := h
  split at h
  · cases h
  · split at h <;> simp only [bind_ok_iff, pure_ok_iff, Prod.mk.injEq] at h <;>
      (obtain ⟨_, _, _, _, rfl, _, _⟩ := h; rfl)

/-- `blacklistMany` changes only `bal`, `confirmed`, `blacklist` -/
theorem blacklistMany_flags (e : Env) : ∀ (l : List Nat) {t t' : Tx}, blacklistMany e l t = .ok t' →
    t'.s.flags = t.s.flags
  | [], t, t', h => by simp only [blacklistMany, Except.ok.injEq] at h; rw [h]
  | a :: rest, t, t', h => by
    unfold blacklistMany at h
    split at h
    · cases h
    · split at h
      · cases h
      · dsimp only at h
        split at h
        · cases h
        · rename_i t1 h1
          refine (blacklistMany_flags e rest h).trans ?_
          have h2 : t1.s.flags = t.s.flags := by
            split at h1
            · exact Tx.refund_flags h1
            · cases h1; rfl
          simp only [Tx.setS_s]
          split <;> exact h2

theorem addUsersToBlacklist_flags {t t' : Tx} {e : Env} {l : List Nat}
    (h : addUsersToBlacklist t e l = .ok t') : t'.s.flags = t.s.flags := by
  unfold addUsersToBlacklist at h
  simp only [bind_ok_iff] at h
  obtain ⟨_, _, _, _, h⟩ := h
  exact blacklistMany_flags e l h

/-- `unblacklistMany` changes only `blacklist` -/
theorem unblacklistMany_flags : ∀ (l : List Nat) {s s' : State}, unblacklistMany l s = .ok s' →
    s'.flags = s.flags
  | [], s, s', h => by simp only [unblacklistMany, Except.ok.injEq] at h; rw [h]
  | a :: rest, s, s', h => by
    unfold unblacklistMany at h
    split at h
    · exact (unblacklistMany_flags rest h).trans rfl
    · cases h

theorem removeUsersFromBlacklist_flags {s s' : State} {e : Env} {l : List Nat}
    (h : removeUsersFromBlacklist s e l = .ok s') : s'.flags = s.flags := by
  unfold removeUsersFromBlacklist at h
  simp only [bind_ok_iff] at h
  obtain ⟨_, _, _, _, h⟩ := h
  exact unblacklistMany_flags l h

/-- `filterTickets` changes only `range`, `batch`, `flags`, `op`, `nrWinning`, `lastTicketId` -/
theorem filterTickets_flags {t t' : Tx} {e : Env} (h : filterTickets t e = .ok t') :
    Flags.gain t.s.flags t'.s.flags := by
  unfold filterTickets at h
  cases hop : t.s.op <;>
    simp only [hop, bind_ok_iff, req_ok_iff, pure_ok_iff, exists_const, Prod.exists, reduceCtorEq, false_and, and_false] at h
  all_goals
    lp_peel h
    split at h
    · cases h
    · cases h; gain_close
    · simp only [bind_ok_iff, pure_ok_iff] at h
      lp_peel h
      subst h
      gain_close

/-- `selectWinners` changes only `status`, `posToId`, `op`, `flags`, `claimablePayment` -/
theorem selectWinners_flags {hash : List Nat → List Nat} {t t' : Tx} {e : Env}
    (h : selectWinners hash t e = .ok t') : Flags.gain t.s.flags t'.s.flags := by
  unfold selectWinners at h
  cases hop : t.s.op <;>
    simp only [hop, bind_ok_iff, req_ok_iff, pure_ok_iff, exists_const, Prod.exists, reduceCtorEq, false_and, and_false] at h
  all_goals
    lp_peel h
    split at h
    · cases h
    · cases h; gain_close
    · cases h; gain_close

/-- `sendLocked` changes only `bal` -/
theorem Tx.sendLocked_flags {t t' : Tx} {e : Env} {d a : Nat} (h : t.sendLocked e d a = .ok t') :
    t'.s.flags = t.s.flags := by
  unfold Tx.sendLocked at h
  dsimp only at h
  generalize (if e.epoch < t.s.unlockEpoch then lockSplit a t.s.lockPct else 0) = la at h
  split at h
  · simp only [bind_ok_iff, pure_ok_iff] at h
    obtain ⟨t0, h0, t1, rfl, h2⟩ := h
    have e1 := Tx.send_flags h0
    split at h2
    · exact (Tx.send_flags h2).trans e1
    · cases h2; exact e1
  · simp only [bind_ok_iff, pure_ok_iff] at h
    obtain ⟨t1, rfl, h2⟩ := h
    split at h2
    · exact Tx.send_flags h2
    · cases h2; rfl

/-- `sendLaunchpadTokens` changes only `bal` -/
theorem Tx.sendLaunchpadTokens_flags {t t' : Tx} {e : Env} {a n : Nat}
    (h : t.sendLaunchpadTokens e a n = .ok t') : t'.s.flags = t.s.flags := by
  unfold Tx.sendLaunchpadTokens at h
  split at h
  · cases h; rfl
  · dsimp only at h
    split at h
    · exact Tx.sendLocked_flags h
    · exact Tx.send_flags h

/-! ### guaranteed-ticket helpers -/

/-- `addV1Many` changes only `range`, `batch`, `lastTicketId`, `whitelist`, `uts` -/
theorem addV1Many_flags : ∀ (l : List (Nat × Nat × Nat × Bool)) {acc acc' : State × Nat × Nat},
    addV1Many l acc = .ok acc' → acc'.1.flags = acc.1.flags
  | [], acc, acc', h => by simp only [addV1Many, Except.ok.injEq] at h; rw [h]
  | (buyer, staking, energy, migrated) :: rest, (s, tw, tg), acc', h => by
    unfold addV1Many at h
    cases h1 : tryCreateTickets s buyer (staking + energy) with
    | error e => simp [h1] at h
    | ok s1 =>
      simp only [h1] at h
      have e1 := tryCreateTickets_flags h1
      repeat' (split at h)
      all_goals first | (cases h; done) | exact (addV1Many_flags rest h).trans e1

theorem addTicketsV1_flags {s s' : State} {e : Env} {l : List (Nat × Nat × Nat × Bool)}
    (h : addTicketsV1 s e l = .ok s') : s'.flags = s.flags := by
  unfold addTicketsV1 at h
  simp only [bind_ok_iff, pure_ok_iff, Prod.exists] at h
  obtain ⟨_, _, s1, tw, tg, h1, rfl⟩ := h
  exact addV1Many_flags l h1

/-- `addV2Many` changes only `range`, `batch`, `lastTicketId`, `whitelist`, `uts` -/
theorem addV2Many_flags (e : Env) : ∀ (l : List (Nat × Nat × List (Nat × Nat)))
    {acc acc' : State × Nat × Nat × Nat × Nat × Nat},
    addV2Many e l acc = .ok acc' → acc'.1.flags = acc.1.flags
  | [], acc, acc', h => by simp only [addV2Many, Except.ok.injEq] at h; rw [h]
  | (buyer, n, infos) :: rest, (s, tw, tg, uc, ta, ga), acc', h => by
    unfold addV2Many at h
    split at h
    · exact addV2Many_flags e rest h
    · split at h
      · cases h
      · split at h
        · cases h
        · split at h
          · cases h
          · cases h1 : tryCreateTickets s buyer n with
            | error e => simp [h1] at h
            | ok s1 =>
              simp only [h1] at h
              have e1 := tryCreateTickets_flags h1
              repeat' (split at h)
              all_goals first | (cases h; done) | exact (addV2Many_flags e rest h).trans e1

theorem addTicketsV2_flags {t t' : Tx} {e : Env} {l : List (Nat × Nat × List (Nat × Nat))}
    (h : addTicketsV2 t e l = .ok t') : t'.s.flags = t.s.flags := by
  unfold addTicketsV2 at h
  simp only [bind_ok_iff, pure_ok_iff, Prod.exists] at h
  obtain ⟨_, _, s1, tw, tg, uc, ta, ga, h1, rfl⟩ := h
  exact addV2Many_flags e l h1

/-- `clearV1Many` changes only `whitelist`, `uts`, `blUts` -/
theorem clearV1Many_flags : ∀ (l : List Nat) {acc acc' : State × Nat × Nat},
    clearV1Many l acc = .ok acc' → acc'.1.flags = acc.1.flags
  | [], acc, acc', h => by simp only [clearV1Many, Except.ok.injEq] at h; rw [h]
  | u :: rest, (s, removed, tg), acc', h => by
    unfold clearV1Many at h
    dsimp only at h
    repeat' (split at h)
    all_goals first | (cases h; done) | exact (clearV1Many_flags rest h).trans rfl

/-- `clearGuaranteedV1` changes only `whitelist`, `uts`, `blUts`, `nrWinning`, `totalGuaranteed` -/
theorem clearGuaranteedV1_flags {s s' : State} {l : List Nat} (h : clearGuaranteedV1 s l = .ok s') :
    s'.flags = s.flags := by
  unfold clearGuaranteedV1 at h
  simp only [bind_ok_iff, pure_ok_iff, Prod.exists] at h
  obtain ⟨s1, _, _, h1, rfl⟩ := h
  exact clearV1Many_flags l h1

/-- `clearV2Many` changes only `whitelist`, `uts`, `blUts` -/
theorem clearV2Many_flags : ∀ (l : List Nat) {acc acc' : State × Nat × Nat},
    clearV2Many l acc = .ok acc' → acc'.1.flags = acc.1.flags
  | [], acc, acc', h => by simp only [clearV2Many, Except.ok.injEq] at h; rw [h]
  | u :: rest, (s, nw, tg), acc', h => by
    unfold clearV2Many at h
    dsimp only at h
    repeat' (split at h)
    all_goals first | (cases h; done) | exact (clearV2Many_flags rest h).trans rfl

theorem clearGuaranteedV2_flags {s s' : State} {l : List Nat} (h : clearGuaranteedV2 s l = .ok s') :
    s'.flags = s.flags := by
  unfold clearGuaranteedV2 at h
  simp only [bind_ok_iff, pure_ok_iff, Prod.exists] at h
  obtain ⟨s1, _, _, h1, rfl⟩ := h
  exact clearV2Many_flags l h1

/-- `restoreV1Many` changes only `whitelist`, `uts`, `blUts` -/
theorem restoreV1Many_flags : ∀ (l : List Nat) {acc acc' : State × Nat × Nat},
    restoreV1Many l acc = .ok acc' → acc'.1.flags = acc.1.flags
  | [], acc, acc', h => by simp only [restoreV1Many, Except.ok.injEq] at h; rw [h]
  | u :: rest, (s, nw, tg), acc', h => by
    unfold restoreV1Many at h
    dsimp only at h
    repeat' (split at h)
    all_goals first | (cases h; done) | exact (restoreV1Many_flags rest h).trans rfl

theorem restoreGuaranteedV1_flags {s s' : State} {l : List Nat} (h : restoreGuaranteedV1 s l = .ok s') :
    s'.flags = s.flags := by
  unfold restoreGuaranteedV1 at h
  simp only [bind_ok_iff, pure_ok_iff, Prod.exists] at h
  obtain ⟨s1, _, _, h1, rfl⟩ := h
  exact restoreV1Many_flags l h1

/-- `restoreV2Many` changes only `whitelist`, `uts`, `blUts` -/
theorem restoreV2Many_flags : ∀ (l : List Nat) {acc acc' : State × Nat × Nat},
    restoreV2Many l acc = .ok acc' → acc'.1.flags = acc.1.flags
  | [], acc, acc', h => by simp only [restoreV2Many, Except.ok.injEq] at h; rw [h]
  | u :: rest, (s, nw, tg), acc', h => by
    unfold restoreV2Many at h
    dsimp only at h
    repeat' (split at h)
    all_goals first | (cases h; done) | exact (restoreV2Many_flags rest h).trans rfl

theorem restoreGuaranteedV2_flags {s s' : State} {l : List Nat} (h : restoreGuaranteedV2 s l = .ok s') :
    s'.flags = s.flags := by
  unfold restoreGuaranteedV2 at h
  simp only [bind_ok_iff, pure_ok_iff, Prod.exists] at h
  obtain ⟨s1, _, _, h1, rfl⟩ := h
  exact restoreV2Many_flags l h1

/-! `_terms` corollaries for the guaranteed-ticket helpers -/

/-! ### loop bodies that carry the transaction: only `Tx.draw` touches it -/

/-! ### distribution step -/

/-- `guaranteedSubstep` changes only `whitelist`, `status`, `posToId`, `op` -/
theorem guaranteedSubstep_flags {hash : List Nat → List Nat} {t t' : Tx} {g g' : GuarOp} {st : LoopStatus}
    (h : guaranteedSubstep hash t g = .ok (t', g', st)) : t'.s.flags = t.s.flags := by
  unfold guaranteedSubstep at h
  simp only [bind_ok_iff, Prod.exists] at h
  obtain ⟨x, b, st1, h1, h⟩ := h
  cases st1 with
  | outOfFuel => cases h
  | interrupted =>
    simp only [pure_ok_iff, Prod.mk.injEq] at h
    obtain ⟨rfl, _, _⟩ := h
    rfl
  | completed =>
    simp only [bind_ok_iff, Prod.exists] at h
    obtain ⟨y, b2, st2, h2, h⟩ := h
    have hy := runWhile_leftoverBody_tx_s h2
    cases st2 with
    | outOfFuel => cases h
    | interrupted =>
      simp only [pure_ok_iff, Prod.mk.injEq] at h
      obtain ⟨rfl, _, _⟩ := h
      simp only [hy]
      try rfl
    | completed =>
      simp only [pure_ok_iff, Prod.mk.injEq] at h
      obtain ⟨rfl, _, _⟩ := h
      simp only [Tx.setS_s, hy]
      try rfl

theorem creditAdditional_flags (s : State) (add : Nat) : (creditAdditional s add).flags = s.flags := rfl
/-- `distribute` changes only `whitelist`, `status`, `posToId`, `op`, `claimablePayment`, `nrWinning`, `flags` -/
theorem distribute_flags {hash : List Nat → List Nat} {t t' : Tx} {e : Env}
    (h : distribute hash t e = .ok t') : Flags.gain t.s.flags t'.s.flags := by
  unfold distribute at h
  cases hv : t.s.variant.isV2 <;> rcases hop : t.s.op with _ | _ | _ | (g | r) <;>
    simp only [hv, hop, pure_bind, bind_ok_iff, req_ok_iff, exists_const, Prod.exists, reduceCtorEq, false_and, and_false, if_true, if_false, Bool.false_eq_true] at h
  all_goals
    lp_peel h
    have e1 := guaranteedSubstep_flags ‹guaranteedSubstep _ _ _ = _›
    try simp only [Tx.freshRng_s] at e1
    repeat' (split at h)
    all_goals
      simp only [pure_ok_iff] at h
      subst h
      rw [← e1]
      gain_close

/-! ### NFT helpers -/

/-- `nftSubstep` changes only `payers`, `nftWinners`, `op`, `claimableNft` -/
theorem nftSubstep_flags {hash : List Nat → List Nat} {t t' : Tx} {r r' : Rng} {st : LoopStatus}
    (h : nftSubstep hash t r = .ok (t', r', st)) : t'.s.flags = t.s.flags := by
  unfold nftSubstep at h
  simp only [bind_ok_iff, Prod.exists] at h
  obtain ⟨x, b, st1, h1, h⟩ := h
  have hx := runWhile_nftBody_tx_s h1
  simp only at hx
  cases st1 with
  | outOfFuel => cases h
  | interrupted =>
    simp only [pure_ok_iff, Prod.mk.injEq] at h
    obtain ⟨rfl, _, _⟩ := h
    simp only [hx]
    try rfl
  | completed =>
    simp only [pure_ok_iff, Prod.mk.injEq] at h
    obtain ⟨rfl, _, _⟩ := h
    simp only [Tx.setS_s, hx]
    try rfl

/-- `selectNft` changes only `payers`, `nftWinners`, `op`, `claimableNft`, `flags` -/
theorem selectNft_flags {hash : List Nat → List Nat} {t t' : Tx} {e : Env}
    (h : selectNft hash t e = .ok t') : Flags.gain t.s.flags t'.s.flags := by
  unfold selectNft at h
  rcases hop : t.s.op with _ | _ | _ | (g | r) <;>
    simp only [hop, pure_bind, bind_ok_iff, req_ok_iff, exists_const, Prod.exists, reduceCtorEq, false_and, and_false] at h
  all_goals
    lp_peel h
    have e1 := nftSubstep_flags ‹nftSubstep _ _ _ = _›
    try simp only [Tx.freshRng_s] at e1
    repeat' (split at h)
    all_goals
      simp only [pure_ok_iff] at h
      subst h
      rw [← e1]
      gain_close

/-- `secondary` changes only `whitelist`, `status`, `posToId`, `op`, `claimablePayment`, `nrWinning`,
    `payers`, `nftWinners`, `claimableNft`, `flags` -/
theorem secondary_flags {hash : List Nat → List Nat} {t t' : Tx} {e : Env}
    (h : secondary hash t e = .ok t') : Flags.gain t.s.flags t'.s.flags := by
  unfold secondary at h
  rcases hop : t.s.op with _ | _ | _ | (g | r) <;>
    simp only [hop, pure_bind, bind_ok_iff, req_ok_iff, exists_const, Prod.exists, reduceCtorEq, false_and, and_false] at h
  case additional.nft =>
    lp_peel h
    have e1 := nftSubstep_flags ‹nftSubstep _ _ _ = _›
    repeat' (split at h)
    all_goals
      simp only [pure_ok_iff] at h
      subst h
      rw [← e1]
      gain_close
  all_goals
    lp_peel h
    have e1 := guaranteedSubstep_flags ‹guaranteedSubstep _ _ _ = _›
    try simp only [Tx.freshRng_s] at e1
    split at h
    · simp only [bind_ok_iff, Prod.exists] at h
      obtain ⟨t2, r2, st2, h2, h⟩ := h
      have e2 := nftSubstep_flags h2
      simp only [Tx.freshRng_s, Tx.setS_s] at e2
      have e3 : t2.s.flags = t.s.flags := e2.trans e1
      repeat' (split at h)
      all_goals
        simp only [pure_ok_iff] at h
        subst h
        rw [← e3]
        gain_close
    · simp only [pure_ok_iff] at h
      subst h
      rw [← e1]
      gain_close

/-- `confirmNft` changes only `payers` -/
theorem confirmNft_flags {s s' : State} {e : Env} (h : confirmNft s e = .ok s') :
    s'.flags = s.flags := by
  unfold confirmNft at h
  simp only [bind_ok_iff, pure_ok_iff, req_ok_iff, exists_const] at h
  lp_peel h
  subst h
  rfl

/-- `refundNftMany` changes only `payers`, `bal` -/
theorem refundNftMany_flags : ∀ (l : List Nat) {t t' : Tx}, refundNftMany l t = .ok t' →
    t'.s.flags = t.s.flags
  | [], t, t', h => by simp only [refundNftMany, Except.ok.injEq] at h; rw [h]
  | u :: rest, t, t', h => by
    unfold refundNftMany at h
    dsimp only at h
    split at h
    · split at h
      · cases h
      · rename_i t1 h1
        have e1 := Tx.send_flags h1
        exact (refundNftMany_flags rest h).trans e1
    · exact refundNftMany_flags rest h

/-- `claimNft` changes only `nftWinners`, `payers`, `bal` -/
theorem claimNft_flags {t t' : Tx} {e : Env} (h : claimNft t e = .ok t') :
    t'.s.flags = t.s.flags := by
  unfold claimNft at h
  dsimp only [Tx.setS] at h
  cases hw : (swapRemove t.s.nftWinners e.caller).2 <;>
    cases hp : (swapRemove t.s.payers e.caller).2 <;>
    simp only [hw, hp, if_true, if_false, Bool.false_eq_true, bind_ok_iff, req_ok_iff, exists_const] at h
  all_goals
    obtain ⟨_, h⟩ := h
    first
      | (have e1 := Tx.send_flags h; exact e1)
      | (cases h; rfl)

/-- `claimNftPayment` changes only `bal`, `claimableNft` -/
theorem claimNftPayment_flags {t t' : Tx} {e : Env} (h : claimNftPayment t e = .ok t') :
    t'.s.flags = t.s.flags := by
  unfold claimNftPayment at h
  simp only [bind_ok_iff] at h
  obtain ⟨_, _, h⟩ := h
  split at h
  · simp only [bind_ok_iff, pure_ok_iff] at h
    obtain ⟨t1, h1, rfl⟩ := h
    have e1 := Tx.send_flags h1
    exact e1
  · simp only [pure_ok_iff] at h
    subst h
    rfl

/-! ### vesting helpers -/

/-- `claimVested` changes only `status`, `posToId`, `confirmed`, `range`, `batch`, `nrWinning`,
    `claimed`, `bal`, `userTotal`, `userClaimed` -/
theorem claimVested_flags {t t' : Tx} {e : Env} (h : claimVested t e = .ok t') :
    t'.s.flags = t.s.flags := by
  unfold claimVested at h
  dsimp only at h
  cases hv : t.s.variant.isV2 <;> cases hcl : t.s.claimed e.caller <;>
    simp only [hv, hcl, if_true, if_false, Bool.false_eq_true, pure_bind, bind_ok_iff, req_ok_iff, exists_const, Prod.exists] at h
  case false.true | true.true =>
    lp_peel h
    split at h
    · simp only [bind_ok_iff, pure_ok_iff] at h
      obtain ⟨t3, h3, rfl⟩ := h
      have e3 := Tx.send_flags h3
      exact e3
    · cases h; rfl
  all_goals
    lp_peel h
    rename_i s1 redeem refund hs t2 hr c hc
    have e2 : t2.s.flags = t.s.flags := (Tx.refund_flags hr).trans (settle_flags hs)
    generalize ht1 : (if redeem > 0 then t2.setS _ else t2) = t1 at h
    have e1 : t1.s.flags = t.s.flags := by
      subst ht1
      split <;> exact e2
    split at h
    · simp only [bind_ok_iff, pure_ok_iff] at h
      obtain ⟨t3, h3, rfl⟩ := h
      have e3 := Tx.send_flags h3
      exact e3.trans e1
    · cases h; exact e1

/-- `claimPaymentOwn` changes only `claimablePayment`, `totalDeposited`, `bal` -/
theorem claimPaymentOwn_flags {t t' : Tx} {e : Env} (h : claimPaymentOwn t e = .ok t') :
    t'.s.flags = t.s.flags := by
  unfold claimPaymentOwn at h
  simp only [bind_ok_iff] at h
  obtain ⟨_, _, h⟩ := h
  split at h
  · simp only [bind_ok_iff] at h
    obtain ⟨t1, h1, h⟩ := h
    have e0 := Tx.send_flags h1
    have e1 : t1.s.flags = t.s.flags := e0
    repeat' (split at h)
    all_goals first
      | (cases h; exact e1)
      | (have e3 := Tx.send_flags h; exact e3.trans e1)
  · simp only [pure_bind] at h
    repeat' (split at h)
    all_goals first
      | (cases h; rfl)
      | (have e3 := Tx.send_flags h; exact e3)

/-- `claimPaymentCommon` changes only `claimablePayment`, `bal` -/
theorem claimPaymentCommon_flags {t t' : Tx} {e : Env} (h : claimPaymentCommon t e = .ok t') :
    t'.s.flags = t.s.flags := by
  unfold claimPaymentCommon at h
  simp only [bind_ok_iff] at h
  obtain ⟨_, _, h⟩ := h
  split at h
  · simp only [bind_ok_iff] at h
    obtain ⟨t1, h1, extra, _, h⟩ := h
    have e0 := Tx.send_flags h1
    have e1 : t1.s.flags = t.s.flags := e0
    split at h
    · exact (Tx.send_flags h).trans e1
    · cases h; exact e1
  · simp only [pure_bind, bind_ok_iff] at h
    obtain ⟨extra, _, h⟩ := h
    split at h
    · exact Tx.send_flags h
    · cases h; rfl

/-! ### the endpoint table -/

theorem blacklist_tail_flags {e : Env} {l : List Nat} {t2 t' : Tx}
    (h : (do
      let t ← if t2.s.variant.hasNft then refundNftMany l t2 else pure t2
      if t.s.variant.isV2 then
        pure (t.emit ⟨"addUsersToBlacklist", topics e, [e.caller, e.round, e.epoch, l.length] ++ l⟩)
      else pure t : Res Tx) = .ok t') : t'.s.flags = t2.s.flags := by
  split at h
  · simp only [bind_ok_iff] at h
    obtain ⟨t3, h3, h⟩ := h
    have e3 := refundNftMany_flags _ h3
    split at h <;> (cases h; exact e3)
  · simp only [pure_bind] at h
    split at h <;> (cases h; rfl)

theorem exec_blacklist_flags {hash : List Nat → List Nat} {t t' : Tx} {e : Env} {l : List Nat}
    (h : exec hash t e (.blacklist l) = .ok t') : t'.s.flags = t.s.flags := by
  simp only [exec, bind_ok_iff] at h
  obtain ⟨t1, h1, h⟩ := h
  have e1 := addUsersToBlacklist_flags h1
  split at h
  · simp only [bind_ok_iff, pure_bind] at h
    obtain ⟨s2, h2, h⟩ := h
    have e2 := clearGuaranteedV2_flags h2
    exact (blacklist_tail_flags h).trans (e2.trans e1)
  · split at h
    · simp only [bind_ok_iff, pure_bind] at h
      obtain ⟨s2, h2, h⟩ := h
      have e2 := clearGuaranteedV1_flags h2
      exact (blacklist_tail_flags h).trans (e2.trans e1)
    · simp only [pure_bind] at h
      exact (blacklist_tail_flags h).trans e1

/-- the five selection endpoints (the only ones that write `flags`) -/
def Call.isSelection : Call → Bool
  | .filter | .select | .distribute | .selectNft | .secondary => true
  | _ => false

/-- apart from the nine owner endpoints (which keep `flags`, see `exec_flags_gain`) and the five
    selection endpoints, no endpoint body changes `flags` -/
theorem exec_flags_eq {hash : List Nat → List Nat} {t t' : Tx} {e : Env} {c : Call}
    (h : exec hash t e c = .ok t') (hc : c.setsStatic = false) (h5 : c.isSelection = false) :
    t'.s.flags = t.s.flags := by
  cases c with
  | setTicketPrice _ _ | setPerTicket _ | setNftCost _ | deposit | setSchedule1 _ _ _ _ _ | setSchedule2 _
  | setConfStart _ | setSelStart _ | setClaimStart _ =>
    simp [Call.setsStatic] at hc
  | addTickets l =>
    simp only [exec, bind_ok_iff, pure_ok_iff] at h
    obtain ⟨_, _, s1, h1, rfl⟩ := h
    exact createMany_flags l h1
  | addTicketsV1 l =>
    simp only [exec, bind_ok_iff, pure_ok_iff] at h
    obtain ⟨s1, h1, rfl⟩ := h
    exact addTicketsV1_flags h1
  | addTicketsV2 l => exact addTicketsV2_flags (by simpa only [exec] using h)
  | setSupport a | pause | unpause | sftSetup =>
    simp only [exec, pure_ok_iff] at h
    subst h
    rfl
  | filter | select | distribute | selectNft | secondary => simp [Call.isSelection] at h5
  | confirm n => exact confirmTickets_flags (by simpa only [exec] using h)
  | confirmNft =>
    simp only [exec, bind_ok_iff, pure_ok_iff] at h
    obtain ⟨s1, h1, rfl⟩ := h
    exact confirmNft_flags h1
  | issueSft | createSfts | setTransferRole _ =>
    simp only [exec, bind_ok_iff, reduceCtorEq, and_false, exists_false] at h
  | claim =>
    simp only [exec] at h
    split at h
    · exact claimVested_flags h
    · simp only [bind_ok_iff, Prod.exists] at h
      obtain ⟨s1, redeem, refund, hs, t1, h1, t2, h2, h⟩ := h
      have e2 : t2.s.flags = t.s.flags :=
        (Tx.sendLaunchpadTokens_flags h2).trans ((Tx.refund_flags h1).trans (settle_flags hs))
      split at h
      · exact (claimNft_flags h).trans e2
      · cases h; exact e2
  | claimPayment =>
    simp only [exec] at h
    split at h
    · exact claimPaymentOwn_flags h
    · simp only [bind_ok_iff] at h
      obtain ⟨t1, h1, h⟩ := h
      have e1 := claimPaymentCommon_flags h1
      split at h
      · exact (claimNftPayment_flags h).trans e1
      · cases h; exact e1
  | blacklist l => exact exec_blacklist_flags h
  | refundUsers l =>
    simp only [exec, bind_ok_iff, pure_ok_iff] at h
    obtain ⟨t1, h1, s2, h2, rfl⟩ := h
    exact (clearGuaranteedV2_flags h2).trans (addUsersToBlacklist_flags h1)
  | unblacklist l =>
    simp only [exec, bind_ok_iff] at h
    obtain ⟨s1, h1, h⟩ := h
    have e1 := removeUsersFromBlacklist_flags h1
    split at h
    · simp only [bind_ok_iff, pure_ok_iff] at h
      obtain ⟨s2, h2, rfl⟩ := h
      exact (restoreGuaranteedV2_flags h2).trans e1
    · simp only [bind_ok_iff, pure_ok_iff] at h
      obtain ⟨s2, h2, rfl⟩ := h
      exact (restoreGuaranteedV1_flags h2).trans e1


/-- **flags only gain**: every accepted endpoint body keeps `selected` and `additional` once set -/
theorem exec_flags_gain {hash : List Nat → List Nat} {t t' : Tx} {e : Env} {c : Call}
    (h : exec hash t e c = .ok t') : Flags.gain t.s.flags t'.s.flags := by
  cases hcs : c.setsStatic with
  | true =>
    rcases exec_static_cases h with ⟨h0, _⟩ | ⟨_, h1⟩
    · rw [hcs] at h0; cases h0
    · rw [h1]; cases c <;> exact Flags.gain_refl _
  | false =>
    cases h5 : c.isSelection with
    | false => exact Flags.gain_of_eq (exec_flags_eq h hcs h5)
    | true =>
      cases c with
      | filter => exact filterTickets_flags (by simpa only [exec] using h)
      | select => exact selectWinners_flags (by simpa only [exec] using h)
      | distribute => exact distribute_flags (by simpa only [exec] using h)
      | selectNft => exact selectNft_flags (by simpa only [exec] using h)
      | secondary => exact secondary_flags (by simpa only [exec] using h)
      | _ => simp [Call.isSelection] at h5

theorem step_flags_gain {hash : List Nat → List Nat} {s s' : State} {e : Env} {c : Call} {o : Out}
    (h : step hash s e c = .ok (s', o)) : Flags.gain s.flags s'.flags := by
  obtain ⟨m, t, _, _, _, hx, rfl, _⟩ := step_ok_inv h
  exact exec_flags_gain hx

/-- an accepted call never changes the stage *at its own round* through the timeline: either `cfg`
    is untouched or an accepted timeline setter moved a start round that lies in the future -/
theorem step_cfg_keeps_stage {hash : List Nat → List Nat} {s s' : State} {e : Env} {c : Call} {o : Out}
    (h : step hash s e c = .ok (s', o)) (f : Flags) :
    stageOf e.round s'.cfg f = stageOf e.round s.cfg f := by
  rcases step_static_cases h with ⟨_, h1⟩ | ⟨_, h1⟩
  · rw [static_cfg h1]
  · obtain ⟨m, t, _, _, _, hx, rfl, _⟩ := step_ok_inv h
    have h2 : (tx0 s e).s.cfg = s.cfg := rfl
    cases c with
    | setConfStart r =>
      obtain ⟨hv, _, rfl⟩ := exec_setConfStart_ok hx
      rw [h2] at hv
      exact stageOf_setConf s.cfg f hv
    | setSelStart r =>
      obtain ⟨hv, _, rfl⟩ := exec_setSelStart_ok hx
      rw [h2] at hv
      exact stageOf_setSel s.cfg f hv
    | setClaimStart r =>
      obtain ⟨hv, _, rfl⟩ := exec_setClaimStart_ok hx
      rw [h2] at hv
      exact stageOf_setClaim s.cfg f hv
    | _ => rw [h1]; rfl

/-- one accepted transaction at `e`, seen again at any later round `r'`: the stage number does not decrease -/
theorem step_stage_mono {hash : List Nat → List Nat} {s s' : State} {e : Env} {c : Call} {o : Out}
    (h : step hash s e c = .ok (s', o)) {r' : Nat} (hr : e.round ≤ r') :
    (s.stage e).toNat ≤ (stageOf r' s'.cfg s'.flags).toNat := by
  have h1 : s.stage e = stageOf e.round s'.cfg s.flags := (step_cfg_keeps_stage h s.flags).symm
  rw [h1]
  exact stageOf_mono_raw s'.cfg hr (step_flags_gain h)

end LP

#print axioms LP.exec_flags_gain
#print axioms LP.step_flags_gain
#print axioms LP.step_cfg_keeps_stage
#print axioms LP.step_stage_mono
