import LP.Proofs.ReachFilter
/-
  LP.Proofs.ReachSelect — preservation of `WF` by `selectWinners` (interrupted or completed, from
  a fresh or a saved loop state, scripted draws or not) and the hand-over from the pre-selection
  ledger equation to the post-selection one.
-/
namespace LP
open LP.FY

/-- storage after an interrupted / a completed `selectWinners` call that ended in loop state `x` -/
def selInt (s : State) (x : SelSt) : State :=
  { s with status := x.status, posToId := x.posToId, op := .select x.rng x.pos }

def selDone (s : State) (x : SelSt) : State :=
  { s with status := x.status, posToId := x.posToId, op := .none,
           flags := { s.flags with selected := true },
           claimablePayment := s.price * s.nrWinning }

theorem rb_selectWinners_cases {hash : List Nat → List Nat} {t t' : Tx} {e : Env}
    (h : selectWinners hash t e = .ok t') :
    t.s.stage e = .winnerSelection ∧ t.s.flags.filtered = true ∧ t.s.flags.selected = false ∧
    ∃ rng pos t0, ((t.s.op = .none ∧ pos = 1) ∨ t.s.op = .select rng pos) ∧
    ∃ x b st, runWhile (selectBody hash t.s.nrWinning t.s.lastTicketId) (t.s.nrWinning + 2) t0.c.budget
        ⟨t.s.status, t.s.posToId, rng, pos, t0⟩ = .ok (x, b, st) ∧
      ((st = .interrupted ∧ t'.s = selInt t.s x) ∨ (st = .completed ∧ t'.s = selDone t.s x)) := by
  unfold selectWinners at h
  cases hop : t.s.op <;>
    simp only [hop, bind_ok_iff, req_ok_iff, pure_ok_iff, exists_const, Prod.exists, reduceCtorEq,
      false_and, and_false, requireStage] at h
  · obtain ⟨_, hst, _, _, hf, hsel, rng, pos, t0, heq, x, b, st, hrun, hfin⟩ := h
    simp only [Prod.mk.injEq] at heq
    obtain ⟨rfl, rfl, rfl⟩ := heq
    refine ⟨by simpa using hst, hf, by simpa using hsel, _, _, _, Or.inl ⟨rfl, rfl⟩, x, b, st, hrun, ?_⟩
    cases st with
    | outOfFuel => cases hfin
    | interrupted =>
      simp only [pure_ok_iff] at hfin
      subst hfin
      exact Or.inl ⟨rfl, rfl⟩
    | completed =>
      simp only [pure_ok_iff] at hfin
      subst hfin
      exact Or.inr ⟨rfl, rfl⟩
  · rename_i r0 p0
    obtain ⟨_, hst, _, _, hf, hsel, rng, pos, t0, heq, x, b, st, hrun, hfin⟩ := h
    simp only [Prod.mk.injEq] at heq
    obtain ⟨rfl, rfl, rfl⟩ := heq
    refine ⟨by simpa using hst, hf, by simpa using hsel, _, _, _, Or.inr rfl, x, b, st, hrun, ?_⟩
    cases st with
    | outOfFuel => cases hfin
    | interrupted =>
      simp only [pure_ok_iff] at hfin
      subst hfin
      exact Or.inl ⟨rfl, rfl⟩
    | completed =>
      simp only [pure_ok_iff] at hfin
      subst hfin
      exact Or.inr ⟨rfl, rfl⟩

/-! ### the loop -/

/-- loop invariant of the lottery for `nr ≠ 0` -/
def SelP (nr last : Nat) (y : SelSt) : Prop :=
  1 ≤ y.pos ∧ y.pos ≤ nr ∧ ∃ arr, R last y.pos y.status y.posToId arr

theorem rb_selectBody_SelP {hash : List Nat → List Nat} {nr last : Nat} (hnr : nr ≠ 0) (hle : nr ≤ last)
    {y y' : SelSt} (hb : selectBody hash nr last y = .ok (y', true)) (hp : SelP nr last y) :
    SelP nr last y' := by
  obtain ⟨h1, h2, arr, hR⟩ := hp
  rw [selectBody_eq, if_neg hnr] at hb
  split at hb
  · simp at hb
  · rename_i hne
    simp only [Except.ok.injEq, Prod.mk.injEq, and_true] at hb
    subst hb
    exact ⟨by simp [stepSt], by simp only [stepSt]; omega,
      _, R_step (y.tx.draw hash y.rng).1 h1 (by omega) hR⟩

theorem rb_selectBody_final {hash : List Nat → List Nat} {nr last : Nat} (hnr : nr ≠ 0) (hle : nr ≤ last)
    {y x : SelSt} (hb : selectBody hash nr last y = .ok (x, false)) (hp : SelP nr last y) :
    ∃ arr, R last (nr + 1) x.status x.posToId arr := by
  obtain ⟨h1, h2, arr, hR⟩ := hp
  rw [selectBody_eq, if_neg hnr] at hb
  split at hb
  · rename_i heq
    simp only [Except.ok.injEq, Prod.mk.injEq, and_true] at hb
    subst hb
    have := R_step (y.tx.draw hash y.rng).1 h1 (by omega) hR
    rw [← heq]
    exact ⟨_, this⟩
  · simp at hb

/-! ### hand-over -/

theorem rb_pre_to_post (c : Core) (L : List Nat) (hpre : PayPre c L)
    (hcp : c.claimable = c.price * sumOver (winOf c.range c.status) L)
    (hle : ∀ a ∈ L, winOf c.range c.status a ≤ c.confirmed a)
    (hnr : ∀ a ∈ L, c.range a = none → c.confirmed a = 0) : PayPost c L := by
  unfold PayPost PayPre at *
  rw [hpre, hcp, mul_sumOver, mul_sumOver, ← sumOver_add]
  apply sumOver_congr
  intro a ha
  unfold dueC
  cases hr : c.range a with
  | none =>
    have h0 := hnr a ha hr
    have : winOf c.range c.status a = 0 := by simp [winOf, hr]
    simp [h0, this]
  | some r =>
    have := hle a ha
    simp only []
    rw [← Nat.mul_add]
    congr 1
    omega

theorem rb_winOf_le {range : Nat → Option Range} {status : Nat → Bool} {a : Nat} {r : Range} {n : Nat}
    (hr : range a = some r) (hlen : r.last + 1 = r.first + n) : winOf range status a ≤ n := by
  simp only [winOf, hr]
  have := rb_countWinning_le status r.first (rangeLen r)
  unfold rangeLen at this ⊢
  omega

/-- at the completion of the lottery the post-selection phase is established -/
theorem rb_handover {T0 : Nat} {c : Core} (hC : PhC T0 c) {st' : Nat → Bool} {pi' : Nat → Nat}
    {arr : List Nat} (hR : R c.lastTicketId (c.nrWinning + 1) st' pi' arr) :
    PhD { c with status := st', posToId := pi', op := .none,
                 flags := { c.flags with selected := true },
                 claimable := c.price * c.nrWinning } ∧
    countTrue st' c.lastTicketId = c.nrWinning ∧
    (∀ t, st' t = true → 1 ≤ t ∧ t ≤ c.lastTicketId) := by
  obtain ⟨Ls, hnd, hLs, hch, hlast, hout, hpay⟩ := hC.alloc
  have hpos : ∀ p ∈ Ls, 1 ≤ p.2 := fun p hp => (hLs p hp).1
  have hnl : c.nrWinning ≤ c.lastTicketId := by rw [hC.nrw]; omega
  obtain ⟨hcount0, hflags⟩ := rb_R_count hR (by omega)
  have hcount : countTrue st' c.lastTicketId = c.nrWinning := by omega
  have hcc := rb_chain_count st' hch (Nat.le_refl 1)
  simp only [Nat.sub_self, Nat.zero_add, countTrue] at hcc
  rw [← hlast, hcount] at hcc
  have hmem : ∀ a r, c.range a = some r → ∃ p ∈ Ls, p.1 = a := by
    intro a r hr
    apply Classical.byContradiction
    intro hn
    have : a ∉ Ls.map Prod.fst := by
      intro hin
      obtain ⟨p, hp, hpa⟩ := List.mem_map.mp hin
      exact hn ⟨p, hp, hpa⟩
    rw [(hout a this).1] at hr; cases hr
  have hrngOk : ∀ a r, c.range a = some r → r.first ≤ r.last ∧ r.last + 1 = r.first + c.confirmed a := by
    intro a r hr
    obtain ⟨p, hp, rfl⟩ := hmem a r hr
    obtain ⟨r', hr', _, h2, _, h4⟩ := Chain_bounds hch hpos p hp
    rw [hr] at hr'
    injection hr' with hr'
    subst hr'
    exact ⟨h2, by rw [h4, (hLs p hp).2]⟩
  have hrngNone : ∀ a, c.range a = none → c.confirmed a = 0 := by
    intro a hr
    by_cases hin : a ∈ Ls.map Prod.fst
    · obtain ⟨rr, hrr⟩ := rb_Chain_range_some hch hin
      rw [hr] at hrr; cases hrr
    · exact (hout a hin).2
  refine ⟨⟨hC.started, hC.filtered, rfl, rfl, hrngOk, hrngNone, ?_, ?_⟩, hcount, hflags⟩
  · intro a b ra rb hab hra hrb
    obtain ⟨p, hp, rfl⟩ := hmem a ra hra
    obtain ⟨q, hq, rfl⟩ := hmem b rb hrb
    exact Chain_disjoint hch hpos p hp q hq hab ra rb hra hrb
  · refine ⟨Ls.map Prod.fst, hnd, ?_, ?_, hcc⟩
    · intro a ha
      apply Classical.byContradiction
      intro hin
      exact ha (hout a hin).2
    · apply rb_pre_to_post
      · exact hpay
      · show c.price * c.nrWinning = c.price * sumOver (winOf c.range st') (Ls.map Prod.fst)
        rw [hcc]
      · intro a _
        show winOf c.range st' a ≤ c.confirmed a
        cases hr : c.range a with
        | none => simp [winOf, hr]
        | some r => exact rb_winOf_le hr (hrngOk a r hr).2
      · intro a _ hr
        exact hrngNone a hr

/-! ### the endpoint -/

/-- an accepted `selectWinners` call on a well-formed state: the stage, the phase it starts
    from, and the two possible outcomes with the lottery invariant of the final loop state -/
theorem rb_select_cases {T0 : Nat} {hash : List Nat → List Nat} {s s' : State} {e : Env} {o : Out}
    {r : Nat} (h : WF T0 s r) (hs : step hash s e .select = .ok (s', o)) :
    s.stage e = .winnerSelection ∧ PhC T0 s.core ∧ ∃ x : SelSt,
      (s' = selInt s x ∧ 1 ≤ x.pos ∧ x.pos ≤ s.nrWinning ∧
        ∃ arr, R s.lastTicketId x.pos x.status x.posToId arr) ∨
      (s' = selDone s x ∧ ∃ arr, R s.lastTicketId (s.nrWinning + 1) x.status x.posToId arr) := by
  obtain ⟨t, hx, rfl⟩ := rb_step_np (by intro m hm; simp [endpointMeta] at hm; rw [← hm]) hs
  simp only [exec] at hx
  obtain ⟨hstage, hfil, hnsel, rng, pos, t0, hop, x, b, st, hrun, hfin⟩ := rb_selectWinners_cases hx
  simp only [rbTx_s] at hstage hfil hnsel hop hrun hfin
  have hC : PhC T0 s.core := rb_phase_C h.phase hfil hnsel
  refine ⟨hstage, hC, x, ?_⟩
  have hnl : s.nrWinning ≤ s.lastTicketId := by
    have : s.nrWinning = min T0 s.lastTicketId := hC.nrw
    omega
  -- the start position satisfies the invariant
  have hstart : 1 ≤ pos ∧ (s.nrWinning ≠ 0 → pos ≤ s.nrWinning) ∧
      (s.nrWinning = 0 → pos = 1) ∧ ∃ arr, R s.lastTicketId pos s.status s.posToId arr := by
    rcases hC.sel with ⟨hop0, hs0, hp0⟩ | ⟨rng1, pos1, arr, hop1, h1, h2, hR⟩
    · have hop0' : s.op = .none := hop0
      rcases hop with ⟨_, rfl⟩ | hop
      · refine ⟨Nat.le_refl 1, fun hne => by omega, fun _ => rfl, List.range' 1 s.lastTicketId, ?_⟩
        have hs0' : s.status = fun _ => false := hs0
        have hp0' : s.posToId = fun _ => 0 := hp0
        rw [hs0', hp0']
        exact R_init _
      · rw [hop0'] at hop; cases hop
    · have hop1' : s.op = .select rng1 pos1 := hop1
      rcases hop with ⟨hop, _⟩ | hop
      · rw [hop1'] at hop; cases hop
      · rw [hop1'] at hop
        injection hop with e1 e2
        subst e1 e2
        have h2' : pos1 ≤ s.nrWinning := h2
        exact ⟨h1, fun _ => h2', fun h0 => by omega, arr, hR⟩
  obtain ⟨hs1, hs2, hs3, arr0, hR0⟩ := hstart
  by_cases hnr : s.nrWinning = 0
  · -- no draw at all: the loop stops at once
    have hbody : selectBody hash s.nrWinning s.lastTicketId ⟨s.status, s.posToId, rng, pos, t0⟩
        = .ok (⟨s.status, s.posToId, rng, pos, t0⟩, false) := by
      rw [selectBody_eq, if_pos hnr]
    rw [runWhile_stop hbody] at hrun
    simp only [Except.ok.injEq, Prod.mk.injEq] at hrun
    obtain ⟨rfl, _, rfl⟩ := hrun
    rcases hfin with ⟨hh, _⟩ | ⟨_, hs'⟩
    · cases hh
    · have hpos1 := hs3 hnr
      subst hpos1
      exact Or.inr ⟨hs', arr0, by rw [hnr]; exact hR0⟩
  · have hP0 : SelP s.nrWinning s.lastTicketId ⟨s.status, s.posToId, rng, pos, t0⟩ :=
      ⟨hs1, hs2 hnr, arr0, hR0⟩
    obtain ⟨hint, hcomp⟩ := rb_runWhile_inv (SelP s.nrWinning s.lastTicketId)
      (selectBody hash s.nrWinning s.lastTicketId)
      (fun y y' hb hp => rb_selectBody_SelP hnr hnl hb hp) _ _ _ _ _ _ hrun hP0
    rcases hfin with ⟨hst, hs'⟩ | ⟨hst, hs'⟩
    · obtain ⟨p1, p2, arr, hR⟩ := hint hst
      exact Or.inl ⟨hs', p1, p2, arr, hR⟩
    · obtain ⟨y, hPy, hby⟩ := hcomp hst
      exact Or.inr ⟨hs', rb_selectBody_final hnr hnl hby hPy⟩

theorem rb_select {T0 : Nat} {hash : List Nat → List Nat} {s s' : State} {e : Env} {o : Out}
    {r : Nat} (h : WF T0 s r) (_hr : r ≤ e.round)
    (hs : step hash s e .select = .ok (s', o)) : WF T0 s' e.round := by
  obtain ⟨hstage, hC, x, hcase⟩ := rb_select_cases h hs
  obtain ⟨hc1, hc2⟩ := rb_stage_winnerSelection hstage
  rcases hcase with ⟨rfl, p1, p2, arr, hR⟩ | ⟨rfl, arr, hR⟩
  · refine ⟨h.var, h.pricePos, h.tokNe, h.add, h.balOther, ?_, ?_, ?_⟩
    · intro hlt; exfalso; have : e.round < s.cfg.conf := hlt; omega
    · intro _; exact ⟨hc1, hc2⟩
    · right; left
      exact ⟨hC.started, hC.filtered, hC.notSelected, hC.nrw, hC.alloc,
        Or.inr ⟨x.rng, x.pos, arr, rfl, p1, p2, hR⟩⟩
  · obtain ⟨hD, _⟩ := rb_handover (c := s.core) hC (st' := x.status) (pi' := x.posToId) hR
    refine ⟨h.var, h.pricePos, h.tokNe, h.add, h.balOther, ?_, ?_, Or.inr (Or.inr hD)⟩
    · intro hlt; exfalso; have : e.round < s.cfg.conf := hlt; omega
    · intro _; exact ⟨hc1, hc2⟩

/-- the three counts at the completion of the lottery -/
theorem rb_select_completion {T0 : Nat} {hash : List Nat → List Nat} {s s' : State} {e : Env} {o : Out}
    {r : Nat} (h : WF T0 s r) (hs : step hash s e .select = .ok (s', o))
    (hsel : s'.flags.selected = true) :
    countTrue s'.status s'.lastTicketId = s'.nrWinning ∧
    s'.nrWinning = min T0 s'.lastTicketId ∧
    s'.claimablePayment = s'.price * s'.nrWinning ∧
    (∀ t, s'.status t = true → 1 ≤ t ∧ t ≤ s'.lastTicketId) := by
  obtain ⟨_, hC, x, hcase⟩ := rb_select_cases h hs
  rcases hcase with ⟨rfl, _⟩ | ⟨rfl, arr, hR⟩
  · have h1 : s.flags.selected = true := hsel
    have h2 : s.flags.selected = false := hC.notSelected
    rw [h2] at h1; cases h1
  · obtain ⟨_, h1, h2⟩ := rb_handover (c := s.core) hC (st' := x.status) (pi' := x.posToId) hR
    exact ⟨h1, hC.nrw, rfl, h2⟩

end LP
