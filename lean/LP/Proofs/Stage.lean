import LP.Step
/-
  LP.Proofs.Stage — helper definitions and lemmas about the lifecycle stage function
  `stageOf` (launch_stage.rs) and the three timeline setters.
-/
namespace LP

/-- flags only gain: `selected` and `additional` may go false→true, never back -/
def Flags.gain (f f' : Flags) : Prop :=
  (f.selected = true → f'.selected = true) ∧ (f.additional = true → f'.additional = true)

theorem Flags.gain_refl (f : Flags) : Flags.gain f f := ⟨id, id⟩

theorem Flags.gain_trans {f g h : Flags} (a : Flags.gain f g) (b : Flags.gain g h) :
    Flags.gain f h := ⟨fun x => b.1 (a.1 x), fun x => b.2 (a.2 x)⟩

/-- explicit numeric form of the stage -/
theorem stageOf_toNat (round : Nat) (c : Cfg) (f : Flags) :
    (stageOf round c f).toNat =
      if round < c.conf then 0
      else if round < c.sel then 1
      else if f.selected = true ∧ f.additional = true ∧ c.claim ≤ round then 3 else 2 := by
  unfold stageOf
  cases hs : f.selected <;> cases ha : f.additional <;>
    (repeat' split) <;> simp_all [Stage.toNat] <;> omega

theorem Stage.toNat_inj {a b : Stage} (h : a.toNat = b.toNat) : a = b := by
  cases a <;> cases b <;> simp_all [Stage.toNat]

/-- monotone in time and flags (no assumption on the configuration is needed) -/
theorem stageOf_mono_raw {round round' : Nat} (c : Cfg) {f f' : Flags}
    (hr : round ≤ round') (hf : Flags.gain f f') :
    (stageOf round c f).toNat ≤ (stageOf round' c f').toNat := by
  rw [stageOf_toNat, stageOf_toNat]
  obtain ⟨h1, h2⟩ := hf
  by_cases hA : f.selected = true ∧ f.additional = true ∧ c.claim ≤ round
  · have hB : f'.selected = true ∧ f'.additional = true ∧ c.claim ≤ round' :=
      ⟨h1 hA.1, h2 hA.2.1, by omega⟩
    rw [if_pos hA, if_pos hB]
    repeat' split
    all_goals omega
  · rw [if_neg hA]
    repeat' split
    all_goals omega

/-! ### timeline setters -/

/-- the validity check of a timeline change, unfolded -/
theorem validTimelineChange_ok {round old new : Nat} :
    validTimelineChange round old new = .ok () ↔ round < old ∧ round < new := by
  unfold validTimelineChange req
  by_cases h1 : old > round <;> by_cases h2 : new > round <;>
    simp [h1, h2, bind, Except.bind] <;> omega

theorem validTimelineChange_err {round old new : Nat} (h : old ≤ round) :
    validTimelineChange round old new =
      .error (.user "Cannot change start round, it's either in progress or passed already") := by
  unfold validTimelineChange req
  have : ¬ old > round := by omega
  simp [this, bind, Except.bind]

theorem stageOf_setConf {round r : Nat} (c : Cfg) (f : Flags)
    (h : validTimelineChange round c.conf r = .ok ()) :
    stageOf round { c with conf := r } f = stageOf round c f := by
  obtain ⟨h1, h2⟩ := validTimelineChange_ok.1 h
  simp [stageOf, h1, h2]

theorem stageOf_setSel {round r : Nat} (c : Cfg) (f : Flags)
    (h : validTimelineChange round c.sel r = .ok ()) :
    stageOf round { c with sel := r } f = stageOf round c f := by
  obtain ⟨h1, h2⟩ := validTimelineChange_ok.1 h
  simp [stageOf, h1, h2]

theorem stageOf_setClaim {round r : Nat} (c : Cfg) (f : Flags)
    (h : validTimelineChange round c.claim r = .ok ()) :
    stageOf round { c with claim := r } f = stageOf round c f := by
  obtain ⟨h1, h2⟩ := validTimelineChange_ok.1 h
  simp [stageOf, h1, h2]

/-! ### the endpoints of `exec` -/

private theorem req_ok {c : Bool} {msg : String} : req c msg = .ok () ↔ c = true := by
  unfold req; cases c <;> simp

/-- inversion of `exec … (.setConfStart r)` -/
theorem exec_setConfStart_ok {hash : List Nat → List Nat} {t t' : Tx} {e : Env} {r : Nat}
    (h : exec hash t e (.setConfStart r) = .ok t') :
    validTimelineChange e.round t.s.cfg.conf r = .ok () ∧
    validPeriods { t.s.cfg with conf := r } = true ∧
    t' = t.setS { t.s with cfg := { t.s.cfg with conf := r } } := by
  simp only [exec, bind, Except.bind, pure, Except.pure] at h
  split at h
  · cases h
  · rename_i u hv
    cases u
    refine ⟨hv, ?_⟩
    split at h
    · cases h
    · rename_i u hq
      cases u
      exact ⟨req_ok.1 hq, by cases h; rfl⟩

theorem exec_setSelStart_ok {hash : List Nat → List Nat} {t t' : Tx} {e : Env} {r : Nat}
    (h : exec hash t e (.setSelStart r) = .ok t') :
    validTimelineChange e.round t.s.cfg.sel r = .ok () ∧
    validPeriods { t.s.cfg with sel := r } = true ∧
    t' = t.setS { t.s with cfg := { t.s.cfg with sel := r } } := by
  simp only [exec, bind, Except.bind, pure, Except.pure] at h
  split at h
  · cases h
  · rename_i u hv
    cases u
    refine ⟨hv, ?_⟩
    split at h
    · cases h
    · rename_i u hq
      cases u
      exact ⟨req_ok.1 hq, by cases h; rfl⟩

theorem exec_setClaimStart_ok {hash : List Nat → List Nat} {t t' : Tx} {e : Env} {r : Nat}
    (h : exec hash t e (.setClaimStart r) = .ok t') :
    validTimelineChange e.round t.s.cfg.claim r = .ok () ∧
    validPeriods { t.s.cfg with claim := r } = true ∧
    t' = t.setS { t.s with cfg := { t.s.cfg with claim := r } } := by
  simp only [exec, bind, Except.bind, pure, Except.pure] at h
  split at h
  · cases h
  · rename_i u hv
    cases u
    refine ⟨hv, ?_⟩
    split at h
    · cases h
    · rename_i u hq
      cases u
      exact ⟨req_ok.1 hq, by cases h; rfl⟩

theorem validPeriods_iff (c : Cfg) : validPeriods c = true ↔ c.conf < c.sel ∧ c.sel ≤ c.claim := by
  simp [validPeriods]

/-! ### abstract timeline: (round, cfg, flags) and its admissible moves -/

/-- the part of the world the stage depends on -/
structure TL where
  round : Nat
  cfg : Cfg
  flags : Flags

def TL.stage (x : TL) : Stage := stageOf x.round x.cfg x.flags

/-- one admissible move: time passes, a flag is gained, or a setter call is accepted -/
inductive TLStep : TL → TL → Prop where
  | advance (x : TL) (r' : Nat) (h : x.round ≤ r') : TLStep x { x with round := r' }
  | gain (x : TL) (f' : Flags) (h : Flags.gain x.flags f') : TLStep x { x with flags := f' }
  | setConf (x : TL) (r : Nat) (h : validTimelineChange x.round x.cfg.conf r = .ok ())
      (hv : validPeriods { x.cfg with conf := r } = true) :
      TLStep x { x with cfg := { x.cfg with conf := r } }
  | setSel (x : TL) (r : Nat) (h : validTimelineChange x.round x.cfg.sel r = .ok ())
      (hv : validPeriods { x.cfg with sel := r } = true) :
      TLStep x { x with cfg := { x.cfg with sel := r } }
  | setClaim (x : TL) (r : Nat) (h : validTimelineChange x.round x.cfg.claim r = .ok ())
      (hv : validPeriods { x.cfg with claim := r } = true) :
      TLStep x { x with cfg := { x.cfg with claim := r } }

/-- reflexive-transitive closure -/
inductive TLSteps : TL → TL → Prop where
  | refl (x : TL) : TLSteps x x
  | cons {x y z : TL} (h : TLStep x y) (t : TLSteps y z) : TLSteps x z

theorem TLStep.stage_le {x y : TL} (h : TLStep x y) : x.stage.toNat ≤ y.stage.toNat := by
  cases h with
  | advance r' h => exact stageOf_mono_raw x.cfg h (Flags.gain_refl _)
  | gain f' h => exact stageOf_mono_raw x.cfg (Nat.le_refl _) h
  | setConf r h hv => exact Nat.le_of_eq (by simp [TL.stage, stageOf_setConf x.cfg x.flags h])
  | setSel r h hv => exact Nat.le_of_eq (by simp [TL.stage, stageOf_setSel x.cfg x.flags h])
  | setClaim r h hv => exact Nat.le_of_eq (by simp [TL.stage, stageOf_setClaim x.cfg x.flags h])

theorem TLStep.round_le {x y : TL} (h : TLStep x y) : x.round ≤ y.round := by
  cases h <;> simp_all

theorem TLStep.validPeriods {x y : TL} (h : TLStep x y) (hv : validPeriods x.cfg = true) :
    validPeriods y.cfg = true := by
  cases h <;> simp_all

end LP
