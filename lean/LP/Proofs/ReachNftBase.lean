import LP.Proofs.ReachNftClaim
/-
  LP.Proofs.ReachNftBase — the invariant `nf_WF` holds in every reachable state of
  `Variant.nft` (launchpad-with-nft):

      nf_init_WF   deployment establishes `nf_WF`
      nf_call_WF   every accepted call keeps it
      nf_wait_WF   the passing of time keeps it
      nf_reach_WF  hence it holds in every state of `ReachA hash .nft a0`

  `Reach` / `ReachA` / `EnvOK` / `CallOK` are those of `LP/Proofs/ReachBase.lean`: every
  transaction carries EGLD or ESDT but not both, every `addTickets` entry allocates at least one
  ticket.  NO assumption is made on the tokens: `setNftCost` / `setTicketPrice` may change the fee
  token / payment token (in the AddTickets stage) in any way the contract accepts.
-/
namespace LP
open LP.FY

/-- the endpoints `Variant.nft` does not expose are rejected by the dispatcher; the three SFT
    set-up endpoints that call the system contract are not modelled (always rejected) -/
theorem nf_exposed {hash : List Nat → List Nat} {s s' : State} {e : Env} {c : Call} {o : Out}
    (hv : s.variant = .nft) (hs : step hash s e c = .ok (s', o)) :
    match c with
    | .addTicketsV1 _ | .addTicketsV2 _ | .refundUsers _ | .unblacklist _ | .distribute
    | .setSchedule1 .. | .setSchedule2 _ | .secondary
    | .issueSft | .createSfts | .setTransferRole _ => False
    | _ => True := by
  obtain ⟨m, t, hm, _, _, hx, _, _⟩ := step_ok_inv hs
  rw [hv] at hm
  cases c <;> first
    | trivial
    | (simp [endpointMeta] at hm; done)
    | (simp [exec, bind_ok_iff] at hx; done)

/-- **preservation**: every accepted call of the launchpad with NFT draw keeps the invariant -/
theorem nf_call_WF {T0 : Nat} {hash : List Nat → List Nat} {s s' : State} {e : Env} {c : Call} {o : Out}
    {r : Nat} (h : nf_WF T0 s r) (hr : r ≤ e.round) (hok : EnvOK e) (hc : CallOK c)
    (hs : step hash s e c = .ok (s', o)) : nf_WF T0 s' e.round := by
  have hex := nf_exposed h.var hs
  cases c with
  | addTickets l => exact nf_addTickets h hr hc hs
  | deposit => exact nf_deposit h hr hok hs
  | setTicketPrice tok a => exact nf_setTicketPrice h hr hs
  | setPerTicket a => exact nf_setPerTicket h hr hs
  | setConfStart x => exact nf_setConfStart h hr hs
  | setSelStart x => exact nf_setSelStart h hr hs
  | setClaimStart x => exact nf_setClaimStart h hr hs
  | setSupport a => exact nf_setSupport h hr hs
  | pause => exact nf_pause h hr hs
  | unpause => exact nf_unpause h hr hs
  | confirm n => exact nf_confirm h hr hok hs
  | filter => exact nf_filter h hr hs
  | select => exact nf_select h hr hs
  | claim => exact nf_claim h hr hs
  | claimPayment => exact nf_claimPayment h hr hs
  | blacklist l => exact nf_blacklist h hr hs
  | confirmNft => exact nf_confirmNft h hr hok hs
  | selectNft => exact nf_selectNft h hr hs
  | setNftCost c => exact nf_setNftCost h hr hs
  | sftSetup => exact nf_sftSetup h hr hs
  | _ => exact absurd hex id

/-- the invariant holds in every reachable state of the launchpad with NFT draw -/
theorem nf_reach_WF {hash : List Nat → List Nat} {a0 : InitArgs} {s : State} {r : Nat}
    (h : ReachA hash .nft a0 s r) : nf_WF a0.nrWinning s r := by
  induction h with
  | init e s h => exact nf_init_WF h
  | call s r e c s' o _ h1 h2 h3 h4 ih => exact nf_call_WF ih h1 h2 h3 h4
  | wait s r r' _ h1 ih => exact nf_wait_WF ih h1

end LP

#print axioms LP.nf_init_WF
#print axioms LP.nf_call_WF
#print axioms LP.nf_wait_WF
#print axioms LP.nf_reach_WF
