import LP.Proofs.AllocReach
import LP.Proofs.Once
import LP.Proofs.CBFrame
import LP.Proofs.ReachVVWF
import LP.Proofs.ReachNftFrame
import LP.Proofs.ReachNGFrame
import LP.Proofs.AllVariants2Aux
/-
  LP.Proofs.Gaps — helper lemmas (prefix `gp_`) for `LP/Props/C03proceeds.lean`:

  PART A (C03)  `gp_proceeds_core`: the endpoint-by-endpoint frame of the owner's proceeds once the
                base lottery is complete, for ANY variant, from the timeline facts (`conf ≤ r`,
                `sel ≤ r`) and the effect of the additional step / `claim` / `claimPayment` on
                `claimablePayment`; `gp_proceeds_done` (all selection steps complete); instances
                `gp_nf_proceeds_frame`, `gp_nf_proceeds_mid` (launchpad-with-nft, over `nf_WF`;
                `_mid`: between the base lottery and the NFT draw), `gp_ng_proceeds_frame`
                (launchpad-nft-and-guaranteed-tickets, over `ng_WF`), `gp_v2_proceeds_frame`
                (guarV2, over `WF2`, from `vv_done_frame`).
  PART B        `gp_covered_induct`: induction over the union `be_Covered` of the four reachable-
                state relations; `gp_phaseOK_covered` (`PhaseOK` of LP/Proofs/Once.lean in every
                covered state), `gp_unclaimed_covered`; `gp_started_iff` (the `started` flag is
                clear exactly when `filtered = false ∧ op = .none`).
  PART C (C18)  `gp_step_tk_after_filter`, `gp_part_step`, `gp_part_covered`: the partition of the
                ticket space established when the filter completed persists as long as nobody has
                claimed; `gp_later_tk` (history form of the frame).
  PART D (C18)  `gp_filter_starts`, `gp_step_keeps`, `gp_later_keeps`: records are kept exactly
                until the filter starts (flag-based form of `ar_later_keeps`).
  `gp_covered_of_reachOfA`: `ReachOfA` ⇒ `be_Covered`.
-/
namespace LP
open LP.Props LP.Events LP.FY LP.Props.C17

/-! ## PART A — the owner's proceeds after completion -/

theorem gp_credit_cp (s : State) (e : Env) :
    (creditPayments s e).claimablePayment = s.claimablePayment := rfl

theorem gp_ownerEdit_cp (s : State) (c : Call) :
    (ownerEdit s c).claimablePayment = s.claimablePayment := by
  cases c <;> rfl

/-- **the frame of the proceeds, any variant**: the base lottery complete (so the confirmation and
    selection rounds are reached); given that the additional step and `claim` keep the recorded
    proceeds and `claimPayment` clears them (these facts come from the lemmas of the family), every
    accepted call keeps the price and the completion flags and leaves the proceeds alone unless it
    is `claimPayment` -/
theorem gp_proceeds_core {hash : List Nat → List Nat} {s s' : State} {e : Env} {c : Call}
    {o : Out} {r : Nat} (hc1 : s.cfg.conf ≤ r) (hc2 : s.cfg.sel ≤ r) (hr : r ≤ e.round)
    (hsel : s.flags.selected = true) (hfil : s.flags.filtered = true)
    (hs : step hash s e c = .ok (s', o))
    (hadd : c.isAdditional = true → s'.claimablePayment = s.claimablePayment)
    (hclaim : c = .claim → s'.claimablePayment = s.claimablePayment)
    (hcp : c = .claimPayment → s'.claimablePayment = 0) :
    s'.price = s.price ∧ s'.flags.selected = true ∧
    (s.flags.additional = true → s'.flags.additional = true) ∧
    (s'.claimablePayment = s.claimablePayment ∨ (c = .claimPayment ∧ s'.claimablePayment = 0)) := by
  have hnotAdd : s.stage e ≠ .addTickets := fun hh => by have := rb_stage_addTickets hh; omega
  have hnotConf : s.stage e ≠ .confirm := fun hh => by have := (rb_stage_confirm hh).2; omega
  have hprice : s'.price = s.price :=
    terms_price (terms_frozen_after_confirmation_starts_all hs hnotAdd).1
  have hg := step_flags_gain4 hs
  refine ⟨hprice, hg.2.2.1 hsel, hg.2.2.2, ?_⟩
  have hstatic : c.setsStatic = true → s'.claimablePayment = s.claimablePayment := by
    intro hc
    rcases step_static_cases hs with ⟨hc', _⟩ | ⟨_, h1⟩
    · rw [hc] at hc'; cases hc'
    · rw [h1, gp_ownerEdit_cp, gp_credit_cp]
  have hpure : (∀ t t' : Tx, exec hash t e c = .ok t' →
      t'.s.claimablePayment = t.s.claimablePayment) → s'.claimablePayment = s.claimablePayment := by
    intro hx
    obtain ⟨m, t, _, _, _, hx', rfl, _⟩ := step_ok_inv hs
    exact hx _ _ hx'
  cases c with
  | addTickets l =>
    exact absurd (C06.alloc_only_in_addTickets hash s e _ _ (Or.inl ⟨l, rfl⟩) hs) hnotAdd
  | addTicketsV1 l =>
    exact absurd (C06.alloc_only_in_addTickets hash s e _ _ (Or.inr (Or.inl ⟨l, rfl⟩)) hs) hnotAdd
  | addTicketsV2 l =>
    exact absurd (C06.alloc_only_in_addTickets hash s e _ _ (Or.inr (Or.inr ⟨l, rfl⟩)) hs) hnotAdd
  | deposit => exact Or.inl (hstatic rfl)
  | setTicketPrice tok a => exact Or.inl (hstatic rfl)
  | setPerTicket a => exact Or.inl (hstatic rfl)
  | setConfStart x => exact Or.inl (hstatic rfl)
  | setSelStart x => exact Or.inl (hstatic rfl)
  | setClaimStart x => exact Or.inl (hstatic rfl)
  | setSchedule1 a b c d f => exact Or.inl (hstatic rfl)
  | setSchedule2 l => exact Or.inl (hstatic rfl)
  | setNftCost p => exact Or.inl (hstatic rfl)
  | setSupport a =>
    exact Or.inl (hpure fun t t' h => by simp only [exec, pure_ok_iff] at h; subst h; rfl)
  | pause =>
    exact Or.inl (hpure fun t t' h => by simp only [exec, pure_ok_iff] at h; subst h; rfl)
  | unpause =>
    exact Or.inl (hpure fun t t' h => by simp only [exec, pure_ok_iff] at h; subst h; rfl)
  | sftSetup =>
    exact Or.inl (hpure fun t t' h => by simp only [exec, pure_ok_iff] at h; subst h; rfl)
  | confirm n =>
    exact absurd (C06.confirm_only_in_confirm hash s e _ _ (Or.inl ⟨n, rfl⟩) hs) hnotConf
  | confirmNft =>
    exact absurd (C06.confirm_only_in_confirm hash s e _ _ (Or.inr rfl) hs) hnotConf
  | blacklist l =>
    rcases C06.blacklist_only_before_selection hash s e _ _ (Or.inl ⟨l, rfl⟩) hs with hh | hh
    · exact absurd hh hnotAdd
    · exact absurd hh hnotConf
  | refundUsers l =>
    rcases C06.blacklist_only_before_selection hash s e _ _ (Or.inr (Or.inl ⟨l, rfl⟩)) hs with hh | hh
    · exact absurd hh hnotAdd
    · exact absurd hh hnotConf
  | unblacklist l =>
    rcases C06.blacklist_only_before_selection hash s e _ _ (Or.inr (Or.inr ⟨l, rfl⟩)) hs with hh | hh
    · exact absurd hh hnotAdd
    · exact absurd hh hnotConf
  | filter =>
    have := (C06.filter_gate hash s e _ hs).2
    rw [hfil] at this; cases this
  | select =>
    have := (C06.select_gate hash s e _ hs).2.2
    rw [hsel] at this; cases this
  | distribute => exact Or.inl (hadd rfl)
  | selectNft => exact Or.inl (hadd rfl)
  | secondary => exact Or.inl (hadd rfl)
  | issueSft =>
    obtain ⟨m, t, _, _, _, hx, _, _⟩ := step_ok_inv hs
    simp only [exec, bind_ok_iff] at hx
    obtain ⟨_, _, hx⟩ := hx
    cases hx
  | createSfts =>
    obtain ⟨m, t, _, _, _, hx, _, _⟩ := step_ok_inv hs
    simp only [exec, bind_ok_iff] at hx
    obtain ⟨_, _, _, _, hx⟩ := hx
    cases hx
  | setTransferRole x =>
    obtain ⟨m, t, _, _, _, hx, _, _⟩ := step_ok_inv hs
    simp only [exec, bind_ok_iff] at hx
    obtain ⟨_, _, hx⟩ := hx
    cases hx
  | claim => exact Or.inl (hclaim rfl)
  | claimPayment => exact Or.inr ⟨rfl, hcp rfl⟩

/-- the same once ALL selection steps are complete (the additional step is closed) -/
theorem gp_proceeds_done {hash : List Nat → List Nat} {s s' : State} {e : Env} {c : Call}
    {o : Out} {r : Nat} (hc1 : s.cfg.conf ≤ r) (hc2 : s.cfg.sel ≤ r) (hr : r ≤ e.round)
    (hd : AllDone s) (hfil : s.flags.filtered = true)
    (hs : step hash s e c = .ok (s', o))
    (hclaim : c = .claim → s'.claimablePayment = s.claimablePayment)
    (hcp : c = .claimPayment → s'.claimablePayment = 0) :
    s'.price = s.price ∧ AllDone s' ∧
    (s'.claimablePayment = s.claimablePayment ∨ (c = .claimPayment ∧ s'.claimablePayment = 0)) := by
  obtain ⟨k1, k2, k3, k4⟩ := gp_proceeds_core hc1 hc2 hr hd.1 hfil hs
    (fun hc => by have := (additional_needs hc hs).2; rw [hd.2] at this; cases this) hclaim hcp
  exact ⟨k1, ⟨k2, k3 hd.2⟩, k4⟩

/-- launchpad-with-nft -/
theorem gp_nf_proceeds_frame {T0 : Nat} {hash : List Nat → List Nat} {s s' : State} {e : Env}
    {c : Call} {o : Out} {r : Nat} (h : nf_WF T0 s r) (hr : r ≤ e.round) (hd : AllDone s)
    (hs : step hash s e c = .ok (s', o)) :
    s'.price = s.price ∧ AllDone s' ∧
    (s'.claimablePayment = s.claimablePayment ∨ (c = .claimPayment ∧ s'.claimablePayment = 0)) := by
  have hD : PhD (nf_core s) := nf_phase_done h.phase hd.2
  have hst : s.flags.started = true := hD.started
  have hfil : s.flags.filtered = true := hD.filtered
  obtain ⟨hc1, hc2⟩ := h.tlStarted hst
  obtain ⟨_, hv2, _⟩ := nf_flags h.var
  refine gp_proceeds_done hc1 hc2 hr hd hfil hs ?_ ?_
  · rintro rfl
    obtain ⟨rg, _, _, rfl⟩ := nf_claim_shape hash s e s' o hv2 hs
    rfl
  · rintro rfl
    obtain ⟨t, hx, rfl⟩ := rb_step_np (by intro m hm; simp [endpointMeta] at hm; rw [← hm]) hs
    obtain ⟨_, _, b, B, cp, cn, hs', hcp, _⟩ := nf_claimPayment_shape h.var h.tokNe hx
    rw [hs']; exact hcp

/-- launchpad-with-nft, between the completed base lottery and the completed NFT draw: nothing
    touches the recorded proceeds (the NFT draw moves participants between the two NFT lists only;
    no claim is possible yet) -/
theorem gp_nf_proceeds_mid {T0 : Nat} {hash : List Nat → List Nat} {s s' : State} {e : Env}
    {c : Call} {o : Out} {r : Nat} (h : nf_WF T0 s r) (hr : r ≤ e.round)
    (hsel : s.flags.selected = true) (hna : s.flags.additional = false)
    (hs : step hash s e c = .ok (s', o)) :
    s'.price = s.price ∧ s'.flags.selected = true ∧ s'.claimablePayment = s.claimablePayment := by
  obtain ⟨hD, _, _⟩ := nf_phase_mid h.phase hsel hna
  have hst : s.flags.started = true := hD.started
  have hfil : s.flags.filtered = true := hD.filtered
  obtain ⟨hc1, hc2⟩ := h.tlStarted hst
  have hnotClaim : s.stage e ≠ .claim := fun hh => by
    have := (LP.Props.C09.claim_stage_selected hh).2.1
    rw [hna] at this; cases this
  obtain ⟨hv1, hv2, _⟩ := nf_flags h.var
  have hadd : c.isAdditional = true → s'.claimablePayment = s.claimablePayment := by
    intro hc
    have hex := nf_exposed h.var hs
    cases c with
    | selectNft =>
      obtain ⟨t, hx, rfl⟩ := rb_step_np (by
        intro m hm; simp only [endpointMeta] at hm; split at hm
        · simp at hm; rw [← hm]
        · cases hm) hs
      have hs0 := h.side
      obtain ⟨_, _, _, P, W, _, _, _, _, _, hcase⟩ :=
        nf_selectNft_cases hx ⟨hs0.nodupP, hs0.nodupW, hs0.disj⟩ hs0.winLe
      rcases hcase with ⟨rng, hs', _⟩ | ⟨hs', _, _⟩
      · rw [hs']; rfl
      · rw [hs']; rfl
    | distribute => exact absurd hex id
    | secondary => exact absurd hex id
    | _ => simp [Call.isAdditional] at hc
  have hclaim : c = .claim → s'.claimablePayment = s.claimablePayment := by
    rintro rfl
    rcases C06.claim_gate hash s e _ hs with h1 | ⟨hv, _⟩
    · exact absurd h1 hnotClaim
    · rw [hv1] at hv; cases hv
  have hcp : c = .claimPayment → s'.claimablePayment = 0 := by
    rintro rfl
    exact absurd (C06.claimPayment_gate hash s e _ hs) hnotClaim
  obtain ⟨k1, k2, _, k4⟩ := gp_proceeds_core hc1 hc2 hr hsel hfil hs hadd hclaim hcp
  refine ⟨k1, k2, ?_⟩
  rcases k4 with k4 | ⟨rfl, _⟩
  · exact k4
  · exact absurd (C06.claimPayment_gate hash s e _ hs) hnotClaim

/-- launchpad-nft-and-guaranteed-tickets -/
theorem gp_ng_proceeds_frame {T0 : Nat} {hash : List Nat → List Nat} {s s' : State} {e : Env}
    {c : Call} {o : Out} {r : Nat} (h : ng_WF T0 s r) (hr : r ≤ e.round) (hd : AllDone s)
    (hs : step hash s e c = .ok (s', o)) :
    s'.price = s.price ∧ AllDone s' ∧
    (s'.claimablePayment = s.claimablePayment ∨ (c = .claimPayment ∧ s'.claimablePayment = 0)) := by
  have hD : PhD (nf_core s) := ng_phase_D h.phase hd.2
  have hst : s.flags.started = true := hD.started
  have hfil : s.flags.filtered = true := hD.filtered
  obtain ⟨hc1, hc2⟩ := h.tlStarted hst
  obtain ⟨_, hv2, _⟩ := ng_flags h.var
  refine gp_proceeds_done hc1 hc2 hr hd hfil hs ?_ ?_
  · rintro rfl
    obtain ⟨rg, _, _, rfl⟩ := nf_claim_shape hash s e s' o hv2 hs
    rfl
  · rintro rfl
    obtain ⟨t, hx, rfl⟩ := rb_step_np (by intro m hm; simp [endpointMeta] at hm; rw [← hm]) hs
    obtain ⟨_, _, b, B, cp, cn, hs', hcp, _⟩ := ng_claimPayment_shape h.var h.tokNe hx
    rw [hs']; exact hcp

/-- launchpad-guaranteed-tickets-v2 (from `vv_done_frame`) -/
theorem gp_v2_proceeds_frame {T0 : Nat} {hash : List Nat → List Nat} {s s' : State} {e : Env}
    {c : Call} {o : Out} {r : Nat} (h : WF2 T0 s r) (hr : r ≤ e.round) (hd : AllDone s)
    (hs : step hash s e c = .ok (s', o)) :
    s'.price = s.price ∧ AllDone s' ∧
    (s'.claimablePayment = s.claimablePayment ∨ (c = .claimPayment ∧ s'.claimablePayment = 0)) := by
  obtain ⟨k1, _, _, k4, _, _, k7, _⟩ := vv_done_frame h hr hd hs
  exact ⟨k1, ⟨by rw [k4]; exact hd.1, by rw [k4]; exact hd.2⟩, k7⟩

/-! ## PART B — induction over the covered states; `PhaseOK`; the `started` flag -/

/-- induction over the union of the four reachable-state relations: a property that holds after
    every deployment and is kept by every accepted call between two covered states holds in every
    covered state -/
theorem gp_covered_induct {hash : List Nat → List Nat} {Q : State → Prop}
    (hinit : ∀ (v : Variant) (a : InitArgs) (e : Env) (s : State), init v a e = .ok s → Q s)
    (hstep : ∀ (s : State) (r : Nat) (s' : State) (e : Env) (c : Call) (o : Out),
      be_Covered hash s r → be_Covered hash s' e.round → r ≤ e.round →
      step hash s e c = .ok (s', o) → Q s → Q s')
    {s : State} {r : Nat} (h : be_Covered hash s r) : Q s := by
  have key : ∀ (v : Variant) (cov : ∀ s r, Reach hash v s r → be_Covered hash s r) (s : State)
      (r : Nat), Reach hash v s r → Q s := by
    intro v cov s r h
    induction h with
    | init a e s h => exact hinit v a e s h
    | call s r e c s' o hre h1 h2 h3 h4 ih =>
      exact hstep s r s' e c o (cov _ _ hre) (cov _ _ (.call s r e c s' o hre h1 h2 h3 h4)) h1 h4 ih
    | wait s r r' _ _ ih => exact ih
  cases h with
  | plain hv h => exact key _ (fun _ _ h => .plain hv h) _ _ h
  | guarV2 h => exact key _ (fun _ _ h => .guarV2 h) _ _ h
  | nft h => exact key _ (fun _ _ h => .nft h) _ _ h
  | v1 hv h =>
    induction h with
    | init a e s h => exact hinit _ a e s h
    | call s r e c s' o hre h1 h2 h3 h4 ih =>
      exact hstep s r s' e c o (.v1 hv hre) (.v1 hv (.call s r e c s' o hre h1 h2 h3 h4)) h1 h4 ih
    | wait s r r' _ _ ih => exact ih
  | guarV1 h =>
    induction h with
    | init a e s h => exact hinit _ a e s h
    | call s r e c s' o hre h1 h2 h3 h4 ih =>
      exact hstep s r s' e c o (.guarV1 hre) (.guarV1 (.call s r e c s' o hre h1 h2 h3 h4)) h1 h4 ih
    | wait s r r' _ _ ih => exact ih
  | nftGuar h =>
    induction h with
    | init a e s h => exact hinit _ a e s h
    | call s r e c s' o hre h1 h2 h3 h4 ih =>
      exact hstep s r s' e c o (.nftGuar hre) (.nftGuar (.call s r e c s' o hre h1 h2 h3 h4)) h1 h4 ih
    | wait s r r' _ _ ih => exact ih

/-- the order invariant of the phase flags (and "nobody has settled before all selection steps
    are complete") holds in every covered state -/
theorem gp_phaseOK_covered {hash : List Nat → List Nat} {s : State} {r : Nat}
    (h : be_Covered hash s r) : PhaseOK s :=
  gp_covered_induct (Q := PhaseOK) (fun _ _ _ _ hi => init_phaseOK hi)
    (fun _ _ _ _ _ _ _ _ _ hst hq => step_phaseOK hq hst) h

/-- until every selection step is complete nobody has claimed -/
theorem gp_unclaimed_covered {hash : List Nat → List Nat} {s : State} {r : Nat}
    (h : be_Covered hash s r) (hna : s.flags.selected = false ∨ s.flags.additional = false) (a : Nat) :
    s.claimed a = false := by
  cases hc : s.claimed a with
  | false => rfl
  | true =>
    obtain ⟨h1, h2⟩ := (gp_phaseOK_covered h).claimed a hc
    rcases hna with h3 | h3
    · rw [h1] at h3; cases h3
    · rw [h2] at h3; cases h3

/-- what the `started` flag means: "the filter has begun" -/
def gp_StartedIff (c : Core) : Prop :=
  c.flags.started = false ↔ (c.flags.filtered = false ∧ c.op = .none)

theorem gp_startedIff_of_Phase {T0 : Nat} {c : Core} (h : Phase T0 c) : gp_StartedIff c := by
  constructor
  · intro hs
    obtain ⟨L0, hp, ha⟩ := rb_phase_notStarted h hs
    exact ⟨hp.notFiltered, ha.op⟩
  · rintro ⟨hf, hop⟩
    rcases h with ⟨L0, hp, ha | hb⟩ | hc | hd
    · exact ha.notStarted
    · obtain ⟨f, rm, h1, _⟩ := hb.mid
      rw [hop] at h1; cases h1
    · rw [hc.filtered] at hf; cases hf
    · rw [hd.filtered] at hf; cases hf

theorem gp_startedIff_of_v1 {T0 : Nat} {c : Core} {g : v1_G} (h : v1_PhaseC T0 c g) :
    gp_StartedIff c := by
  constructor
  · intro hs
    obtain ⟨_, _, L0, hp, ha, _⟩ := v1_phase_notStarted h hs
    exact ⟨hp.notFiltered, ha.op⟩
  · rintro ⟨hf, hop⟩
    rcases h with ⟨_, _, ⟨L0, hp, ⟨h1, _⟩ | ⟨hb, _⟩⟩ | ⟨hc, _⟩ | he⟩ | ⟨_, hd⟩
    · exact h1.notStarted
    · obtain ⟨f, rm, h1, _⟩ := hb.mid
      rw [hop] at h1; cases h1
    · rw [hc.filtered] at hf; cases hf
    · rw [he.filtered] at hf; cases hf
    · rw [hd.filtered] at hf; cases hf

theorem gp_iff_of_both {s : State} (h1 : s.flags.started = true) (h2 : s.flags.filtered = true) :
    s.flags.started = false ↔ (s.flags.filtered = false ∧ s.op = .none) :=
  ⟨fun hs => (by rw [h1] at hs; cases hs), fun hf => (by have := hf.1; rw [h2] at this; cases this)⟩

/-- in every covered state: `started = false` exactly when the filter has neither completed nor
    been interrupted (`filtered = false`, nothing saved) -/
theorem gp_started_iff {hash : List Nat → List Nat} {s : State} {r : Nat}
    (h : be_Covered hash s r) :
    s.flags.started = false ↔ (s.flags.filtered = false ∧ s.op = .none) := by
  cases h with
  | plain hv h =>
    obtain ⟨a0, ha⟩ := Reach_iff.mp h
    exact gp_startedIff_of_Phase (reach_WF hv ha).phase
  | guarV2 h =>
    obtain ⟨a0, ha⟩ := Reach_iff.mp h
    rcases (reach_WF2 ha).phase with ⟨_, _, _, h4⟩ | hE | hF
    · exact gp_startedIff_of_Phase h4
    · exact gp_iff_of_both hE.started hE.filtered
    · exact gp_iff_of_both hF.d.started hF.d.filtered
  | nft h =>
    obtain ⟨a0, ha⟩ := Reach_iff.mp h
    rcases (nf_reach_WF ha).phase with ⟨_, _, h3⟩ | ⟨_, hD, _, _⟩ | ⟨_, hD⟩
    · exact gp_startedIff_of_Phase h3
    · exact gp_iff_of_both hD.started hD.filtered
    · exact gp_iff_of_both hD.started hD.filtered
  | v1 hv h =>
    obtain ⟨a0, ha⟩ := v1_Reach_iff.mp h
    exact gp_startedIff_of_v1 (v1_reach_WF hv ha).phase
  | guarV1 h =>
    obtain ⟨a0, ha⟩ := g1_Reach_iff.mp h
    exact gp_startedIff_of_v1 (g1_reach_WF ha).phase
  | nftGuar h =>
    obtain ⟨a0, ha⟩ := ng_Reach_iff.mp h
    rcases (ng_reach_WF ha).phase with h1 | ⟨hF, _⟩
    · exact gp_startedIff_of_v1 h1
    · exact gp_iff_of_both hF.post.started hF.post.filtered

/-! ## PART C — the partition of the ticket space persists until the first claim -/

theorem gp_part_congr {c c' : Core} {L : List (Nat × Nat)} (h1 : c'.range = c.range)
    (h2 : c'.batch = c.batch) (h3 : c'.lastTicketId = c.lastTicketId)
    (h4 : c'.confirmed = c.confirmed) (h : ar_Part c L) : ar_Part c' L :=
  ⟨h.nodup, h.pos, by rw [h1, h2]; exact h.chain, by rw [h3]; exact h.last,
    fun a ha => by rw [h1, h4]; exact h.out a ha⟩

/-- the filter is complete and nobody has claimed ⇒ the compacted allocation list partitions the
    ticket space and everybody holds exactly the confirmed tickets -/
def gp_PartInv (s : State) : Prop :=
  s.flags.filtered = true → (∀ a, s.claimed a = false) →
    ∃ L, ar_Part s.core L ∧ ∀ p ∈ L, p.2 = s.confirmed p.1

theorem gp_doneFilter_false {e : Env} {c : Call} {o : Out} (hc : c ≠ .filter) :
    Entry.doneFilter (e, c, o) = false := by
  cases c <;> first | rfl | exact absurd rfl hc

/-- a step that keeps the ticket space and `confirmed` keeps the partition -/
theorem gp_part_keeps {s s' : State} {L : List (Nat × Nat)} (htk : s'.tk = s.tk)
    (hconf : s'.confirmed = s.confirmed)
    (h : ar_Part s.core L ∧ ∀ p ∈ L, p.2 = s.confirmed p.1) :
    ar_Part s'.core L ∧ ∀ p ∈ L, p.2 = s'.confirmed p.1 :=
  ⟨gp_part_congr (c := s.core) (c' := s'.core) (tk_range htk) (tk_batch htk) (tk_last htk) hconf h.1,
    fun p hp => by rw [hconf]; exact h.2 p hp⟩

/-- an accepted call, once the filter has completed, other than `claim`: the ticket space and the
    confirmations are unchanged (allocation, confirmation and the blacklist endpoints are closed,
    the filter cannot run again; `select`, `selectNft`, `secondary`, `distribute`, the owner's
    endpoints and `claimPayment` do not touch them) -/
theorem gp_step_tk_after_filter {hash : List Nat → List Nat} {s s' : State} {r : Nat} {e : Env}
    {c : Call} {o : Out} (hs : be_Covered hash s r) (hr : r ≤ e.round)
    (h : step hash s e c = .ok (s', o)) (hf : s.flags.filtered = true) (hcc : c ≠ .claim) :
    s'.tk = s.tk ∧ s'.confirmed = s.confirmed := by
  have hag := ar_good_covered hs
  have hg := (be_family_all hash).good hs
  obtain ⟨hc1, hc2⟩ := hag.tl (hag.filStarted hf)
  have hlate := be_stage_late hg.valid (Nat.le_trans hc2 hr)
  have hcf : c ≠ .filter := by
    rintro rfl
    have := (C06.filter_gate hash s e _ h).2
    rw [hf] at this; cases this
  cases hL : ar_allocList c with
  | some L => exact absurd (ar_step_alloc hL h).1 hlate.1
  | none =>
    obtain ⟨n1, n2, n3⟩ := ar_allocList_none hL
    have htk : s'.tk = s.tk := by
      obtain ⟨m, t, _, _, _, hx, rfl, _⟩ := step_ok_inv h
      exact exec_tk_eq hcc hcf n1 n2 n3 hx
    refine ⟨htk, ?_⟩
    have hcb : s'.cb = s.cb := by
      rw [step_cb h]
      cases c with
      | confirm n =>
        exact absurd (C06.confirm_only_in_confirm hash s e _ _ (Or.inl ⟨n, rfl⟩) h) hlate.2
      | blacklist l =>
        rcases C06.blacklist_only_before_selection hash s e _ _ (Or.inl ⟨l, rfl⟩) h with hh | hh
        · exact absurd hh hlate.1
        · exact absurd hh hlate.2
      | refundUsers l =>
        rcases C06.blacklist_only_before_selection hash s e _ _ (Or.inr (Or.inl ⟨l, rfl⟩)) h with hh | hh
        · exact absurd hh hlate.1
        · exact absurd hh hlate.2
      | unblacklist l =>
        rcases C06.blacklist_only_before_selection hash s e _ _ (Or.inr (Or.inr ⟨l, rfl⟩)) h with hh | hh
        · exact absurd hh hlate.1
        · exact absurd hh hlate.2
      | claim => exact absurd rfl hcc
      | _ => rfl
    exact congrArg CB.confirmed hcb

/-- one accepted call between two covered states keeps `gp_PartInv` -/
theorem gp_part_step {hash : List Nat → List Nat} {s s' : State} {r : Nat} {e : Env} {c : Call}
    {o : Out} (hs : be_Covered hash s r) (hs' : be_Covered hash s' e.round) (hr : r ≤ e.round)
    (h : step hash s e c = .ok (s', o)) (hi : gp_PartInv s) : gp_PartInv s' := by
  intro hf' hcl'
  cases hsel' : s'.flags.selected with
  | false => exact (ar_tix_covered hs').post hf' hsel'
  | true =>
    by_cases hcc : c = .claim
    · exfalso
      rcases step_claimed_cases h with ⟨h1, _⟩ | ⟨_, h1⟩
      · exact h1 hcc
      · have := hcl' e.caller
        rw [h1, upd_apply] at this
        simp at this
    · have hcl : s'.claimed = s.claimed := by
        rcases step_claimed_cases h with ⟨_, h1⟩ | ⟨h1, _⟩
        · exact h1
        · exact absurd h1 hcc
      by_cases hcf : c = .filter
      · subst hcf
        exfalso
        have hg := (be_family_all hash).good hs
        have hnf := (C06.filter_gate hash s e _ h).2
        obtain ⟨m, t, _, _, _, hx, rfl, _⟩ := step_ok_inv h
        have h1 : t.s.flags.selected = s.flags.selected :=
          filterTickets_selected (by simpa only [exec] using hx)
        rw [hsel'] at h1
        have hfil : s.flags.filtered = true := hg.tix.selFil h1.symm
        rw [hfil] at hnf; cases hnf
      · have hf : s.flags.filtered = true := by
          have := (step_flags_exact h).filtered
          rw [gp_doneFilter_false hcf, Bool.or_false] at this
          rw [← this]; exact hf'
        obtain ⟨htk, hconf⟩ := gp_step_tk_after_filter hs hr h hf hcc
        obtain ⟨L, hp⟩ := hi hf (by rw [← hcl]; exact hcl')
        exact ⟨L, gp_part_keeps htk hconf hp⟩

theorem gp_part_covered {hash : List Nat → List Nat} {s : State} {r : Nat}
    (h : be_Covered hash s r) : gp_PartInv s :=
  gp_covered_induct (Q := gp_PartInv)
    (fun _ _ _ s hi hf => by rw [(init_fresh hi).2.1] at hf; cases hf)
    (fun _ _ _ _ _ _ hs hs' hr hst hq => gp_part_step hs hs' hr hst hq) h

/-! ## PART D — records are kept exactly until the filter starts (flag form) -/

/-- an accepted `filter` call sets the `started` flag when nothing was saved -/
theorem gp_filter_starts {hash : List Nat → List Nat} {s s' : State} {e : Env} {o : Out}
    (h : step hash s e .filter = .ok (s', o)) (hop : s.op = .none) : s'.flags.started = true := by
  obtain ⟨m, t, _, _, _, hx, rfl, _⟩ := step_ok_inv h
  simp only [exec] at hx
  obtain ⟨_, x, f, b, hfs, hcase⟩ := rb_filterTickets_cases hx
  have hop0 : (tx0 s e).s.op = .none := hop
  simp only [filStOf, hop0, Option.some.injEq] at hfs
  have hfirst : x.first = 1 := by rw [← hfs]
  have hfl := filterFlags_started (tx0 s e).s x.first (Or.inl hfirst)
  rcases hcase with ⟨_, hs'⟩ | ⟨_, _, hs'⟩
  · rw [hs']; exact hfl
  · rw [hs']; exact hfl

/-- one accepted call from a covered state to a state in which the filter has not started: it had
    not started before either, and every existing record is kept exactly -/
theorem gp_step_keeps {hash : List Nat → List Nat} {s s' : State} {r : Nat} {e : Env} {c : Call}
    {o : Out} (hs : be_Covered hash s r) (h : step hash s e c = .ok (s', o))
    (hns' : s'.flags.started = false) :
    s.flags.started = false ∧ ∀ a rg, s.range a = some rg → s'.range a = some rg := by
  have hns : s.flags.started = false := by
    cases h1 : s.flags.started with
    | false => rfl
    | true =>
      have := (step_flags_gain4 h).1 h1
      rw [hns'] at this; cases this
  refine ⟨hns, ?_⟩
  obtain ⟨hnf, hop⟩ := (gp_started_iff hs).mp hns
  have hg := (be_family_all hash).good hs
  intro a rg hrg
  cases hL : ar_allocList c with
  | some L =>
    obtain ⟨_, _, h2, _, _, h5⟩ := ar_step_alloc hL h
    rw [h5 a (fun ha => by rw [h2 a ha] at hrg; cases hrg)]; exact hrg
  | none =>
    obtain ⟨n1, n2, n3⟩ := ar_allocList_none hL
    by_cases hcf : c = .filter
    · subst hcf
      have := gp_filter_starts h hop
      rw [hns'] at this; cases this
    · by_cases hcc : c = .claim
      · subst hcc
        rcases C06.claim_gate hash s e _ h with h1 | ⟨hv, hcl⟩
        · have := hg.tix.selFil (rb_stage_claim h1).1
          have : s.flags.filtered = true := this
          rw [hnf] at this; cases this
        · rw [hg.fresh hv hnf] at hcl; cases hcl
      · obtain ⟨m, t, _, _, _, hx, rfl, _⟩ := step_ok_inv h
        have := tk_range (exec_tk_eq hcc hcf n1 n2 n3 hx)
        rw [this]; exact hrg

/-- **records are kept until the filter starts**: along any continuation of a covered state that
    ends in a state whose `started` flag is clear, every record is kept exactly (and the flag was
    clear all along) -/
theorem gp_later_keeps {hash : List Nat → List Nat} {s s' : State} {r r' : Nat}
    (hs : be_Covered hash s r) (hl : be_Later be_HistOK hash s r s' r')
    (hns' : s'.flags.started = false) :
    s.flags.started = false ∧ ∀ a rg, s.range a = some rg → s'.range a = some rg := by
  induction hl with
  | refl => exact ⟨hns', fun _ _ h => h⟩
  | call s1 r1 e c s2 o hl1 h1 h2 h3 ih =>
    have hc1 := (be_family_all hash).later hs hl1
    obtain ⟨hn1, hk⟩ := gp_step_keeps hc1 h3 hns'
    obtain ⟨hn0, hk0⟩ := ih hn1
    exact ⟨hn0, fun a rg hrg => hk a rg (hk0 a rg hrg)⟩
  | wait s1 r1 r2 _ h1 ih => exact ih hns'

/-! ## bridge: the per-variant reachable states are covered -/

theorem gp_covered_of_reachOfA {hash : List Nat → List Nat} {v : Variant} {a0 : InitArgs}
    {s : State} {r : Nat} (h : LP.Props.AllVariants.ReachOfA hash v a0 s r) : be_Covered hash s r := by
  cases v <;> simp only [LP.Props.AllVariants.ReachOfA] at h
  · exact .plain (Or.inl rfl) (Reach_iff.mpr ⟨a0, h⟩)
  · exact .plain (Or.inr rfl) (Reach_iff.mpr ⟨a0, h⟩)
  · exact .nft (Reach_iff.mpr ⟨a0, h⟩)
  · exact .guarV1 (g1_Reach_iff.mpr ⟨a0, h⟩)
  · exact .guarV2 (Reach_iff.mpr ⟨a0, h⟩)
  · exact .v1 (Or.inl rfl) (v1_Reach_iff.mpr ⟨a0, h⟩)
  · exact .v1 (Or.inr rfl) (v1_Reach_iff.mpr ⟨a0, h⟩)
  · exact .nftGuar (ng_Reach_iff.mpr ⟨a0, h⟩)

/-- the ticket space and the confirmations are frozen from the completed filter until the first
    claim: along any continuation of a covered state with `filtered = true` that ends in a state
    in which nobody has claimed -/
theorem gp_later_tk {hash : List Nat → List Nat} {s s' : State} {r r' : Nat}
    (hs : be_Covered hash s r) (hf : s.flags.filtered = true)
    (hl : be_Later be_HistOK hash s r s' r') (hcl' : ∀ a, s'.claimed a = false) :
    (∀ a, s.claimed a = false) ∧ s'.flags.filtered = true ∧ s'.tk = s.tk ∧
    s'.confirmed = s.confirmed := by
  induction hl with
  | refl => exact ⟨hcl', hf, rfl, rfl⟩
  | call s1 r1 e c s2 o hl1 h1 h2 h3 ih =>
    have hc1 := (be_family_all hash).later hs hl1
    have hcc : c ≠ .claim := by
      rintro rfl
      rcases step_claimed_cases h3 with ⟨k1, _⟩ | ⟨_, k1⟩
      · exact k1 rfl
      · have := hcl' e.caller
        rw [k1, upd_apply] at this
        simp at this
    have hcl1 : s2.claimed = s1.claimed := by
      rcases step_claimed_cases h3 with ⟨_, k1⟩ | ⟨k1, _⟩
      · exact k1
      · exact absurd k1 hcc
    obtain ⟨i1, i2, i3, i4⟩ := ih (by rw [← hcl1]; exact hcl')
    obtain ⟨j1, j2⟩ := gp_step_tk_after_filter hc1 h1 h3 i2 hcc
    exact ⟨i1, (step_flags_gain4 h3).2.1 i2, j1.trans i3, j2.trans i4⟩
  | wait s1 r1 r2 _ h1 ih => exact ih hcl'

end LP
