import LP.Proofs.ZeroAllocG1FullB
/-
  LP.Proofs.ZeroAllocG1FullC — zero-size allocations for `Variant.guarV1` without any restriction,
  part 3: what the simulation invariant `zh_Inv` gives on the REAL state (ledger, three counts,
  reserve, launchpad-token coverage, vesting ledger, the matched `distribute` / `claim` steps).
-/
namespace LP
open LP.FY LP.Events

/-- from the first `filter` call on the real state is `ZGSim`-related to a well-formed state -/
theorem zh_Inv_started {T0 : Nat} {s : State} {r : Nat} (h : zh_Inv T0 s r)
    (hst : s.flags.started = true) : ∃ z, g1_WF T0 z r ∧ ZGSim s z := by
  rcases h with h | ⟨_, z, hz, hsim⟩
  · rw [h.ns] at hst; cases hst
  · exact ⟨z, hz, hsim⟩

/-- once the lottery is complete the real state is `ZGSim`-related to a well-formed state -/
theorem zh_Inv_selected {T0 : Nat} {s : State} {r : Nat} (h : zh_Inv T0 s r)
    (hsel : s.flags.selected = true) : ∃ z, g1_WF T0 z r ∧ ZGSim s z := by
  rcases h with h | ⟨_, z, hz, hsim⟩
  · have := (zh_PA_flags h).2.1
    rw [hsel] at this; cases this
  · exact ⟨z, hz, hsim⟩

theorem zh_Inv_var {T0 : Nat} {s : State} {r : Nat} (h : zh_Inv T0 s r) : s.variant = .guarV1 := by
  rcases h with h | ⟨_, z, hz, hsim⟩
  · exact (zh_PA_flags h).2.2.2
  · exact zh_var_of_sim hz hsim

/-- the ledger (C01), the three counts and the ranges -/
theorem zh_Inv_ledger {T0 : Nat} {s : State} {r : Nat} (h : zh_Inv T0 s r) :
    ∃ L : List Nat, Covers s L ∧ (¬ AllDone s → PayEqPre s L) ∧
      (AllDone s → PayEqPost s L ∧ sumOver (winCountOf s) L = s.nrWinning ∧
        (∀ a, winCountOf s a ≤ s.confirmed a) ∧
        (∀ a rg, s.range a = some rg → rangeLen rg = s.confirmed a ∧ (rg.first ≤ rg.last → a ∈ L))) := by
  rcases h with h | ⟨_, z, hz, hsim⟩
  · obtain ⟨U, BU, N, TG, hwf, _⟩ := h.sh
    obtain ⟨_, _, hadd, _⟩ := zh_PA_flags h
    obtain ⟨L, h1, h2, _⟩ := g1_WF_ledger hwf
    have hnd : ¬ AllDone s := by intro hd; have := hd.2; rw [hadd] at this; cases this
    exact ⟨L, ⟨h1.nodup, h1.supp⟩, fun _ => h2 hnd, fun hd => absurd hd hnd⟩
  · obtain ⟨L, h1, h2, h3⟩ := g1_WF_ledger hz
    have hfl : z.flags = s.flags := hsim.fields.2.1
    have hcf : z.confirmed = s.confirmed := hsim.fields.2.2.2.2.1
    have hdz : AllDone s → AllDone z := fun hd => by unfold AllDone; rw [hfl]; exact hd
    have hnone : AllDone s → ∀ a, z.range a = none → z.confirmed a = 0 := fun hd =>
      (v1_phase_D hz.phase (hdz hd).2).rngNone
    have hrange := hsim.range
    have hwc : ∀ a, winCountOf s a = winCountOf z a := fun a => hsim.winCountOf_eq a
    have hrd : AllDone s → ∀ a, refundDue s a = refundDue z a := fun hd a =>
      hsim.refundDue_eq (hnone hd) a
    obtain ⟨w, rfl⟩ := hsim.shape'
    refine ⟨L, ⟨h1.nodup, h1.supp⟩, h2, fun hd => ?_⟩
    obtain ⟨k1, k2, k3, k4⟩ := h3 (hdz hd)
    refine ⟨?_, ?_, ?_, ?_⟩
    · unfold PayEqPost at k1 ⊢
      rw [sumOver_congr (fun a _ => hrd hd a)]
      exact k1
    · rw [sumOver_congr (fun a _ => hwc a)]; exact k2
    · intro a; rw [hwc a]; exact k3 a
    · intro a rg hr
      by_cases hne : rg.first ≤ rg.last
      · have hzr : (zg_w s w).range a = some rg := by rw [hrange]; exact z_eraseR_of_ne hr hne
        obtain ⟨j1, _, j3⟩ := k4 a rg hzr
        have j3' : rg.last + 1 = rg.first + s.confirmed a := j3
        exact ⟨by unfold rangeLen; omega, fun _ => j1⟩
      · have hzr : (zg_w s w).range a = none := by rw [hrange]; exact z_eraseR_of_empty hr hne
        have hc : s.confirmed a = 0 := hnone hd a hzr
        refine ⟨?_, fun hh => absurd hh hne⟩
        rw [hc]; unfold rangeLen; omega

/-- reserve conservation -/
theorem zh_Inv_reserve {T0 : Nat} {s : State} {r : Nat} (h : zh_Inv T0 s r) :
    (s.flags.filtered = false → s.nrWinning + s.totalGuaranteed = T0) ∧
    (s.flags.additional = false → s.nrWinning + s.totalGuaranteed ≤ T0) := by
  rcases h with h | ⟨_, z, hz, hsim⟩
  · exact ⟨fun _ => h.sum, fun _ => Nat.le_of_eq h.sum⟩
  · have h1 := g1_reserve_before_filter hz
    have h2 := g1_owed_le hz
    obtain ⟨w, rfl⟩ := hsim.shape'
    exact ⟨h1, h2⟩

/-- before the distribution completes: nobody has settled, a deposit made so far is intact and
    covers the whole reserve -/
theorem zh_Inv_lp_before {T0 : Nat} {s : State} {r : Nat} (h : zh_Inv T0 s r)
    (hd : s.flags.additional = false) :
    (∀ a, s.userTotal a = 0 ∧ s.userClaimed a = 0 ∧ s.claimed a = false) ∧
    (s.deposited = true → s.bal (.esdt s.lpTok) 0 = s.totalDeposited ∧
      s.perTicket * (s.nrWinning + s.totalGuaranteed) ≤ s.totalDeposited) ∧
    (s.deposited = false → s.bal (.esdt s.lpTok) 0 = 0 ∧ ∀ a, s.confirmed a = 0) := by
  rcases h with h | ⟨_, z, hz, hsim⟩
  · have hwfa := zh_WFA_of_PA h
    have hl := hwfa.vs.lp
    have hp := hl.pre hwfa.add
    exact ⟨zh_PA_fresh h, hp.dep, fun hq => ⟨(hl.nodep hq).2.1, (hl.nodep hq).1⟩⟩
  · have hfl : z.flags = s.flags := hsim.fields.2.1
    have hl := hz.vs.lp
    have hp := hl.pre (by show z.flags.additional = false; rw [hfl]; exact hd)
    have hcl : ∀ a, s.claimed a = false := by
      intro a
      cases hc : s.claimed a with
      | false => rfl
      | true => have := (hsim.done a hc).2; rw [hd] at this; cases this
    have hfr := hp.fresh
    have hdep := hp.dep
    have hnd := hl.nodep
    obtain ⟨w, rfl⟩ := hsim.shape'
    exact ⟨fun a => ⟨(hfr a).1, (hfr a).2.1, hcl a⟩, hdep,
      fun hq => ⟨(hnd hq).2.1, (hnd hq).1⟩⟩

/-- `LpCover` after the distribution; before it a deposit covers the whole reserve -/
theorem zh_Inv_lp_cover {T0 : Nat} {s : State} {r : Nat} (h : zh_Inv T0 s r) :
    (s.flags.additional = true → LP.Props.C02.LpCover s) ∧
    (s.flags.additional = false → s.deposited = true →
      s.perTicket * (s.nrWinning + s.totalGuaranteed) ≤ s.bal (.esdt s.lpTok) 0) := by
  constructor
  · intro ha
    rcases h with h | ⟨_, z, hz, hsim⟩
    · have := (zh_PA_flags h).2.2.1
      rw [ha] at this; cases this
    · have hfl : z.flags = s.flags := hsim.fields.2.1
      have ha' : z.flags.additional = true := by rw [hfl]; exact ha
      have hD := v1_phase_D hz.phase ha'
      obtain ⟨L, _, _, heq⟩ := g1_lp_exact hz ⟨hD.selected, ha'⟩
      obtain ⟨w, rfl⟩ := hsim.shape'
      unfold LP.Props.C02.LpCover
      have heq' : s.bal (.esdt s.lpTok) 0 = ownSurplus (zg_w s w) + s.perTicket * s.nrWinning
          + sumOver (fun a => s.userTotal a - s.userClaimed a) L := heq
      omega
  · intro ha hdp
    obtain ⟨_, h2, _⟩ := zh_Inv_lp_before h ha
    obtain ⟨k1, k2⟩ := h2 hdp
    omega

/-- once every selection step is complete the real state is related to a well-formed state that
    is complete as well -/
theorem zh_Inv_done {T0 : Nat} {s : State} {r : Nat} (h : zh_Inv T0 s r) (hd : AllDone s) :
    ∃ z, g1_WF T0 z r ∧ ZGSim s z ∧ AllDone z := by
  obtain ⟨z, hz, hsim⟩ := zh_Inv_selected h hd.1
  have hfl : z.flags = s.flags := hsim.fields.2.1
  exact ⟨z, hz, hsim, by unfold AllDone; rw [hfl]; exact hd⟩

/-- "not yet settled ⇒ no vesting record", and nobody is booked more than his entitlement -/
theorem zh_Inv_norec {T0 : Nat} {s : State} {r : Nat} (h : zh_Inv T0 s r) :
    (∀ a, s.claimed a = false → s.userTotal a = 0 ∧ s.userClaimed a = 0) ∧
    (∀ a, s.userClaimed a ≤ s.userTotal a) := by
  rcases h with h | ⟨_, z, hz, hsim⟩
  · have hf := zh_PA_fresh h
    exact ⟨fun a _ => ⟨(hf a).1, (hf a).2.1⟩, fun a => by rw [(hf a).1, (hf a).2.1]; exact Nat.le_refl _⟩
  · have h1 := zh_norec hz
    have h2 : ∀ a, z.userClaimed a ≤ z.userTotal a := by
      cases ha : z.flags.additional with
      | false =>
        intro a
        have := (hz.vs.lp.pre ha).fresh a
        have e1 : z.userTotal a = 0 := this.1
        have e2 : z.userClaimed a = 0 := this.2.1
        rw [e1, e2]; exact Nat.le_refl _
      | true => exact (hz.vs.lp.post ha).le
    have hcl := hsim.cl
    obtain ⟨w, rfl⟩ := hsim.shape'
    refine ⟨fun a hc => h1 a ?_, h2⟩
    cases hk : (zg_w s w).claimed a with
    | false => rfl
    | true => rw [hcl a hk] at hc; cases hc

/-- exactness of the booked amounts; a stored schedule is valid -/
theorem zh_Inv_exact {T0 : Nat} {s : State} {r : Nat} (h : zh_Inv T0 s r) :
    (∀ a, claimedExactly1 s a r) ∧ (∀ sc, s.sched1 = some sc → validSched1 sc) ∧
    (∀ now, pct1 now s.sched1 ≤ 10000) := by
  rcases h with h | ⟨_, z, hz, hsim⟩
  · obtain ⟨U, BU, N, TG, hwf, _⟩ := h.sh
    have hvs := hwf.vs
    exact ⟨hvs.exact, hvs.sch, g1_pct1_le hvs.sch⟩
  · have hvs := hz.vs
    have h1 := hvs.exact
    have h2 := hvs.sch
    have h3 := g1_pct1_le hvs.sch
    obtain ⟨w, rfl⟩ := hsim.shape'
    exact ⟨h1, h2, h3⟩

/-- an accepted `distribute` call is matched by the same call on a well-formed erased state -/
theorem zh_Inv_distribute {T0 : Nat} {hash : List Nat → List Nat} {s s' : State} {e : Env}
    {o : Out} {r : Nat} (h : zh_Inv T0 s r) (hr : r ≤ e.round) (hok : EnvOK e)
    (hs : step hash s e .distribute = .ok (s', o)) :
    ∃ z z', g1_WF T0 z r ∧ ZGSim s z ∧ g1_WF T0 z' e.round ∧ ZGSim s' z' ∧
      step hash z e .distribute = .ok (z', o) := by
  rcases h with h | ⟨_, z, hz, hsim⟩
  · exfalso
    have := (LP.Props.C06.additional_gate hash s e .distribute _ (Or.inl rfl) hs).2.1
    rw [(zh_PA_flags h).2.1] at this; cases this
  · obtain ⟨z', h1, h2, h3⟩ := zh_PB_distribute hz hsim hr hok hs
    exact ⟨z, z', hz, hsim, h1, h2, h3⟩

/-- an accepted `claim` is matched by the same claim on a well-formed erased state, or (caller
    with an empty range / repeat claim of such a caller) by no step -/
theorem zh_Inv_claim {T0 : Nat} {hash : List Nat → List Nat} {s s' : State} {e : Env}
    {o : Out} {r : Nat} (h : zh_Inv T0 s r) (hr : r ≤ e.round) (hok : EnvOK e)
    (hs : step hash s e .claim = .ok (s', o)) :
    ∃ z z', g1_WF T0 z r ∧ ZGSim s z ∧ g1_WF T0 z' e.round ∧ ZGSim s' z' ∧
      ((step hash z e .claim = .ok (z', o) ∧ z.claimed e.caller = s.claimed e.caller) ∨
        (z' = z ∧ s.userTotal e.caller = 0 ∧
          ((s' = s ∧ s.claimed e.caller = true) ∨
           ∃ rg, s.range e.caller = some rg ∧ rg.last < rg.first ∧ s.claimed e.caller = false ∧
          s' = zg_w s ⟨upd s.range e.caller none, upd s.batch rg.first none, s.blacklist,
                       upd s.claimed e.caller true, s.uts⟩))) := by
  rcases h with h | ⟨_, z, hz, hsim⟩
  · exfalso
    obtain ⟨_, hnsel, _, _⟩ := zh_PA_flags h
    rcases LP.Props.C06.claim_gate hash s e _ hs with h1 | ⟨_, h1⟩
    · have := (v1_stage_claim h1).1
      rw [hnsel] at this; cases this
    · rw [(zh_PA_fresh h e.caller).2.2] at h1; cases h1
  · obtain ⟨z', h1, h2, h3⟩ := zh_PB_claim hz hsim hr hok hs
    exact ⟨z, z', hz, hsim, h1, h2, h3⟩

end LP
